import ZvbiModel.Cc.Refine3
/-!
# Refinement to `Eia608`, part 4: whole pop-on captions and caption streams
-/
namespace Zvbi.Cc
open Zvbi.Gen.Cc Eia608

/-- between captions: non-displayed memory blank, displayed memory shows the reference's, cursor at a segment start;
    either both sides are in pop-on mode, or both are fresh (no mode yet, displayed row under the cursor blank) -/
structure IdleRel (ch : Channel) (v : Service) : Prop where
  inv : ChInv ch
  idx : ch.idx < 4
  coleq : ch.col = ch.col1
  hid : ∀ r, r < 15 → ∀ j, j < 34 → ch.hcell r j = some tsC
  disp : DispOK ch v.disp
  mode : (ch.mode = .popOn ∧ v.mode = some .popOn) ∨
         (ch.mode = .none ∧ v.mode = none ∧ ∀ j, j < 34 → ch.dcell ch.row j = some tsC)
  pen : penMatches ch.attr v.pen

theorem erase_cells {ch : Channel} (h : ChInv ch) (b : Bool) :
    (∀ r, r < 15 → ∀ j, j < 34 → ((eraseMemory ch b).pg b).cell r j = some ch.ts) ∧
    (eraseMemory ch b).pg (!b) = ch.pg (!b) := by
  have hl := pg_len h b
  refine ⟨?_, eraseMemory_other b hl⟩
  intro r hr j hj
  have e := eraseMemory_erased (ch := ch) b hl
  unfold Page.cell
  have : r * 34 + j < rows * columns := by simp; omega
  rw [← take_get _ (rows * columns) _ this, e, List.getElem?_replicate, if_pos this]

/-- Resume Caption Loading as `caption_command` runs it on the addressed caption channel -/
def rclModel (ch : Channel) : Channel := { wordBreak ch true with mode := .popOn }

theorem rcl_enm_step {ch : Channel} {v : Service} (I : IdleRel ch v) :
    PopRel (eraseNonDisplayed (rclModel ch)) ((v.exec .rcl).exec .enm) := by
  have hnoop := wordBreak_false_noop I.coleq
  -- the channel after RCL: same cells
  have hx : ChInv (rclModel ch) ∧ (rclModel ch).idx = ch.idx ∧ (rclModel ch).hidden = ch.hidden ∧
      (rclModel ch).col = ch.col ∧ (rclModel ch).col1 = ch.col1 ∧ (rclModel ch).row = ch.row ∧
      (rclModel ch).attr = ch.attr ∧
      (∀ r j, (rclModel ch).hcell r j = ch.hcell r j) ∧
      (∀ r, r < 15 → ∀ j, j < 34 → ∃ c, (rclModel ch).dcell r j = some c ∧ toRCell c = renderCell false v.disp r j) := by
    unfold rclModel
    rw [wordBreak_true_eq, hnoop]
    rcases I.mode with ⟨hm, _⟩ | ⟨hm, _, hrow⟩
    · have : (ch.mode == .popOn) = true := by rw [hm]; rfl
      rw [if_pos this]
      exact ⟨I.inv.withMode _, rfl, rfl, rfl, rfl, rfl, rfl, fun _ _ => rfl, I.disp⟩
    · have : ¬ (ch.mode == .popOn) = true := by rw [hm]; decide
      rw [if_neg this]
      have uu := update_upd I.inv
      have hui := uu.inv I.inv
      have ur := renderCh_upd (update ch) true ch.row
      have uc := update_cells I.inv
      have rc := renderCh_cells (update ch) true ch.row
      refine ⟨(ur.inv hui).withMode _, by show (renderCh _ _ _).idx = _; rw [ur.idx, uu.idx],
        by show (renderCh _ _ _).hidden = _; rw [ur.hidden, uu.hidden],
        by show (renderCh _ _ _).col = _; rw [ur.col, uu.col],
        by show (renderCh _ _ _).col1 = _; rw [ur.col1, uu.col1],
        by show (renderCh _ _ _).row = _; rw [ur.row, uu.row],
        by show (renderCh _ _ _).attr = _; rw [ur.attr, uu.attr], ?_, ?_⟩
      · intro r j
        show (renderCh (update ch) true ch.row).hcell r j = _
        rw [rc.1, uc.1]
      · intro r hr j hj
        show ∃ c, (renderCh (update ch) true ch.row).dcell r j = some c ∧ _
        rw [rc.2, uc.2 r j hj]
        by_cases he : r = ch.row
        · rw [if_pos he, I.hid r hr j hj]
          obtain ⟨c, hc, e⟩ := I.disp r hr j hj
          rw [he, hrow j hj] at hc
          cases hc
          exact ⟨tsC, rfl, e⟩
        · rw [if_neg he]; exact I.disp r hr j hj
  obtain ⟨xi, xidx, xhid, xcol, xcol1, xrow, xattr, xh, xd⟩ := hx
  have xmode : (rclModel ch).mode = .popOn := rfl
  -- ENM
  have ee : eraseNonDisplayed (rclModel ch) = eraseMemory (rclModel ch) (rclModel ch).hidden := by
    unfold eraseNonDisplayed; rw [xmode]; rfl
  rw [ee]
  have u := eraseMemory_upd xi (rclModel ch).hidden
  obtain ⟨ec, eo⟩ := erase_cells xi (rclModel ch).hidden
  have hts : (rclModel ch).ts = tsC := ts_of_idx4 (by rw [xidx]; exact I.idx)
  have hcell : ∀ r, r < 15 → ∀ j, j < 34 → (eraseMemory (rclModel ch) (rclModel ch).hidden).hcell r j = some tsC := by
    intro r hr j hj
    unfold Channel.hcell
    rw [u.hidden, ec r hr j hj, hts]
  have dcell : ∀ r j, (eraseMemory (rclModel ch) (rclModel ch).hidden).dcell r j = (rclModel ch).dcell r j := by
    intro r j
    unfold Channel.dcell
    rw [u.hidden, eo]
  have ev : (v.exec .rcl).exec .enm = { v with mode := some .popOn, nond := Mem.empty } := rfl
  have hempty : ∀ r c, ((v.exec .rcl).exec .enm).nond r c = none := by intro r c; rw [ev]; rfl
  refine ⟨u.inv xi, by rw [u.idx, xidx]; exact I.idx, by rw [u.mode]; exact xmode, by rw [ev], ?_, ?_, ?_,
    by rw [u.attr, xattr, ev]; exact I.pen⟩
  · intro r hr j hj
    rw [dcell, ev]; exact xd r hr j hj
  · intro r hr _
    exact (hidRow_empty_iff (hempty r)).2 (hcell r hr)
  · refine ⟨false, ch.col1, [], ⟨by rw [u.col1, xcol1], by rw [u.col, xcol, I.coleq]; rfl, I.inv.col1_pos, ?_, ?_,
      by simp, by simp, by simp⟩, ?_⟩
    · have := I.inv.col1_le; have := I.inv.col_le; simp; omega
    · intro j hj
      rw [hcell _ (by rw [u.row, xrow]; have := I.inv.row_le; omega) j hj]
      simp [rowCell]
      intro a b; omega
    · intro c; rw [hempty]; simp


theorem eocSwap_idx {x : Channel} (h : ChInv x) : (eocSwap x).idx = x.idx ∧ (eocSwap x).attr = x.attr := by
  unfold eocSwap
  have u1 := renderCh_upd { x with hidden := !x.hidden } (!(!x.hidden)) (-1)
  have hl := pg_len h
  have hl' : ∀ b, ((renderCh { x with hidden := !x.hidden } (!(!x.hidden)) (-1)).pg b).text.length = 1056 := by
    intro b
    have := hl b
    unfold renderCh Channel.event Page.render
    cases b <;> cases hx : x.hidden <;> simp_all [Channel.setPg, Channel.pg]
  have u2 := eraseMemory_upd' (ch := renderCh { x with hidden := !x.hidden } (!(!x.hidden)) (-1)) (!x.hidden) (hl' _)
  constructor
  · show (eraseMemory _ _).idx = _
    rw [u2.idx, u1.idx]
  · show (eraseMemory _ _).attr = _
    rw [u2.attr, u1.attr]

theorem flatMap_range_length (f : Nat → List RCell) (hf : ∀ i, (f i).length = 34) (n : Nat) :
    ((List.range n).flatMap f).length = n * 34 := by
  induction n with
  | zero => simp
  | succ k ih => rw [List.range_succ, List.flatMap_append, List.length_append, ih]; simp [hf]; omega

theorem mode_eta {ch : Channel} (h : ch.mode = .popOn) : ({ ch with mode := .popOn } : Channel) = ch := by
  cases ch; simp at h; subst h; rfl

/-- **End Of Caption**: the caption that was loaded becomes the displayed memory - and it shows exactly what the
    reference model displays after its memory swap; the non-displayed memory is blank again -/
theorem eoc_step {ch : Channel} {v : Service} (P : PopRel ch v) :
    IdleRel (endOfCaption ch) (v.exec .eoc) ∧ (endOfCaption ch).nev = ch.nev + 1 := by
  unfold endOfCaption
  rw [mode_eta P.mode]
  have hwb : wordBreak ch true = wordBreak ch false := by
    rw [wordBreak_true_eq]
    have : ((wordBreak ch false).mode == .popOn) = true := by rw [(wordBreak_upd P.inv false).mode, P.mode]; rfl
    rw [if_pos this]
  rw [hwb]
  obtain ⟨sb, hall⟩ := P.close
  have hW := sb.upd.inv P.inv
  generalize wordBreak ch false = w at sb hall hW
  obtain ⟨s1, s2, s3, s4, s5, s6, s7, s8⟩ := eocSwap_spec hW
  have hidx : (eocSwap w).idx < 4 := by rw [(eocSwap_idx hW).1, sb.upd.idx]; exact P.idx
  have ev : v.exec .eoc = { v with mode := some .popOn, disp := v.nond, nond := v.disp } := rfl
  refine ⟨⟨eocSwap_inv hW, hidx, by rw [s5, s6], ?_, ?_, Or.inl ⟨by rw [s4, sb.upd.mode]; exact P.mode, by rw [ev]⟩,
    by rw [(eocSwap_idx hW).2, sb.upd.attr, ev]; exact P.pen⟩, by rw [s8, sb.nev]⟩
  · intro r hr j hj
    rw [← nonDisplayed_get _ hr hj, s3, List.getElem?_replicate, if_pos (by simp; omega),
      ts_of_idx4 (by rw [sb.upd.idx]; exact P.idx)]
  · intro r hr j hj
    rw [← displayed_get _ hr hj, s2, nonDisplayed_get _ hr hj, ev]
    exact hall r hr j hj

/-! ## a whole caption, and streams of captions -/

/-- `RCL ENM (PAC text)* EOC` on the addressed caption channel -/
def captionModel (chan : Nat) (ch : Channel) (rows : List PRow) : Channel :=
  endOfCaption (rows.foldl (popRowModel chan) (eraseNonDisplayed (rclModel ch)))

def captionSpec (v : Service) (rows : List PRow) : Service :=
  (rows.foldl popRowSpec ((v.exec .rcl).exec .enm)).exec .eoc

/-- well-formed caption: every row is well-formed in the reference state it meets -/
def captionOk (v : Service) (rows : List PRow) : Prop := rowsOk ((v.exec .rcl).exec .enm) rows

theorem caption_refines {ch : Channel} {v : Service} (I : IdleRel ch v) {chan : Nat} (hchan : chan < 4)
    (rows : List PRow) (hok : captionOk v rows) :
    IdleRel (captionModel chan ch rows) (captionSpec v rows) := by
  have P0 := rcl_enm_step I
  obtain ⟨P1, _⟩ := popRows_steps chan hchan rows P0 hok
  exact (eoc_step P1).1

def streamOk : Service → List (List PRow) → Prop
  | _, [] => True
  | v, c :: rest => captionOk v c ∧ streamOk (captionSpec v c) rest

/-- the libzvbi page and the reference page, compared as lists of 510 printed cells -/
def pageMatches (ch : Channel) (v : Service) : Prop := ch.displayed.map toRCell = render false v.disp

theorem render_get (m : Mem) {r j : Nat} (hr : r < 15) (hj : j < 34) :
    (render false m)[r * 34 + j]? = some (renderCell false m r j) := by
  unfold render
  have : ∀ (n : Nat) (f : Nat → List RCell), (∀ i, (f i).length = 34) → ∀ r, r < n → ∀ j, j < 34 →
      ((List.range n).flatMap f)[r * 34 + j]? = (f r)[j]? := by
    intro n f hf
    induction n with
    | zero => intro r hr; omega
    | succ n ih =>
      intro r hr j hj
      rw [List.range_succ, List.flatMap_append]
      have hlen : ((List.range n).flatMap f).length = n * 34 := flatMap_range_length f hf n
      by_cases hrn : r < n
      · rw [List.getElem?_append_left (by rw [hlen]; omega)]
        exact ih r hrn j hj
      · have : r = n := by omega
        subst this
        rw [List.getElem?_append_right (by rw [hlen]; omega), hlen]
        simp
  rw [this 15 _ (by intro i; simp) r hr j hj]
  simp [hj]

theorem pageMatches_of_dispOK {ch : Channel} {v : Service} (h : ChInv ch) (D : DispOK ch v.disp) : pageMatches ch v := by
  unfold pageMatches
  apply List.ext_getElem?
  intro i
  by_cases hi : i < 510
  · have hr : i / 34 < 15 := by omega
    have hj : i % 34 < 34 := Nat.mod_lt _ (by decide)
    have e : i = (i / 34) * 34 + i % 34 := by omega
    rw [e, render_get _ hr hj, List.getElem?_map, displayed_get _ hr hj]
    obtain ⟨c, hc, ec⟩ := D _ hr _ hj
    rw [hc]; simp [ec]
  · have l1 : (ch.displayed.map toRCell).length = 510 := by
      unfold Channel.displayed; simp [pg_len h]
    have l2 : (render false v.disp).length = 510 := by
      unfold render
      rw [flatMap_range_length _ (by intro i; simp)]
    rw [List.getElem?_eq_none (by omega), List.getElem?_eq_none (by omega)]

/-- **pop-on refinement, channel level.**  From any state in which libzvbi's channel and the reference service
    agree (`IdleRel`: in particular the fresh decoder), after every caption of a well-formed stream of pop-on
    captions the fetched page equals the reference display memory, cell for cell, solid spaces included. -/
theorem popon_stream_refines (chan : Nat) (hchan : chan < 4) (caps : List (List PRow)) :
    ∀ {ch : Channel} {v : Service}, IdleRel ch v → streamOk v caps →
    IdleRel (caps.foldl (captionModel chan) ch) (caps.foldl captionSpec v) ∧
    -- every intermediate visibility point (after each End Of Caption)
    ∀ n, n ≤ caps.length →
      pageMatches ((caps.take n).foldl (captionModel chan) ch) ((caps.take n).foldl captionSpec v) := by
  induction caps with
  | nil =>
    intro ch v I _
    refine ⟨I, ?_⟩
    intro n hn
    simp
    exact pageMatches_of_dispOK I.inv I.disp
  | cons c rest ih =>
    intro ch v I hok
    have I1 := caption_refines I hchan c hok.1
    obtain ⟨I2, hv⟩ := ih I1 hok.2
    refine ⟨I2, ?_⟩
    intro n hn
    cases n with
    | zero => simp; exact pageMatches_of_dispOK I.inv I.disp
    | succ k =>
      simp only [List.take_succ_cons, List.foldl_cons]
      exact hv k (by simpa using hn)


/-! ## the fresh decoder (after `vbi_caption_init` or a channel switch) -/

theorem chswChannel_fresh {ch : Channel} (hp : PreInv ch) (hh : chswHiddenResetFirst = true ∨ ch.hidden = false)
    (hidx : ch.idx < 4) (hattr : ch.attr.underline = false ∧ ch.attr.italic = false ∧ ch.attr.flash = false) :
    IdleRel (chswChannel ch) (Service.init false) := by
  have hinv := chswChannelWith_inv chswHiddenResetFirst hp hh
  unfold chswChannel at *
  unfold chswChannelWith at *
  -- scalars after the first three steps
  have hg : (chswCursorWith chswHiddenResetFirst (chswAttr (chswGeom ch))).hidden = false ∧
      (chswCursorWith chswHiddenResetFirst (chswAttr (chswGeom ch))).idx = ch.idx ∧
      (chswCursorWith chswHiddenResetFirst (chswAttr (chswGeom ch))).mode = .none ∧
      (chswCursorWith chswHiddenResetFirst (chswAttr (chswGeom ch))).col = 1 ∧
      (chswCursorWith chswHiddenResetFirst (chswAttr (chswGeom ch))).col1 = 1 ∧
      (chswCursorWith chswHiddenResetFirst (chswAttr (chswGeom ch))).err = none ∧
      (chswCursorWith chswHiddenResetFirst (chswAttr (chswGeom ch))).pg0.text.length = 1056 ∧
      penMatches (chswCursorWith chswHiddenResetFirst (chswAttr (chswGeom ch))).attr (Service.init false).pen := by
    unfold chswCursorWith chswAttr chswGeom setCursor
    obtain ⟨e, l0, _⟩ := hp
    obtain ⟨a1, a2, a3⟩ := hattr
    simp only [hidx, if_true]
    split <;> exact ⟨rfl, rfl, rfl, rfl, rfl, e, l0, ⟨a1, a2, a3, rfl, rfl, rfl⟩⟩
  generalize chswCursorWith chswHiddenResetFirst (chswAttr (chswGeom ch)) = y at hg hinv ⊢
  obtain ⟨yh, yi, ym, yc, yc1, ye, yl, ypen⟩ := hg
  unfold chswPages at hinv ⊢
  have hl : ((y.setPg false { y.pg false with y0 := 0, y1 := (rows : Int) - 1, roll := 0 }).pg false).text.length = 1056 := by
    rw [pg_setPg_same]; exact yl
  have er := eraseMemory_erased (ch := y.setPg false { y.pg false with y0 := 0, y1 := (rows : Int) - 1, roll := 0 }) false hl
  have un := eraseMemory_upd' (ch := y.setPg false { y.pg false with y0 := 0, y1 := (rows : Int) - 1, roll := 0 }) false hl
  have us := setPg_upd y false { y.pg false with y0 := 0, y1 := (rows : Int) - 1, roll := 0 } rfl
  generalize eraseMemory (y.setPg false { y.pg false with y0 := 0, y1 := (rows : Int) - 1, roll := 0 }) false = z
    at er un hinv ⊢
  have u := us.trans un
  have zh : z.hidden = false := by rw [u.hidden, yh]
  have zts : (y.setPg false { y.pg false with y0 := 0, y1 := (rows : Int) - 1, roll := 0 }).ts = tsC :=
    ts_of_idx4 (by rw [us.idx, yi]; exact hidx)
  have cellz : ∀ r, r < 15 → ∀ j, j < 34 → z.pg0.text[r * 34 + j]? = some tsC := by
    intro r hr j hj
    have : r * 34 + j < rows * columns := by simp; omega
    have e2 : (z.pg false).text = z.pg0.text := rfl
    rw [← e2, ← take_get _ (rows * columns) _ this, er, List.getElem?_replicate, if_pos this, zts]
  refine ⟨hinv, by show z.idx < 4; rw [u.idx, yi]; exact hidx, by show z.col = z.col1; rw [u.col, u.col1, yc, yc1], ?_, ?_,
    Or.inr ⟨by show z.mode = _; rw [u.mode, ym], rfl, ?_⟩, by show penMatches z.attr _; rw [u.attr]; exact ypen⟩
  · intro r hr j hj
    show (({ z with pg1 := z.pg0 } : Channel).pg ({ z with pg1 := z.pg0 } : Channel).hidden).cell r j = _
    show (({ z with pg1 := z.pg0 } : Channel).pg z.hidden).cell r j = _
    rw [zh]; exact cellz r hr j hj
  · intro r hr j hj
    refine ⟨tsC, ?_, ?_⟩
    · show (({ z with pg1 := z.pg0 } : Channel).pg (!z.hidden)).cell r j = _
      rw [zh]; exact cellz r hr j hj
    · rw [toRCell_ts]; exact (render_emptyRow (fun _ => rfl) j).symm
  · intro j hj
    show (({ z with pg1 := z.pg0 } : Channel).pg (!z.hidden)).cell z.row j = _
    rw [zh]
    have hr : z.row ≤ 14 := hinv.row_le
    exact cellz _ (by omega) j hj

/-- every caption channel of the freshly initialised decoder agrees with the fresh reference service -/
theorem init_idle (i : Nat) (hi : i < 4) : ∃ ch, init.chans[i]? = some ch ∧ IdleRel ch (Service.init false) := by
  have hlen : i < init.chans.length := by rw [init_inv.len]; omega
  refine ⟨init.chans[i], List.getElem?_eq_getElem hlen, ?_⟩
  have : init.chans[i] = chswChannel (zeroChannel i) := by
    unfold init St.chsw St.chswWith
    simp [chswChannel]
  rw [this]
  have hz : zeroPage.text.length = 1056 := by
    show (List.replicate textLen _).length = 1056
    rw [List.length_replicate]; rfl
  exact chswChannel_fresh ⟨rfl, hz, hz⟩ (Or.inr rfl) hi ⟨rfl, rfl, rfl⟩

end Zvbi.Cc
