import ZvbiModel.Cc.Model
/-!
# Invariant lemmas for the Closed Caption model (helper file of Props/C08.lean)
-/
namespace Zvbi.Cc
open Zvbi.Gen.Cc

@[simp] theorem rows_eq : rows = 15 := rfl
@[simp] theorem columns_eq : columns = 34 := rfl
@[simp] theorem textLen_eq : textLen = 1056 := rfl
@[simp] theorem nChannels_eq : nChannels = 9 := rfl

/-! ## list helpers -/

theorem fillList_length (l : List Cell) (a n : Nat) (c : Cell) (h : a + n ≤ l.length) :
    (fillList l a n c).length = l.length := by
  simp [fillList]; omega

theorem blit_length (d s : List Cell) (dOff sOff n : Nat) (hd : dOff + n ≤ d.length) (hs : sOff + n ≤ s.length) :
    (blit d s dOff sOff n).length = d.length := by
  simp [blit]; omega

/-! ## the cursor invariant of one channel -/

/-- The cursor / window invariant of `cc_channel` (DESIGN.md section 7, C08 `cursor_inv`). -/
structure ChInv (ch : Channel) : Prop where
  err : ch.err = none
  col1_pos : 1 ≤ ch.col1
  col1_le : ch.col1 ≤ ch.col
  col_le : ch.col ≤ 33
  row_le : ch.row ≤ 14
  roll_pos : 1 ≤ ch.roll
  win : ch.row1 + ch.roll ≤ 15
  line_off : ch.lineOff = ch.row * 34
  line_pg : ch.linePg = ch.hidden
  len0 : ch.pg0.text.length = 1056
  len1 : ch.pg1.text.length = 1056

theorem pg_len {ch : Channel} (h : ChInv ch) (b : Bool) : (ch.pg b).text.length = 1056 := by
  cases b <;> simp [Channel.pg, h.len0, h.len1]


/-- `a` is `b` with possibly different page contents, dirty fields and event count:
    every scalar of the cursor state, the error flag and the text extents are the same. -/
structure Upd (b a : Channel) : Prop where
  idx : a.idx = b.idx
  mode : a.mode = b.mode
  col : a.col = b.col
  col1 : a.col1 = b.col1
  row : a.row = b.row
  row1 : a.row1 = b.row1
  roll : a.roll = b.roll
  nulCt : a.nulCt = b.nulCt
  attr : a.attr = b.attr
  linePg : a.linePg = b.linePg
  lineOff : a.lineOff = b.lineOff
  hidden : a.hidden = b.hidden
  err : a.err = b.err
  len0 : a.pg0.text.length = b.pg0.text.length
  len1 : a.pg1.text.length = b.pg1.text.length

theorem Upd.refl (a : Channel) : Upd a a := by constructor <;> rfl

theorem Upd.trans {a b c : Channel} (h1 : Upd a b) (h2 : Upd b c) : Upd a c := by
  constructor
  · rw [h2.idx, h1.idx]
  · rw [h2.mode, h1.mode]
  · rw [h2.col, h1.col]
  · rw [h2.col1, h1.col1]
  · rw [h2.row, h1.row]
  · rw [h2.row1, h1.row1]
  · rw [h2.roll, h1.roll]
  · rw [h2.nulCt, h1.nulCt]
  · rw [h2.attr, h1.attr]
  · rw [h2.linePg, h1.linePg]
  · rw [h2.lineOff, h1.lineOff]
  · rw [h2.hidden, h1.hidden]
  · rw [h2.err, h1.err]
  · rw [h2.len0, h1.len0]
  · rw [h2.len1, h1.len1]

theorem Upd.inv {a b : Channel} (u : Upd a b) (h : ChInv a) : ChInv b := by
  constructor
  · rw [u.err, h.err]
  · rw [u.col1]; exact h.col1_pos
  · rw [u.col1, u.col]; exact h.col1_le
  · rw [u.col]; exact h.col_le
  · rw [u.row]; exact h.row_le
  · rw [u.roll]; exact h.roll_pos
  · rw [u.row1, u.roll]; exact h.win
  · rw [u.lineOff, u.row]; exact h.line_off
  · rw [u.linePg, u.hidden]; exact h.line_pg
  · rw [u.len0]; exact h.len0
  · rw [u.len1]; exact h.len1

/-- replacing one page by one of the same extent -/
theorem setPg_upd (ch : Channel) (b : Bool) (p : Page) (hp : p.text.length = (ch.pg b).text.length) :
    Upd ch (ch.setPg b p) := by
  cases b <;> constructor <;> simp_all [Channel.setPg, Channel.pg]

theorem event_upd (ch : Channel) : Upd ch ch.event := by constructor <;> rfl

theorem wr_upd {ch : Channel} (h : ChInv ch) {i : Nat} (hi : i ≤ 34) (c : Cell) (s : String) :
    Upd ch (wr ch i c s) := by
  have hl := pg_len h ch.linePg
  have : ch.lineOff + i < 1056 := by have := h.line_off; have := h.row_le; omega
  unfold wr
  simp only [hl, this, if_true]
  exact setPg_upd _ _ _ (by simp)

theorem fill_upd {ch : Channel} (h : ChInv ch) {a n : Nat} (hi : a + n ≤ 35) (c : Cell) (s : String) :
    Upd ch (fill ch a n c s) := by
  have hl := pg_len h ch.linePg
  have : ch.lineOff + a + n ≤ 1056 := by have := h.line_off; have := h.row_le; omega
  unfold fill
  simp only [hl, this, if_true]
  exact setPg_upd _ _ _ (by simp [fillList_length, hl, this])


theorem renderCh_upd (ch : Channel) (b : Bool) (row : Int) : Upd ch (renderCh ch b row) := by
  unfold renderCh
  refine (setPg_upd ch b _ ?_).trans (event_upd _)
  unfold Page.render; split <;> rfl

theorem update_upd {ch : Channel} (h : ChInv ch) : Upd ch (update ch) := by
  have hl := pg_len h
  have : ch.lineOff + 34 ≤ 1056 := by have := h.line_off; have := h.row_le; omega
  unfold update
  simp only [h.line_pg, bne_self_eq_false, Bool.false_eq_true, if_false, hl, columns_eq, this, and_self, if_true]
  exact setPg_upd _ _ _ (by simp [blit_length, hl, this])

theorem eraseMemory_upd {ch : Channel} (h : ChInv ch) (b : Bool) : Upd ch (eraseMemory ch b) := by
  have hl := pg_len h b
  unfold eraseMemory
  simp only [hl, rows_eq, columns_eq]
  exact setPg_upd _ _ _ (by simp [fillList_length, hl])

theorem wordBreak_upd {ch : Channel} (h : ChInv ch) (upd : Bool) : Upd ch (wordBreak ch upd) := by
  have hl := pg_len h ch.linePg
  have hoff := h.line_off
  have hrow := h.row_le
  have hc1 := h.col1_pos
  have hc := h.col_le
  have hcc := h.col1_le
  -- first phase
  have key : ∀ ch' : Channel, Upd ch ch' →
      Upd ch (if !upd || ch'.mode == .popOn then ch' else renderCh (update ch') true ch'.row) := by
    intro ch' u
    split
    · exact u
    · exact u.trans ((update_upd (u.inv h)).trans (renderCh_upd _ _ _))
  unfold wordBreak
  apply key
  split
  · -- col > col1
    have hne : ch.col1 ≠ 0 := by omega
    simp only [hne, if_false]
    have r1 : ∃ c, rd ch ch.col1 = some c := by
      unfold rd; exact ⟨_, List.getElem?_eq_getElem (by rw [hl]; omega)⟩
    have r2 : ∃ c, rd ch (ch.col1 - 1) = some c := by
      unfold rd; exact ⟨_, List.getElem?_eq_getElem (by rw [hl]; omega)⟩
    obtain ⟨c1, e1⟩ := r1
    obtain ⟨c2, e2⟩ := r2
    simp only [e1, e2]
    have u1 : Upd ch (if (!c1.isSpace && c2.opacity == opTransparentSpace) = true then
        wr ch (ch.col1 - 1) { c1 with unicode := 0x20 } "word_break: leading" else ch) := by
      split
      · exact wr_upd h (by omega) _ _
      · exact Upd.refl _
    generalize (if (!c1.isSpace && c2.opacity == opTransparentSpace) = true then
        wr ch (ch.col1 - 1) { c1 with unicode := 0x20 } "word_break: leading" else ch) = chA at u1 ⊢
    have hA := u1.inv h
    have hlA := pg_len hA chA.linePg
    have r3 : ∃ c, rd chA (chA.col - 1) = some c := by
      unfold rd; refine ⟨_, List.getElem?_eq_getElem ?_⟩; rw [hlA, u1.lineOff, u1.col]; omega
    have r4 : ∃ c, rd chA chA.col = some c := by
      unfold rd; refine ⟨_, List.getElem?_eq_getElem ?_⟩; rw [hlA, u1.lineOff, u1.col]; omega
    obtain ⟨c3, e3⟩ := r3
    obtain ⟨c4, e4⟩ := r4
    simp only [e3, e4]
    split
    · exact u1.trans (wr_upd hA (by rw [u1.col]; omega) _ _)
    · exact u1
  · exact Upd.refl _


/-! ## record updates that keep the invariant -/

theorem ChInv.withCols {x : Channel} (hx : ChInv x) {c c1 : Nat} (h1 : 1 ≤ c1) (h2 : c1 ≤ c) (h3 : c ≤ 33) :
    ChInv { x with col := c, col1 := c1 } := by
  obtain ⟨a1, a2, a3, a4, a5, a6, a7, a8, a9, a10, a11⟩ := hx
  constructor <;> simp_all

theorem ChInv.withAttr {x : Channel} (hx : ChInv x) (a : Cell) : ChInv { x with attr := a } := by
  obtain ⟨a1, a2, a3, a4, a5, a6, a7, a8, a9, a10, a11⟩ := hx
  constructor <;> simp_all

theorem ChInv.withMode {x : Channel} (hx : ChInv x) (m : Mode) : ChInv { x with mode := m } := by
  obtain ⟨a1, a2, a3, a4, a5, a6, a7, a8, a9, a10, a11⟩ := hx
  constructor <;> simp_all

theorem ChInv.withNul {x : Channel} (hx : ChInv x) (n : Nat) : ChInv { x with nulCt := n } := by
  obtain ⟨a1, a2, a3, a4, a5, a6, a7, a8, a9, a10, a11⟩ := hx
  constructor <;> simp_all

theorem ChInv.ite {c : Prop} [Decidable c] {a b : Channel} (ha : c → ChInv a) (hb : ¬c → ChInv b) :
    ChInv (if c then a else b) := by
  by_cases h : c
  · simpa [h] using ha h
  · simpa [h] using hb h

theorem setCursor_inv {x : Channel} (hx : ChInv x) {c r : Nat} (h1 : 1 ≤ c) (h3 : c ≤ 33) (hr : r ≤ 14) :
    ChInv (setCursor x c r) := by
  obtain ⟨a1, a2, a3, a4, a5, a6, a7, a8, a9, a10, a11⟩ := hx
  constructor <;> simp_all [setCursor]

theorem setColour_inv {x : Channel} (hx : ChInv x) (k : Nat) : ChInv (setColour x k) := by
  unfold setColour; split <;> exact hx.withAttr _

theorem putChar_inv {ch : Channel} (h : ChInv ch) (c : Cell) : ChInv (putChar ch c) := by
  have key : ∀ x : Channel, ChInv x → ChInv (if c.isSpace then wordBreak x true else x) := by
    intro x hx; split
    · exact (wordBreak_upd hx true).inv hx
    · exact hx
  unfold putChar
  apply key
  simp only [columns_eq]
  apply ChInv.ite
  · intro hlt
    have u := wr_upd h (i := ch.col) (by have := h.col_le; omega) c "put_char"
    have hx := u.inv h
    have := hx.withCols (c := ch.col + 1) (c1 := ch.col1) h.col1_pos (by have := h.col1_le; omega) (by omega)
    simpa [u.col1] using this
  · intro _
    exact (wr_upd h (by omega) _ _).inv h

theorem putCharSpace_inv {ch : Channel} (h : ChInv ch) : ChInv (putCharSpace ch) := putChar_inv h _

theorem tabFill_inv {ch : Channel} (h : ChInv ch) (n : Nat) (ts : Cell) : ChInv (tabFill ch n ts) := by
  unfold tabFill
  simp only [columns_eq]
  apply ChInv.ite
  · intro _; exact h
  · intro _
    have hc := h.col_le
    have hc1 := h.col1_pos
    have hcc := h.col1_le
    have u := fill_upd h (a := ch.col) (n := min n (34 - 1 - ch.col)) (by omega) ts "tab"
    exact (u.inv h).withCols (by omega) (Nat.le_refl _) (by omega)

theorem backspace_inv {ch : Channel} (h : ChInv ch) (chan : Nat) : ChInv (backspace ch chan) := by
  unfold backspace
  split
  · rename_i hc
    simp only [Bool.and_eq_true, decide_eq_true_eq] at hc
    have hcol := h.col_le
    have hc1 := h.col1_pos
    have hcc := h.col1_le
    have u := wr_upd h (i := ch.col - 1) (by omega) (transpSpace (decide (4 ≤ chan))) "backspace"
    have hx := u.inv h
    simp only
    split
    · have := hx.withCols (c := ch.col - 1) (c1 := ch.col - 1) (by omega) (Nat.le_refl _) (by omega)
      simpa using this
    · rename_i hlt
      simp only [u.col1] at hlt
      have := hx.withCols (c := ch.col - 1) (c1 := ch.col1) hc1 (by omega) (by omega)
      simpa [u.col1] using this
  · exact h


theorem setPg_inv {ch : Channel} (h : ChInv ch) (b : Bool) (p : Page) (hp : p.text.length = 1056) :
    ChInv (ch.setPg b p) := (setPg_upd ch b p (by rw [hp, pg_len h])).inv h

theorem event_inv {ch : Channel} (h : ChInv ch) : ChInv ch.event := (event_upd ch).inv h

theorem crMove_upd {x : Channel} (h : ChInv x) (b : Bool) : Upd x (crMove x b) := by
  have hl := pg_len h b
  have hw := h.win
  have hr := h.roll_pos
  unfold crMove
  simp only [columns_eq, hl]
  have : x.row1 * 34 + 34 + (x.roll - 1) * 34 ≤ 1056 := by omega
  rw [if_pos this]
  exact setPg_upd _ _ _ (by simp only []; rw [blit_length] <;> rw [hl] <;> omega)

theorem crClear_upd {y : Channel} (h : ChInv y) (chan : Nat) : Upd y (crClear y chan) := by
  unfold crClear
  exact fill_upd h (by simp) _ _

theorem crFinish_inv {z : Channel} (h : ChInv z) (lastRow : Nat) : ChInv (crFinish z lastRow) := by
  unfold crFinish
  have hw : ChInv (if (z.mode != .popOn) = true then
      ((update z).setPg (!(update z).hidden) (((update z).pg (!(update z).hidden)).rollUp (update z).row1 lastRow)).event
      else z) := by
    apply ChInv.ite
    · intro _
      have hu := (update_upd h).inv h
      apply event_inv
      apply setPg_inv hu
      unfold Page.rollUp; split <;> simp [pg_len hu]
    · intro _; exact h
  exact hw.withCols (Nat.le_refl _) (Nat.le_refl _) (by omega)

theorem crSync_upd {ch : Channel} (h : ChInv ch) : Upd ch (crSync ch) := by
  unfold crSync
  split
  · exact wordBreak_upd h true
  · exact (wordBreak_upd h true).trans (update_upd ((wordBreak_upd h true).inv h))

theorem carriageReturn_inv {ch : Channel} (h : ChInv ch) (chan : Nat) : ChInv (carriageReturn ch chan) := by
  have hroll := h.roll_pos
  have hwin := h.win
  have hrow := h.row_le
  unfold carriageReturn
  apply ChInv.ite; · intro _; exact h
  intro _
  apply ChInv.ite; · intro h0; omega
  intro _
  simp only [rows_eq]
  apply ChInv.ite
  · intro hlt
    exact setCursor_inv ((wordBreak_upd h true).inv h) (by omega) (by omega) (by omega)
  · intro _
    have h1 := (crSync_upd h).inv h
    have h2 := (crMove_upd h1 (ch.hidden != (ch.mode != .popOn))).inv h1
    have h3 := (crClear_upd h2 chan).inv h2
    exact crFinish_inv h3 _

theorem wordBreak_inv {ch : Channel} (h : ChInv ch) (upd : Bool) : ChInv (wordBreak ch upd) :=
  (wordBreak_upd h upd).inv h

theorem update_inv {ch : Channel} (h : ChInv ch) : ChInv (update ch) := (update_upd h).inv h

theorem eraseMemory_inv {ch : Channel} (h : ChInv ch) (b : Bool) : ChInv (eraseMemory ch b) :=
  (eraseMemory_upd h b).inv h

theorem renderCh_inv {ch : Channel} (h : ChInv ch) (b : Bool) (r : Int) : ChInv (renderCh ch b r) :=
  (renderCh_upd ch b r).inv h

theorem deleteToEnd_inv {ch : Channel} (h : ChInv ch) (chan : Nat) : ChInv (deleteToEnd ch chan) := by
  unfold deleteToEnd
  apply ChInv.ite; · intro _; exact h
  intro _
  have hc := h.col_le
  have h1 := (fill_upd h (a := ch.col) (n := columns - ch.col) (by simp; omega)
    (transpSpace (decide (4 ≤ chan))) "der").inv h
  have h2 := wordBreak_inv h1 false
  apply ChInv.ite
  · intro _; exact renderCh_inv (update_inv h2) _ _
  · intro _; exact h2

theorem clear_len (p : Page) : p.clear.text.length = p.text.length := rfl

theorem eraseDisplayed_inv {ch : Channel} (h : ChInv ch) : ChInv (eraseDisplayed ch) := by
  unfold eraseDisplayed
  have h1 : ChInv (if (ch.mode != .popOn) = true then eraseMemory ch ch.hidden else ch) :=
    ChInv.ite (fun _ => eraseMemory_inv h _) (fun _ => h)
  generalize (if (ch.mode != .popOn) = true then eraseMemory ch ch.hidden else ch) = x at h1 ⊢
  have h2 := eraseMemory_inv h1 (!x.hidden)
  apply event_inv
  apply setPg_inv h2
  rw [clear_len, pg_len h2]

theorem eraseNonDisplayed_inv {ch : Channel} (h : ChInv ch) : ChInv (eraseNonDisplayed ch) := by
  unfold eraseNonDisplayed
  exact ChInv.ite (fun _ => eraseMemory_inv h _) (fun _ => h)

theorem optAttrMagic_inv {x : Channel} (hx : ChInv x) : ChInv (optAttrMagic x) := by
  unfold optAttrMagic
  apply ChInv.ite
  · intro hgt
    have hc := hx.col_le
    have hl := pg_len hx x.linePg
    have r : ∃ c, rd x (x.col - 1) = some c := by
      unfold rd; refine ⟨_, List.getElem?_eq_getElem ?_⟩
      rw [hl, hx.line_off]; have := hx.row_le; omega
    obtain ⟨c, e⟩ := r
    simp only [e]
    apply ChInv.ite
    · intro _; exact (wr_upd hx (by omega) _ _).inv hx
    · intro _; exact hx
  · intro _; exact hx

theorem case7_inv {ch : Channel} (h : ChInv ch) (chan c2 : Nat) : ChInv (case7 ch chan c2) := by
  unfold case7
  apply ChInv.ite; · intro _; exact h
  intro _
  apply ChInv.ite; · intro _; exact tabFill_inv h _ _
  intro _
  apply ChInv.ite; · intro _; exact optAttrMagic_inv (h.withAttr _)
  intro _
  apply ChInv.ite; · intro _; exact optAttrMagic_inv (h.withAttr _)
  intro _; exact h

theorem specialChar_inv {ch : Channel} (h : ChInv ch) (chan c2 : Nat) : ChInv (specialChar ch chan c2) := by
  unfold specialChar
  simp only [columns_eq]
  apply ChInv.ite
  · intro _
    apply ChInv.ite
    · intro hlt
      have hc1 := h.col1_pos
      have hcc := h.col1_le
      have u := wr_upd h (i := ch.col) (by omega) (transpSpace (decide (4 ≤ chan))) "transparent space"
      have := (u.inv h).withCols (c := ch.col + 1) (c1 := ch.col + 1) (by omega) (Nat.le_refl _) (by omega)
      simpa [u.col] using this
    · intro _; exact (wr_upd h (by omega) _ _).inv h
  · intro _; exact putChar_inv h _

theorem setColourMid_inv {x : Channel} (hx : ChInv x) (k : Nat) : ChInv (setColourMid x k) := by
  unfold setColourMid; repeat' split
  all_goals exact hx.withAttr _

theorem midRow_inv {ch : Channel} (h : ChInv ch) (c2 : Nat) : ChInv (midRow ch c2) := by
  unfold midRow
  exact putCharSpace_inv (setColourMid_inv (h.withAttr _) _)

theorem backgroundAttr_inv {ch : Channel} (h : ChInv ch) (c2 : Nat) : ChInv (backgroundAttr ch c2) := by
  unfold backgroundAttr
  exact putCharSpace_inv (h.withAttr _)


theorem rowMapping_range (i : Nat) (r : Int) (h : rowMapping[i]? = some r) : r < 0 ∨ r.toNat ≤ 14 := by
  have : ∀ j < 16, ∀ r, rowMapping[j]? = some r → r < 0 ∨ r.toNat ≤ 14 := by decide
  by_cases hi : i < 16
  · exact this i hi r h
  · have : rowMapping[i]? = none := List.getElem?_eq_none (by simp [rowMapping]; omega)
    rw [this] at h; cases h

theorem pacRelocate_inv {x : Channel} (h1 : ChInv x) {row : Nat} (hrow : row ≤ 14) : ChInv (pacRelocate x row) := by
  unfold pacRelocate
  have hroll := h1.roll_pos
  have : x.roll ≠ 0 := by omega
  simp only [this, if_false]
  have hcl : (!pacRow1Clamped && decide (row + 1 < x.roll)) = false := by
    have : pacRow1Clamped = true := by decide
    simp [this]
  simp only [hcl, Bool.false_eq_true, if_false]
  have hw := h1.win
  have hx' : ChInv { x with row1 := row + 1 - x.roll } := by
    obtain ⟨a1, a2, a3, a4, a5, a6, a7, a8, a9, a10, a11⟩ := h1
    constructor <;> simp_all
    omega
  have hy : ChInv (if (row + 1 - x.roll != x.row1) = true then
      eraseMemory (eraseMemory { x with row1 := row + 1 - x.roll } x.hidden) (!x.hidden) else x) :=
    ChInv.ite (fun _ => eraseMemory_inv (eraseMemory_inv hx' _) _) (fun _ => h1)
  generalize (if (row + 1 - x.roll != x.row1) = true then
      eraseMemory (eraseMemory { x with row1 := row + 1 - x.roll } x.hidden) (!x.hidden) else x) = y at hy ⊢
  exact setCursor_inv hy (Nat.le_refl _) (by omega) (by have := hy.win; have := hy.roll_pos; omega)

theorem pacCursor_inv {x : Channel} (h1 : ChInv x) {row : Nat} (hrow : row ≤ 14) : ChInv (pacCursor x row) := by
  unfold pacCursor
  exact ChInv.ite (fun _ => pacRelocate_inv h1 hrow) (fun _ => setCursor_inv h1 (Nat.le_refl _) (by omega) hrow)

theorem pacStyle_inv {x : Channel} (h : ChInv x) (chan c2 : Nat) : ChInv (pacStyle x chan c2) := by
  unfold pacStyle
  exact ChInv.ite (fun _ => (tabFill_inv h _ _).withAttr _) (fun _ => setColour_inv h _)

theorem pac_inv {ch : Channel} (h : ChInv ch) (chan c1 c2 : Nat) (hc1 : c1 ≤ 7) : ChInv (pac ch chan c1 c2) := by
  unfold pac
  split
  · rename_i hn
    exfalso
    have hlt : (c1 <<< 1) + ((c2 >>> 5) &&& 1) < rowMapping.length := by
      have : (c2 >>> 5) &&& 1 ≤ 1 := Nat.and_le_right
      rw [Nat.shiftLeft_eq]; simp [rowMapping]; omega
    rw [List.getElem?_eq_getElem hlt] at hn; cases hn
  · rename_i r hr
    apply ChInv.ite; · intro _; exact h
    intro hcond
    have hrow : r.toNat ≤ 14 := by
      rcases rowMapping_range _ _ hr with hneg | hle
      · simp [hneg] at hcond
      · exact hle
    exact pacStyle_inv (pacCursor_inv (wordBreak_inv (h.withAttr _) true) hrow) _ _

theorem clear_len' (p : Page) : p.clear.text.length = p.text.length := rfl

theorem ruErase_upd {ch : Channel} (h : ChInv ch) : Upd ch (ruErase ch) := by
  unfold ruErase
  have u1 := eraseMemory_upd h ch.hidden
  have h1 := u1.inv h
  have u2 := eraseMemory_upd h1 (!ch.hidden)
  have h2 := u2.inv h1
  simp only []
  split
  · exact (u1.trans u2).trans ((setPg_upd _ (!ch.hidden) _ (clear_len' _)).trans (event_upd _))
  · exact u1.trans u2

theorem ruFinish_inv {y : Channel} (h : ChInv y) {roll : Nat} (h2 : 2 ≤ roll) (h4 : roll ≤ 4) :
    ChInv (ruFinish y roll) := by
  unfold ruFinish
  constructor <;> simp [setCursor]
  · exact h.err
  · omega
  · omega
  · exact h.len0
  · exact h.len1

theorem rollUpCmd_inv {ch : Channel} (h : ChInv ch) {roll : Nat} (h2 : 2 ≤ roll) (h4 : roll ≤ 4) :
    ChInv (rollUpCmd ch roll) := by
  unfold rollUpCmd
  apply ChInv.ite; · intro _; exact h
  intro _
  exact ruFinish_inv ((ruErase_upd h).inv h) h2 h4

theorem eraseMemory_upd' {ch : Channel} (b : Bool) (hl : (ch.pg b).text.length = 1056) : Upd ch (eraseMemory ch b) := by
  unfold eraseMemory
  simp only [hl, rows_eq, columns_eq]
  exact setPg_upd _ _ _ (by simp [fillList_length, hl])

/-- `set_cursor` re-establishes the `line` part of the invariant by itself -/
theorem setCursor_inv' {y : Channel} (he : y.err = none) (h0 : y.pg0.text.length = 1056) (h1 : y.pg1.text.length = 1056)
    (hr : 1 ≤ y.roll) (hw : y.row1 + y.roll ≤ 15) {c r : Nat} (hc1 : 1 ≤ c) (hc : c ≤ 33) (hrow : r ≤ 14) :
    ChInv (setCursor y c r) := by
  constructor <;> simp_all [setCursor]

theorem eocSwap_inv {x : Channel} (h1 : ChInv x) : ChInv (eocSwap x) := by
  unfold eocSwap
  have u1 := renderCh_upd { x with hidden := !x.hidden } (!(!x.hidden)) (-1)
  generalize renderCh { x with hidden := !x.hidden } (!(!x.hidden)) (-1) = y at u1 ⊢
  have hleny : ∀ b, (y.pg b).text.length = 1056 := by
    intro b; cases b
    · simp only [Channel.pg, Bool.false_eq_true, if_false]; rw [u1.len0]; exact h1.len0
    · simp only [Channel.pg, if_true]; rw [u1.len1]; exact h1.len1
  have u2 := eraseMemory_upd' (ch := y) (!x.hidden) (hleny _)
  generalize eraseMemory y (!x.hidden) = z at u2 ⊢
  have u := u1.trans u2
  apply setCursor_inv'
  · rw [u.err]; exact h1.err
  · rw [u.len0]; exact h1.len0
  · rw [u.len1]; exact h1.len1
  · rw [u.roll]; exact h1.roll_pos
  · rw [u.row1, u.roll]; exact h1.win
  · exact Nat.le_refl _
  · omega
  · simp

theorem endOfCaption_inv {ch : Channel} (h : ChInv ch) : ChInv (endOfCaption ch) :=
  eocSwap_inv (wordBreak_inv (h.withMode .popOn) true)

theorem putByte_inv {x : Channel} (hx : ChInv x) (c : Cell) (b : Nat) : ChInv (putByte x c b) := by
  unfold putByte
  exact ChInv.ite (fun _ => hx) (fun _ => putChar_inv hx _)

theorem textPair_inv {ch : Channel} (h : ChInv ch) (b0 b1 : Nat) : ChInv (textPair ch b0 b1) := by
  unfold textPair
  exact ChInv.ite (fun _ => h.withNul 0) (fun _ => putByte_inv (putByte_inv (h.withNul 0) _ _) _ _)

theorem nulPair_inv {ch : Channel} (h : ChInv ch) : ChInv (nulPair ch) := by
  unfold nulPair
  apply ChInv.ite
  · intro _
    have : ChInv (if ch.nulCt = 2 then wordBreak ch true else ch) := ChInv.ite (fun _ => wordBreak_inv h _) (fun _ => h)
    exact this.withNul _
  · intro _; exact h


/-! ## the decoder state -/

/-- Invariant of the whole caption decoder: no recorded error, nine channels, each with `ChInv`. -/
structure Inv (s : St) : Prop where
  err : s.err = none
  len : s.chans.length = 9
  chs : ∀ ch ∈ s.chans, ChInv ch

theorem modCh_inv {s : St} (h : Inv s) {i : Nat} (hi : i < 9) {f : Channel → Channel}
    (hf : ∀ ch, ChInv ch → ChInv (f ch)) : Inv (s.modCh i f) := by
  unfold St.modCh
  have hlt : i < s.chans.length := by rw [h.len]; exact hi
  rw [List.getElem?_eq_getElem hlt]
  refine ⟨h.err, by simp [h.len], ?_⟩
  intro ch hch
  rcases List.mem_or_eq_of_mem_set hch with hm | he
  · exact h.chs ch hm
  · rw [he]; exact hf _ (h.chs _ (List.getElem_mem hlt))

/-- field 1 always reads `currChan` (the shared selector, or `curr_chan[0]`) -/
theorem curr_false (s : St) : s.curr false = s.currChan := by
  unfold St.curr; simp

/-- a channel number of field 1 (bit 1 clear) is stored in `currChan` -/
theorem setCurr_field1 (s : St) {n : Nat} (h : (n >>> 1) &&& 1 = 0) :
    (s.setCurr n).currChan = n ∧ (s.setCurr n).currChan2 = s.currChan2 := by
  unfold St.setCurr; simp [h]

theorem setCurr_chans (s : St) (n : Nat) : (s.setCurr n).chans = s.chans := by
  unfold St.setCurr; split <;> rfl

theorem setCurr_err (s : St) (n : Nat) : (s.setCurr n).err = s.err := by
  unfold St.setCurr; split <;> rfl

theorem setCurr_last (s : St) (n : Nat) : (s.setCurr n).last0 = s.last0 ∧ (s.setCurr n).last1 = s.last1 ∧ (s.setCurr n).xds = s.xds := by
  unfold St.setCurr; split <;> exact ⟨rfl, rfl, rfl⟩

theorem switchChannel_inv {s : St} (h : Inv s) {chan : Nat} (hi : chan < 9) (new : Nat) :
    Inv (s.switchChannel chan new) := by
  unfold St.switchChannel
  have := modCh_inv h hi (f := fun ch => wordBreak ch true) (fun ch hc => wordBreak_inv hc true)
  exact ⟨by rw [setCurr_err]; exact this.err, by rw [setCurr_chans]; exact this.len, by rw [setCurr_chans]; exact this.chs⟩

theorem chan_lt (cur c1 : Nat) (f2 : Bool) : (cur &&& 4) + (if f2 then 2 else 0) + ((c1 >>> 3) &&& 1) < 8 := by
  have h1 : cur &&& 4 ≤ 4 := Nat.and_le_right
  have h2 : (c1 >>> 3) &&& 1 ≤ 1 := Nat.and_le_right
  cases f2 <;> simp <;> omega

theorem and3_lt (c : Nat) : c &&& 3 < 9 := by
  have : c &&& 3 ≤ 3 := Nat.and_le_right
  omega

theorem or4_lt {c : Nat} (h : c < 8) : c ||| 4 < 9 := by
  have : ∀ c < 8, c ||| 4 < 9 := by decide
  exact this c h

theorem and7_of_and15 {c2 k : Nat} (h : c2 &&& 15 = k) : c2 &&& 7 = k &&& 7 := by
  rw [← h, Nat.and_assoc]; rfl

theorem ru_roll {c2 k : Nat} (h : c2 &&& 15 = k) (hk : k = 5 ∨ k = 6 ∨ k = 7) :
    2 ≤ (c2 &&& 7) - 3 ∧ (c2 &&& 7) - 3 ≤ 4 := by
  rw [and7_of_and15 h]
  rcases hk with rfl | rfl | rfl <;> decide

theorem edmChan_lt {chan : Nat} (h : chan < 9) : edmChan chan < 9 := by
  unfold edmChan; split
  · exact and3_lt chan
  · exact h

/-- a caption channel number is its own EDM / ENM target -/
theorem edmChan_caption {chan : Nat} (h : chan < 4) : edmChan chan = chan := by
  unfold edmChan; split
  · have : ∀ c < 4, c &&& 3 = c := by decide
    exact this chan h
  · rfl

theorem captionCommand_inv {s : St} (h : Inv s) (c1 c2 : Nat) (f2 : Bool) : Inv (captionCommand s c1 c2 f2) := by
  unfold captionCommand
  have hchan := chan_lt (s.curr f2) c1 f2
  generalize (s.curr f2 &&& 4) + (if f2 then 2 else 0) + ((c1 >>> 3) &&& 1) = chan at hchan ⊢
  have hc9 : chan < 9 := by omega
  have h3 := and3_lt chan
  have h4 := or4_lt hchan
  have hc1 : c1 &&& 7 ≤ 7 := Nat.and_le_right
  simp only []
  repeat' split
  all_goals first
    | exact h
    | exact modCh_inv h hc9 (fun ch hc => pac_inv hc _ _ _ hc1)
    | exact modCh_inv h hc9 (fun ch hc => backgroundAttr_inv hc _)
    | exact modCh_inv h hc9 (fun ch hc => specialChar_inv hc _ _)
    | exact modCh_inv h hc9 (fun ch hc => midRow_inv hc _)
    | exact modCh_inv h hc9 (fun ch hc => backspace_inv hc _)
    | exact modCh_inv h hc9 (fun ch hc => carriageReturn_inv hc _)
    | exact modCh_inv h hc9 (fun ch hc => deleteToEnd_inv hc _)
    | exact modCh_inv h (edmChan_lt hc9) (fun ch hc => eraseDisplayed_inv hc)
    | exact modCh_inv h (edmChan_lt hc9) (fun ch hc => eraseNonDisplayed_inv hc)
    | exact modCh_inv h hc9 (fun ch hc => case7_inv hc _ _)
    | exact modCh_inv h hc9 (fun ch hc => hc.withAttr _)
    | exact switchChannel_inv h hc9 _
    | exact modCh_inv (switchChannel_inv h hc9 _) h3 (fun ch hc => hc.withMode _)
    | exact modCh_inv (switchChannel_inv h hc9 _) h3 (fun ch hc => endOfCaption_inv hc)
    | exact modCh_inv (switchChannel_inv h hc9 _) h3 (fun ch hc =>
        rollUpCmd_inv hc (ru_roll (by assumption) (by simp)).1 (ru_roll (by assumption) (by simp)).2)
    | exact modCh_inv (switchChannel_inv h hc9 _) h4 (fun ch hc => setCursor_inv hc (Nat.le_refl _) (by omega) (by omega))
    | skip


theorem Inv.congr {s s' : St} (h : Inv s) (he : s'.err = s.err) (hc : s'.chans = s.chans) : Inv s' :=
  ⟨by rw [he, h.err], by rw [hc, h.len], by rw [hc]; exact h.chs⟩

theorem xdsGate_some {s s' : St} {f : Bool} {b0 : Nat} (h : xdsGate s f b0 = some s') :
    s'.err = s.err ∧ s'.chans = s.chans ∧ s'.last0 = s.last0 ∧ s'.last1 = s.last1 ∧ s'.currChan = s.currChan := by
  unfold xdsGate at h
  simp only [] at h
  repeat' split at h
  all_goals first
    | (cases h; done)
    | (cases h; exact ⟨rfl, rfl, rfl, rfl, rfl⟩)

theorem xdsGate_some_curr {s s' : St} {f : Bool} {b0 : Nat} (h : xdsGate s f b0 = some s') (f' : Bool) :
    s'.curr f' = s.curr f' := by
  unfold xdsGate at h
  simp only [] at h
  repeat' split at h
  all_goals first
    | (cases h; done)
    | (cases h; rfl)

theorem xdsConsumed_inv {s : St} (h : Inv s) (f : Bool) (b0 : Nat) : Inv (xdsConsumed s f b0) := by
  unfold xdsConsumed
  simp only []
  split
  · exact h.congr rfl rfl
  · exact h

theorem text_idx_lt (cur : Nat) (f2 : Bool) : (cur &&& 5) + (if f2 then 2 else 0) < 9 := by
  have h1 : cur &&& 5 ≤ 5 := Nat.and_le_right
  cases f2 <;> simp <;> omega

theorem decodeMain_inv {s : St} (h : Inv s) (f : Bool) (b0 b1 : Nat) : Inv (decodeMain s f b0 b1) := by
  unfold decodeMain
  have hi := text_idx_lt (s.curr f) f
  generalize (s.curr f &&& 5) + (if f then 2 else 0) = i at hi ⊢
  simp only []
  repeat' split
  all_goals first
    | exact h
    | exact h.congr rfl rfl
    | exact (captionCommand_inv h _ _ _).congr rfl rfl
    | exact captionCommand_inv h _ _ _
    | exact modCh_inv h hi (fun ch hc => nulPair_inv hc)
    | exact modCh_inv h hi (fun ch hc => textPair_inv hc _ _)
    | exact modCh_inv (s := { s with last0 := 0 }) (h.congr rfl rfl) hi (fun ch hc => textPair_inv hc _ _)
    | skip

theorem decodePair_inv {s : St} (h : Inv s) (f : Bool) (b0 b1 : Nat) : Inv (decodePair s f b0 b1) := by
  unfold decodePair
  split
  · exact xdsConsumed_inv h _ _
  · rename_i s' hs
    obtain ⟨he, hc, _⟩ := xdsGate_some hs
    exact decodeMain_inv (h.congr he hc) _ _ _

theorem fetchStep_inv {s : St} (h : Inv s) (n : Int) : Inv (fetchStep s n) := by
  unfold fetchStep
  split
  · exact h
  · apply modCh_inv h
    · have : (n - 1).toNat &&& 7 ≤ 7 := Nat.and_le_right
      omega
    · intro ch hc
      exact setPg_inv hc _ _ (by simp [pg_len hc])


/-! ## channel switch and init -/

/-- what `vbi_caption_channel_switched` may assume of a channel: no error, page extents -/
structure PreInv (ch : Channel) : Prop where
  err : ch.err = none
  len0 : ch.pg0.text.length = 1056
  len1 : ch.pg1.text.length = 1056

theorem ChInv.pre {ch : Channel} (h : ChInv ch) : PreInv ch := ⟨h.err, h.len0, h.len1⟩

theorem chswPages_inv {x : Channel} (hp : PreInv x) (h1 : 1 ≤ x.col1) (h2 : x.col1 ≤ x.col) (h3 : x.col ≤ 33)
    (h4 : x.row ≤ 14) (h5 : 1 ≤ x.roll) (h6 : x.row1 + x.roll ≤ 15) (h7 : x.lineOff = x.row * 34)
    (h8 : x.linePg = x.hidden) : ChInv (chswPages x) := by
  have hx : ChInv x := ⟨hp.err, h1, h2, h3, h4, h5, h6, h7, h8, hp.len0, hp.len1⟩
  unfold chswPages
  have ha := setPg_inv hx false { x.pg false with y0 := 0, y1 := (rows : Int) - 1, roll := 0 } (by simp [pg_len hx])
  have hb := eraseMemory_inv ha false
  obtain ⟨a1, a2, a3, a4, a5, a6, a7, a8, a9, a10, a11⟩ := hb
  constructor <;> simp_all

theorem chswChannelWith_inv {ch : Channel} (first : Bool) (hp : PreInv ch) (hh : first = true ∨ ch.hidden = false) :
    ChInv (chswChannelWith first ch) := by
  unfold chswChannelWith
  have hg : PreInv (chswAttr (chswGeom ch)) ∧ (chswAttr (chswGeom ch)).hidden = ch.hidden
      ∧ (chswAttr (chswGeom ch)).row ≤ 14 ∧ 1 ≤ (chswAttr (chswGeom ch)).roll
      ∧ (chswAttr (chswGeom ch)).row1 + (chswAttr (chswGeom ch)).roll ≤ 15 := by
    unfold chswAttr chswGeom
    obtain ⟨e, l0, l1⟩ := hp
    split <;> refine ⟨⟨?_, ?_, ?_⟩, ?_, ?_, ?_, ?_⟩ <;> simp_all
  generalize chswAttr (chswGeom ch) = x at hg ⊢
  obtain ⟨⟨e, l0, l1⟩, hhid, hrow, hroll, hwin⟩ := hg
  unfold chswCursorWith
  rcases hh with hflag | hfalse
  · simp only [hflag, if_true]
    apply chswPages_inv <;> simp_all [setCursor]
    constructor <;> simp_all
  · by_cases hflag : first = true
    · simp only [hflag, if_true]
      apply chswPages_inv <;> simp_all [setCursor]
      constructor <;> simp_all
    · simp only [hflag]
      apply chswPages_inv <;> simp_all [setCursor]
      constructor <;> simp_all

theorem chsw_inv_of {s : St} (first : Bool) (he : s.err = none) (hl : s.chans.length = 9)
    (hc : ∀ ch ∈ s.chans, PreInv ch ∧ (first = true ∨ ch.hidden = false)) : Inv (s.chswWith first) := by
  unfold St.chswWith
  refine ⟨he, by simp [hl], ?_⟩
  intro ch hch
  simp only [List.mem_map] at hch
  obtain ⟨c0, hm, rfl⟩ := hch
  exact chswChannelWith_inv first (hc c0 hm).1 (hc c0 hm).2

theorem init_inv : Inv init := by
  unfold init St.chsw
  apply chsw_inv_of _ rfl (by simp)
  intro ch hch
  simp only [List.mem_map] at hch
  obtain ⟨i, _, rfl⟩ := hch
  have hz : zeroPage.text.length = 1056 := by
    show (List.replicate textLen _).length = 1056
    rw [List.length_replicate]; rfl
  exact ⟨⟨rfl, hz, hz⟩, Or.inr rfl⟩

/-- with the repaired statement order a channel switch keeps the invariant from any state -/
theorem chsw_inv {s : St} (h : Inv s) (hflag : chswHiddenResetFirst = true) : Inv s.chsw :=
  chsw_inv_of _ h.err h.len (fun ch hch => ⟨(h.chs ch hch).pre, Or.inl hflag⟩)


/-! ## histories -/

theorem step_inv {s : St} (h : Inv s) (op : Op) (hop : op ≠ .chsw ∨ chswHiddenResetFirst = true) : Inv (step s op) := by
  cases op with
  | pair f b0 b1 => exact decodePair_inv h _ _ _
  | fetch n => exact fetchStep_inv h _
  | chsw =>
    rcases hop with hne | hflag
    · exact absurd rfl hne
    · exact chsw_inv h hflag

theorem foldl_inv (ops : List Op) (hops : ∀ op ∈ ops, op ≠ .chsw ∨ chswHiddenResetFirst = true) :
    ∀ s, Inv s → Inv (ops.foldl step s) := by
  induction ops with
  | nil => intro s h; exact h
  | cons op rest ih =>
    intro s h
    exact ih (fun o ho => hops o (List.mem_cons_of_mem _ ho)) _ (step_inv h op (hops op (List.mem_cons_self ..)))

theorem stepWith_inv (first : Bool) {s : St} (h : Inv s) (op : Op) (hop : op ≠ .chsw ∨ first = true) :
    Inv (stepWith first s op) := by
  cases op with
  | pair f b0 b1 => exact decodePair_inv h _ _ _
  | fetch n => exact fetchStep_inv h _
  | chsw =>
    rcases hop with hne | hflag
    · exact absurd rfl hne
    · exact chsw_inv_of first h.err h.len (fun ch hch => ⟨(h.chs ch hch).pre, Or.inl hflag⟩)

theorem foldlWith_inv (first : Bool) (ops : List Op) (hops : ∀ op ∈ ops, op ≠ .chsw ∨ first = true) :
    ∀ s, Inv s → Inv (ops.foldl (stepWith first) s) := by
  induction ops with
  | nil => intro s h; exact h
  | cons op rest ih =>
    intro s h
    exact ih (fun o ho => hops o (List.mem_cons_of_mem _ ho)) _ (stepWith_inv first h op (hops op (List.mem_cons_self ..)))

theorem firstErr_none {s : St} (h : Inv s) : s.firstErr = none := by
  unfold St.firstErr
  rw [h.err]
  simp only [List.findSome?_eq_none_iff]
  intro ch hch
  exact (h.chs ch hch).err

end Zvbi.Cc
