import ZvbiModel.Rawdec.LemmasSlice
/-!
# Lemmas for C04 (round 2), slicer part 1: the LSB-first octet loop `c = (c >> 1) + (bit << 7)`

`shiftInLsb` is the inner loop of the octet mode "LSB first" (`endian == 1`) of `low_pass_bit_slicer_Y8`
(src/bit_slicer.c) and of the legacy `bit_slicer_tmpl` (src/decoder.c).  Unlike `bit_slicer_<fmt>` (which
restarts with `c = 0` for every octet and adds `bit << k`) the accumulator is carried from octet to octet;
the stored byte is exact because `c < 256` is an invariant of the step: eight steps shift the previous
contents out completely.
-/
namespace Zvbi.Rawdec
open Zvbi.Slicer (U32)

/-- one step keeps `c < 256` -/
theorem lsbStep_lt (c : Nat) (b : Bool) (hc : c < 256) : c / 2 + b2n b * 128 < 256 := by
  have := b2n_le b
  omega

/-- eight `c = (c >> 1) + (bit << 7)` steps starting from ANY `c < 256`: the result is the byte whose bits were
    sampled, LSB first (so it is `< 256` again) -/
theorem shiftInLsb_eq (bs : BS) (smp : Sampler) (c m n : Nat) (hc : c < 256) (hn : n < 256)
    (h : ∀ k, k < 8 → smp (payloadPos bs (8 * m + k)) = n.testBit k) : shiftInLsb bs smp c m = n := by
  unfold shiftInLsb
  have := byte_msb n hn
  simp only [List.range_succ, List.range_zero, List.nil_append, List.cons_append, List.foldl_cons, List.foldl_nil]
  rw [h 0 (by omega), h 1 (by omega), h 2 (by omega), h 3 (by omega), h 4 (by omega), h 5 (by omega), h 6 (by omega), h 7 (by omega)]
  simp only [b2n_eq]
  have b7 := Nat.lt_succ_of_le (Bool.toNat_le (n.testBit 7))
  have b6 := Nat.lt_succ_of_le (Bool.toNat_le (n.testBit 6))
  have b5 := Nat.lt_succ_of_le (Bool.toNat_le (n.testBit 5))
  have b4 := Nat.lt_succ_of_le (Bool.toNat_le (n.testBit 4))
  have b3 := Nat.lt_succ_of_le (Bool.toNat_le (n.testBit 3))
  have b2 := Nat.lt_succ_of_le (Bool.toNat_le (n.testBit 2))
  have b1 := Nat.lt_succ_of_le (Bool.toNat_le (n.testBit 1))
  have b0 := Nat.lt_succ_of_le (Bool.toNat_le (n.testBit 0))
  omega

/-- the octet loop with `shiftInLsb`, entered with any `c < 256`, returns `w` when every sampled bit is the
    corresponding bit of `w`, LSB first -/
theorem octets_lsb (bs : BS) (smp : Sampler) :
    ∀ (w : List Nat) (m c : Nat), c < 256 → (∀ x ∈ w, x < 256) →
      (∀ i, i < w.length → ∀ k, k < 8 → smp (payloadPos bs (8 * (m + i) + k)) = (w.getD i 0).testBit k) →
      octets (shiftInLsb bs smp) w.length m c = w := by
  intro w
  induction w with
  | nil => intro m c _ _ _; rfl
  | cons x rest ih =>
    intro m c hc hb h
    simp only [List.length_cons, octets]
    have hx256 := hb x (by simp)
    have hx := shiftInLsb_eq bs smp c m x hc hx256 (by
      intro k hk
      have := h 0 (by simp) k hk
      simpa using this)
    rw [hx]
    congr 1
    · exact Nat.mod_eq_of_lt hx256
    · apply ih (m + 1) x hx256 (fun y hy => hb y (by simp [hy]))
      intro i hi k hk
      have := h (i + 1) (by simp; omega) k hk
      simp only [List.getD_cons_succ] at this
      rw [show m + 1 + i = m + (i + 1) from by omega]
      exact this

/-- ... and the accumulator afterwards is the last byte (or the initial value for an empty payload): still `< 256` -/
def octetsAcc (step : Nat → Nat → Nat) : Nat → Nat → Nat → Nat
  | 0, _, c => c
  | n + 1, m, c => octetsAcc step n (m + 1) (step c m)

theorem octetsAcc_lsb (bs : BS) (smp : Sampler) :
    ∀ (w : List Nat) (m c : Nat), c < 256 → (∀ x ∈ w, x < 256) →
      (∀ i, i < w.length → ∀ k, k < 8 → smp (payloadPos bs (8 * (m + i) + k)) = (w.getD i 0).testBit k) →
      octetsAcc (shiftInLsb bs smp) w.length m c = (w.getLast?).getD c := by
  intro w
  induction w with
  | nil => intro m c _ _ _; rfl
  | cons x rest ih =>
    intro m c hc hb h
    simp only [List.length_cons, octetsAcc]
    have hx256 := hb x (by simp)
    have hx := shiftInLsb_eq bs smp c m x hc hx256 (by
      intro k hk
      have := h 0 (by simp) k hk
      simpa using this)
    rw [hx, ih (m + 1) x hx256 (fun y hy => hb y (by simp [hy])) (by
      intro i hi k hk
      have := h (i + 1) (by simp; omega) k hk
      simp only [List.getD_cons_succ] at this
      rw [show m + 1 + i = m + (i + 1) from by omega]
      exact this)]
    cases rest with
    | nil => rfl
    | cons y ys => simp [List.getLast?_cons_cons, List.getLast?_eq_some_getLast]

end Zvbi.Rawdec
