import ZvbiModel.Slicer.Model
/-!
# Lemmas about the legacy slicer model (`vbi_bit_slicer_init` / `bit_slicer_tmpl`, src/decoder.c)
-/
namespace Zvbi.Slicer

/-- caller obligations of `vbi_bit_slicer_init` (it has no failure path) -/
structure LParams.Sane (p : LParams) : Prop where
  fmt : p.fmt.WF
  raw : p.rawSamples < 2147483648

/-- the pixel pair at sample `m` lies inside a line of `raw` samples when `m + 1 < raw` -/
theorem lpair_lt {f : LFmt} (hf : f.WF) {m raw x : Nat} (hm : m + 1 < raw)
    (hx : x ∈ lpair f (f.skip + m * f.stride)) : x < raw * f.stride := by
  have h1 : (m + 2) * f.stride ≤ raw * f.stride := Nat.mul_le_mul_right _ (by omega)
  rw [Nat.add_mul] at h1
  obtain ⟨hs, hsk⟩ := hf
  unfold lpair at hx
  by_cases h16 : f.is16 = true
  · have hst : f.stride = 2 := by unfold LFmt.stride; simp [h16]
    simp only [h16, if_true] at hx hsk
    rw [hst] at h1 hx ⊢
    simp only [List.mem_cons, List.mem_nil_iff, or_false] at hx
    omega
  · have h16' : f.is16 = false := by cases hh : f.is16 <;> simp_all
    have hst : f.stride = f.tag := by unfold LFmt.stride; simp [h16']
    simp only [h16', Bool.false_eq_true, if_false] at hx hsk
    rw [hst] at h1 hx ⊢
    simp only [List.mem_cons, List.mem_nil_iff, or_false] at hx
    omega

theorem lcriReads_lt {c : LCfg} (hf : c.fmt.WF) {n raw x : Nat} (hn : n + 1 < raw)
    (hx : x ∈ lcriReads c n) : x < raw * c.fmt.stride := lpair_lt hf hn hx

theorem lsampleReads_lt {c : LCfg} (hf : c.fmt.WF) {k i raw x : Nat} (hn : k + i / 256 + 1 < raw)
    (hx : x ∈ lsampleReads c k i) : x < raw * c.fmt.stride := by
  unfold lsampleReads at hx
  have e : c.fmt.skip + k * c.fmt.stride + i / 256 * c.fmt.stride = c.fmt.skip + (k + i / 256) * c.fmt.stride := by
    rw [Nat.add_mul]; omega
  rw [e] at hx
  exact lpair_lt hf hn hx

theorem lbit_le_last {c : LCfg} {j nb : Nat} (hj : j < nb) (hnb : nb ≤ c.nBits) :
    (c.phaseShift + j * c.step) / 256 ≤ lastBitSample c.phaseShift c.step c.nBits := by
  unfold lastBitSample
  apply Nat.div_le_div_right
  have : j ≤ c.nBits - 1 := by omega
  have := Nat.mul_le_mul_right c.step this
  omega

theorem lfrcBits_le_nBits (c : LCfg) : c.frcBits ≤ c.nBits := by
  unfold LCfg.nBits nBitsOf; omega

/-- if the loop bound leaves room for the look-ahead `lastBitSample + 1`, every read is in the line -/
theorem lsliceReads_lt {c : LCfg} (hf : c.fmt.WF) {raw : Nat}
    (hroom : c.iterations = 0 ∨ c.iterations + (lastBitSample c.phaseShift c.step c.nBits + 1) ≤ raw)
    (oc : Outcome) (hoc : oc.ladmissible c) : ∀ x ∈ lsliceReads c oc, x < raw * c.fmt.stride := by
  intro x hx
  have search : ∀ m, m ≤ c.iterations → ∀ x ∈ (List.range m).flatMap (lcriReads c), x < raw * c.fmt.stride := by
    intro m hm x hx
    obtain ⟨n, hn, hxn⟩ := List.mem_flatMap.1 hx
    have hn := List.mem_range.1 hn
    exact lcriReads_lt hf (by omega) hxn
  have bits : ∀ k nb, k < c.iterations → nb ≤ c.nBits → ∀ x ∈ lbitReads c k nb, x < raw * c.fmt.stride := by
    intro k nb hk hnb x hx
    unfold lbitReads at hx
    obtain ⟨j, hj, hxj⟩ := List.mem_flatMap.1 hx
    have hj := List.mem_range.1 hj
    have := lbit_le_last hj hnb
    exact lsampleReads_lt hf (by omega) hxj
  cases oc with
  | noCri => exact search _ (Nat.le_refl _) x hx
  | frcFail k =>
    simp only [Outcome.ladmissible] at hoc
    unfold lsliceReads at hx
    rcases List.mem_append.1 hx with hx | hx
    · exact search _ (by omega) x hx
    · exact bits k _ hoc (lfrcBits_le_nBits c) x hx
  | found k =>
    simp only [Outcome.ladmissible] at hoc
    unfold lsliceReads at hx
    rcases List.mem_append.1 hx with hx | hx
    · exact search _ (by omega) x hx
    · exact bits k _ hoc (Nat.le_refl _) x hx

/-- the repaired `vbi_bit_slicer_init` bounds the search by the look-ahead -/
theorem legacy_tight_room (p : LParams) (hr : p.rawSamples < 2147483648) :
    let c := legacyInit true p
    c.iterations = 0 ∨ c.iterations + (lastBitSample c.phaseShift c.step c.nBits + 1) ≤ p.rawSamples := by
  intro c
  have hcb : c.criBytes = max 0 (min ((p.rawSamples : Int) - ((p.rate * (p.payloadBits + p.frcBits) / p.bitRate : Nat) : Int))
      ((p.rawSamples : Int) - ((lastBitSample c.phaseShift c.step c.nBits + 1 : Nat) : Int))) := rfl
  have hit : c.iterations = (c.criBytes % (U32 : Int)).toNat := rfl
  have hU : (U32 : Int) = 4294967296 := rfl
  rw [hit, hcb, hU]
  omega

theorem toNat_mod_aux (raw ds : Nat) (hr : raw < 2147483648) (hds : ds ≤ raw) :
    (((raw : Int) - (ds : Int)) % 4294967296).toNat = raw - ds := by omega

/-- the released `vbi_bit_slicer_init`: `cri_bytes = raw_samples - data_samples` -/
theorem legacy_orig_iterations (p : LParams) (hr : p.rawSamples < 2147483648)
    (hds : p.rate * (p.payloadBits + p.frcBits) / p.bitRate ≤ p.rawSamples) :
    (legacyInit false p).iterations = p.rawSamples - p.rate * (p.payloadBits + p.frcBits) / p.bitRate :=
  toNat_mod_aux _ _ hr hds

end Zvbi.Slicer
