import ZvbiModel.Slicer.BufModel
import ZvbiModel.Slicer.Lemmas
/-!
# Lemmas about the store loops of the public slicer entry points (used by Props/C05Buf.lean)
-/
namespace Zvbi.Slicer

/-- a cursor that only ever stored at its position and advanced: the indices stored are exactly `0 .. idx-1` -/
def WState.Dense (s : WState) : Prop := s.writes = List.range s.idx

theorem dense_init : ({} : WState).Dense := rfl

theorem dense_store {s : WState} (h : s.Dense) : s.store.Dense := by
  unfold WState.Dense WState.store at *
  simp only
  rw [h, List.range_succ]

theorem store_idx (s : WState) : s.store.idx = s.idx + 1 := rfl

theorem dense_foldl {α : Type} (f : WState → α → WState) (hf : ∀ s a, s.Dense → (f s a).Dense) (l : List α) :
    ∀ s : WState, s.Dense → (l.foldl f s).Dense := by
  induction l with
  | nil => intro s h; exact h
  | cons a t ih => intro s h; exact ih _ (hf s a h)

/-- `n` times `*buffer++ = c` -/
theorem foldl_store_idx (n : Nat) (s : WState) :
    ((List.range n).foldl (fun (s : WState) (_ : Nat) => s.store) s).idx = s.idx + n := by
  induction n with
  | zero => simp
  | succ m ih => rw [List.range_succ, List.foldl_append]; simp only [List.foldl_cons, List.foldl_nil, store_idx, ih]; omega

theorem foldl_store_dense (n : Nat) (s : WState) (h : s.Dense) :
    ((List.range n).foldl (fun (s : WState) (_ : Nat) => s.store) s).Dense :=
  dense_foldl _ (fun _ _ hs => dense_store hs) _ s h

theorem octetLoop_writes (n : Nat) : (octetLoop n).writes = List.range n := by
  have h := foldl_store_dense n {} dense_init
  have hi := foldl_store_idx n {}
  unfold octetLoop
  rw [h, hi]; simp

/-- the bit routines advance `buffer` once per complete octet -/
theorem bitFold_idx (m : Nat) :
    ((List.range m).foldl (fun (s : WState) j => if j % 8 = 7 then s.store else s) {}).idx = m / 8 := by
  induction m with
  | zero => simp
  | succ k ih =>
    rw [List.range_succ, List.foldl_append]
    simp only [List.foldl_cons, List.foldl_nil]
    split
    · rw [store_idx, ih]; omega
    · rw [ih]; omega

theorem bitFold_dense (m : Nat) :
    ((List.range m).foldl (fun (s : WState) j => if j % 8 = 7 then s.store else s) {}).Dense :=
  dense_foldl _ (fun s j hs => by by_cases h : j % 8 = 7 <;> simp [h, dense_store hs, hs]) _ _ dense_init

/-- the bit routines store `payload / 8` complete octets and one final partial octet -/
theorem bitLoop_writes (payload : Nat) : (bitLoop payload).writes = List.range (payload / 8 + 1) := by
  unfold bitLoop WState.storeLast
  simp only
  rw [bitFold_dense payload, bitFold_idx, List.range_succ]

/-! ## what an accepted configuration says about `payload` / `endian` -/

theorem setParams_payload {tight : Bool} {p : Params} {c : Cfg} (h : setParams tight p = .ok c) :
    c.payload = (payloadOf p).1 ∧ c.endian = (payloadOf p).2 := by
  have key : ∀ c0, setParams0 p = .ok c0 → c0.payload = (payloadOf p).1 ∧ c0.endian = (payloadOf p).2 := by
    intro c0 h0
    obtain ⟨_, _, _, _, _, _, _, _, _, _, rfl⟩ := setParams0_ok h0
    exact ⟨rfl, rfl⟩
  cases tight with
  | false => exact key c (setParams_false.1 h)
  | true =>
    obtain ⟨c0, h0, ht⟩ := setParams_true.1 h
    obtain ⟨_, hc⟩ := tighten_ok ht
    have := key c0 h0
    rw [hc]; exact this

/-- bit mode (`endian` 2, 3) iff the payload is not a whole number of octets -/
theorem payloadOf_cases (p : Params) :
    (p.payloadBits % 8 ≠ 0 ∧ (payloadOf p).1 = p.payloadBits ∧ (payloadOf p).2 ≥ 2) ∨
    (p.payloadBits % 8 = 0 ∧ (payloadOf p).1 = p.payloadBits / 8 ∧ (payloadOf p).2 < 2) := by
  unfold payloadOf
  by_cases h8 : p.payloadBits % 8 = 0 <;> by_cases hm : p.msb = true <;> simp [h8, hm]

/-- `payload_bytes (bs)` is the payload size in bytes, rounded up, in both storage modes -/
theorem payloadBytes_eq {tight : Bool} {p : Params} {c : Cfg} (h : setParams tight p = .ok c) :
    payloadBytes c = (p.payloadBits + 7) / 8 := by
  obtain ⟨h1, h2⟩ := setParams_payload h
  unfold payloadBytes
  rw [h1, h2]
  rcases payloadOf_cases p with ⟨_, e1, e2⟩ | ⟨h8, e1, e2⟩
  · rw [e1]; simp [e2]
  · rw [e1]; have : ¬ ((payloadOf p).2 ≥ 2) := by omega
    simp [this]; omega

/-- the store loops write exactly the bytes `0 .. payload_bytes-1` (the low-pass `do .. while` loops need a
    non-empty payload) -/
theorem payloadWrites_eq {tight : Bool} {p : Params} {c : Cfg} (h : setParams tight p = .ok c)
    (hp : c.kind = .lowpass → 0 < p.payloadBits) : payloadWrites c = List.range (payloadBytes c) := by
  obtain ⟨h1, h2⟩ := setParams_payload h
  unfold payloadWrites payloadBytes
  rcases payloadOf_cases p with ⟨h8, e1, e2⟩ | ⟨h8, e1, e2⟩
  · have e2' : c.endian ≥ 2 := by rw [h2]; exact e2
    simp only [e2', if_true]
    rw [bitLoop_writes, h1, e1]
    congr 1; omega
  · have e2' : ¬ (c.endian ≥ 2) := by rw [h2]; omega
    simp only [e2', if_false]
    cases hk : c.kind with
    | core => simp only; exact octetLoop_writes _
    | lowpass =>
      simp only
      have hpos := hp hk
      have : c.payload ≠ 0 := by rw [h1, e1]; omega
      unfold doWhileIters
      simp only [this, if_false]
      exact octetLoop_writes _

/-! ## sampling points -/

theorem criPointStep_dense (limit : Option Nat) (s : WState) (t : Bool) (h : s.Dense) : (criPointStep limit s t).Dense := by
  unfold criPointStep
  cases t with
  | false => simpa using h
  | true =>
    cases limit with
    | none => simpa using dense_store h
    | some l =>
      by_cases hl : s.idx < l
      · simpa [hl] using dense_store h
      · simpa [hl] using h

theorem criPoints_dense (limit : Option Nat) (ticks : List Bool) : (criPoints limit ticks).Dense :=
  dense_foldl _ (fun s t hs => criPointStep_dense limit s t hs) _ _ dense_init

theorem criPointStep_idx_le (limit : Option Nat) (s : WState) (t : Bool) : (criPointStep limit s t).idx ≤ s.idx + 1 := by
  unfold criPointStep
  cases t <;> cases limit <;> simp [store_idx]
  split <;> simp [store_idx]

/-- at most one point per `CRI()` invocation -/
theorem criFold_idx_le_length (limit : Option Nat) (ticks : List Bool) :
    ∀ s : WState, (ticks.foldl (criPointStep limit) s).idx ≤ s.idx + ticks.length := by
  induction ticks with
  | nil => intro s; simp
  | cons t r ih =>
    intro s
    have h1 := ih (criPointStep limit s t)
    have h2 := criPointStep_idx_le limit s t
    simp only [List.foldl_cons, List.length_cons]
    omega

theorem criPoints_idx_le_length (limit : Option Nat) (ticks : List Bool) : (criPoints limit ticks).idx ≤ ticks.length := by
  have := criFold_idx_le_length limit ticks {}
  unfold criPoints
  simpa using this

/-- with the limit, never more than `l` CRI points -/
theorem criFold_idx_le_limit (l : Nat) (ticks : List Bool) :
    ∀ s : WState, s.idx ≤ l → (ticks.foldl (criPointStep (some l)) s).idx ≤ l := by
  induction ticks with
  | nil => intro s h; simpa using h
  | cons t r ih =>
    intro s h
    simp only [List.foldl_cons]
    apply ih
    unfold criPointStep
    cases t with
    | false => simpa using h
    | true =>
      by_cases hl : s.idx < l
      · simp [hl, store_idx]; omega
      · simpa [hl] using h

theorem criPoints_idx_le_limit (l : Nat) (ticks : List Bool) : (criPoints (some l) ticks).idx ≤ l := by
  unfold criPoints
  exact criFold_idx_le_limit l ticks {} (Nat.zero_le _)

theorem dataPoints_idx (s : WState) (n : Nat) : (dataPoints s n).idx = s.idx + n := foldl_store_idx n s
theorem dataPoints_dense (s : WState) (n : Nat) (h : s.Dense) : (dataPoints s n).Dense := foldl_store_dense n s h

/-- every index stored by a dense cursor is below its position -/
theorem dense_mem_lt {s : WState} (h : s.Dense) {i : Nat} (hi : i ∈ s.writes) : i < s.idx := by
  rw [h] at hi; exact List.mem_range.1 hi

/-- released code: one point per recovered clock tick, whatever their number -/
theorem criFold_none_idx (ticks : List Bool) :
    ∀ s : WState, (ticks.foldl (criPointStep none) s).idx = s.idx + ticks.count true := by
  induction ticks with
  | nil => intro s; simp
  | cons t r ih =>
    intro s
    simp only [List.foldl_cons]
    rw [ih]
    cases t <;> simp [criPointStep, store_idx] <;> omega

theorem criPoints_none_idx (ticks : List Bool) : (criPoints none ticks).idx = ticks.count true := by
  have := criFold_none_idx ticks {}
  unfold criPoints
  simpa using this

/-! ## the two branches of `slice` -/

theorem slice_refused {g : Guard} {c : Cfg} {b : Nat} (oc : Outcome) (hg : guardRefuses g c b = true) :
    slice g c b oc = { refused := true, ret := false, writes := [] } := by
  simp [slice, hg]

theorem slice_passed {g : Guard} {c : Cfg} {b : Nat} (oc : Outcome) (hg : guardRefuses g c b = false) :
    slice g c b oc = match oc with
      | .found _ => { refused := false, ret := true, writes := payloadWrites c }
      | _ => { refused := false, ret := false, writes := [] } := by
  cases oc <;> simp [slice, hg]

/-- octet mode in the low-pass slicer: the `do .. while (--j > 0)` trip count decides -/
theorem payloadWrites_lowpass_octet (c : Cfg) (hk : c.kind = .lowpass) (he : ¬ (c.endian ≥ 2)) :
    payloadWrites c = List.range (doWhileIters c.payload) := by
  unfold payloadWrites
  simp only [he, if_false, hk]
  exact octetLoop_writes _

theorem slicePoints_noCri_writes (bounded : Bool) (c : Cfg) (totalBits maxPoints : Nat) (ticks : List Bool)
    (h : ¬ (totalBits > maxPoints)) :
    (slicePoints bounded c totalBits maxPoints true .noCri ticks).writes =
      (criPoints (if bounded then some (maxPoints - c.nBits) else none) ticks).writes := by
  simp [slicePoints, h]

/-- `data_bits (bs)` = `frc_bits + payload_bits` for every accepted parameter set -/
theorem nBits_accepted {tight : Bool} {p : Params} {c : Cfg} (h : setParams tight p = .ok c) :
    c.nBits = p.frcBits + p.payloadBits := by
  cases tight with
  | false => exact nBits_eq (setParams_false.1 h)
  | true =>
    obtain ⟨c0, h0, ht⟩ := setParams_true.1 h
    obtain ⟨_, hc⟩ := tighten_ok ht
    have := nBits_eq h0
    rw [hc]; exact this

end Zvbi.Slicer
