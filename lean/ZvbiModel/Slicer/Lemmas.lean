import ZvbiModel.Slicer.Model
/-!
# Lemmas about the slicer index model (used by Props/C05.lean)
-/
namespace Zvbi.Slicer
open Zvbi.Generated.ServiceTable

/-! ## membership in the elementary read sets -/

theorem mem_green {w off x : Nat} : x ∈ green w off ↔ ∃ j, j < w ∧ x = off + j := by
  unfold green
  simp only [List.mem_map, List.mem_range]
  constructor
  · rintro ⟨j, hj, rfl⟩; exact ⟨j, hj, rfl⟩
  · rintro ⟨j, hj, rfl⟩; exact ⟨j, hj, rfl⟩

theorem mem_lpWindow {c : Cfg} {base x : Nat} : x ∈ lpWindow c base ↔ ∃ m, m < 16 ∧ x = base + m * c.bpp := by
  unfold lpWindow
  simp only [List.mem_map, List.mem_range]
  constructor
  · rintro ⟨j, hj, rfl⟩; exact ⟨j, hj, rfl⟩
  · rintro ⟨j, hj, rfl⟩; exact ⟨j, hj, rfl⟩

/-- a pixel with sample number `s < spl` lies inside the line: its sampled bytes end before `spl * bpp` -/
theorem pixel_in_line {bpp skip0 width spl s j : Nat} (hw : skip0 + width ≤ bpp) (hs : s < spl) (hj : j < width) :
    s * bpp + skip0 + j < spl * bpp := by
  have h1 : (s + 1) * bpp ≤ spl * bpp := Nat.mul_le_mul_right bpp hs
  rw [Nat.add_mul, Nat.one_mul] at h1
  omega

/-! ## what acceptance by `set_params` gives -/

/-- caller obligations of `vbi3_bit_slicer_set_params` under which the theorems are stated -/
structure Params.Sane (p : Params) : Prop where
  /-- the pixel format is one of those `set_params` knows -/
  fmt : p.fmt.WF
  bpp : p.fmt.bpp ≤ 4
  criBits : 0 < p.criBits
  payloadBits : 0 < p.payloadBits
  /-- `cri_end` leaves at least one search position (the raw decoder passes ~0) -/
  criEnd : p.offset < p.criEnd
  /-- the 64 bit quotients fit the `unsigned int` they are stored in -/
  noWrap : p.rate * p.criBits / p.criRate + p.rate * dataBits p / p.payloadRate < U32
  noWrapStep : p.rate * 256 / p.payloadRate < U32

/-- the accepted configuration, field by field -/
theorem setParams0_ok {p : Params} {c : Cfg} (h : setParams0 p = .ok c) :
    p.criBits ≤ 32 ∧ p.frcBits ≤ 32 ∧ p.payloadBits ≤ 32767 ∧ p.spl ≤ 32767 ∧
    p.criRate ≤ p.rate ∧ p.payloadRate ≤ p.rate ∧ 0 < p.criRate ∧ 0 < p.payloadRate ∧
    p.offset ≤ p.spl ∧ (criSamples0 p + dataSamples p) % U32 ≤ p.spl - p.offset ∧
    c = { kind := if useLowpass p then Kind.lowpass else Kind.core,
          bpp := p.fmt.bpp, width := p.fmt.width,
          skip := (p.offset * p.fmt.bpp + p.fmt.skip0) % U32,
          criSamples := (min p.criEnd ((p.spl + U32 - dataSamples p) % U32) + U32 - p.offset) % U32,
          phaseShift := phaseOf p, step := stepOf p,
          frcBits := p.frcBits, payload := (payloadOf p).1, endian := (payloadOf p).2 } := by
  unfold setParams0 at h
  split at h
  · cases h
  · split at h
    · cases h
    · split at h
      · cases h
      · split at h
        · cases h
        · split at h
          · cases h
          · split at h
            · cases h
            · rename_i h1 h2 _ _ h5 h6
              have hc : _ = c := Except.ok.inj h
              refine ⟨by omega, by omega, by omega, by omega, by omega, by omega, by omega, by omega, by omega, by omega, hc.symm⟩

theorem setParams_false {p : Params} {c : Cfg} : setParams false p = .ok c ↔ setParams0 p = .ok c := by
  unfold setParams
  cases setParams0 p <;> simp

theorem setParams_true {p : Params} {c : Cfg} :
    setParams true p = .ok c ↔ ∃ c0, setParams0 p = .ok c0 ∧ tighten p c0 = .ok c := by
  unfold setParams
  cases h : setParams0 p <;> simp

theorem tighten_ok {p : Params} {c0 c : Cfg} (h : tighten p c0 = .ok c) :
    p.offset + lookAhead c0.kind c0.phaseShift c0.step c0.nBits < p.spl ∧
    c = { c0 with criSamples := min c0.criSamples (p.spl - p.offset - lookAhead c0.kind c0.phaseShift c0.step c0.nBits) } := by
  unfold tighten at h
  simp only at h
  split at h
  · cases h
  · exact ⟨by omega, (Except.ok.inj h).symm⟩

/-- number of sampled bits = FRC bits + payload bits, in both storage modes -/
theorem nBits_eq {p : Params} {c : Cfg} (h : setParams0 p = .ok c) : c.nBits = p.frcBits + p.payloadBits := by
  obtain ⟨_, _, _, _, _, _, _, _, _, _, rfl⟩ := setParams0_ok h
  simp only [Cfg.nBits, nBitsOf, payloadOf]
  by_cases h8 : p.payloadBits % 8 = 0 <;> by_cases hb : p.msb = true <;> simp [h8, hb] <;> omega

/-! ## geometry: which reads lie inside a line of `spl` samples -/

/-- how the configured state relates to the line: pixel size, position of the sampled bytes, start offset -/
structure Geom (p : Params) (c : Cfg) : Prop where
  bpp : c.bpp = p.fmt.bpp
  width : c.width = p.fmt.width
  skip : c.skip = p.offset * p.fmt.bpp + p.fmt.skip0
  wf : p.fmt.skip0 + p.fmt.width ≤ p.fmt.bpp

theorem geom_of_ok {p : Params} {c : Cfg} (h : setParams0 p = .ok c) (hf : p.fmt.WF) (hb : p.fmt.bpp ≤ 4) : Geom p c := by
  obtain ⟨_, _, _, hspl, _, _, _, _, hoff, _, rfl⟩ := setParams0_ok h
  refine ⟨rfl, rfl, ?_, hf.2⟩
  have h1 : p.offset * p.fmt.bpp ≤ 32767 * 4 := Nat.mul_le_mul (by omega) hb
  have h2 := hf.2
  show (p.offset * p.fmt.bpp + p.fmt.skip0) % U32 = _
  apply Nat.mod_eq_of_lt
  unfold U32
  omega

theorem geom_tighten {p : Params} {c0 c : Cfg} (hg : Geom p c0) (h : tighten p c0 = .ok c) : Geom p c := by
  obtain ⟨_, rfl⟩ := tighten_ok h
  exact ⟨hg.bpp, hg.width, hg.skip, hg.wf⟩

/-- byte `j` of the sampled part of pixel `offset + m` -/
theorem pix_lt {p : Params} {c : Cfg} (hg : Geom p c) {m j : Nat} (hm : p.offset + m < p.spl) (hj : j < c.width) :
    c.skip + m * c.bpp + j < p.spl * c.bpp := by
  have h := pixel_in_line (bpp := p.fmt.bpp) (skip0 := p.fmt.skip0) (width := p.fmt.width) (spl := p.spl)
    (s := p.offset + m) (j := j) hg.wf hm (hg.width ▸ hj)
  rw [Nat.add_mul] at h
  rw [hg.skip, hg.bpp]
  omega

theorem green_lt {p : Params} {c : Cfg} (hg : Geom p c) {m x : Nat} (hm : p.offset + m < p.spl)
    (hx : x ∈ green c.width (c.skip + m * c.bpp)) : x < p.spl * c.bpp := by
  obtain ⟨j, hj, rfl⟩ := mem_green.1 hx
  exact pix_lt hg hm hj

theorem criReadsCore_lt {p : Params} {c : Cfg} (hg : Geom p c) {n x : Nat} (hn : p.offset + n + 1 < p.spl)
    (hx : x ∈ criReadsCore c n) : x < p.spl * c.bpp := by
  unfold criReadsCore at hx
  rcases List.mem_append.1 hx with hx | hx
  · exact green_lt hg (by omega) hx
  · have : c.skip + n * c.bpp + c.bpp = c.skip + (n + 1) * c.bpp := by rw [Nat.add_mul]; omega
    rw [this] at hx
    exact green_lt hg (by omega) hx

theorem sampleReadsCore_lt {p : Params} {c : Cfg} (hg : Geom p c) {k i x : Nat} (hn : p.offset + k + i / 256 + 1 < p.spl)
    (hx : x ∈ sampleReadsCore c k i) : x < p.spl * c.bpp := by
  unfold sampleReadsCore at hx
  simp only at hx
  have e1 : c.skip + k * c.bpp + i / 256 * c.bpp = c.skip + (k + i / 256) * c.bpp := by rw [Nat.add_mul]; omega
  have e2 : c.skip + k * c.bpp + i / 256 * c.bpp + c.bpp = c.skip + (k + i / 256 + 1) * c.bpp := by
    rw [Nat.add_mul, Nat.add_mul]; omega
  rcases List.mem_append.1 hx with hx | hx
  · rw [e1] at hx; exact green_lt hg (by omega) hx
  · rw [e2] at hx; exact green_lt hg (by omega) hx

/-- the low-pass slicer is only selected for formats whose sample is one byte -/
theorem lpWindow_lt {p : Params} {c : Cfg} (hg : Geom p c) (hw : 0 < c.width) {m x : Nat} (hm : p.offset + m + 15 < p.spl)
    (hx : x ∈ lpWindow c (c.skip + m * c.bpp)) : x < p.spl * c.bpp := by
  obtain ⟨t, ht, rfl⟩ := mem_lpWindow.1 hx
  have e : c.skip + m * c.bpp + t * c.bpp = c.skip + (m + t) * c.bpp + 0 := by rw [Nat.add_mul]; omega
  rw [e]
  exact pix_lt hg (by omega) hw

theorem criReadsLp_lt {p : Params} {c : Cfg} (hg : Geom p c) (hw : 0 < c.width) {n x : Nat} (hn : p.offset + n + 16 < p.spl)
    (hx : x ∈ criReadsLp c n) : x < p.spl * c.bpp := by
  unfold criReadsLp at hx
  simp only [List.mem_cons, List.mem_nil_iff, or_false] at hx
  rcases hx with rfl | rfl
  · have e : c.skip + n * c.bpp + 16 * c.bpp = c.skip + (n + 16) * c.bpp + 0 := by rw [Nat.add_mul]; omega
    rw [e]; exact pix_lt hg (by omega) hw
  · have e : c.skip + n * c.bpp = c.skip + n * c.bpp + 0 := by omega
    rw [e]; exact pix_lt hg (by omega) hw

theorem sampleReadsLp_lt {p : Params} {c : Cfg} (hg : Geom p c) (hw : 0 < c.width) {k i x : Nat}
    (hn : p.offset + (k + 1) + i / 256 + 15 < p.spl) (hx : x ∈ sampleReadsLp c k i) : x < p.spl * c.bpp := by
  unfold sampleReadsLp at hx
  have e : c.skip + (k + 1) * c.bpp + i / 256 * c.bpp = c.skip + (k + 1 + i / 256) * c.bpp := by
    rw [Nat.add_mul (k + 1)]; omega
  rw [e] at hx
  exact lpWindow_lt hg hw (by omega) hx

/-- bit `j < nb <= nBits` is sampled no later than the last bit -/
theorem bit_le_last {c : Cfg} {j nb : Nat} (hj : j < nb) (hnb : nb ≤ c.nBits) :
    bitPos c j / 256 ≤ lastBitSample c.phaseShift c.step c.nBits := by
  unfold bitPos lastBitSample
  apply Nat.div_le_div_right
  have : j ≤ c.nBits - 1 := by omega
  have := Nat.mul_le_mul_right c.step this
  omega

theorem frcBits_le_nBits (c : Cfg) : c.frcBits ≤ c.nBits := by
  unfold Cfg.nBits nBitsOf; omega

/-- every read of the CRI search (and of the low-pass start-up window) lies in the line, provided the
    search limit leaves one sample (core) resp. sixteen (low-pass) after the last search position -/
theorem searchReads_lt {p : Params} {c : Cfg} (hg : Geom p c) (hw : 0 < c.width) {m : Nat}
    (hroom : p.offset + m + (match c.kind with | .core => 1 | .lowpass => 16) ≤ p.spl)
    (hinit : c.kind = .lowpass → p.offset + 16 ≤ p.spl) :
    ∀ x ∈ initReads c ++ (List.range m).flatMap (criReads c), x < p.spl * c.bpp := by
  intro x hx
  rcases List.mem_append.1 hx with hx | hx
  · unfold initReads at hx
    cases hk : c.kind <;> rw [hk] at hx
    · cases hx
    · have e : c.skip = c.skip + 0 * c.bpp := by omega
      simp only at hx
      rw [e] at hx
      have := hinit hk
      exact lpWindow_lt hg hw (by omega) hx
  · obtain ⟨n, hn, hxn⟩ := List.mem_flatMap.1 hx
    have hn := List.mem_range.1 hn
    unfold criReads at hxn
    cases hk : c.kind <;> rw [hk] at hxn hroom <;> simp only at hxn hroom
    · exact criReadsCore_lt hg (by omega) hxn
    · exact criReadsLp_lt hg hw (by omega) hxn

/-- reads of the first `nb` bits after the search stopped in iteration `k` -/
theorem bitReads_lt {p : Params} {c : Cfg} (hg : Geom p c) (hw : 0 < c.width) {k nb : Nat} (hnb : nb ≤ c.nBits)
    (hroom : p.offset + k + lookAhead c.kind c.phaseShift c.step c.nBits < p.spl) :
    ∀ x ∈ bitReads c k nb, x < p.spl * c.bpp := by
  intro x hx
  unfold bitReads at hx
  obtain ⟨j, hj, hxj⟩ := List.mem_flatMap.1 hx
  have hj := List.mem_range.1 hj
  have hle := bit_le_last hj hnb
  unfold sampleReads at hxj
  unfold lookAhead at hroom
  cases hk : c.kind <;> rw [hk] at hxj hroom <;> simp only at hxj hroom
  · exact sampleReadsCore_lt hg (by omega) hxj
  · exact sampleReadsLp_lt hg hw (by omega) hxj

/-- the whole call: if the search limit leaves room for the look-ahead, every read is in the line -/
theorem sliceReads_lt {p : Params} {c : Cfg} (hg : Geom p c) (hw : 0 < c.width)
    (hroom : c.criSamples + p.offset + lookAhead c.kind c.phaseShift c.step c.nBits ≤ p.spl)
    (hla : p.offset + lookAhead c.kind c.phaseShift c.step c.nBits < p.spl)
    (oc : Outcome) (hoc : oc.admissible c) : ∀ x ∈ sliceReads c oc, x < p.spl * c.bpp := by
  have hla1 : (match c.kind with | .core => 1 | .lowpass => 16) ≤ lookAhead c.kind c.phaseShift c.step c.nBits := by
    unfold lookAhead; cases c.kind <;> simp
  have hinit : c.kind = .lowpass → p.offset + 16 ≤ p.spl := by
    intro hk; rw [hk] at hla1 hla; simp only at hla1; omega
  intro x hx
  cases oc with
  | noCri =>
    exact searchReads_lt hg hw (m := c.criSamples) (by omega) hinit x hx
  | frcFail k =>
    simp only [Outcome.admissible] at hoc
    unfold sliceReads at hx
    rcases List.mem_append.1 hx with hx | hx
    · exact searchReads_lt hg hw (m := k + 1) (by omega) hinit x hx
    · exact bitReads_lt hg hw (frcBits_le_nBits c) (by omega) x hx
  | found k =>
    simp only [Outcome.admissible] at hoc
    unfold sliceReads at hx
    rcases List.mem_append.1 hx with hx | hx
    · exact searchReads_lt hg hw (m := k + 1) (by omega) hinit x hx
    · exact bitReads_lt hg hw (Nat.le_refl _) (by omega) x hx

/-! ## the search limit of the released arithmetic -/

/-- consequences of acceptance for callers that meet `Params.Sane` -/
structure OrigFacts (p : Params) (c : Cfg) : Prop where
  cs0 : criSamples0 p = p.rate * p.criBits / p.criRate
  ds : dataSamples p = p.rate * dataBits p / p.payloadRate
  fit : criSamples0 p + dataSamples p + p.offset ≤ p.spl
  cs0_pos : 1 ≤ criSamples0 p
  ds_ge : dataBits p ≤ dataSamples p
  ds_lp : c.kind = .lowpass → 25 * dataBits p ≤ dataSamples p
  criSamples_le : c.criSamples + p.offset + dataSamples p ≤ p.spl
  criSamples_pos : 1 ≤ c.criSamples

theorem orig_facts {p : Params} {c : Cfg} (h : setParams0 p = .ok c) (hs : p.Sane) : OrigFacts p c := by
  obtain ⟨_, _, _, hspl, hcr, hpr, hc0, hb0, hoff, hacc, rfl⟩ := setParams0_ok h
  have hnw := hs.noWrap
  have hcs : criSamples0 p = p.rate * p.criBits / p.criRate := by
    unfold criSamples0; apply Nat.mod_eq_of_lt; exact Nat.lt_of_le_of_lt (Nat.le_add_right _ _) hnw
  have hds : dataSamples p = p.rate * dataBits p / p.payloadRate := by
    unfold dataSamples; apply Nat.mod_eq_of_lt; exact Nat.lt_of_le_of_lt (Nat.le_add_left _ _) hnw
  have hsum : (criSamples0 p + dataSamples p) % U32 = criSamples0 p + dataSamples p := by
    apply Nat.mod_eq_of_lt; rw [hcs, hds]; exact hnw
  rw [hsum] at hacc
  have hcs1 : 1 ≤ criSamples0 p := by
    rw [hcs]; apply (Nat.le_div_iff_mul_le hc0).2
    have := Nat.mul_le_mul hcr hs.criBits
    omega
  have hdb : dataBits p ≤ dataSamples p := by
    rw [hds]; apply (Nat.le_div_iff_mul_le hb0).2
    have := Nat.mul_le_mul_right (dataBits p) hpr
    rw [Nat.mul_comm]; exact this
  have hlp : useLowpass p = true → 25 * dataBits p ≤ dataSamples p := by
    intro hl
    unfold useLowpass at hl
    simp only [Bool.and_eq_true, decide_eq_true_eq] at hl
    have hm : 0 < max p.criRate p.payloadRate := by omega
    have h25 : 25 * max p.criRate p.payloadRate ≤ p.rate := (Nat.le_div_iff_mul_le hm).1 hl.2
    have h25b : 25 * p.payloadRate ≤ p.rate := by
      have : p.payloadRate ≤ max p.criRate p.payloadRate := Nat.le_max_right _ _
      omega
    rw [hds]; apply (Nat.le_div_iff_mul_le hb0).2
    have := Nat.mul_le_mul_right (dataBits p) h25b
    rw [Nat.mul_comm p.rate]
    calc 25 * dataBits p * p.payloadRate = 25 * p.payloadRate * dataBits p := by
          rw [Nat.mul_assoc, Nat.mul_assoc, Nat.mul_comm (dataBits p)]
      _ ≤ p.rate * dataBits p := this
      _ = dataBits p * p.rate := Nat.mul_comm _ _
  have hce := hs.criEnd
  have hcsamp : (min p.criEnd ((p.spl + U32 - dataSamples p) % U32) + U32 - p.offset) % U32
      = min p.criEnd (p.spl - dataSamples p) - p.offset := by
    have e1 : (p.spl + U32 - dataSamples p) % U32 = p.spl - dataSamples p := by unfold U32; omega
    rw [e1]; unfold U32; omega
  refine ⟨hcs, hds, by omega, hcs1, hdb, ?_, ?_, ?_⟩
  · intro hk
    apply hlp
    by_cases hl : useLowpass p = true
    · exact hl
    · simp [hl] at hk
  · show (min p.criEnd ((p.spl + U32 - dataSamples p) % U32) + U32 - p.offset) % U32 + p.offset + dataSamples p ≤ p.spl
    rw [hcsamp]; omega
  · show 1 ≤ (min p.criEnd ((p.spl + U32 - dataSamples p) % U32) + U32 - p.offset) % U32
    rw [hcsamp]; omega

theorem dataBits_pos {p : Params} (hs : p.Sane) : 1 ≤ dataBits p := by
  have := hs.payloadBits; unfold dataBits; omega

theorem width_pos {p : Params} {c : Cfg} (hg : Geom p c) (hf : p.fmt.WF) : 0 < c.width := by
  rw [hg.width]; exact hf.1

end Zvbi.Slicer
