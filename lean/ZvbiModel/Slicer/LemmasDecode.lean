import ZvbiModel.Slicer.Model
/-!
# Lemmas about the decode loop of `vbi3_raw_decoder_decode` (line pointers, output slots)
-/
namespace Zvbi.Slicer

/-- value of `raw - raw1` at the top of loop iteration `i` (before the field-2 reset) -/
def rawAt (sp : Sp) (i : Nat) : Nat :=
  if sp.interlaced then (if i ≤ sp.count0 then i * (sp.bpl * 2) else sp.bpl + (i - sp.count0) * (sp.bpl * 2))
  else i * sp.bpl

/-- loop invariant after rows `0 .. i-1` -/
structure DInv (sp : Sp) (maxLines : Nat) (s : DState) (i : Nat) : Prop where
  n_le : s.n ≤ maxLines
  slots : ∀ k ∈ s.slots, k < maxLines
  visited : ∀ v ∈ s.visited, v.1 < i ∧ v.2 = lineOffset sp v.1
  raw : s.stopped = false → s.raw = rawAt sp i
  n_le_rows : s.n ≤ i
  slots_len : s.slots.length = s.visited.length

theorem dinv_init (sp : Sp) (maxLines : Nat) : DInv sp maxLines {} 0 := by
  refine ⟨Nat.zero_le _, ?_, ?_, ?_, Nat.le_refl _, rfl⟩
  · intro k hk; cases hk
  · intro v hv; cases hv
  · intro _; simp [rawAt]

theorem dinv_step (sp : Sp) (maxLines : Nat) (hit : Nat → Bool) (s : DState) (i : Nat)
    (h : DInv sp maxLines s i) : DInv sp maxLines (decodeStep sp maxLines hit s i) (i + 1) := by
  unfold decodeStep
  by_cases hst : s.stopped = true
  · simp only [hst, if_true]
    exact ⟨h.n_le, h.slots, fun v hv => ⟨(by have := (h.visited v hv).1; omega), (h.visited v hv).2⟩,
      (fun hf => by rw [hst] at hf; cases hf), (by have := h.n_le_rows; omega), h.slots_len⟩
  · have hst' : s.stopped = false := by cases hs : s.stopped <;> simp_all
    simp only [hst', Bool.false_eq_true, if_false]
    by_cases hfull : s.n ≥ maxLines
    · simp only [hfull, if_true]
      exact ⟨h.n_le, h.slots, fun v hv => ⟨(by have := (h.visited v hv).1; omega), (h.visited v hv).2⟩,
        (fun hf => by simp at hf), (by have := h.n_le_rows; show s.n ≤ i + 1; omega), h.slots_len⟩
    · simp only [hfull, if_false]
      have hraw := h.raw hst'
      refine ⟨?_, ?_, ?_, ?_, ?_, ?_⟩
      · show (if hit i = true then s.n + 1 else s.n) ≤ maxLines
        split <;> omega
      · intro k hk
        simp only [List.mem_append, List.mem_singleton] at hk
        rcases hk with hk | rfl
        · exact h.slots k hk
        · omega
      · intro v hv
        simp only [List.mem_append, List.mem_singleton] at hv
        rcases hv with hv | rfl
        · exact ⟨by have := (h.visited v hv).1; omega, (h.visited v hv).2⟩
        · refine ⟨by simp, ?_⟩
          simp only [lineOffset]
          rw [hraw]; unfold rawAt
          by_cases hi : sp.interlaced = true
          · simp only [hi, if_true, Bool.true_and, beq_iff_eq]
            by_cases he : i = sp.count0
            · simp [he]
            · simp only [he, if_false]
              by_cases hl : i < sp.count0
              · have : i ≤ sp.count0 := by omega
                simp [hl, this]
              · have : ¬ i ≤ sp.count0 := by omega
                simp [hl, this]
          · have hi' : sp.interlaced = false := by cases hs : sp.interlaced <;> simp_all
            simp [hi']
      · intro _
        show (if (sp.interlaced && i == sp.count0) = true then sp.bpl else s.raw) + (if sp.interlaced = true then sp.bpl * 2 else sp.bpl) = rawAt sp (i + 1)
        rw [hraw]; unfold rawAt
        by_cases hi : sp.interlaced = true
        · simp only [hi, if_true, Bool.true_and, beq_iff_eq]
          by_cases he : i = sp.count0
          · have h1 : ¬ (sp.count0 + 1 ≤ sp.count0) := by omega
            simp only [he, h1, if_false, if_true]
            have : sp.count0 + 1 - sp.count0 = 1 := by omega
            rw [this]; omega
          · simp only [he, if_false]
            by_cases hl : i < sp.count0
            · have h1 : i ≤ sp.count0 := by omega
              have h2 : i + 1 ≤ sp.count0 := by omega
              simp only [h1, h2, if_true]
              rw [Nat.add_mul]; omega
            · have h1 : ¬ i ≤ sp.count0 := by omega
              have h2 : ¬ i + 1 ≤ sp.count0 := by omega
              simp only [h1, h2, if_false]
              have : i + 1 - sp.count0 = (i - sp.count0) + 1 := by omega
              rw [this, Nat.add_mul]; omega
        · have hi' : sp.interlaced = false := by cases hs : sp.interlaced <;> simp_all
          simp only [hi', Bool.false_and, Bool.false_eq_true, if_false]
          rw [Nat.add_mul]; omega
      · show (if hit i = true then s.n + 1 else s.n) ≤ i + 1
        have := h.n_le_rows
        split <;> omega
      · simp [h.slots_len]

theorem dinv_fold (sp : Sp) (maxLines : Nat) (hit : Nat → Bool) (n : Nat) :
    DInv sp maxLines ((List.range n).foldl (decodeStep sp maxLines hit) {}) n := by
  induction n with
  | zero => exact dinv_init sp maxLines
  | succ n ih =>
    rw [List.range_succ, List.foldl_append]
    exact dinv_step sp maxLines hit _ n ih

theorem dinv_decode (sp : Sp) (maxLines : Nat) (hit : Nat → Bool) :
    DInv sp maxLines (decode sp maxLines hit) sp.scanLines := dinv_fold sp maxLines hit sp.scanLines

/-- a whole line starting at the offset of row `i` lies inside the image -/
theorem line_in_image {sp : Sp} {b : Nat} (hv : sp.valid b) {i : Nat} (hi : i < sp.scanLines) :
    lineOffset sp i + sp.bpl ≤ sp.imageBytes := by
  obtain ⟨_, _, _, _, hint⟩ := hv
  unfold lineOffset Sp.imageBytes
  unfold Sp.scanLines at hi ⊢
  by_cases hil : sp.interlaced = true
  · obtain ⟨heq, _⟩ := hint hil
    simp only [hil, if_true]
    by_cases hl : i < sp.count0
    · simp only [hl, if_true]
      have h1 : (2 * i + 1) * sp.bpl ≤ (sp.count0 + sp.count1) * sp.bpl := Nat.mul_le_mul_right _ (by omega)
      have e : i * (sp.bpl * 2) = 2 * (i * sp.bpl) := by rw [← Nat.mul_assoc]; omega
      rw [Nat.add_mul, Nat.mul_assoc, Nat.one_mul] at h1
      rw [e]; omega
    · simp only [hl, if_false]
      have h1 : (2 * (i - sp.count0) + 2) * sp.bpl ≤ (sp.count0 + sp.count1) * sp.bpl :=
        Nat.mul_le_mul_right _ (by omega)
      have e : (i - sp.count0) * (sp.bpl * 2) = 2 * ((i - sp.count0) * sp.bpl) := by rw [← Nat.mul_assoc]; omega
      rw [Nat.add_mul, Nat.mul_assoc] at h1
      rw [e]; omega
  · have hi' : sp.interlaced = false := by cases hs : sp.interlaced <;> simp_all
    simp only [hi', Bool.false_eq_true, if_false]
    have h1 : (i + 1) * sp.bpl ≤ (sp.count0 + sp.count1) * sp.bpl := Nat.mul_le_mul_right _ (by omega)
    rw [Nat.add_mul, Nat.one_mul] at h1
    exact h1

/-- `samples_per_line = bytes_per_line / VBI_PIXFMT_BPP`: the sampled part of a line is not longer than the line -/
theorem spl_bytes_le_bpl (bpl b : Nat) : bpl / b * b ≤ bpl := Nat.div_mul_le_self bpl b

end Zvbi.Slicer
