import ZvbiModel.Slicer.BitsStage
/-!
# Lemmas for C04 (round 2), slicer part 4: the side conditions of `payloadStage_exact` hold for whatever
`vbi3_bit_slicer_set_params` / `vbi_bit_slicer_init` configure from a row of the regenerated service table
-/
namespace Zvbi.Rawdec
open Zvbi.Slicer (U32 Cfg LCfg Params LParams setParams setParams0 tighten payloadOf legacyInit rowParams)
open Zvbi.Generated.ServiceTable

/-- `bs->payload` / `bs->endian` as derived by `set_params`: a bit mode (endian 2, 3) is selected exactly when the
    payload is not a whole number of octets -/
theorem payloadOf_spec (p : Params) :
    (payloadOf p).2 ≤ 3 ∧ (2 ≤ (payloadOf p).2 → (payloadOf p).1 % 8 ≠ 0) ∧
    ((payloadOf p).2 < 2 → 8 * (payloadOf p).1 = p.payloadBits) ∧ (2 ≤ (payloadOf p).2 → (payloadOf p).1 = p.payloadBits) := by
  unfold payloadOf
  by_cases h8 : p.payloadBits % 8 = 0 <;> cases hm : p.msb <;> simp [h8] <;> omega

theorem setParams_payload (tight : Bool) (p : Params) (fk : Bool) (c : Cfg) (h : setParams tight p fk = .ok c) :
    c.payload = (payloadOf p).1 ∧ c.endian = (payloadOf p).2 ∧ c.frcBits = p.frcBits := by
  unfold setParams at h
  cases h0 : setParams0 p fk with
  | error e => rw [h0] at h; cases h
  | ok c0 =>
    rw [h0] at h
    have hc0 : c0.payload = (payloadOf p).1 ∧ c0.endian = (payloadOf p).2 ∧ c0.frcBits = p.frcBits := by
      unfold setParams0 at h0
      repeat (split at h0; · cases h0)
      cases h0
      exact ⟨rfl, rfl, rfl⟩
    simp only [] at h
    split at h
    · unfold tighten at h
      simp only [] at h
      split at h
      · cases h
      · cases h; exact hc0
    · cases h; exact hc0

/-- the FRC value `add_services` hands to `set_params` fits in 8 bits for every row of the table (every row has at
    most 8 FRC bits; the bit-mode row, WSS 625, has none) -/
theorem table_frc_lt_256 : ∀ r ∈ serviceTable,
    (r.criFrc &&& (2 ^ r.frcBits - 1)) &&& (if r.frcBits = 32 then U32 - 1 else 2 ^ r.frcBits - 1) < 256 ∧
    r.criFrc &&& (if r.frcBits = 0 then 0 else (U32 - 1) >>> (32 - r.frcBits)) < 256 := by
  decide

/-- everything `payloadStage_exact` asks of the configuration, for a slicer `add_services` sets up from a table row -/
theorem bsOfRow_side (r : Row) (hr : r ∈ serviceTable) (gf : GreenFmt) (fmt : Zvbi.Slicer.Fmt) (rate spl : Nat) (tight : Bool)
    (c : Cfg) (h : setParams tight (rowParams r fmt rate spl) = .ok c) :
    (bsOfRow r gf c rate).endian ≤ 3 ∧ (2 ≤ (bsOfRow r gf c rate).endian → (bsOfRow r gf c rate).payload % 8 ≠ 0) ∧
    (bsOfRow r gf c rate).frc < 256 ∧ nBits (bsOfRow r gf c rate) = r.payload := by
  obtain ⟨h1, h2, _⟩ := setParams_payload tight _ true c h
  obtain ⟨s1, s2, s3, s4⟩ := payloadOf_spec (rowParams r fmt rate spl)
  have hpb : (rowParams r fmt rate spl).payloadBits = r.payload := rfl
  refine ⟨?_, ?_, (table_frc_lt_256 r hr).1, ?_⟩
  · show c.endian ≤ 3
    rw [h2]; exact s1
  · show 2 ≤ c.endian → c.payload % 8 ≠ 0
    rw [h1, h2]; exact s2
  · show (if 2 ≤ c.endian then c.payload else 8 * c.payload) = r.payload
    rw [h1, h2, ← hpb]
    split
    · exact s4 (by assumption)
    · exact s3 (by omega)

/-- ... and for a legacy slicer initialised by `vbi_bit_slicer_init` -/
theorem legacyBsOfRow_side (r : Row) (hr : r ∈ serviceTable) (tight : Bool) (p : LParams) (rate : Nat)
    (hfb : p.frcBits = r.frcBits) :
    (legacyBsOfRow r (legacyInit tight p) rate).endian ≤ 3 ∧
    (2 ≤ (legacyBsOfRow r (legacyInit tight p) rate).endian → (legacyBsOfRow r (legacyInit tight p) rate).payload % 8 ≠ 0) ∧
    (legacyBsOfRow r (legacyInit tight p) rate).frc < 256 ∧
    nBits (legacyBsOfRow r (legacyInit tight p) rate) = p.payloadBits := by
  have _ := hfb
  refine ⟨?_, ?_, (table_frc_lt_256 r hr).2, ?_⟩
  · show (legacyInit tight p).endian ≤ 3
    unfold legacyInit
    by_cases h8 : p.payloadBits % 8 = 0 <;> cases hm : p.msb <;> simp [h8]
  · show 2 ≤ (legacyInit tight p).endian → (legacyInit tight p).payload % 8 ≠ 0
    unfold legacyInit
    by_cases h8 : p.payloadBits % 8 = 0 <;> cases hm : p.msb <;> simp [h8]
  · show (if 2 ≤ (legacyInit tight p).endian then (legacyInit tight p).payload else 8 * (legacyInit tight p).payload) = p.payloadBits
    unfold legacyInit
    by_cases h8 : p.payloadBits % 8 = 0 <;> cases hm : p.msb <;> simp [h8] <;> omega

end Zvbi.Rawdec
