import ZvbiModel.Slicer.Lemmas
/-!
# Facts about every row of the generated `_vbi_service_table` (re-proved whenever the table changes)
-/
namespace Zvbi.Slicer
open Zvbi.Generated.ServiceTable

/-- decidable sanity conditions on a table row -/
def RowSane (r : Row) : Prop :=
  0 < r.criBits ∧ r.criBits ≤ 32 ∧ r.frcBits ≤ 32 ∧ 0 < r.payload ∧ r.payload ≤ 32767 ∧
  2 * r.criBits ≤ r.criRate ∧ 2 * (r.payload + r.frcBits) ≤ r.bitRate ∧ 512 ≤ r.bitRate ∧
  r.modulation ≤ 3 ∧
  -- bytes stored by the slicer and the `payload > buffer_size * 8` test against `sizeof (sliced->data)`
  (if r.payload % 8 ≠ 0 then r.payload / 8 + 1 else r.payload / 8) ≤ slicedDataSize ∧
  r.payload ≤ slicedDataSize * 8

instance (r : Row) : Decidable (RowSane r) := by unfold RowSane; infer_instance

theorem rows_sane : ∀ r ∈ usableRows, RowSane r := by decide

/-- `a * k / c < N / 2`-style bound used for the 32 bit quotients -/
theorem quot_lt {rate bits c : Nat} (hr : rate < U32) (hc : 2 * bits ≤ c) (hc0 : 0 < c) : rate * bits / c < U32 / 2 := by
  apply (Nat.div_lt_iff_lt_mul hc0).2
  have h1 : rate * (2 * bits) ≤ rate * c := Nat.mul_le_mul_left _ hc
  have h2 : rate * c < U32 * c := Nat.mul_lt_mul_of_pos_right hr hc0
  have h3 : rate * (2 * bits) = 2 * (rate * bits) := by rw [Nat.mul_left_comm]
  have h4 : U32 / 2 * c * 2 = U32 * c := by unfold U32; omega
  omega

theorem row_noWrap {r : Row} (hs : RowSane r) (fmt : Fmt) {rate : Nat} (spl : Nat) (hr : rate < U32) :
    let p := rowParams r fmt rate spl
    p.rate * p.criBits / p.criRate + p.rate * dataBits p / p.payloadRate < U32 ∧ p.rate * 256 / p.payloadRate < U32 := by
  obtain ⟨h1, _, _, _, _, h6, h7, h8, _⟩ := hs
  intro p
  have a := quot_lt (rate := rate) (bits := r.criBits) (c := r.criRate) hr h6 (by omega)
  have b := quot_lt (rate := rate) (bits := r.payload + r.frcBits) (c := r.bitRate) hr h7 (by omega)
  have c := quot_lt (rate := rate) (bits := 256) (c := r.bitRate) hr (by omega) (by omega)
  have hU : U32 / 2 + U32 / 2 = U32 := by unfold U32; omega
  show rate * r.criBits / r.criRate + rate * (r.payload + r.frcBits) / r.bitRate < U32 ∧ rate * 256 / r.bitRate < U32
  omega

/-- what `add_services` passes satisfies the caller obligations of `set_params` -/
theorem row_sane_params {r : Row} (hs : RowSane r) {fmt : Fmt} (hf : fmt.WF) (hb : fmt.bpp ≤ 4) {rate : Nat} (spl : Nat)
    (hr : rate < U32) : (rowParams r fmt rate spl).Sane := by
  have hw := row_noWrap hs fmt spl hr
  obtain ⟨h1, _, _, h4, _⟩ := hs
  exact ⟨hf, hb, h1, h4, by show 0 < U32 - 1; unfold U32; omega, hw.1, hw.2⟩

/-- the arithmetic heart of "the repaired limit never rejects an admitted service": at every sampling rate
    `permit_service` admits, CRI + FRC + payload samples exceed the look-ahead of the payload loop
    (16 more for the low-pass slicer, which is only selected above 24 samples per bit) -/
def RowArith (r : Row) : Prop :=
  ∀ rate : Nat, rate < U32 → permitRate r rate = true →
    ((if r.modulation ≥ 2 then (512 * rate + (rate * 256 / r.bitRate) * r.criRate + 512 * r.criRate) / (4 * r.criRate)
       else (256 * rate + (rate * 256 / r.bitRate) * r.criRate + 256 * r.criRate) / (2 * r.criRate))
      + (r.frcBits + r.payload - 1) * (rate * 256 / r.bitRate)) / 256 + 2
      ≤ rate * r.criBits / r.criRate + rate * (r.payload + r.frcBits) / r.bitRate ∧
    (rate / max r.criRate r.bitRate > 24 →
      ((if r.modulation ≥ 2 then (512 * rate + (rate * 256 / r.bitRate) * r.criRate + 512 * r.criRate) / (4 * r.criRate)
       else (256 * rate + (rate * 256 / r.bitRate) * r.criRate + 256 * r.criRate) / (2 * r.criRate))
      + (r.frcBits + r.payload - 1) * (rate * 256 / r.bitRate)) / 256 + 17
      ≤ rate * r.criBits / r.criRate + rate * (r.payload + r.frcBits) / r.bitRate)

def AllRows (P : Row → Prop) : List Row → Prop
  | [] => True
  | r :: rs => P r ∧ AllRows P rs

theorem allRows_mem {P : Row → Prop} : ∀ {l : List Row}, AllRows P l → ∀ r ∈ l, P r
  | [], _, r, h => by cases h
  | a :: l, h, r, hr => by
    rcases List.mem_cons.1 hr with rfl | hr
    · exact h.1
    · exact allRows_mem h.2 r hr

set_option maxRecDepth 4000 in
/-- linear integer arithmetic with floor division by the literal rates of each row, for every rate -/
theorem rows_arith : ∀ r ∈ usableRows, RowArith r := by
  apply allRows_mem
  simp only [usableRows, serviceTable, List.filter, slicedVbi525, slicedVbi625]
  simp only [Nat.reduceAnd, Nat.reduceOr, Nat.reduceBEq, AllRows, and_true]
  repeat' apply And.intro
  all_goals
    intro rate h1 h2
    simp only [permitRate, slicedWss625, U32] at h1 h2
    simp at h2
    simp
    omega

/-- the look-ahead of an accepted table-row configuration, in the terms of `RowArith` -/
theorem row_room {r : Row} (hr : r ∈ usableRows) {fmt : Fmt} {rate spl : Nat} {c0 : Cfg}
    (hrate : rate < U32) (hperm : permitRate r rate = true)
    (h : setParams0 (rowParams r fmt rate spl) = .ok c0) :
    lookAhead c0.kind c0.phaseShift c0.step c0.nBits + 1
      ≤ criSamples0 (rowParams r fmt rate spl) + dataSamples (rowParams r fmt rate spl) := by
  have hs := rows_sane r hr
  have hA := rows_arith r hr rate hrate hperm
  have hw := row_noWrap hs fmt spl hrate
  have hn := nBits_eq h
  obtain ⟨_, _, _, _, _, _, _, _, _, _, hc⟩ := setParams0_ok h
  have hstep : stepOf (rowParams r fmt rate spl) = rate * 256 / r.bitRate := by
    unfold stepOf; apply Nat.mod_eq_of_lt; exact hw.2
  have hcs : criSamples0 (rowParams r fmt rate spl) = rate * r.criBits / r.criRate := by
    unfold criSamples0; apply Nat.mod_eq_of_lt; exact Nat.lt_of_le_of_lt (Nat.le_add_right _ _) hw.1
  have hds : dataSamples (rowParams r fmt rate spl) = rate * (r.payload + r.frcBits) / r.bitRate := by
    unfold dataSamples; apply Nat.mod_eq_of_lt; exact Nat.lt_of_le_of_lt (Nat.le_add_left _ _) hw.1
  have hphase : c0.phaseShift =
      (if r.modulation ≥ 2 then (512 * rate + (rate * 256 / r.bitRate) * r.criRate + 512 * r.criRate) / (4 * r.criRate)
       else (256 * rate + (rate * 256 / r.bitRate) * r.criRate + 256 * r.criRate) / (2 * r.criRate)) := by
    rw [hc]; show phaseOf (rowParams r fmt rate spl) = _
    unfold phaseOf; rw [hstep]
    simp only [rowParams, decide_eq_true_eq]
  have hst : c0.step = rate * 256 / r.bitRate := by rw [hc]; exact hstep
  have hnb : c0.nBits = r.frcBits + r.payload := hn
  have hk : c0.kind = .lowpass → rate / max r.criRate r.bitRate > 24 := by
    rw [hc]
    show (if useLowpass (rowParams r fmt rate spl) = true then Kind.lowpass else Kind.core) = Kind.lowpass → _
    intro hk
    by_cases hl : useLowpass (rowParams r fmt rate spl) = true
    · unfold useLowpass at hl
      simp only [Bool.and_eq_true, decide_eq_true_eq] at hl
      exact hl.2
    · simp [hl] at hk
  rw [hcs, hds, hphase, hst, hnb]
  unfold lookAhead lastBitSample
  cases hkk : c0.kind
  · simp only; have := hA.1; omega
  · simp only; have := hA.2 (hk hkk); omega

end Zvbi.Slicer
