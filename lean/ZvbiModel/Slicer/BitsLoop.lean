import ZvbiModel.Slicer.BitsOctets
/-!
# Lemmas for C04 (round 2), slicer part 2: the bit-granular payload loops (`endian` 3 and 2)

`bitLoop` (Rawdec/SliceModel.lean) is `for (j = 0; j < payload; ++j) { c = ...; if ((j & 7) == 7) *buffer++ = c; }`
of all three slicers.  Started at an octet boundary it is: `payload / 8` rounds of the octet loop
(`shiftInLsb` / `shiftInMsb`, one stored byte each) followed by `payload % 8` single steps without a store
(`bitLoop_split`).  The byte stored after the loop is `c >> ((8 - payload) & 7)` (LSB first) resp.
`c & ((1 << (payload & 7)) - 1)` (MSB first): `tailLsb_eq`, `tailMsb_eq`.
-/
namespace Zvbi.Rawdec
open Zvbi.Slicer (U32)

/-- one step of either loop -/
def bitStep (bs : BS) (smp : Sampler) (lsb : Bool) (c j : Nat) : Nat :=
  if lsb then c / 2 + b2n (smp (payloadPos bs j)) * 128 else (c * 2 + b2n (smp (payloadPos bs j))) % U32

theorem bitLoop_succ (bs : BS) (smp : Sampler) (lsb : Bool) (n j c : Nat) :
    bitLoop bs smp lsb (n + 1) j c =
      (if j % 8 = 7 then (bitStep bs smp lsb c j % 256) :: (bitLoop bs smp lsb n (j + 1) (bitStep bs smp lsb c j)).1
        else (bitLoop bs smp lsb n (j + 1) (bitStep bs smp lsb c j)).1,
       (bitLoop bs smp lsb n (j + 1) (bitStep bs smp lsb c j)).2) := by
  simp only [bitLoop, bitStep]

/-- the accumulator after `n` steps from bit `j` -/
def accLoop (bs : BS) (smp : Sampler) (lsb : Bool) : Nat → Nat → Nat → Nat
  | 0, _, c => c
  | n + 1, j, c => accLoop bs smp lsb n (j + 1) (bitStep bs smp lsb c j)

theorem bitLoop_snd (bs : BS) (smp : Sampler) (lsb : Bool) :
    ∀ (n j c : Nat), (bitLoop bs smp lsb n j c).2 = accLoop bs smp lsb n j c := by
  intro n
  induction n with
  | zero => intro j c; rfl
  | succ n ih => intro j c; rw [bitLoop_succ]; simp only [accLoop]; exact ih _ _

/-- fewer than 8 steps from an octet boundary store nothing inside the loop -/
theorem bitLoop_short (bs : BS) (smp : Sampler) (lsb : Bool) :
    ∀ (n j c : Nat), (∀ i, i < n → (j + i) % 8 ≠ 7) → (bitLoop bs smp lsb n j c).1 = [] := by
  intro n
  induction n with
  | zero => intro j c _; rfl
  | succ n ih =>
    intro j c h
    rw [bitLoop_succ]
    have h0 := h 0 (by omega)
    simp only [Nat.add_zero] at h0
    simp only [h0, if_false]
    apply ih
    intro i hi
    have := h (i + 1) (by omega)
    rw [show j + 1 + i = j + (i + 1) from by omega]
    exact this

/-- the octet step of the loop -/
def step8 (bs : BS) (smp : Sampler) (lsb : Bool) : Nat → Nat → Nat :=
  if lsb then shiftInLsb bs smp else shiftInMsb bs smp

theorem accLoop8 (bs : BS) (smp : Sampler) (lsb : Bool) (m c : Nat) :
    accLoop bs smp lsb 8 (8 * m) c = step8 bs smp lsb c m := by
  cases lsb <;>
  simp only [accLoop, step8, bitStep, shiftInLsb, shiftInMsb, List.range_succ, List.range_zero, List.nil_append,
    List.cons_append, List.foldl_cons, List.foldl_nil, if_true, if_false, Nat.add_zero, Bool.false_eq_true] <;> rfl

/-- eight steps from an octet boundary = one round of the octet loop: exactly one byte is stored, after the 8th step -/
theorem bitLoop_unroll8 (bs : BS) (smp : Sampler) (lsb : Bool) (n m c : Nat) :
    bitLoop bs smp lsb (n + 8) (8 * m) c =
      ((step8 bs smp lsb c m % 256) :: (bitLoop bs smp lsb n (8 * (m + 1)) (step8 bs smp lsb c m)).1,
       (bitLoop bs smp lsb n (8 * (m + 1)) (step8 bs smp lsb c m)).2) := by
  rw [← accLoop8]
  have e0 : ¬ ((8 * m) % 8 = 7) := by omega
  have e1 : ¬ ((8 * m + 1) % 8 = 7) := by omega
  have e2 : ¬ ((8 * m + 1 + 1) % 8 = 7) := by omega
  have e3 : ¬ ((8 * m + 1 + 1 + 1) % 8 = 7) := by omega
  have e4 : ¬ ((8 * m + 1 + 1 + 1 + 1) % 8 = 7) := by omega
  have e5 : ¬ ((8 * m + 1 + 1 + 1 + 1 + 1) % 8 = 7) := by omega
  have e6 : ¬ ((8 * m + 1 + 1 + 1 + 1 + 1 + 1) % 8 = 7) := by omega
  have e7 : (8 * m + 1 + 1 + 1 + 1 + 1 + 1 + 1) % 8 = 7 := by omega
  have e8 : 8 * m + 1 + 1 + 1 + 1 + 1 + 1 + 1 + 1 = 8 * (m + 1) := by omega
  rw [show n + 8 = n + 1 + 1 + 1 + 1 + 1 + 1 + 1 + 1 from rfl]
  rw [bitLoop_succ, bitLoop_succ, bitLoop_succ, bitLoop_succ, bitLoop_succ, bitLoop_succ, bitLoop_succ, bitLoop_succ]
  simp only [e0, e1, e2, e3, e4, e5, e6, e7, if_true, if_false, e8, accLoop]

/-- `payload = 8 q + r` bits from an octet boundary: `q` stored bytes, then `r` steps -/
theorem bitLoop_split (bs : BS) (smp : Sampler) (lsb : Bool) (r : Nat) (hr : r < 8) :
    ∀ (q m c : Nat), bitLoop bs smp lsb (8 * q + r) (8 * m) c =
      (octets (step8 bs smp lsb) q m c,
       accLoop bs smp lsb r (8 * (m + q)) (octetsAcc (step8 bs smp lsb) q m c)) := by
  intro q
  induction q with
  | zero =>
    intro m c
    simp only [Nat.mul_zero, Nat.zero_add, Nat.add_zero, octets, octetsAcc]
    apply Prod.ext
    · exact bitLoop_short bs smp lsb r (8 * m) c (by intro i hi; omega)
    · exact bitLoop_snd bs smp lsb r (8 * m) c
  | succ q ih =>
    intro m c
    rw [show 8 * (q + 1) + r = (8 * q + r) + 8 from by omega, bitLoop_unroll8, ih (m + 1)]
    simp only [octets, octetsAcc]
    rw [show m + 1 + q = m + (q + 1) from by omega]

/-! ### the partial last byte -/

/-- a number below `2^r`, `r <= 8`, has no bit at or above `r` -/
theorem testBit_hi (x r k : Nat) (hx : x < 2 ^ r) (hk : r ≤ k) : x.testBit k = false :=
  Nat.testBit_lt_two_pow (Nat.lt_of_lt_of_le hx (Nat.pow_le_pow_right (by omega) hk))

/-- LSB first: after `r` (1..7) steps from any `c < 256`, `c >> (8 - r)` is the value of the `r` sampled bits,
    first bit = bit 0 -/
theorem tailLsb_eq (bs : BS) (smp : Sampler) (r j c x : Nat) (hr1 : 0 < r) (hr : r < 8) (hc : c < 256) (hx : x < 2 ^ r)
    (h : ∀ k, k < r → smp (payloadPos bs (j + k)) = x.testBit k) :
    (accLoop bs smp true r j c / 2 ^ ((8 - r) % 8)) % 256 = x := by
  have hx256 : x < 256 := Nat.lt_of_lt_of_le hx (by
    have : (2 : Nat) ^ r ≤ 2 ^ 8 := Nat.pow_le_pow_right (by omega) (by omega)
    simpa using this)
  have hb := byte_msb x hx256
  have t : ∀ k, r ≤ k → (x.testBit k).toNat = 0 := by
    intro k hk; rw [testBit_hi x r k hx hk]; rfl
  have b7 := Nat.lt_succ_of_le (Bool.toNat_le (x.testBit 7))
  have b6 := Nat.lt_succ_of_le (Bool.toNat_le (x.testBit 6))
  have b5 := Nat.lt_succ_of_le (Bool.toNat_le (x.testBit 5))
  have b4 := Nat.lt_succ_of_le (Bool.toNat_le (x.testBit 4))
  have b3 := Nat.lt_succ_of_le (Bool.toNat_le (x.testBit 3))
  have b2 := Nat.lt_succ_of_le (Bool.toNat_le (x.testBit 2))
  have b1 := Nat.lt_succ_of_le (Bool.toNat_le (x.testBit 1))
  have b0 := Nat.lt_succ_of_le (Bool.toNat_le (x.testBit 0))
  have hcases : r = 1 ∨ r = 2 ∨ r = 3 ∨ r = 4 ∨ r = 5 ∨ r = 6 ∨ r = 7 := by omega
  rcases hcases with rfl | rfl | rfl | rfl | rfl | rfl | rfl
  all_goals
    simp only [accLoop, bitStep, if_true, Nat.add_assoc, Nat.reduceAdd, Nat.reduceSub, Nat.reduceMod, Nat.reducePow]
    try rw [show smp (payloadPos bs j) = _ from h 0 (by omega)]
    try rw [h 1 (by omega)]
    try rw [h 2 (by omega)]
    try rw [h 3 (by omega)]
    try rw [h 4 (by omega)]
    try rw [h 5 (by omega)]
    try rw [h 6 (by omega)]
    simp only [b2n_eq]
    have t1 := t 1; have t2 := t 2; have t3 := t 3; have t4 := t 4; have t5 := t 5; have t6 := t 6; have t7 := t 7
    omega

/-- MSB first: after `r` (0..7) steps `c & ((1 << r) - 1)` is the value of the `r` sampled bits, first bit = bit
    `r - 1`, whatever `c` held before -/
theorem tailMsb_eq (bs : BS) (smp : Sampler) (r j c x : Nat) (hr : r < 8) (hx : x < 2 ^ r)
    (h : ∀ k, k < r → smp (payloadPos bs (j + k)) = x.testBit (r - 1 - k)) :
    (accLoop bs smp false r j c % 2 ^ r) % 256 = x := by
  have hx256 : x < 256 := Nat.lt_of_lt_of_le hx (by
    have : (2 : Nat) ^ r ≤ 2 ^ 8 := Nat.pow_le_pow_right (by omega) (by omega)
    simpa using this)
  have hb := byte_msb x hx256
  have t : ∀ k, r ≤ k → (x.testBit k).toNat = 0 := by
    intro k hk; rw [testBit_hi x r k hx hk]; rfl
  have b7 := Nat.lt_succ_of_le (Bool.toNat_le (x.testBit 7))
  have b6 := Nat.lt_succ_of_le (Bool.toNat_le (x.testBit 6))
  have b5 := Nat.lt_succ_of_le (Bool.toNat_le (x.testBit 5))
  have b4 := Nat.lt_succ_of_le (Bool.toNat_le (x.testBit 4))
  have b3 := Nat.lt_succ_of_le (Bool.toNat_le (x.testBit 3))
  have b2 := Nat.lt_succ_of_le (Bool.toNat_le (x.testBit 2))
  have b1 := Nat.lt_succ_of_le (Bool.toNat_le (x.testBit 1))
  have b0 := Nat.lt_succ_of_le (Bool.toNat_le (x.testBit 0))
  have hcases : r = 0 ∨ r = 1 ∨ r = 2 ∨ r = 3 ∨ r = 4 ∨ r = 5 ∨ r = 6 ∨ r = 7 := by omega
  rcases hcases with rfl | rfl | rfl | rfl | rfl | rfl | rfl | rfl
  all_goals
    simp only [accLoop, bitStep, Bool.false_eq_true, if_false, Nat.add_assoc, Nat.reduceAdd, Nat.reducePow]
    try rw [show smp (payloadPos bs j) = _ from h 0 (by omega)]
    try rw [h 1 (by omega)]
    try rw [h 2 (by omega)]
    try rw [h 3 (by omega)]
    try rw [h 4 (by omega)]
    try rw [h 5 (by omega)]
    try rw [h 6 (by omega)]
    try simp only [b2n_eq, Nat.reduceSub]
    have t0 := t 0; have t1 := t 1; have t2 := t 2; have t3 := t 3; have t4 := t 4; have t5 := t 5; have t6 := t 6; have t7 := t 7
    try unfold U32
    omega

end Zvbi.Rawdec
