import ZvbiModel.Slicer.Spec
import ZvbiModel.Slicer.BufModel
/-!
# Concrete configurations the C05Buf theorems mention (witnesses, non-vacuity examples)

`corpus/C05/buffer-guard-*.ops`, `corpus/C05/F17-*.ops` replay the same numbers on the C code.
-/
namespace Zvbi.Slicer.Spec
open Zvbi.Slicer

theorem ok_of_toOption {r : Except Rej Cfg} {c : Cfg} (h : r.toOption = some c) : r = .ok c := by
  cases r with
  | error e => cases h
  | ok c' => simp [Except.toOption] at h; rw [h]

/-- Teletext B at 13.5 MHz / 720 samples as configured by the repaired `set_params` (search limit 54) -/
def teletextB_13_5_tight : Cfg := { teletextB_13_5_cfg with criSamples := 54 }

theorem teletextB_13_5_tight_ok : setParams true teletextB_13_5 = .ok teletextB_13_5_tight :=
  ok_of_toOption (by decide +kernel)

/-- the same service on a 2048 sample line (F17: 1382 search positions) -/
def teletextB_2048 : Params := { teletextB_13_5 with spl := 2048 }
def teletextB_2048_cfg : Cfg := { teletextB_13_5_cfg with criSamples := 1382 }

theorem teletextB_2048_ok : setParams true teletextB_2048 = .ok teletextB_2048_cfg :=
  ok_of_toOption (by decide +kernel)

theorem teletextB_2048_sane : teletextB_2048.Sane :=
  ⟨by decide, by decide, by decide, by decide, by decide, by decide, by decide⟩

/-- Teletext with a payload of 13 bits: bit mode (`endian = 3`, `bs->payload` counts bits) -/
def bitMode13 : Params := { teletextB_13_5 with payloadBits := 13 }

/-- Caption 525 at 27 MHz (low-pass slicer) with an EMPTY payload -/
def caption525_27_empty : Params := { caption525_27 with payloadBits := 0 }
def caption525_27_empty_cfg : Cfg := { caption525_27_cfg with criSamples := 1384, payload := 0 }

theorem caption525_27_empty_ok : setParams true caption525_27_empty = .ok caption525_27_empty_cfg :=
  ok_of_toOption (by decide +kernel)

end Zvbi.Slicer.Spec
