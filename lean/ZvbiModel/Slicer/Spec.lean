import ZvbiModel.Slicer.Model
import ZvbiModel.Slicer.Lemmas
import ZvbiModel.Slicer.LemmasLegacy
/-!
# Concrete configurations the C05 theorems mention (witnesses, non-vacuity examples)

Each is the parameter set `vbi3_raw_decoder_add_services` passes for a service table row at a common
capture geometry; `corpus/C05/*.ops` replays the same numbers on the C code.
-/
namespace Zvbi.Slicer.Spec
open Zvbi.Slicer Zvbi.Generated.ServiceTable

def y8 : Fmt := ⟨1, 0, 1, true⟩

/-- Teletext System B, 13.5 MHz, 720 samples per line, Y8 (row: 18 CRI bits, 6 FRC bits, 336 payload bits at 6.9375 MHz) -/
def teletextB_13_5 : Params :=
  { fmt := y8, rate := 13500000, offset := 0, spl := 720, criBits := 18, criRate := 6937500,
    criEnd := 4294967295, frcBits := 6, payloadBits := 336, payloadRate := 6937500, biphase := false, msb := false }

/-- what the released `set_params` computes for it (`#eval setParams false teletextB_13_5`; checked by `rfl` where used) -/
def teletextB_13_5_cfg : Cfg :=
  { kind := .core, bpp := 1, width := 1, skip := 0, criSamples := 55, phaseShift := 626, step := 498,
    frcBits := 6, payload := 42, endian := 1 }

theorem teletextB_13_5_sane : teletextB_13_5.Sane :=
  ⟨by decide, by decide, by decide, by decide, by decide, by decide, by decide⟩

/-- Closed Caption 525 (row: 4 CRI bits at 1.006976 MHz, 16 payload bits at 503.488 kHz), 27 MHz, 1440 samples, Y8:
    26 samples per CRI bit select the low-pass slicer -/
def caption525_27 : Params :=
  { fmt := y8, rate := 27000000, offset := 0, spl := 1440, criBits := 4, criRate := 1006976,
    criEnd := 4294967295, frcBits := 0, payloadBits := 16, payloadRate := 503488, biphase := false, msb := false }

def caption525_27_cfg : Cfg :=
  { kind := .lowpass, bpp := 1, width := 1, skip := 0, criSamples := 582, phaseShift := 10424, step := 13728,
    frcBits := 0, payload := 2, endian := 1 }

theorem caption525_27_sane : caption525_27.Sane :=
  ⟨by decide, by decide, by decide, by decide, by decide, by decide, by decide⟩

/-- the same service at 13.5 MHz (template slicer): here the released limit is safe -/
def caption525_13_5 : Params := { caption525_27 with rate := 13500000, spl := 720 }

/-- Teletext B through the legacy `vbi_bit_slicer_init`, 13.5 MHz, 720 samples, Y8 -/
def legacyTeletextB_13_5 : LParams :=
  { fmt := ⟨1, 0⟩, rawSamples := 720, rate := 13500000, criRate := 6937500, bitRate := 6937500,
    frcBits := 6, payloadBits := 336, biphase := false, msb := false }

theorem legacyTeletextB_13_5_sane : legacyTeletextB_13_5.Sane := ⟨by decide, by decide⟩

/-- what must hold of a `vbi_pixfmt` enumerator (name, `VBI_PIXFMT_BPP`) that `set_params` knows -/
def FormatOk (t : String × Nat × Nat) : Prop :=
  match fmtOfName t.1 with
  | some f => f.bpp = t.2.2 ∧ 0 < f.width ∧ f.skip0 + f.width ≤ f.bpp ∧ f.bpp ≤ 4
  | none => True

instance (t : String × Nat × Nat) : Decidable (FormatOk t) := by
  unfold FormatOk; split <;> infer_instance

/-- the Teletext B row of the generated table -/
def rowTeletextB : Row := (serviceTable.find? (fun r => r.id == 3)).getD
  { id := 0, videostd := 0, first0 := 0, first1 := 0, last0 := 0, last1 := 0, offsetNs := 0, criRate := 0, bitRate := 0,
    criFrc := 0, criFrcMask := 0, criBits := 0, frcBits := 0, payload := 0, modulation := 0, flags := 0, label := "" }

end Zvbi.Slicer.Spec
