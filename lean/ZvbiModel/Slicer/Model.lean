import ZvbiModel.Generated.ServiceTable
/-!
# Model of the raw VBI bit slicers: which bytes of a line are read

Code: `src/bit_slicer.c` (`vbi3_bit_slicer_set_params`, the `CORE/CRI/PAYLOAD/SAMPLE`
template, `low_pass_bit_slicer_Y8`), `src/decoder.c` (`vbi_bit_slicer_init`,
`bit_slicer_tmpl`, `sample`), `src/raw_decoder.c` (`vbi3_raw_decoder_decode` line
pointers and output limit, the slicer configuration of `add_services`).

No pixel value is modelled.  What a slicer reads depends on the image only through
the *outcome* of the clock run-in search: it is never found (`noCri`), or it is
found in search iteration `k` and the framing code then mismatches (`frcFail k`) or
matches (`found k`).  The model gives, for a configured slicer and an outcome, the
list of byte offsets (relative to the start of the line) that the C code
dereferences.  The property theorems quantify over every outcome, i.e. over every
image.

Two versions of the CRI search limit are modelled (`tight : Bool`):
* `false` - the arithmetic of zvbi 0.2.x as released: `cri_end = samples_per_line -
  data_samples`;
* `true`  - the limit additionally reduced so that the furthest sample of the
  payload loop (bit position `(phase_shift + (bits-1) * step) >> 8`, its interpolation
  neighbour, and the 16 sample window of the low-pass slicer) stays in the line
  (`fixes/slicer-lookahead.diff`).
Which one describes /repo is recorded in `Generated.ServiceTable.slicerTight /
legacyTight` and validated by the correspondence check.

`phase_shift` is computed in C with `double`; here it is the floor of the exact
rational value (DESIGN.md section 3); agreement is validated, not proved.
-/
namespace Zvbi.Slicer
open Zvbi.Generated.ServiceTable

def U32 : Nat := 4294967296

/-- what `set_params` derives from the pixel format -/
structure Fmt where
  /-- `bs->bytes_per_sample` -/
  bpp : Nat
  /-- the local `skip`: offset of the sampled byte inside a pixel -/
  skip0 : Nat
  /-- bytes dereferenced by one `GREEN()` (2 for the 15/16 bit RGB formats) -/
  width : Nat
  /-- the `min_samples_per_bit > 24` switch to `low_pass_bit_slicer_Y8` exists for this format -/
  lp : Bool
  deriving Repr, DecidableEq

/-- the `switch (sample_format)` of `vbi3_bit_slicer_set_params` (0.2 branch), keyed by enumerator name -/
def fmtOfName : String → Option Fmt
  | "YUV420" => some ⟨1, 0, 1, true⟩
  | "YUYV" | "YVYU" => some ⟨2, 0, 1, true⟩
  | "UYVY" | "VYUY" => some ⟨2, 1, 1, true⟩
  | "RGBA32_LE" | "BGRA32_LE" => some ⟨4, 1, 1, true⟩
  | "RGBA32_BE" | "BGRA32_BE" => some ⟨4, 2, 1, true⟩
  | "RGB24" | "BGR24" => some ⟨3, 1, 1, true⟩
  | "RGB16_LE" | "BGR16_LE" | "RGB16_BE" | "BGR16_BE"
  | "RGBA15_LE" | "BGRA15_LE" | "RGBA15_BE" | "BGRA15_BE"
  | "ARGB15_LE" | "ABGR15_LE" | "ARGB15_BE" | "ABGR15_BE" => some ⟨2, 0, 2, false⟩
  | _ => none

def fmtName (code : Nat) : Option String :=
  (pixfmts.find? (fun t => t.2.1 == code)).map (·.1)

/-- pixel format enum value -> slicer facts; `none` = the `default:` branch ("Unknown sample_format") -/
def fmtOfCode (code : Nat) : Option Fmt := (fmtName code).bind fmtOfName

/-- `VBI_PIXFMT_BPP (fmt)` (decoder.h), from the generated table -/
def pixfmtBpp (code : Nat) : Option Nat :=
  (pixfmts.find? (fun t => t.2.1 == code)).map (·.2.2)

/-- every format `set_params` knows: the sampled bytes of a pixel lie inside the pixel -/
def Fmt.WF (f : Fmt) : Prop := 0 < f.width ∧ f.skip0 + f.width ≤ f.bpp
instance (f : Fmt) : Decidable f.WF := by unfold Fmt.WF; infer_instance

/-- arguments of `vbi3_bit_slicer_set_params` that influence addresses -/
structure Params where
  fmt : Fmt
  rate : Nat
  offset : Nat
  spl : Nat
  criBits : Nat
  criRate : Nat
  criEnd : Nat
  frcBits : Nat
  payloadBits : Nat
  payloadRate : Nat
  /-- `VBI3_MODULATION_BIPHASE_*` -/
  biphase : Bool
  /-- `*_MSB` (only changes `endian`) -/
  msb : Bool
  deriving Repr, DecidableEq

inductive Kind | core | lowpass
  deriving Repr, DecidableEq

/-- the fields of the configured `vbi3_bit_slicer` that addresses depend on -/
structure Cfg where
  kind : Kind
  bpp : Nat
  width : Nat
  skip : Nat
  criSamples : Nat
  phaseShift : Nat
  step : Nat
  frcBits : Nat
  payload : Nat
  endian : Nat
  deriving Repr, DecidableEq

inductive Rej
  | assert    -- one of the four `assert`s at the top fails (process abort)
  | rate      -- cri_rate or payload_rate > sampling_rate
  | div0      -- a rate is 0: integer division by zero in C
  | fmt       -- unknown sample_format
  | small     -- samples_per_line too small for offset + CRI + FRC + payload
  | lookahead -- (tight only) no CRI position leaves room for the payload look-ahead
  deriving Repr, DecidableEq

def dataBits (p : Params) : Nat := p.payloadBits + p.frcBits

/-- `cri_samples` local: `(sampling_rate * (int64_t) cri_bits) / cri_rate` stored in an `unsigned int` -/
def criSamples0 (p : Params) : Nat := (p.rate * p.criBits / p.criRate) % U32
/-- `data_samples` -/
def dataSamples (p : Params) : Nat := (p.rate * dataBits p / p.payloadRate) % U32
/-- `bs->step` -/
def stepOf (p : Params) : Nat := (p.rate * 256 / p.payloadRate) % U32

/-- `bs->phase_shift`: floor of `rate*256/cri_rate*.5 + step*.5 + 128` (NRZ) resp.
    `... + step*.25 + 128` (biphase), exact rational arithmetic -/
def phaseOf (p : Params) : Nat :=
  let s := stepOf p
  if p.biphase then (512 * p.rate + s * p.criRate + 512 * p.criRate) / (4 * p.criRate)
  else (256 * p.rate + s * p.criRate + 256 * p.criRate) / (2 * p.criRate)

/-- `bs->payload`, `bs->endian` -/
def payloadOf (p : Params) : Nat × Nat :=
  let (pl, e) := if p.payloadBits % 8 != 0 then (p.payloadBits, 3) else (p.payloadBits / 8, 1)
  (pl, if p.msb then e - 1 else e)

/-- low-pass selection: `min_samples_per_bit > (3U << (LP_AVG - 1))` -/
def useLowpass (p : Params) : Bool :=
  p.fmt.lp && decide (p.rate / max p.criRate p.payloadRate > 24)

/-- number of FRC + payload bits the payload loops sample -/
def nBitsOf (frcBits payload endian : Nat) : Nat :=
  frcBits + (if endian ≥ 2 then payload else 8 * payload)

/-- sample index (relative to the CRI position) of the last bit: `(phase_shift + (bits-1)*step) >> 8` -/
def lastBitSample (phase step nbits : Nat) : Nat := (phase + (nbits - 1) * step) / 256

/-- furthest sample, relative to the search position `k`, that the payload loop touches:
    core: the last bit's sample and its right neighbour (linear interpolation);
    low-pass: `raw` was already advanced by one, plus the 16 sample window. -/
def lookAhead (kind : Kind) (phase step nbits : Nat) : Nat :=
  match kind with
  | .core => lastBitSample phase step nbits + 1
  | .lowpass => lastBitSample phase step nbits + 16

def Cfg.nBits (c : Cfg) : Nat := nBitsOf c.frcBits c.payload c.endian

/-- `vbi3_bit_slicer_set_params` as in zvbi 0.2.x (search limit = samples_per_line - data_samples) -/
def setParams0 (p : Params) (fmtKnown : Bool := true) : Except Rej Cfg :=
  if p.criBits > 32 ∨ p.frcBits > 32 ∨ p.payloadBits > 32767 ∨ p.spl > 32767 then .error .assert
  else if p.criRate > p.rate ∨ p.payloadRate > p.rate then .error .rate
  else if max p.criRate p.payloadRate = 0 then .error .div0
  else if !fmtKnown then .error .fmt
  else if p.criRate = 0 ∨ p.payloadRate = 0 then .error .div0
  else if p.offset > p.spl ∨ (criSamples0 p + dataSamples p) % U32 > p.spl - p.offset then .error .small
  else
    -- `cri_end = MIN (cri_end, samples_per_line - data_samples)`, `bs->cri_samples = cri_end - sample_offset` (unsigned)
    let criEnd := min p.criEnd ((p.spl + U32 - dataSamples p) % U32)
    .ok { kind := if useLowpass p then Kind.lowpass else Kind.core,
          bpp := p.fmt.bpp, width := p.fmt.width,
          skip := (p.offset * p.fmt.bpp + p.fmt.skip0) % U32,
          criSamples := (criEnd + U32 - p.offset) % U32,
          phaseShift := phaseOf p, step := stepOf p,
          frcBits := p.frcBits, payload := (payloadOf p).1, endian := (payloadOf p).2 }

/-- the additional block of fixes/slicer-lookahead.diff at the end of `set_params` -/
def tighten (p : Params) (c : Cfg) : Except Rej Cfg :=
  let la := lookAhead c.kind c.phaseShift c.step c.nBits
  if p.offset + la ≥ p.spl then .error .lookahead
  else .ok { c with criSamples := min c.criSamples (p.spl - p.offset - la) }

/-- `vbi3_bit_slicer_set_params`; `tight` selects the version with the look-ahead block -/
def setParams (tight : Bool) (p : Params) (fmtKnown : Bool := true) : Except Rej Cfg :=
  match setParams0 p fmtKnown with
  | .error e => .error e
  | .ok c => if tight then tighten p c else .ok c

/-! ## reads of one line -/

/-- outcome of the CRI/FRC search on one line (this is all the image content can influence) -/
inductive Outcome
  | noCri
  | frcFail (k : Nat)
  | found (k : Nat)
  deriving Repr, DecidableEq

/-- byte offsets touched by one `GREEN (raw + off)` -/
def green (width off : Nat) : List Nat := (List.range width).map (off + ·)

/-- CRI loop of `CORE()`, iteration `n` (0-based): `GREEN (raw)`, `GREEN (raw + bpp)` with
    `raw = line + skip + n*bpp` -/
def criReadsCore (c : Cfg) (n : Nat) : List Nat :=
  green c.width (c.skip + n * c.bpp) ++ green c.width (c.skip + n * c.bpp + c.bpp)

/-- `SAMPLE()` at bit position `i` (1/256 samples) with the search stopped in iteration `k` -/
def sampleReadsCore (c : Cfg) (k i : Nat) : List Nat :=
  let r := c.skip + k * c.bpp + (i / 256) * c.bpp
  green c.width r ++ green c.width (r + c.bpp)

/-- bit position of the j-th FRC/payload bit -/
def bitPos (c : Cfg) (j : Nat) : Nat := c.phaseShift + j * c.step

/-- the 16 sample window of the low-pass slicer starting at byte `base` -/
def lpWindow (c : Cfg) (base : Nat) : List Nat := (List.range 16).map (fun m => base + m * c.bpp)

/-- main loop of `low_pass_bit_slicer_Y8`, iteration `n`: `raw[bps << LP_AVG]`, `raw[0]` -/
def criReadsLp (c : Cfg) (n : Nat) : List Nat :=
  [c.skip + n * c.bpp + 16 * c.bpp, c.skip + n * c.bpp]

/-- `LP_SAMPLE()`: `raw` has been advanced `k+1` times when the loop is left in iteration `k` -/
def sampleReadsLp (c : Cfg) (k i : Nat) : List Nat :=
  lpWindow c (c.skip + (k + 1) * c.bpp + (i / 256) * c.bpp)

def criReads (c : Cfg) (n : Nat) : List Nat :=
  match c.kind with
  | .core => criReadsCore c n
  | .lowpass => criReadsLp c n

def sampleReads (c : Cfg) (k i : Nat) : List Nat :=
  match c.kind with
  | .core => sampleReadsCore c k i
  | .lowpass => sampleReadsLp c k i

/-- reads before the search loop (the initial sum of the low-pass slicer) -/
def initReads (c : Cfg) : List Nat :=
  match c.kind with
  | .core => []
  | .lowpass => lpWindow c c.skip

/-- reads of the first `nb` FRC/payload bits -/
def bitReads (c : Cfg) (k nb : Nat) : List Nat :=
  (List.range nb).flatMap (fun j => sampleReads c k (bitPos c j))

/-- every byte offset one call of the configured slicer function dereferences -/
def sliceReads (c : Cfg) : Outcome → List Nat
  | .noCri => initReads c ++ (List.range c.criSamples).flatMap (criReads c)
  | .frcFail k => initReads c ++ (List.range (k + 1)).flatMap (criReads c) ++ bitReads c k c.frcBits
  | .found k => initReads c ++ (List.range (k + 1)).flatMap (criReads c) ++ bitReads c k c.nBits

/-- an outcome the code can produce: the search runs `cri_samples` iterations -/
def Outcome.admissible (c : Cfg) : Outcome → Prop
  | .noCri => True
  | .frcFail k => k < c.criSamples
  | .found k => k < c.criSamples

instance (c : Cfg) (o : Outcome) : Decidable (o.admissible c) := by
  cases o <;> unfold Outcome.admissible <;> infer_instance

/-- bytes stored through `buffer` on success: `payload/8 + 1` in the bit modes, `payload` octets otherwise -/
def bytesWritten (c : Cfg) : Nat := if c.endian ≥ 2 then c.payload / 8 + 1 else c.payload

/-- `bs->payload > buffer_size * 8` test of `vbi3_bit_slicer_slice` (TRUE = refused) -/
def bufferRefused (c : Cfg) (bufferSize : Nat) : Bool := decide (c.payload > bufferSize * 8)

/-- smallest allocation (bytes from the line start) that contains every read; 0 if nothing is read -/
def need (l : List Nat) : Nat := l.foldl (fun m x => max m (x + 1)) 0

/-! ## legacy slicer (`src/decoder.c`) -/

/-- the `bpp` template argument of `bit_slicer_tmpl` (1,2,3,4 or the tags 14,15,16) and `skip` -/
structure LFmt where
  tag : Nat
  skip : Nat
  deriving Repr, DecidableEq

def lfmtOfName : String → Option LFmt
  | "RGB24" | "BGR24" => some ⟨3, 1⟩
  | "RGBA32_LE" | "BGRA32_LE" => some ⟨4, 1⟩
  | "RGBA32_BE" | "BGRA32_BE" => some ⟨4, 2⟩
  | "RGB16_LE" | "BGR16_LE" | "RGB16_BE" | "BGR16_BE" => some ⟨16, 0⟩
  | "RGBA15_LE" | "BGRA15_LE" | "RGBA15_BE" | "BGRA15_BE" => some ⟨15, 0⟩
  | "ARGB15_LE" | "ABGR15_LE" | "ARGB15_BE" | "ABGR15_BE" => some ⟨14, 0⟩
  | "YUV420" => some ⟨1, 0⟩
  | "YUYV" | "YVYU" => some ⟨2, 0⟩
  | "UYVY" | "VYUY" => some ⟨2, 1⟩
  | _ => none

def lfmtOfCode (code : Nat) : Option LFmt := (fmtName code).bind lfmtOfName

def LFmt.is16 (f : LFmt) : Bool := decide (14 ≤ f.tag ∧ f.tag ≤ 16)
/-- pointer increment per sample -/
def LFmt.stride (f : LFmt) : Nat := if f.is16 then 2 else f.tag
/-- bytes of one pixel that are read starting at the pixel's address -/
def LFmt.WF (f : LFmt) : Prop := 0 < f.stride ∧ (if f.is16 then f.skip = 0 else f.skip < f.tag)
instance (f : LFmt) : Decidable f.WF := by unfold LFmt.WF; infer_instance

structure LParams where
  fmt : LFmt
  rawSamples : Nat
  rate : Nat
  criRate : Nat
  bitRate : Nat
  frcBits : Nat
  payloadBits : Nat
  biphase : Bool
  msb : Bool
  deriving Repr, DecidableEq

structure LCfg where
  fmt : LFmt
  /-- `cri_bytes` is an `int`; the loop counter is `unsigned`, so a negative value means 2^32 - |v| iterations -/
  criBytes : Int
  phaseShift : Nat
  step : Nat
  frcBits : Nat
  payload : Nat
  endian : Nat
  deriving Repr, DecidableEq

def LCfg.iterations (c : LCfg) : Nat := (c.criBytes % (U32 : Int)).toNat
def LCfg.nBits (c : LCfg) : Nat := nBitsOf c.frcBits c.payload c.endian

/-- `vbi_bit_slicer_init` (rates > 0; it has no failure path) -/
def legacyInit (tight : Bool) (p : LParams) : LCfg :=
  let ds := p.rate * (p.payloadBits + p.frcBits) / p.bitRate
  let step := p.rate * 256 / p.bitRate
  let phase :=
    if p.biphase then (128 * p.rate * p.bitRate + 64 * p.rate * p.criRate + 128 * p.criRate * p.bitRate) / (p.criRate * p.bitRate)
    else (128 * p.rate * p.bitRate + 128 * p.rate * p.criRate + 128 * p.criRate * p.bitRate) / (p.criRate * p.bitRate)
  let (pl, e) := if p.payloadBits % 8 != 0 then (p.payloadBits, 3) else (p.payloadBits / 8, 1)
  let endian := if p.msb then e - 1 else e
  let cb : Int := (p.rawSamples : Int) - (ds : Int)
  let cb : Int :=
    if tight then
      let la : Int := (lastBitSample phase step (nBitsOf p.frcBits pl endian) + 1 : Nat)
      max 0 (min cb ((p.rawSamples : Int) - la))
    else cb
  { fmt := p.fmt, criBytes := cb, phaseShift := phase, step := step, frcBits := p.frcBits,
    payload := pl, endian := endian }

/-- one pixel pair as read by the CRI loop / `sample()` at byte offset `r` -/
def lpair (f : LFmt) (r : Nat) : List Nat :=
  if f.is16 then [r, r + 1, r + 2, r + 3] else [r, r + f.tag]

def lcriReads (c : LCfg) (n : Nat) : List Nat := lpair c.fmt (c.fmt.skip + n * c.fmt.stride)

def lsampleReads (c : LCfg) (k i : Nat) : List Nat :=
  lpair c.fmt (c.fmt.skip + k * c.fmt.stride + (i / 256) * c.fmt.stride)

def lbitReads (c : LCfg) (k nb : Nat) : List Nat :=
  (List.range nb).flatMap (fun j => lsampleReads c k (c.phaseShift + j * c.step))

def lsliceReads (c : LCfg) : Outcome → List Nat
  | .noCri => (List.range c.iterations).flatMap (lcriReads c)
  | .frcFail k => (List.range (k + 1)).flatMap (lcriReads c) ++ lbitReads c k c.frcBits
  | .found k => (List.range (k + 1)).flatMap (lcriReads c) ++ lbitReads c k c.nBits

def Outcome.ladmissible (c : LCfg) : Outcome → Prop
  | .noCri => True
  | .frcFail k => k < c.iterations
  | .found k => k < c.iterations

instance (c : LCfg) (o : Outcome) : Decidable (o.ladmissible c) := by
  cases o <;> unfold Outcome.ladmissible <;> infer_instance

/-! ## `vbi3_raw_decoder_decode`: line pointers and output slots -/

/-- the fields of `vbi_sampling_par` the loop uses -/
structure Sp where
  count0 : Nat
  count1 : Nat
  bpl : Nat
  interlaced : Bool
  deriving Repr, DecidableEq

def Sp.scanLines (sp : Sp) : Nat := sp.count0 + sp.count1
/-- size of the raw image the caller must supply -/
def Sp.imageBytes (sp : Sp) : Nat := sp.scanLines * sp.bpl

/-- the part of `_vbi_sampling_par_valid_log` that matters for addresses -/
def Sp.valid (sp : Sp) (bppOfFmt : Nat) : Prop :=
  0 < bppOfFmt ∧ sp.bpl % bppOfFmt = 0 ∧ 0 < sp.bpl ∧ 0 < sp.scanLines ∧
  (sp.interlaced = true → sp.count0 = sp.count1 ∧ 0 < sp.count0)

structure DState where
  /-- `raw - raw1` -/
  raw : Nat := 0
  /-- `sliced - sliced_begin` -/
  n : Nat := 0
  /-- the loop hit `break` -/
  stopped : Bool := false
  /-- (row, byte offset of the line handed to `decode_pattern`) -/
  visited : List (Nat × Nat) := []
  /-- indices of `sliced[]` handed to the slicers as output record -/
  slots : List Nat := []
  deriving Repr

/-- one iteration of the `for (i = 0; i < scan_lines; ++i)` loop; `hit i` = `decode_pattern`
    produced a record for row `i` (it advances `sliced` by at most one) -/
def decodeStep (sp : Sp) (maxLines : Nat) (hit : Nat → Bool) (s : DState) (i : Nat) : DState :=
  if s.stopped then s
  else if s.n ≥ maxLines then { s with stopped := true }
  else
    let raw := if sp.interlaced && i == sp.count0 then sp.bpl else s.raw
    let pitch := if sp.interlaced then sp.bpl * 2 else sp.bpl
    { raw := raw + pitch, n := if hit i then s.n + 1 else s.n, stopped := false,
      visited := s.visited ++ [(i, raw)], slots := s.slots ++ [s.n] }

def decode (sp : Sp) (maxLines : Nat) (hit : Nat → Bool) : DState :=
  (List.range sp.scanLines).foldl (decodeStep sp maxLines hit) {}

/-- where row `i` of the image starts (closed form of the pointer arithmetic) -/
def lineOffset (sp : Sp) (i : Nat) : Nat :=
  if sp.interlaced then (if i < sp.count0 then i * (sp.bpl * 2) else sp.bpl + (i - sp.count0) * (sp.bpl * 2))
  else i * sp.bpl

/-- how `vbi3_raw_decoder_add_services` configures the slicer of a table row -/
def rowParams (r : Row) (fmt : Fmt) (rate spl : Nat) : Params :=
  { fmt := fmt, rate := rate, offset := 0, spl := spl, criBits := r.criBits, criRate := r.criRate,
    criEnd := U32 - 1, frcBits := r.frcBits, payloadBits := r.payload, payloadRate := r.bitRate,
    biphase := decide (r.modulation ≥ 2), msb := decide (r.modulation % 2 = 1) }

/-- rate test of `_vbi_sampling_par_permit_service` -/
def permitRate (r : Row) (rate : Nat) : Bool :=
  let m := max r.criRate r.bitRate
  decide ((if r.id = slicedWss625 then m else (m * 3) / 2) ≤ rate)

/-- the rows `add_services` can instantiate (the two "blank VBI" rows are masked out) -/
def usableRows : List Row :=
  serviceTable.filter (fun r => r.id &&& (slicedVbi525 ||| slicedVbi625) == 0)

end Zvbi.Slicer
