import ZvbiModel.Slicer.Model
import ZvbiModel.Generated.SlicerGuard
/-!
# Model of the public bit slicer entry points: output buffer and points array

Code: `src/bit_slicer.c`, `vbi3_bit_slicer_slice()` and `vbi3_bit_slicer_slice_with_points()`:
the `buffer_size` test, the `max_points` test, the payload store loops of `PAYLOAD()` and of
`low_pass_bit_slicer_Y8` (`*buffer++ = c`), and the sampling points stored by `CRI()`, `SAMPLE()`
and `LP_SAMPLE()`.

Two versions of the `buffer_size` test are modelled (`Guard`):
* `bits`  - zvbi 0.2.x as released: `bs->payload > buffer_size * 8`.  `bs->payload` counts BYTES when the
  payload is a whole number of octets (`set_params`: `bs->payload = payload_bits >> 3`), so an octet-mode
  payload of up to 8 times the buffer passes;
* `bytes` - `fixes/C05-slice-buffer-size.diff`: `payload_bytes (bs) > buffer_size`.
and two versions of the CRI points (`bounded : Bool`): one point per recovered clock tick, unchecked (released,
F17) or only while there is room beside the FRC and payload bits (`fixes/C05-points-bound.diff`).
Which ones /repo has is measured on the compiled code by `translate/gen_slicerguard.py`
(`Generated.SlicerGuard`) and validated by the `bslice` correspondence ops.

As in `Model.lean` no pixel value is modelled: the image enters through the `Outcome` of the search and,
for the points, through the list of clock-tick events of the `CRI()` invocations that were executed.
-/
namespace Zvbi.Slicer
open Zvbi.Generated

/-- which arithmetic the `buffer_size` test uses -/
inductive Guard
  | bits
  | bytes
  deriving Repr, DecidableEq

/-- `payload_bytes (bs)`: `bs->payload` counts octets for `endian` 0/1 and bits for `endian` 2/3 -/
def payloadBytes (c : Cfg) : Nat := if c.endian ≥ 2 then (c.payload + 7) / 8 else c.payload

/-- the `buffer_size` test (`true` = the call is refused); the product of the released test is an `unsigned int` -/
def guardRefuses (g : Guard) (c : Cfg) (bufferSize : Nat) : Bool :=
  match g with
  | .bits => decide (c.payload > (bufferSize * 8) % U32)
  | .bytes => decide (payloadBytes c > bufferSize)

/-- the test /repo has in `vbi3_bit_slicer_slice` (`withPoints = false`) resp. `..._slice_with_points` -/
def repoGuard (withPoints : Bool) : Guard :=
  if (if withPoints then SlicerGuard.withPointsGuardInBytes else SlicerGuard.sliceGuardInBytes) then .bytes else .bits

/-! ## stores through `buffer` -/

/-- a store cursor: `idx` = `buffer - buffer_start` (or `points - points_start`), `writes` = indices stored so far -/
structure WState where
  idx : Nat := 0
  writes : List Nat := []
  deriving Repr, DecidableEq

/-- `*buffer++ = c` -/
def WState.store (s : WState) : WState := { idx := s.idx + 1, writes := s.writes ++ [s.idx] }
/-- `*buffer = c` -/
def WState.storeLast (s : WState) : WState := { s with writes := s.writes ++ [s.idx] }

/-- bit routines (`endian` 3 and 2): `for (j = 0; j < payload; ++j) { ...; if ((j & 7) == 7) *buffer++ = c; }`
    followed by `*buffer = ...` -/
def bitLoop (payload : Nat) : WState :=
  ((List.range payload).foldl (fun (s : WState) j => if j % 8 = 7 then s.store else s) {}).storeLast

/-- octet routines: `iters` times `{ 8 x SAMPLE; *buffer++ = c; }` -/
def octetLoop (iters : Nat) : WState := (List.range iters).foldl (fun (s : WState) _ => s.store) {}

/-- trip count of `j = bs->payload; do { ... } while (--j > 0);` (low-pass slicer, `j` is `unsigned int`) -/
def doWhileIters (payload : Nat) : Nat := if payload = 0 then U32 else payload

/-- indices stored through `buffer` by a successful call of the slicer function -/
def payloadWrites (c : Cfg) : List Nat :=
  if c.endian ≥ 2 then (bitLoop c.payload).writes
  else match c.kind with
    | .core => (octetLoop c.payload).writes             -- `for (j = bs->payload; j > 0; --j)`
    | .lowpass => (octetLoop (doWhileIters c.payload)).writes

structure SliceResult where
  /-- the `buffer_size` test failed (warning + `return FALSE`) -/
  refused : Bool
  ret : Bool
  /-- indices of `buffer[]` stored -/
  writes : List Nat
  deriving Repr, DecidableEq

/-- `vbi3_bit_slicer_slice (bs, buffer, buffer_size, raw)`: the size test, then `bs->func`; FRC and payload are
    only sampled (and the payload stored) when the CRI was found, nothing is stored when the FRC mismatches -/
def slice (g : Guard) (c : Cfg) (bufferSize : Nat) (oc : Outcome) : SliceResult :=
  if guardRefuses g c bufferSize then { refused := true, ret := false, writes := [] }
  else match oc with
    | .found _ => { refused := false, ret := true, writes := payloadWrites c }
    | _ => { refused := false, ret := false, writes := [] }

/-! ## sampling points of `vbi3_bit_slicer_slice_with_points` -/

/-- `CRI()` invocations per search iteration: the template slicers oversample 4 times, the low-pass slicer
    evaluates the clock once per sample -/
def oversampling (c : Cfg) : Nat :=
  match c.kind with
  | .core => 4
  | .lowpass => 1

/-- one `CRI()` invocation; `tick` = the recovered clock elapsed (`cl >= bs->oversampling_rate`), where a point is
    stored: released `if (collect_points)`, bounded `if (collect_points && points < points_cri_end)` -/
def criPointStep (limit : Option Nat) (s : WState) (tick : Bool) : WState :=
  if tick then
    match limit with
    | none => s.store
    | some l => if s.idx < l then s.store else s
  else s

/-- the points stored by the CRI search, given the tick events of the invocations it executed -/
def criPoints (limit : Option Nat) (ticks : List Bool) : WState := ticks.foldl (criPointStep limit) {}

/-- `SAMPLE()` / `LP_SAMPLE()` store one point per FRC / payload bit -/
def dataPoints (s : WState) (n : Nat) : WState := (List.range n).foldl (fun (s : WState) _ => s.store) s

/-- the tick events a search with this outcome can have executed: it stops inside iteration `k` -/
def TicksAdmissible (c : Cfg) (oc : Outcome) (ticks : List Bool) : Prop :=
  match oc with
  | .noCri => ticks.length = oversampling c * c.criSamples
  | .frcFail k => k < c.criSamples ∧ ticks.length ≤ oversampling c * (k + 1)
  | .found k => k < c.criSamples ∧ ticks.length ≤ oversampling c * (k + 1)

instance (c : Cfg) (oc : Outcome) (t : List Bool) : Decidable (TicksAdmissible c oc t) := by
  cases oc <;> unfold TicksAdmissible <;> infer_instance

structure PointsResult where
  /-- the `max_points` test failed -/
  refused : Bool
  /-- `*n_points` on return -/
  nPoints : Nat
  /-- indices of `points[]` stored -/
  writes : List Nat
  deriving Repr, DecidableEq

/-- the points side of `vbi3_bit_slicer_slice_with_points` (after the `buffer_size` test passed).
    `collects` = the slicer function is one of the two that store points (`bit_slicer_Y8` inlined with
    `collect_points = TRUE`, `low_pass_bit_slicer_Y8` with `points != NULL`); for the other formats the function
    is called with `points = NULL` ("Function not implemented for pixfmt").
    `*n_points` is left 0 when the FRC mismatches (`return FALSE` inside `PAYLOAD()`). -/
def slicePoints (bounded : Bool) (c : Cfg) (totalBits maxPoints : Nat) (collects : Bool) (oc : Outcome)
    (ticks : List Bool) : PointsResult :=
  if totalBits > maxPoints then { refused := true, nPoints := 0, writes := [] }
  else if !collects then { refused := false, nPoints := 0, writes := [] }
  else
    -- `points_cri_end = points + (max_points - data_bits (bs))`
    let s := criPoints (if bounded then some (maxPoints - c.nBits) else none) ticks
    match oc with
    | .noCri => { refused := false, nPoints := s.idx, writes := s.writes }
    | .frcFail _ => { refused := false, nPoints := 0, writes := (dataPoints s c.frcBits).writes }
    | .found _ => { refused := false, nPoints := (dataPoints s c.nBits).idx, writes := (dataPoints s c.nBits).writes }

/-- the version /repo has for this slicer kind -/
def repoPointsBounded (c : Cfg) : Bool :=
  match c.kind with
  | .core => SlicerGuard.criPointsBoundedCore
  | .lowpass => SlicerGuard.criPointsBoundedLowpass

/-! ## reads of `vbi3_bit_slicer_slice_with_points` -/

/-- the Y8 format: the only one for which `set_params` selects `bit_slicer_Y8` -/
def fmtY8 : Fmt := ⟨1, 0, 1, true⟩

/-- bytes read by `vbi3_bit_slicer_slice_with_points`.  Three branches:
    `low_pass_bit_slicer_Y8 == bs->func`: that function; `bit_slicer_Y8 != bs->func`: `bs->func` with
    `points = NULL`; else `CORE()` expanded in place with the constants `bpp = 1`, `pixfmt = VBI_PIXFMT_Y8`
    (one byte per `GREEN()`), `oversampling = 4` - the same loops over `bs->skip`, `bs->cri_samples`,
    `bs->phase_shift`, `bs->step`. -/
def withPointsReads (p : Params) (c : Cfg) (oc : Outcome) : List Nat :=
  if c.kind = .core ∧ p.fmt = fmtY8 then sliceReads { c with bpp := 1, width := 1 } oc   -- `CORE ()` in place
  else sliceReads c oc                                                                  -- `bs->func (...)`

end Zvbi.Slicer
