import ZvbiModel.Slicer.Lemmas
/-!
# Lemmas for C04 (round 2): the CRI search window is exactly as large as the line allows (completeness)

C05 proves the safety half: a slicer configured by `vbi3_bit_slicer_set_params` never reads outside the line.  Here the
counterpart: the search window `bs->cri_samples` is not smaller than necessary.  Search iteration `k` (the CRI is found
`k` samples after `sample_offset`) is admitted EXACTLY when
* the data still fit: `offset + k + data_samples < samples_per_line` (zvbi's own limit `cri_end`), and
* the furthest sample the payload loops touch lies in the line: `offset + k + look_ahead < samples_per_line`, where
  `look_ahead` is counted in SAMPLES - `+1` for the interpolating slicers, `+16` for the low-pass slicer, for every pixel
  format (a look-ahead scaled by `bytes_per_sample` would shrink the window by 15, 30 or 45 samples).
Same for the legacy `vbi_bit_slicer_init`.
-/
namespace Zvbi.Slicer

theorem setParams_window (p : Params) (c : Cfg) (h : setParams true p = .ok c)
    (hend : p.criEnd = U32 - 1) (hnw : criSamples0 p + dataSamples p < U32) :
    ∀ k, k < c.criSamples ↔
      (p.offset + k + dataSamples p < p.spl ∧ p.offset + k + lookAhead c.kind c.phaseShift c.step c.nBits < p.spl) := by
  obtain ⟨c0, h0, ht⟩ := setParams_true.mp h
  obtain ⟨_, _, _, hspl, _, _, _, _, hoff, hsmall, hc0⟩ := setParams0_ok h0
  obtain ⟨hla, hc⟩ := tighten_ok ht
  intro k
  have hk : c.kind = c0.kind := by rw [hc]
  have hp : c.phaseShift = c0.phaseShift := by rw [hc]
  have hs : c.step = c0.step := by rw [hc]
  have hn : c.nBits = c0.nBits := by rw [hc]; rfl
  have hcs : c.criSamples = min c0.criSamples (p.spl - p.offset - lookAhead c0.kind c0.phaseShift c0.step c0.nBits) := by
    rw [hc]
  have hcs0 : c0.criSamples = (min p.criEnd ((p.spl + U32 - dataSamples p) % U32) + U32 - p.offset) % U32 := by
    rw [hc0]
  rw [hk, hp, hs, hn, hcs, hcs0]
  generalize lookAhead c0.kind c0.phaseShift c0.step c0.nBits = la at *
  rw [hend]
  unfold U32 at hsmall hnw ⊢
  have hmod : (criSamples0 p + dataSamples p) % 4294967296 = criSamples0 p + dataSamples p := Nat.mod_eq_of_lt hnw
  rw [hmod] at hsmall
  have h1 : (p.spl + 4294967296 - dataSamples p) % 4294967296 = p.spl - dataSamples p := by omega
  rw [h1]
  have h2 : min (4294967296 - 1) (p.spl - dataSamples p) = p.spl - dataSamples p := by omega
  rw [h2]
  have h3 : (p.spl - dataSamples p + 4294967296 - p.offset) % 4294967296 = p.spl - dataSamples p - p.offset := by omega
  rw [h3]
  omega

/-- the legacy slicer: `cri_bytes` iterations -/
theorem legacyInit_window (p : LParams) (hraw : p.rawSamples < U32) :
    ∀ k, k < (legacyInit true p).iterations ↔
      (k + p.rate * (p.payloadBits + p.frcBits) / p.bitRate < p.rawSamples ∧
       k + (lastBitSample (legacyInit true p).phaseShift (legacyInit true p).step (legacyInit true p).nBits + 1) < p.rawSamples) := by
  intro k
  unfold LCfg.iterations LCfg.nBits
  have hU : U32 = 4294967296 := rfl
  have hcb : (legacyInit true p).criBytes = max 0 (min ((p.rawSamples : Int) - (p.rate * (p.payloadBits + p.frcBits) / p.bitRate : Nat))
      ((p.rawSamples : Int) - (lastBitSample (legacyInit true p).phaseShift (legacyInit true p).step
        (nBitsOf (legacyInit true p).frcBits (legacyInit true p).payload (legacyInit true p).endian) + 1 : Nat))) := by
    unfold legacyInit
    by_cases h8 : p.payloadBits % 8 = 0 <;> cases hm : p.msb <;> simp [h8]
  rw [hcb]
  generalize lastBitSample (legacyInit true p).phaseShift (legacyInit true p).step
    (nBitsOf (legacyInit true p).frcBits (legacyInit true p).payload (legacyInit true p).endian) = L
  generalize p.rate * (p.payloadBits + p.frcBits) / p.bitRate = D
  have hr := hraw
  rw [hU] at hr ⊢
  omega

end Zvbi.Slicer
