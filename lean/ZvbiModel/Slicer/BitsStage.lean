import ZvbiModel.Slicer.BitsLoop
/-!
# Lemmas for C04 (round 2), slicer part 3: the payload stage is exact in all four `endian` modes

`payloadStage_exact`: for every variant (`bit_slicer_<fmt>`, `low_pass_bit_slicer_Y8`, legacy
`bit_slicer_tmpl`), every `endian` (0 octets MSB, 1 octets LSB, 2 bits MSB, 3 bits LSB), every payload length and
every payload in canonical form: if the FRC matches and every sampled bit is the transmitted bit, the bytes
written to `buffer` are exactly the transmitted payload.

Side conditions, stated explicitly:
* bit modes: `payload % 8 ≠ 0` - `vbi3_bit_slicer_set_params` / `vbi_bit_slicer_init` select a bit mode only then
  (`bitmode_iff`); for a multiple of 8 the C code stores one byte more, a copy of the last one
  (`bits_lsb_multiple_of_8`);
* `endian == 3` of `bit_slicer_<fmt>` only: the accumulator enters the loop holding `bs->frc` (the other two
  slicers clear it), and `c >> 1` keeps bits above bit 7 alive, so the first stored byte is exact only when
  `frc < 256` (`frc_ge_256_counterexample`).  True for every row of the service table (`table_frc_lt_256`).
-/
namespace Zvbi.Rawdec
open Zvbi.Slicer (U32)

/-- number of payload bits the stage samples -/
def nBits (bs : BS) : Nat := if 2 ≤ bs.endian then bs.payload else 8 * bs.payload

/-- canonical form of a transmitted payload as the bytes of `vbi_sliced.data`: octet modes `payload` bytes; bit
    modes `payload / 8` full bytes and one byte with the remaining `payload % 8` bits right-aligned -/
def Canon (bs : BS) (w : List Nat) : Prop :=
  (∀ x ∈ w, x < 256) ∧
  (if 2 ≤ bs.endian then w.length = bs.payload / 8 + 1 ∧ w.getD (bs.payload / 8) 0 < 2 ^ (bs.payload % 8)
   else w.length = bs.payload)

theorem list_split_last (w : List Nat) (q : Nat) (h : w.length = q + 1) : w = w.take q ++ [w.getD q 0] := by
  apply List.ext_getElem
  · simp [h]
  · intro i h1 h2
    by_cases hi : i < q
    · rw [List.getElem_append_left (by rw [List.length_take]; omega)]
      simp
    · have : i = q := by omega
      subst this
      rw [List.getElem_append_right (by rw [List.length_take]; omega)]
      simp [List.getD_eq_getElem?_getD, List.getElem?_eq_getElem h1]

theorem getD_take (w : List Nat) (q i : Nat) (hi : i < q) : (w.take q).getD i 0 = w.getD i 0 := by
  simp [List.getD_eq_getElem?_getD, hi]

/-- bit mode LSB first, `payload = 8 q + r` with `0 < r < 8` -/
theorem bits_lsb_exact (bs : BS) (smp : Sampler) (q r c0 : Nat) (pre : List Nat) (x : Nat) (hr0 : 0 < r) (hr : r < 8)
    (hc0 : c0 < 256) (hlen : pre.length = q) (hpre : ∀ y ∈ pre, y < 256) (hx : x < 2 ^ r)
    (h1 : ∀ i, i < q → ∀ k, k < 8 → smp (payloadPos bs (8 * i + k)) = (pre.getD i 0).testBit k)
    (h2 : ∀ k, k < r → smp (payloadPos bs (8 * q + k)) = x.testBit k) :
    (bitLoop bs smp true (8 * q + r) 0 c0).1 ++ [((bitLoop bs smp true (8 * q + r) 0 c0).2 / 2 ^ ((8 - r) % 8)) % 256]
      = pre ++ [x] := by
  have hs := bitLoop_split bs smp true r hr q 0 c0
  simp only [Nat.mul_zero, Nat.zero_add] at hs
  rw [hs]
  simp only [step8, if_true]
  subst hlen
  have ho := octets_lsb bs smp pre 0 c0 hc0 hpre (by intro i hi k hk; rw [Nat.zero_add]; exact h1 i hi k hk)
  have ha := octetsAcc_lsb bs smp pre 0 c0 hc0 hpre (by intro i hi k hk; rw [Nat.zero_add]; exact h1 i hi k hk)
  rw [ho, ha]
  congr 2
  apply tailLsb_eq bs smp r _ _ x hr0 hr _ hx h2
  cases hl : pre.getLast? with
  | none => simpa using hc0
  | some y => simpa using hpre y (List.mem_of_getLast? hl)

/-- bit mode MSB first, `payload = 8 q + r` with `r < 8` (also `r = 0`: the extra byte is 0) -/
theorem bits_msb_exact (bs : BS) (smp : Sampler) (q r c0 : Nat) (pre : List Nat) (x : Nat) (hr : r < 8)
    (hlen : pre.length = q) (hpre : ∀ y ∈ pre, y < 256) (hx : x < 2 ^ r)
    (h1 : ∀ i, i < q → ∀ k, k < 8 → smp (payloadPos bs (8 * i + k)) = (pre.getD i 0).testBit (7 - k))
    (h2 : ∀ k, k < r → smp (payloadPos bs (8 * q + k)) = x.testBit (r - 1 - k)) :
    (bitLoop bs smp false (8 * q + r) 0 c0).1 ++ [((bitLoop bs smp false (8 * q + r) 0 c0).2 % 2 ^ r) % 256]
      = pre ++ [x] := by
  have hs := bitLoop_split bs smp false r hr q 0 c0
  simp only [Nat.mul_zero, Nat.zero_add] at hs
  rw [hs]
  simp only [step8, Bool.false_eq_true, if_false]
  subst hlen
  have ho := octets_msb bs smp pre 0 c0 hpre (by intro i hi k hk; rw [Nat.zero_add]; exact h1 i hi k hk)
  rw [ho]
  congr 2
  exact tailMsb_eq bs smp r _ _ x hr hx h2

/-- bit mode LSB first with a payload of `8 q` bits, `q > 0` (never configured by zvbi): the C code stores `q + 1`
    bytes, the last one a copy of byte `q - 1` -/
theorem bits_lsb_multiple_of_8 (bs : BS) (smp : Sampler) (q c0 : Nat) (pre : List Nat) (hc0 : c0 < 256)
    (hlen : pre.length = q) (hpre : ∀ y ∈ pre, y < 256)
    (h1 : ∀ i, i < q → ∀ k, k < 8 → smp (payloadPos bs (8 * i + k)) = (pre.getD i 0).testBit k) :
    (bitLoop bs smp true (8 * q) 0 c0).1 ++ [((bitLoop bs smp true (8 * q) 0 c0).2 / 2 ^ ((8 - (8 * q) % 8) % 8)) % 256]
      = pre ++ [(pre.getLast?.getD c0)] := by
  have hs := bitLoop_split bs smp true 0 (by omega) q 0 c0
  simp only [Nat.mul_zero, Nat.zero_add, Nat.add_zero] at hs
  rw [hs]
  simp only [step8, if_true, accLoop]
  subst hlen
  have ho := octets_lsb bs smp pre 0 c0 hc0 hpre (by intro i hi k hk; rw [Nat.zero_add]; exact h1 i hi k hk)
  have ha := octetsAcc_lsb bs smp pre 0 c0 hc0 hpre (by intro i hi k hk; rw [Nat.zero_add]; exact h1 i hi k hk)
  rw [ho, ha]
  congr 2
  have : pre.getLast?.getD c0 < 256 := by
    cases hl : pre.getLast? with
    | none => simpa using hc0
    | some y => simpa using hpre y (List.mem_of_getLast? hl)
  simp only [Nat.mul_mod_right, Nat.sub_zero, Nat.mod_self, Nat.pow_zero, Nat.div_one]
  exact Nat.mod_eq_of_lt this

/-- **all modes, all three slicers.** -/
theorem payloadStage_exact (v : Variant) (bs : BS) (smp : Sampler) (w : List Nat)
    (hend : bs.endian ≤ 3) (hcanon : Canon bs w)
    (hbit : 2 ≤ bs.endian → bs.payload % 8 ≠ 0)
    (hc0 : v = .core → bs.endian = 3 → bs.frc < 256)
    (hfrc : frcValue bs smp = bs.frc)
    (heye : ∀ j, j < nBits bs → smp (payloadPos bs j) = bitAt bs.endian (nBits bs) w j) :
    payloadStage v bs smp = some w := by
  obtain ⟨hbytes, hshape⟩ := hcanon
  have hcases : bs.endian = 0 ∨ bs.endian = 1 ∨ bs.endian = 2 ∨ bs.endian = 3 := by omega
  unfold payloadStage
  simp only [hfrc, ne_eq, not_true_eq_false, if_false]
  rcases hcases with he | he | he | he
  · -- octets, MSB first
    simp only [he, nBits, bitAt, show ¬ (2 ≤ (0 : Nat)) from by omega, if_false, false_and] at hshape heye ⊢
    congr 1
    rw [← hshape]
    apply octets_msb bs smp w 0 _ hbytes
    intro i hi kk hkk
    have := heye (8 * i + kk) (by rw [← hshape]; omega)
    rw [Nat.zero_add, this]
    simp only [show (0 : Nat) % 2 = 1 ↔ False from by decide, if_false]
    rw [show (8 * i + kk) / 8 = i from by omega, show (8 * i + kk) % 8 = kk from by omega]
  · -- octets, LSB first
    simp only [he, nBits, bitAt, show ¬ (2 ≤ (1 : Nat)) from by omega, if_false] at hshape heye ⊢
    have hbit : ∀ i, i < w.length → ∀ k, k < 8 → smp (payloadPos bs (8 * i + k)) = (w.getD i 0).testBit k := by
      intro i hi k hk
      have := heye (8 * i + k) (by rw [← hshape]; omega)
      rw [this]
      rw [show (8 * i + k) / 8 = i from by omega, show (8 * i + k) % 8 = k from by omega]
      simp only [if_true]
    cases v with
    | core =>
      simp only []
      congr 1
      apply List.ext_getElem
      · simp [hshape]
      · intro m h1 h2
        simp only [List.getElem_map, List.getElem_range]
        have hm : m < w.length := h2
        have hx := hbytes w[m] (List.getElem_mem hm)
        have hs := sumLsb_eq bs smp m w[m] hx (by
          intro kk hkk
          have := hbit m hm kk hkk
          rw [this, List.getD_eq_getElem?_getD, List.getElem?_eq_getElem hm]
          rfl)
        rw [hs]
        exact Nat.mod_eq_of_lt hx
    | lowpass =>
      simp only []
      congr 1
      rw [← hshape]
      exact octets_lsb bs smp w 0 0 (by omega) hbytes (by intro i hi k hk; rw [Nat.zero_add]; exact hbit i hi k hk)
    | legacy =>
      simp only []
      congr 1
      rw [← hshape]
      exact octets_lsb bs smp w 0 0 (by omega) hbytes (by intro i hi k hk; rw [Nat.zero_add]; exact hbit i hi k hk)
  · -- bits, MSB first
    have hP := hbit (by omega)
    simp only [he, nBits, bitAt, show (2 ≤ (2 : Nat)) from by omega, if_true, true_and] at hshape heye ⊢
    obtain ⟨hlen, hlast⟩ := hshape
    have hsplit := list_split_last w (bs.payload / 8) hlen
    have hPq : bs.payload = 8 * (bs.payload / 8) + bs.payload % 8 := by omega
    generalize hq : bs.payload / 8 = q at *
    generalize hr : bs.payload % 8 = r at *
    have hr8 : r < 8 := by omega
    have hmain := bits_msb_exact bs smp q r (match (generalizing := false) v with | .core => bs.frc | .lowpass => 0 | .legacy => 0)
      (w.take q) (w.getD q 0) hr8 (by simp; omega) (fun y hy => hbytes y (List.mem_of_mem_take hy)) hlast
      (by
        intro i hi k hk
        have := heye (8 * i + k) (by omega)
        rw [this, getD_take w q i hi]
        simp only [show (2 : Nat) % 2 = 1 ↔ False from by decide, if_false]
        rw [show (8 * i + k) / 8 = i from by omega, show (8 * i + k) % 8 = k from by omega]
        have : ¬ (i = q) := by omega
        simp only [this, if_false])
      (by
        intro k hk
        have := heye (8 * q + k) (by omega)
        rw [this]
        simp only [show (2 : Nat) % 2 = 1 ↔ False from by decide, if_false]
        rw [show (8 * q + k) / 8 = q from by omega, show (8 * q + k) % 8 = k from by omega]
        simp only [if_true])
    rw [hPq, hsplit]
    exact congrArg some hmain
  · -- bits, LSB first
    have hP := hbit (by omega)
    simp only [he, nBits, bitAt, show (2 ≤ (3 : Nat)) from by omega, if_true] at hshape heye ⊢
    obtain ⟨hlen, hlast⟩ := hshape
    have hsplit := list_split_last w (bs.payload / 8) hlen
    have hPq : bs.payload = 8 * (bs.payload / 8) + bs.payload % 8 := by omega
    have hc : (match (generalizing := false) v with | .core => bs.frc | .lowpass => 0 | .legacy => 0) < 256 := by
      cases v with
      | core => exact hc0 rfl he
      | lowpass => simp
      | legacy => simp
    generalize hq : bs.payload / 8 = q at *
    generalize hr : bs.payload % 8 = r at *
    have hr8 : r < 8 := by omega
    have hmain := bits_lsb_exact bs smp q r (match (generalizing := false) v with | .core => bs.frc | .lowpass => 0 | .legacy => 0)
      (w.take q) (w.getD q 0) (by omega) hr8 hc (by simp; omega) (fun y hy => hbytes y (List.mem_of_mem_take hy)) hlast
      (by
        intro i hi k hk
        have := heye (8 * i + k) (by omega)
        rw [this, getD_take w q i hi]
        rw [show (8 * i + k) / 8 = i from by omega, show (8 * i + k) % 8 = k from by omega])
      (by
        intro k hk
        have := heye (8 * q + k) (by omega)
        rw [this]
        rw [show (8 * q + k) / 8 = q from by omega, show (8 * q + k) % 8 = k from by omega])
    rw [hPq, hsplit]
    exact congrArg some hmain

end Zvbi.Rawdec
