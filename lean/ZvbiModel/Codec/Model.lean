import ZvbiModel.Hamm.Model
/-!
# Model of src/vps.c, src/packet-830.c (and the bcd.h helpers they use)

Buffers are `List Nat` holding bytes (< 256).  Reads use `getD i 0`; callers of the
C API guarantee 13 / 5 / 42 bytes and the harness always supplies exactly that,
so an out-of-range read never happens on either side.  C `unsigned int`
arithmetic that can wrap is modelled modulo 2^32 (`u32`).

Encoders return `(result, buffer after the call)`, written statement by statement like the C
code (early `return FALSE` = `(false, b)` with the buffer as it is at that point), so that
"refusal leaves the buffer unmodified" is a statement about the model and not a convention.
Decoders return `Option value`: the C functions store to `*pid` / `*time` only after the last
check (`CLEAR (*pid)` comes after the error test), `none` = FALSE with nothing stored; the
harness prints `false-but-modified` if the real code ever stores before refusing.
-/
namespace Zvbi.Codec
open Zvbi.Hamm

def u32 (n : Nat) : Nat := n % 4294967296
def u8 (n : Nat) : Nat := n % 256
abbrev Buf := List Nat
def bt (b : Buf) (i : Nat) : Nat := b.getD i 0

/-- `vbi_program_id`, the fields the codecs touch (all others are cleared) -/
structure Pid where
  channel : Nat := 0
  cniType : Nat := 0
  cni : Nat := 0
  pil : Nat := 0
  luf : Nat := 0
  mi : Nat := 0
  prf : Nat := 0
  pcsAudio : Nat := 0
  pty : Nat := 0
deriving DecidableEq, Repr

-- enum values (cross-checked against the compiled headers by the layout probe)
def VBI_PID_CHANNEL_LCI_0 : Nat := 0
def VBI_PID_CHANNEL_VPS : Nat := 4
def VBI_PID_CHANNEL_PDC_DESCRIPTOR : Nat := 5
def VBI_CNI_TYPE_VPS : Nat := 1
def VBI_CNI_TYPE_8302 : Nat := 3

/-- `vbi_decode_vps_cni` (always TRUE) -/
def decodeVpsCni (b : Buf) : Nat :=
  let v := ((bt b 10 &&& 0x03) <<< 10) + ((bt b 11 &&& 0xC0) <<< 2) + (bt b 8 &&& 0xC0) + (bt b 11 &&& 0x3F)
  if v == 0x0DC3 then (if bt b 2 &&& 0x10 != 0 then 0x0DC1 else 0x0DC2) else v

/-- `vbi_decode_vps_pdc` (always TRUE) -/
def decodeVpsPdc (b : Buf) : Pid :=
  { channel := VBI_PID_CHANNEL_VPS, cniType := VBI_CNI_TYPE_VPS, cni := decodeVpsCni b,
    pil := ((bt b 8 &&& 0x3F) <<< 14) + (bt b 9 <<< 6) + (bt b 10 >>> 2),
    mi := 1, pcsAudio := bt b 2 >>> 6, pty := bt b 12 }

/-- `vbi_decode_dvb_pdc_descriptor` -/
def decodeDvbPdc (b : Buf) : Option Pid :=
  if bt b 0 != 0x69 || bt b 1 != 3 then none
  else some { channel := VBI_PID_CHANNEL_PDC_DESCRIPTOR,
              pil := ((bt b 2 &&& 0x0F) <<< 16) + (bt b 3 <<< 8) + bt b 4, mi := 1 }

/-- `vbi_encode_vps_cni`: returns (result, buffer after the call); `false` = FALSE -/
def encodeVpsCni (b : Buf) (cni : Nat) : Bool × Buf :=
  if cni > 0x0FFF then (false, b) else
  let b := b.set 8 (u8 ((bt b 8 &&& 0x3F) ||| (cni &&& 0xC0)))
  let b := b.set 10 (u8 ((bt b 10 &&& 0xFC) ||| (cni >>> 10)))
  let b := b.set 11 (u8 ((cni &&& 0x3F) ||| ((cni >>> 2) &&& 0xC0)))
  (true, b)

/-- `vbi_encode_vps_pdc`: returns (result, buffer after the call) -/
def encodeVpsPdc (b : Buf) (pid : Pid) : Bool × Buf :=
  if pid.pty > 0xFF then (false, b) else
  if pid.pcsAudio > 3 then (false, b) else
  let pil := pid.pil
  if pil > 0xFFFFF then (false, b) else
  match encodeVpsCni b pid.cni with
  | (false, b) => (false, b)
  | (true, b) =>
    let b := b.set 2 (u8 ((bt b 2 &&& 0x3F) ||| u32 (pid.pcsAudio <<< 6)))
    let b := b.set 8 (u8 ((bt b 8 &&& 0xC0) ||| ((pil >>> 14) &&& 0x3F)))
    let b := b.set 9 (u8 (pil >>> 6))
    let b := b.set 10 (u8 ((bt b 10 &&& 0x03) ||| u32 (pil <<< 2)))
    let b := b.set 12 (u8 pid.pty)
    (true, b)

/-- `vbi_encode_dvb_pdc_descriptor`: returns (result, buffer after the call) -/
def encodeDvbPdc (b : Buf) (pid : Pid) : Bool × Buf :=
  let pil := pid.pil
  if pil > 0xFFFFF then (false, b) else
  let b := b.set 0 0x69
  let b := b.set 1 3
  let b := b.set 2 (u8 (0xF0 ||| (pil >>> 16)))
  let b := b.set 3 (u8 (pil >>> 8))
  let b := b.set 4 (u8 pil)
  (true, b)

/-- `vbi_decode_teletext_8301_cni`: `vbi_rev16p (buffer + 9)` -/
def decode8301Cni (b : Buf) : Nat := rev8 (bt b 9) * 256 + rev8 (bt b 10)

/-- `vbi_is_bcd` on a 32-bit unsigned argument -/
def isBcd (bcd : Nat) : Bool :=
  ((u32 (bcd + 0x06666666)) ^^^ (bcd ^^^ 0x06666666)) &&& 0x11111110 == 0

/-- static `bcd2bin` of packet-830.c (five digits) on a non-negative argument -/
def bcd2bin5 (bcd : Nat) : Nat :=
  (bcd &&& 15) + ((bcd >>> 4) &&& 15) * 10 + ((bcd >>> 8) &&& 15) * 100
    + ((bcd >>> 12) &&& 15) * 1000 + ((bcd >>> 16) &&& 15) * 10000

/-- `int` subtraction then conversion to `unsigned int` as `vbi_is_bcd` sees it -/
def subU32 (a c : Nat) : Nat := u32 (a + 4294967296 - c)

/-- `vbi_decode_teletext_8301_local_time` with a 64-bit `time_t`:
    `none` = FALSE, else `(time, seconds_east)` -/
def decode8301LocalTime (b : Buf) : Option (Int × Int) :=
  let bcd := subU32 (((bt b 12 &&& 15) <<< 16) + (bt b 13 <<< 8) + bt b 14) 0x11111
  if !isBcd bcd then none else
  let mjd : Int := bcd2bin5 bcd
  let bcd := subU32 ((bt b 15 <<< 16) + (bt b 16 <<< 8) + bt b 17) 0x111111
  if !isBcd bcd then none else
  let utc := (bcd &&& 15) + ((bcd >>> 4) &&& 15) * 10
  if utc > 60 then none else
  let field := ((bcd >>> 8) &&& 15) + ((bcd >>> 12) &&& 15) * 10
  if field >= 60 then none else
  let utc := utc + field * 60
  let field := ((bcd >>> 16) &&& 15) + (bcd >>> 20) * 10
  if field >= 24 then none else
  let utc := utc + field * 3600
  let offset : Int := ((bt b 11 &&& 0x3E) * (15 * 60) : Nat)
  let offset := if bt b 11 &&& 0x40 != 0 then -offset else offset
  let t : Int := (mjd - 40587) * 86400 + utc
  some (t, offset)

def cniFrom (b7 b8 b10 b11 : Nat) : Nat :=
  ((b7 &&& 0x0F) <<< 12) + ((b10 &&& 0x03) <<< 10) + ((b11 &&& 0xC0) <<< 2) + (b8 &&& 0xC0) + (b11 &&& 0x3F)

/-- `vbi_decode_teletext_8302_cni` -/
def decode8302Cni (b : Buf) : Option Nat :=
  match unham16p (bt b 10) (bt b 11), unham16p (bt b 12) (bt b 13),
        unham16p (bt b 16) (bt b 17), unham16p (bt b 18) (bt b 19) with
  | some b7, some b8, some b10, some b11 => some (cniFrom (rev8 b7) (rev8 b8) (rev8 b10) (rev8 b11))
  | _, _, _, _ => none

/-- `vbi_decode_teletext_8302_pdc` -/
def decode8302Pdc (b : Buf) : Option Pid :=
  match unham8 (bt b 9) with
  | none => none
  | some e =>
    let b6 := rev8 e >>> 4
    let un (i : Nat) := unham16p (bt b (i * 2 - 4)) (bt b (i * 2 - 3))
    match un 7, un 8, un 9, un 10, un 11, un 12 with
    | some t7, some t8, some t9, some t10, some t11, some t12 =>
      let b7 := rev8 t7; let b8 := rev8 t8; let b9 := rev8 t9
      let b10 := rev8 t10; let b11 := rev8 t11; let b12 := rev8 t12
      some { channel := VBI_PID_CHANNEL_LCI_0 + ((b6 >>> 2) &&& 3), cniType := VBI_CNI_TYPE_8302,
             cni := cniFrom b7 b8 b10 b11,
             pil := ((b8 &&& 0x3F) <<< 14) + (b9 <<< 6) + (b10 >>> 2),
             luf := (b6 >>> 1) &&& 1, mi := (b7 >>> 5) &&& 1, prf := b6 &&& 1,
             pcsAudio := (b7 >>> 6) &&& 3, pty := b12 }
    | _, _, _, _, _, _ => none

end Zvbi.Codec
