import ZvbiModel.Hamm.Model
/-!
# Sender-side specification of Teletext packet 8/30 format 1 and 2

zvbi has no encoder for these packets.  These are written from EN 300 706
section 9.8.1 / 9.8.2 and EN 300 231 (table 8/30 format 2): what a broadcaster
transmits for given field values.  Bytes are as stored by zvbi (lsb first
transmitted = bit 0), 42 bytes starting at the packet address.
-/
namespace Zvbi.Codec.Spec
open Zvbi.Hamm

/-- 4-bit reversal (transmission order is msb first for these fields) -/
def rev4 (n : Nat) : Nat := rev8 (n % 16) >>> 4

/-- BCD digit `d` as transmitted in 8/30 format 1: incremented by one -/
def dig1 (d : Nat) : Nat := d % 10 + 1

/-- Packet 8/30 format 1.  `lto` = local time offset in half hours (magnitude 0..31),
    `neg` its sign; bytes 0..8 (address, designation, initial page) and 18..41 (status
    display) are `fill`, they are not read by the decoders in scope. -/
def enc8301 (fill : Nat → Nat) (cni mjd hh mm ss ltoHalfHours : Nat) (neg : Bool) : List Nat :=
  (List.range 42).map fun i =>
    if i == 9 then rev8 (cni >>> 8 &&& 0xFF)
    else if i == 10 then rev8 (cni &&& 0xFF)
    else if i == 11 then
      -- bit 0 and 7 are reserved (transmitted as 1), bits 1-5 magnitude, bit 6 sign
      0x81 ||| ((ltoHalfHours % 32) <<< 1) ||| (if neg then 0x40 else 0)
    else if i == 12 then (fill 12 &&& 0xF0) ||| dig1 (mjd / 10000)
    else if i == 13 then (dig1 (mjd / 1000) <<< 4) ||| dig1 (mjd / 100)
    else if i == 14 then (dig1 (mjd / 10) <<< 4) ||| dig1 mjd
    else if i == 15 then (dig1 (hh / 10) <<< 4) ||| dig1 hh
    else if i == 16 then (dig1 (mm / 10) <<< 4) ||| dig1 mm
    else if i == 17 then (dig1 (ss / 10) <<< 4) ||| dig1 ss
    else fill i % 256

/-- fields of packet 8/30 format 2 -/
structure F2 where
  lci : Nat   -- label channel 0..3
  luf : Nat   -- 0/1
  prf : Nat   -- 0/1
  pcs : Nat   -- 0..3
  mi : Nat    -- 0/1
  cni : Nat   -- 16 bit
  pil : Nat   -- 20 bit
  pty : Nat   -- 8 bit
deriving DecidableEq, Repr

/-- the 13 data bytes b6..b12 of EN 300 231 as the decoder names them (b6 is a nibble) -/
def f2Bytes (f : F2) : List Nat :=
  let b6 := ((f.lci % 4) <<< 2) ||| ((f.luf % 2) <<< 1) ||| (f.prf % 2)
  let b7 := ((f.pcs % 4) <<< 6) ||| ((f.mi % 2) <<< 5) ||| ((f.cni >>> 12) &&& 0x0F)
  let b8 := (f.cni &&& 0xC0) ||| ((f.pil >>> 14) &&& 0x3F)
  let b9 := (f.pil >>> 6) &&& 0xFF
  let b10 := ((f.pil &&& 0x3F) <<< 2) ||| ((f.cni >>> 10) &&& 0x03)
  let b11 := (((f.cni >>> 8) &&& 0x03) <<< 6) ||| (f.cni &&& 0x3F)
  let b12 := f.pty % 256
  [b6, b7, b8, b9, b10, b11, b12]

/-- Packet 8/30 format 2: byte 9 carries nibble b6, bytes 10..21 carry b7..b12, each
    nibble bit-reversed and Hamming 8/4 protected. -/
def enc8302 (fill : Nat → Nat) (f : F2) : List Nat :=
  let bs := f2Bytes f
  (List.range 42).map fun i =>
    if i == 9 then ham8 (rev4 (bs.getD 0 0))
    else if 10 ≤ i ∧ i ≤ 21 then
      let k := (i - 10) / 2 + 1          -- index into bs: b7 .. b12
      let r := rev8 (bs.getD k 0)
      if (i - 10) % 2 == 0 then ham8 (r &&& 15) else ham8 (r >>> 4)
    else fill i % 256

end Zvbi.Codec.Spec
