import ZvbiModel.Codec.Model
/-!
# Bit-mask toolkit for the codec proofs

Everything the codecs do is `&&&` with a literal mask, `|||` of disjoint fields, shifts by
literals and (for `vbi_is_bcd`) one 32-bit addition.  The lemmas here turn each of these into
`/`, `%`, `*`, `+` by literals, which `omega` decides:

* `and_XX`     : `x &&& 0xXX = x % 2^hi / 2^lo * 2^lo` for every mask used in the C code
* `or_eq_add_*`: `a ||| b = a + b` when `a` is a multiple of `2^k` and `b < 2^k`
* `isBcd_iff`  : `vbi_is_bcd v` holds iff none of the seven nibble additions `v + 0x06666666`
                 carries, stated with `%` (from the carry-bit characterisation of addition)
* `bt_set`     : reading a byte of a buffer after one store
-/
namespace Zvbi.Codec

/-! ## masks -/

theorem mask_eq (lo hi : Nat) (h : lo ≤ hi) : 2^hi - 2^lo = (2^(hi-lo) - 1) * 2^lo := by
  rw [Nat.sub_mul, ← Nat.pow_add, Nat.sub_add_cancel h, Nat.one_mul]

/-- AND with the mask of bits `lo .. hi-1` -/
theorem and_mask (x lo hi : Nat) (h : lo ≤ hi) :
    x &&& (2^hi - 2^lo) = x % 2^hi / 2^lo * 2^lo := by
  rw [mask_eq lo hi h]
  apply Nat.eq_of_testBit_eq; intro i
  simp only [Nat.testBit_and, Nat.testBit_mul_two_pow, Nat.testBit_two_pow_sub_one,
    Nat.testBit_div_two_pow, Nat.testBit_mod_two_pow]
  by_cases h1 : lo ≤ i
  · have e : i - lo + lo = i := by omega
    simp only [h1, e, decide_true, Bool.true_and]
    by_cases h2 : i < hi
    · have : i - lo < hi - lo := by omega
      simp [h2, this]
    · have : ¬ (i - lo < hi - lo) := by omega
      simp [h2, this]
  · simp [h1]

theorem and_01 (x : Nat) : x &&& 1 = x % 2 := Nat.and_two_pow_sub_one_eq_mod x 1
theorem and_03 (x : Nat) : x &&& 0x03 = x % 4 := Nat.and_two_pow_sub_one_eq_mod x 2
theorem and_0F (x : Nat) : x &&& 0x0F = x % 16 := Nat.and_two_pow_sub_one_eq_mod x 4
theorem and_15 (x : Nat) : x &&& 15 = x % 16 := Nat.and_two_pow_sub_one_eq_mod x 4
theorem and_3F (x : Nat) : x &&& 0x3F = x % 64 := Nat.and_two_pow_sub_one_eq_mod x 6
theorem and_7F (x : Nat) : x &&& 0x7F = x % 128 := Nat.and_two_pow_sub_one_eq_mod x 7
theorem and_FF (x : Nat) : x &&& 0xFF = x % 256 := Nat.and_two_pow_sub_one_eq_mod x 8
/-- field-extraction form: bits `lo .. hi-1` of `x`, put back at position `lo` -/
theorem and_field (x lo n : Nat) : x &&& (2^(lo+n) - 2^lo) = x / 2^lo % 2^n * 2^lo := by
  rw [and_mask x lo (lo+n) (by omega), Nat.pow_add, Nat.mod_mul_right_div_self]

theorem and_C0 (x : Nat) : x &&& 0xC0 = x / 64 % 4 * 64 := and_field x 6 2
theorem and_FC (x : Nat) : x &&& 0xFC = x / 4 % 64 * 4 := and_field x 2 6
theorem and_F0 (x : Nat) : x &&& 0xF0 = x / 16 % 16 * 16 := and_field x 4 4
theorem and_3E (x : Nat) : x &&& 0x3E = x / 2 % 32 * 2 := and_field x 1 5
theorem and_40 (x : Nat) : x &&& 0x40 = x / 64 % 2 * 64 := and_field x 6 1
theorem and_10 (x : Nat) : x &&& 0x10 = x / 16 % 2 * 16 := and_field x 4 1

/-! ## OR of disjoint fields is addition -/

theorem or_eq_add_hl (k a b : Nat) (ha : a % 2^k = 0) (hb : b < 2^k) : a ||| b = a + b := by
  have h := Nat.shiftLeft_add_eq_or_of_lt hb (a / 2^k)
  have e : (a / 2^k) <<< k = a := by
    rw [Nat.shiftLeft_eq]
    have := Nat.div_add_mod a (2^k)
    rw [ha, Nat.add_zero, Nat.mul_comm] at this
    exact this
  rw [e] at h; exact h.symm

theorem or_eq_add_lh (k a b : Nat) (ha : a % 2^k = 0) (hb : b < 2^k) : b ||| a = a + b := by
  rw [Nat.or_comm]; exact or_eq_add_hl k a b ha hb

/-! ## 32-bit addition bit by bit (for `vbi_is_bcd`) -/

/-- bit `i` of a 32-bit sum = xor of the operand bits and the carry into position `i` -/
theorem testBit_add_u32 (a b i : Nat) (hi : i < 32) :
    ((a + b) % 2^32).testBit i
      = (a.testBit i ^^ (b.testBit i ^^ decide (a % 2^i + b % 2^i ≥ 2^i))) := by
  have h := BitVec.getLsbD_add hi (BitVec.ofNat 32 a) (BitVec.ofNat 32 b)
  have hd : (2:Nat)^i ∣ 2^32 := Nat.pow_dvd_pow 2 (by omega)
  simp only [BitVec.getLsbD, BitVec.carry, BitVec.toNat_add, BitVec.toNat_ofNat, Bool.toNat_false,
    Nat.add_zero, Nat.mod_mod_of_dvd _ hd, Nat.add_mod_mod, Nat.mod_add_mod] at h
  rw [h, Nat.testBit_mod_two_pow, Nat.testBit_mod_two_pow]
  simp [hi]

theorem carry_bit (a b i : Nat) (hi : i < 32) :
    (((a + b) % 2^32) ^^^ (a ^^^ b)).testBit i = decide (a % 2^i + b % 2^i ≥ 2^i) := by
  rw [Nat.testBit_xor, testBit_add_u32 a b i hi, Nat.testBit_xor]
  cases a.testBit i <;> cases b.testBit i <;> simp

theorem and_two_pow_eq_zero (x i : Nat) : x &&& 2^i = 0 ↔ x.testBit i = false := by
  constructor
  · intro h
    have := congrArg (fun y => y.testBit i) h
    simpa [Nat.testBit_and, Nat.testBit_two_pow] using this
  · intro h
    apply Nat.eq_of_testBit_eq; intro j
    simp only [Nat.testBit_and, Nat.testBit_two_pow, Nat.zero_testBit]
    by_cases e : i = j
    · subst e; simp [h]
    · simp [e]

theorem and_11111110_zero (x : Nat) : x &&& 0x11111110 = 0 ↔
    x.testBit 4 = false ∧ x.testBit 8 = false ∧ x.testBit 12 = false ∧ x.testBit 16 = false ∧
    x.testBit 20 = false ∧ x.testBit 24 = false ∧ x.testBit 28 = false := by
  have e : (0x11111110 : Nat)
      = 2^4 ||| (2^8 ||| (2^12 ||| (2^16 ||| (2^20 ||| (2^24 ||| 2^28))))) := by decide
  rw [e]
  simp only [Nat.and_or_distrib_left, Nat.or_eq_zero_iff, and_two_pow_eq_zero]

/-- `vbi_is_bcd (v)` for any 32-bit `v`: true iff adding 6 to each of the seven low nibbles
    never carries, i.e. iff each of the seven low nibbles is at most 9 (the eighth nibble is not
    examined by the C code - bit 32 is outside the mask). -/
theorem isBcd_iff (v : Nat) : isBcd v = true ↔
    v % 16 < 10 ∧ v % 256 < 0x9A ∧ v % 4096 < 0x99A ∧ v % 65536 < 0x999A ∧ v % 1048576 < 0x9999A
    ∧ v % 16777216 < 0x99999A ∧ v % 268435456 < 0x999999A := by
  unfold isBcd u32
  rw [beq_iff_eq, and_11111110_zero]
  have h32 : (4294967296 : Nat) = 2^32 := by decide
  rw [h32]
  rw [carry_bit _ _ 4 (by decide), carry_bit _ _ 8 (by decide), carry_bit _ _ 12 (by decide),
    carry_bit _ _ 16 (by decide), carry_bit _ _ 20 (by decide), carry_bit _ _ 24 (by decide),
    carry_bit _ _ 28 (by decide)]
  simp only [decide_eq_false_iff_not]
  omega

/-- the readable form: every one of the seven low nibbles is a decimal digit -/
theorem isBcd_iff_digits (v : Nat) : isBcd v = true ↔
    v % 16 ≤ 9 ∧ v / 16 % 16 ≤ 9 ∧ v / 256 % 16 ≤ 9 ∧ v / 4096 % 16 ≤ 9 ∧ v / 65536 % 16 ≤ 9
    ∧ v / 1048576 % 16 ≤ 9 ∧ v / 16777216 % 16 ≤ 9 := by
  rw [isBcd_iff]; omega

/-! ## buffers -/

theorem bt_set (b : Buf) (i j v : Nat) :
    bt (b.set i v) j = if i = j ∧ i < b.length then v else bt b j := by
  unfold bt
  simp only [List.getD_eq_getElem?_getD, List.getElem?_set]
  by_cases h : i = j
  · subst h
    by_cases h2 : i < b.length
    · simp [h2]
    · simp [h2]
  · simp [h]

/-- every element is a byte (what `uint8_t buffer[]` guarantees) -/
def Bytes (b : Buf) : Prop := ∀ i, bt b i < 256

theorem ext_bt (a b : Buf) (hl : a.length = b.length) (h : ∀ i, bt a i = bt b i) : a = b := by
  apply List.ext_getElem? 
  intro i
  have := h i
  unfold bt at this
  by_cases hi : i < a.length
  · have hi' : i < b.length := hl ▸ hi
    simp only [List.getD_eq_getElem?_getD, List.getElem?_eq_getElem hi, List.getElem?_eq_getElem hi',
      Option.getD_some] at this
    simp [List.getElem?_eq_getElem hi, List.getElem?_eq_getElem hi', this]
  · have hi' : ¬ i < b.length := hl ▸ hi
    simp [List.getElem?_eq_none (Nat.le_of_not_lt hi), List.getElem?_eq_none (Nat.le_of_not_lt hi')]

end Zvbi.Codec
