import ZvbiModel.Codec.Lemmas
import ZvbiModel.Codec.Spec
import ZvbiModel.Hamm.Lemmas
/-!
# Teletext packet 8/30: functional characterisation of the decoders

`decode8301_spec`: `vbi_decode_teletext_8301_local_time` accepts a packet iff every one of the
eleven transmitted MJD/UTC nibbles is a BCD+1 digit (1..10) and the time fields are in range, and
then returns exactly the value those digits denote.  `decode8302*_congr`: the format-2 decoders
look at bytes 9..21 only through `vbi_unham8`.
-/
namespace Zvbi.Codec
open Zvbi.Hamm Zvbi.Codec.Spec

/-! ## format 1 -/

def mjdRaw (b : Buf) : Nat := ((bt b 12 &&& 15) <<< 16) + (bt b 13 <<< 8) + bt b 14
def utcRaw (b : Buf) : Nat := (bt b 15 <<< 16) + (bt b 16 <<< 8) + bt b 17
def bcdSS (u : Nat) : Nat := (u &&& 15) + ((u >>> 4) &&& 15) * 10
def bcdMM (u : Nat) : Nat := ((u >>> 8) &&& 15) + ((u >>> 12) &&& 15) * 10
def bcdHH (u : Nat) : Nat := ((u >>> 16) &&& 15) + (u >>> 20) * 10
/-- local time offset in seconds east of UTC as the C code computes it from byte 11 -/
def ltoOf (b : Buf) : Int :=
  let o : Int := ((bt b 11 &&& 0x3E) * (15 * 60) : Nat)
  if bt b 11 &&& 0x40 != 0 then -o else o

theorem decode8301LocalTime_eq (b : Buf) : decode8301LocalTime b =
    (if !isBcd (subU32 (mjdRaw b) 0x11111) then none else
     if !isBcd (subU32 (utcRaw b) 0x111111) then none else
     if bcdSS (subU32 (utcRaw b) 0x111111) > 60 then none else
     if bcdMM (subU32 (utcRaw b) 0x111111) ≥ 60 then none else
     if bcdHH (subU32 (utcRaw b) 0x111111) ≥ 24 then none else
     some (((bcd2bin5 (subU32 (mjdRaw b) 0x11111) : Nat) - 40587 : Int) * 86400
            + ((bcdSS (subU32 (utcRaw b) 0x111111) + bcdMM (subU32 (utcRaw b) 0x111111) * 60
               + bcdHH (subU32 (utcRaw b) 0x111111) * 3600 : Nat) : Int), ltoOf b)) := rfl

/-- bytes 13..17 are bytes (all that the time decoder needs of `uint8_t buffer[42]`) -/
def TimeBytes (b : Buf) : Prop := ∀ i, 13 ≤ i → i ≤ 17 → bt b i < 256
theorem TimeBytes.of_bytes {b : Buf} (h : Bytes b) : TimeBytes b := fun i _ _ => h i

/-- a transmitted nibble is a BCD digit plus one -/
def NibOk (n : Nat) : Prop := 1 ≤ n ∧ n ≤ 10
instance (n : Nat) : Decidable (NibOk n) := by unfold NibOk; infer_instance

/-- the MJD / hour / minute / second the transmitted nibbles denote (digit = nibble - 1) -/
def mjdOf (b : Buf) : Nat :=
  (bt b 12 % 16 - 1) * 10000 + (bt b 13 / 16 - 1) * 1000 + (bt b 13 % 16 - 1) * 100
    + (bt b 14 / 16 - 1) * 10 + (bt b 14 % 16 - 1)
def hhOf (b : Buf) : Nat := (bt b 15 / 16 - 1) * 10 + (bt b 15 % 16 - 1)
def mmOf (b : Buf) : Nat := (bt b 16 / 16 - 1) * 10 + (bt b 16 % 16 - 1)
def ssOf (b : Buf) : Nat := (bt b 17 / 16 - 1) * 10 + (bt b 17 % 16 - 1)

def MjdOk (b : Buf) : Prop :=
  NibOk (bt b 12 % 16) ∧ NibOk (bt b 13 / 16) ∧ NibOk (bt b 13 % 16) ∧ NibOk (bt b 14 / 16) ∧ NibOk (bt b 14 % 16)
def UtcOk (b : Buf) : Prop :=
  NibOk (bt b 15 / 16) ∧ NibOk (bt b 15 % 16) ∧ NibOk (bt b 16 / 16) ∧ NibOk (bt b 16 % 16) ∧
  NibOk (bt b 17 / 16) ∧ NibOk (bt b 17 % 16)
/-- the packet carries a well-formed date and time -/
def Valid8301 (b : Buf) : Prop :=
  MjdOk b ∧ UtcOk b ∧ ssOf b ≤ 60 ∧ mmOf b < 60 ∧ hhOf b < 24

instance (b : Buf) : Decidable (Valid8301 b) := by unfold Valid8301 MjdOk UtcOk; infer_instance

theorem isBcd_sub5 (n0 n1 n2 n3 n4 : Nat) (h0 : n0 < 16) (h1 : n1 < 16) (h2 : n2 < 16) (h3 : n3 < 16)
    (h4 : n4 < 16) :
    isBcd (subU32 (n4 * 65536 + n3 * 4096 + n2 * 256 + n1 * 16 + n0) 0x11111) = true ↔
    (1 ≤ n0 ∧ n0 ≤ 10) ∧ (1 ≤ n1 ∧ n1 ≤ 10) ∧ (1 ≤ n2 ∧ n2 ≤ 10) ∧ (1 ≤ n3 ∧ n3 ≤ 10)
      ∧ (1 ≤ n4 ∧ n4 ≤ 10) := by
  rw [isBcd_iff]; unfold subU32 u32
  omega

theorem isBcd_sub6 (n0 n1 n2 n3 n4 n5 : Nat) (h0 : n0 < 16) (h1 : n1 < 16) (h2 : n2 < 16)
    (h3 : n3 < 16) (h4 : n4 < 16) (h5 : n5 < 16) :
    isBcd (subU32 (n5 * 1048576 + n4 * 65536 + n3 * 4096 + n2 * 256 + n1 * 16 + n0) 0x111111) = true ↔
    (1 ≤ n0 ∧ n0 ≤ 10) ∧ (1 ≤ n1 ∧ n1 ≤ 10) ∧ (1 ≤ n2 ∧ n2 ≤ 10) ∧ (1 ≤ n3 ∧ n3 ≤ 10)
      ∧ (1 ≤ n4 ∧ n4 ≤ 10) ∧ (1 ≤ n5 ∧ n5 ≤ 10) := by
  rw [isBcd_iff]; unfold subU32 u32
  omega

theorem mjdRaw_nf (b : Buf) (hb : TimeBytes b) : mjdRaw b
    = bt b 12 % 16 * 65536 + bt b 13 / 16 * 4096 + bt b 13 % 16 * 256 + bt b 14 / 16 * 16 + bt b 14 % 16 := by
  have := hb 13 (by decide) (by decide); have := hb 14 (by decide) (by decide)
  simp only [mjdRaw, and_15]; omega

theorem utcRaw_nf (b : Buf) (hb : TimeBytes b) : utcRaw b
    = bt b 15 / 16 * 1048576 + bt b 15 % 16 * 65536 + bt b 16 / 16 * 4096 + bt b 16 % 16 * 256
      + bt b 17 / 16 * 16 + bt b 17 % 16 := by
  have := hb 15 (by decide) (by decide); have := hb 16 (by decide) (by decide); have := hb 17 (by decide) (by decide)
  simp only [utcRaw]; omega

theorem mjd_isBcd_iff (b : Buf) (hb : TimeBytes b) : isBcd (subU32 (mjdRaw b) 0x11111) = true ↔ MjdOk b := by
  rw [mjdRaw_nf b hb]
  have := hb 13 (by decide) (by decide); have := hb 14 (by decide) (by decide)
  rw [isBcd_sub5 _ _ _ _ _ (by omega) (by omega) (by omega) (by omega) (by omega)]
  unfold MjdOk NibOk; omega

theorem utc_isBcd_iff (b : Buf) (hb : TimeBytes b) : isBcd (subU32 (utcRaw b) 0x111111) = true ↔ UtcOk b := by
  rw [utcRaw_nf b hb]
  have := hb 15 (by decide) (by decide); have := hb 16 (by decide) (by decide); have := hb 17 (by decide) (by decide)
  rw [isBcd_sub6 _ _ _ _ _ _ (by omega) (by omega) (by omega) (by omega) (by omega) (by omega)]
  unfold UtcOk NibOk; omega

theorem bcd2bin5_packed (d0 d1 d2 d3 d4 : Nat) (h0 : d0 < 16) (h1 : d1 < 16) (h2 : d2 < 16)
    (h3 : d3 < 16) (h4 : d4 < 16) :
    bcd2bin5 (d4 * 65536 + d3 * 4096 + d2 * 256 + d1 * 16 + d0)
      = d4 * 10000 + d3 * 1000 + d2 * 100 + d1 * 10 + d0 := by
  simp only [bcd2bin5, and_15]; omega

theorem utc_packed (s0 s1 m0 m1 h0 h1 : Nat) (a : s0 < 16) (b : s1 < 16) (c : m0 < 16) (d : m1 < 16)
    (e : h0 < 16) (_f : h1 < 16) :
    bcdSS (h1 * 1048576 + h0 * 65536 + m1 * 4096 + m0 * 256 + s1 * 16 + s0) = s0 + s1 * 10 ∧
    bcdMM (h1 * 1048576 + h0 * 65536 + m1 * 4096 + m0 * 256 + s1 * 16 + s0) = m0 + m1 * 10 ∧
    bcdHH (h1 * 1048576 + h0 * 65536 + m1 * 4096 + m0 * 256 + s1 * 16 + s0) = h0 + h1 * 10 := by
  simp only [bcdSS, bcdMM, bcdHH, and_15]; omega

theorem mjd_value (b : Buf) (hb : TimeBytes b) (h : MjdOk b) :
    bcd2bin5 (subU32 (mjdRaw b) 0x11111) = mjdOf b := by
  obtain ⟨⟨a1, a2⟩, ⟨b1, b2⟩, ⟨c1, c2⟩, ⟨d1, d2⟩, ⟨e1, e2⟩⟩ := h
  have e : subU32 (mjdRaw b) 0x11111 = (bt b 12 % 16 - 1) * 65536 + (bt b 13 / 16 - 1) * 4096
      + (bt b 13 % 16 - 1) * 256 + (bt b 14 / 16 - 1) * 16 + (bt b 14 % 16 - 1) := by
    rw [mjdRaw_nf b hb]; unfold subU32 u32; omega
  rw [e, bcd2bin5_packed _ _ _ _ _ (by omega) (by omega) (by omega) (by omega) (by omega)]
  rfl

theorem utc_value (b : Buf) (hb : TimeBytes b) (h : UtcOk b) :
    bcdSS (subU32 (utcRaw b) 0x111111) = ssOf b ∧ bcdMM (subU32 (utcRaw b) 0x111111) = mmOf b ∧
    bcdHH (subU32 (utcRaw b) 0x111111) = hhOf b := by
  obtain ⟨⟨a1, a2⟩, ⟨b1, b2⟩, ⟨c1, c2⟩, ⟨d1, d2⟩, ⟨e1, e2⟩, ⟨f1, f2⟩⟩ := h
  have e : subU32 (utcRaw b) 0x111111 = (bt b 15 / 16 - 1) * 1048576 + (bt b 15 % 16 - 1) * 65536
      + (bt b 16 / 16 - 1) * 4096 + (bt b 16 % 16 - 1) * 256 + (bt b 17 / 16 - 1) * 16
      + (bt b 17 % 16 - 1) := by
    rw [utcRaw_nf b hb]; unfold subU32 u32; omega
  rw [e]
  obtain ⟨x, y, z⟩ := utc_packed (bt b 17 % 16 - 1) (bt b 17 / 16 - 1) (bt b 16 % 16 - 1)
    (bt b 16 / 16 - 1) (bt b 15 % 16 - 1) (bt b 15 / 16 - 1)
    (by omega) (by omega) (by omega) (by omega) (by omega) (by omega)
  rw [x, y, z]
  simp only [ssOf, mmOf, hhOf]
  omega

/-- Complete functional description of `vbi_decode_teletext_8301_local_time` on byte buffers:
    accepted iff well-formed, and then the value is the one the digits denote. -/
theorem decode8301_spec (b : Buf) (hb : TimeBytes b) :
    (Valid8301 b → decode8301LocalTime b
        = some (((mjdOf b : Nat) - 40587 : Int) * 86400
                + ((ssOf b + mmOf b * 60 + hhOf b * 3600 : Nat) : Int), ltoOf b)) ∧
    (¬ Valid8301 b → decode8301LocalTime b = none) := by
  rw [decode8301LocalTime_eq]
  by_cases hm : MjdOk b
  · have h1 := (mjd_isBcd_iff b hb).2 hm
    by_cases hu : UtcOk b
    · have h2 := (utc_isBcd_iff b hb).2 hu
      obtain ⟨es, em, eh⟩ := utc_value b hb hu
      rw [mjd_value b hb hm, es, em, eh]
      simp only [h1, h2, Bool.not_true, Bool.false_eq_true, if_false]
      constructor
      · rintro ⟨_, _, x, y, z⟩
        have x' : ¬ ssOf b > 60 := by omega
        have y' : ¬ mmOf b ≥ 60 := by omega
        have z' : ¬ hhOf b ≥ 24 := by omega
        simp only [x', y', z', if_false]
      · intro hn
        by_cases x : ssOf b > 60
        · simp only [x, if_true]
        by_cases y : mmOf b ≥ 60
        · simp only [x, y, if_true, if_false]
        by_cases z : hhOf b ≥ 24
        · simp only [x, y, z, if_true, if_false]
        exact absurd ⟨hm, hu, by omega, by omega, by omega⟩ hn
    · have h2 : isBcd (subU32 (utcRaw b) 0x111111) = false := by
        cases h : isBcd (subU32 (utcRaw b) 0x111111)
        · rfl
        · exact absurd ((utc_isBcd_iff b hb).1 h) hu
      simp only [h1, h2, Bool.not_true, Bool.not_false, Bool.false_eq_true, if_false, if_true]
      exact ⟨fun h => absurd h.2.1 hu, fun _ => trivial⟩
  · have h1 : isBcd (subU32 (mjdRaw b) 0x11111) = false := by
      cases h : isBcd (subU32 (mjdRaw b) 0x11111)
      · rfl
      · exact absurd ((mjd_isBcd_iff b hb).1 h) hm
    simp only [h1, Bool.not_false, if_true]
    exact ⟨fun h => absurd h.1 hm, fun _ => trivial⟩

/-! ### the spec encoder produces well-formed packets -/

theorem bt_map_range (g : Nat → Nat) (n i : Nat) (h : i < n) : bt ((List.range n).map g) i = g i := by
  simp [bt, h]

theorem dig1_ok (d : Nat) : 1 ≤ dig1 d ∧ dig1 d ≤ 10 ∧ dig1 d - 1 = d % 10 := by unfold dig1; omega

theorem pair_nf (a c : Nat) (hc : c < 16) : (a <<< 4) ||| c = a * 16 + c := by
  rw [or_eq_add_hl 4 _ _ (by omega) (by omega)]; omega

section enc
variable (fill : Nat → Nat) (cni mjd hh mm ss l : Nat) (neg : Bool)

theorem bt_enc8301_9 : bt (enc8301 fill cni mjd hh mm ss l neg) 9 = rev8 (cni >>> 8 &&& 0xFF) := by
  unfold enc8301; rw [bt_map_range _ _ _ (by decide)]; rfl
theorem bt_enc8301_10 : bt (enc8301 fill cni mjd hh mm ss l neg) 10 = rev8 (cni &&& 0xFF) := by
  unfold enc8301; rw [bt_map_range _ _ _ (by decide)]; rfl
theorem bt_enc8301_11 : bt (enc8301 fill cni mjd hh mm ss l neg) 11
    = 0x81 ||| ((l % 32) <<< 1) ||| (if neg then 0x40 else 0) := by
  unfold enc8301; rw [bt_map_range _ _ _ (by decide)]; rfl
theorem bt_enc8301_12 : bt (enc8301 fill cni mjd hh mm ss l neg) 12
    = fill 12 / 16 % 16 * 16 + dig1 (mjd / 10000) := by
  unfold enc8301; rw [bt_map_range _ _ _ (by decide)]
  show (fill 12 &&& 0xF0) ||| dig1 (mjd / 10000) = _
  have := dig1_ok (mjd / 10000)
  rw [and_F0, or_eq_add_hl 4 _ _ (by omega) (by omega)]
theorem bt_enc8301_13 : bt (enc8301 fill cni mjd hh mm ss l neg) 13
    = dig1 (mjd / 1000) * 16 + dig1 (mjd / 100) := by
  unfold enc8301; rw [bt_map_range _ _ _ (by decide)]
  exact pair_nf _ _ (by have := dig1_ok (mjd / 100); omega)
theorem bt_enc8301_14 : bt (enc8301 fill cni mjd hh mm ss l neg) 14
    = dig1 (mjd / 10) * 16 + dig1 mjd := by
  unfold enc8301; rw [bt_map_range _ _ _ (by decide)]
  exact pair_nf _ _ (by have := dig1_ok mjd; omega)
theorem bt_enc8301_15 : bt (enc8301 fill cni mjd hh mm ss l neg) 15
    = dig1 (hh / 10) * 16 + dig1 hh := by
  unfold enc8301; rw [bt_map_range _ _ _ (by decide)]
  exact pair_nf _ _ (by have := dig1_ok hh; omega)
theorem bt_enc8301_16 : bt (enc8301 fill cni mjd hh mm ss l neg) 16
    = dig1 (mm / 10) * 16 + dig1 mm := by
  unfold enc8301; rw [bt_map_range _ _ _ (by decide)]
  exact pair_nf _ _ (by have := dig1_ok mm; omega)
theorem bt_enc8301_17 : bt (enc8301 fill cni mjd hh mm ss l neg) 17
    = dig1 (ss / 10) * 16 + dig1 ss := by
  unfold enc8301; rw [bt_map_range _ _ _ (by decide)]
  exact pair_nf _ _ (by have := dig1_ok ss; omega)
end enc

theorem lto_byte : ∀ l < 32, ∀ neg : Bool,
    (0x81 ||| (l <<< 1) ||| (if neg then 0x40 else 0)) &&& 0x3E = l * 2 ∧
    ((0x81 ||| (l <<< 1) ||| (if neg then 0x40 else 0)) &&& 0x40 != 0) = neg ∧
    (0x81 ||| (l <<< 1) ||| (if neg then 0x40 else 0)) < 256 := by decide

theorem enc8301_timeBytes (fill : Nat → Nat) (cni mjd hh mm ss l : Nat) (neg : Bool) :
    TimeBytes (enc8301 fill cni mjd hh mm ss l neg) := by
  intro i h1 h2
  have := dig1_ok (mjd / 1000); have := dig1_ok (mjd / 100); have := dig1_ok (mjd / 10)
  have := dig1_ok mjd; have := dig1_ok (hh / 10); have := dig1_ok hh
  have := dig1_ok (mm / 10); have := dig1_ok mm; have := dig1_ok (ss / 10); have := dig1_ok ss
  have : i = 13 ∨ i = 14 ∨ i = 15 ∨ i = 16 ∨ i = 17 := by omega
  rcases this with rfl | rfl | rfl | rfl | rfl
  · rw [bt_enc8301_13]; omega
  · rw [bt_enc8301_14]; omega
  · rw [bt_enc8301_15]; omega
  · rw [bt_enc8301_16]; omega
  · rw [bt_enc8301_17]; omega

theorem enc8301_fields (fill : Nat → Nat) (cni mjd hh mm ss l : Nat) (neg : Bool)
    (hmjd : mjd < 100000) (h1 : hh < 24) (h2 : mm < 60) (h3 : ss ≤ 60) :
    Valid8301 (enc8301 fill cni mjd hh mm ss l neg) ∧
    mjdOf (enc8301 fill cni mjd hh mm ss l neg) = mjd ∧ hhOf (enc8301 fill cni mjd hh mm ss l neg) = hh ∧
    mmOf (enc8301 fill cni mjd hh mm ss l neg) = mm ∧ ssOf (enc8301 fill cni mjd hh mm ss l neg) = ss := by
  unfold Valid8301 MjdOk UtcOk NibOk mjdOf hhOf mmOf ssOf
  rw [bt_enc8301_12, bt_enc8301_13, bt_enc8301_14, bt_enc8301_15, bt_enc8301_16, bt_enc8301_17]
  unfold dig1
  have e12 : (fill 12 / 16 % 16 * 16 + (mjd / 10000 % 10 + 1)) % 16 = mjd / 10000 % 10 + 1 := by omega
  have a1 (x y : Nat) (hy : y < 10) : ((x % 10 + 1) * 16 + (y + 1)) / 16 = x % 10 + 1 := by omega
  have a2 (x y : Nat) (hy : y < 10) : ((x % 10 + 1) * 16 + (y + 1)) % 16 = y + 1 := by omega
  rw [e12]
  simp only [a1 _ _ (Nat.mod_lt _ (by decide : 10 > 0)), a2 _ _ (Nat.mod_lt _ (by decide : 10 > 0))]
  simp only [Nat.add_sub_cancel]
  omega

/-! ## format 2 -/

theorem pair_table : ∀ x < 256, unham16p (ham8 (rev8 x &&& 15)) (ham8 (rev8 x >>> 4)) = some (rev8 x) := by
  decide +kernel
theorem nib6_table : ∀ n < 16, unham8 (ham8 (rev4 n)) = some (rev4 n) ∧ rev8 (rev4 n) >>> 4 = n := by
  decide +kernel

theorem f2Bytes_nf (f : F2) : f2Bytes f =
    [f.lci % 4 * 4 + f.luf % 2 * 2 + f.prf % 2,
     f.pcs % 4 * 64 + f.mi % 2 * 32 + f.cni / 4096 % 16,
     f.cni / 64 % 4 * 64 + f.pil / 16384 % 64,
     f.pil / 64 % 256,
     f.pil % 64 * 4 + f.cni / 1024 % 4,
     f.cni / 256 % 4 * 64 + f.cni % 64,
     f.pty % 256] := by
  unfold f2Bytes
  simp only [and_0F, and_C0, and_3F, and_FF, and_03]
  have e6 : (f.lci % 4) <<< 2 ||| (f.luf % 2) <<< 1 ||| f.prf % 2 = f.lci % 4 * 4 + f.luf % 2 * 2 + f.prf % 2 := by
    rw [or_eq_add_hl 2 ((f.lci % 4) <<< 2) ((f.luf % 2) <<< 1) (by omega) (by omega),
      or_eq_add_hl 1 _ _ (by omega) (by omega)]; omega
  have e7 : (f.pcs % 4) <<< 6 ||| (f.mi % 2) <<< 5 ||| (f.cni >>> 12) % 16
      = f.pcs % 4 * 64 + f.mi % 2 * 32 + f.cni / 4096 % 16 := by
    rw [or_eq_add_hl 6 ((f.pcs % 4) <<< 6) ((f.mi % 2) <<< 5) (by omega) (by omega),
      or_eq_add_hl 5 _ _ (by omega) (by omega)]; omega
  have e8 : f.cni / 64 % 4 * 64 ||| (f.pil >>> 14) % 64 = f.cni / 64 % 4 * 64 + f.pil / 16384 % 64 := by
    rw [or_eq_add_hl 6 _ _ (by omega) (by omega)]; omega
  have e9 : (f.pil >>> 6) % 256 = f.pil / 64 % 256 := by omega
  have e10 : (f.pil % 64) <<< 2 ||| (f.cni >>> 10) % 4 = f.pil % 64 * 4 + f.cni / 1024 % 4 := by
    rw [or_eq_add_hl 2 _ _ (by omega) (by omega)]; omega
  have e11 : ((f.cni >>> 8) % 4) <<< 6 ||| f.cni % 64 = f.cni / 256 % 4 * 64 + f.cni % 64 := by
    rw [or_eq_add_hl 6 _ _ (by omega) (by omega)]; omega
  rw [e6, e7, e8, e9, e10, e11]

theorem bt_enc8302_9 (fill : Nat → Nat) (f : F2) :
    bt (enc8302 fill f) 9 = ham8 (rev4 ((f2Bytes f).getD 0 0)) := by
  unfold enc8302; rw [bt_map_range _ _ _ (by decide)]; rfl
theorem bt_enc8302_even (fill : Nat → Nat) (f : F2) (j : Nat) (hj : j < 6) :
    bt (enc8302 fill f) (10 + 2 * j) = ham8 (rev8 ((f2Bytes f).getD (j + 1) 0) &&& 15) := by
  unfold enc8302; rw [bt_map_range _ _ _ (by omega)]
  have a : (10 + 2 * j == 9) = false := by simp <;> omega
  have b : 10 ≤ 10 + 2 * j ∧ 10 + 2 * j ≤ 21 := by omega
  have c : (10 + 2 * j - 10) / 2 + 1 = j + 1 := by omega
  have d : ((10 + 2 * j - 10) % 2 == 0) = true := by simp <;> omega
  simp only [a, b, c, d, Bool.false_eq_true, if_false, if_true, and_self]
theorem bt_enc8302_odd (fill : Nat → Nat) (f : F2) (j : Nat) (hj : j < 6) :
    bt (enc8302 fill f) (11 + 2 * j) = ham8 (rev8 ((f2Bytes f).getD (j + 1) 0) >>> 4) := by
  unfold enc8302; rw [bt_map_range _ _ _ (by omega)]
  have a : (11 + 2 * j == 9) = false := by simp <;> omega
  have b : 10 ≤ 11 + 2 * j ∧ 11 + 2 * j ≤ 21 := by omega
  have c : (11 + 2 * j - 10) / 2 + 1 = j + 1 := by omega
  have d : ((11 + 2 * j - 10) % 2 == 0) = false := by simp <;> omega
  simp only [a, b, c, d, Bool.false_eq_true, if_false, if_true, and_self]


/-- `vbi_unham16p` from the two `vbi_unham8` results -/
def pair16 (a b : Option Nat) : Option Nat :=
  match a, b with
  | some a, some b => some (a ||| (b <<< 4))
  | _, _ => none

theorem unham16p_eq (p0 p1 : Nat) : unham16p p0 p1 = pair16 (unham8 p0) (unham8 p1) := rfl

/-- `vbi_decode_teletext_8302_pdc` as a function of the thirteen `vbi_unham8` results only -/
def dec8302PdcOf (u : Nat → Option Nat) : Option Pid :=
  match u 9 with
  | none => none
  | some e =>
    let b6 := rev8 e >>> 4
    match pair16 (u 10) (u 11), pair16 (u 12) (u 13), pair16 (u 14) (u 15), pair16 (u 16) (u 17),
          pair16 (u 18) (u 19), pair16 (u 20) (u 21) with
    | some t7, some t8, some t9, some t10, some t11, some t12 =>
      let b7 := rev8 t7; let b8 := rev8 t8; let b9 := rev8 t9
      let b10 := rev8 t10; let b11 := rev8 t11; let b12 := rev8 t12
      some { channel := VBI_PID_CHANNEL_LCI_0 + ((b6 >>> 2) &&& 3), cniType := VBI_CNI_TYPE_8302,
             cni := cniFrom b7 b8 b10 b11,
             pil := ((b8 &&& 0x3F) <<< 14) + (b9 <<< 6) + (b10 >>> 2),
             luf := (b6 >>> 1) &&& 1, mi := (b7 >>> 5) &&& 1, prf := b6 &&& 1,
             pcsAudio := (b7 >>> 6) &&& 3, pty := b12 }
    | _, _, _, _, _, _ => none

theorem decode8302Pdc_factor (b : Buf) : decode8302Pdc b = dec8302PdcOf (fun j => unham8 (bt b j)) := rfl

def dec8302CniOf (u : Nat → Option Nat) : Option Nat :=
  match pair16 (u 10) (u 11), pair16 (u 12) (u 13), pair16 (u 16) (u 17), pair16 (u 18) (u 19) with
  | some b7, some b8, some b10, some b11 => some (cniFrom (rev8 b7) (rev8 b8) (rev8 b10) (rev8 b11))
  | _, _, _, _ => none

theorem decode8302Cni_factor (b : Buf) : decode8302Cni b = dec8302CniOf (fun j => unham8 (bt b j)) := rfl

theorem dec8302PdcOf_congr (u u' : Nat → Option Nat) (h : ∀ j, 9 ≤ j → j ≤ 21 → u j = u' j) :
    dec8302PdcOf u = dec8302PdcOf u' := by
  unfold dec8302PdcOf
  rw [h 9 (by decide) (by decide), h 10 (by decide) (by decide), h 11 (by decide) (by decide),
    h 12 (by decide) (by decide), h 13 (by decide) (by decide), h 14 (by decide) (by decide),
    h 15 (by decide) (by decide), h 16 (by decide) (by decide), h 17 (by decide) (by decide),
    h 18 (by decide) (by decide), h 19 (by decide) (by decide), h 20 (by decide) (by decide),
    h 21 (by decide) (by decide)]

theorem dec8302CniOf_congr (u u' : Nat → Option Nat) (h : ∀ j, 9 ≤ j → j ≤ 21 → u j = u' j) :
    dec8302CniOf u = dec8302CniOf u' := by
  unfold dec8302CniOf
  rw [h 10 (by decide) (by decide), h 11 (by decide) (by decide),
    h 12 (by decide) (by decide), h 13 (by decide) (by decide), h 16 (by decide) (by decide),
    h 17 (by decide) (by decide),
    h 18 (by decide) (by decide), h 19 (by decide) (by decide)]

/-- any failing `vbi_unham8` among bytes 9..21 makes the PDC decoder refuse -/
theorem dec8302PdcOf_none (u : Nat → Option Nat) (j : Nat) (h1 : 9 ≤ j) (h2 : j ≤ 21) (hj : u j = none) :
    dec8302PdcOf u = none := by
  unfold dec8302PdcOf pair16
  have : j = 9 ∨ j = 10 ∨ j = 11 ∨ j = 12 ∨ j = 13 ∨ j = 14 ∨ j = 15 ∨ j = 16 ∨ j = 17 ∨ j = 18
      ∨ j = 19 ∨ j = 20 ∨ j = 21 := by omega
  rcases this with rfl | rfl | rfl | rfl | rfl | rfl | rfl | rfl | rfl | rfl | rfl | rfl | rfl <;>
    (rw [hj]; repeat' split) <;> simp_all

/-- the unham8 results of the bytes a sender emits for data bytes `x6` (nibble) and `x7..x12` -/
def Sent8302 (p : Buf) (x : Nat → Nat) : Prop :=
  bt p 9 = ham8 (rev4 (x 6)) ∧
  ∀ j, j < 6 → bt p (10 + 2 * j) = ham8 (rev8 (x (7 + j)) &&& 15) ∧
              bt p (11 + 2 * j) = ham8 (rev8 (x (7 + j)) >>> 4)

theorem sent_pair (p : Buf) (x : Nat → Nat) (h : Sent8302 p x) (j : Nat) (hj : j < 6) (hx : x (7 + j) < 256) :
    pair16 (unham8 (bt p (10 + 2 * j))) (unham8 (bt p (11 + 2 * j))) = some (rev8 (x (7 + j))) := by
  obtain ⟨a, b⟩ := h.2 j hj
  rw [a, b, ← unham16p_eq]; exact pair_table _ hx

theorem dec8302Pdc_sent (p : Buf) (x : Nat → Nat) (h : Sent8302 p x) (h6 : x 6 < 16)
    (hx : ∀ j, j < 6 → x (7 + j) < 256) :
    decode8302Pdc p = some
      { channel := VBI_PID_CHANNEL_LCI_0 + ((x 6 >>> 2) &&& 3), cniType := VBI_CNI_TYPE_8302,
        cni := cniFrom (x 7) (x 8) (x 10) (x 11),
        pil := ((x 8 &&& 0x3F) <<< 14) + (x 9 <<< 6) + (x 10 >>> 2),
        luf := (x 6 >>> 1) &&& 1, mi := (x 7 >>> 5) &&& 1, prf := x 6 &&& 1,
        pcsAudio := (x 7 >>> 6) &&& 3, pty := x 12 } := by
  rw [decode8302Pdc_factor]; unfold dec8302PdcOf
  have e9 : unham8 (bt p 9) = some (rev4 (x 6)) := by rw [h.1]; exact (nib6_table _ h6).1
  have p0 := sent_pair p x h 0 (by decide) (hx 0 (by decide))
  have p1 := sent_pair p x h 1 (by decide) (hx 1 (by decide))
  have p2 := sent_pair p x h 2 (by decide) (hx 2 (by decide))
  have p3 := sent_pair p x h 3 (by decide) (hx 3 (by decide))
  have p4 := sent_pair p x h 4 (by decide) (hx 4 (by decide))
  have p5 := sent_pair p x h 5 (by decide) (hx 5 (by decide))
  simp only [Nat.reduceMul, Nat.reduceAdd] at p0 p1 p2 p3 p4 p5
  simp only [e9, p0, p1, p2, p3, p4, p5, (nib6_table _ h6).2,
    rev8_involutive _ (hx 0 (by decide)), rev8_involutive _ (hx 1 (by decide)),
    rev8_involutive _ (hx 2 (by decide)), rev8_involutive _ (hx 3 (by decide)),
    rev8_involutive _ (hx 4 (by decide)), rev8_involutive _ (hx 5 (by decide))]

theorem dec8302Cni_sent (p : Buf) (x : Nat → Nat) (h : Sent8302 p x)
    (hx : ∀ j, j < 6 → x (7 + j) < 256) :
    decode8302Cni p = some (cniFrom (x 7) (x 8) (x 10) (x 11)) := by
  rw [decode8302Cni_factor]; unfold dec8302CniOf
  have p0 := sent_pair p x h 0 (by decide) (hx 0 (by decide))
  have p1 := sent_pair p x h 1 (by decide) (hx 1 (by decide))
  have p3 := sent_pair p x h 3 (by decide) (hx 3 (by decide))
  have p4 := sent_pair p x h 4 (by decide) (hx 4 (by decide))
  simp only [Nat.reduceMul, Nat.reduceAdd] at p0 p1 p3 p4
  simp only [p0, p1, p3, p4,
    rev8_involutive _ (hx 0 (by decide)), rev8_involutive _ (hx 1 (by decide)),
    rev8_involutive _ (hx 3 (by decide)), rev8_involutive _ (hx 4 (by decide))]

/-- the spec encoder's packet is what a sender of `f2Bytes f` emits -/
theorem enc8302_sent (fill : Nat → Nat) (f : F2) :
    Sent8302 (enc8302 fill f) (fun k => (f2Bytes f).getD (k - 6) 0) := by
  refine ⟨bt_enc8302_9 fill f, fun j hj => ⟨?_, ?_⟩⟩
  · rw [bt_enc8302_even fill f j hj]
    have : 7 + j - 6 = j + 1 := by omega
    simp only [this]
  · have : 11 + 2 * j = 11 + 2 * j := rfl
    rw [bt_enc8302_odd fill f j hj]
    have : 7 + j - 6 = j + 1 := by omega
    simp only [this]

theorem f2_x6 (lci luf prf : Nat) (h1 : lci < 4) (h2 : luf < 2) (h3 : prf < 2) :
    VBI_PID_CHANNEL_LCI_0 + (((lci % 4 * 4 + luf % 2 * 2 + prf % 2) >>> 2) &&& 3) = lci ∧
    ((lci % 4 * 4 + luf % 2 * 2 + prf % 2) >>> 1) &&& 1 = luf ∧
    (lci % 4 * 4 + luf % 2 * 2 + prf % 2) &&& 1 = prf := by
  have e3 (x : Nat) : x &&& 3 = x % 4 := and_03 x
  simp only [VBI_PID_CHANNEL_LCI_0, e3, and_01]
  omega

theorem f2_x7 (pcs mi cni : Nat) (h4 : pcs < 4) (h5 : mi < 2) (h6 : cni < 65536) :
    ((pcs % 4 * 64 + mi % 2 * 32 + cni / 4096 % 16) >>> 5) &&& 1 = mi ∧
    ((pcs % 4 * 64 + mi % 2 * 32 + cni / 4096 % 16) >>> 6) &&& 3 = pcs ∧
    (pcs % 4 * 64 + mi % 2 * 32 + cni / 4096 % 16) % 16 = cni / 4096 := by
  have e3 (x : Nat) : x &&& 3 = x % 4 := and_03 x
  simp only [e3, and_01]
  omega

theorem f2_cni (x7 cni pil : Nat) (h7 : x7 % 16 = cni / 4096) :
    cniFrom x7 (cni / 64 % 4 * 64 + pil / 16384 % 64) (pil % 64 * 4 + cni / 1024 % 4)
      (cni / 256 % 4 * 64 + cni % 64) = cni := by
  simp only [cniFrom, and_0F, and_03, and_C0, and_3F]
  have a10 : (pil % 64 * 4 + cni / 1024 % 4) % 4 = cni / 1024 % 4 := by omega
  have a11 : (cni / 256 % 4 * 64 + cni % 64) / 64 % 4 = cni / 256 % 4 := by omega
  have a8 : (cni / 64 % 4 * 64 + pil / 16384 % 64) / 64 % 4 = cni / 64 % 4 := by omega
  have a11' : (cni / 256 % 4 * 64 + cni % 64) % 64 = cni % 64 := by omega
  rw [h7, a10, a11, a8, a11']
  omega

theorem f2_pil (cni pil : Nat) (h7 : pil < 1048576) :
    (((cni / 64 % 4 * 64 + pil / 16384 % 64) &&& 0x3F) <<< 14) + ((pil / 64 % 256) <<< 6)
      + ((pil % 64 * 4 + cni / 1024 % 4) >>> 2) = pil := by
  simp only [and_3F]
  have b8 : (cni / 64 % 4 * 64 + pil / 16384 % 64) % 64 = pil / 16384 := by omega
  have b10 : (pil % 64 * 4 + cni / 1024 % 4) >>> 2 = pil % 64 := by omega
  rw [b8, b10]
  omega

end Zvbi.Codec
