import ZvbiModel.Codec.Lemmas
/-!
# VPS / DVB PDC descriptor: what the encoders store, byte by byte, in `/ % * +` form
-/
namespace Zvbi.Codec

/-! ## normal forms of the stored bytes -/

theorem nf_b8_cni (x c : Nat) : u8 ((x &&& 0x3F) ||| (c &&& 0xC0)) = c / 64 % 4 * 64 + x % 64 := by
  simp only [and_3F, and_C0, u8]
  rw [or_eq_add_lh 6 _ _ (by omega) (by omega)]; omega

theorem nf_b10_cni (x c : Nat) (h : c ≤ 0xFFF) :
    u8 ((x &&& 0xFC) ||| (c >>> 10)) = x / 4 % 64 * 4 + c / 1024 := by
  simp only [and_FC, u8]
  rw [or_eq_add_hl 2 _ _ (by omega) (by omega)]; omega

theorem nf_b11_cni (c : Nat) :
    u8 ((c &&& 0x3F) ||| ((c >>> 2) &&& 0xC0)) = c / 256 % 4 * 64 + c % 64 := by
  simp only [and_3F, and_C0, u8]
  rw [or_eq_add_lh 6 _ _ (by omega) (by omega)]; omega

theorem nf_b2_pcs (x p : Nat) (h : p ≤ 3) :
    u8 ((x &&& 0x3F) ||| u32 (p <<< 6)) = p * 64 + x % 64 := by
  simp only [and_3F, u8, u32]
  rw [or_eq_add_lh 6 _ _ (by omega) (by omega)]; omega

theorem nf_b8_pil (x pil : Nat) :
    u8 ((x &&& 0xC0) ||| ((pil >>> 14) &&& 0x3F)) = x / 64 % 4 * 64 + pil / 16384 % 64 := by
  simp only [and_3F, and_C0, u8]
  rw [or_eq_add_hl 6 _ _ (by omega) (by omega)]; omega

theorem nf_b10_pil (x pil : Nat) :
    u8 ((x &&& 0x03) ||| u32 (pil <<< 2)) = pil % 64 * 4 + x % 4 := by
  simp only [and_03, u8, u32]
  rw [or_eq_add_lh 2 _ _ (by omega) (by omega)]; omega

theorem nf_b2_dvb (pil : Nat) (h : pil ≤ 0xFFFFF) : u8 (0xF0 ||| (pil >>> 16)) = 240 + pil / 65536 := by
  simp only [u8]
  rw [or_eq_add_hl 4 _ _ (by omega) (by omega)]; omega

/-! ## `vbi_encode_vps_cni` -/

/-- the raw 12-bit CNI field of a VPS line (before the 0xDC3 translation) -/
def rawVpsCni (b : Buf) : Nat :=
  ((bt b 10 &&& 0x03) <<< 10) + ((bt b 11 &&& 0xC0) <<< 2) + (bt b 8 &&& 0xC0) + (bt b 11 &&& 0x3F)

theorem rawVpsCni_nf (b : Buf) : rawVpsCni b
    = bt b 10 % 4 * 1024 + bt b 11 / 64 % 4 * 256 + bt b 8 / 64 % 4 * 64 + bt b 11 % 64 := by
  simp only [rawVpsCni, and_03, and_C0, and_3F]; omega

theorem decodeVpsCni_eq (b : Buf) : decodeVpsCni b
    = if rawVpsCni b = 0x0DC3 then (if bt b 2 &&& 0x10 ≠ 0 then 0x0DC1 else 0x0DC2) else rawVpsCni b := by
  simp [decodeVpsCni, rawVpsCni]

theorem encodeVpsCni_refuse (b : Buf) (cni : Nat) (h : cni > 0xFFF) : encodeVpsCni b cni = (false, b) := by
  simp [encodeVpsCni, h]

/-- bytes of the buffer after a successful `vbi_encode_vps_cni` -/
theorem encodeVpsCni_bytes (b : Buf) (hlen : b.length = 13) (cni : Nat) (h : cni ≤ 0xFFF) :
    ∃ b', encodeVpsCni b cni = (true, b') ∧ b'.length = 13 ∧
      bt b' 8 = cni / 64 % 4 * 64 + bt b 8 % 64 ∧
      bt b' 10 = bt b 10 / 4 % 64 * 4 + cni / 1024 ∧
      bt b' 11 = cni / 256 % 4 * 64 + cni % 64 ∧
      ∀ i, i ≠ 8 → i ≠ 10 → i ≠ 11 → bt b' i = bt b i := by
  have hn : ¬ cni > 0xFFF := by omega
  refine ⟨_, by simp only [encodeVpsCni, hn, if_false]; rfl, by simp [hlen], ?_, ?_, ?_, ?_⟩
  · simp [bt_set, hlen, nf_b8_cni]
  · simp [bt_set, hlen, nf_b10_cni _ _ h]
  · simp [bt_set, hlen, nf_b11_cni]
  · intro i h8 h10 h11
    simp [bt_set, hlen, Ne.symm h8, Ne.symm h10, Ne.symm h11]


/-- reading the CNI field back from stored bytes of the shape the encoders produce -/
theorem rawVpsCni_of (b' : Buf) (c x8 x10 : Nat) (hc : c ≤ 0xFFF)
    (h8 : bt b' 8 = c / 64 % 4 * 64 + x8 % 64) (h10 : bt b' 10 = x10 * 4 + c / 1024)
    (h11 : bt b' 11 = c / 256 % 4 * 64 + c % 64) : rawVpsCni b' = c := by
  rw [rawVpsCni_nf, h8, h10, h11]
  have e10 : (x10 * 4 + c / 1024) % 4 = c / 1024 := by omega
  have e11a : (c / 256 % 4 * 64 + c % 64) / 64 % 4 = c / 256 % 4 := by omega
  have e11b : (c / 256 % 4 * 64 + c % 64) % 64 = c % 64 := by omega
  have e8 : (c / 64 % 4 * 64 + x8 % 64) / 64 % 4 = c / 64 % 4 := by omega
  rw [e10, e11a, e11b, e8]
  omega

/-- the PIL expression of `vbi_decode_vps_pdc` -/
def rawVpsPil (b : Buf) : Nat := ((bt b 8 &&& 0x3F) <<< 14) + (bt b 9 <<< 6) + (bt b 10 >>> 2)

theorem rawVpsPil_nf (b : Buf) : rawVpsPil b = bt b 8 % 64 * 16384 + bt b 9 * 64 + bt b 10 / 4 := by
  simp only [rawVpsPil, and_3F]; omega

theorem rawVpsPil_of (b' : Buf) (pil x8 x10 : Nat) (hp : pil ≤ 0xFFFFF) (hx : x10 < 4)
    (h8 : bt b' 8 = x8 * 64 + pil / 16384 % 64) (h9 : bt b' 9 = pil / 64 % 256)
    (h10 : bt b' 10 = pil % 64 * 4 + x10) : rawVpsPil b' = pil := by
  rw [rawVpsPil_nf, h8, h9, h10]
  have e8 : (x8 * 64 + pil / 16384 % 64) % 64 = pil / 16384 := by omega
  have e10 : (pil % 64 * 4 + x10) / 4 = pil % 64 := by omega
  rw [e8, e10]
  omega

theorem rawVpsCni_fields (b : Buf) (hb : Bytes b) :
    rawVpsCni b / 64 % 4 = bt b 8 / 64 % 4 ∧ rawVpsCni b / 1024 = bt b 10 % 4 ∧
    rawVpsCni b / 256 % 4 = bt b 11 / 64 % 4 ∧ rawVpsCni b % 64 = bt b 11 % 64 := by
  rw [rawVpsCni_nf]
  have := hb 8; have := hb 10; have := hb 11
  generalize bt b 10 % 4 = x
  generalize hy : bt b 11 / 64 % 4 = y
  generalize hz : bt b 8 / 64 % 4 = z
  generalize hw : bt b 11 % 64 = w
  have : y < 4 := by omega
  have : z < 4 := by omega
  have : w < 64 := by omega
  refine ⟨?_, ?_, ?_, ?_⟩ <;> omega

theorem rawVpsPil_fields (b : Buf) (hb : Bytes b) :
    rawVpsPil b / 16384 % 64 = bt b 8 % 64 ∧ rawVpsPil b / 64 % 256 = bt b 9 ∧
    rawVpsPil b % 64 = bt b 10 / 4 := by
  rw [rawVpsPil_nf]
  have := hb 8; have := hb 9; have := hb 10
  generalize hx : bt b 8 % 64 = x
  generalize hy : bt b 10 / 4 = y
  have : x < 64 := by omega
  have : y < 64 := by omega
  refine ⟨?_, ?_, ?_⟩ <;> omega

/-! ## `vbi_encode_vps_pdc` -/

theorem encodeVpsPdc_refuse (b : Buf) (p : Pid)
    (h : p.cni > 0xFFF ∨ p.pil > 0xFFFFF ∨ p.pcsAudio > 3 ∨ p.pty > 0xFF) :
    encodeVpsPdc b p = (false, b) := by
  unfold encodeVpsPdc
  by_cases h1 : p.pty > 0xFF
  · simp [h1]
  by_cases h2 : p.pcsAudio > 3
  · simp [h1, h2]
  by_cases h3 : p.pil > 0xFFFFF
  · simp [h1, h2, h3]
  have h4 : p.cni > 0xFFF := by omega
  simp [h1, h2, h3, encodeVpsCni_refuse b p.cni h4]

/-- bytes of the buffer after a successful `vbi_encode_vps_pdc` -/
theorem encodeVpsPdc_bytes (b : Buf) (hlen : b.length = 13) (p : Pid)
    (hc : p.cni ≤ 0xFFF) (hp : p.pil ≤ 0xFFFFF) (ha : p.pcsAudio ≤ 3) (ht : p.pty ≤ 0xFF) :
    ∃ b', encodeVpsPdc b p = (true, b') ∧ b'.length = 13 ∧
      bt b' 2 = p.pcsAudio * 64 + bt b 2 % 64 ∧
      bt b' 8 = p.cni / 64 % 4 * 64 + p.pil / 16384 % 64 ∧
      bt b' 9 = p.pil / 64 % 256 ∧
      bt b' 10 = p.pil % 64 * 4 + p.cni / 1024 ∧
      bt b' 11 = p.cni / 256 % 4 * 64 + p.cni % 64 ∧
      bt b' 12 = p.pty ∧
      ∀ i, i ≠ 2 → i ≠ 8 → i ≠ 9 → i ≠ 10 → i ≠ 11 → i ≠ 12 → bt b' i = bt b i := by
  obtain ⟨c, hce, hcl, c8, c10, c11, cr⟩ := encodeVpsCni_bytes b hlen p.cni hc
  have h1 : ¬ p.pty > 0xFF := by omega
  have h2 : ¬ p.pcsAudio > 3 := by omega
  have h3 : ¬ p.pil > 0xFFFFF := by omega
  refine ⟨_, by simp only [encodeVpsPdc, h1, h2, h3, if_false, hce]; rfl, by simp [hcl], ?_, ?_, ?_, ?_, ?_, ?_, ?_⟩
  · simp [bt_set, hcl, nf_b2_pcs _ _ ha, cr 2]
  · simp only [bt_set, List.length_set, hcl]; simp [nf_b8_pil, c8]; omega
  · simp [bt_set, hcl, u8]; omega
  · simp only [bt_set, List.length_set, hcl]; simp [nf_b10_pil, c10]; omega
  · simp [bt_set, hcl, c11]
  · simp [bt_set, hcl, u8]; omega
  · intro i i2 i8 i9 i10 i11 i12
    simp [bt_set, hcl, Ne.symm i2, Ne.symm i8, Ne.symm i9, Ne.symm i10, Ne.symm i12,
      cr i i8 i10 i11]

/-! ## DVB PDC descriptor -/

theorem encodeDvbPdc_refuse (b : Buf) (p : Pid) (h : p.pil > 0xFFFFF) : encodeDvbPdc b p = (false, b) := by
  simp [encodeDvbPdc, h]

theorem encodeDvbPdc_bytes (b : Buf) (hlen : 5 ≤ b.length) (p : Pid) (hp : p.pil ≤ 0xFFFFF) :
    ∃ b', encodeDvbPdc b p = (true, b') ∧ b'.length = b.length ∧
      bt b' 0 = 0x69 ∧ bt b' 1 = 3 ∧ bt b' 2 = 240 + p.pil / 65536 ∧
      bt b' 3 = p.pil / 256 % 256 ∧ bt b' 4 = p.pil % 256 ∧ ∀ i, 5 ≤ i → bt b' i = bt b i := by
  have h3 : ¬ p.pil > 0xFFFFF := by omega
  have l0 : 0 < b.length := by omega
  have l1 : 1 < b.length := by omega
  have l2 : 2 < b.length := by omega
  have l3 : 3 < b.length := by omega
  have l4 : 4 < b.length := by omega
  refine ⟨_, by simp only [encodeDvbPdc, h3, if_false]; rfl, by simp, ?_, ?_, ?_, ?_, ?_, ?_⟩
  · simp [bt_set, l0]
  · simp [bt_set, l1]
  · simp [bt_set, l2, nf_b2_dvb _ hp]
  · simp [bt_set, l3, u8]; omega
  · simp [bt_set, l4, u8]
  · intro i hi
    have : ¬ 0 = i := by omega
    have : ¬ 1 = i := by omega
    have : ¬ 2 = i := by omega
    have : ¬ 3 = i := by omega
    have : ¬ 4 = i := by omega
    simp [bt_set, *]

end Zvbi.Codec
