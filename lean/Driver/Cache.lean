import Driver.Util
import ZvbiModel.Cache.Model
/-!
# Driver for component `cache` (C10): line protocol of harness/cache_harness.c

The driver owns the *client side* of the API: handle tables (one handle = one reference the
client holds on a page / network).  An op naming a handle the client no longer holds is
`rej handle` on both sides and never reaches the model or the C code (in C it would be a
dangling pointer).  Every answer carries a digest of the complete cache state
(`c=` pages, `m=` memory_used, `n=` n_cached_networks, `h=` FNV-1a of the canonical dump,
`a=` result of the structural audit); `dump` prints the state in full.
-/
namespace Zvbi.Driver.Cache
open Zvbi.Driver Zvbi.Cache Zvbi.Gen.Cache

structure DState where
  m : State := init
  ph : Array (Nat × Bool) := #[]
  nh : Array (Nat × Bool) := #[]
  deleted : Bool := false

def priNum : Pri → Nat
  | .zombie => 0 | .normal => 1 | .special => 2

def netPos (s : State) (nid : Nat) : String :=
  match s.nets.findIdx? (fun n => n.id = nid) with
  | some i => toString i
  | none => "?"

def showPage (s : State) (p : Page) : String :=
  s!"{netPos s p.net}.{p.pgno}.{p.subno}.{p.func}.{p.x26}.{p.x28}.{p.ref}.{priNum p.pri}.{p.tag}"

def showIds (s : State) (ids : List Nat) : String :=
  ",".intercalate (ids.map fun id => match s.findPage id with
    | some p => showPage s p
    | none => "dangling")

def insertSorted (e : Nat × PStat) : List (Nat × PStat) → List (Nat × PStat)
  | [] => [e]
  | x :: xs => if e.1 ≤ x.1 then e :: x :: xs else x :: insertSorted e xs

def showNet (n : Net) : String :=
  let es := (n.stat.filter fun e => e.2 ≠ { ptype := n.defType }).foldl (fun acc e => insertSorted e acc) []
  let st := ",".intercalate (es.map fun (pg, ps) => s!"{pg}:{ps.ptype}:{ps.nSub}:{ps.maxSub}:{ps.subMin}:{ps.subMax}")
  s!"N{n.ref},{if n.zombie then 1 else 0},{n.nCached},{n.maxCached},{n.nRef},{n.defType}[{st}]"

def dumpStr (s : State) : String :=
  let nets := "".intercalate (s.nets.map showNet)
  let live := s.pages.filter (fun p => p.pri ≠ .zombie)
  let buckets := (List.range hashSize).foldl (fun acc b =>
    let ch := live.filter (fun p => p.pgno % hashSize = b)
    if ch.isEmpty then acc else acc ++ s!"b{b}=" ++ ",".intercalate (ch.map (showPage s)) ++ " ") ""
  s!"L={s.memLimit}/{s.nNetsLimit};{nets};H{buckets};P{showIds s s.priority};R{showIds s s.referenced}"

def fnv (str : String) : UInt32 :=
  str.toUTF8.foldl (fun h b => (h ^^^ b.toUInt32) * 16777619) 2166136261

def hex8 (v : UInt32) : String :=
  let n := v.toNat
  String.ofList ((List.range 8).map fun i => hexNibble ((n >>> (4 * (7 - i))) % 16))

/-- executable form of the structural invariant (same clauses as the audit walker of the harness) -/
def audit (s : State) : String :=
  let ids := s.pages.map (·.id)
  if !(decide ids.Nodup) then "dup-page"
  else if !(decide s.priority.Nodup) || !(decide s.referenced.Nodup) then "dup-pri"
  else if s.pages.any (fun p => p.ref = 0 ∧ (p.pri = .zombie ∨ !s.priority.contains p.id ∨ s.referenced.contains p.id)) then "unref-list"
  else if s.pages.any (fun p => p.ref > 0 ∧ (!s.referenced.contains p.id ∨ s.priority.contains p.id)) then "ref-list"
  else if (s.priority ++ s.referenced).any (fun id => !ids.contains id) then "list-dangling"
  else if s.nCachedPages ≠ s.pages.length then "n-cached-pages"
  else if s.memUsed ≠ ((s.pages.filter (fun p => p.ref = 0)).map (·.size)).sum then "memory-used"
  else if s.memUsed > s.memLimit then "memory-limit"
  else if s.pages.any (fun p => (s.findNet p.net).isNone) then "net-dangling"
  else if !(decide (s.nets.map (·.id)).Nodup) then "dup-net"
  else if s.nCachedNets ≠ (s.nets.filter (fun n => !n.zombie)).length then "n-cached-networks"
  else if s.nets.any (fun n => n.zombie ∧ n.ref = 0 ∧ n.nRef = 0) then "zombie-net"
  else if s.nets.any (fun n => n.nCached ≠ (s.pages.filter (fun p => p.net = n.id)).length) then "net-n-cached"
  else if s.nets.any (fun n => n.nRef ≠ (s.pages.filter (fun p => p.net = n.id ∧ p.ref > 0)).length) then "net-n-ref"
  else if s.nets.any (fun n => n.maxCached < n.nCached) then "net-max"
  else if s.nets.any (fun n =>
      (n.stat.map (·.1) ++ (s.pages.filter (fun p => p.net = n.id)).map (·.pgno)).any fun pg =>
        (n.getStat pg).nSub ≠ (s.pages.filter (fun p => p.net = n.id ∧ p.pgno = pg)).length) then "nsub"
  else if !(decide ((s.pages.filter (fun p => p.pri ≠ .zombie)).map (fun p => (p.net, p.pgno, p.subno))).Nodup) then "dup-key"
  else "ok"

def digest (s : State) : String :=
  s!" | c={s.nCachedPages} m={s.memUsed} n={s.nCachedNets} h={hex8 (fnv (dumpStr s))} a={audit s}"

def showPageRes (p : Page) : String :=
  s!"{p.pgno} {p.subno} {p.func} {p.x26} {p.x28} {p.ref} {priNum p.pri} {p.tag}"

def getH (a : Array (Nat × Bool)) (i : Nat) : Option Nat :=
  match a[i]? with
  | some (id, true) => some id
  | _ => none

def release (a : Array (Nat × Bool)) (i : Nat) : Array (Nat × Bool) :=
  match a[i]? with
  | some (id, _) => a.set! i (id, false)
  | none => a

def showErr : Err → String
  | .assertFail s => s!"err assert {s}"
  | .oob s => s!"err oob {s}"

def lim (v : Option Nat) (max : Nat) : Option Nat :=
  match v with
  | some n => if n ≤ max then some n else none
  | none => none

def finish (d : DState) (m : State) (res : String) : DState × String :=
  ({ d with m := m }, res ++ digest m)

def pageOut (d : DState) (m : State) (p : Option Page) : DState × String :=
  match p with
  | none => finish { d with ph := d.ph.push (0, false) } m "ok null"   -- the slot is consumed
  | some p =>
    let h := d.ph.size
    finish { d with ph := d.ph.push (p.id, true) } m s!"ok p{h} {showPageRes p}"

def prej (d : DState) (why : String) : DState × String := ({ d with ph := d.ph.push (0, false) }, "rej " ++ why)
def nrej (d : DState) (why : String) : DState × String := ({ d with nh := d.nh.push (0, false) }, "rej " ++ why)

def sizesStr : String :=
  s!"ok hash={hashSize} hdr={hdrSize} lop={lopSize} enh={enhLopSize} ext={extLopSize} pop={popSize} drcs={drcsSize} ait={aitSize} full={fullSize} stats={nPageStats} row={deathRowSize} limit={memoryLimit0} nlimit={nNetworksLimit0} clock={clockPageType} unknown={unknownPageType} any={anySubno}"

def step (d : DState) (ws : List String) : DState × String :=
  if d.deleted then (d, "rej deleted") else
  match ws with
  | ["sizes"] => (d, sizesStr)
  | ["dump"] => (d, "ok " ++ dumpStr d.m)
  | ["addnet"] =>
    let (m, r) := Zvbi.Cache.stepCur d.m .addNet
    match r with
    | .net nid => finish { d with nh := d.nh.push (nid, true) } m s!"ok n{d.nh.size}"
    | _ => (d, "rej model")
  | ["netref", n] =>
    match lim (parseNat n) 1000000 with
    | none => (d, "rej parse")
    | some n => match getH d.nh n with
      | none => nrej d "handle"
      | some nid =>
        let (m, _) := Zvbi.Cache.stepCur d.m (.netRef nid)
        finish { d with nh := d.nh.push (nid, true) } m s!"ok n{d.nh.size}"
  | ["netunref", n] =>
    match lim (parseNat n) 1000000 with
    | none => (d, "rej parse")
    | some n => match getH d.nh n with
      | none => (d, "rej handle")
      | some nid =>
        let (m, _) := Zvbi.Cache.stepCur d.m (.netUnref nid)
        finish { d with nh := release d.nh n } m "ok"
  | ["chsw", n] =>
    match lim (parseNat n) 1000000 with
    | none => (d, "rej parse")
    | some n => match getH d.nh n with
      | none => nrej d "handle"
      | some nid =>
        let (m, r) := Zvbi.Cache.stepCur d.m (.chsw nid)
        match r with
        | .net nid' =>
          let nh := release d.nh n
          finish { d with nh := nh.push (nid', true) } m s!"ok n{nh.size}"
        | _ => (d, "rej model")
  | ["statreset", n] =>
    match lim (parseNat n) 1000000 with
    | none => (d, "rej parse")
    | some n => match getH d.nh n with
      | none => (d, "rej handle")
      | some nid =>
        let (m, r) := Zvbi.Cache.stepCur d.m (.statReset nid)
        match r with
        | .rej w => (d, s!"rej {w}")
        | _ => finish d m "ok"
  | ["ptype", n, pgno, t] =>
    match lim (parseNat n) 1000000, lim (parseNat pgno) 0xFFFF, lim (parseNat t) 255 with
    | some n, some pgno, some t => match getH d.nh n with
      | none => (d, "rej handle")
      | some nid =>
        if pgno < 0x100 ∨ pgno > 0x8FF ∨ pgno % 256 = 255 then (d, "rej pgno")
        else let (m, _) := Zvbi.Cache.stepCur d.m (.ptype nid pgno t); finish d m "ok"
    | _, _, _ => (d, "rej parse")
  | ["put", n, pgno, subno, func, x26, x28, tag] =>
    match lim (parseNat n) 1000000, lim (parseNat pgno) 0xFFFF, lim (parseNat subno) 0xFFFF, parseInt func,
          lim (parseNat x26) 0xFFFF, lim (parseNat x28) 0xFFFF, lim (parseNat tag) 0xFFFFFF with
    | some n, some pgno, some subno, some func, some x26, some x28, some tag =>
      if func < -5 ∨ func > 20 then (d, "rej parse") else
      match getH d.nh n with
      | none => prej d "handle"
      | some nid =>
        if pgno < 0x100 ∨ pgno > 0x8FF then prej d "pgno"
        else
          let (m, r) := Zvbi.Cache.stepCur d.m (.put nid ⟨pgno, subno, func, x26, x28, tag⟩)
          match r with
          | .page p => pageOut d m p
          | .err e => finish { d with ph := d.ph.push (0, false) } m (showErr e)
          | _ => (d, "rej model")
    | _, _, _, _, _, _, _ => (d, "rej parse")
  | ["get", n, pgno, subno, mask] =>
    match lim (parseNat n) 1000000, lim (parseNat pgno) 0xFFFF, lim (parseNat subno) 0xFFFF, lim (parseNat mask) 0xFFFFFFFF with
    | some n, some pgno, some subno, some mask => match getH d.nh n with
      | none => prej d "handle"
      | some nid =>
        let (m, r) := Zvbi.Cache.stepCur d.m (.get nid pgno subno mask)
        match r with
        | .page p => pageOut d m p
        | _ => (d, "rej model")
    | _, _, _, _ => (d, "rej parse")
  | ["ref", p] =>
    match lim (parseNat p) 1000000 with
    | none => (d, "rej parse")
    | some p => match getH d.ph p with
      | none => prej d "handle"
      | some pid =>
        let (m, r) := Zvbi.Cache.stepCur d.m (.ref pid)
        match r with
        | .ok => finish { d with ph := d.ph.push (pid, true) } m s!"ok p{d.ph.size}"
        | _ => (d, "rej model")
  | ["unref", p] =>
    match lim (parseNat p) 1000000 with
    | none => (d, "rej parse")
    | some p => match getH d.ph p with
      | none => (d, "rej handle")
      | some pid =>
        let intact := match d.m.findPage pid with
          | some q => s!"{q.pgno} {q.subno} {q.tag}"
          | none => "gone"
        let (m, r) := Zvbi.Cache.stepCur d.m (.unref pid)
        match r with
        | .ok => finish { d with ph := release d.ph p } m s!"ok {intact}"
        | _ => (d, "rej model")
  | ["copy", p] =>
    -- cache_page_copy: `memcpy (dst, src, cache_page_size (src))`; the cache itself is untouched
    match lim (parseNat p) 1000000 with
    | none => (d, "rej parse")
    | some p => match getH d.ph p with
      | none => (d, "rej handle")
      | some pid => match d.m.findPage pid with
        | some q => finish d d.m s!"ok {q.size} {q.pgno} {q.subno} {q.func} {q.x26} {q.x28} same {q.tag}"
        | none => (d, "rej model")
  | ["iscached", n, pgno, subno] =>
    match lim (parseNat n) 1000000, lim (parseNat pgno) 0xFFFF, lim (parseNat subno) 0xFFFF with
    | some n, some pgno, some subno => match getH d.nh n with
      | none => (d, "rej handle")
      | some nid =>
        let (m, r) := Zvbi.Cache.stepCur d.m (.isCached nid pgno subno)
        match r with
        | .num v => finish d m s!"ok {v}"
        | _ => (d, "rej model")
    | _, _, _ => (d, "rej parse")
  | ["hisubno", n, pgno] =>
    match lim (parseNat n) 1000000, lim (parseNat pgno) 0xFFFF with
    | some n, some pgno => match getH d.nh n with
      | none => (d, "rej handle")
      | some nid =>
        let (m, r) := Zvbi.Cache.stepCur d.m (.hiSubno nid pgno)
        match r with
        | .num v => finish d m s!"ok {v}"
        | .rej w => (d, s!"rej {w}")
        | _ => (d, "rej model")
    | _, _ => (d, "rej parse")
  | ["foreach", n, pgno, subno, dir, stop] =>
    match lim (parseNat n) 1000000, lim (parseNat pgno) 0xFFFF, lim (parseNat subno) 0xFFFF, lim (parseNat stop) 64 with
    | some n, some pgno, some subno, some stop =>
      if dir ≠ "fwd" ∧ dir ≠ "rev" then (d, "rej parse") else
      match getH d.nh n with
      | none => (d, "rej handle")
      | some nid =>
        let (m, r) := Zvbi.Cache.stepCur d.m (.foreach nid pgno subno (dir == "rev") stop)
        match r with
        | .walk vs (some r) =>
          let v := ",".intercalate (vs.map fun v => s!"{v.pgno}.{v.subno}.{v.tag}.{if v.wrapped then 1 else 0}")
          finish d m s!"ok r={r} v={if v.isEmpty then "-" else v}"
        | .walk _ none => finish d m "ok r=hang"
        | .rej w => (d, s!"rej {w}")
        | _ => (d, "rej model")
    | _, _, _, _ => (d, "rej parse")
  | ["purge"] => let (m, _) := Zvbi.Cache.stepCur d.m .purge; finish d m "ok"
  | ["setlimit", n] =>
    match lim (parseNat n) 2147483647 with
    | none => (d, "rej parse")
    | some n => let (m, _) := Zvbi.Cache.stepCur d.m (.setLimit n); finish d m "ok"
  | ["delete"] =>
    -- vbi_cache_delete: purge, then the cache itself is freed; what stays allocated is leaked
    let (m, _) := Zvbi.Cache.stepCur d.m .purge
    ({ d with m := m, deleted := true }, s!"ok leaked pages={m.pages.length} nets={m.nets.length}")
  | w :: _ =>
    if ["sizes", "dump", "addnet", "netref", "netunref", "chsw", "statreset", "ptype", "put", "get", "ref", "unref",
        "iscached", "hisubno", "foreach", "purge", "setlimit", "delete", "copy"].contains w then (d, "rej parse")
    else (d, "rej op")
  | [] => (d, "rej op")

def main : IO Unit := runLoop ({} : DState) step
end Zvbi.Driver.Cache
