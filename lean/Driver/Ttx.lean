import Driver.Util
import ZvbiModel.Ttx.Model
/-!
# Driver for component `ttx` (Teletext packet decoder, packet.c), line protocol of harness/ttx_harness.c

ops:  handler <0|1> | pkt <42B> | pktd <42B> | gap | cached | page <pgno> <subno> | asm <mag0>
      | stat | mag <mag8> | net | charsets | sizes | reset
`pkt` = one sliced Teletext line through `vbi_decode`; `pktd` = frame tick, then `vbi_decode_teletext`
called directly so that its return value can be compared too.
-/
namespace Zvbi.Driver.Ttx
open Zvbi.Driver Zvbi.Ttx

def hexN (n : Nat) : String := String.ofList (Nat.toDigits 16 n)

def showInt (i : Int) : String := toString i

def showLink (l : Link) : String := s!"{l.function},{l.pgno},{l.subno}"

def showTrip (t : Triplet) : List Nat := [t.address, t.mode, t.data]

def showExt (e : Ext) : String :=
  s!"{e.designations},{e.charset0},{e.charset1},{e.defScreen},{e.defRow},{e.fgClut},{e.bgClut},{e.blackBg},{e.leftCols},{e.rightCols}," ++
  toHex e.drcsClut ++ "," ++ ",".intercalate (e.colorMap.map hexN)

def lopLike (fn : Int) : Bool := fn == FN_UNKNOWN || fn == FN_LOP

def showPage (p : Page) : String :=
  let head := s!"fn={p.function} pgno={hexN p.pgno} subno={hexN p.subno} nat={p.national} flags={hexN p.flags} lp={hexN p.lopPackets} x26={hexN p.x26} x27={hexN p.x27} x28={hexN p.x28}"
  let raw := if lopLike p.function || p.function == FN_EACEM then
      " h8=" ++ toHex ((p.raw.getD 0 []).take 8) ++ " raw=" ++
        ".".intercalate (((p.raw.getD 0 []).drop 8 :: p.raw.drop 1).map toHex)
    else ""
  let lk := if lopLike p.function then
      " link=" ++ ";".intercalate (p.link.map showLink) ++ s!" flof={p.haveFlof}"
    else ""
  let enh := if lopLike p.function && (p.x26 != 0 || p.x28 &&& 0x13 != 0) then
      " enh=" ++ toHex (p.enh.flatMap showTrip)
    else ""
  let ext := if lopLike p.function && p.x28 &&& 0x13 != 0 then " ext=" ++ showExt p.ext else ""
  head ++ raw ++ lk ++ enh ++ ext

def showEvent : Event → Option String
  | .ttxPage pgno subno roll hu clock pn rh =>
    let c := match clock with | some true => "1" | some false => "0" | none => "-"
    let h := match rh with | some h => toHex (h.drop 8) | none => "-"
    some s!"ev:page:{hexN pgno}.{hexN subno}:{if roll then 1 else 0}{if hu then 1 else 0}{if roll then c else "-"}:{pn}:{h}"
  | .chsw => none            -- not observable from outside (no event is sent)
  | .aux _ => none           -- cache look-ups and model-side safety flags (C01): nothing to print in C
  | .put _ => none

def asmInfo (s : St) (p : Packet) : String :=
  let cur := match s.current with | some m => toString m | none => "-"
  match a16 p 0 with
  | none => s!"cur={cur} mag=-"
  | some pmag =>
    let rp := s.rp (pmag &&& 7)
    s!"cur={cur} mag={pmag &&& 7} fn={rp.page.function} lp={hexN rp.page.lopPackets} rlp={hexN rp.lopPackets} nt={rp.numTriplets} cd={s.chswcd}"

def insertSorted (x : Page) : List Page → List Page
  | [] => [x]
  | y :: ys => if x.pgno ≤ y.pgno then x :: y :: ys else y :: insertSorted x ys

/-- stable sort by pgno (chain order kept within one pgno) -/
def sortPages (l : List Page) : List Page := l.foldr insertSorted []

def step (s : St) (ws : List String) : St × String :=
  match ws with
  | "note" :: _ => (s, "ok")     -- annotations of the check (sender knowledge), no effect
  | ["reset"] => (init, "ok")
  | ["handler", n] =>
    match parseNat n with
    | some n => (s.enable (n != 0), "ok")
    | none => (s, "rej parse")
  | [op, h] =>
    if op == "pkt" || op == "pktd" then
      match parseHex h with
      | some p =>
        if p.length != 42 then (s, "rej parse") else
        let (s1, e0) := frameTick s
        let r := decodeTeletext s1 p
        let evs := (e0 ++ r.ev).filterMap showEvent
        let rs := if op == "pktd" then s!" r={if r.ret then 1 else 0}" else ""
        (r.st, "ok" ++ rs ++ " " ++ asmInfo r.st p ++ (if evs.isEmpty then "" else " " ++ " ".intercalate evs))
      | none => (s, "rej parse")
    else if op == "asm" then
      match parseNat h with
      | some m =>
        if m ≥ 8 then (s, "rej parse") else
        let rp := s.rp m
        (s, "ok " ++ showPage rp.page ++ s!" rlp={hexN rp.lopPackets} nt={rp.numTriplets} lopraw=" ++
              ".".intercalate (rp.lopRaw.map toHex))
      | none => (s, "rej parse")
    else if op == "mag" then
      match parseNat h with
      | some m =>
        if m < 1 || m > 8 then (s, "rej parse") else
        let mg := s.net.mag m
        (s, "ok ext=" ++ showExt mg.ext ++ " poplut=" ++ toHex (mg.popLut.map intToU8) ++ " drcslut=" ++
              toHex (mg.drcsLut.map intToU8) ++ " poplink=" ++
              ";".intercalate (mg.popLink.map fun l => s!"{l.pgno},{l.blackBg},{l.left},{l.right},{l.type0},{l.addr0},{l.type1},{l.addr1}") ++
              " drcslink=" ++ ",".intercalate (mg.drcsLink.map showInt))
      | none => (s, "rej parse")
    else (s, "rej op")
  | ["gap"] => (gap s, "ok")
  | ["cached"] =>
    (s, "ok" ++ String.join ((sortPages s.net.cache).map fun p => s!" {hexN p.pgno}.{hexN p.subno}:{p.function}"))
  | ["page", a, b] =>
    match parseNat a, parseNat b with
    | some pgno, some subno =>
      (match s.net.cache.find? (fun q => q.pgno == pgno && q.subno == subno) with
       | some q => (s, "ok " ++ showPage q)
       | none => (s, "ok none"))
    | _, _ => (s, "rej parse")
  | ["stat"] =>
    let items := (List.range 0x800).filterMap fun i =>
      let ps := s.net.stat.getD i PageStat.init
      if ps == PageStat.init then none
      else some s!" {hexN (i + 0x100)}:{hexN ps.pageType}:{hexN ps.charset}:{hexN ps.subcode}"
    (s, "ok" ++ String.join items)
  | ["net"] =>
    (s, s!"ok mask={if s.mask then 1 else 0} cd={s.chswcd} hdrpgno={hexN s.hdrPgno} header={toHex s.header} cur=" ++
        (match s.current with | some m => toString m | none => "-") ++
        s!" initial={showLink s.net.initialPage} top={if s.net.haveTop then 1 else 0} btt=" ++
        ";".intercalate (s.net.bttLink.map showLink))
  | ["charsets"] => (s, "ok " ++ String.ofList ((List.range 88).map fun n => if validCharset n then '1' else '0'))
  | ["sizes"] => (s, s!"ok enh={ENH_SIZE} poppointer={POP_POINTER_SIZE} poptriplet={POP_TRIPLET_SIZE} ait={AIT_TITLES} btt={BTT_LINKS} link={LINKS} pages={0x800} mags=8 rawpages=8")
  | _ => (s, "rej op")

def main : IO Unit := runLoop init step
end Zvbi.Driver.Ttx
