import Driver.Util
import ZvbiModel.Hamm.Model
import ZvbiModel.Codec.Model
import ZvbiModel.Codec.Spec
namespace Zvbi.Driver.Codec
open Zvbi.Driver Zvbi.Hamm Zvbi.Codec

def showPid0 (p : Pid) : String :=
  s!"pid {p.channel} {p.cniType} {p.cni} {p.pil} {p.luf} {p.mi} {p.prf} {p.pcsAudio} {p.pty}"

/-- same rendering as the harness: a refusal that changed the buffer is made visible -/
def showPid (p : Pid) : String := "ok " ++ showPid0 p

def optBuf (orig : Buf) : Bool × Buf → String
  | (true, b) => s!"ok {toHex b}"
  | (false, b) => if b == orig then "ok false" else "ok false-but-modified"

def hexN (s : String) (n : Nat) : Option (List Nat) :=
  match parseHex s with
  | some b => if b.length == n then some b else none
  | none => none

def mkPid (cni pil pcs pty : Nat) : Pid := { cni := cni, pil := pil, pcsAudio := pcs, pty := pty }

/-- ops of this component: a known op with the wrong number of arguments is `rej parse` -/
def knownOps : List String :=
  ["rev8", "rev16", "ham8", "unham8", "par8", "unpar8", "unham16p", "unham24p", "ham24p", "unpar",
   "vps_dec_cni", "vps_dec_pdc", "dvb_dec", "vps_enc_cni", "vps_enc_pdc", "dvb_enc", "vps_rt_cni", "vps_rt_pdc",
   "dvb_rt", "vps_reenc", "p8301_cni", "p8301_time", "p8302_cni", "p8302_pdc"]

def step (_ : Unit) (ws : List String) : Unit × String :=
  let r : String :=
    match ws with
    | ["rev8", c] => match parseNat c with
      | some c => s!"ok {rev8 c}" | none => "rej parse"
    | ["rev16", c] => match parseNat c with
      | some c => s!"ok {rev16 (c % 65536)}" | none => "rej parse"
    | ["ham8", c] => match parseNat c with
      | some c => s!"ok {ham8 c}" | none => "rej parse"
    | ["unham8", c] => match parseNat c with
      | some c => s!"ok {optNat (unham8 c)}" | none => "rej parse"
    | ["par8", c] => match parseNat c with
      | some c => s!"ok {par8 c}" | none => "rej parse"
    | ["unpar8", c] => match parseNat c with
      | some c => s!"ok {optNat (unpar8 (c % 256))}" | none => "rej parse"
    | ["unham16p", h] => match parseHex h with
      | some [a, b] => s!"ok {optNat (unham16p a b)}" | _ => "rej parse"
    | ["unham24p", h] => match parseHex h with
      | some [a, b, c] => s!"ok {optNat (unham24p a b c)}" | _ => "rej parse"
    | ["ham24p", c] => match parseNat c with
      | some c => let (a, b, d) := ham24p c; s!"ok {toHex [a, b, d]}" | none => "rej parse"
    | ["unpar", h] => match parseHex h with
      | some bs => let (ok, out) := unpar bs; s!"ok {if ok then "good" else "neg"} {toHex out}"
      | none => "rej parse"
    | ["vps_dec_cni", h] => match hexN h 13 with
      | some b => s!"ok {decodeVpsCni b}" | none => "rej parse"
    | ["vps_dec_pdc", h] => match hexN h 13 with
      | some b => showPid (decodeVpsPdc b) | none => "rej parse"
    | ["dvb_dec", h] => match hexN h 5 with
      | some b => (match decodeDvbPdc b with | some p => showPid p | none => "ok false")
      | none => "rej parse"
    | ["vps_enc_cni", h, c] => match hexN h 13, parseNat c with
      | some b, some c => optBuf b (encodeVpsCni b (c % 4294967296)) | _, _ => "rej parse"
    | ["vps_enc_pdc", h, c, pil, pcs, pty] =>
      match hexN h 13, parseNat c, parseNat pil, parseNat pcs, parseNat pty with
      | some b, some c, some pil, some pcs, some pty =>
        optBuf b (encodeVpsPdc b (mkPid (c % 4294967296) (pil % 4294967296) (pcs % 4294967296) (pty % 4294967296)))
      | _, _, _, _, _ => "rej parse"
    | ["dvb_enc", h, pil] => match hexN h 5, parseNat pil with
      | some b, some pil => optBuf b (encodeDvbPdc b (mkPid 0 (pil % 4294967296) 0 0)) | _, _ => "rej parse"
    -- round trips in one op: encode, then decode the buffer the encoder produced
    | ["vps_rt_cni", h, c] => match hexN h 13, parseNat c with
      | some b, some c =>
        (match encodeVpsCni b (c % 4294967296) with
         | (true, b') => s!"ok {toHex b'} {decodeVpsCni b'}"
         | r => optBuf b r)
      | _, _ => "rej parse"
    | ["vps_rt_pdc", h, c, pil, pcs, pty] =>
      match hexN h 13, parseNat c, parseNat pil, parseNat pcs, parseNat pty with
      | some b, some c, some pil, some pcs, some pty =>
        (match encodeVpsPdc b (mkPid (c % 4294967296) (pil % 4294967296) (pcs % 4294967296) (pty % 4294967296)) with
         | (true, b') => s!"ok {toHex b'} {showPid0 (decodeVpsPdc b')}"
         | r => optBuf b r)
      | _, _, _, _, _ => "rej parse"
    | ["dvb_rt", h, pil] => match hexN h 5, parseNat pil with
      | some b, some pil =>
        (match encodeDvbPdc b (mkPid 0 (pil % 4294967296) 0 0) with
         | (true, b') => (match decodeDvbPdc b' with
            | some p => s!"ok {toHex b'} {showPid0 p}"
            | none => optBuf b (false, b'))
         | r => optBuf b r)
      | _, _ => "rej parse"
    | ["vps_reenc", h, t] => match hexN h 13, hexN t 13 with
      | some b, some t => optBuf t (encodeVpsPdc t (decodeVpsPdc b))
      | _, _ => "rej parse"
    | ["p8301_cni", h] => match hexN h 42 with
      | some b => s!"ok {decode8301Cni b}" | none => "rej parse"
    | ["p8301_time", h] => match hexN h 42 with
      | some b => (match decode8301LocalTime b with
        | some (t, o) => s!"ok {t} {o}" | none => "ok false")
      | none => "rej parse"
    | ["p8302_cni", h] => match hexN h 42 with
      | some b => (match decode8302Cni b with | some c => s!"ok {c}" | none => "ok false")
      | none => "rej parse"
    | ["p8302_pdc", h] => match hexN h 42 with
      | some b => (match decode8302Pdc b with | some p => showPid p | none => "ok false")
      | none => "rej parse"
    -- spec encoders (model side only; used by the generator to obtain transmitted packets)
    | ["spec_enc8301", fill, cni, mjd, hh, mm, ss, lto, neg] =>
      match hexN fill 42, parseNat cni, parseNat mjd, parseNat hh, parseNat mm, parseNat ss, parseNat lto, parseNat neg with
      | some f, some cni, some mjd, some hh, some mm, some ss, some lto, some neg =>
        s!"ok {toHex (Spec.enc8301 (fun i => f.getD i 0) cni mjd hh mm ss lto (neg != 0))}"
      | _, _, _, _, _, _, _, _ => "rej parse"
    | ["spec_enc8302", fill, lci, luf, prf, pcs, mi, cni, pil, pty] =>
      match hexN fill 42, parseNat lci, parseNat luf, parseNat prf, parseNat pcs, parseNat mi, parseNat cni, parseNat pil, parseNat pty with
      | some f, some lci, some luf, some prf, some pcs, some mi, some cni, some pil, some pty =>
        s!"ok {toHex (Spec.enc8302 (fun i => f.getD i 0) ⟨lci, luf, prf, pcs, mi, cni, pil, pty⟩)}"
      | _, _, _, _, _, _, _, _, _ => "rej parse"
    | w :: _ => if knownOps.contains w then "rej parse" else "rej op"
    | [] => "rej op"
  ((), r)

def main : IO Unit := runLoop () step
end Zvbi.Driver.Codec
