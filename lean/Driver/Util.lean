/-!
# Line-protocol helpers shared by all model drivers (DESIGN.md Appendix A)
One op per input line, exactly one output line per op.  Blank lines and lines
starting with `#` produce no output.  `case <n>` is echoed (it delimits cases
for the check driver) and resets the component state.
-/
namespace Zvbi.Driver

def hexDigit (c : Char) : Option Nat :=
  if '0' ≤ c ∧ c ≤ '9' then some (c.toNat - '0'.toNat)
  else if 'a' ≤ c ∧ c ≤ 'f' then some (c.toNat - 'a'.toNat + 10)
  else if 'A' ≤ c ∧ c ≤ 'F' then some (c.toNat - 'A'.toNat + 10)
  else none

/-- "0a1b" -> [10, 27]; `none` on odd length or non-hex; "-" is the empty string -/
def parseHex (s : String) : Option (List Nat) :=
  if s == "-" then some [] else
  let rec go : List Char → List Nat → Option (List Nat)
    | [], acc => some acc.reverse
    | [_], _ => none
    | a :: b :: rest, acc =>
      match hexDigit a, hexDigit b with
      | some x, some y => go rest ((x * 16 + y) :: acc)
      | _, _ => none
  go s.toList []

def hexNibble (n : Nat) : Char :=
  if n < 10 then Char.ofNat ('0'.toNat + n) else Char.ofNat ('a'.toNat + n - 10)

def toHex (bs : List Nat) : String :=
  if bs.isEmpty then "-" else
  String.ofList (bs.foldr (fun b acc => hexNibble ((b / 16) % 16) :: hexNibble (b % 16) :: acc) [])

/-- decimal, or hex with `0x` prefix; optional leading `-` handled by `parseInt` -/
def parseNat (s : String) : Option Nat :=
  if s.startsWith "0x" then
    let ds := (s.drop 2).toString.toList
    if ds.isEmpty then none else
    ds.foldl (fun acc c => match acc, hexDigit c with
      | some a, some d => some (a * 16 + d)
      | _, _ => none) (some 0)
  else s.toNat?

def parseInt (s : String) : Option Int :=
  if s.startsWith "-" then (parseNat (s.drop 1).toString).map (fun n => - (n : Int))
  else (parseNat s).map (fun n => (n : Int))

def words (line : String) : List String :=
  (line.trimAscii.toString.splitOn " ").filter (· ≠ "")

/-- generic read-eval-print loop over a component state -/
partial def runLoop {σ : Type} (init : σ) (step : σ → List String → σ × String) : IO Unit := do
  let stdin ← IO.getStdin
  let stdout ← IO.getStdout
  let rec loop (s : σ) : IO Unit := do
    let line ← stdin.getLine
    if line.isEmpty then
      stdout.flush
      return ()
    let ws := words line
    match ws with
    | [] => loop s
    | w :: rest =>
      if w.startsWith "#" then loop s
      else if w == "case" then
        stdout.putStrLn (" ".intercalate (w :: rest))
        loop init
      else
        let (s', out) := step s ws
        stdout.putStrLn out
        loop s'
  loop init

def optNat : Option Nat → String
  | some n => toString n
  | none => "neg"

end Zvbi.Driver
