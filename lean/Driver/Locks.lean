import Std.Data.HashMap
import Std.Data.HashSet
import Driver.Util
import ZvbiModel.Locks.Model
import ZvbiModel.Locks.Instance
/-!
# model driver for C20 (`zvbi_model locks`)

The correspondence here is translator based: the table in `Generated/Locks.lean` is regenerated
from the current source on every run.  This driver exposes that table to the check:

* `accept <fn> <tok>...`  - is the runtime trace of one call of `<fn>` observed on the real code
  (`L<mutex>` lock, `U<mutex>` unlock, `C` callback entered, `W<field>` the bytes of that shared
  field changed since the previous token) a path of the extracted graph of `<fn>`?
  prints `ok <fn> <tok>...` when it is, `rej notpath <fn> <index> <tok>` otherwise;
* `report`  - the discipline checks evaluated on the table, with names (bad pairs, bad callouts);
* `stats <fn>`  - size of the graph.
-/
namespace Zvbi.Driver.Locks
open Zvbi.Locks Zvbi.Locks.Instance Zvbi.Generated.Locks

def idxOf (l : List String) (s : String) : Option Nat :=
  let rec go : List String → Nat → Option Nat
    | [], _ => none
    | x :: r, i => if x == s then some i else go r (i + 1)
  go l 0

def cfgByName (n : String) : Option Cfg :=
  match idxOf fnNames n with
  | none => none
  | some i => allFns.find? fun c => c.fn == i

structure Succ where
  out : Array (List (Action × Nat))

def mkSucc (c : Cfg) : Std.HashMap Nat (List (Action × Nat)) :=
  c.edges.foldl (fun m e => m.insert e.src ((e.act, e.dst) :: (m.getD e.src []))) {}

def isFree : Action → Bool
  | .tau => true
  | .acc _ _ _ => true
  | _ => false

/-- closure under unobservable edges; also the fields written on the way -/
partial def closure (succ : Std.HashMap Nat (List (Action × Nat))) (start : List Nat) :
    Std.HashSet Nat × Std.HashSet Nat :=
  let rec go (todo : List Nat) (seen : Std.HashSet Nat) (wr : Std.HashSet Nat) : Std.HashSet Nat × Std.HashSet Nat :=
    match todo with
    | [] => (seen, wr)
    | n :: rest =>
      let (todo', seen', wr') := (succ.getD n []).foldl (fun (acc : List Nat × Std.HashSet Nat × Std.HashSet Nat) (e : Action × Nat) =>
        let (td, sn, w) := acc
        if isFree e.1 then
          let w := match e.1 with
            | .acc x true _ => w.insert x
            | _ => w
          if sn.contains e.2 then (td, sn, w) else (e.2 :: td, sn.insert e.2, w)
        else (td, sn, w)) (rest, seen, wr)
      go todo' seen' wr'
  go start (Std.HashSet.ofList start) {}

def stepOn (succ : Std.HashMap Nat (List (Action × Nat))) (S : Std.HashSet Nat) (p : Action → Bool) : List Nat :=
  S.fold (fun acc n => (succ.getD n []).foldl (fun acc e => if p e.1 then e.2 :: acc else acc) acc) []

/-- successor maps of all graphs, built once -/
def succTable : Std.HashMap Nat (Std.HashMap Nat (List (Action × Nat))) :=
  allFns.foldl (fun m c => m.insert c.fn (mkSucc c)) {}

def accept (c : Cfg) (toks : List String) : Option (Nat × String) :=
  let succ := succTable.getD c.fn {}
  let rec go (S : Std.HashSet Nat) (W : Std.HashSet Nat) (ts : List String) (k : Nat) : Option (Nat × String) :=
    match ts with
    | [] => if S.contains c.exit then none else some (k, "<end>")
    | t :: rest =>
      let kind := t.take 1 |>.toString
      let name := t.drop 1 |>.toString
      if kind == "W" then
        match idxOf varNames name with
        | some x => if W.contains x then go S W rest (k + 1) else some (k, t)
        | none => some (k, t)
      else
        let pred : Option (Action → Bool) :=
          if kind == "C" then some (fun a => match a with | .callout _ _ => true | _ => false)
          else match idxOf mutexNames name with
            | none => none
            | some m =>
              if kind == "L" then some (fun a => a == .lock m || a == .tryOk m)
              else if kind == "U" then some (fun a => a == .unlock m)
              else if kind == "F" then some (fun a => a == .tryFail m)
              else none
        match pred with
        | none => some (k, t)
        | some p =>
          let nxt := stepOn succ S p
          if nxt.isEmpty then some (k, t) else
          let (S', W') := closure succ nxt
          go S' W' rest (k + 1)
  let (S0, W0) := closure succ [c.entry]
  go S0 W0 toks 0

def siteName (s : Site) : String :=
  ">".intercalate ((chainOf s).map fun i => fnNames.getD i "?")

def heldName (h : List Mutex) : String :=
  if h.isEmpty then "-" else "+".intercalate (h.map fun m => mutexNames.getD m "?")

def accName : Action × List Mutex → String
  | (.acc x w s, h) => s!"{if w then "W" else "R"}:{varNames.getD x "?"}@{siteName s}[{heldName h}]"
  | (.callout s re, h) => s!"callout@{siteName s}[{heldName h}]{if re then "" else "!"}"
  | _ => "?"

def dedup (l : List String) : List String :=
  l.foldl (fun acc x => if acc.contains x then acc else acc ++ [x]) []

def report : String :=
  let bp := dedup (allBadPairs.map fun (p, q) => s!"{accName p}~{accName q}")
  let bpKnown := allBadPairs.all fun (p, q) => knownRace (siteOf p.1) (siteOf q.1)
  let bc := dedup (allBadCallouts.map fun (s, h) => s!"{siteName s}[{heldName h}]")
  let bcKnown := allBadCallouts.all fun p => knownCallout p.1
  let un := dedup (allUnexpanded.map fun (s, h) => s!"{siteName s}[{heldName h}]")
  s!"ok annok={rolesAnnOK} drf_modulo_known={tableDRF knownRace roles} drf_strict={tableDRF noKnown roles} " ++
  s!"order={tableOrdered rank roles} badpairs={bp.length} badpairs_known={bpKnown} badcallouts={bc.length} " ++
  s!"badcallouts_known={bcKnown} unexpanded={un.length}" ++
  " | " ++ " ".intercalate (bp.map ("pair " ++ ·)) ++ " | " ++ " ".intercalate (bc.map ("callout " ++ ·))

def step (_ : Unit) (ws : List String) : Unit × String :=
  match ws with
  | ["report"] => ((), report)
  | ["stats", fn] =>
    match cfgByName fn with
    | some c => ((), s!"ok {fn} edges={c.edges.length} annok={c.annOK} held={c.held.length}")
    | none => ((), "rej unknown-fn")
  | "accept" :: fn :: toks =>
    match cfgByName fn with
    | none => ((), "rej unknown-fn")
    | some c =>
      match accept c toks with
      | none => ((), " ".intercalate ("ok" :: fn :: toks))
      | some (k, t) => ((), s!"rej notpath {fn} {k} {t}")
  | ["accept"] => ((), "rej parse")
  | _ => ((), "rej op")

def main : IO Unit := runLoop () step

end Zvbi.Driver.Locks
