import Driver.Util
import ZvbiModel.Slicer.Model
import ZvbiModel.Slicer.BufModel
/-!
# Model driver for component `slicer` (C05) - same line protocol as harness/slicer_harness.c
-/
namespace Zvbi.Driver.Slicer
open Zvbi.Driver Zvbi.Slicer Zvbi.Generated.ServiceTable

def u32max : Nat := 0xFFFFFFFF
def padBytes : Nat := 65536

def nums (ws : List String) : Option (List Nat) := ws.mapM parseNat

/-- all-digit suffix of 1..6 digits -/
def sigNum (s : String) : Option Nat :=
  let cs := s.toList
  if cs.length ≥ 1 ∧ cs.length ≤ 6 ∧ cs.all Char.isDigit then s.toNat? else none

/-- is this a signal description the harness can synthesise? -/
def sigOk (sig : String) : Bool :=
  if sig == "noise" || sig == "blank" then true
  else if sig.startsWith "sat" then (sigNum (sig.drop 3).toString).isSome
  else if sig.startsWith "sq" then (sigNum (sig.drop 2).toString).isSome
  else if sig.startsWith "r" then
    match sigNum (sig.drop 1).toString with
    | some i => decide (i < serviceTable.length)
    | none => false
  else false

def parseOutcome (s : String) : Option Outcome :=
  if s == "n" then some .noCri
  else if s.startsWith "f" then (parseNat (s.drop 1).toString).map .frcFail
  else if s.startsWith "o" then (parseNat (s.drop 1).toString).map .found
  else none

def showOutcome : Outcome → String
  | .noCri => "n"
  | .frcFail k => s!"f{k}"
  | .found k => s!"o{k}"

def showRej : Rej → String
  | .assert => "rej assert" | .rate => "rej rate" | .div0 => "rej div0" | .fmt => "rej fmt"
  | .small => "rej small" | .lookahead => "rej lookahead"

def dummyFmt : Fmt := ⟨1, 0, 1, false⟩

/-- fmt rate offset spl criBits criRate criEnd frcBits payloadBits payloadRate modulation -/
def mkParams : List Nat → Option (Params × Bool)
  | [fmt, rate, offset, spl, criBits, criRate, criEnd, frcBits, payloadBits, payloadRate, modulation] =>
    if rate > u32max ∨ offset > u32max ∨ spl > u32max ∨ criBits > u32max ∨ criRate > u32max ∨ criEnd > u32max
       ∨ frcBits > u32max ∨ payloadBits > u32max ∨ payloadRate > u32max ∨ modulation > 3 ∨ fmt > 1000 then none
    else
      let (f, known) := match fmtOfCode fmt with
        | some f => (f, true)
        | none => (dummyFmt, false)
      some ({ fmt := f, rate := rate, offset := offset, spl := spl, criBits := criBits, criRate := criRate,
              criEnd := criEnd, frcBits := frcBits, payloadBits := payloadBits, payloadRate := payloadRate,
              biphase := decide (modulation ≥ 2), msb := decide (modulation % 2 = 1) }, known)
  | _ => none

def showNeed (need line : Nat) : String :=
  if need > line + padBytes then "inf" else toString need

def cfgWrapped (c : Cfg) : Bool :=
  decide (c.criSamples > 200000) ||
  (c.kind == .lowpass && (c.criSamples == 0 || (c.payload == 0 && decide (c.endian ≤ 1))))

/-- the harness refuses to execute `(int)` of a double that does not fit (undefined behaviour) -/
def phaseRange (p : Params) : Bool :=
  decide (p.criRate > 0 ∧ p.payloadRate > 0 ∧
    (128 * p.rate) / p.criRate + (128 * p.rate) / p.payloadRate + 130 ≥ 0x7FFFFFFF)

/-- `setParams` with the harness' pre-checks in the harness' order -/
def configure (p : Params) (known : Bool) : Except String Cfg :=
  match setParams slicerTight p known with
  | .error .assert => .error "rej assert"
  | .error .div0 => .error "rej div0"
  | r =>
    if phaseRange p then .error "rej range" else
    match r with
    | .error e => .error (showRej e)
    | .ok c => .ok c

def opParams (args : List String) : String :=
  match nums args with
  | none => "rej parse"
  | some ns =>
    match mkParams ns with
    | none => "rej parse"
    | some (p, known) =>
      match configure p known with
      | .error r => r
      | .ok c =>
        let k := match c.kind with | .core => "core" | .lowpass => "lp"
        s!"ok {k} {c.bpp} {c.skip} {c.criSamples} {c.phaseShift} {c.step} {c.frcBits} {c.payload} {c.endian}"

/-- fmt rate offset spl cri mask criBits criRate criEnd frc frcBits payloadBits payloadRate modulation sig shift trunc seed claim [asan] -/
def opSlice (args : List String) : String :=
  match args with
  | fmt :: rate :: offset :: spl :: cri :: mask :: criBits :: criRate :: criEnd :: frc :: frcBits :: payloadBits
      :: payloadRate :: modulation :: sig :: shift :: trunc :: seed :: claim :: rest =>
    if rest.length > 1 then "rej parse" else
    match nums [fmt, rate, offset, spl, criBits, criRate, criEnd, frcBits, payloadBits, payloadRate, modulation],
          nums [cri, mask, frc], parseInt shift, parseInt trunc, parseInt seed with
    | some ns, some [cri, mask, frc], some _, some _, some _ =>
      if cri > u32max ∨ mask > u32max ∨ frc > u32max then "rej parse" else
      match mkParams ns with
      | none => "rej parse"
      | some (p, known) =>
        match configure p known with
        | .error r => r
        | .ok c =>
          if !sigOk sig then "rej parse" else
          let line := p.spl * c.bpp
          if cfgWrapped c then s!"ok wrapped need=inf line={line} wr=0 ret=0" else
          match parseOutcome claim with
          | none => "ok bad-claim"
          | some oc =>
            let adm : Bool := match oc with
              | .noCri => true
              | .frcFail k => decide (k < c.criSamples)
              | .found k => decide (k < c.criSamples)
            if !adm then "ok bad-claim" else
            let nd := need (sliceReads c oc)
            let (wr, ret) := match oc with
              | .found _ => (bytesWritten c, 1)
              | _ => (0, 0)
            s!"ok {showOutcome oc} need={showNeed nd line} line={line} wr={wr} ret={ret}"
    | _, _, _, _, _ => "rej parse"
  | _ => "rej parse"

/-- the public entry points with caller-sized arrays:
    <14 set_params fields> sig shift trunc seed which(s|p) bufferSize maxPoints claim ticks [asan]
    `claim` = outcome of the search, `ticks` = number of CRI points the real code stored (both observed by the
    harness: the image is not modelled); the model checks the tick count against the number of `CRI()` invocations
    (and the room in the array, for the bounded version) and predicts refusal, bytes stored, `*n_points` and points stored -/
def opBSlice (args : List String) : String :=
  match args with
  | fmt :: rate :: offset :: spl :: cri :: mask :: criBits :: criRate :: criEnd :: frc :: frcBits :: payloadBits
      :: payloadRate :: modulation :: sig :: shift :: trunc :: seed :: which :: bufsize :: maxpoints :: claim :: ticks :: rest =>
    if rest != [] && rest != ["asan"] then "rej parse" else
    match nums [fmt, rate, offset, spl, criBits, criRate, criEnd, frcBits, payloadBits, payloadRate, modulation],
          nums [cri, mask, frc], parseInt shift, parseInt trunc, parseInt seed, nums [bufsize, maxpoints] with
    | some ns, some [cri, mask, frc], some _, some _, some _, some [bufsize, maxpoints] =>
      if cri > u32max ∨ mask > u32max ∨ frc > u32max ∨ bufsize > 100000 ∨ maxpoints > 1000000
         ∨ (which != "s" && which != "p") then "rej parse" else
      match mkParams ns with
      | none => "rej parse"
      | some (p, known) =>
        match configure p known with
        | .error r => r
        | .ok c =>
          if !sigOk sig then "rej parse" else
          if cfgWrapped c then "ok wrapped" else
          match parseOutcome claim, parseNat ticks with
          | some oc, some t =>
            let adm : Bool := match oc with
              | .noCri => true
              | .frcFail k => decide (k < c.criSamples)
              | .found k => decide (k < c.criSamples)
            if !adm then "ok bad-claim" else
            let withPoints := which == "p"
            let tail := s!"buf={bufsize}"
            let zero (r : String) := s!"ok {showOutcome oc} ref={r} ret=0 wr=0 {tail} ticks=0 np=0 pw=0 mp={maxpoints}"
            let g := repoGuard withPoints
            if guardRefuses g c bufsize then zero "b" else
            let r := slice g c bufsize oc
            let ret := if r.ret then 1 else 0
            let wr := need r.writes
            if !withPoints then
              s!"ok {showOutcome oc} ref=0 ret={ret} wr={wr} {tail} ticks=0 np=0 pw=0 mp={maxpoints}"
            else
              let total := p.criBits + p.frcBits + p.payloadBits
              let collects := c.kind == .lowpass || p.fmt == fmtY8
              let bounded := repoPointsBounded c
              -- at most one point per `CRI()` invocation executed; bounded: at most the room beside the data bits
              let inv := match oc with
                | .noCri => oversampling c * c.criSamples
                | .frcFail k => oversampling c * (k + 1)
                | .found k => oversampling c * (k + 1)
              if total > maxpoints then zero "p" else
              if t > inv ∨ (!collects ∧ t ≠ 0) ∨ (bounded ∧ t > maxpoints - c.nBits) then "ok bad-claim" else
              let pr := slicePoints bounded c total maxpoints collects oc (List.replicate t true)
              let tk := if collects then t else 0
              s!"ok {showOutcome oc} ref=0 ret={ret} wr={wr} {tail} ticks={tk} np={pr.nPoints} pw={need pr.writes} mp={maxpoints}"
          | _, _ => "ok bad-claim"
    | _, _, _, _, _, _ => "rej parse"
  | _ => "rej parse"

/-- fmt rawSamples rate criRate bitRate criFrc criMask criBits frcBits payload modulation -/
def mkLParams : List Nat → Option (Except String LParams)
  | [fmt, rawSamples, rate, criRate, bitRate, criFrc, criMask, criBits, frcBits, payload, modulation] =>
    if rawSamples > 0x7FFFFFFF ∨ rate > 0x7FFFFFFF ∨ criRate > 0x7FFFFFFF ∨ bitRate > 0x7FFFFFFF ∨ criFrc > u32max
       ∨ criMask > u32max ∨ payload > 0x7FFFFFFF ∨ modulation > 3 ∨ fmt > 1000 ∨ criBits > 0x7FFFFFFF ∨ frcBits > 0x7FFFFFFF then none
    else if criBits > 32 ∨ frcBits > 31 ∨ payload > 32767 then some (.error "rej assert")
    else if criRate = 0 ∨ bitRate = 0 then some (.error "rej div0")
    else if (128 * rate) / criRate + (128 * rate) / bitRate + 130 ≥ 0x7FFFFFFF ∨ (256 * rate) / bitRate ≥ 0x7FFFFFFF
            ∨ (rate * (payload + frcBits)) / bitRate ≥ 0x7FFFFFFF then some (.error "rej range")
    else match lfmtOfCode fmt with
      | none => some (.error "rej fmt")
      | some f => some (.ok { fmt := f, rawSamples := rawSamples, rate := rate, criRate := criRate, bitRate := bitRate,
                              frcBits := frcBits, payloadBits := payload, biphase := decide (modulation ≥ 2),
                              msb := decide (modulation % 2 = 1) })
  | _ => none

def opLParams (args : List String) : String :=
  match nums args with
  | none => "rej parse"
  | some ns =>
    match mkLParams ns with
    | none => "rej parse"
    | some (.error e) => e
    | some (.ok p) =>
      let c := legacyInit legacyTight p
      s!"ok {c.criBytes} {c.phaseShift} {c.step} {c.frcBits} {c.payload} {c.endian} {c.fmt.skip}"

def opLSlice (args : List String) : String :=
  match args with
  | a0 :: a1 :: a2 :: a3 :: a4 :: a5 :: a6 :: a7 :: a8 :: a9 :: a10 :: sig :: shift :: trunc :: seed :: claim :: rest =>
    if rest.length > 1 then "rej parse" else
    match nums [a0, a1, a2, a3, a4, a5, a6, a7, a8, a9, a10], parseInt shift, parseInt trunc, parseInt seed with
    | some ns, some _, some _, some _ =>
      match mkLParams ns with
      | none => "rej parse"
      | some (.error e) => e
      | some (.ok p) =>
        if p.rawSamples > 32767 then "rej assert" else
        let c := legacyInit legacyTight p
        let bpp := (pixfmtBpp (ns.headD 0)).getD 1
        let line := p.rawSamples * bpp
        if !sigOk sig then "rej parse" else
        if c.criBytes < 0 ∨ c.criBytes > 200000 then s!"ok wrapped need=inf line={line} wr=0 ret=0" else
        match parseOutcome claim with
        | none => "ok bad-claim"
        | some oc =>
          let adm : Bool := match oc with
            | .noCri => true
            | .frcFail k => decide (k < c.iterations)
            | .found k => decide (k < c.iterations)
          if !adm then "ok bad-claim" else
          let nd := need (lsliceReads c oc)
          let wr := match oc with
            | .found _ => if c.endian ≥ 2 then c.payload / 8 + 1 else c.payload
            | _ => 0
          let ret := match oc with | .found _ => 1 | _ => 0
          s!"ok {showOutcome oc} need={showNeed nd line} line={line} wr={wr} ret={ret}"
    | _, _, _, _ => "rej parse"
  | _ => "rej parse"

/-- `_vbi_sampling_par_valid_log` (0.2 branch) -/
def samplingValid (scanning fmt bpl start0 count0 start1 count1 : Nat) (interlaced : Bool) : Bool :=
  let rangeOk (start count lo hi : Nat) : Bool := decide (start ≥ lo ∧ start + count ≤ hi)
  let fmtOk : Bool :=
    match fmtName fmt with
    | some "YUV420" => true
    | _ => match pixfmtBpp fmt with
      | some b => b != 0 && bpl % b == 0
      | none => false
  fmtOk && bpl != 0 && !(count0 == 0 && count1 == 0) &&
  (if scanning == 525 then
      (start0 == 0 || rangeOk start0 count0 1 262) && (start1 == 0 || rangeOk start1 count1 263 525)
   else if scanning == 625 then
      (start0 == 0 || rangeOk start0 count0 1 311) && (start1 == 0 || rangeOk start1 count1 312 625)
   else false) &&
  !(interlaced && (count0 != count1 || count0 == 0))

/-- scanning fmt rate bpl start0 count0 start1 count1 interlaced services strict maxLines mask sig shift seed claimHits claimOver -/
-- `claimHits` = 0: the rows carrying the signal do not decode at this horizontal position (observed by the generator's first pass)
def opDecode (args : List String) : String :=
  match args with
  | [scanning, fmt, rate, bpl, start0, count0, start1, count1, interlaced, services, strict, maxLines, mask, sig, shift, seed, hits, over] =>
    match nums [scanning, fmt, rate, bpl, start0, count0, start1, count1, interlaced, services, maxLines, mask, hits],
          parseInt strict, parseInt shift, parseInt seed, parseInt over with
    | some [scanning, fmt, rate, bpl, start0, count0, start1, count1, interlaced, _services, maxLines, mask, hits], some _, some _, some _, some over =>
      if bpl < 1 ∨ bpl > 16384 ∨ count0 + count1 < 1 ∨ count0 + count1 > 60 ∨ maxLines > 100 ∨ rate < 1 ∨ rate > 0x7FFFFFFF
         ∨ (fmtOfCode fmt).isNone ∨ start0 > 1000 ∨ start1 > 1000 then "rej parse"
      else if !samplingValid scanning fmt bpl start0 count0 start1 count1 (interlaced != 0) then "rej sampling"
      else if !(sig == "noise" || sigOk sig) then "rej parse"
      else
        let sp : Sp := { count0 := count0, count1 := count1, bpl := bpl, interlaced := interlaced != 0 }
        if sig == "noise" then s!"ok le=1 over={over}" else
        let hit : Nat → Bool := fun i => hits != 0 && (mask >>> (lineOffset sp i / bpl)) % 2 == 1
        let st := decode sp maxLines hit
        let lineOf (i : Nat) : Nat :=
          if i ≥ count0 then (if start1 != 0 then start1 + i - count0 else 0)
          else (if start0 != 0 then start0 + i else 0)
        let recs := (st.visited.filter (fun v => hit v.1)).map (fun v => toString (lineOf v.1))
        let ls := if st.n == 0 then "-" else ",".intercalate recs
        s!"ok n={st.n} lines={ls} over={over}"
    | _, _, _, _, _ => "rej parse"
  | _ => "rej parse"

def opLayout : String :=
  let fs := pixfmts.map (fun t => s!"{t.2.1}:{t.2.2}")
  s!"ok {slicedDataSize} {slicedSize} {maxWays} {maxJobs} {serviceTable.length} " ++ " ".intercalate fs

def opTable (args : List String) : String :=
  match args with
  | [i] => match parseNat i with
    | none => "rej parse"
    | some i => match serviceTable[i]? with
      | none => "ok end"
      | some r => s!"ok {r.id} {r.videostd} {r.first0} {r.first1} {r.last0} {r.last1} {r.offsetNs} {r.criRate} {r.bitRate} {r.criFrc} {r.criFrcMask} {r.criBits} {r.frcBits} {r.payload} {r.modulation} {r.flags}"
  | _ => "rej parse"

def step (_ : Unit) (ws : List String) : Unit × String :=
  let r : String :=
    match ws with
    | "params" :: args => opParams args
    | "slice" :: args => opSlice args
    | "bslice" :: args => opBSlice args
    | "lparams" :: args => opLParams args
    | "lslice" :: args => opLSlice args
    | "decode" :: args => opDecode args
    | ["layout"] => opLayout
    | "table" :: args => opTable args
    | _ => "rej op"
  ((), r)

def main : IO Unit := runLoop () step

end Zvbi.Driver.Slicer
