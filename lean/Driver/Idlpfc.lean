import Driver.Util
import Driver.Idl
import Driver.Pfc
/-! Combined C15 driver: first token `idl` / `pfc` selects the sub-component
    (`lib/verif.py run_check` drives one component per run). -/
namespace Zvbi.Driver.Idlpfc
open Zvbi.Driver

abbrev S := Option Zvbi.Idl.StF × Option Zvbi.Pfc.St

def step (st : S) (ws : List String) : S × String :=
  match ws with
  | "idl" :: rest => let (s, o) := Idl.step st.1 rest; ((s, st.2), o)
  | "pfc" :: rest => let (s, o) := Pfc.step st.2 rest; ((st.1, s), o)
  | _ => (st, "rej op")

def main : IO Unit := runLoop (none, none) step
end Zvbi.Driver.Idlpfc
