import Driver.Util
import ZvbiModel.Net.Model
import ZvbiModel.Net.XdsStr
/-!
# Line-protocol driver of the `net` model (C13)

```
mask <m>                               register the (single) handler with event mask m (0 = unregister)
frame <t_us> [v:<13B>|t:<42B>|w:<2B>|j:<3B>|n:<bytes>|c:<bytes>|p:<pgno>]*    one vbi_decode call
vps <13B> <t_us> | p830 <42B> <t_us> | wss <2B> <t_us>                 = frame with one line
xdsname <bytes> <t_us> | xdscall <bytes> <t_us> | page <pgno> <t_us>   = frame with one line
cpr <3B> <t_us>                                                        = frame with one WSS-CPR1204 (525-line) word
chsw | cached <pgno> | state
note <words>                           scenario annotation read by the oracle (no effect, `ok`)
lookup <1|2|3> <cni>                   station_lookup (1 = VPS, 2 = 8/30-1, 3 = 8/30-2)
tbl <i>                                row i of vbi_cni_table
strfu <dst bytes> <src bytes>          xds_strfu on a raw destination array: `ok <neq != 0> <dst after>`, `rej oob` = would overrun
layout                                 sizeof name / call / XDS buffer, fields and padding of vbi_program_id
```
-/
namespace Zvbi.Driver.Net
open Zvbi.Driver Zvbi.Net Zvbi.Codec

def showNet (tag : String) (n : Network) : String :=
  s!"{tag}:{n.nuid}:{toHex n.name}:{toHex n.call}:{n.cniVps}:{n.cni8301}:{n.cni8302}:{n.cycle}"

def showAspect (a : Aspect) : String := s!"{a.first}:{a.last}:{a.ratio}:{a.film}:{a.subt}"

def showPid (p : Pid) : String :=
  s!"{p.channel}:{p.cniType}:{p.cni}:{p.pil}:{p.luf}:{p.mi}:{p.prf}:{p.pcsAudio}:{p.pty}"

def showEv : Ev → String
  | .network n => showNet "net" n
  | .networkId n => showNet "nid" n
  | .progId p => "pid:" ++ showPid p
  | .localTime t e => s!"lt:{t}:{e}"
  | .aspect a => "asp:" ++ showAspect a
  | .progInfo a => "pi:" ++ showAspect a

def showOut : Out → String
  | .evs l => " ".intercalate ("ok" :: l.map showEv)
  | .bool b => if b then "ok 1" else "ok 0"
  | .rej w => "rej " ++ w
  | .dump s =>
    s!"ok st mask={s.mask} time={s.time} cd={s.chswcd} {showNet "net" s.net} wss={toHex [s.wssLast.1, s.wssLast.2]} " ++
    s!"rep={s.wssRep} wt={s.wssTime} asp={showAspect s.aspect} src={s.aspectSource} pid={showPid s.vpsPid}" ++
    -- vbi->cni_cycle[] / vbi->cni_announced[] exist in the source only in the per-carrier shape (F11 repaired)
    (if cfg0.perCarrier then
      s!" deb={s.deb.cycVps}:{s.deb.cyc8301}:{s.deb.cyc8302}:{s.deb.annVps}:{s.deb.ann8301}:{s.deb.ann8302}" else "")

def hexN (s : String) (n : Nat) : Option (List Nat) :=
  match parseHex s with
  | some b => if b.length == n then some b else none
  | none => none

def parseLine (tok : String) : Option Line :=
  match tok.splitOn ":" with
  | ["v", h] => (hexN h 13).map Line.vps
  | ["t", h] => (hexN h 42).map Line.ttx
  | ["w", h] => match hexN h 2 with
    | some [a, b] => some (Line.wss a b)
    | _ => none
  | ["n", h] => (parseHex h).map (Line.xds 1)
  | ["c", h] => (parseHex h).map (Line.xds 2)
  | ["p", n] => (parseNat n).map Line.page
  | ["j", h] => match hexN h 3 with
    | some (a :: _) => some (Line.cpr a)
    | _ => none
  | _ => none

def parseLines : List String → Option (List Line)
  | [] => some []
  | t :: ts => match parseLine t, parseLines ts with
    | some l, some ls => some (l :: ls)
    | _, _ => none

def parseOp (ws : List String) : Option Op :=
  match ws with
  | ["mask", m] => (parseNat m).map Op.mask
  | "frame" :: t :: toks => match parseNat t, parseLines toks with
    | some t, some ls => some (Op.frame t ls)
    | _, _ => none
  | ["vps", h, t] => match parseLine ("v:" ++ h), parseNat t with
    | some l, some t => some (Op.frame t [l]) | _, _ => none
  | ["p830", h, t] => match parseLine ("t:" ++ h), parseNat t with
    | some l, some t => some (Op.frame t [l]) | _, _ => none
  | ["wss", h, t] => match parseLine ("w:" ++ h), parseNat t with
    | some l, some t => some (Op.frame t [l]) | _, _ => none
  | ["xdsname", h, t] => match parseLine ("n:" ++ h), parseNat t with
    | some l, some t => some (Op.frame t [l]) | _, _ => none
  | ["xdscall", h, t] => match parseLine ("c:" ++ h), parseNat t with
    | some l, some t => some (Op.frame t [l]) | _, _ => none
  | ["cpr", h, t] => match parseLine ("j:" ++ h), parseNat t with
    | some l, some t => some (Op.frame t [l]) | _, _ => none
  | ["page", n, t] => match parseLine ("p:" ++ n), parseNat t with
    | some l, some t => some (Op.frame t [l]) | _, _ => none
  | ["chsw"] => some Op.chsw
  | ["cached", n] => (parseNat n).map Op.cached
  | ["state"] => some Op.state
  | "note" :: _ => some Op.note
  | _ => none

def knownOps : List String :=
  ["mask", "frame", "vps", "p830", "wss", "cpr", "xdsname", "xdscall", "page", "chsw", "cached", "state", "note", "lookup", "tbl",
   "strfu", "layout"]

def step (s : State) (ws : List String) : State × String :=
  match ws with
  | ["lookup", ty, cni] =>
    match parseNat ty, parseNat cni with
    | some ty, some cni =>
      if cni > 0xFFFF then (s, "rej parse") else
      let c : Option Carrier := if ty = 1 then some .vps else if ty = 2 then some .p8301 else if ty = 3 then some .p8302 else none
      (match c with
       | some c => let r := stationLookup c cni; (s, s!"ok {r.1} {toHex (if r.1 = 0 then [] else r.2)}")
       | none => (s, "rej parse"))
    | _, _ => (s, "rej parse")
  | ["tbl", i] =>
    match parseNat i with
    | some i => (match Zvbi.Gen.cniTable[i]? with
      | some e => (s, s!"ok {e.id} {toHex e.name} {e.cni1} {e.cni2} {e.cni3} {e.cni4}")
      | none => (s, "ok end"))
    | none => (s, "rej parse")
  | ["strfu", d, src] =>
    match parseHex d, parseHex src with
    | some d, some src =>
      (match strfu d src with
       | some (d', neq) => (s, s!"ok {if neq != 0 then 1 else 0} {toHex d'}")
       | none => (s, "rej oob"))
    | _, _ => (s, "rej parse")
  | ["layout"] => (s, layoutLine)
  | w :: _ =>
    if !knownOps.contains w then (s, "rej op") else
    match parseOp ws with
    | none => (s, "rej parse")
    | some op => let (s', o) := Zvbi.Net.step s op; (s', showOut o)
  | [] => (s, "rej op")

def main : IO Unit := runLoop Zvbi.Net.init step

end Zvbi.Driver.Net
