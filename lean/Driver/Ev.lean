import Driver.Util
import ZvbiModel.Ev.Model
import ZvbiModel.Evl.Model
import ZvbiModel.Ev.Enable
/-!
# Driver for component `ev` (C11): line protocol over `ZvbiModel.Ev.Model`

```
script <fn> <user> <call;call;...|->   append a script to handler (fn,user); invocation k runs script k mod n
reg <fn> <user> <mask> | reg! ...      vbi_event_handler_register (`!` = calloc fails)
unreg <fn> <user>                      vbi_event_handler_unregister
add <fn> <user> <mask> | add! ...      vbi_event_handler_add
remove <fn>                            vbi_event_handler_remove
send <type>                            vbi_send_event
ttx <pgno>                             one Teletext page through vbi_decode_teletext, then vbi_is_cached
consts                                 event bits (cross-check of translate/gen_ev.py)
enab <old> <new>                       vbi_event_enable (vbi, new) with vbi->event_mask = old on a decoder full of sentinels (7 = untouched)
```
Second list (src/event.c, sub-component `evl`), same conventions, calls in scripts `add:f:u:m`,
`add!:f:u:m`, `rm:f:u`, `rmrec:id`, `rmev:m`, `send:t`:
```
lscript <fn> <user> <call;...|->
ladd <fn> <user> <mask> | ladd! ... | lrm <fn> <user> | lrmrec <id> | lrmev <mask> | lsend <type>
```
Output: `ok <entries> | <id:fn:user:mask:remove>* | em=<event_mask> rc=<ref_count>`.
Output: `ok <entries> | <chain> | em=<event_mask> cur=<next_handler> lk=<mutex held>`.
Inside one delivery only the first `scriptCap` invocations run their script (the C handlers of
the harness do the same), so every generated delivery ends.
-/
namespace Zvbi.Driver.Ev
open Zvbi.Driver Zvbi.Ev Zvbi.Gen.Ev

def nFn : Nat := 6
def scriptCap : Nat := 48
def maxScriptLen : Nat := 8
def maxScripts : Nat := 256
def loopFuel : Nat := 100000

structure DState where
  s : State := {}
  table : List ((Nat × Nat) × List (List Call)) := []
  nScripts : Nat := 0
  l : Evl.State := {}
  ltable : List ((Nat × Nat) × List (List Evl.Call)) := []

def lim32 (n : Nat) : Option Nat := if n < 4294967296 then some n else none
def p32 (w : String) : Option Nat := (parseNat w).bind lim32
def pFn (w : String) : Option Nat := (parseNat w).bind (fun n => if n < nFn then some n else none)

def parseCallWords : List String → Option Call
  | ["reg", f, u, m] => do some { kind := .reg, fn := ← pFn f, user := ← p32 u, mask := ← p32 m }
  | ["reg!", f, u, m] => do some { kind := .reg, fn := ← pFn f, user := ← p32 u, mask := ← p32 m, oom := true }
  | ["unreg", f, u] => do some { kind := .reg, fn := ← pFn f, user := ← p32 u, mask := 0 }
  | ["add", f, u, m] => do some { kind := .add, fn := ← pFn f, user := ← p32 u, mask := ← p32 m }
  | ["add!", f, u, m] => do some { kind := .add, fn := ← pFn f, user := ← p32 u, mask := ← p32 m, oom := true }
  | ["remove", f] => do some { kind := .add, fn := ← pFn f, user := 0, mask := 0 }
  | _ => none

def parseScript (w : String) : Option (List Call) :=
  if w == "-" then some [] else
  let parts := w.splitOn ";"
  if parts.length > maxScriptLen then none else
  parts.mapM (fun p => parseCallWords (p.splitOn ":"))

def isCall : Entry → Bool
  | .call .. => true
  | _ => false

def isCallOf (fn user : Nat) : Entry → Bool
  | .call _ f u _ => f == fn && u == user
  | _ => false

/-- the behaviour the script table denotes; `base` = trace length when the delivery started -/
def behOf (table : List ((Nat × Nat) × List (List Call))) (base : Nat) : Behav :=
  fun tr fn user _ev =>
    if ((tr.drop base).countP isCall) ≥ scriptCap then [] else
    match table.lookup (fn, user) with
    | none => []
    | some scripts =>
      if scripts.isEmpty then [] else
      scripts.getD ((tr.countP (isCallOf fn user)) % scripts.length) []

def showEntry : Entry → String
  | .call id fn user ev => s!"call:{id}:{fn}:{user}:{ev}"
  | .free id => s!"free:{id}"
  | .alloc id fn user mask => s!"alloc:{id}:{fn}:{user}:{mask}"
  | .enable mask flags => s!"en:{mask}:{flags}"
  | .oom => "oom"

def showState (base : Nat) (s : State) : String :=
  let es := (s.trace.drop base).map showEntry
  let ch := s.handlers.map (fun r => s!"{r.id}:{r.fn}:{r.user}:{r.mask}")
  let cur := match s.cursor with | some c => toString c | none => "-"
  " ".intercalate (["ok"] ++ es ++ ["|"] ++ ch ++ ["|", s!"em={s.eventMask}", s!"cur={cur}",
    s!"lk={if s.locked then 1 else 0}"])

def showErr : Err → String
  | .deadDeref id => s!"rej deadderef {id}"
  | .deadlock => "rej deadlock"
  | .fuel => "rej fuel"

def validPgno (p : Nat) : Bool :=
  0x100 ≤ p && p ≤ 0x899 && (p / 16) % 16 ≤ 9 && p % 16 ≤ 9

/-! ## second list (event.c) -/

def parseLCall : List String → Option Evl.Call
  | ["add", f, u, m] => do some (.add (← pFn f) (← p32 u) (← p32 m) false)
  | ["add!", f, u, m] => do some (.add (← pFn f) (← p32 u) (← p32 m) true)
  | ["rm", f, u] => do some (.add (← pFn f) (← p32 u) 0 false)
  | ["rmrec", i] => do some (.removeRec (← p32 i))
  | ["rmev", m] => do some (.removeByEvent (← p32 m))
  | ["send", e] => do some (.send (← p32 e))
  | _ => none

def parseLScript (w : String) : Option (List Evl.Call) :=
  if w == "-" then some [] else
  let parts := w.splitOn ";"
  if parts.length > maxScriptLen then none else
  parts.mapM (fun p => parseLCall (p.splitOn ":"))

def lIsCall : Evl.Entry → Bool
  | .call .. => true
  | _ => false

def lIsCallOf (fn user : Nat) : Evl.Entry → Bool
  | .call _ _ f u _ => f == fn && u == user
  | _ => false

def lBehOf (table : List ((Nat × Nat) × List (List Evl.Call))) (base : Nat) : Evl.Behav :=
  fun tr fn user _ev =>
    if ((tr.drop base).countP lIsCall) ≥ scriptCap then [] else
    match table.lookup (fn, user) with
    | none => []
    | some scripts =>
      if scripts.isEmpty then [] else
      scripts.getD ((tr.countP (lIsCallOf fn user)) % scripts.length) []

def showLEntry : Evl.Entry → Option String
  | .call d id fn user ev => some s!"call:{d}:{id}:{fn}:{user}:{ev}"
  | .unreg id => some s!"unreg:{id}"
  | .free id => some s!"free:{id}"
  | .alloc id fn user mask => some s!"alloc:{id}:{fn}:{user}:{mask}"
  | .api _ => some "a"
  | .begin d ev => some s!"s:{d}:{ev}"
  | .done d => some s!"r:{d}"
  | .oom => some "oom"

def showLState (base : Nat) (s : Evl.State) : String :=
  let es := (s.trace.drop base).filterMap showLEntry
  let ch := s.list.map (fun r => s!"{r.id}:{r.fn}:{r.user}:{r.mask}:{if r.remove then 1 else 0}")
  " ".intercalate (["ok"] ++ es ++ ["|"] ++ ch ++ ["|", s!"em={s.eventMask}", s!"rc={s.refCount}"])

def lstep (d : DState) (ws : List String) : Option (DState × String) :=
  let base := d.l.trace.length
  let top : Option Evl.Call :=
    match ws with
    | ["ladd", f, u, m] => parseLCall ["add", f, u, m]
    | ["ladd!", f, u, m] => parseLCall ["add!", f, u, m]
    | ["lrm", f, u] => parseLCall ["rm", f, u]
    | ["lrmrec", i] => parseLCall ["rmrec", i]
    | ["lrmev", m] => parseLCall ["rmev", m]
    | ["lsend", e] => parseLCall ["send", e]
    | _ => none
  match ws with
  | ["lscript", f, u, sc] =>
    match pFn f, p32 u, parseLScript sc with
    | some f, some u, some sc =>
      if d.nScripts ≥ maxScripts then some (d, "rej full") else
      let old := (d.ltable.lookup (f, u)).getD []
      let table := ((f, u), old ++ [sc]) :: d.ltable.filter (fun e => e.1 != (f, u))
      some ({ d with ltable := table, nScripts := d.nScripts + 1 }, "ok")
    | _, _, _ => some (d, "rej parse")
  | w :: _ =>
    if !["lscript", "ladd", "ladd!", "lrm", "lrmrec", "lrmev", "lsend"].contains w then none else
    match top with
    | none => some (d, "rej parse")
    | some c =>
      match Evl.exec readdRevives (lBehOf d.ltable base) loopFuel d.l c with
      | .ok l' => some ({ d with l := l' }, showLState base l')
      | .error (.deadDeref id) => some (d, s!"rej deadderef {id}")
      | .error .fuel => some (d, "rej fuel")
  | [] => none

def step (d : DState) (ws : List String) : DState × String :=
  match lstep d ws with
  | some r => r
  | none =>
  let base := d.s.trace.length
  let opNames := ["script", "reg", "reg!", "unreg", "add", "add!", "remove", "send", "ttx", "consts", "enab"]
  match ws with
  | ["enab", o, n] =>
    match p32 o, p32 n with
    | some o, some n =>
      let (e, em) := Enable.enable Enable.planted o n
      (d, s!"ok em={em} ttx={e .ttx} cc={e .caption} net={e .network} cyc={e .cniCycle} ann={e .cniAnnounced} trg={e .triggers} pi0={e .progInfo0} pi1={e .progInfo1} fut0={e .future0} fut1={e .future1} asp={e .aspectSource} pid={e .vpsPid} rest={e .rest}")
    | _, _ => (d, "rej parse")
  | ["consts"] =>
    (d, s!"ok close={VBI_EVENT_CLOSE} ttx={VBI_EVENT_TTX_PAGE} caption={VBI_EVENT_CAPTION} network={VBI_EVENT_NETWORK} trigger={VBI_EVENT_TRIGGER} aspect={VBI_EVENT_ASPECT} proginfo={VBI_EVENT_PROG_INFO} netid={VBI_EVENT_NETWORK_ID} localtime={VBI_EVENT_LOCAL_TIME} progid={VBI_EVENT_PROG_ID}")
  | ["script", f, u, sc] =>
    match pFn f, p32 u, parseScript sc with
    | some f, some u, some sc =>
      if d.nScripts ≥ maxScripts then (d, "rej full") else
      let old := (d.table.lookup (f, u)).getD []
      let table := ((f, u), old ++ [sc]) :: d.table.filter (fun e => e.1 != (f, u))
      ({ d with table := table, nScripts := d.nScripts + 1 }, "ok")
    | _, _, _ => (d, "rej parse")
  | ["send", e] =>
    match p32 e with
    | some e =>
      (match send (behOf d.table base) loopFuel e d.s with
       | .ok s' => ({ d with s := s' }, showState base s')
       | .error er => (d, showErr er))
    | none => (d, "rej parse")
  | ["ttx", p] =>
    match parseNat p with
    | some p =>
      if !validPgno p then (d, "rej parse") else
      (match ttxPage (behOf d.table base) loopFuel p d.s with
       | .ok s' => ({ d with s := s' }, showState base s' ++ s!" acq={if s'.cached.contains p then 1 else 0}")
       | .error er => (d, showErr er))
    | none => (d, "rej parse")
  | w :: _ =>
    match parseCallWords ws with
    | some c => let s' := apiCall c d.s; ({ d with s := s' }, showState base s')
    | none => (d, if opNames.contains w then "rej parse" else "rej op")
  | [] => (d, "rej op")

def main : IO Unit := runLoop ({} : DState) step
end Zvbi.Driver.Ev
