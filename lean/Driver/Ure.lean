import Driver.Util
import ZvbiModel.Ure.Exec
import ZvbiModel.Ure.Dfa
import ZvbiModel.Ure.Current
import ZvbiModel.Ure.CurrentExec
/-! Driver of the `ure` model (C17); same line protocol as harness/ure_harness.c -/
namespace Zvbi.Driver.Ure
open Zvbi.Driver Zvbi.Ure

structure St where
  bufError : Int := 0
  dfa : Option Dfa := none

def init : St := {}

def hexStr (n : Nat) : String :=
  if n = 0 then "0" else
  let rec go : Nat → Nat → List Char → List Char
    | 0, _, acc => acc
    | f + 1, n, acc => if n = 0 then acc else go f (n / 16) (hexNibble (n % 16) :: acc)
  String.ofList (go 32 n [])

/-- 4 hex digits per character -/
def parseUcs2 (s : String) : Option (List Nat) :=
  match parseHex s with
  | none => none
  | some bs =>
    let rec go : List Nat → List Nat → Option (List Nat)
      | [], acc => some acc.reverse
      | [_], _ => none
      | a :: b :: rest, acc => go rest ((a * 256 + b) :: acc)
    go bs []

def symStr : Sym → String
  | .any => "any"
  | .bol => "bol"
  | .eol => "eol"
  | .chr c => "c" ++ hexStr c
  | .ccl neg props ranges =>
    (if neg then "N" else "C") ++ hexStr props ++ "[" ++
      ",".intercalate (ranges.map (fun r => hexStr r.1 ++ "-" ++ hexStr r.2)) ++ "]"

def stateStr (q : DState) : String :=
  (if q.accepting then "1:" else "0:") ++
  (if q.trans.isEmpty then "-" else ",".intercalate (q.trans.map (fun t => toString t.1 ++ ">" ++ toString t.2)))

def dumpStr (d : Dfa) : String :=
  let flags := (if d.casefold then 1 else 0) + (if d.blankline then 2 else 0)
  let nt := (d.states.map (·.trans.length)).foldl (· + ·) 0
  "ok dfa " ++ toString flags ++ " " ++ toString d.syms.length ++ " " ++ toString d.states.length ++ " " ++ toString nt ++
  " S" ++ String.join (d.syms.map (fun s => " " ++ symStr s)) ++
  " T" ++ String.join (d.states.map (fun q => " " ++ stateStr q))

def errStr : CErr → String
  | .oob s => "fault oob " ++ s
  | .limit s => "fault limit " ++ s
  | .fuel s => "fault fuel " ++ s

def doCompile (s : St) (cf : Bool) (pat : List Nat) : St × String :=
  match compile Shape.current CType.probed s.bufError cf pat with
  | .null e => ({ s with bufError := e }, "ok null " ++ toString e)
  | .err e => (s, errStr e)
  | .dfa d =>
    if d.wf then ({ s with dfa := some d }, dumpStr d)
    else (s, "fault notwf " ++ dumpStr d)

def step (s : St) (ws : List String) : St × String :=
  match ws with
  | [op, cf, hex] =>
    if op == "compile" || op == "lit" then
      match parseNat cf, parseUcs2 hex with
      | some c, some pat =>
        if c > 1 then (s, "rej parse")
        else if pat.isEmpty then (s, "rej empty")
        else doCompile s (c == 1) (if op == "lit" then escapeLit pat else pat)
      | _, _ => (s, "rej parse")
    else if op == "exec" then
      match parseNat cf, parseUcs2 hex with
      | some f, some text =>
        if f > 15 then (s, "rej parse") else
        match s.dfa with
        | none => (s, "rej nodfa")
        | some d =>
          match execCur CType.probed d f text with
          | .none => (s, "ok none")
          | .found ms me => (s, "ok " ++ toString ms ++ " " ++ toString me)
          | .oob site => (s, "fault oob " ++ site)
          | .hang => (s, "ok hang")
      | _, _ => (s, "rej parse")
    else (s, "rej op")
  | _ => (s, "rej op")

def main : IO Unit := runLoop init step

end Zvbi.Driver.Ure
