import Driver.Util
import ZvbiModel.Trig.Model
/-! CLI `trig`: the ops of harness/trig_harness.c through the model of src/trigger.c (`Cfg.current`). -/
namespace Zvbi.Driver.Trig
open Zvbi.Driver Zvbi.Trig

structure DSt where
  st : St := {}
  deleted : Bool := false
  /-- the model predicted a fault: the real process is gone -/
  dead : Bool := false

def hexN (n : Nat) : String := String.ofList (Nat.toDigits 16 n)

def bstr (l : List Nat) (terminated : Bool) : String :=
  if terminated then toHex l else toHex l ++ "!"

def showLink (l : Link) : String :=
  let page := if l.type = Zvbi.Gen.Trig.linkPage then hexN l.nuid ++ "." ++ hexN l.pgno ++ "." ++ hexN l.subno
              else if l.type = Zvbi.Gen.Trig.linkMessage then hexN l.pgno else "-"
  " E:" ++ hexN l.type ++ ":" ++ hexN l.eacem ++ ":" ++ bstr l.name l.terminated ++ ":" ++ bstr l.url l.terminated ++ ":" ++
  bstr l.script l.terminated ++ ":" ++ page ++ ":" ++ toString l.expires ++ ":" ++ hexN l.itvType ++ ":" ++ hexN (u32 l.priority) ++
  ":" ++ hexN l.autoload

def showState (st : St) (cnt : Bool) : String :=
  " |" ++ String.join (st.list.map (fun t => " N:" ++ bstr t.link.url t.link.terminated ++ ":" ++ toString t.fire)) ++
  " | live=" ++ toString st.live ++ (if cnt then " cnt=" ++ toString st.itv.length else "")

def showFault : Fault → String
  | .oob s => "fault oob " ++ s
  | .uaf s => "fault uaf " ++ s
  | .ovf s => "fault ovf " ++ s
  | .fuel => "fault fuel"

def finish (d : DSt) (r : R (St × List Link)) (cnt : Bool) : DSt × String :=
  match r with
  | .error f => ({ d with dead := true }, showFault f)
  | .ok (st, evs) => ({ d with st := st }, "ok" ++ String.join (evs.map showLink) ++ showState st cnt)

def step (d : DSt) (ws : List String) : DSt × String :=
  if d.dead then (d, "rej dead") else
  match ws with
  | ["extents"] =>
    let c := Cfg.current
    (d, s!"ok url={c.urlSize} name={c.nameSize} script={c.scriptSize} itv_buf={c.itvBufSize} pgtext={Zvbi.Gen.Trig.pgTextBytes}")
  | _ =>
  if d.deleted then (d, "rej deleted") else
  let cfg := Cfg.current
  match ws with
  | ["eacem", h] =>
    match parseHex h with
    | none => (d, "rej parse")
    | some b => let mem := cstr b; finish d (eacemTrigger cfg (mem.length + 1) d.st mem []) false
  | ["atvef", h] =>
    match parseHex h with
    | none => (d, "rej parse")
    | some b => finish d (atvefTrigger cfg d.st (cstr b)) false
  | ["itv", h] =>
    match parseHex h with
    | none => (d, "rej parse")
    | some b => finish d (itvFeed cfg d.st b []) true
  | ["time", v] =>
    match parseInt v with
    | some n => if 0 ≤ n ∧ n ≤ 4000000000 then finish d (.ok ({ d.st with time := n.toNat }, [])) false else (d, "rej parse")
    | none => (d, "rej parse")
  | ["tick", v] =>
    match parseInt v with
    | some n => if 0 ≤ n ∧ n ≤ 4000000000 then finish d (deferred cfg { d.st with time := n.toNat }) false else (d, "rej parse")
    | none => (d, "rej parse")
  | ["nuid", h] =>
    match parseHex h with
    | some [a, b, c, e] => ({ d with st := { d.st with nuid := ((a * 256 + b) * 256 + c) * 256 + e } }, "ok")
    | _ => (d, "rej parse")
  | ["flush"] => finish d (.ok (flush d.st, [])) false
  | ["delete"] => let st := flush d.st; ({ d with st := st, deleted := true }, "ok live=" ++ toString st.live)
  | _ => (d, "rej op")

def main : IO Unit := runLoop ({} : DSt) step
end Zvbi.Driver.Trig
