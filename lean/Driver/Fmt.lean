import Driver.Util
import ZvbiModel.Fmt.Model
import ZvbiModel.Fmt.Ext
import ZvbiModel.Fmt.Spec
/-!
Driver of component `fmt` (C02).  Ops (see harness/fmt_harness.c for the real-code side):

* `tu s n c`                          -> `ok <unicode>`             vbi_teletext_unicode
* `csd c0 c1 national`                -> `ok i0 i1`                 character_set_designation
* `fmt lvl region pgno subno flags national hex1000`  -> `ok <cells>`   the model (`Fmt.format`)
* `spec ...same...`                   -> `ok <cells>`               `L1Spec.page .lib` (libzvbi's held-mosaic reading)
* `specstd ...same...`                -> `ok <cells>`               `L1Spec.page .std` (asked by the oracle only)
* `fmtx|specx|specstdx lvl region pgno subno flags national x28 cs0 cs1 fgclut bgclut hex1000`  -> the same for a page
  with `x28_designations` and its own extension record (`Fmt.pageInX`: the selection `x28_designations & 0x11`)
* `fetchx lvl region pgno subno|any pgno subno flags national x28 cs0 cs1 fgclut bgclut hex1000 haveflof has24 l0 .. l5`
  -> as `fetch`, the expected page carrying the X/28 record the sender spec expects in the cache
* `pkt hex42`                         -> `ok`                       (the decoder is C03's model; nothing to predict here)
* `evcount pgno subno n`              -> `ok n`                     sender-spec prediction echoed: TTX_PAGE events so far for that page
* `events <list|->`                   -> `ok <list>`                sender-spec prediction echoed: all events so far, `pgno.subno=count,...` sorted
* `fetch lvl region pgno subno|any none`                                     -> `ok none`
* `fetch lvl region pgno subno|any pgno subno flags national hex1000 haveflof has24 l0 .. l5`
                                      -> `ok pgno subno <cells> <nav>`  model formatting of the page the sender spec expects
-/
namespace Zvbi.Driver.Fmt
open Zvbi.Driver Zvbi.Fmt

def hexN (n : Nat) (w : Nat) : String :=
  String.ofList ((List.range w).reverse.map (fun i => hexNibble ((n >>> (4 * i)) % 16)))

def showCell (c : Cell) : String :=
  hexN c.unicode 4 ++ hexN c.fg 2 ++ hexN c.bg 2
    ++ hexN ((if c.flash then 1 else 0) + (if c.conceal then 2 else 0)) 1 ++ hexN c.size 1 ++ hexN c.opacity 1

def showRows (rows : List (List Cell)) : String :=
  ",".intercalate ((List.range 25).map (fun r =>
    String.join ((List.range 40).map (fun c => showCell (cellAt rows r c)))))

/-- the same row context with `code`/`nxt` tabulated for columns 0..39 (extensionally equal; only saves
    re-evaluating the parity table look-ups, which the declarative spec asks for O(n^2) times per cell) -/
def memoCtx (cx : RowCtx) : RowCtx :=
  let codes := (Array.range 41).map cx.code
  let nx := (Array.range 41).map cx.nxt
  { cx with code := fun j => if h : j < codes.size then codes[j] else cx.code j,
            nxt := fun j => if h : j < nx.size then nx[j] else cx.nxt j }

/-- `L1Spec.page` evaluated with tabulated row contexts -/
def specPage (h : L1Spec.HeldRule) (p : PageIn) : List (List Cell) :=
  let cxs := (Array.range 25).map (fun r => memoCtx (rowCtx p r))
  let dh := cxs.map (fun cx => L1Spec.hasDH cx)
  let lower := (List.range 25).foldl (fun (acc : Array Bool) r =>
    acc.push (if r = 0 then false else !(acc.getD (r - 1) false) && dh.getD (r - 1) false)) #[]
  (List.range 25).map (fun r =>
    let above := cxs.getD (r - 1) (rowCtx p (r - 1))
    let here := cxs.getD r (rowCtx p r)
    (List.range 40).map (fun c => L1Spec.cellCx h (lower.getD r false) above here c))

def mkPage (region pgno subno flags national : Nat) (bytes : List Nat) : PageIn :=
  let arr := bytes.toArray
  { pgno := pgno, subno := subno, flags := flags, national := national, charset0 := region, charset1 := 0,
    fgClut := 0, bgClut := 0, raw := fun i => arr.getD i 0 }

def pageArgs (lvl region pgno subno flags national hex : String) : Option PageIn :=
  match parseNat lvl, parseNat region, parseNat pgno, parseNat subno, parseNat flags, parseNat national, parseHex hex with
  | some l, some rg, some pg, some sn, some fl, some na, some bs =>
    if (l == 1 || l == 2) && rg < 88 && 0x100 ≤ pg && pg ≤ 0x8FF && sn ≤ 0x3F7F && fl < 0x1000000 && na < 8
       && bs.length == 1000 then some (mkPage rg pg sn fl na bs) else none
  | _, _, _, _, _, _, _ => none

/-- `fmtx` arguments: the page's own extension record -/
def pageArgsX (lvl region pgno subno flags national x28 cs0 cs1 fgc bgc hex : String) : Option PageIn :=
  match pageArgs lvl region pgno subno flags national hex, parseNat x28, parseNat cs0, parseNat cs1, parseNat fgc, parseNat bgc with
  | some p, some x, some a, some b, some f, some g =>
    if x < 0x1000000 && a < 256 && b < 256 && f ≤ 32 && g ≤ 48 then
      some (pageInX p.charset0 p.pgno p.subno p.flags p.national ⟨x, a, b, f, g⟩ p.raw)
    else none
  | _, _, _, _, _, _ => none

def parseLink (s : String) : Option Link :=
  match s.splitOn ":" with
  | [a, b] => match parseNat a, parseNat b with
    | some x, some y => some ⟨x, y⟩
    | _, _ => none
  | _ => none

def showLink (l : Link) : String := s!"{hexN l.pgno 3}:{hexN l.subno 4}"

def step (_ : Unit) (ws : List String) : Unit × String :=
  let r : String :=
    match ws with
    | ["tu", s, n, c] => match parseNat s, parseNat n, parseNat c with
      | some s, some n, some c =>
        if (s == 1 || s == 3 || s == 4 || s == 5 || s == 7 || s == 9 || s == 11) && n < 14 && 0x20 ≤ c && c ≤ 0x7F
        then s!"ok {teletextUnicode s n c}" else "rej range"
      | _, _, _ => "rej parse"
    | ["csd", a, b, n] => match parseNat a, parseNat b, parseNat n with
      | some a, some b, some n =>
        if a < 256 && b < 256 && n < 8 then s!"ok {charsetDesignation a n} {charsetDesignation b n}" else "rej range"
      | _, _, _ => "rej parse"
    | ["fmt", lvl, rg, pg, sn, fl, na, hex] => match pageArgs lvl rg pg sn fl na hex with
      | some p => "ok " ++ showRows (format p)
      | none => "rej parse"
    | ["spec", lvl, rg, pg, sn, fl, na, hex] => match pageArgs lvl rg pg sn fl na hex with
      | some p => "ok " ++ showRows (specPage .lib p)
      | none => "rej parse"
    | ["specstd", lvl, rg, pg, sn, fl, na, hex] => match pageArgs lvl rg pg sn fl na hex with
      | some p => "ok " ++ showRows (specPage .std p)
      | none => "rej parse"
    | ["fmtx", lvl, rg, pg, sn, fl, na, x28, cs0, cs1, fgc, bgc, hex] =>
      match pageArgsX lvl rg pg sn fl na x28 cs0 cs1 fgc bgc hex with
      | some p => "ok " ++ showRows (format p)
      | none => "rej parse"
    | ["specx", lvl, rg, pg, sn, fl, na, x28, cs0, cs1, fgc, bgc, hex] =>
      match pageArgsX lvl rg pg sn fl na x28 cs0 cs1 fgc bgc hex with
      | some p => "ok " ++ showRows (specPage .lib p)
      | none => "rej parse"
    | ["specstdx", lvl, rg, pg, sn, fl, na, x28, cs0, cs1, fgc, bgc, hex] =>
      match pageArgsX lvl rg pg sn fl na x28 cs0 cs1 fgc bgc hex with
      | some p => "ok " ++ showRows (specPage .std p)
      | none => "rej parse"
    | ["pkt", hex] => match parseHex hex with
      | some bs => if bs.length == 42 then "ok" else "rej parse"
      | none => "rej parse"
    | ["evcount", pg, sn, n] => match parseNat pg, parseNat sn, parseNat n with
      | some _, some _, some n => s!"ok {n}"
      | _, _, _ => "rej parse"
    | ["events", ev] => s!"ok {ev}"
    | ["fetch", lvl, rg, pg, sn, "none"] =>
      match parseNat lvl, parseNat rg, parseNat pg, (if sn == "any" then some 0 else parseNat sn) with
      | some _, some _, some _, some _ => "ok none"
      | _, _, _, _ => "rej parse"
    | ["fetch", lvl, rg, pg, sn, epg, esn, fl, na, hex, hf, h24, l0, l1, l2, l3, l4, l5] =>
      match parseNat pg, (if sn == "any" then some 0 else parseNat sn), pageArgs lvl rg epg esn fl na hex,
            parseNat hf, parseNat h24, [l0, l1, l2, l3, l4, l5].mapM parseLink with
      | some _, some _, some p, some hf, some h24, some links =>
        let rows := format p
        let nav := navLinks (List.replicate 6 ⟨0, 0⟩) links (hf != 0) (h24 != 0) ⟨0x100, 0x3F7F⟩ (rows.getD 24 [])
        s!"ok {hexN p.pgno 3} {hexN p.subno 4} {showRows rows} {" ".intercalate (nav.map showLink)}"
      | _, _, _, _, _, _ => "rej parse"
    | ["fetchx", lvl, rg, pg, sn, epg, esn, fl, na, x28, cs0, cs1, fgc, bgc, hex, hf, h24, l0, l1, l2, l3, l4, l5] =>
      match parseNat pg, (if sn == "any" then some 0 else parseNat sn), pageArgsX lvl rg epg esn fl na x28 cs0 cs1 fgc bgc hex,
            parseNat hf, parseNat h24, [l0, l1, l2, l3, l4, l5].mapM parseLink with
      | some _, some _, some p, some hf, some h24, some links =>
        let rows := format p
        let nav := navLinks (List.replicate 6 ⟨0, 0⟩) links (hf != 0) (h24 != 0) ⟨0x100, 0x3F7F⟩ (rows.getD 24 [])
        s!"ok {hexN p.pgno 3} {hexN p.subno 4} {showRows rows} {" ".intercalate (nav.map showLink)}"
      | _, _, _, _, _, _ => "rej parse"
    | _ => "rej op"
  ((), r)

def main : IO Unit := runLoop () step

end Zvbi.Driver.Fmt
