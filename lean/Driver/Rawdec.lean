import Driver.Util
import ZvbiModel.Rawdec.Model
import ZvbiModel.Rawdec.SliceModel
import ZvbiModel.Rawdec.Spec
import ZvbiModel.Rawdec.FromSvc
/-!
# Model driver for component `rawdec` (C04) - same line protocol as harness/rawdec_harness.c

ops:
* `par scanning fmt rate bpl offset start0 count0 start1 count1 interlaced synchronous iface`
* `add <services> <strict>` / `remove <services>` / `reset`
* `decode <maxlines> <image hex>`  - concrete samples: the value-level slicer models run on them
* `frame <maxlines> <flags> <seed> [<id>:<row>:<payload>]*` - nominal frame: the harness renders the records
  with io-sim, the model assumes the *nominal slicer* of `Spec.nominalSlicer`
* `expect [<id>:<row>:<payload>]*` - what the sender transmitted in the next image (for the oracle)
* `slice <variant 3|2> <fmt> <rate> <spl> <row> <thresh|-> <line hex>` - one stand-alone slicer call
* `table`
-/
namespace Zvbi.Driver.Rawdec
open Zvbi.Driver Zvbi.Rawdec Zvbi.Generated.ServiceTable

structure DState where
  st : Option State := none
  iface : Nat := 3

def hex (n : Nat) : String := String.ofList (Nat.toDigits 16 n)

def parseHexNat (s : String) : Option Nat :=
  let ds := s.toList
  if ds.isEmpty ∨ ds.length > 8 then none else
  ds.foldl (fun acc c => match acc, hexDigit c with
    | some a, some d => some (a * 16 + d)
    | _, _ => none) (some 0)

def decNat (s : String) : Option Nat :=
  if s.isEmpty ∨ !s.toList.all Char.isDigit then none else s.toNat?

/-- `<id hex>:<row>:<payload hex>` -/
def parseRec (w : String) : Option (Nat × Nat × List Nat) :=
  match w.splitOn ":" with
  | [a, b, c] =>
    match parseHexNat a, decNat b, parseHex c with
    | some id, some row, some d => if b.length ≤ 6 ∧ d.length ≤ slicedDataSize then some (id, row, d) else none
    | _, _, _ => none
  | _ => none

def parseRecs (ws : List String) : Option (List (Nat × Nat × List Nat)) :=
  if ws.length > 64 then none else ws.mapM parseRec

def cfgOf (sp : SPar) (ri : Nat) : Option (Row × GreenFmt × Zvbi.Slicer.Cfg) :=
  match serviceTable[ri]?, greenFmtOfCode sp.fmt, Zvbi.Slicer.fmtOfCode sp.fmt with
  | some r, some gf, some fmt =>
    match Zvbi.Slicer.setParams slicerTight (Zvbi.Slicer.rowParams r fmt sp.rate (sp.bpl / bppOf sp.fmt)) with
    | .ok c => some (r, gf, c)
    | .error _ => none
  | _, _, _ => none

def threshInitOf (sp : SPar) (ri : Nat) : Nat :=
  match cfgOf sp ri with
  | some (_, gf, c) => threshInit gf c
  | none => 0

/-- byte offset of row `i` in the image (`raw`, `pitch`, field 2 restart of `vbi3_raw_decoder_decode`) -/
def rowOffset (sp : SPar) (i : Nat) : Nat :=
  Zvbi.Slicer.lineOffset ⟨sp.count0, sp.count1, sp.bpl, sp.interlaced⟩ i

/-- the slicer oracle for a concrete image -/
def imageSlicer (sp : SPar) (img : Array Nat) : Slicer := fun i _ job =>
  match cfgOf sp job.row with
  | none => (none, job.thresh)
  | some (r, gf, c) =>
    let bs := bsOfRow r gf c sp.rate
    runSlice c.kind bs job.thresh (greenAt gf img (rowOffset sp i))

def showPattern : Option Pattern → String
  | none => "-"
  | some rows => ".".intercalate (rows.map (fun row =>
      String.ofList (row.foldr (fun (x : Int) acc =>
        let b := (x % 256).toNat
        hexNibble (b / 16) :: hexNibble (b % 16) :: acc) [])))

def commaOr (l : List String) : String := if l.isEmpty then "-" else ",".intercalate l

def showState (s : State) (withThresh : Bool) : String :=
  s!" s={hex s.services} j={commaOr (s.jobs.map (fun j => hex j.id))}" ++
  (if withThresh then s!" th={commaOr (s.jobs.map (fun j => toString j.thresh))}" else "") ++
  s!" r={s.readjust} p={showPattern s.pattern}"

def showRecs (rs : List Rec) : String :=
  String.join (rs.map (fun r => s!" {hex r.id}:{r.line}:{toHex r.data}"))

def answer (s : State) (body : String) : String :=
  match s.err with
  | some e => s!"err {e}"
  | none => body

/-- `vbi_raw_decoder_add_services` of the 0.2 API: `set_sampling_par` (reset + re-add) first -/
def oldAdd (s : State) (services : Nat) (strict : Int) : State :=
  let ti := threshInitOf s.sp
  let sv := s.services
  let s1 := reset s
  addServices ti (addServices ti s1 sv strict) services strict

def doSlice (variant fmt rate spl ri : Nat) (th : Option Nat) (line : Array Nat) : String :=
  match serviceTable[ri]?, greenFmtOfCode fmt with
  | some r, some gf =>
    let g := greenAt gf line 0
    if variant = 3 then
      match Zvbi.Slicer.fmtOfCode fmt with
      | none => "rej parse"
      | some f =>
        match Zvbi.Slicer.setParams slicerTight (Zvbi.Slicer.rowParams r f rate spl) with
        | .error _ => "rej cfg"
        | .ok c =>
          let bs := bsOfRow r gf c rate
          let (res, th') := runSlice c.kind bs (th.getD (threshInit gf c)) g
          s!"ok {match res with | some d => toHex d | none => "fail"} {th'}"
    else
      match Zvbi.Slicer.lfmtOfCode fmt with
      | none => "rej parse"
      | some lf =>
        let lc := Zvbi.Slicer.legacyInit legacyTight
          { fmt := lf, rawSamples := spl, rate := rate, criRate := r.criRate, bitRate := r.bitRate,
            frcBits := r.frcBits, payloadBits := r.payload, biphase := decide (r.modulation ≥ 2),
            msb := decide (r.modulation % 2 = 1) }
        let bs := legacyBsOfRow r lc rate
        let (res, th') := legacySlice Zvbi.Generated.RawdecFacts.fixLegacy16 bs gf.lshift (th.getD (legacyThreshInit gf)) g
        s!"ok {match res with | some d => toHex d | none => "fail"} {th'}"
  | _, _ => "rej parse"

def lim31 : Nat := 0x7FFFFFFF

def step (d : DState) (ws : List String) : DState × String :=
  match ws with
  | ["table"] => (d, s!"ok ways={maxWays} jobs={maxJobs} sliced={slicedSize} data={slicedDataSize}")
  | "par" :: args =>
    if args.length ≠ 12 then (d, "rej parse") else
    match args.mapM (fun a => if a.startsWith "-" then none else parseNat a) with
    | some [scanning, fmt, rate, bpl, offset, s0, c0, s1, c1, il, sy, iface] =>
      if [scanning, fmt, rate, bpl, offset, s0, c0, s1, c1].any (· > lim31) ∨ (greenFmtOfCode fmt).isNone
         ∨ il > 1 ∨ sy > 1 ∨ (iface ≠ 2 ∧ iface ≠ 3) ∨ bpl > 131068 ∨ c0 > 1000 ∨ c1 > 1000 then (d, "rej parse")
      else
        let sp : SPar := { scanning, fmt, rate, bpl, offset, start0 := s0, count0 := c0, start1 := s1, count1 := c1,
                           interlaced := il = 1, synchronous := sy = 1 }
        if !sp.valid ∨ sp.bpl / bppOf sp.fmt > 32767 then ({ st := none }, "rej par")
        else ({ st := some (init sp), iface := iface }, "ok")
    | _ => (d, "rej parse")
  | ["add", a, b] =>
    match (if a.startsWith "-" then none else parseNat a), parseInt b with
    | some sv, some st =>
      if sv > 0xFFFFFFFF ∨ st < -2147483648 ∨ st > 2147483647 then (d, "rej parse") else
      match d.st with
      | none => (d, "rej nopar")
      | some s =>
        let s' := if d.iface = 3 then addServices (threshInitOf s.sp) s sv st else oldAdd s sv st
        ({ d with st := some s' }, answer s' (s!"ok {hex s'.services}" ++ showState s' false))
    | _, _ => (d, "rej parse")
  | ["remove", a] =>
    match (if a.startsWith "-" then none else parseNat a) with
    | some sv =>
      if sv > 0xFFFFFFFF then (d, "rej parse") else
      match d.st with
      | none => (d, "rej nopar")
      | some s =>
        let s' := removeServices Fixes.repo s sv
        ({ d with st := some s' }, answer s' (s!"ok {hex s'.services}" ++ showState s' false))
    | none => (d, "rej parse")
  | ["reset"] =>
    match d.st with
    | none => (d, "rej nopar")
    | some s =>
      let s' := if s.err.isSome then s else reset s
      ({ d with st := some s' }, answer s' ("ok 0" ++ showState s' false))
  | "expect" :: rest =>
    match parseRecs rest with
    | some _ => (d, "ok")
    | none => (d, "rej parse")
  | ["decode", a, b] =>
    match (if a.startsWith "-" then none else parseNat a), parseHex b with
    | some ml, some bytes =>
      if ml > 4096 then (d, "rej parse") else
      match d.st with
      | none => (d, "rej nopar")
      | some s =>
        if bytes.length ≠ s.sp.scanLines * s.sp.bpl then (d, "rej size")
        else if d.iface = 2 ∧ ml ≠ s.sp.scanLines then (d, "rej maxlines")
        else
          let (s', recs, _) := decodeFrame s ml (imageSlicer s.sp bytes.toArray)
          ({ d with st := some s' }, answer s' (s!"ok {recs.length}" ++ showRecs recs ++ " g=ok" ++ showState s' true))
    | _, _ => (d, "rej parse")
  | "frame" :: a :: b :: c :: rest =>
    match (if a.startsWith "-" then none else parseNat a), (if b.startsWith "-" then none else parseNat b),
          (if c.startsWith "-" then none else parseNat c), parseRecs rest with
    | some ml, some fl, some seed, some recs =>
      if ml > 4096 ∨ fl > 7 ∨ seed > 0xFFFFFFFF then (d, "rej parse") else
      match d.st with
      | none => (d, "rej nopar")
      | some s =>
        if d.iface = 2 ∧ ml ≠ s.sp.scanLines then (d, "rej maxlines")
        else if !renderable s.sp recs then (d, "rej render")
        else
          let (s', out, _) := decodeFrame s ml (nominalSlicer recs)
          ({ d with st := some s' }, answer s' (s!"ok {out.length}" ++ showRecs out ++ " g=ok" ++ showState s' false))
    | _, _, _, _ => (d, "rej parse")
  | ["slice", v, f, ra, sl, ro, th, ln] =>
    match [v, f, ra, sl, ro].mapM (fun a => if a.startsWith "-" then none else parseNat a),
          (if th == "-" then some none else if th.startsWith "-" then none else (parseNat th).map some), parseHex ln with
    | some [variant, fmt, rate, spl, ri], some tho, some bytes =>
      if (variant ≠ 2 ∧ variant ≠ 3) ∨ (greenFmtOfCode fmt).isNone ∨ rate < 1 ∨ rate > 1000000000 ∨ spl < 1 ∨ spl > 32767
         ∨ tho.getD 0 > 0xFFFFFFFF then (d, "rej parse")
      else
        match serviceTable[ri]? with
        | none => (d, "rej parse")
        | some r =>
          if r.criRate = 0 ∨ r.bitRate = 0 ∨ r.criBits = 0 then (d, "rej parse")
          else if bytes.length ≠ spl * bppOf fmt then (d, "rej size")
          else (d, doSlice variant fmt rate spl ri tho bytes.toArray)
    | _, _, _ => (d, "rej parse")
  | ["fromsvc", a, b] =>
    match (if a.startsWith "-" then none else parseNat a), (if b.startsWith "-" then none else parseNat b) with
    | some fam, some sv =>
      if fam > 3 ∨ sv > 0xFFFFFFFF then (d, "rej parse") else
      let (rsv, sp, mx, _) := fromServices Zvbi.Generated.RawdecFromSvc.fsEndFixed fam sv
      let b01 := fun (x : Bool) => if x then 1 else 0
      (d, s!"ok {hex rsv} sc={sp.scanning} fmt={sp.fmt} rate={sp.rate} bpl={sp.bpl} off={sp.offset} s0={sp.start0} c0={sp.count0} s1={sp.start1} c1={sp.count1} il={b01 sp.interlaced} sy={b01 sp.synchronous} max={mx}")
    | _, _ => (d, "rej parse")
  | w :: _ =>
    if ["par", "add", "remove", "reset", "expect", "decode", "frame", "render", "slice", "table", "fromsvc"].contains w
    then (d, "rej parse") else (d, "rej op")
  | [] => (d, "rej op")

def main : IO Unit := runLoop ({} : DState) step

end Zvbi.Driver.Rawdec
