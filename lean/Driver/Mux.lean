import Driver.Util
import ZvbiModel.Mux.Model
import ZvbiModel.Mux.Spec
import ZvbiModel.Mux.RawModel
import ZvbiModel.Mux.RawSpec
import ZvbiModel.Mux.CorRawModel
namespace Zvbi.Driver.Mux
open Zvbi.Driver Zvbi.Mux

def u32 (n : Nat) : Nat := n % 2 ^ 32

/-- tokens `<id> <line> <hex>` * n -/
def parseLines : Nat → List String → Option (List Sliced)
  | 0, [] => some []
  | 0, _ => none
  | n + 1, id :: line :: hex :: rest =>
    match parseNat id, parseNat line, parseHex hex, parseLines n rest with
    | some id, some line, some d, some ls =>
      if d.length > 56 then none
      else some ({ id := u32 id, line := u32 line, data := d ++ List.replicate (56 - d.length) 0 } :: ls)
    | _, _, _, _ => none
  | _, _ => none

def linesArg (n : String) (rest : List String) : Option (List Sliced) :=
  match parseNat n with
  | some n => if n > 1000 then none else parseLines n rest
  | none => none

def bool (b : Bool) : String := if b then "true" else "false"

/-- `int64_t` argument as a two's complement number -/
def ptsArg (s : String) : Option Nat :=
  (parseInt s).map fun i => (i % (2 ^ 64 : Int)).toNat

def csvNats (s : String) : Option (List Nat) :=
  let parts := s.splitOn ","
  let parts := parts.filter (· ≠ "")
  let vals := parts.filterMap parseNat
  if vals.length ≠ parts.length ∨ vals.isEmpty ∨ vals.length > 64 ∨ vals.any (· > 2 ^ 20) then none else some vals

def showLines (ls : List Zvbi.Mux.EnParse.Line) : String :=
  " ".intercalate (ls.map fun l => s!"{l.svc.code} {l.line} {toHex l.data}")

def stepMux (st : Option Mux) (rawLeft : Nat) (ws : List String) : Option Mux × String :=
  match ws with
  | ["consts"] =>
    (st, s!"ok ttx10={SL_TTX_L10} ttx25={SL_TTX_L25} ttx={SL_TTX} vps={SL_VPS} vpsf2={SL_VPS_F2} cc1={SL_CC_F1} cc={SL_CC} wss={SL_WSS} vbi625={SL_VBI625} maxpes={MAX_PES} sliced=64 data=56 du_ttx={DU_TTX} du_vps={DU_VPS} du_wss={DU_WSS} du_cc={DU_CC} du_stuff={DU_STUFF} stream={PRIVATE_STREAM_1}")
  | ["new", "pes"] => (some newPes, "ok")
  | ["new", "ts", pid] =>
    match parseNat pid with
    | some pid => (match newTs (u32 pid) with
      | some m => (some m, "ok")
      | none => (none, "ok null"))
    | none => (st, "rej parse")
  | "new" :: _ => (st, "rej parse")
  | ["stuff", a, b, c, pre] =>
    match parseNat a, parseNat b, parseNat c, parseHex pre with
    | some a, some b, some c, some pre =>
      if a > 70000 ∨ b > 100000 ∨ c > 1 then (st, "rej parse")
      else if c = 0 ∧ a = 1 ∧ b > 257 then (st, "rej pre")
      else match encodeStuffing pre a b (c == 1) with
        | .ok buf => (st, s!"ok {toHex buf}")
        | .error _ => (st, "rej pre")
    | _, _, _, _ => (st, "rej parse")
  | "stuff" :: _ => (st, "rej parse")
  | "msliced" :: a :: mask :: did :: stf :: n :: rest =>
    match parseNat a, parseNat mask, parseNat did, parseNat stf, linesArg n rest with
    | some a, some mask, some did, some stf, some lines =>
      if a > 70000 ∨ stf > 1 then (st, "rej parse")
      else match multiplexSliced a lines (u32 mask) (u32 did) (stf == 1) with
        | .ok r =>
          let buf := r.out ++ List.replicate (a - r.out.length) 0xAA
          (st, s!"ok {bool r.ok} {r.packetLeft} {r.slicedLeft} {a - r.packetLeft} {toHex buf}")
        | .error e => (st, s!"rej model:{e.name}")
    | _, _, _, _, _ => (st, "rej parse")
  | "msliced" :: _ => (st, "rej parse")
  -- oracle support (model side only): the independent EN 300 472 / EN 301 775 / ISO 13818-1 reader
  | ["enparse", "pes", hex] =>
    match parseHex hex with
    | some bs => (match EnParse.pesStream bs with
      | some pkts => (st, "ok" ++ String.join (pkts.map fun p =>
          s!" | pkt {p.pts} {p.dataId} {p.size} {p.lines.length}" ++ (if p.lines.isEmpty then "" else " " ++ showLines p.lines)))
      | none => (st, "ok malformed"))
    | none => (st, "rej parse")
  | ["enparse", "ts", pid, cc, hex] =>
    match parseNat pid, parseNat cc, parseHex hex with
    | some pid, some cc, some bs => (match EnParse.tsStream pid cc bs with
      | some (pkts, cc') => (st, s!"ok cc={cc'}" ++ String.join (pkts.map fun p =>
          s!" | pkt {p.pts} {p.dataId} {p.size} {p.lines.length}" ++ (if p.lines.isEmpty then "" else " " ++ showLines p.lines)))
      | none => (st, "ok malformed"))
    | _, _, _ => (st, "rej parse")
  | op :: args =>
    if op ∈ ["dataid", "size", "feed", "cor", "corall", "reset", "state"] then
      match st with
      | none => (st, "rej nomux")
      | some m =>
        match op, args with
        | "dataid", [d] => (match parseNat d with
          | some d => let (m, ok) := setDataIdentifier m (u32 d); (some m, s!"ok {bool ok}")
          | none => (st, "rej parse"))
        | "size", [a, b] => (match parseNat a, parseNat b with
          | some a, some b =>
            let m := setPesPacketSize m (u32 a) (u32 b)
            (some m, s!"ok {m.cfg.minSize} {m.cfg.maxSize}")
          | _, _ => (st, "rej parse"))
        | "state", [] =>
          (st, s!"ok dataid={m.cfg.dataId} min={m.cfg.minSize} max={m.cfg.maxSize} pid={m.cfg.pid} cc={m.cc &&& 15} pending={if m.corOffset < m.corEnd then m.corEnd - m.corOffset else 0} rawleft={rawLeft}")
        | "reset", [] => (some (reset m), "ok")
        | "feed", pts :: mask :: failAt :: n :: rest =>
          (match ptsArg pts, parseNat mask, parseNat failAt, linesArg n rest with
          | some pts, some mask, some failAt, some lines =>
            let (m, o) := feed m lines (u32 mask) pts failAt
            let sizes := if o.calls.isEmpty then "-" else
              ",".intercalate (o.calls.map fun c => match c with | some b => toString b.length | none => "0")
            (some m, s!"ok {bool o.ok} {o.calls.length} {sizes} {toHex o.bytes}")
          | _, _, _, _ => (st, "rej parse"))
        | "cor", pts :: mask :: bs :: n :: rest =>
          (match ptsArg pts, parseNat mask, csvNats bs, linesArg n rest with
          | some pts, some mask, some [b], some lines =>
            let (m, r) := cor m b lines (u32 mask) pts
            (some m, s!"ok {bool r.ok} 1 {r.slicedLeft} {r.slicedIdx} {toHex r.out}")
          | _, _, _, _ => (st, "rej parse"))
        | "corall", pts :: mask :: bs :: n :: rest =>
          (match ptsArg pts, parseNat mask, csvNats bs, linesArg n rest with
          | some pts, some mask, some sizes, some lines =>
            let (m, ok, calls, sl, idx, out) := corAll sizes lines (u32 mask) pts 200000 m 0 []
            (some m, s!"ok {bool ok} {calls} {sl} {idx} {toHex out}")
          | _, _, _, _ => (st, "rej parse"))
        | _, _ => (st, "rej parse")
    else (st, "rej op")
  | [] => (st, "rej op")

/-- the raw VBI frame the harness builds: byte `k` = `(seed + 7 k) & 255` -/
def rawFrame (seed n : Nat) : Bytes := (List.range n).map fun k => (seed + 7 * k) % 256

def showItems (ls : List Zvbi.Mux.RawSpec.Out) : String :=
  " ".intercalate (ls.map fun
    | .line l => s!"L {l.svc.code} {l.line} {toHex l.data}"
    | .raw r => s!"R {r.line} {r.pos} {toHex r.px}")

/-- `feedraw` / `feedraw2` argument lists after the op name -/
def feedRaw (rm : RMux) (pts mask off spl s0 c0 s1 c1 seed : String) (il rnull : Nat) (n : String) (rest : List String) :
    Option RMux × String :=
  match ptsArg pts, parseNat mask, parseNat off, parseNat spl, parseNat s0, parseNat c0, parseNat s1, parseNat c1,
        parseNat seed, linesArg n rest with
  | some pts, some mask, some off, some spl, some s0, some c0, some s1, some c1, some seed, some lines =>
    if spl > 4096 ∨ c0 > 64 ∨ c1 > 64 ∨ off > 1000000 ∨ s0 > 1000000 ∨ s1 > 1000000 ∨ il > 1 ∨ rnull > 1 then
      (some rm, "rej parse")
    else
      let sp : Sp := { offset := off, spl, start0 := s0, count0 := c0, start1 := s1, count1 := c1, interlaced := il == 1 }
      let raw := if rnull = 1 then none else some (rawFrame seed ((c0 + c1) * spl))
      let (rm', o) := feedR Zvbi.Gen.muxKeepsLastDuSize rm lines (u32 mask) raw (some sp) pts
      match o.abort with
      | some e => (some rm', s!"rej model:{e.name}")
      | none =>
        let sizes := if o.calls.isEmpty then "-" else
          ",".intercalate (o.calls.map fun c => match c with | some b => toString b.length | none => "0")
        (some rm', s!"ok {bool o.ok} {o.calls.length} {sizes} {toHex o.bytes}")
  | _, _, _, _, _, _, _, _, _, _ => (some rm, "rej parse")

/-- `corraw` argument list after the op name (round 5) -/
def corRaw (rm : RMux) (pts mask bs off spl s0 c0 s1 c1 seed il rnull n : String) (rest : List String) :
    Option RMux × String :=
  match ptsArg pts, parseNat mask, csvNats bs, parseNat off, parseNat spl, parseNat s0, parseNat c0, parseNat s1 with
  | some pts, some mask, some sizes, some off, some spl, some s0, some c0, some s1 =>
    match parseNat c1, parseNat seed, parseNat il, parseNat rnull, linesArg n rest with
    | some c1, some seed, some il, some rnull, some lines =>
      if spl > 4096 ∨ c0 > 64 ∨ c1 > 64 ∨ off > 1000000 ∨ s0 > 1000000 ∨ s1 > 1000000 ∨ il > 1 ∨ rnull > 1 then
        (some rm, "rej parse")
      else
        let sp : Sp := { offset := off, spl, start0 := s0, count0 := c0, start1 := s1, count1 := c1, interlaced := il == 1 }
        let raw := if rnull = 1 then none else some (rawFrame seed ((c0 + c1) * spl))
        let (rm', ok, calls, sl, idx, out, abort) :=
          corAllR Zvbi.Gen.muxKeepsLastDuSize sizes lines (u32 mask) raw (some sp) pts 200000 rm 0 []
        match abort with
        | some e => (some rm', s!"rej model:{e.name}")
        | none => (some rm', s!"ok {bool ok} {calls} {sl} {idx} {toHex out}")
    | _, _, _, _, _ => (some rm, "rej parse")
  | _, _, _, _, _, _, _, _ => (some rm, "rej parse")

def step (st : Option RMux) (ws : List String) : Option RMux × String :=
  match ws with
  | "corraw" :: args =>
    match st with
    | none => (st, "rej nomux")
    | some rm =>
      match args with
      | pts :: mask :: bs :: off :: spl :: s0 :: c0 :: s1 :: c1 :: seed :: il :: rnull :: n :: rest =>
        corRaw rm pts mask bs off spl s0 c0 s1 c1 seed il rnull n rest
      | _ => (st, "rej parse")
  | "feedraw" :: args | "feedraw2" :: args =>
    match st with
    | none => (st, "rej nomux")
    | some rm =>
      match ws.head?, args with
      | some "feedraw", pts :: mask :: off :: spl :: s0 :: c0 :: s1 :: c1 :: seed :: n :: rest =>
        feedRaw rm pts mask off spl s0 c0 s1 c1 seed 0 0 n rest
      | some "feedraw2", pts :: mask :: off :: spl :: s0 :: c0 :: s1 :: c1 :: seed :: il :: rnull :: n :: rest =>
        (match parseNat il, parseNat rnull with
         | some il, some rnull => feedRaw rm pts mask off spl s0 c0 s1 c1 seed il rnull n rest
         | _, _ => (st, "rej parse"))
      | _, _ => (st, "rej parse")
  | ["mraw", a, did, vs, line, fpp, ntot, stf, rl, seed] =>
    match parseNat a, parseNat did, parseNat vs, parseNat line, parseNat fpp, parseNat ntot, parseNat stf, parseNat rl,
          parseNat seed with
    | some a, some did, some vs, some line, some fpp, some ntot, some stf, some rl, some seed =>
      if a > 70000 ∨ vs > 3 ∨ stf > 1 ∨ rl > 2000 ∨ did ≥ 2 ^ 32 ∨ line ≥ 2 ^ 32 ∨ fpp ≥ 2 ^ 32 ∨ ntot ≥ 2 ^ 32 then
        (st, "rej parse")
      else
        let r := rawFrame seed rl
        match multiplexRaw a r did vs line fpp ntot (stf == 1) with
        | .ok res =>
          let buf := res.out ++ List.replicate (a - res.out.length) 0xAA
          (st, s!"ok {bool res.ok} {res.packetLeft} {res.rawLeft} {a - res.packetLeft} {rl - res.rawLeft} {toHex buf}")
        | .error e => (st, s!"rej model:{e.name}")
    | _, _, _, _, _, _, _, _, _ => (st, "rej parse")
  | "mraw" :: _ => (st, "rej parse")
  -- oracle support (model side only): the independent reader for packets with raw data units
  | ["enparser", hex] =>
    match parseHex hex with
    | some bs => (match Zvbi.Mux.RawSpec.parsePesR bs with
      | some p => (st, s!"ok pkt {p.pts} {p.dataId} {p.size} {p.items.length}" ++
          (if p.items.isEmpty then "" else " " ++ showItems p.items))
      | none => (st, "ok malformed"))
    | none => (st, "rej parse")
  | _ =>
    let (m', out) := stepMux (st.map (·.mux)) ((st.map (·.raw.left)).getD 0) ws
    let raw' : RawSt :=
      match ws with
      | "new" :: _ => if out.startsWith "ok" then {} else (st.map (·.raw)).getD {}
      | _ => (st.map (·.raw)).getD {}
    (m'.map fun m => { mux := m, raw := raw' }, out)

def main : IO Unit := runLoop none step
end Zvbi.Driver.Mux
