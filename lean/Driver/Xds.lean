import Driver.Util
import ZvbiModel.Xds.Model
namespace Zvbi.Driver.Xds
open Zvbi.Driver Zvbi.Xds Zvbi.Gen.Xds

structure St where
  d : Demux.State := Demux.init
  s : Sep.State := Sep.init

def optIdx : Option Nat → String
  | some i => toString i
  | none => "-"

/-- sum of `count` and (for started slots) of the checksum over all slots -/
def digest (slots : List Slot) : Nat × Nat :=
  slots.foldl (fun (a : Nat × Nat) sl => (a.1 + sl.count, a.2 + (if sl.count = 0 then 0 else sl.cksum))) (0, 0)

def errTag : Option String → String
  | some e => if e.endsWith ".under" then " oob" else s!" err:{e}"
  | none => ""

def pair (h : String) : Option (Nat × Nat) :=
  match parseHex h with
  | some [a, b] => some (a, b)
  | _ => none

/-- `s xxxx` (and `p xxxx`: same call; the events the harness adds are stripped by checks/C09.py) -/
def sepOp (st : St) (h : String) : St × String :=
  match pair h with
  | none => (st, "rej parse")
  | some b =>
    let (s', o) := Sep.step sepErrClearsCurr st.s b
    let (tc, tk) := digest s'.slots
    let p := match o.dec with
      | some p => s!" dec {p.cls} {p.sub} {p.data.length} {toHex p.data}"
      | none => ""
    ({ st with s := s' }, s!"ok cur={optIdx s'.curr} xds={if s'.xds then 1 else 0} tc={tc} tk={tk}{errTag o.err}{p}")

def step (st : St) (ws : List String) : St × String :=
  match ws with
  | ["extents"] =>
    (st, s!"ok dbuf={demuxBufExtent} dcls={demuxClasses} dsub={demuxSubclasses} dpkt={demuxPktExtent} sbuf={sepBufExtent} scls={sepClasses} ssub={sepSubclasses} misc={demuxMaxClass}")
  | ["d", h] =>
    match pair h with
    | none => (st, "rej parse")
    | some b =>
      let (d', o) := Demux.step demuxRejectKeepsCurrent st.d b
      let (tc, tk) := digest d'.slots
      let p := match o.pkt with
        | some p => s!" pkt {p.cls} {p.sub} {p.data.length} {toHex p.data} z=1"
        | none => ""
      ({ st with d := d' }, s!"ok r={if o.r then 1 else 0} cur={optIdx d'.curr} tc={tc} tk={tk}{errTag o.err}{p}")
  | ["p", h] => sepOp st h
  | ["s", h] => sepOp st h
  | "d" :: _ => (st, "rej parse")
  | "s" :: _ => (st, "rej parse")
  | "p" :: _ => (st, "rej parse")
  | "extents" :: _ => (st, "rej parse")
  | _ => (st, "rej op")

def main : IO Unit := runLoop ({} : St) step
end Zvbi.Driver.Xds
