import Driver.Util
import ZvbiModel.Xds.Model
import ZvbiModel.Xds.Service
namespace Zvbi.Driver.Xds
open Zvbi.Driver Zvbi.Xds Zvbi.Gen.Xds

structure St where
  d : Demux.State := Demux.init
  s : Sep.State := Sep.init
  v : Svc.State := Svc.init

def optIdx : Option Nat → String
  | some i => toString i
  | none => "-"

/-- sum of `count` and (for started slots) of the checksum over all slots -/
def digest (slots : List Slot) : Nat × Nat :=
  slots.foldl (fun (a : Nat × Nat) sl => (a.1 + sl.count, a.2 + (if sl.count = 0 then 0 else sl.cksum))) (0, 0)

def errTag : Option String → String
  | some e => if e.endsWith ".under" then " oob" else s!" err:{e}"
  | none => ""

def pair (h : String) : Option (Nat × Nat) :=
  match parseHex h with
  | some [a, b] => some (a, b)
  | _ => none

def showPi (cls : Nat) (p : Svc.PI) : String :=
  let ty := if p.typeEia then toHex (p.typeId.takeWhile (· != 0)) else "none"
  let ds := (List.range 8).foldl (fun acc i => acc ++ s!" d{i}={toHex (p.description.getD i [])}") ""
  s!" ev:pi f={cls} pin={p.month}.{p.day}.{p.hour}.{p.min} td={if p.tapeDelayed then 1 else 0} len={p.lengthHour}:{p.lengthMin} el={p.elapsedHour}:{p.elapsedMin}:{p.elapsedSec} title={toHex p.title} rating={p.ratingAuth}/{p.ratingId}/{p.ratingDlsv} cgms={p.cgms} capsvc=-1 type={ty}{ds}"

def showEv : Svc.Ev → String
  | .progInfo f p => showPi f p
  | .network name call nuid td => s!" ev:net name={toHex name} call={toHex call} nuid={nuid} td={td}"
  | .networkId => " ev:netid"

/-- `s xxxx` / `p xxxx`: the same call into the decoder; `p` also prints the service decoder's events
    (` ev?` once a packet type the service model does not cover was delivered) -/
def sepOp (events : Bool) (st : St) (h : String) : St × String :=
  match pair h with
  | none => (st, "rej parse")
  | some b =>
    let r := Svc.step sepErrClearsCurr (st.s, st.v) b
    let s' := r.1.1
    let o := r.2.1
    let (tc, tk) := digest s'.slots
    let p := match o.dec with
      | some p => s!" dec {p.cls} {p.sub} {p.data.length} {toHex p.data}"
      | none => ""
    let ev := if !events then "" else if r.1.2.lost then " ev?" else String.join (r.2.2.map showEv)
    ({ st with s := s', v := r.1.2 },
     s!"ok cur={optIdx s'.curr} xds={if s'.xds then 1 else 0} tc={tc} tk={tk}{errTag o.err}{p}{ev}")

def step (st : St) (ws : List String) : St × String :=
  match ws with
  | ["extents"] =>
    (st, s!"ok dbuf={demuxBufExtent} dcls={demuxClasses} dsub={demuxSubclasses} dpkt={demuxPktExtent} sbuf={sepBufExtent} scls={sepClasses} ssub={sepSubclasses} misc={demuxMaxClass}")
  | ["d", h] =>
    match pair h with
    | none => (st, "rej parse")
    | some b =>
      let (d', o) := Demux.step demuxRejectKeepsCurrent st.d b
      let (tc, tk) := digest d'.slots
      let p := match o.pkt with
        | some p => s!" pkt {p.cls} {p.sub} {p.data.length} {toHex p.data} z=1"
        | none => ""
      ({ st with d := d' }, s!"ok r={if o.r then 1 else 0} cur={optIdx d'.curr} tc={tc} tk={tk}{errTag o.err}{p}")
  | ["p", h] => sepOp true st h
  | ["s", h] => sepOp false st h
  | "d" :: _ => (st, "rej parse")
  | "s" :: _ => (st, "rej parse")
  | "p" :: _ => (st, "rej parse")
  | "extents" :: _ => (st, "rej parse")
  | _ => (st, "rej op")

def main : IO Unit := runLoop ({} : St) step
end Zvbi.Driver.Xds
