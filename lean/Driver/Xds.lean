import Driver.Util
import ZvbiModel.Xds.Model
import ZvbiModel.Xds.Service
import ZvbiModel.Xds.Dec
import ZvbiModel.Xds.SepFrame
namespace Zvbi.Driver.Xds
open Zvbi.Driver Zvbi.Xds Zvbi.Gen.Xds

structure St where
  d : Demux.State := Demux.init
  s : Sep.State := Sep.init
  v : Svc.State := Svc.init
  dv : Dec.Info := Dec.init

def optIdx : Option Nat → String
  | some i => toString i
  | none => "-"

/-- sum of `count` and (for started slots) of the checksum over all slots -/
def digest (slots : List Slot) : Nat × Nat :=
  slots.foldl (fun (a : Nat × Nat) sl => (a.1 + sl.count, a.2 + (if sl.count = 0 then 0 else sl.cksum))) (0, 0)

def errTag : Option String → String
  | some e => if e.endsWith ".under" then " oob" else s!" err:{e}"
  | none => ""

def pair (h : String) : Option (Nat × Nat) :=
  match parseHex h with
  | some [a, b] => some (a, b)
  | _ => none

def showPi (cls : Nat) (p : Svc.PI) : String :=
  let ty := if p.typeEia then toHex (p.typeId.takeWhile (· != 0)) else "none"
  let ds := (List.range 8).foldl (fun acc i => acc ++ s!" d{i}={toHex (p.description.getD i [])}") ""
  s!" ev:pi f={cls} pin={p.month}.{p.day}.{p.hour}.{p.min} td={if p.tapeDelayed then 1 else 0} len={p.lengthHour}:{p.lengthMin} el={p.elapsedHour}:{p.elapsedMin}:{p.elapsedSec} title={toHex p.title} rating={p.ratingAuth}/{p.ratingId}/{p.ratingDlsv} cgms={p.cgms} capsvc=-1 type={ty}{ds}"

def showEv : Svc.Ev → String
  | .progInfo f p => showPi f p
  | .network name call nuid td => s!" ev:net name={toHex name} call={toHex call} nuid={nuid} td={td}"
  | .networkId => " ev:netid"

def digits (l : List Nat) : String := String.join (l.map toString)

/-- all fields of one `vbi_program_info` (ops `q`): same token order as `q_pi` in the harness -/
def showDpi (p : Dec.PI) : String :=
  let ty := if p.typeEia then toHex (Dec.cstr p.typeId) else "none"
  let ds := (List.range 8).foldl (fun acc i => acc ++ s!" d{i}={toHex (Dec.cstr (p.description.getD i []))}") ""
  s!" pin={p.month}.{p.day}.{p.hour}.{p.min} td={if p.tapeDelayed then 1 else 0} len={p.lengthHour}:{p.lengthMin} el={p.elapsedHour}:{p.elapsedMin}:{p.elapsedSec} title={toHex (Dec.cstr p.title)} type={ty} rating={p.ratingAuth}/{p.ratingId}/{p.ratingDlsv} audio={p.audioMode.getD 0 9}.{p.audioLang.getD 0 0}.{p.audioMode.getD 1 9}.{p.audioLang.getD 1 0} capsvc={p.capServices} caplang={digits p.capLang} cgms={p.cgms} asp={p.aspect.first}.{p.aspect.last}.{p.aspect.ratio}{ds}"

def showDev : Dec.Ev → String
  | .progInfo f p => s!" E:pi f={f}" ++ showDpi p
  | .aspect a => s!" E:asp {a.first}.{a.last}.{a.ratio}"
  | .network name call nuid td => s!" E:net name={toHex name} call={toHex call} nuid={nuid} td={td}"
  | .networkId => " E:netid"

/-- set bit positions of `info_cycle[]`, ascending -/
def showCyc (c : List Nat) : String :=
  let l := (List.range 32).filter (fun t => c.contains t)
  if l.isEmpty then "-" else ",".intercalate (l.map toString)

def showInfo (v : Dec.Info) : String :=
  " S0" ++ showDpi v.pi0 ++ " S1" ++ showDpi v.pi1 ++
  s!" SN name={toHex (Dec.cstr v.net.name)} call={toHex (Dec.cstr v.net.call)} cyc={v.net.cycle} nuid={v.net.nuid} td={v.net.tapeDelay} SC cyc0={showCyc v.cyc0} cyc1={showCyc v.cyc1} asrc={v.aspSrc} lang={digits v.chLang}"

/-- `s xxxx` / `p xxxx`: the same call into the decoder; `p` also prints the service decoder's events
    (` ev?` once a packet type the service model does not cover was delivered) -/
def sepOp (events : Bool) (full : Bool) (st : St) (h : String) : St × String :=
  match pair h with
  | none => (st, "rej parse")
  | some b =>
    let r := Svc.step sepErrClearsCurr (st.s, st.v) b
    let s' := r.1.1
    let o := r.2.1
    let (tc, tk) := digest s'.slots
    let p := match o.dec with
      | some p => s!" dec {p.cls} {p.sub} {p.data.length} {toHex p.data}"
      | none => ""
    let ev := if !events then "" else if r.1.2.lost then " ev?" else String.join (r.2.2.map showEv)
    -- the complete service-decoder model `Dec` runs on every delivered packet; `q` prints its events and state
    let dr := match o.dec with
      | some pk => Dec.step st.dv pk (Dec.nxOf st.s)
      | none => (st.dv, {})
    let dtxt := if !full then "" else match o.dec with
      | some _ => errTag dr.2.err ++ String.join (dr.2.evs.map showDev) ++ showInfo dr.1
      | none => ""
    ({ st with s := s', v := r.1.2, dv := dr.1 },
     s!"ok cur={optIdx s'.curr} xds={if s'.xds then 1 else 0} tc={tc} tk={tk}{errTag o.err}{p}{ev}{dtxt}")

/-- `frame <n> [<id> <line> <2B>]*` -/
def parseFrame : Nat → List String → Option (List Frame.Sliced)
  | 0, [] => some []
  | n + 1, i :: l :: h :: rest =>
    match parseNat i, parseNat l, pair h, parseFrame n rest with
    | some i, some l, some b, some r => some (⟨i, l, b⟩ :: r)
    | _, _, _, _ => none
  | _, _ => none

def frameOp (st : St) (ws : List String) : St × String :=
  match ws with
  | n :: rest =>
    match parseNat n with
    | none => (st, "rej parse")
    | some n =>
      match parseFrame n rest with
      | none => (st, "rej parse")
      | some fr =>
        let r := Frame.feedFrame demuxRejectKeepsCurrent st.d fr
        let (tc, tk) := digest r.1.slots
        let errs := String.join (r.2.2.map fun o => errTag o.err)
        let pk := String.join (r.2.2.map fun o => match o.pkt with
          | some p => s!" pkt {p.cls} {p.sub} {p.data.length} {toHex p.data} z=1"
          | none => "")
        ({ st with d := r.1 }, s!"ok r={if r.2.1 then 1 else 0} cur={optIdx r.1.curr} tc={tc} tk={tk}{errs}{pk}")
  | [] => (st, "rej parse")

def step (st : St) (ws : List String) : St × String :=
  match ws with
  | "frame" :: rest => frameOp st rest
  | ["extents"] =>
    (st, s!"ok dbuf={demuxBufExtent} dcls={demuxClasses} dsub={demuxSubclasses} dmaxsub={demuxMaxSubclasses} dpkt={demuxPktExtent} sbuf={sepBufExtent} scls={sepClasses} ssub={sepSubclasses} misc={demuxMaxClass}")
  | ["d", h] =>
    match pair h with
    | none => (st, "rej parse")
    | some b =>
      let (d', o) := Demux.step demuxRejectKeepsCurrent st.d b
      let (tc, tk) := digest d'.slots
      let p := match o.pkt with
        | some p => s!" pkt {p.cls} {p.sub} {p.data.length} {toHex p.data} z=1"
        | none => ""
      ({ st with d := d' }, s!"ok r={if o.r then 1 else 0} cur={optIdx d'.curr} tc={tc} tk={tk}{errTag o.err}{p}")
  | ["extents2"] =>
    (st, s!"ok title={Dec.titleExt} desc={Dec.descExt} type={Dec.typeExt} name={Dec.nameExt} call={Dec.callExt} f1={Frame.idF1} f2={Frame.idF2} c525={Frame.id525}")
  | ["p", h] => sepOp true false st h
  | ["s", h] => sepOp false false st h
  | ["q", h] => sepOp false true st h
  | "q" :: _ => (st, "rej parse")
  | "extents2" :: _ => (st, "rej parse")
  | "d" :: _ => (st, "rej parse")
  | "s" :: _ => (st, "rej parse")
  | "p" :: _ => (st, "rej parse")
  | "extents" :: _ => (st, "rej parse")
  | _ => (st, "rej op")

def main : IO Unit := runLoop ({} : St) step
end Zvbi.Driver.Xds
