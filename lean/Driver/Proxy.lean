import Driver.Util
import ZvbiModel.Proxy.Model
/-!
# Driver for component `proxy` (C19): the model of the proxy daemon on the line protocol of harness/proxy_harness.c

ops: `dev d sup api scan getscan` | `maxconn n` | `connect d` | `send h hex` | `shut h` | `shutrd h` | `iter` | `recv h` | `tick n` |
`alarm` | `frame d id,id,..` | `sizes`.  After a fault of the model (`abort <site>`) the daemon is dead: every later op
of the case answers `dead` (the real daemon has aborted; the check compares "model aborts" with "harness crashed").
-/
namespace Zvbi.Driver.Proxy
open Zvbi.Proxy Zvbi.Gen.Proxy

def cfg : Cfg := Cfg.current

structure DState where
  s : State cfg.g := init cfg.g
  dead : Bool := false

def i32 (n : Nat) : Int := toSigned 32 (n % 4294967296)
def b01 (b : Bool) : String := if b then "1" else "0"

def clientStr (s : State cfg.g) (c : Client) : String :=
  let r := recOf s c.h
  let w := match c.wr with | some (_, n) => n | none => 0
  s!" c{c.h}:d{c.dev}:{connName c.st}:{tokName r.tok}:p{i32 r.prio}:i{c.ind}:r{c.readOff}/{c.readLen}w{w}:as{hex c.allSv}:sv{hex (c.sv.getD 0 0)}/{hex (c.sv.getD 1 0)}/{hex (c.sv.getD 2 0)}/{hex (c.sv.getD 3 0)}:f{c.flags}:b{c.bufCount}:e{b01 c.endianSwap}:pf{r.valid}/{c.subPrio}/{c.minDur}:sc{b01 c.completed}/{c.cycle}/{c.lastStart}/{c.lastDur}:q{c.pend.length}"

def devStr (s : State cfg.g) (d : Nat) : String :=
  let x := getDev s d
  s!" d{d}:cap{b01 x.cap}:api{x.api}:svc{hex x.allSv}:scan{x.scanning}:prio{i32 x.prio}:ml{x.maxLines}:o{x.nOpen}:u{x.nUpd}:fl{x.nFlush}:fq{x.fq.length}"

def stateLine (s : State cfg.g) : String :=
  let al := match s.lastAlarm with | some a => toString a | none => "-"
  s!"ok n={s.clntCount} |{String.join (s.clients.map (clientStr s))} |{devStr s 0}{devStr s 1} | al{al} sa{b01 s.schedAlarm}"

def sizesLine : String :=
  s!"ok hdr={hdr} msg={msg} connect_req={szConnectReq} service_req={szServiceReq} token_req={szTokenReq} notify_req={szNotifyReq} suspend_req={szSuspendReq} ioctl_req={szIoctlReq} reclaim_cnf={szReclaimCnf} pid_req={szPidReq} pid_cnf={szPidCnf} connect_cnf={szConnectCnf} connect_rej={szConnectRej} service_cnf={szServiceCnf} service_rej={szServiceRej} token_cnf={szTokenCnf} token_ind={szTokenInd} notify_cnf={szNotifyCnf} reclaim_req={szReclaimReq} change_ind={szChangeInd} suspend_rej={szSuspendRej} ioctl_cnf={szIoctlCnf} ioctl_rej={szIoctlRej} min_strict={minStrict} max_strict={maxStrict} nservices={nServices} clnt={szClnt} off_services={oClntServices} off_msgbuf={oClntMsgbuf} msgtypes={tCOUNT} io_timeout={ioTimeout} con_timeout={connectTimeout}"

def natTok (w : String) : Option Nat :=
  if w.startsWith "-" then none else parseNat w

def runOp (st : DState) (op : Op) (fmt : State cfg.g → String) : DState × String :=
  match step cfg st.s op with
  | .ok s' => ({ st with s := s' }, fmt s')
  | .error (.oob site) => ({ st with dead := true }, s!"abort oob {site}")
  | .error (.assertFail site) => ({ st with dead := true }, s!"abort assert {site}")

def handleOf (st : DState) (w : String) : Option (Option Nat) :=
  match natTok w with
  | none => none
  | some h => some (if h < st.s.socks.length then some h else none)

def step (st : DState) (ws : List String) : DState × String :=
  if st.dead then (st, "dead") else
  match ws with
  | ["iter"] => runOp st .iter stateLine
  | ["sizes"] => (st, sizesLine)
  | ["alarm"] => runOp st .alarm (fun _ => "ok")
  | "tick" :: rest =>
    match rest with
    | [w] => match natTok w with
      | some n => if n > 1000000 then (st, "rej parse") else runOp st (.tick n) (fun s => s!"ok {s.now - 1000000}")
      | none => (st, "rej parse")
    | _ => (st, "rej parse")
  | "maxconn" :: rest =>
    match rest with
    | [w] => match natTok w with
      | some n => if n > 64 then (st, "rej parse") else runOp st (.maxConn n) (fun _ => "ok")
      | none => (st, "rej parse")
    | _ => (st, "rej parse")
  | "dev" :: rest =>
    match rest with
    | [a, b, c, d, e] =>
      match natTok a, natTok b, natTok c, natTok d, parseInt e with
      | some a, some b, some c, some d, some e =>
        if a ≥ nDev || b > 0xffffffff || c > 2 || d > 100000 || e < -1 || e > 100000 then (st, "rej parse")
        else if !st.s.socks.isEmpty then (st, "rej late")
        else runOp st (.devCfg a b c d e) (fun _ => "ok")
      | _, _, _, _, _ => (st, "rej parse")
    | _ => (st, "rej parse")
  | "connect" :: rest =>
    match rest with
    | [w] => match natTok w with
      | some d =>
        if d ≥ nDev then (st, "rej parse")
        else if st.s.socks.length ≥ 16 then (st, "rej full")
        else if (st.s.socks.filter (fun k => k.dev == d && !k.accepted)).length ≥ 8 then (st, "rej backlog")
        else runOp st (.connect d) (fun s => s!"ok c{s.socks.length - 1}")
      | none => (st, "rej parse")
    | _ => (st, "rej parse")
  | "send" :: rest =>
    match rest with
    | [w, hx] =>
      match handleOf st w, parseHex hx with
      | some ho, some bs =>
        if bs.length > 8192 then (st, "rej parse") else
        match ho with
        | none => (st, "rej noclient")
        | some h =>
          if (getSock st.s h).shut then (st, "rej noclient")
          else if bs.isEmpty then (st, "ok 0")
          else if (getSock st.s h).srvClosed then (st, "ok lost")
          else runOp st (.send h bs) (fun _ => s!"ok {bs.length}")
      | _, _ => (st, "rej parse")
    | _ => (st, "rej parse")
  | "shut" :: rest =>
    match rest with
    | [w] => match handleOf st w with
      | some (some h) => if (getSock st.s h).shut then (st, "rej noclient") else runOp st (.shut h) (fun _ => "ok")
      | some none => (st, "rej noclient")
      | none => (st, "rej parse")
    | _ => (st, "rej parse")
  | "shutrd" :: rest =>
    match rest with
    | [w] => match handleOf st w with
      | some (some h) => if (getSock st.s h).shut || (getSock st.s h).rdShut then (st, "rej noclient") else runOp st (.shutRd h) (fun _ => "ok")
      | some none => (st, "rej noclient")
      | none => (st, "rej parse")
    | _ => (st, "rej parse")
  | "recv" :: rest =>
    match rest with
    | [w] => match handleOf st w with
      | some (some h) =>
        let k := getSock st.s h
        let items := k.log ++ (if k.eofSeen then ["EOF"] else [])
        let line := if items.isEmpty then "ok -" else "ok " ++ " ".intercalate items
        let (st, _) := runOp st (.recv h) (fun _ => "")
        (st, line)
      | some none => (st, "rej noclient")
      | none => (st, "rej parse")
    | _ => (st, "rej parse")
  | "frame" :: rest =>
    match rest with
    | [a, l] =>
      match natTok a with
      | some d =>
        if d ≥ nDev then (st, "rej parse") else
        let idsO : Option (List Nat) :=
          if l == "-" then some [] else
          (l.splitOn ",").filter (· ≠ "") |>.foldl (fun acc w => match acc, parseInt w with
            | some xs, some v => if v < 0 || v > 0xffffffff || xs.length ≥ 31 then none else some (xs ++ [v.toNat])
            | _, _ => none) (some [])
        match idsO with
        | none => (st, "rej parse")
        | some ids =>
          if (getDev st.s d).fq.length ≥ 64 then (st, "rej full")
          else runOp st (.frame d ids) (fun s => s!"ok {s.frameSeq}")
      | none => (st, "rej parse")
    | _ => (st, "rej parse")
  | _ => (st, "rej op")

def main : IO Unit := runLoop ({} : DState) step

end Zvbi.Driver.Proxy
