import Driver.Util
import ZvbiModel.Idl.Model
import ZvbiModel.Idl.Formats
import ZvbiModel.Idl.Spec
namespace Zvbi.Driver.Idl
open Zvbi.Driver Zvbi.Idl

def hexN (s : String) (n : Nat) : Option (List Nat) :=
  match parseHex s with
  | some b => if b.length == n then some b else none
  | none => none

def hex16 (n : Nat) : List Nat := [(n / 256) % 256, n % 256]

/-- ops: `new <chan> <addr> <fill>` (format A), `newfmt <format> <chan> <addr>` (`_vbi_idl_demux_init` on zeroed
    memory; a format value that would hit `assert (0)` is answered `rej format` and is never passed to the C code),
    `feed <42B>`, `reset`, `crctab`, `state` (-> `ok <format> <channel> <address> <ci> <ri> <flags>`, the struct fields),
    model only: `spec_pkt <chan> <ft> <ial> <spa nibbles hex> <ri> <ci> <data> <dummy> <pad>` -/
def step (st : Option StF) (ws : List String) : Option StF × String :=
  match ws with
  | ["new", c, a, f] =>
    (match parseNat c, parseNat a, parseNat f with
     | some c, some a, some f =>
       if c < 4294967296 ∧ a < 4294967296 ∧ f < 256 then
         (match new c a f with
          | some s => (some ⟨fmtA, s⟩, "ok")
          | none => (none, "ok null"))
       else (st, "rej parse")
     | _, _, _ => (st, "rej parse"))
  | ["newfmt", f, c, a] =>
    (match parseNat f, parseNat c, parseNat a with
     | some f, some c, some a =>
       if f < 4294967296 ∧ c < 4294967296 ∧ a < 4294967296 then
         if f = fmtA ∨ f = fmtB ∨ f = fmtDatavideo ∨ f = fmtAudetel ∨ f = fmtLbra then
           (match initF f c a 0 with
            | .ok s => (some s, "ok")
            | .null => (none, "ok null")
            | .assertFail => (st, "rej assert"))
         else (st, "rej format")
       else (st, "rej parse")
     | _, _, _ => (st, "rej parse"))
  | ["feed", h] =>
    (match hexN h 42 with
     | none => (st, "rej parse")
     | some buf =>
       match st with
       | none => (st, "rej state")
       | some s =>
         match feedF s buf with
         | .assertFail => (st, "rej assert")
         | .done s' ret cb =>
           let r := if ret then "ok 1" else "ok 0"
           (some s', match cb with
             | some cb => s!"{r} cb {cb.flags} {toHex cb.bytes}"
             | none => r))
  | ["reset"] =>
    (match st with
     | none => (st, "rej state")
     | some s => (some (resetF s), "ok"))
  | ["state"] =>
    (match st with
     | none => (st, "rej state")
     | some s =>
       let i (o : Option Nat) : String := match o with | some n => toString n | none => "-1"
       (st, s!"ok {s.fmt} {s.st.channel} {s.st.address} {i s.st.ci} {i s.st.ri} {s.st.flags}"))
  | ["crctab"] => (st, s!"ok {toHex ((List.range 256).foldr (fun i acc => hex16 (crcTab i) ++ acc) [])}")
  | ["spec_pkt", c, ft, ial, spa, ri, ci, data, dummy, pad] =>
    (match parseNat c, parseNat ft, parseNat ial, parseHex spa, parseNat ri, parseNat ci, parseHex data,
           parseNat dummy, parseHex pad with
     | some c, some ft, some ial, some spa, some ri, some ci, some data, some dummy, some pad =>
       (st, s!"ok {toHex (Spec.mkPacket c ft ial spa ri ci data dummy pad).bytes}")
     | _, _, _, _, _, _, _, _, _ => (st, "rej parse"))
  | "expect" :: _ => (st, "ok")
  | _ => (st, "rej op")

def main : IO Unit := runLoop none step
end Zvbi.Driver.Idl
