import Driver.Util
import ZvbiModel.Idl.Model
import ZvbiModel.Idl.Spec
namespace Zvbi.Driver.Idl
open Zvbi.Driver Zvbi.Idl

def hexN (s : String) (n : Nat) : Option (List Nat) :=
  match parseHex s with
  | some b => if b.length == n then some b else none
  | none => none

def hex16 (n : Nat) : List Nat := [(n / 256) % 256, n % 256]

/-- ops: `new <chan> <addr> <fill>`, `feed <42B>`, `reset`, `crctab`,
    model only: `spec_pkt <chan> <ft> <ial> <spa nibbles hex> <ri> <ci> <data> <dummy> <pad>` -/
def step (st : Option St) (ws : List String) : Option St × String :=
  match ws with
  | ["new", c, a, f] =>
    (match parseNat c, parseNat a, parseNat f with
     | some c, some a, some f =>
       if c < 4294967296 ∧ a < 4294967296 ∧ f < 256 then
         (match new c a f with
          | some s => (some s, "ok")
          | none => (none, "ok null"))
       else (st, "rej parse")
     | _, _, _ => (st, "rej parse"))
  | ["feed", h] =>
    (match hexN h 42 with
     | none => (st, "rej parse")
     | some buf =>
       match st with
       | none => (st, "rej state")
       | some s =>
         let (s', ret, cb) := feed s buf
         let r := if ret then "ok 1" else "ok 0"
         (some s', match cb with
           | some cb => s!"{r} cb {cb.flags} {toHex cb.bytes}"
           | none => r))
  | ["reset"] =>
    (match st with
     | none => (st, "rej state")
     | some s => (some (reset s), "ok"))
  | ["crctab"] => (st, s!"ok {toHex ((List.range 256).foldr (fun i acc => hex16 (crcTab i) ++ acc) [])}")
  | ["spec_pkt", c, ft, ial, spa, ri, ci, data, dummy, pad] =>
    (match parseNat c, parseNat ft, parseNat ial, parseHex spa, parseNat ri, parseNat ci, parseHex data,
           parseNat dummy, parseHex pad with
     | some c, some ft, some ial, some spa, some ri, some ci, some data, some dummy, some pad =>
       (st, s!"ok {toHex (Spec.mkPacket c ft ial spa ri ci data dummy pad).bytes}")
     | _, _, _, _, _, _, _, _, _ => (st, "rej parse"))
  | "expect" :: _ => (st, "ok")
  | _ => (st, "rej op")

def main : IO Unit := runLoop none step
end Zvbi.Driver.Idl
