import Driver.Util
import ZvbiModel.Search.Model
import ZvbiModel.Search.Matcher
import ZvbiModel.Search.Current
import ZvbiModel.Search.Cancel
import ZvbiModel.Ure.CurrentExec
import ZvbiModel.Ure.Exec
import ZvbiModel.Ure.Dfa
import ZvbiModel.Ure.Current
/-! Driver of the `search` model (C17); same line protocol as harness/search_harness.c -/
namespace Zvbi.Driver.Search
open Zvbi.Driver Zvbi.Search

structure St where
  cache : Cache := {}
  search : Option (SearchSt × Option Exec) := none
  /-- `progress <k>`: the progress callback returns FALSE at every k-th invocation (0 = never) -/
  progK : Nat := 0
  /-- invocations of the progress callback so far -/
  progN : Nat := 0

def init : St := {}

/-- `ure_exec` of the Lean model of ure.c (ZvbiModel/Ure) as the matcher parameter of the search model: the flags
    `search_page_fwd` / `search_page_rev` compute (URE_NOTBOL = 4, URE_NOTEOL = 8) reach the engine as in search.c.
    `none`: ure_compile fails (vbi_search_new returns NULL) -/
def ureExec (cf : Bool) (pat : List Nat) : Option Exec :=
  match Zvbi.Ure.compile Zvbi.Ure.Shape.current Zvbi.Ure.CType.probed 0 cf pat with
  | .dfa d =>
    some (fun fl text =>
      match Zvbi.Ure.execCur Zvbi.Ure.CType.probed d
              ((if fl.notBol then 4 else 0) + (if fl.notEol then 8 else 0)) text with
      | .found ms me => some (ms, me)
      | _ => none)
  | _ => none

def hexStr (n : Nat) : String :=
  if n = 0 then "0" else
  let rec go : Nat → Nat → List Char → List Char
    | 0, _, acc => acc
    | f + 1, n, acc => if n = 0 then acc else go f (n / 16) (hexNibble (n % 16) :: acc)
  String.ofList (go 16 n [])

/-- packets: "-" or comma separated 42-byte hex strings, at most 128 -/
def packetsOk (spec : String) : Bool :=
  if spec == "-" then true else
  let toks := (spec.splitOn ",").filter (· ≠ "")
  toks.length ≤ 128 && toks.all (fun t => t != "-" && (match parseHex t with | some b => b.length == 42 | none => false))

def parseCells : List Char → List Cell → Option (List Cell)
  | [], acc => some acc.reverse
  | a :: b :: c :: d :: e :: rest, acc =>
    match hexDigit a, hexDigit b, hexDigit c, hexDigit d, hexDigit e with
    | some a, some b, some c, some d, some e => parseCells rest (⟨((a * 16 + b) * 16 + c) * 16 + d, e⟩ :: acc)
    | _, _, _, _, _ => none
  | _, _ => none

/-- `-` or `<row>:<cells>;...` -> rows 1..23 -/
def parseRowspec (s : String) : Option Text :=
  if s == "-" then some [] else
  let parts := s.splitOn ";"
  let rows : Option (List (Nat × List Cell)) := parts.foldr (fun p acc =>
    match acc, p.splitOn ":" with
    | some l, [r, cells] =>
      match r.toNat?, parseCells cells.toList [] with
      | some r, some cs => if 1 ≤ r ∧ r ≤ 23 then some ((r, cs) :: l) else none
      | _, _ => none
    | _, _ => none) (some [])
  rows.map (fun l => (List.range 23).map (fun i => match l.find? (fun x => x.1 = i + 1) with | some x => x.2 | none => []))

def fnv (s : String) : Nat :=
  s.toUTF8.foldl (fun h b => ((h ^^^ b.toNat) * 16777619) % 4294967296) 2166136261

def hex8 (n : Nat) : String :=
  String.ofList ((List.range 8).reverse.map (fun i => hexNibble ((n / 16 ^ i) % 16)))

def dumpStr (c : Cache) : String :=
  let items := (List.range 0x800).filterMap (fun i =>
    let p := i + 0x100
    let sl := c.slots p
    if sl.stat.nSub = 0 ∧ sl.stat.subMin = 0 ∧ sl.stat.subMax = 0 ∧ sl.chain.isEmpty then none else
    let es := if sl.chain.isEmpty then "-" else ",".intercalate (sl.chain.map (fun e => hexStr e.subno ++ "/" ++ toString e.func ++ "/" ++ hex8 e.tag))
    some (s!" {hexStr p}:{sl.stat.nSub.toNat}:{hexStr sl.stat.subMin.toNat}:{hexStr sl.stat.subMax.toNat}:{es}"))
  s!"ok n={c.nCached}" ++ String.join items

def ctxStr (s : SearchSt) : String :=
  s!" st={s.startPgno}.{s.startSubno} rc={s.row0},{s.col0},{s.row1},{s.col1} dir={s.dir} stop={s.stopPgno0}.{s.stopSubno0},{s.stopPgno1}.{s.stopSubno1}"

def insertSorted (x : Nat × Nat) : List (Nat × Nat) → List (Nat × Nat)
  | [] => [x]
  | y :: ys =>
    if x = y then y :: ys
    else if x.1 < y.1 ∨ (x.1 = y.1 ∧ x.2 < y.2) then x :: y :: ys
    else y :: insertSorted x ys

def hlStr (cells : List (Nat × Nat)) : String :=
  let cs := (cells.filter (fun x => x.1 < 25 ∧ x.2 < 41)).foldl (fun acc x => insertSorted x acc) []
  if cs.isEmpty then "-" else ",".intercalate (cs.map (fun x => s!"{x.1}.{x.2}"))

def ucs2 : List Nat → List Nat
  | a :: b :: rest => (a * 256 + b) :: ucs2 rest
  | _ => []

def step (s : St) (ws : List String) : St × String :=
  match ws with
  | ["put", a, b, f, rs, pk] =>
    match parseInt a, parseInt b, parseInt f with
    | some a, some b, some f =>
      if !packetsOk pk then (s, "rej parse") else
      match parseRowspec rs with
      | none => (s, "rej rowspec")
      | some t => ({ s with cache := putCur s.cache a.toNat b.toNat f t (fnv (if f = 0 then rs else "-")) }, "ok")
    | _, _, _ => (s, "rej parse")
  | ["fmt", a] =>
    match parseInt a with
    | some _ => (s, "ok unsupported")        -- pre-pass op, implementation only
    | none => (s, "rej op")
  | ["feed", pk] => (s, if packetsOk pk then "ok" else "rej parse")
  | ["dump"] => (s, dumpStr s.cache)
  | ["chsw"] => ({ s with cache := {} }, "ok")
  | ["search", a, b, cf, re, pat, mode] =>
    match parseInt a, parseInt b, parseInt cf, parseInt re with
    | some a, some b, some cf, some re =>
      match parseHex pat with
      | some bytes =>
        if bytes.length % 2 ≠ 0 ∨ a < -0x7000 ∨ a > 0x7000 ∨ b < -0x8000 ∨ b > 0xFFFF then (s, "rej parse") else
        let p := ucs2 bytes
        -- the C string ends at the first 0
        let p := p.takeWhile (· ≠ 0)
        match searchNew a b p.length with
        | none => ({ s with search := none }, "ok null")
        | some ss =>
          -- `mode` was a historical token (quirk / exact); since 8b7ac93 ure_exec finds the leftmost
          -- occurrence of a literal, the model has one literal matcher.  Round 5: mode `ure` with a regular
          -- expression = the pattern is compiled and executed by the model of ure.c
          if re ≠ 0 ∧ mode = "ure" then
            match ureExec (cf ≠ 0) p with
            | none => ({ s with search := none }, "ok null")
            | some ex =>
              ({ s with search := some (ss, some ex) },
               s!"ok new stop={ss.stopPgno0}.{ss.stopSubno0},{ss.stopPgno1}.{ss.stopSubno1}")
          else
          let ex : Option Exec :=
            if re ≠ 0 then none
            else some (exactLit (cf ≠ 0) p)
          ({ s with search := some (ss, ex) },
           s!"ok new stop={ss.stopPgno0}.{ss.stopSubno0},{ss.stopPgno1}.{ss.stopSubno1}")
      | none => (s, "rej parse")
    | _, _, _, _ => (s, "rej parse")
  | ["next", d] =>
    match parseInt d with
    | none => (s, "rej op")
    | some d =>
      match s.search with
      | none => (s, "rej nosearch")
      | some (_, none) => (s, "ok unsupported")
      | some (ss, some ex) =>
        let (o, n) := if s.progK = 0 then (searchNext Shape.current ex walkFuel s.cache ss d, s.progN)
                      else searchNextP s.progK Shape.current ex walkFuel s.cache ⟨ss, s.progN⟩ d
        match o.res with
        | .assertFail => (s, "ok assert page_stat")
        | .outOfFuel => (s, "ok hang")
        | .ret st =>
          let head := if st = 1 then s!"ok 1 pg={hexStr o.st.pgPgno}.{hexStr o.st.pgSubno} hl={hlStr o.st.hl}" else s!"ok {st}"
          ({ s with cache := o.cache, search := some (o.st, some ex), progN := n }, head ++ ctxStr o.st)
  | ["progress", k] =>
    match parseInt k with
    | some k => if k < 0 ∨ k > 1000 then (s, "rej parse") else ({ s with progK := k.toNat, progN := 0 }, "ok")
    | none => (s, "rej parse")
  | ["endsearch"] => ({ s with search := none }, "ok")
  | _ => (s, "rej op")

def main : IO Unit := runLoop init step

end Zvbi.Driver.Search
