import Driver.Util
import ZvbiModel.Cc.Model
import ZvbiModel.Cc.Lang
/-!
Line-protocol driver of the Closed Caption model (component `cc`, property C08).
Mirror of harness/cc_harness.c - see there for the op list.
-/
namespace Zvbi.Driver.Cc
open Zvbi.Driver Zvbi.Cc Zvbi.Gen.Cc

def hexStr (n : Nat) : String := String.ofList (Nat.toDigits 16 n)

def cellTok (c : Cell) : String :=
  let attr := (if c.underline then 1 else 0) ||| (if c.italic then 2 else 0) ||| (if c.flash then 4 else 0)
    ||| (c.opacity <<< 3) ||| (c.fg <<< 5) ||| (c.bg <<< 13)
  hexStr c.unicode ++ "." ++ hexStr attr

/-- run-length coding of the first rows*columns cells -/
def rle (cells : List Cell) : String :=
  let rec go : List Cell → Option (Cell × Nat) → List String → List String
    | [], none, acc => acc.reverse
    | [], some (c, n), acc => (s!"{n}*{cellTok c}" :: acc).reverse
    | x :: xs, none, acc => go xs (some (x, 1)) acc
    | x :: xs, some (c, n), acc =>
      if x == c then go xs (some (c, n + 1)) acc else go xs (some (x, 1)) (s!"{n}*{cellTok c}" :: acc)
  ",".intercalate (go cells none [])

def pageStr (p : Page) : String :=
  s!"d={p.y0},{p.y1},{p.roll} {rle (p.text.take (rows * columns))}"

def eventsStr (old new : St) : String :=
  let evs := (List.zip old.chans new.chans).foldl
    (fun acc (a, b) => acc ++ List.replicate (b.nev - a.nev) (toString (a.idx + 1))) []
  if evs.isEmpty then "ev=-" else "ev=" ++ ",".intercalate evs

def stStr (ch : Channel) : String :=
  s!"ok mode={ch.mode.toNat} col={ch.col} col1={ch.col1} row={ch.row} row1={ch.row1} roll={ch.roll} nul={ch.nulCt} hidden={if ch.hidden then 1 else 0} line={if ch.linePg then 1 else 0}:{ch.lineOff} attr={cellTok { ch.attr with unicode := 0 }}"

def hex2 (n : Nat) : String := String.ofList [hexNibble ((n / 16) % 16), hexNibble (n % 16)]

def layoutStr : String :=
  let uni := (List.range 96).map (fun i => hexStr (captionUnicode (0x20 + i))) ++
             (List.range 16).map (fun i => hexStr (captionUnicode (0x1130 + i)))
  s!"ok rows={rows} cols={columns} text={textLen} nchan={nChannels} ts0={cellTok (transpSpace false)} ts1={cellTok (transpSpace true)} uni={",".intercalate uni}"

def step (s : St) (ws : List String) : St × String :=
  match s.firstErr with
  | some e => (s, s!"rej oob {e}")
  | none =>
  match ws with
  | "cc" :: rest =>
    (match rest with
     | [f, h] =>
       (match parseInt f, parseHex h with
        | some f, some [b0, b1] =>
          if f == 0 || f == 1 then
            let s' := Zvbi.Cc.step s (.pair (f == 1) b0 b1)
            (match s'.firstErr with
             | some e => (s', s!"rej oob {e}")
             | none => (s', s!"ok {eventsStr s s'}"))
          else (s, "rej parse")
        | _, _ => (s, "rej parse"))
     | _ => (s, "rej parse"))
  | "fetch" :: rest =>
    (match rest with
     | [n] =>
       (match parseInt n with
        | some n =>
          if n < -1000 || n > 1000 then (s, "rej parse") else
          (match fetchPage s n with
           | some p => (Zvbi.Cc.step s (.fetch n), s!"ok {pageStr p}")
           | none => (s, "ok false"))
        | none => (s, "rej parse"))
     | _ => (s, "rej parse"))
  | "st" :: rest =>
    (match rest with
     | [i] =>
       (match parseInt i with
        | some i => if i < 0 || i > 8 then (s, "rej parse") else
          (match s.chans[i.toNat]? with
           | some ch => (s, stStr ch)
           | none => (s, "rej oob channel"))
        | none => (s, "rej parse"))
     | _ => (s, "rej parse"))
  | "raw" :: rest =>
    (match rest with
     | [i, p] =>
       (match parseInt i, parseInt p with
        | some i, some p => if i < 0 || i > 8 || (p != 0 && p != 1) then (s, "rej parse") else
          (match s.chans[i.toNat]? with
           | some ch => (s, s!"ok {pageStr (ch.pg (p == 1))}")
           | none => (s, "rej oob channel"))
        | _, _ => (s, "rej parse"))
     | _ => (s, "rej parse"))
  | "tail" :: rest =>
    (match rest with
     | [i, p] =>
       (match parseInt i, parseInt p with
        | some i, some p => if i < 0 || i > 8 || (p != 0 && p != 1) then (s, "rej parse") else
          (match s.chans[i.toNat]? with
           | some ch => (s, s!"ok {rle (((ch.pg (p == 1)).text.drop (rows * columns)).take columns)}")
           | none => (s, "rej oob channel"))
        | _, _ => (s, "rej parse"))
     | _ => (s, "rej parse"))
  | "glob" :: rest =>
    if rest.isEmpty then
      let cur := if currChanPerField then s!"{s.currChan},{s.currChan2}" else s!"{s.currChan}"
      (s, s!"ok last={hex2 s.last0}{hex2 s.last1} curr={cur} xds={if s.xds then 1 else 0}")
    else (s, "rej parse")
  | "chsw" :: rest =>
    if rest.isEmpty then
      let s' := Zvbi.Cc.step s .chsw
      (s', s!"ok {eventsStr s s'}")
    else (s, "rej parse")
  | "layout" :: rest => if rest.isEmpty then (s, layoutStr) else (s, "rej parse")
  | "cu" :: rest =>
    -- `cu <hex8> <0|1>`: vbi_caption_unicode (c, to_upper), c as four bytes big-endian
    (match rest with
     | [h, u] =>
       (match parseHex h, parseInt u with
        | some [a, b, c, d], some u =>
          if u != 0 && u != 1 then (s, "rej parse") else
          (match Lang.captionUnicode (((a * 256 + b) * 256 + c) * 256 + d) (u == 1) with
           | some v => (s, s!"ok {hexStr v}")
           | none => (s, "rej oob caption_unicode"))
        | _, _ => (s, "rej parse"))
     | _ => (s, "rej parse"))
  | _ => (s, "rej op")

def main : IO Unit := runLoop Zvbi.Cc.init step

end Zvbi.Driver.Cc
