import Driver.Util
import Driver.Fmt
import ZvbiModel.Nav.Page
/-!
Driver of the navigation stage of C01 (see harness/nav_harness.c for the real-code side, lib/nav_util.py for the stage).

* `nav rows navflag region pgno subno flags national haveflof has24 l0 .. l5 hex1000`
    -> `ok <25 rows of 40 cells `uuuusl`, separated by `,`> | <nav_index[0..39], 40 hex digits> | <six nav_link ppp:ssss>`
       (u = unicode, s = size, l = link bit `0`/`1`, `?` = indeterminate: `zap_links` stores `link[len]`, never written)
    -> `fault zap <row>`  the model of `zap_links` faults in that row
  `vbi_format_vt_page (dec, pg, cp, VBI_WST_LEVEL_1, rows, navflag)` on a zeroed `vbi_page`; li = `pgno:subno`.
-/
namespace Zvbi.Driver.Nav
open Zvbi.Driver Zvbi.Fmt Zvbi.Nav
open Zvbi.Driver.Fmt (hexN mkPage parseLink showLink)

def showCell (c : NCell) : String :=
  hexN c.unicode 4 ++ hexN c.size 1 ++ (match c.link with | none => "?" | some true => "1" | some false => "0")

def showText (rows : List (List NCell)) : String :=
  ",".intercalate ((List.range 25).map (fun r =>
    String.join ((List.range 40).map (fun c => showCell ((rows.getD r []).getD c {})))))

def bit (s : String) : Option Bool :=
  match parseNat s with
  | some 0 => some false
  | some 1 => some true
  | _ => none

def linkOk (l : Link) : Bool := l.pgno ≤ 0xFFF && l.subno ≤ 0xFFFF

def step (_ : Unit) (ws : List String) : Unit × String :=
  let r : String :=
    match ws with
    | ["nav", rows, nf, rg, pg, sn, fl, na, hf, h24, l0, l1, l2, l3, l4, l5, hex] =>
      match parseNat rows, bit nf, parseNat rg, parseNat pg, parseNat sn, parseNat fl, parseNat na, bit hf, bit h24,
            [l0, l1, l2, l3, l4, l5].mapM parseLink, parseHex hex with
      | some dr, some nf, some rg, some pg, some sn, some fl, some na, some hf, some h24, some links, some bs =>
        if 1 ≤ dr && dr ≤ 25 && rg < 88 && 0x100 ≤ pg && pg ≤ 0x8FF && sn ≤ 0x3F7F && fl < 0x1000000 && na < 8
           && links.all linkOk && bs.length == 1000 then
          match navPage (mkPage rg pg sn fl na bs) dr nf hf h24 links with
          | .error row => s!"fault zap {row}"
          | .ok o =>
            s!"ok {showText o.text} | {String.join (o.navIndex.map (fun v => hexN v 1))} | {" ".intercalate (o.navLink.map showLink)}"
        else "rej parse"
      | _, _, _, _, _, _, _, _, _, _, _ => "rej parse"
    | ["dirty", v] => (match parseNat v with
      | some b => if b ≤ 255 then "ok" else "rej parse"
      | none => "rej parse")
    | "nav" :: _ => "rej parse"
    | _ => "rej op"
  ((), r)

def main : IO Unit := runLoop () step

end Zvbi.Driver.Nav
