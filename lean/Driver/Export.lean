import Driver.Util
import ZvbiModel.Export.Model
import ZvbiModel.Export.Page
import ZvbiModel.Export.Text
import ZvbiModel.Export.Html
import ZvbiModel.Export.HtmlInst
import ZvbiModel.Export.Ppm
import ZvbiModel.Export.Xpm
import ZvbiModel.Export.PrintNT
import ZvbiModel.Export.Font
import ZvbiModel.Export.Spec
/-! Model driver for component `export` (C16); same line protocol as harness/export_harness.c -/
namespace Zvbi.Driver.Export
open Zvbi.Driver Zvbi.Export

structure Session where
  target : String
  user : Option Bytes
  env : Env
  ops : List Op      -- reversed

structure DSt where
  page : Option Page := none
  sess : Option Session := none
  /-- ONE html export object (`htmlnew`): its options and the state that survives an export -/
  html : Option (HtmlEnv × HtmlInst) := none

def init : DSt := {}

def knownFormats : List String := ["ISO-8859-1", "UTF-8", "ASCII", "UCS-2LE"]

/-- glibc iconv from UCS-2 for the formats the check uses -/
def conv (fmt : String) (u : Nat) : Option Bytes :=
  if u ≥ 0xD800 ∧ u ≤ 0xDFFF then none
  else if fmt == "ISO-8859-1" then (if u < 256 then some [u] else none)
  else if fmt == "ASCII" then (if u < 128 then some [u] else none)
  else if fmt == "UCS-2LE" then some [u % 256, u / 256]
  else -- UTF-8
    if u < 0x80 then some [u]
    else if u < 0x800 then some [0xC0 + u / 64, 0x80 + u % 64]
    else some [0xE0 + u / 4096, 0x80 + (u / 64) % 64, 0x80 + u % 64]

/-- fonts whose page charset is iso-8859-1 (the ones the check uses) -/
def htmlFonts : List Int := [0, 1, 2, 3, 4, 5, 7, 16, 33]

/-- glibc iconv UCS-2 -> iso-8859-1 with one byte of output space -/
def convLatin1 (u : Nat) : Option Nat := if u < 256 then some u else none

def tLetter : Target → String
  | .mem => "m" | .alloc => "a" | .fp => "p" | .file => "f"

def traceOf (cfg : Cfg) (env : Env) (st0 : St) (ops : List Op) : String :=
  let rec go (st : St) (ops : List Op) (acc : List String) : List String :=
    match ops with
    | [] => acc.reverse
    | op :: rest =>
      if st.fault.isSome || st.aborted then acc.reverse
      else
        let st' := step cfg env st op
        go st' rest (s!"{tLetter st'.target}{st'.offset}/{st'.buf.length}/{if st'.werr then 1 else 0}" :: acc)
  let l := go st0 ops []
  if l.isEmpty then "-" else ",".intercalate l

def faultStr : Option Fault → String
  | none => ""
  | some f => s!" FAULT {repr f}"

def runEnd (s : Session) : String :=
  let cfg := currentCfg
  let ops := s.ops.reverse
  if s.target == "mem" then
    let r := exportMem cfg s.env s.user ops
    let tr := traceOf cfg s.env (Zvbi.Export.init .mem (s.user.getD []) s.user.isNone) ops
    let ret := match r.ret with | some n => toString n | none => "-1"
    let buf := if s.user.isNone then "null" else toHex r.user
    s!"ok mem ret={ret} buf={buf} trace={tr}{faultStr r.st.fault}"
  else if s.target == "alloc" then
    let r := exportAlloc cfg s.env ops
    let tr := traceOf cfg s.env (Zvbi.Export.init .alloc [] false) ops
    match r.data with
    | some d => s!"ok alloc ret=1 data={toHex d} trace={tr}{faultStr r.st.fault}"
    | none => s!"ok alloc ret=0 data=untouched trace={tr}{faultStr r.st.fault}"
  else if s.target == "fp" then
    let r := exportStdio cfg s.env ops
    let tr := traceOf cfg s.env (Zvbi.Export.init .fp [] false) ops
    s!"ok fp ret={if r.ok then 1 else 0} sink={toHex (r.sink.getD [])} trace={tr}{faultStr r.st.fault}"
  else if s.target == "filebad" then
    let r := exportFileNoOpen
    s!"ok filebad ret={if r.ok then 1 else 0} sink=unlinked trace=-"
  else
    let r := exportFile cfg s.env ops
    let tr := traceOf cfg s.env (Zvbi.Export.init .file [] false) ops
    let sk := match r.sink with | some b => toHex b | none => "unlinked"
    s!"ok file ret={if r.ok then 1 else 0} sink={sk} trace={tr}{faultStr r.st.fault}"

def noNul (bs : Bytes) : Bool := bs.all (· != 0)

def fnv (h v : Nat) : Nat := ((h ^^^ (v % 4294967296)) * 16777619) % 4294967296

/-- maximal runs of a set of byte runs: sorted by start, overlapping / adjacent ones merged -/
def mergeRuns (rs : List (Nat × Nat)) : List (Nat × Nat) :=
  let sorted := (rs.filter (·.2 > 0)).toArray.qsort (fun a b => a.1 < b.1) |>.toList
  let step (acc : List (Nat × Nat)) (r : Nat × Nat) : List (Nat × Nat) :=
    match acc with
    | [] => [r]
    | (s, l) :: tl => if r.1 ≤ s + l then (s, max (s + l) (r.1 + r.2) - s) :: tl else r :: acc
  (sorted.foldl step []).reverse

def drawOut (runs : List Run) (S : Nat) (eq : String) : String :=
  let m := mergeRuns (runs.map fun r => (r.start, r.len))
  let bytes := m.foldl (fun a r => a + r.2) 0
  let hash := m.foldl (fun h r => fnv (fnv h r.1) r.2) 2166136261
  let hi := m.foldl (fun a r => max a (r.1 + r.2)) 0
  let bmax := runs.foldl (fun a r => if r.len = 0 then a else
    let e := r.start % S + r.len
    max a (if e ≤ S then e else S)) 0
  s!"ok n={m.length} bytes={bytes} hash={hash} hi={hi} bmax={bmax} eq={eq} cf=1"

def inRange (x : Int) (lo hi : Int) : Bool := lo ≤ x && x ≤ hi

def allInts (ws : List String) : Option (List Int) := ws.mapM parseInt

def cuts (pg : Page) (col row w h : Nat) : Bool :=
  (List.range h).any fun ry =>
    let first := pg.text.getD ((row + ry) * pg.columns + col) default
    let last := pg.text.getD ((row + ry) * pg.columns + col + w - 1) default
    isOver first.size || isWide last.size

def doDraw (pg? : Option Page) (cc : Bool) (fmt : String) (v : List Int) : String :=
  if !(v.all fun x => inRange x (-1) 100000) then "rej parse" else
  match pg? with
  | none => "rej state"
  | some pg =>
    if !(["rgba", "pal8", "yuv420", "rgb16", "bgra"].contains fmt) then "rej parse" else
    let stride := v.getD 0 0; let col := v.getD 1 0; let row := v.getD 2 0; let w := v.getD 3 0; let h := v.getD 4 0
    let reveal := cc || v.getD 5 0 != 0
    let flashOn := cc || v.getD 6 0 != 0
    let cw : Nat := if cc then 16 else 12
    let ct := canvasType fmt
    if col < 0 || row < 0 || w < 1 || h < 1 || col + w > pg.columns || row + h > pg.rows then "rej region" else
    let ct' := if ct = 0 then 1 else ct
    if stride ≥ 0 && (stride < w * cw * ct' || stride.toNat % ct' != 0) then "rej region" else
    let S : Nat := if stride < 0 then pg.columns * cw * ct' else stride.toNat
    if S > 65536 then "rej region" else
    let so : Option Nat := if stride < 0 then none else some stride.toNat
    let r := if cc then drawCc pg ct so col.toNat row.toNat w.toNat h.toNat
             else drawVt currentCfg pg ct so col.toNat row.toNat w.toNat h.toNat reveal flashOn
    match r with
    | .error f => s!"ok FAULT {repr f}"
    | .ok runs =>
      let eq := if ct = 0 then "na" else if !cc && cuts pg col.toNat row.toNat w.toNat h.toNat then "na" else "1"
      drawOut runs S eq

def doPrint (pg? : Option Page) (table : Bool) (fmt : String) (size : Int) (v : List Int) : String :=
  if !(inRange size 0 1048576) then "rej parse" else
  match pg? with
  | none => "rej state"
  | some pg =>
    if !(knownFormats.contains fmt) || !(v.all fun x => inRange x (-100000) 100000) then "rej parse" else
    match (if table then printRegion currentCfg (conv fmt) pg size (v.getD 0 0) (v.getD 1 0) (v.getD 2 0) (v.getD 3 0)
           else printRegionNT currentCfg (conv fmt) pg size (v.getD 0 0) (v.getD 1 0) (v.getD 2 0) (v.getD 3 0)) with
    | .error f => s!"ok FAULT {repr f}"
    | .ok none => "ok 0 -"
    | .ok (some out) => s!"ok {out.length} {toHex out}"

def queue (st : DSt) (op : Op) : DSt × String :=
  match st.sess with
  | none => (st, "rej state")
  | some s => ({ st with sess := some { s with ops := op :: s.ops } }, "ok q")

def exportModules : List String := ["text", "html", "ppm", "png", "xpm"]

def step (st : DSt) (ws : List String) : DSt × String :=
  match ws with
  | ["consts"] =>
    (st, s!"ok tcw=12 tch=10 ccw=16 cch=26 text={textExtent} sizes={sizeNormal},{sizeDoubleWidth},{sizeDoubleHeight},{sizeDoubleSize},{sizeOverTop},{sizeOverBottom},{sizeDoubleHeight2},{sizeDoubleSize2} tgt=1,2,3,4,5 opaque=3")
  | "consts" :: _ => (st, s!"ok tcw=12 tch=10 ccw=16 cch=26 text={textExtent} sizes={sizeNormal},{sizeDoubleWidth},{sizeDoubleHeight},{sizeDoubleSize},{sizeOverTop},{sizeOverBottom},{sizeDoubleHeight2},{sizeDoubleSize2} tgt=1,2,3,4,5 opaque=3")
  | "probe" :: _ =>
    (init, s!"ok wideclip={if currentCfg.wideClip then 1 else 0} nullguard={if currentCfg.nullGuard then 1 else 0} e2big={if currentCfg.printE2big then 1 else 0} atone={if currentCfg.atOneByte then 1 else 0}")
  | "probehtml" :: _ =>
    (init, s!"ok titlelt={if currentHtmlCfg.titleLt then 1 else 0} gfxesc={if currentHtmlCfg.gfxEscaped then 1 else 0} italfont={if currentFontClamp then 1 else 0} reuse={if currentInstReset then 1 else 0}")
  | "htmlexp" :: rest =>
    if rest.length != 8 then (st, "rej parse") else
    (match allInts rest with
    | none => (st, "rej parse")
    | some v =>
      let g := fun i => v.getD i 0
      if (v.any (· < 0)) || !(htmlFonts.contains (g 0)) || g 1 < 10 || g 1 > 99999 || (rest.getD 1 "").startsWith "0" || g 2 > 1 || g 3 > 1
          || g 4 > 1 || g 5 > 0x8FF || g 6 > 0x3F7F || g 7 > 39 then (st, "rej parse") else
      match st.page with
      | none => (st, "rej state")
      | some pg =>
        let env : HtmlEnv := { gfx := gfxOption (g 1).toNat, color := g 2 == 1, header := g 3 == 1, reveal := g 4 == 1,
                               creator := s2b "verif", network := none, font := (g 0).toNat, pgno := (g 5).toNat,
                               subno := (g 6).toNat, screenColor := (g 7).toNat }
        match htmlOps currentHtmlCfg env convLatin1 pg with
        | .error f => (st, s!"ok FAULT {repr f}")
        | .ok ops =>
          -- `success_implies_exact` / `html_targets_agree`: without injected failures every target delivers `output ops`
          -- (the list-based write layer is quadratic on outputs of this size, so the driver does not run it here)
          let d := Zvbi.Export.Spec.output ops
          (st, s!"ok {d.length} {toHex d}"))
  | "htmlnew" :: rest =>
    if rest.length != 4 then (st, "rej parse") else
    (match allInts rest with
    | none => (st, "rej parse")
    | some v =>
      let g := fun i => v.getD i 0
      if (v.any (· < 0)) || g 0 < 10 || g 0 > 99999 || (rest.getD 0 "").startsWith "0" || g 1 > 1 || g 2 > 1 || g 3 > 1 then (st, "rej parse") else
      let env : HtmlEnv := { gfx := gfxOption (g 0).toNat, color := g 1 == 1, header := g 2 == 1, reveal := g 3 == 1,
                             creator := s2b "verif", network := none }
      ({ st with html := some (env, HtmlInst.fresh) }, "ok htmlnew"))
  | "htmlrun" :: rest =>
    (match rest with
    | [t, a, b, c, d] =>
      (match allInts [a, b, c, d] with
      | none => (st, "rej parse")
      | some v =>
        let g := fun i => v.getD i 0
        if !(["alloc", "mem", "fp", "file"].contains t) || (v.any (· < 0)) || !(htmlFonts.contains (g 0)) || g 1 > 0x8FF || g 2 > 0x3F7F
            || g 3 > 39 then (st, "rej parse") else
        match st.page, st.html with
        | some pg, some (base, inst) =>
          let env : HtmlEnv := { base with font := (g 0).toNat, pgno := (g 1).toNat, subno := (g 2).toNat, screenColor := (g 3).toNat }
          let r1 := htmlExport currentInstReset currentHtmlCfg convLatin1 inst env pg
          (match r1.1 with
          | .error f => (st, s!"ok FAULT {repr f}")
          | .ok ops1 =>
            let d1 := Zvbi.Export.Spec.output ops1
            if t == "mem" then
              -- the size query and then the export into a buffer of that size, with the same object
              let r2 := htmlExport currentInstReset currentHtmlCfg convLatin1 r1.2 env pg
              (match r2.1 with
              | .error f => (st, s!"ok FAULT {repr f}")
              | .ok ops2 =>
                let d2 := Zvbi.Export.Spec.output ops2
                ({ st with html := some (base, r2.2) }, s!"ok {d1.length} {d2.length} {toHex (d2.take d1.length)}"))
            else ({ st with html := some (base, r1.2) }, s!"ok {d1.length} {d1.length} {toHex d1}"))
        | _, _ => (st, "rej state"))
    | _ => (st, "rej parse"))
  | "xpmexp" :: rest =>
    if rest.length != 5 then (st, "rej parse") else
    (match allInts rest with
    | none => (st, "rej parse")
    | some v =>
      let g := fun i => v.getD i 0
      if (v.any (· < 0)) || g 0 > 1 || g 1 > 1 || g 2 > 1 || g 3 > 0x8FF || g 4 > 0x3F7F then (st, "rej parse") else
      match st.page with
      | none => (st, "rej state")
      | some pg =>
        let env : XpmEnv := { doubleHeight := g 0 == 1, transparency := g 1 == 1, titled := g 2 == 1, creator := s2b "verif",
                              pgno := (g 3).toNat, subno := (g 4).toNat }
        let geo := ppmGeom pg.columns env.doubleHeight
        let hdr := Zvbi.Export.Spec.output (xpmHeaderOps env (fun i => pg.colorMap.getD i 0) (ppmWidth pg.columns geo) (ppmHeight pg.rows geo))
        let ftr := Zvbi.Export.Spec.output (xpmFooterOps env)
        (st, s!"ok {hdr.length + pg.rows * xpmRowSize pg.columns geo + ftr.length} hdr={toHex hdr} ftr={toHex ftr} px=1"))
  | "ppmexp" :: rest =>
    (match rest with
    | [a] =>
      (match parseInt a with
      | some a =>
        if !(inRange a 0 1) then (st, "rej parse") else
        (match st.page with
        | none => (st, "rej state")
        | some pg =>
          let g := ppmGeom pg.columns (a == 1)
          let hdr := ppmHeader (ppmWidth pg.columns g) (ppmHeight pg.rows g)
          (st, s!"ok {hdr.length + pg.rows * ppmRowSize pg.columns g} hdr={toHex hdr} px=1"))
      | none => (st, "rej parse"))
    | _ => (st, "rej parse"))
  | "begin" :: rest =>
    (match rest with
    | [t, sz, hl, sl] =>
      let szv : Option (Option Nat) :=
        if sz == "null" then some none
        else match parseInt sz with
          | some n => if inRange n 0 1048576 then some (some n.toNat) else none
          | none => none
      match ["mem", "alloc", "fp", "file", "filebad"].contains t, szv, parseInt hl, parseInt sl with
      | true, some u, some h, some s =>
        if h < 0 || s < 0 then (st, "rej parse")
        else if st.sess.isSome then (st, "rej state")
        else ({ st with sess := some { target := t, user := u.map (List.replicate · 0xAA),
                                       env := ⟨some h.toNat, some s.toNat⟩, ops := [] } }, "ok begin")
      | _, _, _, _ => (st, "rej parse")
    | _ => (st, "rej parse"))
  | "end" :: rest =>
    if !rest.isEmpty then (st, "rej parse") else
    (match st.sess with
    | none => (st, "rej state")
    | some s => ({ st with sess := none }, runEnd s))
  | "putc" :: rest =>
    (match rest with
    | [c] => (match parseInt c with
      | some c => if inRange c 0 255 then queue st (.putc c.toNat) else (st, "rej parse")
      | none => (st, "rej parse"))
    | _ => (st, "rej parse"))
  | "flush" :: rest => if rest.isEmpty then queue st .flush else (st, "rej parse")
  | "write" :: rest =>
    (match rest with
    | [h] => (match parseHex h with
      | some bs => queue st (.write bs)
      | none => (st, "rej parse"))
    | _ => (st, "rej parse"))
  | "puts" :: rest =>
    (match rest with
    | ["null"] => queue st .putsNull
    | [h] => (match parseHex h with
      | some bs => if noNul bs then queue st (.puts bs) else (st, "rej parse")
      | none => (st, "rej parse"))
    | _ => (st, "rej parse"))
  | "printf" :: rest =>
    (match rest with
    | [h] => (match parseHex h with
      | some bs => if noNul bs then queue st (.printf bs) else (st, "rej parse")
      | none => (st, "rej parse"))
    | _ => (st, "rej parse"))
  | "direct" :: rest =>
    (match rest with
    | [n, h] => (match parseInt n, parseHex h with
      | some n, some bs =>
        if inRange n 0 16777216 && (bs.length : Int) ≤ n then queue st (.direct n.toNat bs) else (st, "rej parse")
      | _, _ => (st, "rej parse"))
    | _ => (st, "rej parse"))
  | "page" :: rest =>
    (match rest with
    | [r, c, f] => (match parseInt r, parseInt c, parseInt f with
      | some r, some c, some f =>
        if inRange r 1 25 && inRange c 1 41 && r * c ≤ 1056 && inRange f 0 0xFFFF then
          ({ st with page := some { rows := r.toNat, columns := c.toNat,
                                    text := List.replicate textExtent { unicode := f.toNat, size := 0 },
                                    drcs := List.replicate 32 false,
                                    colorMap := (List.range 40).map fun i =>
                                      0xFF000000 + ((i * 37 + 11) % 256) * 65536 + ((i * 91 + 5) % 256) * 256 + ((i * 53 + 200) % 256) } }, "ok page")
        else (st, "rej parse")
      | _, _, _ => (st, "rej parse"))
    | _ => (st, "rej parse"))
  | "cell" :: rest =>
    if rest.length != 8 then (st, "rej parse") else
    (match allInts rest with
    | none => (st, "rej parse")
    | some v =>
      let g := fun i => v.getD i 0
      if (v.any (· < 0)) || g 2 > 0xFFFF || g 3 > 7 || g 4 > 31 || g 5 > 39 || g 6 > 39 || g 7 > 3 then (st, "rej parse") else
      match st.page with
      | none => (st, "rej state")
      | some pg =>
        if g 0 ≥ pg.rows || g 1 ≥ pg.columns then (st, "rej parse") else
        let i := (g 0).toNat * pg.columns + (g 1).toNat
        let fl := (g 4).toNat
        let c : Cell := { unicode := (g 2).toNat, size := (g 3).toNat, flash := (fl / 8) % 2 == 1, conceal := (fl / 16) % 2 == 1,
                          underline := fl % 2 == 1, bold := (fl / 2) % 2 == 1, italic := (fl / 4) % 2 == 1, foreground := (g 5).toNat, background := (g 6).toNat }
        ({ st with page := some { pg with text := pg.text.set i c } }, "ok cell"))
  | "drcs" :: rest =>
    (match rest with
    | [p, v] => (match parseInt p, parseInt v with
      | some p, some v =>
        if !(inRange p 0 31 && inRange v 0 1) then (st, "rej parse") else
        (match st.page with
        | none => (st, "rej state")
        | some pg => ({ st with page := some { pg with drcs := pg.drcs.set p.toNat (v == 1) } }, "ok drcs"))
      | _, _ => (st, "rej parse"))
    | _ => (st, "rej parse"))
  | [pr, fmt, size, a, b, c, d] =>
    if pr == "print" || pr == "printnt" then
      match parseInt size, allInts [a, b, c, d] with
      | some sz, some v => (st, doPrint st.page (pr == "print") fmt sz v)
      | _, _ => (st, "rej parse")
    else if pr == "print" || pr == "printnt" || pr == "draw" || pr == "export" then (st, "rej parse")
    else (st, "rej op")
  | "print" :: _ => (st, "rej parse")
  | "printnt" :: _ => (st, "rej parse")
  | "textexp" :: rest =>
    (match rest with
    | [fmt, gfx, ctl] =>
      (match parseInt gfx, parseInt ctl with
      | some g, some c =>
        if !(inRange g 10 99999) || gfx.startsWith "0" || !(inRange c 0 2) || !(knownFormats.contains fmt) then (st, "rej parse") else
        (match st.page with
        | none => (st, "rej state")
        | some pg =>
          match textOps currentCfg (conv fmt) c.toNat (gfxOption g.toNat) pg with
          | .error f => (st, s!"ok FAULT {repr f}")
          | .ok (_, false) => (st, "ok fail")
          | .ok (ops, true) =>
            match (exportAlloc currentCfg .unlimited ops).data with
            | some d => (st, s!"ok {d.length} {toHex d}")
            | none => (st, "ok fail"))
      | _, _ => (st, "rej parse"))
    | _ => (st, "rej parse"))
  | "export" :: rest =>
    (match rest with
    | [spec] =>
      if st.page.isNone then (st, "rej state")
      else if exportModules.contains ((spec.splitOn ",").headD "") then (st, "ok agree") else (st, "rej module")
    | _ => (st, "rej parse"))
  | "draw" :: rest =>
    (match rest with
    | "vt" :: fmt :: nums =>
      if nums.length != 7 then (st, "rej parse") else
      (match allInts nums with
      | some v => (st, doDraw st.page false fmt v)
      | none => (st, "rej parse"))
    | "cc" :: fmt :: nums =>
      if nums.length != 5 then (st, "rej parse") else
      (match allInts nums with
      | some v => (st, doDraw st.page true fmt v)
      | none => (st, "rej parse"))
    | _ => (st, "rej parse"))
  | _ => (st, "rej op")

def main : IO Unit := runLoop init step
end Zvbi.Driver.Export
