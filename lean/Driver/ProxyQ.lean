import Driver.Util
import ZvbiModel.ProxyQ.Model
/-!
# Driver for component `proxyq` (C18): line protocol over `ZvbiModel.ProxyQ.Model`

Same ops and the same output lines as `harness/proxyq_harness.c` (see the header of that file).
The capture device of the harness is `Cfg` here: `supp` = the four scripted masks, `count a` =
`L * popcount a + popcount a`.
-/
namespace Zvbi.Driver.ProxyQ
open Zvbi.Driver Zvbi.ProxyQ Zvbi.Gen.ProxyQ

def maxClients : Nat := 64
def maxPending : Nat := 4

structure DState where
  s : State := {}
  scanning : Nat := 625
  linesPer : Nat := 2
  masks : List Nat := List.replicate 4 (4294967295 - rawServices)
  closed : List Nat := []      -- clients that closed their socket
  dead : Bool := false

def popc (n : Nat) : Nat := (List.range 32).foldl (fun acc i => acc + (n >>> i) % 2) 0

def cfgOf (d : DState) : Cfg :=
  { scanning := d.scanning, supp := fun st => d.masks.getD st 0,
    count := fun a => d.linesPer * popc a + popc a }

def hex (n : Nat) : String := String.ofList (Nat.toDigits 16 n)

def pU32 (w : String) : Option Nat :=
  if w.startsWith "-" then none else (parseNat w).bind (fun n => if n ≤ 4294967295 then some n else none)
def pSvc (w : String) : Option Nat := (pU32 w).bind (fun n => if n &&& rawServices == 0 then some n else none)
/-- strictness -1..2 as index 0..3 -/
def pStrict (w : String) : Option Nat :=
  (parseInt w).bind (fun v => if -(minStrictNeg : Int) ≤ v ∧ v ≤ (maxStrict : Int) then some (v + minStrictNeg).toNat else none)
def pClient (d : DState) (w : String) : Option Nat := (pU32 w).bind (fun n => if n < d.s.nextId then some n else none)

def pLine (w : String) : Option Line :=
  match w.splitOn ":" with
  | [a, b, c] => do
    let id ← pSvc a
    let line ← pU32 b
    let seed ← pU32 c
    if line > 1000 || seed > 255 then none else some { id := id, line := line, seed := seed }
  | _ => none

def showDevEv : DevEv → String
  | .opened => " open"
  | .closed => " close"
  | .flush => " flush"
  | .upd r c sv st g =>
    let b (x : Bool) := if x then "1" else "0"
    s!" upd:{b r}{b c}:{hex sv}:{(st : Int) - minStrictNeg}:{hex g}"
  | .read seq => s!" read:{seq}"

def stNum : CState → Nat
  | .waitConReq => stWaitConReq
  | .waitClose => stWaitClose
  | .forward => stForward
  | .closed => stClosed

def showLines (ls : List Line) : String :=
  if ls.isEmpty then "-" else ",".intercalate (ls.map (fun l => s!"{hex l.id}.{l.line}.{l.seed}"))

def showMsg (k : Nat) : Option OutMsg → String
  | none => s!" c{k}:eof"
  | some (.connectCnf sv n) => s!" c{k}:cnf:{hex sv}:{n}"
  | some .connectRej => s!" c{k}:rej"
  | some (.serviceCnf sv n) => s!" c{k}:scnf:{hex sv}:{if sv == 0 then "-" else toString n}"
  | some .serviceRej => s!" c{k}:srej"
  | some (.chnChange f sc) => s!" c{k}:chg:{f}:{sc}"
  | some (.sliced _ ts ls) => s!" c{k}:sl:{ts}:{ls.length}:{showLines ls}"

def showClient (q : List QElem) (c : Client) : String :=
  let cur := if c.backlog == 0 then "-"
    else match q[c.backlog - 1]? with
      | some e => toString e.frame.seq
      | none => "?"
  let wl := match c.out with | some (_, rem) => rem | none => 0
  s!" | c{c.id} st={stNum c.state} cur={cur} as={hex c.allServices} sv={",".intercalate (c.services.map hex)} ov=0 ml={c.maxLines} wl={wl}"

def showAudit (s : State) : String :=
  let d := s.dev
  let qs := d.q.reverse.map (fun e => s!" {e.frame.seq}:{e.ref}")
  -- the harness notices EOF when it drains the sockets at the end of the iteration, in client order
  let ms := s.msgs.filter (·.2.isSome) ++ s.msgs.filter (·.2.isNone)
  let msgs := if ms.isEmpty then " -" else String.join (ms.map (fun m => showMsg m.1 m.2))
  "ok D[" ++ String.join (s.log.map showDevEv) ++ " ] Q[" ++ String.join qs ++ s!" ] F{d.free} dev={if d.opened then 1 else 0}:{hex d.allServices}:{d.maxLines}"
    ++ String.join (s.clients.map (showClient d.q)) ++ " ||" ++ msgs

def showErr : Err → String
  | .assertFail .releaseHead => "rej assert-release-head"
  | .assertFail .lineCount => "rej assert-line-count"
  | .dangling => "rej dangling-cursor"
  | .nullDeref => "rej null-cursor"

def constsLine : String :=
  s!"ok srvQueueBufferCount={srvQueueBufferCount} vbiMaxBufferCount={vbiMaxBufferCount} defaultBufferCount={defaultBufferCount} defaultMaxClients={defaultMaxClients} nStrict={nStrict} minStrictNeg={minStrictNeg} maxStrict={maxStrict} bufferCountMod={bufferCountMod} rawServices={rawServices} slicedSize={slicedSize} hdrSize={hdrSize} slicedIndBase={slicedIndBase} connectCnfSize={connectCnfSize} connectRejSize={connectRejSize} serviceCnfSize={serviceCnfSize} serviceRejSize={serviceRejSize} chnChangeIndSize={chnChangeIndSize} chnNorm={chnNorm} chnFlush={chnFlush} st={stWaitConReq},{stWaitClose},{stForward},{stClosed}"

def opNames : List String := ["consts", "dev", "conn", "svc", "bye", "close", "credit", "cap", "capfull", "relall", "iter", "term"]

def apply (d : DState) (op : Op) (okText : State → String) : DState × String :=
  match Zvbi.ProxyQ.step (cfgOf d) d.s op with
  | .ok s' => ({ d with s := s' }, okText s')
  | .error e => ({ d with dead := true }, showErr e)

def capOp (d : DState) (ts : String) (ls : List String) (full : Bool) : DState × String :=
  match parseInt ts, ls.mapM pLine with
  | some t, some lines =>
    if t < 0 || t > 1000000000000 || ls.length > 64 then (d, "rej parse")
    else apply d (.cap t.toNat lines full) (fun _ => "ok")
  | _, _ => (d, "rej parse")

def step (d : DState) (ws : List String) : DState × String :=
  match ws with
  | [] => (d, "rej op")
  | w :: args =>
    if !opNames.contains w then (d, "rej op") else
    if d.dead then (d, "rej dead") else
    match w, args with
    | "consts", [] => (d, constsLine)
    | "dev", [a, b, m0, m1, m2, m3] =>
      (match pU32 a, pU32 b, pSvc m0, pSvc m1, pSvc m2, pSvc m3 with
       | some sc, some l, some x0, some x1, some x2, some x3 =>
         if l < 1 || l > 8 || sc > 1000 then (d, "rej parse")
         else ({ d with scanning := sc, linesPer := l, masks := [x0, x1, x2, x3] }, "ok")
       | _, _, _, _, _, _ => (d, "rej parse"))
    | "conn", [a, b, c] =>
      (match pSvc a, pStrict b, pU32 c with
       | some sv, some st, some bc =>
         if bc > 255 then (d, "rej parse")
         else if d.s.nextId ≥ maxClients then (d, "rej full")
         else if d.s.backlogConns.length ≥ maxPending then (d, "rej backlog")
         else apply d (.conn sv st bc) (fun s' => s!"ok c{s'.nextId - 1}")
       | _, _, _ => (d, "rej parse"))
    | "svc", [k, a, b, r] =>
      (match pClient d k, pSvc a, pStrict b, pU32 r with
       | some k, some sv, some st, some r =>
         if r > 1 then (d, "rej parse")
         else if d.closed.contains k then (d, "rej closed")
         else apply d (.svc k sv st (r == 1)) (fun _ => "ok")
       | _, _, _, _ => (d, "rej parse"))
    | "bye", [k] =>
      (match pClient d k with
       | some k => if d.closed.contains k then (d, "rej closed") else apply d (.bye k) (fun _ => "ok")
       | none => (d, "rej parse"))
    | "close", [k] =>
      (match pClient d k with
       | some k =>
         if d.closed.contains k then (d, "rej closed")
         else apply { d with closed := k :: d.closed } (.close k) (fun _ => "ok")
       | none => (d, "rej parse"))
    | "credit", [k, n] =>
      (match pClient d k, pU32 n with
       | some k, some n => if n > 100000000 then (d, "rej parse") else apply d (.credit k n) (fun _ => "ok")
       | _, _ => (d, "rej parse"))
    | "cap", ts :: ls => capOp d ts ls false
    | "capfull", ts :: ls => capOp d ts ls true
    | "relall", [] => apply d .relall (fun _ => "ok")
    | "iter", [] => apply d .iter showAudit
    | "term", [] =>
      -- vbi_proxyd_destroy frees the queue before it closes the clients
      if destroyStopsFirst && d.s.dev.opened && d.s.clients.any (fun c => c.backlog != 0) then
        ({ d with dead := true }, "rej use-after-free-in-destroy")
      else ({ d with dead := true }, "ok term")
    | _, _ => (d, "rej parse")

def main : IO Unit := runLoop ({} : DState) step
end Zvbi.Driver.ProxyQ
