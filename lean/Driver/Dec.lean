import Driver.Util
import ZvbiModel.Dec.Model
namespace Zvbi.Driver.Dec
open Zvbi.Driver Zvbi.Dec

def hexNat (s : String) : Option Nat := if s.length > 16 then none else parseNat ("0x" ++ s)

def showOut : Out → String
  | .ok => "ok" | .okFreed => "ok freed" | .rejParse => "rej parse" | .rejOp => "rej op" | .rejDeleted => "rej deleted"

def allSome (l : List (Option α)) : Bool := l.all Option.isSome

def stepO (s : St) (ws : List String) : St × Out :=
  if s.deleted then
    match ws with
    | ["delete"] => delete s
    | _ => (s, .rejDeleted)
  else
  match ws with
  | ["l", id, line, h] =>
    match hexNat id, parseInt line, parseHex h with
    | some _, some _, some b => queueLine s b.length
    | some _, some _, none => (s, .rejParse)
    | _, _, _ => (s, .rejOp)
  | "dec" :: t :: _ => if (parseInt t).isSome then decode s else (s, .rejOp)
  | "fetch" :: a :: b :: c :: d :: e :: _ =>
    if (hexNat a).isSome && (hexNat b).isSome && allSome [parseInt c, parseInt d, parseInt e] then (s, .ok) else (s, .rejOp)
  | "fetchcc" :: a :: _ => if (parseInt a).isSome then (s, .ok) else (s, .rejOp)
  | "classify" :: a :: _ => if (hexNat a).isSome then (s, .ok) else (s, .rejOp)
  | "title" :: a :: b :: _ => if (hexNat a).isSome && (hexNat b).isSome then (s, .ok) else (s, .rejOp)
  | "cached" :: a :: b :: _ => if (hexNat a).isSome && (hexNat b).isSome then (s, .ok) else (s, .rejOp)
  | "hisub" :: a :: _ => if (hexNat a).isSome then (s, .ok) else (s, .rejOp)
  | "resolve" :: _ => (s, .ok)
  | "print" :: a :: b :: _ =>
    match parseInt a, parseInt b with
    | some _, some n => if 0 ≤ n ∧ n < 1048576 then (s, .ok) else (s, .rejOp)
    | _, _ => (s, .rejOp)
  | ["export", _, n] =>
    match parseInt n with
    | some n => if n < 16777216 then (s, .ok) else (s, .rejOp)
    | none => (s, .rejOp)
  | "render" :: a :: b :: c :: _ => if allSome [parseInt a, parseInt b, parseInt c] then (s, .ok) else (s, .rejOp)
  | "region" :: a :: b :: c :: d :: e :: _ =>
    if allSome [parseInt a, parseInt b, parseInt c, parseInt d, parseInt e] then (s, .ok) else (s, .rejOp)
  | ["search", a, b, c, d, h] =>
    if (hexNat a).isSome && (hexNat b).isSome && allSome [parseInt c, parseInt d] then
      match parseHex h with
      | some bs => if bs.length % 2 == 0 then (s, .ok) else (s, .rejParse)
      | none => (s, .rejParse)
    else (s, .rejOp)
  | "next" :: a :: _ => if (parseInt a).isSome then (s, .ok) else (s, .rejOp)
  | "endsearch" :: _ => (s, .ok)
  | "chsw" :: a :: _ => if (parseInt a).isSome then (s, .ok) else (s, .rejOp)
  | "handler" :: a :: _ => if (hexNat a).isSome then (s, .ok) else (s, .rejOp)
  | "unhandler" :: _ => (s, .ok)
  | "delete" :: _ => delete s
  | _ => (s, .rejOp)

def step (s : St) (ws : List String) : St × String :=
  let (s', o) := stepO s ws
  (s', showOut o)

def main : IO Unit := runLoop ({} : St) step
end Zvbi.Driver.Dec
