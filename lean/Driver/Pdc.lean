import Driver.Util
import ZvbiModel.Pdc.Model
import ZvbiModel.Pdc.Errno
/-!
# Model driver for component `pdc` (C14); line protocol documented in harness/pdc_harness.c
-/
namespace Zvbi.Driver.Pdc
open Zvbi.Driver Zvbi.Pdc

structure St where
  env : Option String := none
  heap : Nat := 0

def init : St := {}

def strOfBytes (bs : List Nat) : String := String.ofList (bs.map Char.ofNat)
def hexOfStr (s : String) : String := toHex (s.toList.map (·.toNat))
def showTz : Option String → String
  | none => "unset"
  | some s => hexOfStr s

/-- "NULL" -> some none; hex -> some (some s); embedded NUL or bad hex -> none -/
def parseTz (s : String) : Option (Option String) :=
  if s == "NULL" then some none
  else match parseHex s with
    | some bs => if bs.any (· == 0) then none else some (some (strOfBytes bs))
    | none => none

def inI64 (x : Int) : Bool := decide (TIME_MIN ≤ x ∧ x ≤ TIME_MAX)
def parseI64 (s : String) : Option Int :=
  match parseInt s with
  | some v => if inI64 v then some v else none
  | none => none
def parsePil (s : String) : Option Nat :=
  match parseNat s with
  | some v => if v ≤ 4294967295 then some v else none
  | none => none

def siteOf (s : String) : Option Site :=
  if s == "strdup" then some .strdup else if s == "setenv" then some .setenv
  else if s == "time" then some .time else if s == "localtime" then some .localtime
  else if s == "gmtime" then some .gmtime else if s == "mktime" then some .mktime else none

/-- `setenv2,mktime1` -> [(setenv,2),(mktime,1)] ; later entries for the same site win (as in the harness) -/
def parseInj (s : String) : Option (List (Site × Nat)) :=
  if s == "-" then some [] else
  (s.splitOn ",").foldl (fun acc tok =>
    match acc with
    | none => none
    | some l =>
      let cs := tok.toList
      let name := String.ofList (cs.takeWhile Char.isAlpha)
      let num := String.ofList (cs.dropWhile Char.isAlpha)
      match siteOf name, num.toNat? with
      | some st, some k => if 1 ≤ k ∧ k < 1000 ∧ num.toList.all Char.isDigit then some ((st, k) :: l.filter (·.1 ≠ st)) else none
      | _, _ => none) (some [])

def mkTm (f : List Int) : Option Tm :=
  match f with
  | [y, mo, d, h, mi, s, dst] => some { year := y, mon := mo, mday := d, hour := h, min := mi, sec := s, isdst := dst }
  | _ => none

def allInts (ws : List String) : Option (List Int) :=
  ws.foldr (fun w acc => match parseInt w, acc with
    | some v, some l => some (v :: l)
    | _, _ => none) (some [])

/-- zone from a table of recorded libc answers -/
def tabZone (ls : List (Int × Tm)) (ms : List (Tm × Int)) : Zone where
  toLocal t := (ls.find? (fun e => e.1 == t)).map (·.2)
  fromLocal tm := match ms.find? (fun e => e.1 == tm) with
    | some (_, r) => if r = -1 then none else some r
    | none => none

def parseTab (s : String) : Zone :=
  let ents := if s == "-" then [] else (s.splitOn ";").filter (· ≠ "")
  let (ls, ms) := ents.foldl (fun (acc : List (Int × Tm) × List (Tm × Int)) e =>
    let kind := e.take 1 |>.toString
    let fs := allInts ((e.drop 1).toString.splitOn "_")
    match kind, fs with
    | "L", some (t :: rest) => (match mkTm rest with | some tm => (acc.1 ++ [(t, tm)], acc.2) | none => acc)
    | "M", some fs =>
      if fs.length == 8 then
        (match mkTm (fs.take 7) with | some tm => (acc.1, acc.2 ++ [(tm, fs.getD 7 (-1))]) | none => acc)
      else acc
    | _, _ => acc) ([], [])
  tabZone ls ms

def parseZone (s : String) : Option Zone :=
  if s == "utc" then some utcZone
  else if s.startsWith "fix:" then (parseInt (s.drop 4).toString).bind (fun e => if inI64 e then some (fixedZone e) else none)
  else if s.startsWith "tab:" then some (parseTab (s.drop 4).toString)
  else none

def mkLibc (inj : List (Site × Nat)) (now : Int) (zone : Zone) : Libc where
  fails s k := inj.any (fun e => e.1 == s && e.2 == k)
  now := now
  zoneOf tz := if tz == some "UTC" then utcZone else zone

def mkWorld (st : St) : World :=
  { env := st.env, libc := st.env, heap := st.heap, restoreFailed := false, calls := fun _ => 0 }

def tail (w0 w : World) : String :=
  s!" tz={showTz w.env} env={if w.env == w0.env then "same" else "diff"} st={if w.libc == w0.libc then "same" else "diff"} heap={w.heap}"

def showWin : Option (Int × Int) → String
  | some (b, e) => s!"ok {b} {e}"
  | none => "ok false"

/-- errno before every call (harness: `errno = E0`) -/
def E0 : Int := 4242

def isOp (op : String) : Bool :=
  ["limits", "settz", "valid", "lto", "ltowin", "totime", "win", "vlto", "vltowin", "ltz", "pty", "errnos", "wdtest"].contains op

def step (st : St) (ws : List String) : St × String :=
  let cfg := Generated.cfg
  match ws with
  | ["limits"] =>
    (st, s!"ok 8 {TIME_MIN} {TIME_MAX} {INT_MIN} {INT_MAX} {PIL_TIMER_CONTROL} {PIL_INHIBIT_TERMINATE} {PIL_INTERRUPTION} {PIL_CONTINUE} {PIL_NSPV}")
  | ["errnos"] =>
    (st, s!"ok {Generated.errInvalidPil} {Generated.errNoTime} {Generated.eOverflow} {Generated.eNoMem} {Generated.versionMinor}")
  | ["wdtest", k] =>
    if k == "hang" || k == "abort" then (st, s!"ok watchdog {k}") else (st, "rej parse")
  | ["settz", v] =>
    if v == "unset" then ({ st with env := none }, "ok")
    else match parseTz v with
      | some (some s) => ({ st with env := some s }, "ok")
      | _ => (st, "rej parse")
  | ["valid", p] =>
    (match parsePil p with
     | some pil => (st, s!"ok {if pilIsValidDate pil then 1 else 0}")
     | none => (st, "rej parse"))
  | [op, p, s, e, n, i] =>
    if op == "lto" || op == "ltowin" || op == "vlto" || op == "vltowin" then
      match parsePil p, parseI64 s, parseInt e, parseI64 n, parseInj i with
      | some pil, some start, some east, some now, some inj =>
        if !fitsInt east then (st, "rej parse") else
        let L := mkLibc inj now utcZone
        let w0 := mkWorld st
        if op == "lto" then
          let (r, w) := vbiPilLtoToTime cfg L w0 pil start east
          ({ env := w.env, heap := w.heap }, s!"ok {r} errno={convErrno}" ++ tail w0 w)
        else if op == "vlto" then
          let (r, w) := validPilLtoToTimeE cfg L w0 pil start east
          ({ env := w.env, heap := w.heap }, s!"ok {(toLtoRes r).toTime} errno={errnoOf r}" ++ tail w0 w)
        else if op == "ltowin" then
          let (r, w) := vbiPilLtoValidityWindow cfg L w0 pil start east
          ({ env := w.env, heap := w.heap }, showWin r ++ s!" errno={winErrno pil E0}" ++ tail w0 w)
        else
          let (r, e, w) := validPilLtoValidityWindowE cfg L w0 pil start east
          ({ env := w.env, heap := w.heap }, showWin r ++ s!" errno={e}" ++ tail w0 w)
      | _, _, _, _, _ => (st, "rej parse")
    else if op == "ltz" || op == "pty" then
      -- [op, start, tz, zone, now, inj]
      match parseI64 p, parseTz s, parseZone e, parseI64 n, parseInj i with
      | some start, some tz, some zone, some now, some inj =>
        let L := mkLibc inj now zone
        let w0 := mkWorld st
        if op == "ltz" then
          let en := localtimeTzErrno L w0 start tz
          match localtimeTz L w0 start tz with
          | (none, _, w) => ({ env := w.env, heap := w.heap }, s!"ok 0 errno={en}" ++ tail w0 w)
          | (some tm, old, w) =>
            let (rok, w) := restoreTz L w old tz.isSome
            ({ env := w.env, heap := w.heap },
             s!"ok 1 {tm.year} {tm.mon} {tm.mday} {tm.hour} {tm.min} {tm.sec} {tm.isdst} errno={en} r={if rok then 1 else 0}" ++ tail w0 w)
        else
          let (r, w) := vbiPtyValidityWindow L w0 start tz
          ({ env := w.env, heap := w.heap }, showWin r ++ s!" errno={vbiPtyValidityWindowErrno L w0 start tz}" ++ tail w0 w)
      | _, _, _, _, _ => (st, "rej parse")
    else if isOp op then (st, "rej parse")
    else (st, "rej op")
  | [op, p, s, t, z, n, i] =>
    if op == "totime" || op == "win" then
      match parsePil p, parseI64 s, parseTz t, parseZone z, parseI64 n, parseInj i with
      | some pil, some start, some tz, some zone, some now, some inj =>
        let L := mkLibc inj now zone
        let w0 := mkWorld st
        if op == "totime" then
          let (r, w) := vbiPilToTime cfg L w0 pil start tz
          ({ env := w.env, heap := w.heap }, s!"ok {r} errno={convErrno}" ++ tail w0 w)
        else
          let (r, w) := vbiPilValidityWindow cfg L w0 pil start tz
          ({ env := w.env, heap := w.heap }, showWin r ++ s!" errno={winErrno pil E0}" ++ tail w0 w)
      | _, _, _, _, _, _ => (st, "rej parse")
    else if isOp op then (st, "rej parse")
    else (st, "rej op")
  | op :: _ =>
    if isOp op then (st, "rej parse") else (st, "rej op")
  | [] => (st, "rej op")

def main : IO Unit := runLoop init step

end Zvbi.Driver.Pdc
