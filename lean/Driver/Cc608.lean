import Driver.Util
import ZvbiModel.Cc.Spec
/-!
Driver of the `Eia608` reference model (property oracle of C08): same op lines as `cc`;
`cc f hex` advances the reference decoder, `fetch n` prints the page the standard makes
visible for service n (run-length coded like harness/cc_harness.c, without dirty fields), followed by
` m=` and the same page without solid spaces (display memory only).
Every other op answers `ok`.
-/
namespace Zvbi.Driver.Cc608
open Zvbi.Driver Zvbi.Cc.Eia608

def hexStr (n : Nat) : String := String.ofList (Nat.toDigits 16 n)

def cellTok (c : RCell) : String :=
  let attr := (if c.underline then 1 else 0) ||| (if c.italic then 2 else 0) ||| (if c.flash then 4 else 0)
    ||| (c.opacity <<< 3) ||| (c.fg <<< 5) ||| (c.bg <<< 13)
  hexStr c.unicode ++ "." ++ hexStr attr

def rle (cells : List RCell) : String :=
  let rec go : List RCell → Option (RCell × Nat) → List String → List String
    | [], none, acc => acc.reverse
    | [], some (c, n), acc => (s!"{n}*{cellTok c}" :: acc).reverse
    | x :: xs, none, acc => go xs (some (x, 1)) acc
    | x :: xs, some (c, n), acc =>
      if x == c then go xs (some (c, n + 1)) acc else go xs (some (x, 1)) (s!"{n}*{cellTok c}" :: acc)
  ",".intercalate (go cells none [])

/-- the display memory alone, without the solid spaces `render` adds: an empty cell prints as the blank cell.
    `fetch` prints it as a second field (`m=`), so that the oracle can tell cells the standard defines
    (a character or attribute code was stored there) from cells it leaves to the decoder. -/
def memCell (isText : Bool) (m : Mem) (r c : Nat) : RCell :=
  match inside m r c with
  | some x => cellOf x
  | none => { unicode := 0x20, underline := false, italic := false, flash := false,
              opacity := if isText then 3 else 0, fg := 7, bg := 0 }

def memOnly (s : St) (i : Nat) : List RCell :=
  match s.svc[i]? with
  | some v => (List.range 15).flatMap (fun r => (List.range 34).map (fun c => memCell v.isText v.disp r c))
  | none => []

def step (s : St) (ws : List String) : St × String :=
  match ws with
  | ["cc", f, h] =>
    (match parseInt f, parseHex h with
     | some f, some [b0, b1] =>
       if f == 0 || f == 1 then (Zvbi.Cc.Eia608.step s (f == 1) b0 b1, "ok") else (s, "rej parse")
     | _, _ => (s, "rej parse"))
  | ["fetch", n] =>
    (match parseInt n with
     | some n => if n < 1 || n > 8 then (s, "ok false") else (s, s!"ok {rle (s.visible (n.toNat - 1))} m={rle (memOnly s (n.toNat - 1))}")
     | none => (s, "rej parse"))
  | ["chsw"] => (init, "ok")
  | _ => (s, "ok")

def main : IO Unit := runLoop init step

end Zvbi.Driver.Cc608
