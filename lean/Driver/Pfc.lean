import Driver.Util
import ZvbiModel.Pfc.Model
import ZvbiModel.Pfc.Spec
namespace Zvbi.Driver.Pfc
open Zvbi.Driver Zvbi.Pfc

def hexN (s : String) (n : Nat) : Option (List Nat) :=
  match parseHex s with
  | some b => if b.length == n then some b else none
  | none => none

def showBlocks (bs : List Block) : String :=
  bs.foldl (fun acc b => acc ++ s!" blk {b.app} {b.size} {toHex b.bytes}") ""

def parseItems : List String → Option (List Spec.Item)
  | [] => some []
  | a :: d :: g :: rest =>
    (match parseNat a, parseHex d, parseNat g, parseItems rest with
     | some a, some d, some g, some r => some (⟨a, d, g⟩ :: r)
     | _, _, _, _ => none)
  | _ => none

/-- ops: `new <pgno> <stream>`, `feed <42B>`, `reset` -/
def step (st : Option St) (ws : List String) : Option St × String :=
  match ws with
  | ["new", p, s] =>
    (match parseNat p, parseNat s with
     | some p, some s =>
       if p < 2147483648 ∧ s < 4294967296 then (some (new p s), "ok") else (st, "rej parse")
     | _, _ => (st, "rej parse"))
  | ["feed", h] =>
    (match hexN h 42 with
     | none => (st, "rej parse")
     | some buf =>
       match st with
       | none => (st, "rej state")
       | some s =>
         match feed s buf with
         | .ok o => (some o.st, (if o.ret then "ok 1" else "ok 0") ++ showBlocks o.blocks)
         | .error (.oob site) => (some s, s!"err oob {site}")
         | .error .fuel => (some s, "err fuel"))
  | ["reset"] =>
    (match st with
     | none => (st, "rej state")
     | some s => (some (reset s), "ok"))
  | "spec_stream" :: lead :: rest =>
    (match parseNat lead, parseItems rest with
     | some lead, some items =>
       (match Spec.encodeChecked lead items with
        | some rows => (st, "ok" ++ rows.foldl (fun acc p => acc ++ s!" {p.1} {toHex p.2}") "")
        | none => (st, "ok rejected-by-sender-self-check"))
     | _, _ => (st, "rej parse"))
  | "expect" :: _ => (st, "ok")
  | _ => (st, "rej op")

def main : IO Unit := runLoop none step
end Zvbi.Driver.Pfc
