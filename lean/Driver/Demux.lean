import Driver.Util
import ZvbiModel.Demux.Model
import ZvbiModel.Demux.Ts
import ZvbiModel.Generated.DemuxCfg
/-!
# Line-protocol driver of the DVB demux model (component `demux`, property C07)

ops (mirrored by harness/demux_harness.c):
  new pes | new ts <pid> | newcor pes | newcor ts <pid>     create a demux (with / without callback)
  feed <hex>            one vbi_dvb_demux_feed call
  feedn <k> <hex>       the bytes in successive calls of k bytes (k >= 1)
  cor <hex>             drain one buffer through vbi_dvb_demux_cor (max_lines 64)
  corn <k> <hex>        the same in successive buffers of k bytes
  reset                 vbi_dvb_demux_reset
  st                    resume state
  consts                extents and constants the model hard-codes
-/
namespace Zvbi.Driver.Demux
open Zvbi.Driver Zvbi.Demux
open Zvbi.Gen (demuxCorSkipsEmptyFrame)

inductive Dx where
  | none
  | pes (hasCb : Bool) (s : St)
  | ts (hasCb : Bool) (s : TsSt)

def showSliced (s : Sliced) : String := s!"{s.id}:{s.line}:{toHex s.data}"

def showFrame (f : FrameOut) : String :=
  s!"pts={f.pts} n={f.lines.length}" ++ String.join (f.lines.map fun s => " " ++ showSliced s)

def showFrames (fs : List FrameOut) : String :=
  if fs.isEmpty then "-" else " | ".intercalate (fs.map showFrame)

def showErr : Err → String
  | .oob s => s!"FAULT oob {s}"
  | .assertFail s => s!"FAULT assert {s}"

def chunks (k : Nat) (b : List Nat) : List (List Nat) :=
  let rec go : Nat → List Nat → List (List Nat) → List (List Nat)
    | 0, _, acc => acc.reverse
    | fuel + 1, b, acc => if b.isEmpty then acc.reverse else go fuel (b.drop k) (b.take k :: acc)
  go (b.length + 1) b []

def b2s (b : Bool) : String := if b then "1" else "0"

def showFs (fs : FS) : String :=
  s!"nf={b2s fs.newFrame} n={fs.frame.lines.length} lf={fs.frame.lastField} lfl={fs.frame.lastFieldLine} " ++
  s!"lfr={fs.frame.lastFrameLine} du={fs.frame.lastDuId} ndu={fs.frame.nDu} fpts={fs.framePts} ppts={fs.packetPts}"

/-- feed a list of buffers to a PES demux -/
def pesFeeds (s : St) (bufs : List (List Nat)) : St × List FrameOut × Option Err :=
  bufs.foldl (fun (acc : St × List FrameOut × Option Err) b =>
    match acc with
    | (s, fr, some e) => (s, fr, some e)
    | (s, fr, none) => let r := pesFeed SrcCfg.current s b; (r.st, fr ++ r.frames, r.err)) (s, [], none)

def tsFeeds (s : TsSt) (bufs : List (List Nat)) : TsSt × List FrameOut × Option Err :=
  bufs.foldl (fun (acc : TsSt × List FrameOut × Option Err) b =>
    match acc with
    | (s, fr, some e) => (s, fr, some e)
    | (s, fr, none) => let r := tsFeed SrcCfg.current s b; (r.st, fr ++ r.frames, r.err)) (s, [], none)

def pesCors (s : St) (bufs : List (List Nat)) : St × List FrameOut × Option Err :=
  bufs.foldl (fun (acc : St × List FrameOut × Option Err) b =>
    match acc with
    | (s, fr, some e) => (s, fr, some e)
    | (s, fr, none) => let r := pesCorDrain (2 * b.length + 4) SrcCfg.current 0 s b 0 64
                       (r.st, fr ++ r.frames, if r.stalled then some (.assertFail "cor_livelock") else r.err)) (s, [], none)

def tsCors (s : TsSt) (bufs : List (List Nat)) : TsSt × List FrameOut × Option Err :=
  bufs.foldl (fun (acc : TsSt × List FrameOut × Option Err) b =>
    match acc with
    | (s, fr, some e) => (s, fr, some e)
    | (s, fr, none) => let r := tsCorDrain SrcCfg.current (2 * b.length + 4) SrcCfg.current.corSkipsEmpty 0 s b 0 64
                       (r.st, fr ++ r.frames, if r.stalled then some (.assertFail "cor_livelock") else r.err)) (s, [], none)

def outLine (fr : List FrameOut) (e : Option Err) : String :=
  match e with
  | some (.assertFail "cor_livelock") => s!"ok LIVELOCK {showFrames fr}"
  | some e => s!"ok {showErr e} {showFrames fr}"
  | none => s!"ok 1 {showFrames fr}"

def runBufs (dx : Dx) (wantCb : Bool) (bufs : List (List Nat)) : Dx × String :=
  match dx with
  | .none => (dx, "rej state")
  | .pes hasCb s =>
    if hasCb ≠ wantCb then (dx, "rej state")
    else
      let (s', fr, e) := if wantCb then pesFeeds s bufs else pesCors s bufs
      (if e.isSome then .none else .pes hasCb s', outLine fr e)
  | .ts hasCb s =>
    if hasCb ≠ wantCb then (dx, "rej state")
    else
      let (s', fr, e) := if wantCb then tsFeeds s bufs else tsCors s bufs
      (if e.isSome then .none else .ts hasCb s', outLine fr e)

def mkNew (hasCb : Bool) (args : List String) : Option (Dx × String) :=
  match args with
  | ["pes"] => some (.pes hasCb St.init, "ok")
  | ["ts", p] => match parseNat p with
    | some pid => if tsPidOk pid then some (.ts hasCb (TsSt.init pid), "ok") else some (.none, "ok null")
    | none => none
  | _ => none

def step (dx : Dx) (ws : List String) : Dx × String :=
  match ws with
  | "new" :: args => match mkNew true args with
    | some r => r | none => (dx, "rej parse")
  | "newcor" :: args => match mkNew false args with
    | some r => r | none => (dx, "rej parse")
  | ["feed", h] => match parseHex h with
    | some b => if b.isEmpty then (dx, "rej parse") else runBufs dx true [b]
    | none => (dx, "rej parse")
  | ["feedn", k, h] => match parseNat k, parseHex h with
    | some k, some b => if k = 0 ∨ b.isEmpty then (dx, "rej parse") else runBufs dx true (chunks k b)
    | _, _ => (dx, "rej parse")
  | ["cor", h] => match parseHex h with
    | some b => if b.isEmpty then (dx, "rej parse") else runBufs dx false [b]
    | none => (dx, "rej parse")
  | ["corn", k, h] => match parseNat k, parseHex h with
    | some k, some b => if k = 0 ∨ b.isEmpty then (dx, "rej parse") else runBufs dx false (chunks k b)
    | _, _ => (dx, "rej parse")
  | ["reset"] => match dx with
    | .none => (dx, "rej state")
    | .pes cb _ => (.pes cb St.init, "ok")
    | .ts cb s => (.ts cb (TsSt.init s.pid), "ok")
  | ["st"] => match dx with
    | .none => (dx, "rej state")
    | .pes _ s =>
      (dx, s!"ok pes skip={s.pw.skip} la={s.pw.lookahead} lo={s.pw.leftover} {showFs s.fs}")
    | .ts _ s =>
      let c := match s.cont with | none => "-1" | some c => toString c
      (dx, s!"ok ts skip={s.skip} co={s.consume} la={s.lookahead} sync={b2s s.inSync} ft={s.frameRest.length} " ++
           s!"pt={s.pesTodo} cc={c} av={s.tsBuf.length} {showFs s.fs}")
  | ["consts"] =>
    (dx, s!"ok pesbuf={PES_BUF_SIZE} tsbuf={TS_BUF_SIZE} nsliced={N_SLICED} pesla={PES_HEADER_LOOKAHEAD} " ++
         s!"tsla={TS_HEADER_LOOKAHEAD} tssync={TS_SYNC_SEARCH_LOOKAHEAD} ps1={PRIVATE_STREAM_1} " ++
         s!"du={DU_STUFFING},{DU_TTX_NON_SUBTITLE},{DU_TTX_SUBTITLE},{DU_VPS},{DU_WSS},{DU_CC},{DU_MONO}," ++
         s!"{DU_ZVBI_WSS_CPR1204},{DU_ZVBI_CC_525},{DU_ZVBI_MONO_525} " ++
         s!"sl={SL_TELETEXT_B},{SL_VPS},{SL_VPS_F2},{SL_CAPTION_625_F1},{SL_CAPTION_625_F2},{SL_WSS_625}," ++
         s!"{SL_CAPTION_525_F1},{SL_CAPTION_525_F2},{SL_WSS_CPR1204}")
  | _ => (dx, "rej op")

def main : IO Unit := runLoop Dx.none step

end Zvbi.Driver.Demux
