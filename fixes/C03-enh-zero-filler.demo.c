/* Demonstration for fixes/C03-enh-zero-filler.md (public API only).  Build against a libzvbi built from the tree to test:
   gcc -std=gnu99 -D_GNU_SOURCE -I$REPO -I$REPO/src C03-enh-zero-filler.demo.c libzvbi.a -lm -lpthread -lpng -lz
   Packets: header 1/23, rows 1 and 5, header 1/24 | header 1/23, X/26/0 (13th triplet: G2 character 0x41 at row 5
   column 3), rows 1 and 5, header 1/24. */
static const unsigned char PK[9][42]={{2,21,94,73,21,21,21,21,21,21,32,32,32,32,32,32,32,32,32,32,32,32,32,32,32,32,32,32,32,32,32,32,32,32,32,32,32,32,32,32,32,32},{199,21,194,194,194,194,194,194,194,194,194,194,194,194,194,194,194,194,194,194,194,194,194,194,194,194,194,194,194,194,194,194,194,194,194,194,194,194,194,194,194,194},{199,73,193,193,193,193,193,193,193,193,193,193,193,193,193,193,193,193,193,193,193,193,193,193,193,193,193,193,193,193,193,193,193,193,193,193,193,193,193,193,193,193},{2,21,100,73,21,21,21,21,21,21,32,32,32,32,32,32,32,32,32,32,32,32,32,32,32,32,32,32,32,32,32,32,32,32,32,32,32,32,32,32,32,32},{2,21,94,73,21,21,21,21,21,21,32,32,32,32,32,32,32,32,32,32,32,32,32,32,32,32,32,32,32,32,32,32,32,32,32,32,32,32,32,32,32,32},{2,182,21,204,146,0,210,146,0,213,146,128,225,146,0,230,146,128,248,146,128,255,146,0,1,147,0,6,147,128,24,147,128,31,147,0,230,146,128,151,188,193},{199,21,194,194,194,194,194,194,194,194,194,194,194,194,194,194,194,194,194,194,194,194,194,194,194,194,194,194,194,194,194,194,194,194,194,194,194,194,194,194,194,194},{199,73,193,193,193,193,193,193,193,193,193,193,193,193,193,193,193,193,193,193,193,193,193,193,193,193,193,193,193,193,193,193,193,193,193,193,193,193,193,193,193,193},{2,21,100,73,21,21,21,21,21,21,32,32,32,32,32,32,32,32,32,32,32,32,32,32,32,32,32,32,32,32,32,32,32,32,32,32,32,32,32,32,32,32}};
#define NPK 9
#include <stdio.h>
#include <string.h>
#include <stdlib.h>
#include "src/libzvbi.h"
static void h(vbi_event *e, void *u) {}
static void show(vbi_decoder *d, const char *when) {
	vbi_page pg; int c;
	if (!vbi_fetch_vt_page(d, &pg, 0x123, 0, VBI_WST_LEVEL_1p5, 25, 0)) { printf("%s: none\n", when); return; }
	printf("%s: row 5 =", when);
	for (c = 0; c < 8; ++c) printf(" %04x", pg.text[5 * pg.columns + c].unicode);
	printf("\n");
	vbi_unref_page(&pg);
}
static void run(int from, const char *what) {
	vbi_decoder *d = vbi_decoder_new(); int i; double t = 1.0;
	vbi_event_handler_register(d, VBI_EVENT_TTX_PAGE, h, NULL);
	for (i = from; i < NPK; ++i) {
		vbi_sliced s; memset(&s, 0, sizeof s);
		s.id = VBI_SLICED_TELETEXT_B; s.line = 7; memcpy(s.data, PK[i], 42);
		vbi_decode(d, &s, 1, t); t += 0.04;
	}
	show(d, what);
	vbi_decoder_delete(d);
}
int main(void) {
	run(4, "page 123 with X/26 received by a fresh decoder            ");
	run(0, "same transmission, page was cached without X/26 before  ");
	return 0;
}
