/* Harness for component `ev` (C11): the event handler list of src/vbi.c on the real code.
   Speaks the line protocol of lean/Driver/Ev.lean.

   Six C handler functions h0..h5 interpret scripts from a global table (the same scripts the
   model's behaviour function denotes) and log (record id, handler, user, event type).
   Record ids are assigned by the harness in calloc order by watching vbi->handlers after
   every API call (a shadow list), so they do not depend on the model.  Built with
   -Wl,--wrap=calloc so one calloc can be made to fail.  ASan catches any touch of a freed
   struct event_handler. */
#include "hutil.h"
#include <pthread.h>
#include <stdarg.h>
#include <stddef.h>
#include <signal.h>
#include <unistd.h>
#include <sys/time.h>
#include "src/vbi.h"
#include "src/hamm.h"
#include "src/cache.h"
#include "src/event-priv.h"

#define NFN 6
#define SCRIPT_CAP 48
#define MAX_SCRIPT_LEN 8
#define MAX_SCRIPTS 256

/* ---- calloc failure injection ------------------------------------------------------- */
extern void *__real_calloc(size_t, size_t);
static int fail_next_calloc;
void *__wrap_calloc(size_t n, size_t s)
{
	if (fail_next_calloc) { fail_next_calloc = 0; return NULL; }
	return __real_calloc(n, s);
}

extern void *__real_malloc(size_t);
static int fail_next_malloc;
void *__wrap_malloc(size_t n)
{
	if (fail_next_malloc) { fail_next_malloc = 0; return NULL; }
	return __real_malloc(n);
}

/* ---- output buffer -------------------------------------------------------------------- */
static char *obuf; static size_t olen, ocap;
static void out(const char *fmt, ...)
{
	va_list ap; int n;
	if (ocap - olen < 256) { ocap = ocap ? ocap * 2 : 4096; obuf = (char *) realloc(obuf, ocap); }
	va_start(ap, fmt); n = vsnprintf(obuf + olen, ocap - olen, fmt, ap); va_end(ap);
	olen += (size_t) n;
}

/* ---- script table --------------------------------------------------------------------- */
struct call { int kind /* 0 reg 1 add */, fn, oom; unsigned user, mask; int wrapper /* unreg / remove: through vbi_event_handler_unregister / _remove */; };
struct script { int n; struct call c[MAX_SCRIPT_LEN]; };
struct tentry { int fn; unsigned user; int nscripts; struct script *scripts; int invocations; };
static struct tentry *table; static int ntable, nscripts_total;

static vbi_decoder *vbi;
static int calls_in_send;

/* ---- shadow of vbi->handlers ---------------------------------------------------------- */
struct shadow { struct event_handler *p; int id; };
static struct shadow *sh; static int nsh, next_id;

static void hN(int fn, vbi_event *ev, void *user);
#define H(n) static void h##n(vbi_event *ev, void *user) { hN(n, ev, user); }
H(0) H(1) H(2) H(3) H(4) H(5)
static vbi_event_handler hfn[NFN] = { h0, h1, h2, h3, h4, h5 };
static int fn_index(vbi_event_handler f) { int i; for (i = 0; i < NFN; ++i) if (hfn[i] == f) return i; return -1; }

/* emits free:/alloc: entries for what changed in the chain since the last call */
static void sync_shadow(void)
{
	struct event_handler *eh; int i, j, n = 0;
	struct shadow *nw;
	for (eh = vbi->handlers; eh; eh = eh->next) ++n;
	nw = (struct shadow *) malloc(sizeof(*nw) * (size_t)(n + 1));
	/* frees first (walk order = chain order), then the appended record */
	for (i = 0; i < nsh; ++i) {
		int live = 0;
		for (eh = vbi->handlers; eh; eh = eh->next) if (eh == sh[i].p) live = 1;
		if (!live) out(" free:%d", sh[i].id);
	}
	j = 0;
	for (eh = vbi->handlers; eh; eh = eh->next) {
		int id = -1;
		for (i = 0; i < nsh; ++i) if (sh[i].p == eh) id = sh[i].id;
		if (id < 0) {
			id = next_id++;
			out(" alloc:%d:%d:%u:%u", id, fn_index(eh->handler),
			    (unsigned)(uintptr_t) eh->user_data, (unsigned) eh->event_mask);
		}
		nw[j].p = eh; nw[j].id = id; ++j;
	}
	free(sh); sh = nw; nsh = n;
}

/* ---- one API call with observation of vbi_event_enable's resets ---------------------- */
static void do_call(const struct call *c)
{
	vbi_bool r; unsigned flags = 0; vbi_trigger *planted;
	/* sentinels in the decoder state that the resets overwrite */
	vbi->cn->have_top = 2;
	vbi->cc.xds = 2;
	vbi->network.type = 0x7777;
	vbi->aspect_source = 77;
	vbi->vps_pid.cni = 0x7777;
	/* struct vbi_trigger starts with its `next` pointer; vbi_trigger_flush frees the list */
	planted = NULL;
	if (NULL == vbi->triggers) { planted = (vbi_trigger *) __real_calloc(1, 4096); vbi->triggers = planted; }
	fail_next_calloc = c->oom;
	if (c->wrapper && c->kind == 0) {
		vbi_event_handler_unregister(vbi, hfn[c->fn], (void *)(uintptr_t) c->user); r = TRUE;
	} else if (c->wrapper) {
		vbi_event_handler_remove(vbi, hfn[c->fn]); r = TRUE;
	} else if (c->kind == 0)
		r = vbi_event_handler_register(vbi, (int) c->mask, hfn[c->fn], (void *)(uintptr_t) c->user);
	else
		r = vbi_event_handler_add(vbi, (int) c->mask, hfn[c->fn], (void *)(uintptr_t) c->user);
	fail_next_calloc = 0;
	sync_shadow();
	if (vbi->cn->have_top != 2) flags |= 1;
	if (vbi->cc.xds != 2) flags |= 2;
	if (vbi->network.type != 0x7777) flags |= 4;
	if (planted && vbi->triggers != planted) flags |= 8;
	if (vbi->aspect_source != 77) flags |= 16;
	if (vbi->vps_pid.cni != 0x7777) flags |= 32;
	/* restore neutral values */
	vbi->cn->have_top = 0; vbi->cc.xds = 0; vbi->aspect_source = 0; vbi->vps_pid.cni = 0;
	if (vbi->network.type == 0x7777) vbi->network.type = 0;
	if (planted && vbi->triggers == planted) { vbi->triggers = NULL; free(planted); }
	if (r) out(" en:%u:%u", (unsigned) vbi->event_mask, flags);
	else out(" oom");
}

static struct tentry *lookup(int fn, unsigned user)
{
	int i;
	for (i = 0; i < ntable; ++i) if (table[i].fn == fn && table[i].user == user) return &table[i];
	return NULL;
}

static struct tentry *lookup_or_create(int fn, unsigned user)
{
	struct tentry *t = lookup(fn, user);
	if (!t) {
		table = (struct tentry *) realloc(table, sizeof(*table) * (size_t)(ntable + 1));
		t = &table[ntable++]; memset(t, 0, sizeof *t); t->fn = fn; t->user = user;
	}
	return t;
}

static void hN(int fn, vbi_event *ev, void *user)
{
	unsigned u = (unsigned)(uintptr_t) user; int i, id = -1;
	struct tentry *t; struct script sc; int run;
	for (i = 0; i < nsh; ++i)
		if (sh[i].p->handler == hfn[fn] && sh[i].p->user_data == user) id = sh[i].id;
	if (id < 0) out(" call:?:%d:%u:%u", fn, u, (unsigned) ev->type);
	else out(" call:%d:%d:%u:%u", id, fn, u, (unsigned) ev->type);
	run = calls_in_send < SCRIPT_CAP;
	++calls_in_send;
	t = lookup_or_create(fn, u);
	if (0 == t->nscripts) { ++t->invocations; return; }
	sc = t->scripts[t->invocations % t->nscripts];   /* copy: the script runs API calls */
	++t->invocations;
	if (!run) return;
	for (i = 0; i < sc.n; ++i) do_call(&sc.c[i]);
}

/* ---- parsing ---------------------------------------------------------------------------- */
static int p32(const char *s, unsigned *v)
{
	long long x;
	if (!h_int(s, &x) || s[0] == '-' || x < 0 || x > 4294967295LL) return 0;
	*v = (unsigned) x; return 1;
}
static int pfn(const char *s, int *v) { unsigned x; if (!p32(s, &x) || x >= NFN) return 0; *v = (int) x; return 1; }

/* words -> call; returns 0 on error */
static int parse_call(char **w, int n, struct call *c)
{
	memset(c, 0, sizeof *c);
	if (n == 4 && (!strcmp(w[0], "reg") || !strcmp(w[0], "reg!"))) { c->kind = 0; c->oom = w[0][3] == '!'; return pfn(w[1], &c->fn) && p32(w[2], &c->user) && p32(w[3], &c->mask); }
	if (n == 3 && !strcmp(w[0], "unreg")) { c->kind = 0; c->wrapper = 1; return pfn(w[1], &c->fn) && p32(w[2], &c->user); }
	if (n == 4 && (!strcmp(w[0], "add") || !strcmp(w[0], "add!"))) { c->kind = 1; c->oom = w[0][3] == '!'; return pfn(w[1], &c->fn) && p32(w[2], &c->user) && p32(w[3], &c->mask); }
	if (n == 2 && !strcmp(w[0], "remove")) { c->kind = 1; c->wrapper = 1; return pfn(w[1], &c->fn); }
	return 0;
}

/* split s at every sep (keeps empty fields, like Lean's splitOn); returns count or -1 if > max */
static int split(char *s, char sep, char **w, int max)
{
	int n = 0; char *p = s;
	for (;;) {
		if (n >= max) return -1;
		w[n++] = p;
		p = strchr(p, sep);
		if (!p) break;
		*p++ = 0;
	}
	return n;
}

static int parse_script(char *s, struct script *sc)
{
	char *parts[MAX_SCRIPT_LEN + 1]; int n, i;
	sc->n = 0;
	if (!strcmp(s, "-")) return 1;
	{ int cnt = 1; char *p; for (p = s; *p; ++p) if (*p == ';') ++cnt; if (cnt > MAX_SCRIPT_LEN) return 0; }
	n = split(s, ';', parts, MAX_SCRIPT_LEN);
	if (n < 0) return 0;
	for (i = 0; i < n; ++i) {
		char *w[6]; int k = split(parts[i], ':', w, 5);
		if (k < 0 || !parse_call(w, k, &sc->c[i])) return 0;
	}
	sc->n = n;
	return 1;
}


/* ======== second list: src/event.c ======================================================== */
struct lcall { int kind /* 0 add 1 rmrec 2 rmev 3 send */, fn, oom; unsigned user, mask /* or id / type */; };
struct lscript { int n; struct lcall c[MAX_SCRIPT_LEN]; };
struct ltentry { int fn; unsigned user; int nscripts; struct lscript *scripts; int invocations; };
static struct ltentry *ltable; static int nltable;
static _vbi_event_handler_list el; static int el_live;
struct lshadow { vbi_event_handler_rec *p; int id; int remove; };
static struct lshadow *lsh; static int nlsh, lnext_id, lnext_did;
static int lcalls_in_op;
static int ldid_stack[4096]; static int ldepth;

static void lN(int fn, vbi_event *ev, void *user);
#define L(n) static void l##n(vbi_event *ev, void *user) { lN(n, ev, user); }
L(0) L(1) L(2) L(3) L(4) L(5)
static vbi_event_handler lfn[NFN] = { l0, l1, l2, l3, l4, l5 };
static int lfn_index(vbi_event_handler f) { int i; for (i = 0; i < NFN; ++i) if (lfn[i] == f) return i; return -1; }

static void lsync(void)
{
	vbi_event_handler_rec *eh; int i, j, n = 0; struct lshadow *nw;
	for (eh = el.first; eh; eh = eh->next) ++n;
	nw = (struct lshadow *) malloc(sizeof(*nw) * (size_t)(n + 1));
	/* newly removed (unlinked or newly marked), in list order */
	for (i = 0; i < nlsh; ++i) {
		vbi_event_handler_rec *q = NULL;
		for (eh = el.first; eh; eh = eh->next) if (eh == lsh[i].p) q = eh;
		if (!lsh[i].remove && (!q || q->remove)) out(" unreg:%d", lsh[i].id);
	}
	for (i = 0; i < nlsh; ++i) {
		int live = 0;
		for (eh = el.first; eh; eh = eh->next) if (eh == lsh[i].p) live = 1;
		if (!live) out(" free:%d", lsh[i].id);
	}
	j = 0;
	for (eh = el.first; eh; eh = eh->next) {
		int id = -1;
		for (i = 0; i < nlsh; ++i) if (lsh[i].p == eh) id = lsh[i].id;
		if (id < 0) {
			id = lnext_id++;
			out(" alloc:%d:%d:%u:%u", id, lfn_index(eh->callback), (unsigned)(uintptr_t) eh->user_data, (unsigned) eh->event_mask);
		}
		nw[j].p = eh; nw[j].id = id; nw[j].remove = eh->remove ? 1 : 0; ++j;
	}
	free(lsh); lsh = nw; nlsh = n;
}

static char ldummy_rec[64];

static void do_lcall(const struct lcall *c)
{
	out(" a");
	if (c->kind == 0) {
		vbi_event_handler_rec *r;
		fail_next_malloc = c->oom;
		r = _vbi_event_handler_list_add(&el, c->mask, lfn[c->fn], (void *)(uintptr_t) c->user);
		if (fail_next_malloc) { fail_next_malloc = 0; lsync(); }           /* malloc was not reached */
		else if (c->oom) { lsync(); if (NULL == r && c->mask != 0) out(" oom"); }
		else lsync();
	} else if (c->kind == 1) {
		vbi_event_handler_rec *p = (vbi_event_handler_rec *) ldummy_rec; int i;   /* a pointer that is no list member */
		for (i = 0; i < nlsh; ++i) if (lsh[i].id == (int) c->mask) p = lsh[i].p;
		_vbi_event_handler_list_remove(&el, p);
		lsync();
	} else if (c->kind == 2) {
		_vbi_event_handler_list_remove_by_event(&el, c->mask);
		lsync();
	} else {
		vbi_event *ev = (vbi_event *) calloc(1, sizeof(*ev));
		ev->type = (int) c->mask;
		int d = lnext_did++;
		if (ldepth < 4095) ldid_stack[++ldepth] = d;
		out(" s:%d:%u", d, c->mask);
		_vbi_event_handler_list_send(&el, ev);
		--ldepth;
		free(ev);
		lsync();
		out(" r:%d", d);
	}
}

static struct ltentry *llookup_or_create(int fn, unsigned user)
{
	int i; struct ltentry *t;
	for (i = 0; i < nltable; ++i) if (ltable[i].fn == fn && ltable[i].user == user) return &ltable[i];
	ltable = (struct ltentry *) realloc(ltable, sizeof(*ltable) * (size_t)(nltable + 1));
	t = &ltable[nltable++]; memset(t, 0, sizeof *t); t->fn = fn; t->user = user;
	return t;
}

static void lN(int fn, vbi_event *ev, void *user)
{
	unsigned u = (unsigned)(uintptr_t) user; int i, id = -1, run;
	struct ltentry *t; struct lscript sc;
	for (i = 0; i < nlsh; ++i)
		if (lsh[i].p->callback == lfn[fn] && lsh[i].p->user_data == user) id = lsh[i].id;
	if (id < 0) out(" call:%d:?:%d:%u:%u", ldid_stack[ldepth], fn, u, (unsigned) ev->type);
	else out(" call:%d:%d:%d:%u:%u", ldid_stack[ldepth], id, fn, u, (unsigned) ev->type);
	run = lcalls_in_op < SCRIPT_CAP;
	++lcalls_in_op;
	t = llookup_or_create(fn, u);
	if (0 == t->nscripts) { ++t->invocations; return; }
	sc = t->scripts[t->invocations % t->nscripts];
	++t->invocations;
	if (!run) return;
	for (i = 0; i < sc.n; ++i) do_lcall(&sc.c[i]);
}

static int parse_lcall(char **w, int n, struct lcall *c)
{
	memset(c, 0, sizeof *c);
	if (n == 4 && (!strcmp(w[0], "add") || !strcmp(w[0], "add!"))) { c->kind = 0; c->oom = w[0][3] == '!'; return pfn(w[1], &c->fn) && p32(w[2], &c->user) && p32(w[3], &c->mask); }
	if (n == 3 && !strcmp(w[0], "rm")) { c->kind = 0; return pfn(w[1], &c->fn) && p32(w[2], &c->user); }
	if (n == 2 && !strcmp(w[0], "rmrec")) { c->kind = 1; return p32(w[1], &c->mask); }
	if (n == 2 && !strcmp(w[0], "rmev")) { c->kind = 2; return p32(w[1], &c->mask); }
	if (n == 2 && !strcmp(w[0], "send")) { c->kind = 3; return p32(w[1], &c->mask); }
	return 0;
}

static int parse_lscript(char *s, struct lscript *sc)
{
	char *parts[MAX_SCRIPT_LEN + 1]; int n, i;
	sc->n = 0;
	if (!strcmp(s, "-")) return 1;
	{ int cnt = 1; char *p; for (p = s; *p; ++p) if (*p == ';') ++cnt; if (cnt > MAX_SCRIPT_LEN) return 0; }
	n = split(s, ';', parts, MAX_SCRIPT_LEN);
	if (n < 0) return 0;
	for (i = 0; i < n; ++i) {
		char *w[6]; int k = split(parts[i], ':', w, 5);
		if (k < 0 || !parse_lcall(w, k, &sc->c[i])) return 0;
	}
	sc->n = n;
	return 1;
}

static void ldump(void)
{
	vbi_event_handler_rec *eh; int i;
	out(" |");
	for (eh = el.first; eh; eh = eh->next) {
		int id = -1;
		for (i = 0; i < nlsh; ++i) if (lsh[i].p == eh) id = lsh[i].id;
		out(" %d:%d:%u:%u:%d", id, lfn_index(eh->callback), (unsigned)(uintptr_t) eh->user_data, (unsigned) eh->event_mask, eh->remove ? 1 : 0);
	}
	out(" | em=%u rc=%u", (unsigned) el.event_mask, el.ref_count);
}

static void lreset(void)
{
	int i;
	if (el_live) _vbi_event_handler_list_destroy(&el);
	_vbi_event_handler_list_init(&el); el_live = 1;
	for (i = 0; i < nltable; ++i) free(ltable[i].scripts);
	free(ltable); ltable = NULL; nltable = 0;
	free(lsh); lsh = NULL; nlsh = 0; lnext_id = 0; lnext_did = 0; ldepth = 0;
}

/* returns 1 if the op was one of the second list's */
static int lop(void)
{
	struct lcall c; char *w[5]; int n = 0, f; unsigned u;
	static const char *names[] = { "lscript", "ladd", "ladd!", "lrm", "lrmrec", "lrmev", "lsend" };
	int i, known = 0;
	for (i = 0; i < 7; ++i) if (H_IS(0, names[i])) known = 1;
	if (!known) return 0;
	if (H_IS(0, "lscript")) {
		struct lscript sc;
		if (h_ntok != 4 || !pfn(h_tok[1], &f) || !p32(h_tok[2], &u) || !parse_lscript(h_tok[3], &sc)) printf("rej parse\n");
		else if (nscripts_total >= MAX_SCRIPTS) printf("rej full\n");
		else {
			struct ltentry *t = llookup_or_create(f, u);
			t->scripts = (struct lscript *) realloc(t->scripts, sizeof(struct lscript) * (size_t)(t->nscripts + 1));
			t->scripts[t->nscripts++] = sc; ++nscripts_total;
			printf("ok\n");
		}
		return 1;
	}
	w[0] = h_tok[0] + 1;                       /* ladd -> add ... */
	for (n = 1; n < h_ntok && n < 5; ++n) w[n] = h_tok[n];
	if (h_ntok > 4 || !parse_lcall(w, h_ntok, &c)) { printf("rej parse\n"); return 1; }
	lcalls_in_op = 0;
	do_lcall(&c);
	ldump(); printf("%s\n", obuf);
	return 1;
}

/* ---- state -------------------------------------------------------------------------------- */
static int mutex_held(void)
{
	if (0 == pthread_mutex_trylock(&vbi->event_mutex)) { pthread_mutex_unlock(&vbi->event_mutex); return 0; }
	return 1;
}

static void reset_all(void)
{
	int i;
	if (vbi) {
		if (mutex_held()) pthread_mutex_unlock(&vbi->event_mutex);  /* leaked by a failed calloc */
		vbi_decoder_delete(vbi);
	}
	for (i = 0; i < ntable; ++i) free(table[i].scripts);
	free(table); table = NULL; ntable = 0; nscripts_total = 0;
	free(sh); sh = NULL; nsh = 0; next_id = 0;
	vbi = vbi_decoder_new();
	if (!vbi) { fprintf(stderr, "vbi_decoder_new failed\n"); exit(3); }
	lreset();
}

static void dump(void)
{
	struct event_handler *eh; int i;
	out(" |");
	for (eh = vbi->handlers; eh; eh = eh->next) {
		int id = -1;
		for (i = 0; i < nsh; ++i) if (sh[i].p == eh) id = sh[i].id;
		out(" %d:%d:%u:%u", id, fn_index(eh->handler), (unsigned)(uintptr_t) eh->user_data, (unsigned) eh->event_mask);
	}
	out(" | em=%u", (unsigned) vbi->event_mask);
	if (vbi->next_handler) {
		int id = -1;
		for (i = 0; i < nsh; ++i) if (sh[i].p == vbi->next_handler) id = sh[i].id;
		out(" cur=%d", id);
	} else out(" cur=-");
	out(" lk=%d", mutex_held());
}

/* ---- Teletext packets -------------------------------------------------------------------- */
static void mk_header(uint8_t *p, int mag, int page, int sub)
{
	int i, a = (mag & 7);
	p[0] = vbi_ham8(a & 15); p[1] = vbi_ham8(a >> 4);
	p[2] = vbi_ham8(page & 15); p[3] = vbi_ham8(page >> 4);
	p[4] = vbi_ham8(sub & 15); p[5] = vbi_ham8((sub >> 4) & 7);
	p[6] = vbi_ham8((sub >> 8) & 15); p[7] = vbi_ham8((sub >> 12) & 3);
	p[8] = vbi_ham8(0); p[9] = vbi_ham8(0);
	for (i = 10; i < 42; ++i) p[i] = vbi_par8(' ');
}
static void mk_row(uint8_t *p, int mag, int row)
{
	int i, a = (mag & 7) | (row << 3);
	p[0] = vbi_ham8(a & 15); p[1] = vbi_ham8(a >> 4);
	for (i = 2; i < 42; ++i) p[i] = vbi_par8('A' + row);
}
static void feed(const uint8_t *src)
{
	uint8_t *b = (uint8_t *) malloc(42);   /* exact size */
	memcpy(b, src, 42);
	vbi_decode_teletext(vbi, b);
	free(b);
}

static int valid_pgno(long long p)
{
	return p >= 0x100 && p <= 0x899 && ((p >> 4) & 15) <= 9 && (p & 15) <= 9;
}

/* ---- vbi_event_enable on a decoder full of sentinels ---------------------------------------- */
static void hE(vbi_event *ev, void *user) { (void) ev; (void) user; }

static int all_bytes(const void *p, size_t n, int v)
{
	const unsigned char *b = (const unsigned char *) p; size_t i;
	for (i = 0; i < n; ++i) if (b[i] != (unsigned char) v) return 0;
	return 1;
}
/* 0 = reset state, 7 = sentinel untouched, 9 = anything else */
static int tri(int is_reset, int is_planted) { return is_reset ? 0 : is_planted ? 7 : 9; }

static void plant_pi(vbi_program_info *pi)
{
	pi->month = 7; pi->title[0] = 'x'; pi->rating_auth = (vbi_rating_auth) 7; pi->cgms_a = 7;
	pi->aspect.first_line = 7; pi->description[7][0] = 'x'; pi->caption_language[7] = "x";
	pi->audio[1].mode = (vbi_audio_mode) 7; pi->elapsed_sec = 7;
}
static int pi_state(const vbi_program_info *pi)
{
	int r = pi->month == -1 && pi->title[0] == 0 && pi->rating_auth == VBI_RATING_AUTH_NONE && pi->cgms_a == -1
		&& pi->aspect.first_line == -1 && pi->description[7][0] == 0 && pi->caption_language[7] == NULL
		&& pi->audio[1].mode == VBI_AUDIO_MODE_UNKNOWN && pi->elapsed_sec == -1;
	int s = pi->month == 7 && pi->title[0] == 'x' && (int) pi->rating_auth == 7 && pi->cgms_a == 7
		&& pi->aspect.first_line == 7 && pi->description[7][0] == 'x' && pi->caption_language[7] != NULL
		&& (int) pi->audio[1].mode == 7 && pi->elapsed_sec == 7;
	return tri(r, s);
}

#define EXCL(f) { offsetof(struct vbi_decoder, f), sizeof(((struct vbi_decoder *) 0)->f) }
static void op_enab(unsigned old, unsigned new_)
{
	static const struct { size_t off, len; } excl[] = {
		EXCL(network), EXCL(triggers), EXCL(prog_info), EXCL(aspect_source), EXCL(vt), EXCL(cc),
		EXCL(event_mutex), EXCL(event_mask), EXCL(handlers), EXCL(next_handler), EXCL(vps_pid),
		EXCL(cni_cycle), EXCL(cni_announced) };
	vbi_decoder *v = vbi_decoder_new();
	unsigned char *snap; vbi_trigger *planted; size_t i, k; int rest = 7, trg;
	if (!v) { printf("rej oom\n"); return; }
	if (old) vbi_event_handler_register(v, (int) old, hE, NULL);
	/* sentinels */
	v->cn->have_top = 7; v->cn->initial_page.pgno = 0x777;
	v->cc.xds = 7; v->cc.info_cycle[0] = 7;
	memset(&v->network, 0x77, sizeof v->network);
	memset(v->cni_cycle, 0x77, sizeof v->cni_cycle);
	memset(v->cni_announced, 0x77, sizeof v->cni_announced);
	vbi_trigger_flush(v);
	planted = (vbi_trigger *) __real_calloc(1, 4096); v->triggers = planted;
	plant_pi(&v->prog_info[0]); plant_pi(&v->prog_info[1]);
	/* `future` is a one bit field: the sentinel is the opposite of the value the reset stores */
	v->prog_info[0].future = 1; v->prog_info[1].future = 0;
	v->aspect_source = 7;
	memset(&v->vps_pid, 0x77, sizeof v->vps_pid);
	/* plain data in the rest of the struct gets non-default values too, so that a stray reset shows */
	v->time = 7.0; v->chswcd = 7; v->brightness = 7; v->contrast = 7; v->pageref = 7;
	v->wss_last[0] = 7; v->wss_last[1] = 7; v->wss_rep_ct = 7; v->wss_time = 7.0;
	snap = (unsigned char *) malloc(sizeof *v);
	memcpy(snap, v, sizeof *v);
	/* vbi_event_enable (v, new) with v->event_mask == old */
	vbi_event_handler_register(v, (int) new_, hE, NULL);
	for (i = 0; i < sizeof *v; ++i) {
		int skip = 0;
		for (k = 0; k < sizeof excl / sizeof excl[0]; ++k) if (i >= excl[k].off && i < excl[k].off + excl[k].len) skip = 1;
		if (!skip && ((unsigned char *) v)[i] != snap[i]) rest = 9;
	}
	free(snap);
	trg = v->triggers == NULL ? 0 : v->triggers == planted ? 7 : 9;
	printf("ok em=%u ttx=%d cc=%d net=%d cyc=%d ann=%d trg=%d pi0=%d pi1=%d fut0=%d fut1=%d asp=%d pid=%d rest=%d\n",
	       (unsigned) v->event_mask,
	       tri(v->cn->have_top == 0 && v->cn->initial_page.pgno == 0x100, v->cn->have_top == 7 && v->cn->initial_page.pgno == 0x777),
	       tri(v->cc.xds == 0 && v->cc.info_cycle[0] == 0, v->cc.xds == 7 && v->cc.info_cycle[0] == 7),
	       tri(all_bytes(&v->network, sizeof v->network, 0), all_bytes(&v->network, sizeof v->network, 0x77)),
	       tri(all_bytes(v->cni_cycle, sizeof v->cni_cycle, 0), all_bytes(v->cni_cycle, sizeof v->cni_cycle, 0x77)),
	       tri(all_bytes(v->cni_announced, sizeof v->cni_announced, 0), all_bytes(v->cni_announced, sizeof v->cni_announced, 0x77)),
	       trg, pi_state(&v->prog_info[0]), pi_state(&v->prog_info[1]),
	       v->prog_info[0].future == 1 ? 7 : 0, v->prog_info[1].future == 0 ? 7 : 1, v->aspect_source,
	       tri(all_bytes(&v->vps_pid, sizeof v->vps_pid, 0), all_bytes(&v->vps_pid, sizeof v->vps_pid, 0x77)), rest);
	/* neutral values again, then delete */
	v->chswcd = 0;
	if (v->triggers == planted) { v->triggers = NULL; free(planted); }
	memset(&v->network, 0, sizeof v->network);
	v->cn->have_top = 0; v->cc.xds = 0; v->cc.info_cycle[0] = 0;
	v->prog_info[0].caption_language[7] = NULL; v->prog_info[1].caption_language[7] = NULL;
	vbi_decoder_delete(v);
}

/* Watchdog.  Every op - and the teardown of a case (vbi_decoder_delete, which unregisters every
   handler in a loop and therefore spins for ever when unregistering does not unlink) - runs under
   two timers: 1 s of CPU time of this process (ITIMER_PROF: a spinning loop; independent of the load
   of the machine) and 5 s wall (alarm: blocked on event_mutex).  When one fires the process says
   what it was doing and ends at once with exit code 94, so the check driver attributes the hang to
   the case instead of waiting for its batch timeout. */
static const char *phase = "start-up";
static char cur_op[200];
static void say_phase(void)
{
	static const char a[] = "PHASE: ";
	if (write(2, a, sizeof a - 1) < 0) return;
	if (write(2, phase, strlen(phase)) < 0) return;
	if (cur_op[0] && write(2, cur_op, strlen(cur_op)) < 0) return;
	if (write(2, "\n", 1) < 0) return;
}
static void on_alarm(int sig)
{
	static const char m1[] = "ERROR: HANG: the operation used more than 1 s of CPU time (endless loop?)\n";
	static const char m2[] = "ERROR: HANG: the operation did not return within 5 s (deadlock on event_mutex?)\n";
	if (sig == SIGPROF) { if (write(2, m1, sizeof m1 - 1) < 0) _exit(94); }
	else if (write(2, m2, sizeof m2 - 1) < 0) _exit(94);
	say_phase();
	_exit(94);
}
/* called by AddressSanitizer before it prints a report */
void __asan_on_error(void);
void __asan_on_error(void) { say_phase(); }
static void arm(const char *ph)
{
	struct itimerval it;
	int i; size_t n = 0;
	phase = ph; cur_op[0] = 0;
	if (!strcmp(ph, "op: ")) {
		for (i = 0; i < h_ntok && n + strlen(h_tok[i]) + 2 < sizeof cur_op; ++i)
			n += (size_t) snprintf(cur_op + n, sizeof cur_op - n, "%s%s", i ? " " : "", h_tok[i]);
	}
	memset(&it, 0, sizeof it); it.it_value.tv_sec = 1;
	setitimer(ITIMER_PROF, &it, NULL);
	alarm(5);
}

int main(void)
{
	int r;
	signal(SIGALRM, on_alarm);
	signal(SIGPROF, on_alarm);
	arm("start-up");
	reset_all();
	while ((r = h_next())) {
		struct call c; unsigned v; int f; long long ll;
		if (r == 2) { arm("teardown of the previous case (vbi_decoder_delete, _vbi_event_handler_list_destroy)"); reset_all(); continue; }
		arm("op: ");
		olen = 0; out("ok");
		if (lop()) continue;
		if (H_IS(0, "consts") && h_ntok == 1) {
			printf("ok close=%d ttx=%d caption=%d network=%d trigger=%d aspect=%d proginfo=%d netid=%d localtime=%d progid=%d\n",
			       VBI_EVENT_CLOSE, VBI_EVENT_TTX_PAGE, VBI_EVENT_CAPTION, VBI_EVENT_NETWORK, VBI_EVENT_TRIGGER,
			       VBI_EVENT_ASPECT, VBI_EVENT_PROG_INFO, VBI_EVENT_NETWORK_ID, VBI_EVENT_LOCAL_TIME, VBI_EVENT_PROG_ID);
		} else if (H_IS(0, "enab") && h_ntok == 3) {
			unsigned o, n2;
			if (!p32(h_tok[1], &o) || !p32(h_tok[2], &n2)) printf("rej parse\n");
			else op_enab(o, n2);
		} else if (H_IS(0, "script") && h_ntok == 4) {
			struct script sc; unsigned u;
			if (!pfn(h_tok[1], &f) || !p32(h_tok[2], &u) || !parse_script(h_tok[3], &sc)) printf("rej parse\n");
			else if (nscripts_total >= MAX_SCRIPTS) printf("rej full\n");
			else {
				struct tentry *t = lookup_or_create(f, u);
				t->scripts = (struct script *) realloc(t->scripts, sizeof(struct script) * (size_t)(t->nscripts + 1));
				t->scripts[t->nscripts++] = sc; ++nscripts_total;
				printf("ok\n");
			}
		} else if (H_IS(0, "send") && h_ntok == 2) {
			if (!p32(h_tok[1], &v)) printf("rej parse\n");
			else if (mutex_held()) printf("rej deadlock\n");   /* vbi_send_event would never return */
			else {
				vbi_event *ev = (vbi_event *) calloc(1, sizeof(*ev));
				ev->type = (int) v;
				calls_in_send = 0;
				vbi_send_event(vbi, ev);
				free(ev);
				dump(); printf("%s\n", obuf);
			}
		} else if (H_IS(0, "ttx") && h_ntok == 2) {
			if (!h_int(h_tok[1], &ll) || h_tok[1][0] == '-') printf("rej parse\n");
			else if (!valid_pgno(ll)) printf("rej parse\n");
			else if (mutex_held() && (vbi->event_mask & VBI_EVENT_TTX_PAGE)) printf("rej deadlock\n");
			else {
				uint8_t p[42]; int pgno = (int) ll, mag = (pgno >> 8) & 7;
				calls_in_send = 0;
				mk_header(p, mag, pgno & 255, 0); feed(p);
				mk_row(p, mag, 1); feed(p);
				mk_header(p, mag, 0xff, 0x3f7f); feed(p);
				dump();
				out(" acq=%d", vbi_is_cached(vbi, pgno, VBI_ANY_SUBNO) ? 1 : 0);
				printf("%s\n", obuf);
			}
		} else if (h_ntok >= 1 && parse_call(h_tok, h_ntok, &c)) {
			calls_in_send = 0;
			do_call(&c);
			dump(); printf("%s\n", obuf);
		} else if (h_ntok >= 1 && (H_IS(0, "script") || H_IS(0, "reg") || H_IS(0, "reg!") || H_IS(0, "unreg") || H_IS(0, "add")
			   || H_IS(0, "add!") || H_IS(0, "remove") || H_IS(0, "send") || H_IS(0, "ttx") || H_IS(0, "consts") || H_IS(0, "enab")))
			printf("rej parse\n");
		else printf("rej op\n");
	}
	arm("teardown of the last case (vbi_decoder_delete, _vbi_event_handler_list_destroy)");
	if (mutex_held()) pthread_mutex_unlock(&vbi->event_mutex);
	vbi_decoder_delete(vbi);
	{ int i; for (i = 0; i < ntable; ++i) free(table[i].scripts); }
	{ int i; for (i = 0; i < nltable; ++i) free(ltable[i].scripts); }
	if (el_live) _vbi_event_handler_list_destroy(&el);
	free(ltable); free(lsh);
	free(table); free(sh); free(obuf);
	return 0;
}
