/* Harness for component `rawdec` (C04): src/raw_decoder.c, src/sampling_par.c, src/bit_slicer.c,
   src/decoder.c (legacy slicer + the 0.2 vbi_raw_decoder wrappers), src/io-sim.c (signal generator
   of the oracle only).  Speaks the line protocol of lean/Driver/Rawdec.lean.

   Every raw image / line handed to zvbi is an EXACT-SIZE heap allocation, every vbi_sliced output
   array is an exact-size heap allocation pre-filled with a guard pattern; records beyond the
   returned count must still hold the pattern (`g=ok`).

   io-sim.c and decoder.c are #included so that two functions can be exempted from UBSan:
   - signal_closed_caption (io-sim.c) shifts by a bit number computed from a negative time for the
     samples before the signal starts (simulator only, see NOTES/C05.md);
   - _vbi_raw_video_image (io-sim.c) multiplies a uint8_t by 0x01010101 as `int` (simulator only);
   - vbi_bit_slicer_init (decoder.c) computes `x >> (32 - frc_bits)` with frc_bits == 0 for VPS, WSS
     and Caption 525 (x is 0 then; reported in NOTES/C04.md, finding F60). */
#include "hutil.h"
#include "src/misc.h"
#include "src/decoder.h"
#include "src/sampling_par.h"
#include "src/io-sim.h"
static void signal_closed_caption(uint8_t *raw, const vbi_sampling_par *sp, int blank_level, int white_level,
	unsigned int flags, double bit_rate, const vbi_sliced *sliced) __attribute__((no_sanitize("undefined")));
extern vbi_bool _vbi_raw_video_image(uint8_t *raw, unsigned long raw_size, const vbi_sampling_par *sp, int blank_level,
	int black_level, int white_level, unsigned int pixel_mask, unsigned int flags, const vbi_sliced *sliced,
	unsigned int n_sliced_lines) __attribute__((no_sanitize("undefined")));
extern void vbi_bit_slicer_init(vbi_bit_slicer *slicer, int raw_samples, int sampling_rate, int cri_rate, int bit_rate,
	unsigned int cri_frc, unsigned int cri_mask, int cri_bits, int frc_bits, int payload,
	vbi_modulation modulation, vbi_pixfmt fmt) __attribute__((no_sanitize("shift")));
#include "src/io-sim.c"
#include "src/decoder.c"
#include "src/raw_decoder.h"
#include "src/sampling_par.h"

#define NUM(i, v) (h_ntok > (i) && h_int(h_tok[i], &(v)))
#define NUMU(i, v) (NUM(i, v) && h_tok[i][0] != '-')

static vbi_sampling_par g_sp;
static int g_have;            /* 0 none, 3 vbi3_raw_decoder, 2 vbi_raw_decoder (0.2 API) */
static vbi3_raw_decoder *g_rd3;
static vbi_raw_decoder g_rd2;

static void drop(void)
{
	if (g_have == 3) vbi3_raw_decoder_delete(g_rd3);
	if (g_have == 2) vbi_raw_decoder_destroy(&g_rd2);
	g_have = 0; g_rd3 = NULL;
}

static vbi3_raw_decoder *rd3(void)
{
	return g_have == 3 ? g_rd3 : (vbi3_raw_decoder *) g_rd2.pattern;
}

static int fmt_known(long long f)
{
	switch ((int) f) {
	case VBI_PIXFMT_YUV420: case VBI_PIXFMT_YUYV: case VBI_PIXFMT_YVYU: case VBI_PIXFMT_UYVY: case VBI_PIXFMT_VYUY:
	case VBI_PIXFMT_RGBA32_LE: case VBI_PIXFMT_RGBA32_BE: case VBI_PIXFMT_BGRA32_LE: case VBI_PIXFMT_BGRA32_BE:
	case VBI_PIXFMT_RGB24: case VBI_PIXFMT_BGR24:
	case VBI_PIXFMT_RGB16_LE: case VBI_PIXFMT_RGB16_BE: case VBI_PIXFMT_BGR16_LE: case VBI_PIXFMT_BGR16_BE:
	case VBI_PIXFMT_RGBA15_LE: case VBI_PIXFMT_RGBA15_BE: case VBI_PIXFMT_BGRA15_LE: case VBI_PIXFMT_BGRA15_BE:
	case VBI_PIXFMT_ARGB15_LE: case VBI_PIXFMT_ARGB15_BE: case VBI_PIXFMT_ABGR15_LE: case VBI_PIXFMT_ABGR15_BE:
		return 1;
	default: return 0;
	}
}

static int is_yuv(int f) { return f >= VBI_PIXFMT_YUV420 && f <= VBI_PIXFMT_VYUY; }

static const _vbi_service_par *table_row(long long i)
{
	const _vbi_service_par *p; long long n = 0;
	for (p = _vbi_service_table; p->id; ++p, ++n)
		if (n == i) return p;
	return NULL;
}

/* ---------------------------------------------------------------- state dump */
static void dump_state(int with_thresh)
{
	vbi3_raw_decoder *rd = rd3();
	unsigned i, lines;
	printf(" s=%x j=", rd->services);
	if (rd->n_jobs == 0) putchar('-');
	for (i = 0; i < rd->n_jobs; ++i) printf("%s%x", i ? "," : "", rd->jobs[i].id);
	if (with_thresh) {
		printf(" th=");
		if (rd->n_jobs == 0) putchar('-');
		for (i = 0; i < rd->n_jobs; ++i) printf("%s%u", i ? "," : "", rd->jobs[i].slicer.thresh);
	}
	printf(" r=%d p=", rd->readjust);
	if (!rd->pattern) { printf("-"); return; }
	lines = rd->sampling.count[0] + rd->sampling.count[1];
	for (i = 0; i < lines * _VBI3_RAW_DECODER_MAX_WAYS; ++i) {
		if (i && 0 == i % _VBI3_RAW_DECODER_MAX_WAYS) putchar('.');
		printf("%02x", (uint8_t) rd->pattern[i]);
	}
}

/* ---------------------------------------------------------------- records id:row:hex */
#define MAXREC 64
static vbi_sliced g_tx[MAXREC];
static unsigned g_txrow[MAXREC];
static int g_ntx;

static unsigned payload_bytes(unsigned id)
{
	unsigned bits = vbi_sliced_payload_bits(id);
	return (bits + 7) / 8;
}

/* parse tokens from index `from`: <id hex>:<row>:<payload hex>; returns 0 on error */
static int parse_recs(int from)
{
	int i;
	g_ntx = 0;
	for (i = from; i < h_ntok; ++i) {
		char *a = h_tok[i], *b, *c; long long id, row; int len; uint8_t *d; char tmp[40];
		if (g_ntx >= MAXREC) return 0;
		b = strchr(a, ':'); if (!b) return 0;
		c = strchr(b + 1, ':'); if (!c) return 0;
		if ((size_t)(b - a) > 8 || b == a) return 0;
		memcpy(tmp, "0x", 2); memcpy(tmp + 2, a, (size_t)(b - a)); tmp[2 + (b - a)] = 0;
		if (!h_int(tmp, &id)) return 0;
		if ((size_t)(c - b - 1) > 6 || c == b + 1) return 0;
		memcpy(tmp, b + 1, (size_t)(c - b - 1)); tmp[c - b - 1] = 0;
		if (!h_int(tmp, &row) || tmp[0] == '-') return 0;
		d = h_hex(c + 1, &len); if (!d) return 0;
		if (len > (int) sizeof g_tx[0].data) { free(d); return 0; }
		memset(&g_tx[g_ntx], 0, sizeof g_tx[0]);
		g_tx[g_ntx].id = (uint32_t) id;
		memcpy(g_tx[g_ntx].data, d, (size_t) len); free(d);
		g_txrow[g_ntx] = (unsigned) row;
		++g_ntx;
	}
	return 1;
}

static uint32_t rng_next(uint32_t *s) { uint32_t x = *s ? *s : 0x9E3779B9u; x ^= x << 13; x ^= x >> 17; x ^= x << 5; return *s = x; }

/* Render g_tx[] into a fresh exact-size image of g_sp geometry.  Rows are row indices of the image
   (field 1 rows first); line numbers for the simulator come from a copy of the sampling parameters
   in which unknown start lines are replaced by plausible ones.  Bytes the simulator does not write
   (other colour channels, padding) hold pseudo random noise.  Returns NULL if io-sim refuses. */
static uint8_t *render(unsigned flags, uint32_t seed, size_t *size_out)
{
	vbi_sampling_par sp = g_sp; size_t size, k; uint8_t *img; int i; vbi_bool ok; unsigned mask;
	unsigned lines = sp.count[0] + sp.count[1];
	if (0 == sp.start[0]) sp.start[0] = (sp.scanning == 525) ? 10 : 7;
	if (0 == sp.start[1]) sp.start[1] = (sp.scanning == 525) ? 273 : 320;
	if (sp.start[1] < sp.start[0] + sp.count[0]) return NULL;
	size = (size_t) lines * sp.bytes_per_line;
	img = (uint8_t *) malloc(size ? size : 1);
	for (k = 0; k < size; ++k) img[k] = (uint8_t)(rng_next(&seed) >> 11);
	for (i = 0; i < g_ntx; ++i) {
		unsigned row = g_txrow[i];
		if (row >= lines) { free(img); return NULL; }
		if (row < (unsigned) sp.count[0]) g_tx[i].line = sp.start[0] + row;
		else g_tx[i].line = sp.start[1] + row - sp.count[0];
	}
	if (sp.sampling_format == VBI_PIXFMT_YUV420) {
		ok = _vbi_raw_vbi_image(img, size, &sp, 0, 0, flags, g_tx, g_ntx);
	} else {
		/* signal in the luma / green component only; 0xAABBGGRR resp. 0xAAVVUUYY */
		mask = is_yuv(sp.sampling_format) ? 0x000000FFu : 0x0000FF00u;
		ok = _vbi_raw_video_image(img, size, &sp, 0, 0, 0, mask, flags, g_tx, g_ntx);
	}
	if (!ok) { free(img); return NULL; }
	*size_out = size;
	return img;
}

/* decode `img` with the persistent decoder and print the result (+ state) */
static void decode_and_print(uint8_t *img, unsigned maxlines, int with_thresh)
{
	vbi_sliced *out; unsigned n, i, k; int guard_ok = 1; long bad = -1;
	size_t osz = (size_t) maxlines * sizeof(vbi_sliced);
	out = (vbi_sliced *) malloc(osz ? osz : 1);
	memset(out, 0xA5, osz);
	if (g_have == 3) n = vbi3_raw_decoder_decode(g_rd3, out, maxlines, img);
	else n = (unsigned) vbi_raw_decode(&g_rd2, img, out);
	printf("ok %u", n);
	for (i = 0; i < n && i < maxlines; ++i) {
		unsigned pb = payload_bytes(out[i].id);
		if (pb == 0 || pb > sizeof out[i].data) pb = sizeof out[i].data;
		printf(" %x:%u:", out[i].id, out[i].line);
		h_puthex(out[i].data, (int) pb);
	}
	for (i = n; i < maxlines; ++i) {
		const uint8_t *p = (const uint8_t *) &out[i];
		for (k = 0; k < sizeof(vbi_sliced); ++k)
			if (p[k] != 0xA5) { guard_ok = 0; if (bad < 0) bad = (long) i; }
	}
	if (guard_ok) printf(" g=ok"); else printf(" g=bad%ld", bad);
	dump_state(with_thresh);
	printf("\n");
	free(out);
}

/* ---------------------------------------------------------------- standalone slicers */
/* one line, exact-size heap copy; variant 3 = vbi3_bit_slicer configured like add_services does,
   2 = vbi_bit_slicer_init / vbi_bit_slice */
static void op_slice(void)
{
	long long variant, fmt, rate, spl, rowi, th = -1; int len; uint8_t *line; const _vbi_service_par *par;
	uint8_t *buf; unsigned bpp; int have_th = 0;
	if (h_ntok != 8 || !NUMU(1, variant) || !NUMU(2, fmt) || !NUMU(3, rate) || !NUMU(4, spl) || !NUMU(5, rowi)) { printf("rej parse\n"); return; }
	if (0 != strcmp(h_tok[6], "-")) { if (!NUMU(6, th) || th > 0xFFFFFFFFll) { printf("rej parse\n"); return; } have_th = 1; }
	if ((variant != 2 && variant != 3) || !fmt_known(fmt) || rate < 1 || rate > 1000000000 || spl < 1 || spl > 32767) { printf("rej parse\n"); return; }
	par = table_row(rowi);
	if (!par || 0 == par->cri_rate || 0 == par->bit_rate || 0 == par->cri_bits) { printf("rej parse\n"); return; }
	line = h_hex(h_tok[7], &len);
	if (!line) { printf("rej parse\n"); return; }
	bpp = VBI_PIXFMT_BPP((vbi_pixfmt) fmt);
	if ((long long) len != spl * bpp) { free(line); printf("rej size\n"); return; }
	buf = (uint8_t *) malloc(sizeof(((vbi_sliced *) 0)->data));
	memset(buf, 0, sizeof(((vbi_sliced *) 0)->data));
	if (variant == 3) {
		vbi3_bit_slicer bs; vbi_bool r;
		_vbi3_bit_slicer_init(&bs);
		if (!vbi3_bit_slicer_set_params(&bs, (vbi_pixfmt) fmt, (unsigned) rate, 0, (unsigned) spl,
				par->cri_frc >> par->frc_bits, par->cri_frc_mask >> par->frc_bits, par->cri_bits,
				par->cri_rate, ~0u, par->cri_frc & ((1U << par->frc_bits) - 1), par->frc_bits,
				par->payload, par->bit_rate, par->modulation)) {
			printf("rej cfg\n"); free(line); free(buf); return;
		}
		if (have_th) bs.thresh = (unsigned) th;
		r = vbi3_bit_slicer_slice(&bs, buf, sizeof(((vbi_sliced *) 0)->data), line);
		printf("ok ");
		if (r) h_puthex(buf, (int)((par->payload + 7) / 8)); else printf("fail");
		printf(" %u\n", bs.thresh);
	} else {
		vbi_bit_slicer bs; vbi_bool r;
		memset(&bs, 0, sizeof bs);
		vbi_bit_slicer_init(&bs, (int) spl, (int) rate, (int) par->cri_rate, (int) par->bit_rate,
				par->cri_frc, par->cri_frc_mask >> par->frc_bits, (int) par->cri_bits, (int) par->frc_bits,
				(int) par->payload, par->modulation, (vbi_pixfmt) fmt);
		if (have_th) bs.thresh = (int)(unsigned) th;
		r = vbi_bit_slice(&bs, line, buf);
		printf("ok ");
		if (r) h_puthex(buf, (int)((par->payload + 7) / 8)); else printf("fail");
		printf(" %u\n", (unsigned) bs.thresh);
	}
	free(line); free(buf);
}

/* ---------------------------------------------------------------- main loop */
int main(void)
{
	int r;
	setvbuf(stdout, NULL, _IOFBF, 1 << 16);
	while ((r = h_next())) {
		long long v[12]; int i;
		if (r == 2) { drop(); continue; }
		if (H_IS(0, "par")) {
			vbi_sampling_par sp; int bad = 0;
			if (h_ntok != 13) { printf("rej parse\n"); continue; }
			for (i = 0; i < 12; ++i) if (!NUMU(1 + i, v[i]) || v[i] > 0x7FFFFFFFll) bad = 1;
			if (bad || !fmt_known(v[1]) || v[9] > 1 || v[10] > 1 || (v[11] != 2 && v[11] != 3)
			    || v[3] > 131068 || v[6] > 1000 || v[8] > 1000) { printf("rej parse\n"); continue; }
			drop();
			memset(&sp, 0, sizeof sp);
			sp.scanning = (int) v[0]; sp.sampling_format = (vbi_pixfmt) v[1]; sp.sampling_rate = (int) v[2];
			sp.bytes_per_line = (int) v[3]; sp.offset = (int) v[4];
			sp.start[0] = (int) v[5]; sp.count[0] = (int) v[6]; sp.start[1] = (int) v[7]; sp.count[1] = (int) v[8];
			sp.interlaced = (int) v[9]; sp.synchronous = (int) v[10];
			if (!_vbi_sampling_par_valid_log(&sp, NULL)
			    || sp.bytes_per_line / VBI_PIXFMT_BPP(sp.sampling_format) > 32767) { printf("rej par\n"); continue; }
			g_sp = sp;
			if (v[11] == 3) {
				g_rd3 = vbi3_raw_decoder_new(&sp);
				if (!g_rd3) { printf("rej par\n"); continue; }
				g_have = 3;
			} else {
				vbi_raw_decoder_init(&g_rd2);
				g_rd2.scanning = sp.scanning; g_rd2.sampling_format = sp.sampling_format;
				g_rd2.sampling_rate = sp.sampling_rate; g_rd2.bytes_per_line = sp.bytes_per_line;
				g_rd2.offset = sp.offset; g_rd2.start[0] = sp.start[0]; g_rd2.start[1] = sp.start[1];
				g_rd2.count[0] = sp.count[0]; g_rd2.count[1] = sp.count[1];
				g_rd2.interlaced = sp.interlaced; g_rd2.synchronous = sp.synchronous;
				g_have = 2;
			}
			printf("ok\n");
		} else if (H_IS(0, "add")) {
			long long sv, st; unsigned ret;
			if (h_ntok != 3 || !NUMU(1, sv) || sv > 0xFFFFFFFFll || !NUM(2, st) || st < -2147483648ll || st > 2147483647ll) { printf("rej parse\n"); continue; }
			if (!g_have) { printf("rej nopar\n"); continue; }
			if (g_have == 3) ret = vbi3_raw_decoder_add_services(g_rd3, (unsigned) sv, (int) st);
			else ret = vbi_raw_decoder_add_services(&g_rd2, (unsigned) sv, (int) st);
			printf("ok %x", ret); dump_state(0); printf("\n");
		} else if (H_IS(0, "remove")) {
			long long sv; unsigned ret;
			if (h_ntok != 2 || !NUMU(1, sv) || sv > 0xFFFFFFFFll) { printf("rej parse\n"); continue; }
			if (!g_have) { printf("rej nopar\n"); continue; }
			if (g_have == 3) ret = vbi3_raw_decoder_remove_services(g_rd3, (unsigned) sv);
			else ret = vbi_raw_decoder_remove_services(&g_rd2, (unsigned) sv);
			printf("ok %x", ret); dump_state(0); printf("\n");
		} else if (H_IS(0, "fromsvc")) {
			/* vbi_sampling_par_from_services: fam bit 0 = 625 line standards, bit 1 = 525 line standards */
			long long fam, sv; vbi_sampling_par fsp; unsigned int max_rate = 0, ret; vbi_videostd_set vs;
			if (h_ntok != 3 || !NUMU(1, fam) || fam > 3 || !NUMU(2, sv) || sv > 0xFFFFFFFFll) { printf("rej parse\n"); continue; }
			memset(&fsp, 0, sizeof fsp);
			vs = ((fam & 1) ? VBI_VIDEOSTD_SET_625_50 : 0) | ((fam & 2) ? VBI_VIDEOSTD_SET_525_60 : 0);
			ret = vbi_sampling_par_from_services(&fsp, &max_rate, vs, (unsigned) sv);
			printf("ok %x sc=%d fmt=%d rate=%d bpl=%d off=%d s0=%d c0=%d s1=%d c1=%d il=%d sy=%d max=%u\n", ret,
			       fsp.scanning, (int) fsp.sampling_format, fsp.sampling_rate, fsp.bytes_per_line, fsp.offset,
			       fsp.start[0], fsp.count[0], fsp.start[1], fsp.count[1], !!fsp.interlaced, !!fsp.synchronous, max_rate);
		} else if (H_IS(0, "reset")) {
			if (h_ntok != 1) { printf("rej parse\n"); continue; }
			if (!g_have) { printf("rej nopar\n"); continue; }
			if (g_have == 3) vbi3_raw_decoder_reset(g_rd3); else vbi_raw_decoder_reset(&g_rd2);
			printf("ok 0"); dump_state(0); printf("\n");
		} else if (H_IS(0, "expect")) {
			/* carries what the sender transmitted, for the oracle; no effect */
			if (h_ntok < 1 || !parse_recs(1)) { printf("rej parse\n"); continue; }
			printf("ok\n");
		} else if (H_IS(0, "decode")) {
			long long ml; int len; uint8_t *img; size_t want;
			if (h_ntok != 3 || !NUMU(1, ml) || ml > 4096) { printf("rej parse\n"); continue; }
			img = h_hex(h_tok[2], &len);
			if (!img) { printf("rej parse\n"); continue; }
			if (!g_have) { free(img); printf("rej nopar\n"); continue; }
			want = (size_t)(g_sp.count[0] + g_sp.count[1]) * g_sp.bytes_per_line;
			if ((size_t) len != want) { free(img); printf("rej size\n"); continue; }
			if (g_have == 2 && ml != g_sp.count[0] + g_sp.count[1]) { free(img); printf("rej maxlines\n"); continue; }
			decode_and_print(img, (unsigned) ml, 1);
			free(img);
		} else if (H_IS(0, "frame") || H_IS(0, "render")) {
			long long ml, fl, seed; uint8_t *img; size_t size = 0; int is_render = H_IS(0, "render");
			if (h_ntok < 4 || !NUMU(1, ml) || ml > 4096 || !NUMU(2, fl) || fl > 7 || !NUMU(3, seed) || seed > 0xFFFFFFFFll || !parse_recs(4)) { printf("rej parse\n"); continue; }
			if (!g_have) { printf("rej nopar\n"); continue; }
			if (!is_render && g_have == 2 && ml != g_sp.count[0] + g_sp.count[1]) { printf("rej maxlines\n"); continue; }
			img = render((unsigned) fl, (uint32_t) seed, &size);
			if (!img) { printf("rej render\n"); continue; }
			if (is_render) { printf("ok "); h_puthex(img, (int) size); printf("\n"); }
			else decode_and_print(img, (unsigned) ml, 0);
			free(img);
		} else if (H_IS(0, "slice")) {
			op_slice();
		} else if (H_IS(0, "table")) {
			if (h_ntok != 1) { printf("rej parse\n"); continue; }
			/* cross-check of the generated constants the model uses */
			printf("ok ways=%d jobs=%d sliced=%d data=%d\n", _VBI3_RAW_DECODER_MAX_WAYS, _VBI3_RAW_DECODER_MAX_JOBS,
			       (int) sizeof(vbi_sliced), (int) sizeof(((vbi_sliced *) 0)->data));
		} else {
			printf("rej op\n");
		}
	}
	drop();
	return 0;
}
