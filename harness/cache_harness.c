/* Harness for component `cache` (C10): src/cache.c driven directly through
   _vbi_cache_* / cache_page_* / cache_network_*, same line protocol as lean/Driver/Cache.lean.

   cache.c is #included so that its statics (delete_surplus_pages, vbi_cache_purge) and the
   struct layout are reachable; the rest of libzvbi comes from the sanitizer archive (cache.o
   of the archive is then not pulled in).  vbi_cache_malloc / vbi_cache_free are redirected to
   counting wrappers (exact-size heap blocks, so ASan sees any overrun or use after free).

   After EVERY operation an audit walker - written against the C data structure only, it knows
   nothing of the Lean model - walks all lists and recomputes every counter; its verdict is the
   `a=` field.  `h=` is the FNV-1a hash of the canonical dump (printed in full by `dump`). */
#include "hutil.h"
#include "src/misc.h"

static long h_live_pages, h_live_nets;
static void *h_blocks[1 << 16];
static int h_nblocks;
static size_t h_net_size;

static void *h_cache_malloc(size_t n)
{
	void *p = malloc(n);
	if (!p) return NULL;
	if (h_nblocks < (int)(sizeof h_blocks / sizeof *h_blocks)) h_blocks[h_nblocks++] = p;
	if (n == h_net_size) ++h_live_nets; else ++h_live_pages;
	return p;
}
static void h_cache_free_sized(void *p, int is_net)
{
	int i;
	for (i = 0; i < h_nblocks; ++i) if (h_blocks[i] == p) { h_blocks[i] = h_blocks[--h_nblocks]; break; }
	if (is_net) --h_live_nets; else --h_live_pages;
	free(p);
}
#undef vbi_cache_malloc
#undef vbi_cache_free
#define vbi_cache_malloc h_cache_malloc
/* the two call sites free a cache_network (cn) resp. a cache_page (cp) */
#define vbi_cache_free(p) h_cache_free_sized((p), sizeof(*(p)) == sizeof(cache_network))

#include "src/cache.c"

/* ------------------------------------------------------------------ client side */
#define MAXH 8192
static vbi_cache *ca;
static unsigned long h_limit0; static unsigned int h_nlimit0;   /* as set by vbi_cache_new () */
static int deleted;
static cache_page *ph[MAXH]; static int ph_held[MAXH]; static int n_ph;
static struct { int pgno, subno, tag; } ph_exp[MAXH];
static cache_network *nh[MAXH]; static int nh_held[MAXH]; static int n_nh;

static uint8_t pat(unsigned tag, unsigned i) { return (uint8_t)(tag * 31u + i * 7u + (i >> 8)); }

static unsigned data_len(const cache_page *cp)
{
	return cache_page_size(cp) - (unsigned)(sizeof(*cp) - sizeof(cp->data));
}

/* the tag is recovered from lop_packets; every other payload field must agree with it */
static long page_tag(const cache_page *cp)
{
	unsigned tag = cp->lop_packets ^ 0x5A5A5A5Au, i, n = data_len(cp);
	const uint8_t *d = (const uint8_t *) &cp->data;
	if (cp->national != (int)(tag & 7) || cp->flags != tag * 2654435761u || cp->x27_designations != tag + 1)
		return -1;
	for (i = 0; i < n; ++i) if (d[i] != pat(tag, i)) return -1;
	return (long) tag;
}

static int net_pos(const cache_network *cn)
{
	cache_network *c, *c1; int i = 0;
	FOR_ALL_NODES (c, c1, &ca->networks, node) { if (c == cn) return i; ++i; }
	return -1;
}

static int pri_num(cache_priority p) { return p == CACHE_PRI_ZOMBIE ? 0 : p == CACHE_PRI_NORMAL ? 1 : 2; }

/* ------------------------------------------------------------------ canonical dump */
static char *dbuf; static size_t dlen, dcap;
static void dput(const char *fmt, ...)
{
	va_list ap; int n;
	if (dcap - dlen < 512) { dcap = dcap ? dcap * 2 : 1 << 16; dbuf = (char *) realloc(dbuf, dcap); }
	va_start(ap, fmt); n = vsnprintf(dbuf + dlen, dcap - dlen, fmt, ap); va_end(ap);
	dlen += (size_t) n;
}
static void dpage(const cache_page *cp)
{
	int np = cp->network ? net_pos(cp->network) : -1;
	long tag = page_tag(cp);
	if (np < 0) dput("?."); else dput("%d.", np);
	dput("%d.%d.%d.%u.%u.%u.%d.", cp->pgno, cp->subno, (int) cp->function, cp->x26_designations,
	     cp->x28_designations, cp->ref_count, pri_num(cp->priority));
	if (tag < 0) dput("corrupt"); else dput("%ld", tag);
}
static void build_dump(void)
{
	cache_network *cn, *cn1; cache_page *cp, *cp1; unsigned b; int first;
	dlen = 0; dput("L=%lu/%u;", ca->memory_limit, ca->n_networks_limit);
	FOR_ALL_NODES (cn, cn1, &ca->networks, node) {
		unsigned i; int dt = cn->_pages[0x7FF].page_type;
		dput("N%u,%d,%u,%u,%u,%d[", cn->ref_count, cn->zombie ? 1 : 0, cn->n_cached_pages,
		     cn->max_cached_pages, cn->n_referenced_pages, dt);
		first = 1;
		for (i = 0; i < N_ELEMENTS(cn->_pages); ++i) {
			const struct ttx_page_stat *ps = &cn->_pages[i];
			if (ps->page_type == dt && !ps->n_subpages && !ps->max_subpages && !ps->subno_min && !ps->subno_max)
				continue;
			dput("%s%u:%u:%u:%u:%u:%u", first ? "" : ",", i + 0x100, ps->page_type, ps->n_subpages,
			     ps->max_subpages, ps->subno_min, ps->subno_max);
			first = 0;
		}
		dput("]");
	}
	dput(";H");
	for (b = 0; b < HASH_SIZE; ++b) {
		if (is_empty(&ca->hash[b])) continue;
		dput("b%u=", b); first = 1;
		FOR_ALL_NODES (cp, cp1, &ca->hash[b], hash_node) { if (!first) dput(","); dpage(cp); first = 0; }
		dput(" ");
	}
	dput(";P"); first = 1;
	FOR_ALL_NODES (cp, cp1, &ca->priority, pri_node) { if (!first) dput(","); dpage(cp); first = 0; }
	dput(";R"); first = 1;
	FOR_ALL_NODES (cp, cp1, &ca->referenced, pri_node) { if (!first) dput(","); dpage(cp); first = 0; }
}
static unsigned fnv(const char *s, size_t n)
{
	unsigned h = 2166136261u; size_t i;
	for (i = 0; i < n; ++i) { h ^= (uint8_t) s[i]; h *= 16777619u; }
	return h;
}

/* ------------------------------------------------------------------ audit walker */
static unsigned cnt_sub[64][0x800];
static const char *audit(void)
{
	cache_network *cn, *cn1; cache_page *cp, *cp1; unsigned b, n_pri = 0, n_ref = 0, n_live_nets = 0;
	unsigned long mem = 0; int i, nn = 0;
	cache_network *nets[64]; unsigned n_c[64], n_r[64];
	FOR_ALL_NODES (cn, cn1, &ca->networks, node) {
		if (nn >= 64) return "too-many-nets";
		if (cn->cache != ca) return "net-cache-ptr";
		nets[nn] = cn; n_c[nn] = n_r[nn] = 0; memset(cnt_sub[nn], 0, sizeof cnt_sub[nn]); ++nn;
		if (!cn->zombie) ++n_live_nets;
		else if (0 == cn->ref_count && 0 == cn->n_referenced_pages) return "zombie-net";
	}
	FOR_ALL_NODES (cp, cp1, &ca->priority, pri_node) {
		int np;
		++n_pri;
		if (cp->ref_count != 0 || cp->priority == CACHE_PRI_ZOMBIE) return "unref-list";
		if (!is_member(&ca->hash[hash(cp->pgno)], &cp->hash_node)) return "unref-list";
		if (!cp->network || (np = net_pos(cp->network)) < 0) return "net-dangling";
		if (cp->pgno < 0x100 || cp->pgno > 0x8FF) return "pgno";
		++n_c[np]; ++cnt_sub[np][cp->pgno - 0x100];
		mem += cache_page_size(cp);
	}
	FOR_ALL_NODES (cp, cp1, &ca->referenced, pri_node) {
		int np, in_hash;
		++n_ref;
		if (cp->ref_count == 0) return "ref-list";
		if (cp->pgno < 0x100 || cp->pgno > 0x8FF) return "pgno";
		in_hash = is_member(&ca->hash[hash(cp->pgno)], &cp->hash_node);
		if ((cp->priority == CACHE_PRI_ZOMBIE) == !!in_hash) return "zombie-hash";
		if (!cp->network || (np = net_pos(cp->network)) < 0) return "net-dangling";
		++n_c[np]; ++n_r[np]; ++cnt_sub[np][cp->pgno - 0x100];
	}
	for (b = 0; b < HASH_SIZE; ++b)
		FOR_ALL_NODES (cp, cp1, &ca->hash[b], hash_node) {
			if (hash(cp->pgno) != b) return "hash-bucket";
			if (cp->priority == CACHE_PRI_ZOMBIE) return "zombie-hash";
		}
	{
		unsigned on_lists = n_pri, in_chains = 0;
		FOR_ALL_NODES (cp, cp1, &ca->referenced, pri_node) if (cp->priority != CACHE_PRI_ZOMBIE) ++on_lists;
		for (b = 0; b < HASH_SIZE; ++b) in_chains += list_length(&ca->hash[b]);
		if (on_lists != in_chains) return "hash-count";
	}
	if (ca->n_cached_pages != n_pri + n_ref) return "n-cached-pages";
	if ((long)(n_pri + n_ref) != h_live_pages) return "alloc-pages";
	if ((long) nn != h_live_nets) return "alloc-nets";
	if (ca->memory_used != mem) return "memory-used";
	if (ca->memory_used > ca->memory_limit) return "memory-limit";
	if (ca->n_cached_networks != n_live_nets) return "n-cached-networks";
	for (i = 0; i < nn; ++i) {
		unsigned k;
		if (nets[i]->n_cached_pages != n_c[i]) return "net-n-cached";
		if (nets[i]->n_referenced_pages != n_r[i]) return "net-n-ref";
		if (nets[i]->max_cached_pages < nets[i]->n_cached_pages) return "net-max";
		for (k = 0; k < 0x800; ++k)
			if (nets[i]->_pages[k].n_subpages != cnt_sub[i][k]) return "nsub";
		/* round 5: max_subpages is a high-water mark of the allocated versions (Props/C10Stat.lean) */
		for (k = 0; k < 0x800; ++k)
			if (nets[i]->_pages[k].max_subpages < nets[i]->_pages[k].n_subpages) return "max-sub";
	}
	/* pages the client holds must be alive and unchanged (ASan: use after free) */
	for (i = 0; i < n_ph; ++i)
		if (ph_held[i]) {
			const cache_page *p = ph[i];
			if (p->ref_count == 0) return "held-ref0";
			if (p->pgno != ph_exp[i].pgno || p->subno != ph_exp[i].subno
			    || (int)(p->lop_packets ^ 0x5A5A5A5Au) != ph_exp[i].tag) return "held-changed";
		}
	for (i = 0; i < n_nh; ++i)
		if (nh_held[i]) { if (nh[i]->ref_count == 0 || nh[i]->cache != ca) return "held-net"; }
	/* the cache is a map: at most one retrievable version per (network, page, subpage) - reported last,
	   everything else is still checked on a state with duplicates (finding F17) */
	for (b = 0; b < HASH_SIZE; ++b)
		FOR_ALL_NODES (cp, cp1, &ca->hash[b], hash_node) {
			struct node *nd;
			for (nd = cp->hash_node._succ; nd != &ca->hash[b]; nd = nd->_succ) {
				cache_page *q = PARENT (nd, cache_page, hash_node);
				if (q->network == cp->network && q->pgno == cp->pgno && q->subno == cp->subno)
					return "dup-key";
			}
		}
	return "ok";
}

static void digest(void)
{
	const char *a = audit();
	build_dump();
	printf(" | c=%u m=%lu n=%u h=%08x a=%s\n", ca->n_cached_pages, ca->memory_used, ca->n_cached_networks,
	       fnv(dbuf, dlen), a);
}

/* ------------------------------------------------------------------ case reset */
static void reset_case(void)
{
	if (ca && !deleted) {
		/* free everything regardless of references: leftovers of the previous case */
		CLEAR(*ca); free(ca);
	}
	while (h_nblocks > 0) free(h_blocks[--h_nblocks]);
	h_live_pages = h_live_nets = 0;
	n_ph = n_nh = 0; deleted = 0;
	ca = vbi_cache_new();
	h_limit0 = ca->memory_limit; h_nlimit0 = ca->n_networks_limit;
}

static void page_out(cache_page *cp)
{
	if (n_ph >= MAXH) { printf("rej handles\n"); return; }
	/* every put/get/ref consumes one handle slot, also when the result is NULL */
	if (!cp) { ph[n_ph] = NULL; ph_held[n_ph++] = 0; printf("ok null"); digest(); return; }
	{
		long tag = page_tag(cp);
		ph[n_ph] = cp; ph_held[n_ph] = 1;
		ph_exp[n_ph].pgno = cp->pgno; ph_exp[n_ph].subno = cp->subno; ph_exp[n_ph].tag = (int) tag;
		printf("ok p%d %d %d %d %u %u %u %d ", n_ph, cp->pgno, cp->subno, (int) cp->function,
		       cp->x26_designations, cp->x28_designations, cp->ref_count, pri_num(cp->priority));
		if (tag < 0) printf("corrupt"); else printf("%ld", tag);
		++n_ph;
		digest();
	}
}

/* ------------------------------------------------------------------ page walk callback */
static struct { int stop, calls; } walk;
static int walk_cb(cache_page *cp, vbi_bool wrapped, void *ud)
{
	long tag = page_tag(cp);
	(void) ud;
	if (walk.calls < 70) {
		dput("%s%d.%d.", walk.calls ? "," : "", cp->pgno, cp->subno);
		if (tag < 0) dput("corrupt"); else dput("%ld", tag);
		dput(".%d", wrapped ? 1 : 0);
	}
	return ++walk.calls >= walk.stop;
}

#define NUM(i, v, max) (h_ntok > (i) && h_tok[i][0] != '-' && h_int(h_tok[i], &(v)) && (v) <= (max))
#define NETH(v) ((v) < n_nh && nh_held[v])
#define PAGEH(v) ((v) < n_ph && ph_held[v])
/* a syntactically valid put/get/ref (addnet/netref/chsw) always consumes a page (net) handle slot */
#define PSLOT_REJ(why) do { if (n_ph < MAXH) { ph[n_ph] = NULL; ph_held[n_ph++] = 0; } printf("rej " why "\n"); } while (0)
#define NSLOT_REJ(why) do { if (n_nh < MAXH) { nh[n_nh] = NULL; nh_held[n_nh++] = 0; } printf("rej " why "\n"); } while (0)

int main(void)
{
	int r;
	h_net_size = sizeof(cache_network);
	reset_case();
	while ((r = h_next())) {
		long long v, v2, v3, v4, v5, v6, v7;
		const char *op;
		if (r == 2) { reset_case(); continue; }
		op = h_tok[0];
		if (deleted) { printf("rej deleted\n"); continue; }
		if (!strcmp(op, "sizes") && h_ntok == 1) {
			cache_page *cp = 0;
			printf("ok hash=%d hdr=%zu lop=%zu enh=%zu ext=%zu pop=%zu drcs=%zu ait=%zu full=%zu stats=%zu row=%d limit=%lu nlimit=%u clock=%d unknown=%d any=%d\n",
			       HASH_SIZE, sizeof(*cp) - sizeof(cp->data), sizeof(cp->data.lop), sizeof(cp->data.enh_lop),
			       sizeof(cp->data.ext_lop), sizeof(cp->data.pop), sizeof(cp->data.drcs), sizeof(cp->data.ait),
			       sizeof(*cp), N_ELEMENTS(((cache_network *) 0)->_pages), 20 /* death_row: see gen_cache.py */,
			       h_limit0, h_nlimit0, (int) VBI_NONSTD_SUBPAGES, (int) VBI_UNKNOWN_PAGE,
			       (int) VBI_ANY_SUBNO);
		} else if (!strcmp(op, "dump") && h_ntok == 1) {
			build_dump(); printf("ok %.*s\n", (int) dlen, dbuf);
		} else if (!strcmp(op, "addnet") && h_ntok == 1) {
			cache_network *cn = _vbi_cache_add_network(ca, NULL, 0);
			if (n_nh >= MAXH || !cn) { printf("rej handles\n"); continue; }
			nh[n_nh] = cn; nh_held[n_nh] = 1; printf("ok n%d", n_nh++); digest();
		} else if (!strcmp(op, "netref") && h_ntok == 2) {
			if (!NUM(1, v, 1000000)) { printf("rej parse\n"); continue; }
			if (!NETH(v) || n_nh >= MAXH) { NSLOT_REJ("handle"); continue; }
			nh[n_nh] = cache_network_ref(nh[v]); nh_held[n_nh] = 1; printf("ok n%d", n_nh++); digest();
		} else if (!strcmp(op, "netunref") && h_ntok == 2) {
			if (!NUM(1, v, 1000000)) { printf("rej parse\n"); continue; }
			if (!NETH(v)) { printf("rej handle\n"); continue; }
			nh_held[v] = 0; cache_network_unref(nh[v]); printf("ok"); digest();
		} else if (!strcmp(op, "chsw") && h_ntok == 2) {
			cache_network *cn; unsigned i;
			if (!NUM(1, v, 1000000)) { printf("rej parse\n"); continue; }
			if (!NETH(v) || n_nh >= MAXH) { NSLOT_REJ("handle"); continue; }
			/* vbi_chsw_reset (): */
			nh_held[v] = 0; cache_network_unref(nh[v]);
			cn = _vbi_cache_add_network(ca, NULL, 0);
			/* vbi_teletext_channel_switched (): ttx_page_stat_init () */
			for (i = 0; i < N_ELEMENTS(cn->_pages); ++i) {
				CLEAR(cn->_pages[i]); cn->_pages[i].page_type = VBI_UNKNOWN_PAGE;
				cn->_pages[i].charset_code = 0xFF; cn->_pages[i].subcode = 0xFFFF;
			}
			nh[n_nh] = cn; nh_held[n_nh] = 1; printf("ok n%d", n_nh++); digest();
		} else if (!strcmp(op, "statreset") && h_ntok == 2) {
			unsigned i; cache_network *cn;
			if (!NUM(1, v, 1000000)) { printf("rej parse\n"); continue; }
			if (!NETH(v)) { printf("rej handle\n"); continue; }
			cn = nh[v];
			/* vbi_teletext_channel_switched () runs on a network that was just added: no pages */
			if (cn->n_cached_pages != 0) { printf("rej busy\n"); continue; }
			for (i = 0; i < N_ELEMENTS(cn->_pages); ++i) {
				CLEAR(cn->_pages[i]); cn->_pages[i].page_type = VBI_UNKNOWN_PAGE;
				cn->_pages[i].charset_code = 0xFF; cn->_pages[i].subcode = 0xFFFF;
			}
			printf("ok"); digest();
		} else if (!strcmp(op, "ptype") && h_ntok == 4) {
			if (!NUM(1, v, 1000000) || !NUM(2, v2, 0xFFFF) || !NUM(3, v3, 255)) { printf("rej parse\n"); continue; }
			if (!NETH(v)) { printf("rej handle\n"); continue; }
			if (v2 < 0x100 || v2 > 0x8FF || (v2 & 0xFF) == 0xFF) { printf("rej pgno\n"); continue; }
			cache_network_page_stat(nh[v], (vbi_pgno) v2)->page_type = (uint8_t) v3;
			printf("ok"); digest();
		} else if (!strcmp(op, "put") && h_ntok == 8) {
			cache_page *in, *out; cache_page hdr; unsigned n, i; uint8_t *d; long long fn; unsigned tag;
			if (!NUM(1, v, 1000000) || !NUM(2, v2, 0xFFFF) || !NUM(3, v3, 0xFFFF) || !h_int(h_tok[4], &fn)
			    || fn < -5 || fn > 20 || !NUM(5, v5, 0xFFFF) || !NUM(6, v6, 0xFFFF) || !NUM(7, v7, 0xFFFFFF)) {
				printf("rej parse\n"); continue; }
			if (!NETH(v)) { PSLOT_REJ("handle"); continue; }
			if (v2 < 0x100 || v2 > 0x8FF) { PSLOT_REJ("pgno"); continue; }
			tag = (unsigned) v7;
			CLEAR(hdr);
			hdr.function = (enum ttx_page_function) fn; hdr.pgno = (vbi_pgno) v2; hdr.subno = (vbi_subno) v3;
			hdr.national = (int)(tag & 7); hdr.flags = tag * 2654435761u; hdr.lop_packets = tag ^ 0x5A5A5A5Au;
			hdr.x26_designations = (unsigned) v5; hdr.x27_designations = tag + 1; hdr.x28_designations = (unsigned) v6;
			n = cache_page_size(&hdr);
			in = (cache_page *) malloc(n);      /* exactly the bytes the function may read */
			memcpy(in, &hdr, sizeof(hdr) - sizeof(hdr.data));
			d = (uint8_t *) &in->data;
			for (i = 0; i < n - (unsigned)(sizeof(hdr) - sizeof(hdr.data)); ++i) d[i] = pat(tag, i);
			out = _vbi_cache_put_page(ca, nh[v], in);
			free(in);
			page_out(out);
		} else if (!strcmp(op, "get") && h_ntok == 5) {
			if (!NUM(1, v, 1000000) || !NUM(2, v2, 0xFFFF) || !NUM(3, v3, 0xFFFF) || !NUM(4, v4, 0xFFFFFFFFLL)) {
				printf("rej parse\n"); continue; }
			if (!NETH(v)) { PSLOT_REJ("handle"); continue; }
			page_out(_vbi_cache_get_page(ca, nh[v], (vbi_pgno) v2, (vbi_subno) v3, (vbi_subno)(unsigned) v4));
		} else if (!strcmp(op, "ref") && h_ntok == 2) {
			if (!NUM(1, v, 1000000)) { printf("rej parse\n"); continue; }
			if (!PAGEH(v) || n_ph >= MAXH) { PSLOT_REJ("handle"); continue; }
			ph[n_ph] = cache_page_ref(ph[v]); ph_held[n_ph] = 1; ph_exp[n_ph] = ph_exp[v];
			printf("ok p%d", n_ph++); digest();
		} else if (!strcmp(op, "unref") && h_ntok == 2) {
			long tag;
			if (!NUM(1, v, 1000000)) { printf("rej parse\n"); continue; }
			if (!PAGEH(v)) { printf("rej handle\n"); continue; }
			/* the page must be intact up to the moment it is released */
			tag = page_tag(ph[v]);
			printf("ok %d %d ", ph[v]->pgno, ph[v]->subno);
			if (tag < 0) printf("corrupt"); else printf("%ld", tag);
			ph_held[v] = 0; cache_page_unref(ph[v]); digest();
		} else if (!strcmp(op, "copy") && h_ntok == 2) {
			/* cache_page_copy: memcpy of cache_page_size (src) bytes.  The destination is a heap block of
			   exactly that many bytes, so ASan sees a size rule that copies more than the page function
			   needs; dst == src and src == NULL (CLEAR of a full struct) are exercised as well. */
			cache_page *dst, *full; unsigned n, i; long tag; int zero = 1;
			if (!NUM(1, v, 1000000)) { printf("rej parse\n"); continue; }
			if (!PAGEH(v)) { printf("rej handle\n"); continue; }
			n = cache_page_size(ph[v]);
			dst = (cache_page *) malloc(n);
			memset(dst, 0xA5, n);
			cache_page_copy(ph[v], ph[v]);
			cache_page_copy(dst, ph[v]);
			tag = page_tag(dst);
			full = (cache_page *) malloc(sizeof(*full));
			memset(full, 0xA5, sizeof(*full));
			cache_page_copy(full, NULL);
			for (i = 0; i < sizeof(*full); ++i) if (((uint8_t *) full)[i]) zero = 0;
			printf("ok %u %d %d %d %u %u %s ", n, dst->pgno, dst->subno, (int) dst->function,
			       dst->x26_designations, dst->x28_designations,
			       (NULL == dst->network && zero && dst->lop_packets == ph[v]->lop_packets && dst->flags == ph[v]->flags
				&& dst->national == ph[v]->national && dst->x27_designations == ph[v]->x27_designations
				&& 0 == memcmp(&dst->data, &ph[v]->data, data_len(ph[v]))) ? "same" : "differs");
			if (tag < 0) printf("corrupt"); else printf("%ld", tag);
			free(dst); free(full);
			digest();
		} else if (!strcmp(op, "iscached") && h_ntok == 4) {
			cache_page *cp;
			if (!NUM(1, v, 1000000) || !NUM(2, v2, 0xFFFF) || !NUM(3, v3, 0xFFFF)) { printf("rej parse\n"); continue; }
			if (!NETH(v)) { printf("rej handle\n"); continue; }
			/* vbi_is_cached (): */
			cp = _vbi_cache_get_page(ca, nh[v], (vbi_pgno) v2, (vbi_subno) v3, -1);
			cache_page_unref(cp);
			printf("ok %d", NULL != cp); digest();
		} else if (!strcmp(op, "hisubno") && h_ntok == 3) {
			if (!NUM(1, v, 1000000) || !NUM(2, v2, 0xFFFF)) { printf("rej parse\n"); continue; }
			if (!NETH(v)) { printf("rej handle\n"); continue; }
			if (v2 < 0x100 || v2 > 0x8FF) { printf("rej pgno\n"); continue; }
			/* vbi_cache_hi_subno (): */
			printf("ok %d", (int) cache_network_const_page_stat(nh[v], (vbi_pgno) v2)->subno_max); digest();
		} else if (!strcmp(op, "foreach") && h_ntok == 6) {
			int dir, ret; char *vis;
			if (!NUM(1, v, 1000000) || !NUM(2, v2, 0xFFFF) || !NUM(3, v3, 0xFFFF) || !NUM(5, v5, 64)
			    || (strcmp(h_tok[4], "fwd") && strcmp(h_tok[4], "rev"))) { printf("rej parse\n"); continue; }
			if (!NETH(v)) { printf("rej handle\n"); continue; }
			if (v2 < 0x100 || v2 > 0x8FF || v5 == 0) { printf("rej pgno\n"); continue; }
			dir = strcmp(h_tok[4], "rev") ? +1 : -1;
			walk.stop = (int) v5; walk.calls = 0; dlen = 0; dput("%s", "");
			ret = _vbi_cache_foreach_page(ca, nh[v], (vbi_pgno) v2, (vbi_subno) v3, dir, walk_cb, NULL);
			vis = strdup(dlen ? dbuf : "");
			printf("ok r=%d v=%s", ret, *vis ? vis : "-"); free(vis); digest();
		} else if (!strcmp(op, "purge") && h_ntok == 1) {
			vbi_cache_purge(ca); printf("ok"); digest();
		} else if (!strcmp(op, "setlimit") && h_ntok == 2) {
			if (!NUM(1, v, 2147483647LL)) { printf("rej parse\n"); continue; }
			/* body of vbi_cache_set_memory_limit () (compiled for 0.3 only) without the clamp */
			ca->memory_limit = (unsigned long) v; delete_surplus_pages(ca); printf("ok"); digest();
		} else if (!strcmp(op, "delete") && h_ntok == 1) {
			vbi_cache_delete(ca); ca = NULL; deleted = 1;
			printf("ok leaked pages=%ld nets=%ld\n", h_live_pages, h_live_nets);
		} else {
			char w[64];
			snprintf(w, sizeof w, " %.40s ", op);
			if (strstr(" sizes dump addnet netref netunref chsw statreset ptype put get ref unref iscached hisubno foreach purge setlimit delete copy ", w))
				printf("rej parse\n");
			else printf("rej op\n");
		}
	}
	if (ca && !deleted) { CLEAR(*ca); free(ca); }
	while (h_nblocks > 0) free(h_blocks[--h_nblocks]);
	return 0;
}
