/* Fake capture device for running daemon/proxyd.c without hardware (property C19).
 *
 * lib/verif.py builds libzvbi WITHOUT io-v4l*.c, so vbi_capture_v4l2_new / vbi_capture_v4l_new, which
 * vbi_proxy_start_acquisition() calls, are undefined: this header DEFINES them.  They return a `vbi_capture`
 * (struct in src/inout.h) whose behaviour is scripted per device:
 *   fk_dev[d].sup      services the device can deliver (update_services grants services & sup, never raw)
 *   fk_dev[d].api      2: vbi_capture_v4l2_new succeeds, 1: only vbi_capture_v4l_new succeeds, 0: both fail
 *   fk_dev[d].scan     vbi_raw_decoder.scanning reported by the open device
 *   fk_dev[d].getscan  value of the get_scanning() callback (0 = unknown, -1 = error)
 *   frames             FIFO per device; the fd (an eventfd) is readable while the FIFO is not empty
 * Include after "src/inout.h" / "src/decoder.h" are visible (daemon/proxyd.c includes them).
 */
#ifndef PROXY_FAKECAP_H
#define PROXY_FAKECAP_H
#include <sys/eventfd.h>

#define FK_NDEV 2
#define FK_MAXFRAMES 64
#define FK_MAXLINES 31		/* < count[0]+count[1]: forward_data asserts line_count < max_lines */
#define FK_RAW_BITS (VBI_SLICED_VBI_625 | VBI_SLICED_VBI_525)

typedef struct { unsigned seq; int n; unsigned id[FK_MAXLINES]; } fk_frame;

typedef struct {
	const char *name;
	unsigned    sup;
	int         api, scan, getscan;
	int         efd;		/* eventfd, lives as long as the case */
	int         open_count;		/* capture objects alive (0 or 1) */
	unsigned    n_open, n_flush, n_upd;
	fk_frame    q[FK_MAXFRAMES];
	int         qn;
} fk_device;

static fk_device fk_dev[FK_NDEV];

typedef struct { vbi_capture cap; fk_device *dev; vbi_raw_decoder dec; } fk_capture;

static void fk_fd_sync(fk_device *d)
{
	uint64_t v;
	if (d->qn > 0) { v = 1; (void) write(d->efd, &v, sizeof v); }
	else { (void) read(d->efd, &v, sizeof v); }	/* non-blocking: resets the counter */
}

static uint8_t fk_byte(unsigned seq, int line, int j) { return (uint8_t)(seq * 31u + (unsigned) line * 7u + (unsigned) j); }

static int fk_read(vbi_capture *vc, vbi_capture_buffer **raw, vbi_capture_buffer **sliced, const struct timeval *tmo)
{
	fk_capture *c = (fk_capture *) vc; fk_device *d = c->dev; fk_frame f; int i, j;
	(void) tmo;
	if (d->qn == 0) return 0;
	f = d->q[0];
	memmove(d->q, d->q + 1, sizeof(d->q[0]) * (size_t)(d->qn - 1));
	d->qn--;
	fk_fd_sync(d);
	if (sliced && *sliced) {
		vbi_sliced *s = (vbi_sliced *) (*sliced)->data;
		for (i = 0; i < f.n; ++i) {
			s[i].id = f.id[i]; s[i].line = 7u + (unsigned) i;
			for (j = 0; j < (int) sizeof(s[i].data); ++j) s[i].data[j] = fk_byte(f.seq, i, j);
		}
		(*sliced)->size = f.n * (int) sizeof(vbi_sliced);
		(*sliced)->timestamp = (double) f.seq;
	}
	if (raw && *raw) (*raw)->timestamp = (double) f.seq;
	return 1;
}
static vbi_raw_decoder *fk_parameters(vbi_capture *vc) { return &((fk_capture *) vc)->dec; }
static unsigned int fk_update_services(vbi_capture *vc, vbi_bool reset, vbi_bool commit, unsigned int services,
				       int strict, char **errorstr)
{
	fk_capture *c = (fk_capture *) vc; unsigned g = services & c->dev->sup & ~(unsigned) FK_RAW_BITS;
	(void) commit; (void) strict;
	c->dev->n_upd++;
	if (reset) c->dec.services = 0;
	c->dec.services |= g;
	c->dec.scanning = c->dev->scan;
	if (g == 0 && services != 0 && errorstr) *errorstr = strdup("fakecap: service not supported");
	return g;
}
static int  fk_get_scanning(vbi_capture *vc) { return ((fk_capture *) vc)->dev->getscan; }
static void fk_flush(vbi_capture *vc) { fk_device *d = ((fk_capture *) vc)->dev; d->n_flush++; d->qn = 0; fk_fd_sync(d); }
static int  fk_get_fd(vbi_capture *vc) { return ((fk_capture *) vc)->dev->efd; }
static VBI_CAPTURE_FD_FLAGS fk_get_fd_flags(vbi_capture *vc) { (void) vc; return VBI_FD_HAS_SELECT; }
static void fk_delete(vbi_capture *vc) { fk_capture *c = (fk_capture *) vc; c->dev->open_count--; free(c); }

static vbi_capture *fk_new(const char *dev_name, int need_api, char **errorstr)
{
	int i; fk_capture *c; fk_device *d = NULL;
	for (i = 0; i < FK_NDEV; ++i) if (fk_dev[i].name && 0 == strcmp(fk_dev[i].name, dev_name)) d = &fk_dev[i];
	if (!d || d->api != need_api) {
		if (need_api == 1 && errorstr) *errorstr = strdup("fakecap: cannot open device");
		return NULL;
	}
	c = (fk_capture *) calloc(1, sizeof *c);
	c->dev = d; d->open_count++; d->n_open++;
	c->cap.read = fk_read; c->cap.parameters = fk_parameters; c->cap.update_services = fk_update_services;
	c->cap.get_scanning = fk_get_scanning; c->cap.flush = fk_flush; c->cap.get_fd = fk_get_fd;
	c->cap.get_fd_flags = fk_get_fd_flags; c->cap._delete = fk_delete;
	c->dec.scanning = d->scan; c->dec.sampling_format = VBI_PIXFMT_YUV420; c->dec.sampling_rate = 27000000;
	c->dec.bytes_per_line = 1440; c->dec.start[0] = 7; c->dec.start[1] = 320; c->dec.count[0] = 16; c->dec.count[1] = 16;
	c->dec.synchronous = TRUE;
	return &c->cap;
}
vbi_capture *vbi_capture_v4l2_new(const char *dev_name, int buffers, unsigned int *services, int strict,
				  char **errorstr, vbi_bool trace)
{ (void) buffers; (void) services; (void) strict; (void) trace; return fk_new(dev_name, 2, errorstr); }
vbi_capture *vbi_capture_v4l_new(const char *dev_name, int scanning, unsigned int *services, int strict,
				 char **errorstr, vbi_bool trace)
{ (void) scanning; (void) services; (void) strict; (void) trace; return fk_new(dev_name, 1, errorstr); }
#endif
