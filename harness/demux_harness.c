/* C07 harness: the real src/dvb_demux.c behind the line protocol of lean/Driver/Demux.lean.
   Statics and the context layout are reached by including the .c file. Every buffer handed to
   zvbi is an exact-size heap allocation so ASan sees any access beyond it. */
#include "hutil.h"
#include <unistd.h>
#include "src/dvb_demux.c"

/* watchdog: one op may take at most H_OP_SECONDS and produce at most H_OUT_MAX bytes; a runaway
   (e.g. a frame loop that never ends) ends the process, which lib/verif.py attributes to the case */
#define H_OP_SECONDS 20
#define H_OUT_MAX (32u << 20)

static vbi_dvb_demux *dx;
static int has_cb, is_ts;
static char *out; static size_t out_len, out_cap; static int n_frames;

static void o_printf(const char *fmt, ...)
{
	va_list ap; int n;
	if (out_cap - out_len < 4096) { out_cap = out_cap ? out_cap * 2 : 1 << 16; out = realloc(out, out_cap); }
	va_start(ap, fmt); n = vsnprintf(out + out_len, out_cap - out_len, fmt, ap); va_end(ap);
	out_len += n;
	if (out_len > H_OUT_MAX) { fprintf(stderr, "runaway output: frame loop does not terminate\n"); fflush(stdout); _exit(96); }
}

static int payload_size(vbi_service_set id)
{
	switch (id) {
	case VBI_SLICED_TELETEXT_B: return 42;
	case VBI_SLICED_VPS: case VBI_SLICED_VPS_F2: return 13;
	case VBI_SLICED_WSS_625: case VBI_SLICED_CAPTION_625_F1: case VBI_SLICED_CAPTION_625_F2:
	case VBI_SLICED_CAPTION_525_F1: case VBI_SLICED_CAPTION_525_F2: return 2;
	case VBI_SLICED_WSS_CPR1204: return 3;
	default: return 0;
	}
}

static void log_frame(const vbi_sliced *s, unsigned int n, int64_t pts)
{
	unsigned int i; int j, k;
	o_printf("%spts=%lld n=%u", n_frames ? " | " : "", (long long) pts, n);
	for (i = 0; i < n; ++i) {
		o_printf(" %u:%u:", s[i].id, s[i].line);
		k = payload_size(s[i].id);
		if (k == 0) o_printf("-");
		for (j = 0; j < k; ++j) o_printf("%02x", s[i].data[j]);
	}
	++n_frames;
}

static vbi_bool cb(vbi_dvb_demux *d, void *ud, const vbi_sliced *s, unsigned int n, int64_t pts)
{
	(void) d; (void) ud;
	log_frame(s, n, pts);
	return TRUE;
}

static void drop(void) { if (dx) vbi_dvb_demux_delete(dx); dx = NULL; }

static void flush_out(int ret)
{
	printf("ok %d %s\n", ret, n_frames ? out : "-");
}

static int feed_chunks(const uint8_t *b, int len, int k)
{
	int pos, ret = 1;
	for (pos = 0; pos < len; pos += k) {
		int n = len - pos < k ? len - pos : k;
		uint8_t *c = malloc(n);
		memcpy(c, b + pos, n);
		if (!vbi_dvb_demux_feed(dx, c, n)) ret = 0;
		free(c);
	}
	return ret;
}

/* returns 0 when the caller loop made no progress COR_STALL_LIMIT times in a row (livelock) */
static int cor_chunks(const uint8_t *b, int len, int k)
{
	int pos, stall = 0;
	vbi_sliced *sl = malloc(64 * sizeof *sl);
	for (pos = 0; pos < len; pos += k) {
		int n = len - pos < k ? len - pos : k;
		uint8_t *c = malloc(n);
		const uint8_t *p = c; unsigned int left = n;
		memcpy(c, b + pos, n);
		while (left > 0) {
			int64_t pts = -1;
			unsigned int before = left;
			unsigned int nl = vbi_dvb_demux_cor(dx, sl, 64, &pts, &p, &left);
			if (nl > 0) log_frame(sl, nl, pts);
			stall = (nl == 0 && left == before) ? stall + 1 : 0;
			if (stall >= 3) { free(c); free(sl); return 0; }
		}
		free(c);
	}
	free(sl);
	return 1;
}

static void cor_out(const uint8_t *b, int len, int k)
{
	if (cor_chunks(b, len, k)) flush_out(1);
	else { printf("ok LIVELOCK %s\n", n_frames ? out : "-"); drop(); }
}

static void show_fs(void)
{
	struct frame *f = &dx->frame;
	printf("nf=%d n=%d lf=%u lfl=%u lfr=%u du=%u ndu=%u fpts=%lld ppts=%lld\n", !!dx->new_frame,
	       (int)(f->sp - f->sliced_begin), f->last_field, f->last_field_line, f->last_frame_line,
	       f->last_data_unit_id, f->n_data_units_extracted_from_packet,
	       (long long) dx->frame_pts, (long long) dx->packet_pts);
}

int main(void)
{
	int r;
	while ((r = h_next())) {
		long long v; int len; uint8_t *b;
		alarm(H_OP_SECONDS);
		if (r == 2) { drop(); continue; }
		out_len = 0; n_frames = 0; if (out) out[0] = 0;
		if (H_IS(0, "new") || H_IS(0, "newcor")) {
			int cbf = H_IS(0, "new");
			if (h_ntok == 2 && H_IS(1, "pes")) {
				drop(); dx = vbi_dvb_pes_demux_new(cbf ? cb : NULL, NULL);
				has_cb = cbf; is_ts = 0; printf("ok\n");
			} else if (h_ntok == 3 && H_IS(1, "ts") && h_int(h_tok[2], &v) && v >= 0) {
				drop(); dx = _vbi_dvb_ts_demux_new(cbf ? cb : NULL, NULL, (unsigned int) v);
				has_cb = cbf; is_ts = 1; printf(dx ? "ok\n" : "ok null\n");
			} else printf("rej parse\n");
		} else if ((H_IS(0, "feed") || H_IS(0, "cor")) && h_ntok == 2) {
			int feed = H_IS(0, "feed");
			b = h_hex(h_tok[1], &len);
			if (!b || len == 0) { printf("rej parse\n"); free(b); continue; }
			if (!dx || has_cb != feed) { printf("rej state\n"); free(b); continue; }
			if (feed) flush_out(feed_chunks(b, len, len)); else cor_out(b, len, len);
			free(b);
		} else if ((H_IS(0, "feedn") || H_IS(0, "corn")) && h_ntok == 3) {
			int feed = H_IS(0, "feedn");
			if (!h_int(h_tok[1], &v) || v < 0) { printf("rej parse\n"); continue; }
			b = h_hex(h_tok[2], &len);
			if (!b || len == 0 || v == 0) { printf("rej parse\n"); free(b); continue; }
			if (!dx || has_cb != feed) { printf("rej state\n"); free(b); continue; }
			if (v > len) v = len;
			if (feed) flush_out(feed_chunks(b, len, (int) v)); else cor_out(b, len, (int) v);
			free(b);
		} else if (H_IS(0, "reset") && h_ntok == 1) {
			if (!dx) { printf("rej state\n"); continue; }
			vbi_dvb_demux_reset(dx); printf("ok\n");
		} else if (H_IS(0, "st") && h_ntok == 1) {
			if (!dx) { printf("rej state\n"); continue; }
			if (!is_ts) {
				printf("ok pes skip=%u la=%u lo=%u ", dx->pes_wrap.skip, dx->pes_wrap.lookahead, dx->pes_wrap.leftover);
			} else {
				printf("ok ts skip=%u co=%u la=%u sync=%d ft=%u pt=%u cc=%d av=%d ", dx->ts_wrap.skip,
				       dx->ts_wrap.consume, dx->ts_wrap.lookahead, !!dx->ts_in_sync, dx->ts_frame_todo,
				       dx->ts_pes_todo, dx->ts_continuity, (int)(dx->ts_wrap.bp - dx->ts_buffer));
			}
			show_fs();
		} else if (H_IS(0, "consts") && h_ntok == 1) {
			printf("ok pesbuf=%u tsbuf=%u nsliced=%u pesla=%u tsla=%u tssync=%u ps1=%u "
			       "du=%u,%u,%u,%u,%u,%u,%u,%u,%u,%u sl=%u,%u,%u,%u,%u,%u,%u,%u,%u\n",
			       (unsigned) sizeof(((vbi_dvb_demux *)0)->pes_buffer), (unsigned) sizeof(((vbi_dvb_demux *)0)->ts_buffer),
			       (unsigned) N_ELEMENTS(((vbi_dvb_demux *)0)->sliced), PES_HEADER_LOOKAHEAD, TS_HEADER_LOOKAHEAD,
			       TS_SYNC_SEARCH_LOOKAHEAD, PRIVATE_STREAM_1,
			       DATA_UNIT_STUFFING, DATA_UNIT_EBU_TELETEXT_NON_SUBTITLE, DATA_UNIT_EBU_TELETEXT_SUBTITLE,
			       DATA_UNIT_VPS, DATA_UNIT_WSS, DATA_UNIT_CLOSED_CAPTION, DATA_UNIT_MONOCHROME_SAMPLES,
			       DATA_UNIT_ZVBI_WSS_CPR1204, DATA_UNIT_ZVBI_CLOSED_CAPTION_525, DATA_UNIT_ZVBI_MONOCHROME_SAMPLES_525,
			       VBI_SLICED_TELETEXT_B, VBI_SLICED_VPS, VBI_SLICED_VPS_F2, VBI_SLICED_CAPTION_625_F1,
			       VBI_SLICED_CAPTION_625_F2, VBI_SLICED_WSS_625, VBI_SLICED_CAPTION_525_F1,
			       VBI_SLICED_CAPTION_525_F2, VBI_SLICED_WSS_CPR1204);
		} else printf("rej op\n");
		fflush(stdout);
	}
	drop();
	free(out);
	return 0;
}
