/* C19 multi-process stage: well-behaved WITNESS client, built on the real client library.
 *
 * src/proxy-client.c is excluded from the sanitizer libzvbi (lib/verif.py LIB_EXCLUDE), so it is #included here; the
 * rest (proxy-msg.c, inout.c, ...) comes from the library.
 *
 * usage: proxy_mpclient <device name> [<max frames, 0 = unlimited> [token]]
 *   stdout (every line flushed):
 *     ready                              connected, service VBI_SLICED_TELETEXT_B granted
 *     frame <seq> <nlines> <ok> <ids>    one per received frame; seq = timestamp of the frame; ok = 1 iff every line has
 *                                        line number 7+i (i strictly increasing, < 31) and data bytes fk_byte(seq,i,j) and an
 *                                        id inside the granted services; ids = `id@i,...` (hex id, index i) or `-`
 *     token <rc1> <rc2>                  answer to a `token` line on stdin: rc1 = vbi_proxy_client_channel_request(BACKGROUND)
 *                                        (1 granted, 0 not yet, -1 connection lost), rc2 = channel_notify(RELEASE)
 *     error <text>                       the connection to the daemon failed; exit 1
 *   stdin: `quit` or end-of-file -> exit 0; `token` -> see above (the runner sends it only while no frame is in flight:
 *          the client library discards frames that arrive during an RPC).  SIGTERM -> exit 0.
 *   With the third argument the token exercise also runs once before `ready`.
 */
#include <unistd.h>
#include <stdio.h>
#include <stdlib.h>
#include <string.h>
#include <errno.h>
#include <signal.h>
#include <sys/select.h>

#include "src/proxy-client.c"
#undef dprintf

static uint8_t fk_byte(unsigned seq, int line, int j) { return (uint8_t)(seq * 31u + (unsigned) line * 7u + (unsigned) j); }

static void on_term(int sig) { (void) sig; _exit(0); }

static void token_exercise(vbi_proxy_client *vpc)
{
	vbi_channel_profile prof; int r1, r2;
	memset(&prof, 0, sizeof prof);
	prof.is_valid = TRUE; prof.sub_prio = 1; prof.allow_suspend = TRUE; prof.min_duration = 1; prof.exp_duration = 1;
	r1 = vbi_proxy_client_channel_request(vpc, VBI_CHN_PRIO_BACKGROUND, &prof);
	r2 = (r1 < 0) ? -1 : vbi_proxy_client_channel_notify(vpc, VBI_PROXY_CHN_RELEASE, 0);
	printf("token %d %d\n", r1, r2); fflush(stdout);
	if (r1 < 0 || r2 < 0) { printf("error token rpc failed\n"); fflush(stdout); exit(1); }
}

int main(int argc, char **argv)
{
	vbi_proxy_client *vpc; vbi_capture *cap; char *err = NULL; unsigned int services = VBI_SLICED_TELETEXT_B;
	long maxframes = argc > 2 ? atol(argv[2]) : 0, nframes = 0;
	char inbuf[256]; size_t inlen = 0; int fd;

	if (argc < 2) { fprintf(stderr, "usage: proxy_mpclient <device name> [<max frames> [token]]\n"); return 2; }
	signal(SIGTERM, on_term); signal(SIGPIPE, SIG_IGN);
	/* NO_TIMEOUTS: the library's 4 s / 5 s connect and RPC timeouts are too tight for a loaded machine; the runner has its own */
	vpc = vbi_proxy_client_create(argv[1], "witness", VBI_PROXY_CLIENT_NO_TIMEOUTS, &err, getenv("PROXY_MP_DEBUG") ? 2 : 0);
	if (!vpc) { printf("error create: %s\n", err ? err : "?"); fflush(stdout); return 1; }
	cap = vbi_capture_proxy_new(vpc, 5, 0, &services, 0, &err);
	if (!cap) { printf("error connect: %s\n", err ? err : "?"); fflush(stdout); return 1; }
	if (!(services & VBI_SLICED_TELETEXT_B)) { printf("error services 0x%x\n", services); fflush(stdout); return 1; }
	if (argc > 3) token_exercise(vpc);
	fd = vbi_capture_fd(cap);
	printf("ready\n"); fflush(stdout);

	for (;;) {
		fd_set rd; struct timeval tv = { 1, 0 }; int r;
		FD_ZERO(&rd); FD_SET(0, &rd); FD_SET(fd, &rd);
		r = select(fd + 1, &rd, NULL, NULL, &tv);
		if (r < 0) { if (errno == EINTR) continue; printf("error select %d\n", errno); fflush(stdout); return 1; }
		if (r > 0 && FD_ISSET(0, &rd)) {
			ssize_t n = read(0, inbuf + inlen, sizeof inbuf - 1 - inlen); char *nl;
			if (n <= 0) break;				/* end-of-file: the runner is gone or done */
			inlen += (size_t) n; inbuf[inlen] = 0;
			while ((nl = strchr(inbuf, '\n')) != NULL) {
				*nl = 0;
				if (0 == strcmp(inbuf, "quit")) goto done;
				if (0 == strcmp(inbuf, "token")) token_exercise(vpc);
				inlen -= (size_t)(nl + 1 - inbuf); memmove(inbuf, nl + 1, inlen + 1);
			}
			if (inlen >= sizeof inbuf - 1) inlen = 0;
		}
		if (r > 0 && FD_ISSET(fd, &rd)) {
			vbi_capture_buffer *buf = NULL; struct timeval t2 = { 2, 0 };
			r = vbi_capture_pull_sliced(cap, &buf, &t2);
			if (r < 0) { printf("error read %d\n", errno); fflush(stdout); return 1; }
			if (r > 0 && buf) {
				const vbi_sliced *s = (const vbi_sliced *) buf->data; int n = buf->size / (int) sizeof *s, i, ok = 1, last = -1;
				unsigned seq = (unsigned) buf->timestamp; unsigned j;
				if ((double) seq != buf->timestamp || buf->size % (int) sizeof *s) ok = 0;
				printf("frame %u %d ", seq, n);
				for (i = 0; i < n; ++i) {
					int li = (int) s[i].line - 7;
					if (li <= last || li >= 31 || !(s[i].id & services)) ok = 0;
					else for (j = 0; j < sizeof s[i].data; ++j) if (s[i].data[j] != fk_byte(seq, li, (int) j)) ok = 0;
					last = li;
				}
				printf("%d ", ok);
				for (i = 0; i < n; ++i) printf("%s%x@%d", i ? "," : "", s[i].id, (int) s[i].line - 7);
				printf(n ? "\n" : "-\n"); fflush(stdout);
				if (maxframes > 0 && ++nframes >= maxframes) break;
			}
			/* r == 0: an indication (channel change, token), not a frame */
		}
	}
done:
	vbi_capture_delete(cap);
	vbi_proxy_client_destroy(vpc);
	return 0;
}
