/* Line-protocol helpers for the C harnesses (mirror of lean/Driver/Util.lean). */
#ifndef HUTIL_H
#define HUTIL_H
#include <stdio.h>
#include <stdlib.h>
#include <string.h>
#include <stdint.h>
#include <ctype.h>
#include <limits.h>
#include <errno.h>

#define H_MAXTOK 4096
static char  h_line[1 << 20];
static char *h_tok[H_MAXTOK];
static int   h_ntok;

/* reads the next op line; returns 0 at EOF. Skips blank and # lines; echoes `case n`
   and returns 2 for it (callers reset their state). */
static int h_next(void)
{
	for (;;) {
		char *s, *save;
		if (!fgets(h_line, sizeof h_line, stdin)) { fflush(stdout); return 0; }
		h_ntok = 0;
		for (s = strtok_r(h_line, " \t\r\n", &save); s && h_ntok < H_MAXTOK;
		     s = strtok_r(NULL, " \t\r\n", &save))
			h_tok[h_ntok++] = s;
		if (h_ntok == 0 || h_tok[0][0] == '#') continue;
		if (0 == strcmp(h_tok[0], "case")) {
			int i;
			for (i = 0; i < h_ntok; ++i) printf("%s%s", i ? " " : "", h_tok[i]);
			printf("\n"); fflush(stdout);
			return 2;
		}
		return 1;
	}
}

static int h_hexval(int c)
{
	if (c >= '0' && c <= '9') return c - '0';
	if (c >= 'a' && c <= 'f') return c - 'a' + 10;
	if (c >= 'A' && c <= 'F') return c - 'A' + 10;
	return -1;
}

/* parse hex string into a freshly malloc'ed buffer of EXACTLY n bytes (so ASan sees
   any access beyond it); "-" is empty. returns NULL on error. n >= 0 via *len. */
static uint8_t *h_hex(const char *s, int *len)
{
	size_t l = strlen(s), i;
	uint8_t *b;
	if (0 == strcmp(s, "-")) { *len = 0; return (uint8_t *) malloc(1); }
	if (l % 2) return NULL;
	b = (uint8_t *) malloc(l / 2 ? l / 2 : 1);
	for (i = 0; i < l / 2; ++i) {
		int a = h_hexval(s[2*i]), c = h_hexval(s[2*i+1]);
		if (a < 0 || c < 0) { free(b); return NULL; }
		b[i] = (uint8_t)(a * 16 + c);
	}
	*len = (int)(l / 2);
	return b;
}

static void h_puthex(const uint8_t *b, int n)
{
	int i;
	if (n <= 0) { putchar('-'); return; }
	for (i = 0; i < n; ++i) printf("%02x", b[i]);
}

/* decimal or 0x-hex, optional leading '-' ; returns 0 on failure */
static int h_int(const char *s, long long *out)
{
	int neg = 0; unsigned long long v = 0; const char *p = s;
	if (*p == '-') { neg = 1; ++p; }
	if (!*p) return 0;
	if (p[0] == '0' && p[1] == 'x') {
		p += 2; if (!*p) return 0;
		for (; *p; ++p) { int d = h_hexval(*p); if (d < 0) return 0; v = v * 16 + (unsigned) d; }
	} else {
		for (; *p; ++p) { if (!isdigit((unsigned char)*p)) return 0; v = v * 10 + (unsigned)(*p - '0'); }
	}
	*out = neg ? -(long long) v : (long long) v;
	return 1;
}

#define H_IS(i, str) (h_ntok > (i) && 0 == strcmp(h_tok[i], str))
#endif
