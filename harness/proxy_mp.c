/* C19 multi-process stage: the REAL proxy daemon (daemon/proxyd.c, unmodified) as a separate process.
 *
 * One translation unit: `#define main zvbid_main`, #include "daemon/proxyd.c", then a fake capture device that defines
 * vbi_capture_v4l2_new / vbi_capture_v4l_new (the sanitizer libzvbi is built without io-v4l*.c).  Unlike
 * harness/proxy_harness.c nothing else is interposed: real select(), real time()/alarm(), real signals.
 *
 * usage: proxy_mp <device name> <control fd | fifo path>
 *   device name   any unique string, e.g. /tmp/zvbi_c19mp_XXXXXX/vbi0; the daemon listens on the unix socket
 *                 vbi_proxy_msg_get_socket_name(device name) = "/tmp/vbiproxy" + name with '/' -> '-'
 *                 (src/proxy-client.c derives the same path from the same name)
 *   control       read end of a pipe (inherited fd number) or path of a FIFO.  The runner writes one fixed-size frame
 *                 descriptor `struct fk_desc` per frame; the fd is the capture fd the daemon select()s on, fk_read
 *                 consumes exactly one descriptor and fills the sliced buffer: line i has id[i], line number 7+i and
 *                 data bytes fk_byte(seq, i, j) (same pattern as harness/proxy_fakecap.h), timestamp = seq.
 * SIGTERM / SIGINT (or end-of-file on the control pipe: the runner is gone) leave the main loop; then
 * vbi_proxyd_destroy() and `return 0`, so that LeakSanitizer runs.  stderr is the sanitizer log.
 */
#include <unistd.h>
#include <stdio.h>
#include <stdlib.h>
#include <string.h>
#include <stdint.h>
#include <fcntl.h>
#include <errno.h>
#include <signal.h>

#define main zvbid_main
#include "daemon/proxyd.c"
#undef main
#undef dprintf

/* the sockaddr_un malloc'ed by vbi_proxy_msg_get_local_socket_addr is not released by libc's freeaddrinfo
   (one block per listening socket; not part of C19; same suppression as harness/proxy_harness.c) */
const char *__lsan_default_suppressions(void) { return "leak:vbi_proxy_msg_get_local_socket_addr\n"; }

/* ---- fake capture device ---- */
#define FK_MAXLINES 31		/* < count[0]+count[1] */
#define FK_RAW_BITS (VBI_SLICED_VBI_625 | VBI_SLICED_VBI_525)
typedef struct { uint32_t seq; int32_t n; uint32_t id[FK_MAXLINES]; } fk_desc;	/* 132 bytes < PIPE_BUF: atomic */

static const char *fk_name;	/* the one device */
static int fk_ctl = -1;		/* control pipe, O_NONBLOCK */
static int fk_open_count;

typedef struct { vbi_capture cap; vbi_raw_decoder dec; } fk_capture;

static uint8_t fk_byte(unsigned seq, int line, int j) { return (uint8_t)(seq * 31u + (unsigned) line * 7u + (unsigned) j); }

static int fk_read(vbi_capture *vc, vbi_capture_buffer **raw, vbi_capture_buffer **sliced, const struct timeval *tmo)
{
	fk_desc f; ssize_t r; int i, j;
	(void) vc; (void) tmo;
	do r = read(fk_ctl, &f, sizeof f); while (r < 0 && errno == EINTR);
	if (r < 0) return (errno == EAGAIN) ? 0 : -1;
	if (r == 0) { proxy.should_exit = TRUE; return 0; }	/* runner gone: do not spin on a dead pipe */
	if (r != (ssize_t) sizeof f || f.n < 0 || f.n > FK_MAXLINES) { fprintf(stderr, "proxy_mp: bad frame descriptor\n"); exit(3); }
	if (sliced && *sliced) {
		vbi_sliced *s = (vbi_sliced *) (*sliced)->data;
		for (i = 0; i < f.n; ++i) {
			s[i].id = f.id[i]; s[i].line = 7u + (unsigned) i;
			for (j = 0; j < (int) sizeof(s[i].data); ++j) s[i].data[j] = fk_byte(f.seq, i, j);
		}
		(*sliced)->size = f.n * (int) sizeof(vbi_sliced);
		(*sliced)->timestamp = (double) f.seq;
	}
	if (raw && *raw) (*raw)->timestamp = (double) f.seq;
	return 1;
}
static vbi_raw_decoder *fk_parameters(vbi_capture *vc) { return &((fk_capture *) vc)->dec; }
static unsigned int fk_update_services(vbi_capture *vc, vbi_bool reset, vbi_bool commit, unsigned int services,
				       int strict, char **errorstr)
{
	fk_capture *c = (fk_capture *) vc; unsigned g = services & ~(unsigned) FK_RAW_BITS;	/* all non-raw services */
	(void) commit; (void) strict;
	if (reset) c->dec.services = 0;
	c->dec.services |= g;
	if (g == 0 && services != 0 && errorstr) *errorstr = strdup("fakecap: service not supported");
	return g;
}
static int  fk_get_scanning(vbi_capture *vc) { (void) vc; return 625; }
static void fk_flush(vbi_capture *vc) { (void) vc; }	/* the device buffers nothing: a descriptor in the pipe is a frame
							   which has not been captured yet */
static int  fk_get_fd(vbi_capture *vc) { (void) vc; return fk_ctl; }
static VBI_CAPTURE_FD_FLAGS fk_get_fd_flags(vbi_capture *vc) { (void) vc; return VBI_FD_HAS_SELECT; }
static void fk_delete(vbi_capture *vc) { fk_open_count--; free(vc); }

vbi_capture *vbi_capture_v4l2_new(const char *dev_name, int buffers, unsigned int *services, int strict,
				  char **errorstr, vbi_bool trace)
{
	fk_capture *c;
	(void) buffers; (void) services; (void) strict; (void) trace;
	if (!fk_name || 0 != strcmp(fk_name, dev_name) || fk_open_count != 0) {
		if (errorstr) *errorstr = strdup("fakecap: cannot open device");
		return NULL;
	}
	c = (fk_capture *) calloc(1, sizeof *c);
	fk_open_count++;
	c->cap.read = fk_read; c->cap.parameters = fk_parameters; c->cap.update_services = fk_update_services;
	c->cap.get_scanning = fk_get_scanning; c->cap.flush = fk_flush; c->cap.get_fd = fk_get_fd;
	c->cap.get_fd_flags = fk_get_fd_flags; c->cap._delete = fk_delete;
	c->dec.scanning = 625; c->dec.sampling_format = VBI_PIXFMT_YUV420; c->dec.sampling_rate = 27000000;
	c->dec.bytes_per_line = 1440; c->dec.start[0] = 7; c->dec.start[1] = 320; c->dec.count[0] = 16; c->dec.count[1] = 16;
	c->dec.synchronous = TRUE;
	return &c->cap;
}
vbi_capture *vbi_capture_v4l_new(const char *dev_name, int scanning, unsigned int *services, int strict,
				 char **errorstr, vbi_bool trace)
{ (void) dev_name; (void) scanning; (void) services; (void) strict; (void) trace;
  if (errorstr && !*errorstr) *errorstr = strdup("fakecap: no v4l1"); return NULL; }

/* async-signal-safe replacement of vbi_proxyd_signal_handler (which logs and is SA_ONESHOT); the runner repeats the
   signal until the process is gone, which also covers a signal that arrives just before select() blocks */
static void mp_term(int sig) { (void) sig; proxy.should_exit = TRUE; }

int main(int argc, char **argv)
{
	struct sigaction act; char *end; long fd;
	if (argc != 3) { fprintf(stderr, "usage: proxy_mp <device name> <control fd | fifo path>\n"); return 2; }
	fd = strtol(argv[2], &end, 10);
	fk_ctl = (*argv[2] && !*end) ? (int) fd : open(argv[2], O_RDONLY | O_NONBLOCK);
	if (fk_ctl < 0 || fcntl(fk_ctl, F_SETFL, fcntl(fk_ctl, F_GETFL) | O_NONBLOCK) != 0) { perror("proxy_mp: control"); return 2; }
	fk_name = argv[1];

	/* as zvbid's main(), without daemonizing */
	memset(&proxy, 0, sizeof proxy);
	proxy.tcp_ip_fd = -1;
	pthread_mutex_init(&proxy.clnt_mutex, NULL);
	opt_no_detach = TRUE;
	if (getenv("PROXY_MP_DEBUG")) opt_debug_level = (unsigned) atoi(getenv("PROXY_MP_DEBUG"));	/* stderr */
	vbi_proxyd_add_device(argv[1]);
	vbi_proxy_msg_set_debug_level((opt_debug_level == 0) ? 0 : ((opt_debug_level & DBG_CLNT) ? 2 : 1));
	vbi_proxyd_init();			/* SIGPIPE ignored, SIGALRM -> channel scheduler */
	memset(&act, 0, sizeof act); sigemptyset(&act.sa_mask); act.sa_handler = mp_term;	/* no SA_RESTART: select -> EINTR */
	sigaction(SIGTERM, &act, NULL); sigaction(SIGINT, &act, NULL); sigaction(SIGHUP, &act, NULL);
	vbi_proxyd_set_max_conn(opt_max_clients);
	vbi_proxyd_set_address(FALSE, NULL, NULL);
	vbi_proxy_msg_set_logging(opt_debug_level > 0, 0, 0, NULL);
	if (!vbi_proxyd_listen()) { fprintf(stderr, "proxy_mp: listen failed\n"); vbi_proxyd_destroy(); return 4; }
	printf("listening %s\n", proxy.dev[0].p_sock_path); fflush(stdout);
	vbi_proxyd_main_loop();
	vbi_proxyd_destroy();
	pthread_mutex_destroy(&proxy.clnt_mutex);
	close(fk_ctl);
	return 0;
}
