/* Harness for component `export` (C16): export.c write layer, exp-txt.c vbi_print_page_region,
   exp-gfx.c region renderers, and the five export modules (oracle only).
   Speaks the line protocol of lean/Driver/Export.lean.

   Fault injection: _vbi_grow_vector_capacity() (misc.c) is compiled into this unit with
   vbi_realloc redirected to h_realloc(), which refuses requests above `heap_limit`.
   Stream/file targets write into a sink that accepts at most `sink_limit` bytes
   (fopencookie for the FILE* target, RLIMIT_FSIZE for vbi_export_file). */
#include "hutil.h"
#include <unistd.h>
#include <fcntl.h>
#include <signal.h>
#include <sys/stat.h>
#include <sys/wait.h>
#include <sys/resource.h>

#include "src/misc.h"
static unsigned long long heap_limit = ~0ULL, pending_heap_limit = ~0ULL;
static void *h_realloc(void *p, size_t n)
{
	if ((unsigned long long) n > heap_limit) return NULL;
	return realloc(p, n);
}
#undef vbi_realloc
#define vbi_realloc h_realloc
#include "src/misc.c"
#undef vbi_realloc
#define vbi_realloc realloc

#include "src/format.h"
#include "src/export.h"
#include "src/lang.h"
#include "src/exp-gfx.h"
#include "src/exp-txt.h"

#define NUM(i, v) (h_ntok > (i) && h_int(h_tok[i], &(v)))

/* ------------------------------------------------------------------ page */
static vbi_page *pg;
static uint8_t drcs_clut[2 + 8 + 32];
static uint8_t *drcs_font[32];

static void page_free(void)
{
	int i;
	free(pg); pg = NULL;
	for (i = 0; i < 32; ++i) { free(drcs_font[i]); drcs_font[i] = NULL; }
}

static void page_new(int rows, int cols, unsigned fill)
{
	int i;
	page_free();
	pg = (vbi_page *) calloc(1, sizeof *pg);
	pg->rows = rows; pg->columns = cols; pg->pgno = 0x100; pg->subno = 0;
	for (i = 0; i < 1056; ++i) {
		pg->text[i].unicode = fill; pg->text[i].foreground = 7; pg->text[i].background = 0;
		pg->text[i].opacity = VBI_OPAQUE; pg->text[i].size = VBI_NORMAL_SIZE;
	}
	for (i = 0; i < 40; ++i)
		pg->color_map[i] = 0xFF000000u | ((unsigned)(i * 37 + 11) & 255) << 16 | ((unsigned)(i * 91 + 5) & 255) << 8 | ((unsigned)(i * 53 + 200) & 255);
	for (i = 0; i < (int) sizeof drcs_clut; ++i) drcs_clut[i] = (uint8_t)(i % 40);
	pg->drcs_clut = drcs_clut;
	pg->screen_color = 0; pg->screen_opacity = VBI_OPAQUE;
	pg->dirty.y0 = 0; pg->dirty.y1 = rows - 1;
}

static int is_wide(int s) { return s == VBI_DOUBLE_WIDTH || s == VBI_DOUBLE_SIZE || s == VBI_DOUBLE_SIZE2; }
static int is_over(int s) { return s == VBI_OVER_TOP || s == VBI_OVER_BOTTOM; }

/* ------------------------------------------------------------------ write layer */
enum { OP_PUTC, OP_WRITE, OP_PUTSNULL, OP_PUTS, OP_PRINTF, OP_FLUSH, OP_DIRECT };
typedef struct { int kind; long long n; uint8_t *bs; int len; } wop;
static wop *ops; static int nops, capops;
static int begun; static char tgt[8]; static long long usize; static int unull;
static unsigned long long sink_limit;
static char *trace; static size_t tlen, tcap;

static void tr_add(vbi_export *e)
{
	char b[96]; int n;
	static const char L[] = "?mapdf";
	n = snprintf(b, sizeof b, "%s%c%zu/%zu/%d", tlen ? "," : "", L[e->target <= 5 ? e->target : 0],
		     e->buffer.offset, e->buffer.capacity, (int) !!e->write_error);
	if (tlen + n + 1 > tcap) { tcap = (tcap + n + 1) * 2; trace = (char *) realloc(trace, tcap); }
	memcpy(trace + tlen, b, n + 1); tlen += n;
}

static void ops_clear(void)
{
	int i;
	for (i = 0; i < nops; ++i) free(ops[i].bs);
	nops = 0; begun = 0; tlen = 0; if (trace) trace[0] = 0;
}

static void ops_push(int kind, long long n, uint8_t *bs, int len)
{
	if (nops == capops) { capops = capops ? capops * 2 : 64; ops = (wop *) realloc(ops, capops * sizeof *ops); }
	ops[nops].kind = kind; ops[nops].n = n; ops[nops].bs = bs; ops[nops].len = len; ++nops;
}

static vbi_bool replay_export(vbi_export *e, vbi_page *unused)
{
	int i;
	(void) unused;
	for (i = 0; i < nops; ++i) {
		wop *o = &ops[i];
		switch (o->kind) {
		case OP_PUTC: vbi_export_putc(e, (int) o->n); break;
		case OP_WRITE: vbi_export_write(e, o->bs, (size_t) o->len); break;
		case OP_PUTSNULL: vbi_export_puts(e, NULL); break;
		case OP_PUTS: vbi_export_puts(e, (const char *) o->bs); break;
		case OP_PRINTF: vbi_export_printf(e, "%s", (const char *) o->bs); break;
		case OP_FLUSH: vbi_export_flush(e); break;
		case OP_DIRECT:
			if (!_vbi_export_grow_buffer_space(e, (size_t) o->n)) { tr_add(e); return FALSE; }
			if (o->len > 0) {
				memcpy(e->buffer.data + e->buffer.offset, o->bs, (size_t) o->len);
				e->buffer.offset += (size_t) o->len;
			}
			break;
		}
		tr_add(e);
	}
	return !e->write_error;
}

static vbi_export_info replay_info = { "replay", "Replay", "replay", "application/octet-stream", "bin" };
static vbi_export_class replay_class;

/* sink for the FILE* target */
static uint8_t *sink; static size_t sink_len, sink_cap;
static ssize_t sink_write(void *c, const char *b, size_t n)
{
	size_t room = sink_limit > sink_len ? (size_t)(sink_limit - sink_len) : 0, k = n < room ? n : room;
	(void) c;
	if (sink_len + k + 1 > sink_cap) { sink_cap = (sink_len + k + 1) * 2; sink = (uint8_t *) realloc(sink, sink_cap); }
	memcpy(sink + sink_len, b, k); sink_len += k;
	if (k < n) errno = ENOSPC;
	return (ssize_t) k;
}

static char tmpdir[64];
static void rm_tmpdir(void)
{
	char p[128];
	if (!tmpdir[0]) return;
	snprintf(p, sizeof p, "%s/out", tmpdir); unlink(p);
	rmdir(tmpdir); tmpdir[0] = 0;
}
static const char *tmpfile_path(void)
{
	static char p[128];
	if (!tmpdir[0]) {
		const char *t = getenv("TMPDIR");
		snprintf(tmpdir, sizeof tmpdir, "%s/c16h.XXXXXX", (t && strlen(t) < 40) ? t : "/tmp");
		if (!mkdtemp(tmpdir)) { perror("mkdtemp"); exit(3); }
		atexit(rm_tmpdir);
	}
	snprintf(p, sizeof p, "%s/out", tmpdir);
	return p;
}

static uint8_t *slurp(const char *path, size_t *len)
{
	FILE *f = fopen(path, "rb"); uint8_t *b; long n;
	if (!f) return NULL;
	fseek(f, 0, SEEK_END); n = ftell(f); fseek(f, 0, SEEK_SET);
	b = (uint8_t *) malloc(n > 0 ? n : 1);
	if (n > 0 && fread(b, 1, n, f) != (size_t) n) { fclose(f); free(b); return NULL; }
	fclose(f); *len = (size_t) n;
	return b;
}

static void run_end(void)
{
	vbi_export ex; vbi_page dummy;
	memset(&ex, 0, sizeof ex); memset(&dummy, 0, sizeof dummy);
	replay_class._public = &replay_info; replay_class.export = replay_export;
	ex._class = &replay_class;
	tlen = 0; if (trace) trace[0] = 0;
	if (0 == strcmp(tgt, "mem")) {
		uint8_t *ub = NULL; ssize_t r;
		if (!unull) { ub = (uint8_t *) malloc(usize ? (size_t) usize : 1); if (usize == 0) { free(ub); ub = (uint8_t *) malloc(1); } memset(ub, 0xAA, usize ? (size_t) usize : 1); }
		/* exact-size allocation: a zero-size buffer is a 1-byte block we poison by hand below */
		if (!unull && usize == 0) { /* keep the 1 byte as a guard */ ub[0] = 0x5C; }
		r = vbi_export_mem(&ex, unull ? NULL : (void *) ub, (size_t) usize, &dummy);
		if (!unull && usize == 0 && ub[0] != 0x5C) { printf("ok mem GUARD-OVERWRITTEN\n"); free(ub); goto done; }
		printf("ok mem ret=%lld buf=", (long long) r);
		if (unull) printf("null"); else h_puthex(ub, (int) usize);
		printf(" trace=%s\n", tlen ? trace : "-");
		free(ub);
	} else if (0 == strcmp(tgt, "alloc")) {
		void *b = (void *) 0x1; size_t n = 12345; void *r;
		r = vbi_export_alloc(&ex, &b, &n, &dummy);
		if (r) { printf("ok alloc ret=1 data="); h_puthex((uint8_t *) b, (int) n); printf(" trace=%s\n", tlen ? trace : "-"); if (r != b) printf("# result != *buffer\n"); free(r); }
		else printf("ok alloc ret=0 data=%s trace=%s\n", (b == (void *) 0x1 && n == 12345) ? "untouched" : "MODIFIED", tlen ? trace : "-");
	} else if (0 == strcmp(tgt, "fp")) {
		cookie_io_functions_t io = { NULL, sink_write, NULL, NULL };
		FILE *fp = fopencookie(NULL, "w", io); vbi_bool r;
		setvbuf(fp, NULL, _IONBF, 0);
		sink_len = 0;
		r = vbi_export_stdio(&ex, fp, &dummy);
		fclose(fp);
		printf("ok fp ret=%d sink=", (int) !!r); h_puthex(sink, (int) sink_len);
		printf(" trace=%s\n", tlen ? trace : "-");
	} else if (0 == strcmp(tgt, "filebad")) {
		/* the file cannot be created: vbi_export_file must fail without calling the module */
		char path[192]; vbi_bool r; struct stat sb;
		snprintf(path, sizeof path, "%s.d/no/such/dir/out", tmpfile_path());
		r = vbi_export_file(&ex, path, &dummy);
		printf("ok filebad ret=%d sink=%s trace=%s\n", (int) !!r, 0 == stat(path, &sb) ? "EXISTS" : "unlinked", tlen ? trace : "-");
	} else {
		const char *path = tmpfile_path(); struct rlimit old, lim; vbi_bool r; uint8_t *d; size_t n = 0;
		unlink(path);
		getrlimit(RLIMIT_FSIZE, &old);
		lim = old;
		if (sink_limit < (unsigned long long) RLIM_INFINITY && sink_limit < (1ULL << 40)) lim.rlim_cur = (rlim_t) sink_limit;
		signal(SIGXFSZ, SIG_IGN);
		setrlimit(RLIMIT_FSIZE, &lim);
		r = vbi_export_file(&ex, path, &dummy);
		setrlimit(RLIMIT_FSIZE, &old);
		d = slurp(path, &n);
		printf("ok file ret=%d sink=", (int) !!r);
		if (d) h_puthex(d, (int) n); else printf("unlinked");
		printf(" trace=%s\n", tlen ? trace : "-");
		free(d); unlink(path);
	}
done:
	free(ex.errstr);
	heap_limit = ~0ULL;
	ops_clear();
}

/* ------------------------------------------------------------------ export modules (oracle only) */
static uint32_t fnv(uint32_t h, uint32_t v) { return (h ^ v) * 16777619u; }

static void run_export(const char *spec)
{
	char *err = NULL; vbi_export *e; void *ref = NULL; size_t need = 0; const char *why = NULL;
	static char whybuf[200];
	size_t sizes[8]; int ns = 0, i;
	e = vbi_export_new(spec, &err);
	if (!e) { free(err); printf("rej module\n"); return; }
	if (!vbi_export_alloc(e, &ref, &need, pg)) { printf("ok DISAGREE alloc failed: %s\n", vbi_export_errstr(e)); vbi_export_delete(e); return; }
	/* a second call must give the same bytes (export does not change the state of e or pg) */
	{ void *r2 = NULL; size_t n2 = 0;
	  if (!vbi_export_alloc(e, &r2, &n2, pg)) why = "second alloc failed";
	  else if (n2 != need || memcmp(r2, ref, need)) why = "second alloc differs";
	  free(r2); }
	sizes[ns++] = 0; sizes[ns++] = 1; sizes[ns++] = need / 2; sizes[ns++] = need - 1; sizes[ns++] = need; sizes[ns++] = need + 1;
	sizes[ns++] = need > 300 ? need - 257 : 2; sizes[ns++] = need + 4096;
	for (i = 0; i < ns && !why; ++i) {
		size_t sz = sizes[i]; uint8_t *b = (uint8_t *) malloc(sz ? sz : 1); ssize_t r;
		memset(b, 0xAA, sz ? sz : 1);
		r = vbi_export_mem(e, b, sz, pg);   /* exact-size heap block: ASan sees any write at index >= sz */
		if (r != (ssize_t) need) { snprintf(whybuf, sizeof whybuf, "mem size %zu returned %zd, needed %zu", sz, r, need); why = whybuf; }
		else if (sz >= need && memcmp(b, ref, need)) { snprintf(whybuf, sizeof whybuf, "mem size %zu data differs from alloc", sz); why = whybuf; }
		else if (sz == 0 && b[0] != 0xAA) { why = "mem size 0 wrote into the buffer"; }
		free(b);
	}
	if (!why) { /* stdio */
		const char *path = tmpfile_path(); FILE *fp = fopen(path, "wb"); uint8_t *d; size_t n = 0;
		if (!vbi_export_stdio(e, fp, pg)) why = "stdio failed";
		fclose(fp); d = slurp(path, &n);
		if (!why && (!d || n != need || memcmp(d, ref, need))) why = "stdio data differs from alloc";
		free(d); unlink(path);
	}
	if (!why) { /* file */
		const char *path = tmpfile_path(); uint8_t *d; size_t n = 0;
		if (!vbi_export_file(e, path, pg)) why = "file failed";
		d = slurp(path, &n);
		if (!why && (!d || n != need || memcmp(d, ref, need))) why = "file data differs from alloc";
		free(d); unlink(path);
	}
	if (why) printf("ok DISAGREE %s\n", why); else printf("ok agree\n");
	free(ref); vbi_export_delete(e);
}

/* ------------------------------------------------------------------ html module (modelled) */
static int html_font_ok(long long f) { return f == 0 || f == 1 || f == 2 || f == 3 || f == 4 || f == 5 || f == 7 || f == 16 || f == 33; }

/* export the current page with module html; returns malloc'd data or NULL */
static uint8_t *html_alloc(const char *gfx, int color, int header, int reveal, int font, int pgno, int subno, int screen, size_t *n)
{
	char spec[160], *err = NULL; vbi_export *e; void *d = NULL;
	snprintf(spec, sizeof spec, "html,gfx_chr=%s,color=%d,header=%d,reveal=%d,creator=verif", gfx, color, header, reveal);
	e = vbi_export_new(spec, &err);
	if (!e) { free(err); return NULL; }
	{ vbi_page saved = *pg;
	  pg->font[0] = pg->font[1] = vbi_font_descriptors + font; pg->pgno = pgno; pg->subno = subno; pg->screen_color = screen;
	  if (!vbi_export_alloc(e, &d, n, pg)) d = NULL;
	  *pg = saved; }
	vbi_export_delete(e);
	return (uint8_t *) d;
}

static int has_sub(const uint8_t *d, size_t n, const char *t)
{
	size_t l = strlen(t), i;
	for (i = 0; i + l <= n; ++i) if (!memcmp(d + i, t, l)) return 1;
	return 0;
}

/* is the caption title tag complete (F80 repaired)? */
static int probe_titlelt(void)
{
	size_t n = 0; uint8_t *d; int r;
	page_new(1, 1, 0x41);
	d = html_alloc("35", 1, 1, 0, 0, 1, 0, 0, &n);
	r = d && has_sub(d, n, "<title lang");
	free(d); page_free();
	return r;
}

/* is gfx_chr escaped (F81 repaired)? */
static int probe_gfxesc(void)
{
	size_t n = 0; uint8_t *d; int r;
	page_new(1, 1, 0xEE21);
	d = html_alloc("60", 1, 0, 0, 0, 0x100, 0, 0, &n);
	r = d && has_sub(d, n, "&lt;");
	free(d); page_free();
	return r;
}

/* does an italic U+044F render like the upright one (G1 repaired: glyphs without a slanted version are drawn upright)?
   run in a child: the unrepaired code reads past the font image */
static int probe_italfont(void)
{
	pid_t p; int st = 0;
	fflush(stdout);
	p = fork();
	if (p == 0) {
		size_t size = 40 * 12 * 10; uint8_t *a, *b; int i, same;
		int fd = open("/dev/null", O_WRONLY); if (fd >= 0) { dup2(fd, 2); dup2(fd, 1); }
		page_new(1, 40, 0x44F);
		a = (uint8_t *) calloc(size, 1); b = (uint8_t *) calloc(size, 1);
		vbi_draw_vt_page_region(pg, VBI_PIXFMT_PAL8, a, -1, 0, 0, 40, 1, 1, 1);
		for (i = 0; i < 40; ++i) pg->text[i].italic = 1;
		vbi_draw_vt_page_region(pg, VBI_PIXFMT_PAL8, b, -1, 0, 0, 40, 1, 1, 1);
		same = !memcmp(a, b, size);
		_exit(same ? 0 : 1);
	}
	waitpid(p, &st, 0);
	return WIFEXITED(st) && WEXITSTATUS(st) == 0;
}

/* ------------------------------------------------------------------ xpm module (header / colour table / footer / size modelled, pixels judged here) */
/* xpmexp: the document is split the way an XPM reader does it: width and height from the values line, the 40 palette lines give the
   colour code of every palette index, then <height> image lines of '"' <width> codes '",' LF, the rest is the footer.  px=1: every
   pixel, translated back through the file's own palette (code -> #RRGGBB), equals the pixel the RGBA renderer draws there
   (every second rendered line at scale 0, every line twice at scale 2). */
static void run_xpm(int aspect, int transp, int titled, int pgno, int subno)
{
	char spec[96], *err = NULL, *z, *q; vbi_export *e; void *dv = NULL; size_t n = 0, hl = 0, fl0 = 0;
	const uint8_t *d; int cc = pg->columns < 40, cw = cc ? 16 : 12, ch = cc ? 26 : 10, scale = cc ? !!aspect : 1 + !!aspect;
	size_t lines = ((size_t) ch << scale) >> 1; unsigned W = 0, H = 0, nc = 0, cpp = 0; int px = 1, r, i, map[256]; uint32_t pal[40];
	snprintf(spec, sizeof spec, "xpm,aspect=%d,transparency=%d,titled=%d,creator=verif", aspect, transp, titled);
	e = vbi_export_new(spec, &err);
	if (!e) { free(err); printf("rej module\n"); return; }
	{ vbi_page saved = *pg; int ok;
	  pg->pgno = pgno; pg->subno = subno;
	  ok = vbi_export_alloc(e, &dv, &n, pg);
	  *pg = saved;
	  if (!ok) { printf("ok fail\n"); vbi_export_delete(e); return; } }
	d = (const uint8_t *) dv;
	z = (char *) malloc(n + 1); memcpy(z, d, n); z[n] = 0;
	for (i = 0; i < 256; ++i) map[i] = -1;
	q = strstr(z, "/* pixels */\n");
	if (!q) { px = 0; hl = n; fl0 = n; }
	else {
		char *v = strchr(z, '"'), *p = strstr(z, "/* colors */\n");
		hl = (size_t) (q - z) + 13;
		if (!v || v > q || sscanf(v + 1, "%u %u %u %u", &W, &H, &nc, &cpp) != 4 || nc != 40 || cpp != 1 || !p || p > q) px = 0;
		else {
			p += 13;
			for (i = 0; px && i < 40; ++i) {
				char *nl = strchr(p, '\n');
				if (p[0] != '"' || !nl || nl > q || map[(uint8_t) p[1]] >= 0) { px = 0; break; }
				map[(uint8_t) p[1]] = i;
				/* the colour an XPM reader gives this code: "#RRGGBB" of the palette line ("None": the page's transparent black) */
				{ unsigned R = 0, G = 0, B = 0;
				  if (sscanf(p + 2, " c #%2x%2x%2x", &R, &G, &B) == 3) pal[i] = R | G << 8 | B << 16;
				  else pal[i] = pg->color_map[i] & 0xFFFFFF; }
				p = nl + 1;
			}
			if (px && p != q) px = 0;
		}
		if (px && (W != (unsigned) (cw * pg->columns) || H != (unsigned) (lines * pg->rows) || hl + (size_t) (W + 4) * H > n)) px = 0;
		fl0 = px ? hl + (size_t) (W + 4) * H : n;
	}
	for (r = 0; px && r < pg->rows; ++r) {
		uint32_t *c = (uint32_t *) calloc((size_t) W * ch, 4); size_t x, y;
		if (cc) {
			/* vbi_draw_cc_page_region has no reveal parameter and draws concealed characters; draw_row_indexed hides them
			   (conceal = !e->reveal) also on caption pages: the reference is drawn from a row with those characters blanked */
			uint16_t keep[64]; int k;
			for (k = 0; k < pg->columns; ++k) { vbi_char *a = &pg->text[r * pg->columns + k]; keep[k] = a->unicode; if (a->conceal) a->unicode = 0x20; }
			vbi_draw_cc_page_region(pg, VBI_PIXFMT_RGBA32_LE, c, -1, 0, r, pg->columns, 1);
			for (k = 0; k < pg->columns; ++k) pg->text[r * pg->columns + k].unicode = keep[k];
		}
		else vbi_draw_vt_page_region(pg, VBI_PIXFMT_RGBA32_LE, c, -1, 0, r, pg->columns, 1, /* reveal */ 0, /* flash_on */ 1);
		for (y = 0; px && y < lines; ++y) {
			const uint8_t *o = d + hl + ((size_t) r * lines + y) * (W + 4);
			size_t sy = scale == 0 ? 2 * y : scale == 1 ? y : y / 2;
			if (o[0] != '"' || o[W + 1] != '"' || o[W + 2] != ',' || o[W + 3] != '\n') { px = 0; break; }
			for (x = 0; x < W; ++x) {
				int idx = map[o[1 + x]];
				/* a DRCS code on a caption page (nothing the decoder produces): draw_row_indexed blanks it, the caption renderer draws a glyph */
				if (cc && pg->text[r * pg->columns + x / cw].unicode >= 0xF000) continue;
				if (idx < 0 || pal[idx] != (c[sy * W + x] & 0xFFFFFF)) { px = 0; break; }
			}
		}
		free(c);
	}
	printf("ok %zu hdr=", n); h_puthex(d, (int) hl); printf(" ftr="); h_puthex(d + fl0, (int) (n - fl0)); printf(" px=%d\n", px);
	free(z); free(dv); vbi_export_delete(e);
}

/* ------------------------------------------------------------------ ONE html export object used for several exports (htmlnew / htmlrun) */
static vbi_export *html_obj;
static void html_obj_free(void) { if (html_obj) vbi_export_delete(html_obj); html_obj = NULL; }

/* htmlrun <target>: export the current page with the persistent object.  mem = what applications do: the size query
   vbi_export_mem (e, NULL, 0, pg) and then the export into an exact-size heap block, with the same object.
   prints: ok <size announced / delivered by the first call> <size of the data> <data> */
static void run_htmlrun(const char *t, int font, int pgno, int subno, int screen)
{
	vbi_page saved = *pg; uint8_t *d = NULL; size_t n = 0, need = 0; int ok = 1;
	pg->font[0] = pg->font[1] = vbi_font_descriptors + font; pg->pgno = pgno; pg->subno = subno; pg->screen_color = screen;
	if (!strcmp(t, "alloc")) {
		void *p = NULL;
		ok = vbi_export_alloc(html_obj, &p, &n, pg); d = (uint8_t *) p; need = n;
	} else if (!strcmp(t, "mem")) {
		ssize_t r = vbi_export_mem(html_obj, NULL, 0, pg);
		if (r < 0) ok = 0;
		else {
			ssize_t r2;
			need = (size_t) r; d = (uint8_t *) malloc(need ? need : 1); memset(d, 0xAA, need ? need : 1);
			r2 = vbi_export_mem(html_obj, d, need, pg);   /* exact-size heap block: ASan sees any write at index >= need */
			if (r2 < 0) ok = 0; else n = (size_t) r2;
		}
	} else if (!strcmp(t, "fp")) {
		const char *path = tmpfile_path(); FILE *fp = fopen(path, "wb");
		if (!fp || !vbi_export_stdio(html_obj, fp, pg)) ok = 0;
		if (fp) fclose(fp);
		if (ok) { d = slurp(path, &n); need = n; if (!d) ok = 0; }
		unlink(path);
	} else {
		const char *path = tmpfile_path();
		if (!vbi_export_file(html_obj, path, pg)) ok = 0;
		if (ok) { d = slurp(path, &n); need = n; if (!d) ok = 0; }
		unlink(path);
	}
	*pg = saved;
	if (!ok) printf("ok fail\n");
	else { printf("ok %zu %zu ", need, n); h_puthex(d, (int) (n < need ? n : need)); printf("\n"); }
	free(d);
}

/* does free_styles () put the current-attribute fields of the object back (a second export of a coloured cell by the
   same object gives the same bytes)? */
static int probe_reuse(void)
{
	char *err = NULL; vbi_export *e; void *a = NULL, *b = NULL; size_t na = 0, nb = 0; int r = 0;
	page_new(1, 1, 0x41);
	pg->text[0].foreground = 3; pg->text[0].background = 4;
	e = vbi_export_new("html,color=1,header=0,creator=verif", &err);
	if (e) {
		if (vbi_export_alloc(e, &a, &na, pg) && vbi_export_alloc(e, &b, &nb, pg)) r = na == nb && !memcmp(a, b, na);
		free(a); free(b); vbi_export_delete(e);
	} else free(err);
	page_free();
	return r;
}

/* ------------------------------------------------------------------ ppm module (header / size modelled, pixel order judged here) */
static void run_ppm(int aspect)
{
	char spec[32], *err = NULL; vbi_export *e; void *dv = NULL; size_t n = 0, hl = 0, i;
	const uint8_t *d; int cc = pg->columns < 40, cw = cc ? 16 : 12, ch = cc ? 26 : 10, scale = cc ? !!aspect : 1 + !!aspect;
	size_t W = (size_t) cw * pg->columns, lines = ((size_t) ch << scale) >> 1, rowsz = W * lines * 3; int px = 1, r;
	snprintf(spec, sizeof spec, "ppm,aspect=%d", aspect);
	e = vbi_export_new(spec, &err);
	if (!e) { free(err); printf("rej module\n"); return; }
	if (!vbi_export_alloc(e, &dv, &n, pg)) { printf("ok fail\n"); vbi_export_delete(e); return; }
	d = (const uint8_t *) dv;
	while (hl < n && hl < 64 && d[hl] != '\n') ++hl;
	if (hl < n) ++hl;
	if (n != hl + rowsz * pg->rows) px = 0;
	for (r = 0; px && r < pg->rows; ++r) {
		uint32_t *c = (uint32_t *) calloc(W * ch, 4); const uint8_t *o = d + hl + rowsz * r; size_t x, y;
		if (cc) vbi_draw_cc_page_region(pg, VBI_PIXFMT_RGBA32_LE, c, -1, 0, r, pg->columns, 1);
		else vbi_draw_vt_page_region(pg, VBI_PIXFMT_RGBA32_LE, c, -1, 0, r, pg->columns, 1, /* reveal: !e->reveal */ 1, 1);
		for (y = 0; px && y < lines; ++y) for (x = 0; x < W; ++x) {
			uint32_t a, b; unsigned R, G, B;
			if (scale == 0) { a = c[(2 * y) * W + x]; b = c[(2 * y + 1) * W + x]; }
			else if (scale == 1) a = b = c[y * W + x];
			else a = b = c[(y / 2) * W + x];
			R = ((a & 0xFF) + (b & 0xFF) + 1) >> 1; G = (((a >> 8) & 0xFF) + ((b >> 8) & 0xFF) + 1) >> 1; B = (((a >> 16) & 0xFF) + ((b >> 16) & 0xFF) + 1) >> 1;
			if (o[(y * W + x) * 3] != R || o[(y * W + x) * 3 + 1] != G || o[(y * W + x) * 3 + 2] != B) { px = 0; break; }
		}
		free(c);
	}
	printf("ok %zu hdr=", n); h_puthex(d, (int) hl); printf(" px=%d\n", px);
	(void) i; free(dv); vbi_export_delete(e);
}

/* ------------------------------------------------------------------ rendering */
static int fmt_of(const char *s, vbi_pixfmt *f, int *ct)
{
	if (0 == strcmp(s, "rgba")) { *f = VBI_PIXFMT_RGBA32_LE; *ct = 4; return 1; }
	if (0 == strcmp(s, "pal8")) { *f = VBI_PIXFMT_PAL8; *ct = 1; return 1; }
	if (0 == strcmp(s, "yuv420")) { *f = VBI_PIXFMT_YUV420; *ct = 0; return 1; }
	if (0 == strcmp(s, "rgb16")) { *f = VBI_PIXFMT_RGB16_LE; *ct = 0; return 1; }
	if (0 == strcmp(s, "bgra")) { *f = VBI_PIXFMT_BGRA32_LE; *ct = 0; return 1; }
	return 0;
}

static void render(int cc, vbi_pixfmt f, void *canvas, int stride, int col, int row, int w, int h, int reveal, int flash)
{
	if (cc) vbi_draw_cc_page_region(pg, f, canvas, stride, col, row, w, h);
	else vbi_draw_vt_page_region(pg, f, canvas, stride, col, row, w, h, reveal, flash);
}

static void run_draw(int cc, const char *fmts, long long stride, long long col, long long row, long long w, long long h, int reveal, int flash)
{
	vbi_pixfmt f; int ct, cw = cc ? 16 : 12, ch = cc ? 26 : 10;
	size_t S, size, i, nruns = 0, bytes = 0, hi = 0, bmax = 0; uint8_t *a, *b; uint32_t hash = 2166136261u;
	int cut = 0, eq = 1, cf = 1; long long r;
	if (!pg) { printf("rej state\n"); return; }
	if (!fmt_of(fmts, &f, &ct)) { printf("rej parse\n"); return; }
	if (col < 0 || row < 0 || w < 1 || h < 1 || col + w > pg->columns || row + h > pg->rows) { printf("rej region\n"); return; }
	if (ct == 0) { /* unsupported format: must draw nothing; canvas sized as for 1-byte pixels */
		S = stride < 0 ? (size_t)(pg->columns * cw) : (size_t) stride; ct = 1;
		if (stride >= 0 && stride < w * cw) { printf("rej region\n"); return; }
	} else {
		if (stride >= 0 && (stride < w * cw * ct || stride % ct)) { printf("rej region\n"); return; }
		S = stride < 0 ? (size_t)(pg->columns * cw * ct) : (size_t) stride;
	}
	if (S > (1u << 16)) { printf("rej region\n"); return; }
	size = S * (size_t) h * ch;                  /* the documented canvas size, allocated exactly */
	a = (uint8_t *) malloc(size); b = (uint8_t *) malloc(size);
	memset(a, 0x00, size); memset(b, 0xFF, size);
	render(cc, f, a, (int) stride, (int) col, (int) row, (int) w, (int) h, reveal, flash);
	render(cc, f, b, (int) stride, (int) col, (int) row, (int) w, (int) h, reveal, flash);
	for (i = 0; i < size; ) {
		size_t j;
		if (a[i] != b[i]) { ++i; continue; }
		for (j = i; j < size && a[j] == b[j]; ++j) { size_t bb = j % S + 1; if (bb > bmax) bmax = bb; }
		++nruns; bytes += j - i; hi = j;
		hash = fnv(fnv(hash, (uint32_t) i), (uint32_t)(j - i));
		i = j;
	}
	if (!cc && ct) {
		/* concealed (reveal off) and flashing (flash off) characters must be drawn as spaces:
		   render a copy of the page where they ARE spaces and compare */
		vbi_page *orig = pg, *cp = (vbi_page *) malloc(sizeof *cp); uint8_t *c = (uint8_t *) malloc(size); int k;
		memcpy(cp, pg, sizeof *cp);
		for (k = 0; k < 1056; ++k) {
			if ((cp->text[k].conceal && !reveal) || (cp->text[k].flash && !flash)) cp->text[k].unicode = 0x20;
			cp->text[k].conceal = 0; cp->text[k].flash = 0;
		}
		memset(c, 0x00, size);
		pg = cp; render(cc, f, c, (int) stride, (int) col, (int) row, (int) w, (int) h, reveal, flash); pg = orig;
		cf = 0 == memcmp(a, c, size);
		free(c); free(cp);
	}
	for (r = row; r < row + h; ++r) {
		if (!cc && is_over(pg->text[r * pg->columns + col].size)) cut = 1;
		if (!cc && is_wide(pg->text[r * pg->columns + col + w - 1].size)) cut = 1;
	}
	if (!cut && fmt_of(fmts, &f, &ct) && ct) {
		/* full-page rendering with one spare cell per line (a wide character in the last page column
		   would otherwise overflow here too) */
		size_t FS = (size_t)(pg->columns + 1) * cw * ct, fsize = FS * (size_t) pg->rows * ch, x, y;
		uint8_t *full = (uint8_t *) malloc(fsize);
		memset(full, 0x00, fsize);
		render(cc, f, full, (int) FS, 0, 0, pg->columns, pg->rows, reveal, flash);
		for (y = 0; y < (size_t) h * ch && eq; ++y)
			for (x = 0; x < (size_t) w * cw * ct; ++x) {
				size_t ra = y * S + x, fa = ((size_t) row * ch + y) * FS + (size_t) col * cw * ct + x;
				if (a[ra] != b[ra]) continue;   /* not written (OVER_TOP/OVER_BOTTOM cell nobody covers) */
				if (a[ra] != full[fa]) { eq = 0; break; }
			}
		free(full);
		printf("ok n=%zu bytes=%zu hash=%u hi=%zu bmax=%zu eq=%d cf=%d\n", nruns, bytes, hash, hi, bmax, eq, cf);
	} else
		printf("ok n=%zu bytes=%zu hash=%u hi=%zu bmax=%zu eq=na cf=%d\n", nruns, bytes, hash, hi, bmax, cf);
	free(a); free(b);
}

/* does the renderer clip a wide character in the last column of a region (fix of F14 applied)? */
static int probe_wideclip(void)
{
	size_t S = 4 * 12, size = S * 10 * 2, i; uint8_t *a; int clipped = 1;
	page_new(2, 4, 0x41);
	pg->text[0 * 4 + 1].size = VBI_DOUBLE_WIDTH;
	a = (uint8_t *) malloc(size); memset(a, 0xEE, size);
	vbi_draw_vt_page_region(pg, VBI_PIXFMT_PAL8, a, (int) S, 0, 0, 2, 1, 1, 1);
	for (i = 2 * 12; i < 3 * 12; ++i) if (a[i] != 0xEE) clipped = 0;
	free(a); page_free();
	return clipped;
}

static int probe_nullguard(void)
{
	pid_t p; int st = 0;
	fflush(stdout);
	p = fork();
	if (p == 0) {
		vbi_export ex; vbi_page dummy; uint8_t one = 'x';
		int fd = open("/dev/null", O_WRONLY); if (fd >= 0) { dup2(fd, 2); dup2(fd, 1); }
		memset(&ex, 0, sizeof ex); memset(&dummy, 0, sizeof dummy);
		replay_class._public = &replay_info; replay_class.export = replay_export; ex._class = &replay_class;
		ops_clear(); { uint8_t *b = (uint8_t *) malloc(1); b[0] = one; ops_push(OP_WRITE, 0, b, 1); }
		_exit(vbi_export_mem(&ex, NULL, 0, &dummy) == 1 ? 0 : 1);
	}
	waitpid(p, &st, 0);
	return WIFEXITED(st) && WEXITSTATUS(st) == 0;
}

/* does print_unicode fail on E2BIG (F27a repaired)?  "A" + U+20AC, UTF-8, 3 bytes */
static int probe_e2big(void)
{
	char buf[3]; int n;
	page_new(1, 2, 0x41); pg->text[1].unicode = 0x20AC;
	n = vbi_print_page_region(pg, buf, 3, "UTF-8", 1, 0, 0, 0, 2, 1);
	page_free();
	return n == 0;
}

/* is U+0140 kept in UCS-2LE (F27b repaired)? */
static int probe_atone(void)
{
	char buf[4]; int n;
	page_new(1, 1, 0x140);
	n = vbi_print_page_region(pg, buf, 4, "UCS-2LE", 1, 0, 0, 0, 1, 1);
	page_free();
	return n == 2 && buf[0] == 0x40 && buf[1] == 0x01;
}

/* ------------------------------------------------------------------ main */
static int no_nul(const uint8_t *b, int n) { int i; for (i = 0; i < n; ++i) if (!b[i]) return 0; return 1; }

/* keep sanitizer reports short enough for the check driver's 3000 character window */
const char *__asan_default_options(void) { return "print_legend=0:malloc_context_size=4"; }

int main(void)
{
	int r;
	setvbuf(stdout, NULL, _IOLBF, 0);   /* a sanitizer abort must not lose the lines already produced */
	while ((r = h_next())) {
		long long v[8]; uint8_t *b = NULL; int len = 0;
		if (r == 2) { ops_clear(); page_free(); html_obj_free(); heap_limit = ~0ULL; continue; }
		if (H_IS(0, "consts")) {
			printf("ok tcw=12 tch=10 ccw=16 cch=26 text=%d sizes=%d,%d,%d,%d,%d,%d,%d,%d tgt=%d,%d,%d,%d,%d opaque=%d\n",
			       (int)(sizeof pg->text / sizeof pg->text[0]),
			       VBI_NORMAL_SIZE, VBI_DOUBLE_WIDTH, VBI_DOUBLE_HEIGHT, VBI_DOUBLE_SIZE, VBI_OVER_TOP, VBI_OVER_BOTTOM,
			       VBI_DOUBLE_HEIGHT2, VBI_DOUBLE_SIZE2, VBI_EXPORT_TARGET_MEM, VBI_EXPORT_TARGET_ALLOC, VBI_EXPORT_TARGET_FP,
			       VBI_EXPORT_TARGET_FD, VBI_EXPORT_TARGET_FILE, VBI_OPAQUE);
		} else if (H_IS(0, "probe")) {
			int wc, ng, eb, ao; ops_clear(); html_obj_free(); wc = probe_wideclip(); ng = probe_nullguard(); eb = probe_e2big(); ao = probe_atone(); ops_clear();
			printf("ok wideclip=%d nullguard=%d e2big=%d atone=%d\n", wc, ng, eb, ao);
		} else if (H_IS(0, "probehtml")) {
			int a, b, c, d; html_obj_free(); a = probe_titlelt(); b = probe_gfxesc(); c = probe_italfont(); d = probe_reuse();
			printf("ok titlelt=%d gfxesc=%d italfont=%d reuse=%d\n", a, b, c, d);
		} else if (H_IS(0, "htmlexp")) {
			/* htmlexp <font> <gfx_chr (decimal, two or more digits)> <color> <header> <reveal> <pgno> <subno> <screen>: the html module, modelled */
			int i, okp = h_ntok == 9;
			for (i = 0; okp && i < 8; ++i) if (!NUM(i + 1, v[i]) || v[i] < 0) okp = 0;
			if (!okp || !html_font_ok(v[0]) || v[1] < 10 || v[1] > 99999 || h_tok[2][0] == '0' || v[2] > 1 || v[3] > 1 || v[4] > 1
			    || v[5] > 0x8FF || v[6] > 0x3F7F || v[7] > 39) printf("rej parse\n");
			else if (!pg) printf("rej state\n");
			else {
				size_t n = 0;
				uint8_t *d = html_alloc(h_tok[2], (int) v[2], (int) v[3], (int) v[4], (int) v[0], (int) v[5], (int) v[6], (int) v[7], &n);
				if (d) { printf("ok %zu ", n); h_puthex(d, (int) n); printf("\n"); free(d); }
				else printf("ok fail\n");
			}
		} else if (H_IS(0, "htmlnew")) {
			/* htmlnew <gfx_chr> <color> <header> <reveal>: ONE html export object for the htmlrun ops of this case */
			int i, okp = h_ntok == 5;
			for (i = 0; okp && i < 4; ++i) if (!NUM(i + 1, v[i]) || v[i] < 0) okp = 0;
			if (!okp || v[0] < 10 || v[0] > 99999 || h_tok[1][0] == '0' || v[1] > 1 || v[2] > 1 || v[3] > 1) printf("rej parse\n");
			else {
				char spec[160], *err = NULL;
				html_obj_free();
				snprintf(spec, sizeof spec, "html,gfx_chr=%s,color=%d,header=%d,reveal=%d,creator=verif", h_tok[1], (int) v[1], (int) v[2], (int) v[3]);
				html_obj = vbi_export_new(spec, &err);
				if (!html_obj) { free(err); printf("rej module\n"); } else printf("ok htmlnew\n");
			}
		} else if (H_IS(0, "htmlrun")) {
			/* htmlrun <alloc|mem|fp|file> <font> <pgno> <subno> <screen> */
			int i, okp = h_ntok == 6 && (H_IS(1, "alloc") || H_IS(1, "mem") || H_IS(1, "fp") || H_IS(1, "file"));
			for (i = 0; okp && i < 4; ++i) if (!NUM(i + 2, v[i]) || v[i] < 0) okp = 0;
			if (!okp || !html_font_ok(v[0]) || v[1] > 0x8FF || v[2] > 0x3F7F || v[3] > 39) printf("rej parse\n");
			else if (!pg || !html_obj) printf("rej state\n");
			else run_htmlrun(h_tok[1], (int) v[0], (int) v[1], (int) v[2], (int) v[3]);
		} else if (H_IS(0, "xpmexp")) {
			/* xpmexp <aspect> <transparency> <titled> <pgno> <subno> */
			int i, okp = h_ntok == 6;
			for (i = 0; okp && i < 5; ++i) if (!NUM(i + 1, v[i]) || v[i] < 0) okp = 0;
			if (!okp || v[0] > 1 || v[1] > 1 || v[2] > 1 || v[3] > 0x8FF || v[4] > 0x3F7F) printf("rej parse\n");
			else if (!pg) printf("rej state\n");
			else run_xpm((int) v[0], (int) v[1], (int) v[2], (int) v[3], (int) v[4]);
		} else if (H_IS(0, "ppmexp")) {
			if (h_ntok != 2 || !NUM(1, v[0]) || v[0] < 0 || v[0] > 1) printf("rej parse\n");
			else if (!pg) printf("rej state\n");
			else run_ppm((int) v[0]);
		} else if (H_IS(0, "begin")) {
			if (h_ntok != 5 || !(H_IS(1, "mem") || H_IS(1, "alloc") || H_IS(1, "fp") || H_IS(1, "file") || H_IS(1, "filebad"))
			    || !(H_IS(2, "null") || (NUM(2, v[0]) && v[0] >= 0 && v[0] <= (1 << 20)))
			    || !NUM(3, v[1]) || v[1] < 0 || !NUM(4, v[2]) || v[2] < 0) printf("rej parse\n");
			else if (begun) printf("rej state\n");
			else {
				ops_clear(); begun = 1; strcpy(tgt, h_tok[1]); unull = H_IS(2, "null"); usize = unull ? 0 : v[0];
				pending_heap_limit = (unsigned long long) v[1]; sink_limit = (unsigned long long) v[2];
				printf("ok begin\n");
			}
		} else if (H_IS(0, "putc") || H_IS(0, "write") || H_IS(0, "puts") || H_IS(0, "printf") || H_IS(0, "flush") || H_IS(0, "direct") || H_IS(0, "end")) {
			if (H_IS(0, "end")) {
				if (h_ntok != 1) printf("rej parse\n");
				else if (!begun) printf("rej state\n");
				else { heap_limit = pending_heap_limit; run_end(); heap_limit = ~0ULL; }
			} else if (H_IS(0, "putc")) {
				if (h_ntok != 2 || !NUM(1, v[0]) || v[0] < 0 || v[0] > 255) printf("rej parse\n");
				else if (!begun) printf("rej state\n"); else { ops_push(OP_PUTC, v[0], NULL, 0); printf("ok q\n"); }
			} else if (H_IS(0, "flush")) {
				if (h_ntok != 1) printf("rej parse\n");
				else if (!begun) printf("rej state\n"); else { ops_push(OP_FLUSH, 0, NULL, 0); printf("ok q\n"); }
			} else if (H_IS(0, "write")) {
				if (h_ntok != 2 || !(b = h_hex(h_tok[1], &len))) printf("rej parse\n");
				else if (!begun) printf("rej state\n"); else { ops_push(OP_WRITE, 0, b, len); b = NULL; printf("ok q\n"); }
			} else if (H_IS(0, "puts") || H_IS(0, "printf")) {
				if (h_ntok == 2 && H_IS(0, "puts") && H_IS(1, "null")) {
					if (!begun) printf("rej state\n"); else { ops_push(OP_PUTSNULL, 0, NULL, 0); printf("ok q\n"); }
				} else if (h_ntok != 2 || !(b = h_hex(h_tok[1], &len)) || !no_nul(b, len)) printf("rej parse\n");
				else if (!begun) printf("rej state\n");
				else {
					uint8_t *z = (uint8_t *) malloc((size_t) len + 1); memcpy(z, b, (size_t) len); z[len] = 0;
					ops_push(H_IS(0, "puts") ? OP_PUTS : OP_PRINTF, 0, z, len); printf("ok q\n");
				}
			} else { /* direct n hex */
				if (h_ntok != 3 || !NUM(1, v[0]) || v[0] < 0 || v[0] > (1 << 24) || !(b = h_hex(h_tok[2], &len)) || len > v[0]) printf("rej parse\n");
				else if (!begun) printf("rej state\n"); else { ops_push(OP_DIRECT, v[0], b, len); b = NULL; printf("ok q\n"); }
			}
		} else if (H_IS(0, "page")) {
			if (h_ntok != 4 || !NUM(1, v[0]) || !NUM(2, v[1]) || !NUM(3, v[2]) || v[0] < 1 || v[0] > 25 || v[1] < 1 || v[1] > 41
			    || v[0] * v[1] > 1056 || v[2] < 0 || v[2] > 0xFFFF) printf("rej parse\n");
			else { page_new((int) v[0], (int) v[1], (unsigned) v[2]); printf("ok page\n"); }
		} else if (H_IS(0, "cell")) {
			int i, okp = h_ntok == 9;
			for (i = 0; okp && i < 8; ++i) if (!NUM(i + 1, v[i]) || v[i] < 0) okp = 0;
			if (!okp || v[2] > 0xFFFF || v[3] > 7 || v[4] > 31 || v[5] > 39 || v[6] > 39 || v[7] > 3) printf("rej parse\n");
			else if (!pg) printf("rej state\n");
			else if (v[0] >= pg->rows || v[1] >= pg->columns) printf("rej parse\n");
			else {
				vbi_char *c = &pg->text[v[0] * pg->columns + v[1]];
				c->unicode = (unsigned) v[2]; c->size = (unsigned) v[3];
				c->underline = v[4] & 1; c->bold = (v[4] >> 1) & 1; c->italic = (v[4] >> 2) & 1; c->flash = (v[4] >> 3) & 1; c->conceal = (v[4] >> 4) & 1;
				c->foreground = (unsigned) v[5]; c->background = (unsigned) v[6]; c->opacity = (unsigned) v[7];
				printf("ok cell\n");
			}
		} else if (H_IS(0, "drcs")) {
			if (h_ntok != 3 || !NUM(1, v[0]) || !NUM(2, v[1]) || v[0] < 0 || v[0] > 31 || v[1] < 0 || v[1] > 1) printf("rej parse\n");
			else if (!pg) printf("rej state\n");
			else {
				int i;
				free(drcs_font[v[0]]); drcs_font[v[0]] = NULL;
				if (v[1]) { drcs_font[v[0]] = (uint8_t *) malloc(64 * 60); for (i = 0; i < 64 * 60; ++i) drcs_font[v[0]][i] = (uint8_t)(i * 7 + v[0]); }
				pg->drcs[v[0]] = drcs_font[v[0]];
				printf("ok drcs\n");
			}
		} else if (H_IS(0, "print") || H_IS(0, "printnt")) {
			/* print <format> <size> <col> <row> <w> <h>   (table mode; printnt = non-table mode) */
			int i, okp = h_ntok == 7;
			for (i = 0; okp && i < 4; ++i) if (!NUM(i + 3, v[i])) okp = 0;
			if (!okp || !NUM(2, v[5]) || v[5] < 0 || v[5] > (1 << 20)) printf("rej parse\n");
			else if (!pg) printf("rej state\n");
			else {
				int sz = (int) v[5], n; char *buf = (char *) malloc(sz ? (size_t) sz : 1);
				const char *fmt = h_tok[1];
				int known = !strcmp(fmt, "ISO-8859-1") || !strcmp(fmt, "UTF-8") || !strcmp(fmt, "ASCII") || !strcmp(fmt, "UCS-2LE");
				for (i = 0; okp && i < 4; ++i) if (v[i] < -100000 || v[i] > 100000) okp = 0;
				if (!known || !okp) { printf("rej parse\n"); free(buf); }
				else {
					if (sz == 0) buf[0] = 0x5C; else memset(buf, 0xAA, (size_t) sz);
					n = vbi_print_page_region(pg, buf, sz, fmt, H_IS(0, "print"), 0, (int) v[0], (int) v[1], (int) v[2], (int) v[3]);
					if (n < 0 || n > sz || (sz == 0 && buf[0] != 0x5C)) printf("ok OVERRUN %d of %d\n", n, sz);
					else { printf("ok %d ", n); h_puthex((uint8_t *) buf, n); printf("\n"); }
					free(buf);
				}
			}
		} else if (H_IS(0, "textexp")) {
			/* textexp <charset> <gfx_chr (decimal, two or more digits)> <control 0..2>: the text module, modelled */
			if (h_ntok != 4 || !NUM(2, v[0]) || !NUM(3, v[1]) || v[0] < 10 || v[0] > 99999 || h_tok[2][0] == '0' || v[1] < 0 || v[1] > 2
			    || !(!strcmp(h_tok[1], "ISO-8859-1") || !strcmp(h_tok[1], "UTF-8") || !strcmp(h_tok[1], "ASCII") || !strcmp(h_tok[1], "UCS-2LE"))) printf("rej parse\n");
			else if (!pg) printf("rej state\n");
			else {
				char spec[128], *err = NULL; vbi_export *e; void *d = NULL; size_t n = 0;
				snprintf(spec, sizeof spec, "text,charset=%s,gfx_chr=%s,control=%d", h_tok[1], h_tok[2], (int) v[1]);
				e = vbi_export_new(spec, &err);
				if (!e) { free(err); printf("rej module\n"); }
				else {
					if (vbi_export_alloc(e, &d, &n, pg)) { printf("ok %zu ", n); h_puthex((uint8_t *) d, (int) n); printf("\n"); free(d); }
					else printf("ok fail\n");
					vbi_export_delete(e);
				}
			}
		} else if (H_IS(0, "export")) {
			if (h_ntok != 2) printf("rej parse\n");
			else if (!pg) printf("rej state\n");
			else run_export(h_tok[1]);
		} else if (H_IS(0, "draw")) {
			int cc = H_IS(1, "cc"), i, okp = (H_IS(1, "vt") && h_ntok == 10) || (cc && h_ntok == 8);
			for (i = 0; okp && i < (cc ? 5 : 7); ++i) if (!NUM(i + 3, v[i]) || v[i] < -1 || v[i] > 100000) okp = 0;
			if (!okp) printf("rej parse\n");
			else run_draw(cc, h_tok[2], v[0], v[1], v[2], v[3], v[4], cc ? 1 : (int)(v[5] != 0), cc ? 1 : (int)(v[6] != 0));
		} else printf("rej op\n");
		free(b);
	}
	ops_clear(); page_free(); html_obj_free(); free(ops); free(trace); free(sink);
	return 0;
}
