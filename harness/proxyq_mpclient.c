/* C18 runtime stage, client side: one proxy client process built on the REAL src/proxy-client.c (which is not
 * part of the sanitizer library, so it is #included here) and the generic capture API.  Driven by lib/proxyq_mp.py.
 *
 *   proxyq_mpclient <device name> <services> <strict> <buffers>
 *
 * stdout (every line flushed):
 *   connected services=<hex granted> count=<lines>     after vbi_capture_proxy_new()   (else: failed <text>, exit 2)
 *   f <ts_us> <n> <id>.<line>.<seed>,...               one line per frame from vbi_capture_pull_sliced(); id hex;
 *                                                      seed = data[0], `bad` when data[j] != data[0]+j; `-` when n = 0
 *   eof <errno>                                        the connection is gone (daemon exit), exit 3
 * commands on stdin:
 *   pause                -> paused        stop reading the socket (the daemon's send() runs into EAGAIN)
 *   resume               -> resumed
 *   svc <mask> <strict> <reset>  -> svc <hex granted, all services> ret=<hex> count=<lines>
 *                                         vbi_capture_update_services() through the proxy (frames arriving meanwhile
 *                                         are discarded by proxy-client.c)
 *   quit                 -> bye           vbi_capture_delete(), vbi_proxy_client_destroy(), exit 0
 *   die                                   _exit(0) at once: the daemon sees an abrupt end of file
 * The client is created with VBI_PROXY_CLIENT_NO_TIMEOUTS: proxy-client.c's 4 s / 5 s / 2 s timeouts (connect, RPC,
 * idle wait) would make the stage depend on machine load; a daemon which does not answer is noticed by the
 * orchestrator's deadline instead.  The process select()s on stdin and on the proxy socket itself.
 */
#define _GNU_SOURCE
#include <signal.h>
#include <sys/select.h>
#include "src/proxy-client.c"

/* two small leaks of the client library, outside C18 (the daemon's frame queue): the socket address of
 * vbi_proxy_msg_connect_to_server() (same function as in the daemon) and vbi_proxy_client_create()'s copy of the
 * client name, which vbi_proxy_client_destroy() does not free */
const char *__lsan_default_suppressions(void) { return "leak:vbi_proxy_msg_get_local_socket_addr\nleak:vbi_proxy_client_create\n"; }

static char ibuf[4096]; static size_t ilen;

static void say(const char *fmt, ...)
{
	va_list ap;
	va_start(ap, fmt);
	vprintf(fmt, ap);
	va_end(ap);
	putchar('\n');
	fflush(stdout);
}

static int lines_of(vbi_capture *cap)
{
	vbi_raw_decoder *d = vbi_capture_parameters(cap);
	return d ? d->count[0] + d->count[1] : -1;
}

int main(int argc, char **argv)
{
	vbi_proxy_client *vpc; vbi_capture *cap; char *err = NULL;
	unsigned int services; int strict, buffers, paused = 0;
	if (argc != 5) { fprintf(stderr, "usage: proxyq_mpclient <device> <services> <strict> <buffers>\n"); return 2; }
	services = (unsigned int) strtoul(argv[2], NULL, 0);
	strict = atoi(argv[3]);
	buffers = atoi(argv[4]);
	signal(SIGPIPE, SIG_IGN);
	if (services == 0) { say("failed no services"); return 2; }

	vpc = vbi_proxy_client_create(argv[1], "verif-mp", VBI_PROXY_CLIENT_NO_TIMEOUTS, &err, 0);
	if (!vpc) { say("failed create %s", err ? err : "?"); return 2; }
	cap = vbi_capture_proxy_new(vpc, buffers, 625, &services, strict, &err);
	if (!cap) {
		say("failed %s", err ? err : "?");
		free(err);
		vbi_proxy_client_destroy(vpc);
		return 2;
	}
	say("connected services=%x count=%d", vpc->services, lines_of(cap));

	for (;;) {
		fd_set rd; int fd = vbi_capture_fd(cap), mx = 0, r;
		FD_ZERO(&rd);
		FD_SET(0, &rd);
		if (!paused && fd >= 0) { FD_SET(fd, &rd); mx = fd; }
		r = select(mx + 1, &rd, NULL, NULL, NULL);
		if (r < 0) { if (errno == EINTR) continue; say("error select %d", errno); return 3; }
		if (FD_ISSET(0, &rd)) {
			ssize_t n = read(0, ibuf + ilen, sizeof ibuf - 1 - ilen);
			char *nl;
			if (n <= 0) _exit(4);                       /* the orchestrator is gone */
			ilen += (size_t) n; ibuf[ilen] = 0;
			while ((nl = strchr(ibuf, '\n')) != NULL) {
				char cmd[256]; size_t l = (size_t)(nl - ibuf);
				if (l >= sizeof cmd) l = sizeof cmd - 1;
				memcpy(cmd, ibuf, l); cmd[l] = 0;
				memmove(ibuf, nl + 1, ilen - (size_t)(nl + 1 - ibuf) + 1);
				ilen -= (size_t)(nl + 1 - ibuf);
				if (!strcmp(cmd, "pause")) { paused = 1; say("paused"); }
				else if (!strcmp(cmd, "resume")) { paused = 0; say("resumed"); }
				else if (!strcmp(cmd, "die")) _exit(0);
				else if (!strcmp(cmd, "quit")) {
					vbi_capture_delete(cap);
					vbi_proxy_client_destroy(vpc);
					say("bye");
					return 0;
				}
				else if (!strncmp(cmd, "svc ", 4)) {
					unsigned int m = 0, g; int st = 0, rs = 0; char *e2 = NULL;
					if (sscanf(cmd + 4, "%i %d %d", (int *) &m, &st, &rs) != 3) { say("rej parse"); continue; }
					g = vbi_capture_update_services(cap, rs, TRUE, m, st, &e2);
					if (vpc->state != CLNT_STATE_CAPTURING) { say("eof svc %s", e2 ? e2 : "?"); return 3; }
					say("svc %x ret=%x count=%d%s%s", vpc->services, g, lines_of(cap), e2 ? " rej=" : "", e2 ? e2 : "");
					free(e2);
				}
				else say("rej op");
			}
			if (ilen >= sizeof ibuf - 1) ilen = 0;
			continue;                                    /* commands first: `pause` takes effect before the next frame */
		}
		if (fd >= 0 && FD_ISSET(fd, &rd)) {
			vbi_capture_buffer *buf = NULL; struct timeval tv;
			tv.tv_sec = 1; tv.tv_usec = 0;
			r = vbi_capture_pull_sliced(cap, &buf, &tv);
			if (r < 0) { say("eof %d", errno); return 3; }
			if (r == 0) continue;                        /* a message which is not a frame, or a timeout */
			if (buf) {
				vbi_sliced *s = (vbi_sliced *) buf->data; int n = buf->size / (int) sizeof(vbi_sliced), i;
				printf("f %lld %d ", (long long)(buf->timestamp * 1e6 + 0.5), n);
				if (n == 0) printf("-");
				for (i = 0; i < n; ++i) {
					int j, ok = 1;
					for (j = 0; j < (int) sizeof s[i].data; ++j) if (s[i].data[j] != (uint8_t)(s[i].data[0] + j)) ok = 0;
					if (ok) printf("%s%x.%u.%u", i ? "," : "", s[i].id, s[i].line, (unsigned) s[i].data[0]);
					else printf("%s%x.%u.bad", i ? "," : "", s[i].id, s[i].line);
				}
				putchar('\n');
				fflush(stdout);
			}
		}
	}
}
