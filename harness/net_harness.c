/* Harness for component `net` (C13): announcements of network, programme, time and aspect.
   Sliced lines go through vbi_decode() of a real vbi_decoder with ONE event-logging handler;
   vbi_is_cached() probes the Teletext cache.  Speaks the line protocol of lean/Driver/Net.lean.
   packet.c is #included to reach the static station_lookup() and the decoder's private state,
   caption.c to call the static xds_strfu() on exact-size heap arrays (`strfu` op). */
#include "hutil.h"
#include <math.h>
#include "src/packet.c"
#define default_color_map cc_default_color_map   /* static of the same name in packet.c */
#include "src/caption.c"
#undef default_color_map

static vbi_decoder *dec;
static long long cur_us;            /* mirror of vbi->time in microseconds (for the `rej time` pre-check only) */
static char evlog[1 << 16];
static size_t evlen;

static void ev_put(const char *fmt, ...)
{
	va_list ap;
	va_start(ap, fmt);
	if (evlen < sizeof evlog - 1)
		evlen += (size_t) vsnprintf(evlog + evlen, sizeof evlog - evlen, fmt, ap);
	if (evlen >= sizeof evlog) evlen = sizeof evlog - 1;
	va_end(ap);
}

static void ev_hexstr(const signed char *s)
{
	if (!s[0]) { ev_put("-"); return; }
	for (; *s; ++s) ev_put("%02x", (unsigned char) *s);
}

static void ev_net(const char *tag, const vbi_network *n)
{
	ev_put(" %s:%u:", tag, n->nuid);
	ev_hexstr(n->name); ev_put(":"); ev_hexstr(n->call);
	ev_put(":%d:%d:%d:%d", n->cni_vps, n->cni_8301, n->cni_8302, n->cycle);
}

static int ratio_enum(double r) { return r == 0.0 ? 0 : r == 1.0 ? 1 : r == 0.75 ? 2 : 9; }

static void ev_aspect(const char *tag, const vbi_aspect_ratio *a)
{
	ev_put(" %s:%d:%d:%d:%d:%d", tag, a->first_line, a->last_line, ratio_enum(a->ratio), (int) a->film_mode, (int) a->open_subtitles);
}

static void ev_pid(const char *tag, const vbi_program_id *p)
{
	ev_put(" %s:%u:%u:%u:%u:%u:%u:%u:%u:%u", tag, (unsigned) p->channel, (unsigned) p->cni_type, p->cni, (unsigned) p->pil,
	       (unsigned) p->luf, (unsigned) p->mi, (unsigned) p->prf, (unsigned) p->pcs_audio, p->pty);
}

static void handler(vbi_event *ev, void *ud)
{
	(void) ud;
	switch (ev->type) {
	case VBI_EVENT_NETWORK: ev_net("net", &ev->ev.network); break;
	case VBI_EVENT_NETWORK_ID: ev_net("nid", &ev->ev.network); break;
	case VBI_EVENT_PROG_ID: ev_pid("pid", ev->ev.prog_id); break;
	case VBI_EVENT_LOCAL_TIME: ev_put(" lt:%lld:%d", (long long) ev->ev.local_time->time, ev->ev.local_time->seconds_east); break;
	case VBI_EVENT_ASPECT: ev_aspect("asp", &ev->ev.aspect); break;
	case VBI_EVENT_PROG_INFO: ev_aspect("pi", &ev->ev.prog_info->aspect); break;
	default: break; /* TTX_PAGE, CAPTION: other components */
	}
}

static void fresh(void)
{
	if (dec) vbi_decoder_delete(dec);
	dec = vbi_decoder_new();
	if (!dec) { fprintf(stderr, "vbi_decoder_new failed\n"); exit(3); }
	cur_us = 0;
}

#define MASK_ALLOWED (VBI_EVENT_TTX_PAGE | VBI_EVENT_CAPTION | VBI_EVENT_NETWORK | VBI_EVENT_ASPECT | VBI_EVENT_PROG_INFO | \
		      VBI_EVENT_NETWORK_ID | VBI_EVENT_LOCAL_TIME | VBI_EVENT_PROG_ID)

/* non-negative decimal / 0x-hex */
static int nat(const char *s, long long *out) { return s[0] != '-' && h_int(s, out) && *out >= 0; }

enum { MAXL = 4096 };
static vbi_sliced lines[MAXL];
static int nlines;

static int add_line(unsigned id, unsigned line, const uint8_t *d, int n)
{
	if (nlines >= MAXL) return 0;
	memset(&lines[nlines], 0, sizeof lines[0]);
	lines[nlines].id = id; lines[nlines].line = line; memcpy(lines[nlines].data, d, (size_t) n);
	nlines++;
	return 1;
}

static void ttx_header(uint8_t *p, int pgno)
{
	int i;
	p[0] = vbi_ham8((unsigned)(pgno >> 8) & 7); p[1] = vbi_ham8(0);
	p[2] = vbi_ham8((unsigned) pgno & 15); p[3] = vbi_ham8((unsigned)(pgno >> 4) & 15);
	for (i = 4; i < 10; ++i) p[i] = vbi_ham8(0);
	for (i = 10; i < 42; ++i) p[i] = vbi_par8(' ');
}

/* returns 0 = parse error, 1 = ok, 2 = kind error (recorded, parsing continues) */
static int add_token(char *tok, int *kind_bad)
{
	char *arg; int len = 0; uint8_t *b;
	if (strlen(tok) < 2 || tok[1] != ':') return 0;
	arg = tok + 2;
	if (strchr(arg, ':')) return 0;
	switch (tok[0]) {
	case 'v':
		b = h_hex(arg, &len); if (!b) return 0; if (len != 13) { free(b); return 0; }
		add_line(VBI_SLICED_VPS, 16, b, 13); free(b); return 1;
	case 't': {
		int pmag;
		b = h_hex(arg, &len); if (!b) return 0; if (len != 42) { free(b); return 0; }
		pmag = vbi_unham16p(b);
		if (pmag >= 0 && (pmag >> 3) < 30) *kind_bad = 1;
		add_line(VBI_SLICED_TELETEXT_B, 7, b, 42); free(b); return 1; }
	case 'w':
		b = h_hex(arg, &len); if (!b) return 0; if (len != 2) { free(b); return 0; }
		add_line(VBI_SLICED_WSS_625, 23, b, 2); free(b); return 1;
	case 'j':	/* WSS CPR-1204 (525-line systems): three bytes, vbi_decode_wss_cpr1204 */
		b = h_hex(arg, &len); if (!b) return 0; if (len != 3) { free(b); return 0; }
		add_line(VBI_SLICED_WSS_CPR1204, 20, b, 3); free(b); return 1;
	case 'n': case 'c': {
		int i, sum; uint8_t pr[2]; int ty = tok[0] == 'n' ? 1 : 2; int ok = 1;
		b = h_hex(arg, &len); if (!b) return 0;
		if (len < 1 || len > 32) ok = 0;
		for (i = 0; ok && i < len; ++i)
			if (b[i] > 0x7F || b[i] < ((i & 1) ? 0x01 : 0x20)) ok = 0;
		if (!ok) { *kind_bad = 1; free(b); return 1; }
		pr[0] = vbi_par8(0x05); pr[1] = vbi_par8((unsigned) ty); sum = 0x05 + ty;   /* class 2 (channel) start */
		add_line(VBI_SLICED_CAPTION_525, 284, pr, 2);
		for (i = 0; i < len; i += 2) {
			int c1 = b[i], c2 = (i + 1 < len) ? b[i + 1] : 0;
			pr[0] = vbi_par8((unsigned) c1); pr[1] = vbi_par8((unsigned) c2); sum += c1 + c2;
			add_line(VBI_SLICED_CAPTION_525, 284, pr, 2);
		}
		sum += 0x0F;
		pr[0] = vbi_par8(0x0F); pr[1] = vbi_par8((unsigned)(-sum) & 0x7F);
		add_line(VBI_SLICED_CAPTION_525, 284, pr, 2);
		free(b); return 1; }
	case 'p': {
		long long pg; uint8_t p[42]; int i;
		if (!nat(arg, &pg)) return 0;
		if (pg < 0x100 || pg > 0x8FF || (pg & 15) > 9 || ((pg >> 4) & 15) > 9) { *kind_bad = 1; return 1; }
		ttx_header(p, (int) pg); add_line(VBI_SLICED_TELETEXT_B, 7, p, 42);
		p[0] = vbi_ham8(((unsigned)(pg >> 8) & 7) | 8); p[1] = vbi_ham8(0);
		for (i = 2; i < 42; ++i) p[i] = vbi_par8('A');
		add_line(VBI_SLICED_TELETEXT_B, 8, p, 42);
		ttx_header(p, (int)(pg | 0xFF)); add_line(VBI_SLICED_TELETEXT_B, 9, p, 42);
		return 1; }
	default: return 0;
	}
}

static void do_frame(long long t, char **toks, int ntoks, const char *prefix)
{
	int i, kind_bad = 0; vbi_sliced *heap;
	nlines = 0;
	for (i = 0; i < ntoks; ++i) {
		char tmp[1 << 12];
		if (prefix) { snprintf(tmp, sizeof tmp, "%s%s", prefix, toks[i]); if (!add_token(tmp, &kind_bad)) { printf("rej parse\n"); return; } }
		else if (!add_token(toks[i], &kind_bad)) { printf("rej parse\n"); return; }
	}
	if (t >= (1LL << 40) || (cur_us > 0 && (t == cur_us + 25000 || t == cur_us + 50000))) { printf("rej time\n"); return; }
	if (kind_bad) { printf("rej kind\n"); return; }
	/* exact-size heap copy so ASan sees any access past the last line */
	heap = (vbi_sliced *) malloc((size_t)(nlines ? nlines : 1) * sizeof *heap);
	memcpy(heap, lines, (size_t) nlines * sizeof *heap);
	evlen = 0; evlog[0] = 0;
	vbi_decode(dec, heap, nlines, (double) t / 1e6);
	if (t > cur_us) cur_us = t;
	free(heap);
	printf("ok%s\n", evlog);
}

int main(void)
{
	int r;
	fresh();
	while ((r = h_next())) {
		long long v, v2;
		if (r == 2) { fresh(); continue; }
		if (H_IS(0, "mask")) {
			if (h_ntok != 2 || !nat(h_tok[1], &v)) printf("rej parse\n");
			else if ((v & MASK_ALLOWED) != v) printf("rej mask\n");
			else { evlen = 0; evlog[0] = 0; vbi_event_handler_register(dec, (int) v, handler, NULL); printf("ok%s\n", evlog); }
		} else if (H_IS(0, "frame")) {
			if (h_ntok < 2 || !nat(h_tok[1], &v)) printf("rej parse\n");
			else do_frame(v, h_tok + 2, h_ntok - 2, NULL);
		} else if (H_IS(0, "vps") || H_IS(0, "p830") || H_IS(0, "wss") || H_IS(0, "cpr") || H_IS(0, "xdsname") || H_IS(0, "xdscall") || H_IS(0, "page")) {
			const char *pre = H_IS(0, "vps") ? "v:" : H_IS(0, "p830") ? "t:" : H_IS(0, "wss") ? "w:" : H_IS(0, "cpr") ? "j:" :
				H_IS(0, "xdsname") ? "n:" : H_IS(0, "xdscall") ? "c:" : "p:";
			if (h_ntok != 3) printf("rej parse\n");
			else {
				/* the line token is parsed before the time (as in the driver) */
				int kb = 0; char tmp[1 << 12]; nlines = 0;
				snprintf(tmp, sizeof tmp, "%s%s", pre, h_tok[1]);
				if (!add_token(tmp, &kb) || !nat(h_tok[2], &v)) printf("rej parse\n");
				else do_frame(v, h_tok + 1, 1, pre);
			}
		} else if (H_IS(0, "chsw")) {
			if (h_ntok != 1) printf("rej parse\n");
			else { vbi_channel_switched(dec, 0); printf("ok\n"); }
		} else if (H_IS(0, "cached")) {
			if (h_ntok != 2 || !nat(h_tok[1], &v)) printf("rej parse\n");
			else printf("ok %d\n", (v <= 0x7FFFFFFF && vbi_is_cached(dec, (int) v, VBI_ANY_SUBNO)) ? 1 : 0);
		} else if (H_IS(0, "state")) {
			if (h_ntok != 1) printf("rej parse\n");
			else {
				const vbi_network *n = &dec->network.ev.network;
				evlen = 0; evlog[0] = 0;
				ev_net("net", n);
				printf("ok st mask=%d time=%lld cd=%d%s wss=%02x%02x rep=%d wt=%lld", dec->event_mask, llround(dec->time * 1e6),
				       dec->chswcd, evlog, dec->wss_last[0], dec->wss_last[1], dec->wss_rep_ct, llround(dec->wss_time * 1e6));
				evlen = 0; evlog[0] = 0;
				ev_aspect("asp", &dec->prog_info[0].aspect);
				printf(" asp=%s src=%d", evlog + 5, dec->aspect_source);
				evlen = 0; evlog[0] = 0;
				ev_pid("pid", &dec->vps_pid);
				printf(" pid=%s", evlog + 5);
#ifdef NET_PER_CARRIER	/* set by checks/C13.py when src/vbi.h declares cni_cycle[] (F11 repaired) */
				printf(" deb=%d:%d:%d:%d:%d:%d", dec->cni_cycle[VBI_CNI_TYPE_VPS], dec->cni_cycle[VBI_CNI_TYPE_8301],
				       dec->cni_cycle[VBI_CNI_TYPE_8302], dec->cni_announced[VBI_CNI_TYPE_VPS],
				       dec->cni_announced[VBI_CNI_TYPE_8301], dec->cni_announced[VBI_CNI_TYPE_8302]);
#endif
				printf("\n");
			}
		} else if (H_IS(0, "note")) {
			printf("ok\n");
		} else if (H_IS(0, "lookup")) {
			if (h_ntok != 3 || !nat(h_tok[1], &v) || !nat(h_tok[2], &v2) || v2 > 0xFFFF || v < 1 || v > 3) printf("rej parse\n");
			else {
				const char *country = "", *name = ""; unsigned id;
				vbi_cni_type ty = v == 1 ? VBI_CNI_TYPE_VPS : v == 2 ? VBI_CNI_TYPE_8301 : VBI_CNI_TYPE_8302;
				id = station_lookup(ty, (int) v2, &country, &name);
				printf("ok %u ", id);
				if (id && name[0]) { const char *q; for (q = name; *q; ++q) printf("%02x", (unsigned char) *q); }
				else printf("-");
				printf("\n");
			}
		} else if (H_IS(0, "tbl")) {
			if (h_ntok != 2 || !nat(h_tok[1], &v)) printf("rej parse\n");
			else {
				const struct vbi_cni_entry *p = vbi_cni_table; long long i = 0;
				while (p->name && i < v) { ++p; ++i; }
				if (!p->name) printf("ok end\n");
				else {
					const char *q;
					printf("ok %d ", (int) p->id);
					if (!p->name[0]) printf("-");
					for (q = p->name; *q; ++q) printf("%02x", (unsigned char) *q);
					printf(" %u %u %u %u\n", p->cni1, p->cni2, p->cni3, p->cni4);
				}
			}
		} else if (H_IS(0, "strfu")) {
			/* xds_strfu() on a destination array of exactly the given size and a source of exactly the given length */
			int dl = 0, sl = 0, i, fl; uint8_t *d = NULL, *src = NULL;
			if (h_ntok != 3 || !(d = h_hex(h_tok[1], &dl)) || !(src = h_hex(h_tok[2], &sl))) printf("rej parse\n");
			else {
				for (i = 0; i < sl && src[i] <= 0x20; ++i) ;
				fl = sl - i;                       /* bytes the copy loop stores; one more for the terminator */
				if (fl + 1 > dl) printf("rej oob\n");
				else {
					int neq = xds_strfu((signed char *) d, src, sl);
					printf("ok %d ", neq != 0); h_puthex(d, dl); printf("\n");
				}
			}
			free(d); free(src);
		} else if (H_IS(0, "layout")) {
			if (h_ntok != 1) printf("rej parse\n");
			else {
#define MSZ(m) sizeof(((vbi_program_id *) 0)->m)
				size_t named = MSZ(channel) + MSZ(cni_type) + MSZ(cni) + MSZ(pil) + MSZ(luf) + MSZ(mi) + MSZ(prf) + MSZ(pcs_audio) + MSZ(pty);
				size_t rest = MSZ(tape_delayed) + MSZ(_reserved2) + MSZ(_reserved3);
				/* pidfields: members before tape_delayed, each as wide as an int, none overlapping */
				printf("ok name=%d call=%d xdsbuf=%d pidfields=%d pidpad=%d\n",
				       (int) sizeof(((vbi_network *) 0)->name), (int) sizeof(((vbi_network *) 0)->call),
				       (int) sizeof(((xds_sub_packet *) 0)->buffer),
				       (named == 9 * sizeof(int) && offsetof(vbi_program_id, tape_delayed) == named) ? 9 : -1,
				       (int) (sizeof(vbi_program_id) - named - rest));
#undef MSZ
			}
		} else printf("rej op\n");
	}
	if (dec) vbi_decoder_delete(dec);
	return 0;
}
