/* Harness for component `slicer` (C05): src/bit_slicer.c, src/decoder.c (legacy slicer),
   src/raw_decoder.c (decode loop), src/sampling_par.c.  Speaks the line protocol of
   lean/Driver/Slicer.lean.

   How reads are observed.  A line (or image) is copied to the END of a private mapping
   that is followed by a PROT_NONE guard region; the first read beyond the n bytes
   supplied faults, the SIGSEGV handler longjmps out of the slicer (pure C loops, no locks,
   no allocation) and the trial counts as "does not fit".  Bisection over n gives the exact
   number of bytes the real code needs (`need`).  Whenever `need` <= the size the caller is
   obliged to supply, the call is repeated in-process on an EXACT-SIZE HEAP allocation
   under ASan (and, with the `asan` flag, unconditionally - that is the replay form of an
   over-read).  Output buffers of the final run are exact-size heap allocations as well. */
#include "hutil.h"
#include <setjmp.h>
#include <signal.h>
#include <sys/mman.h>
#include <unistd.h>
#include "src/bit_slicer.c"      /* statics: bit_slicer_*, low_pass_bit_slicer_Y8, null_function */
#include "src/decoder.h"
#include "src/raw_decoder.h"
#include "src/io-sim.h"

#define NUM(i, v) (h_ntok > (i) && h_int(h_tok[i], &(v)))
/* unsigned field: a leading minus sign is a parse error (as in the model driver, also for "-0") */
#define NUMU(i, v) (NUM(i, v) && h_tok[i][0] != '-')

/* ---------------------------------------------------------------- guard mapping */
#define DATA_MAX  ((size_t) 8 << 20)
#define GUARD_LEN ((size_t) 256 << 20)
#define PAD_BYTES 65536
static uint8_t *g_region;
static sigjmp_buf g_jb;
static volatile sig_atomic_t g_armed;

static void on_segv(int sig, siginfo_t *si, void *u)
{
	uint8_t *a = (uint8_t *) si->si_addr;
	(void) u;
	if (g_armed && a >= g_region + DATA_MAX && a < g_region + DATA_MAX + GUARD_LEN) {
		g_armed = 0;
		siglongjmp(g_jb, 1);
	}
	fprintf(stderr, "slicer_harness: unexpected signal %d at %p\n", sig, (void *) a);
	_exit(86);
}

static void guard_init(void)
{
	struct sigaction sa;
	g_region = (uint8_t *) mmap(NULL, DATA_MAX + GUARD_LEN, PROT_NONE,
				    MAP_PRIVATE | MAP_ANONYMOUS | MAP_NORESERVE, -1, 0);
	if (g_region == MAP_FAILED || mprotect(g_region, DATA_MAX, PROT_READ | PROT_WRITE)) {
		perror("mmap"); exit(3);
	}
	memset(&sa, 0, sizeof sa);
	sa.sa_sigaction = on_segv;
	sa.sa_flags = SA_SIGINFO | SA_NODEFER;
	sigaction(SIGSEGV, &sa, NULL);
	sigaction(SIGBUS, &sa, NULL);
}

/* first n bytes of src (zero filled beyond srclen), ending exactly at the guard */
static uint8_t *guard_buf(const uint8_t *src, size_t srclen, size_t n)
{
	uint8_t *p = g_region + DATA_MAX - n;
	size_t c = n < srclen ? n : srclen;
	memcpy(p, src, c);
	if (n > c) memset(p + c, 0, n - c);
	return p;
}

/* ---------------------------------------------------------------- PRNG, formats */
static uint32_t rng_next(uint32_t *s) { uint32_t x = *s ? *s : 0x9E3779B9u; x ^= x << 13; x ^= x >> 17; x ^= x << 5; return *s = x; }

struct fmtinfo { int code; int gpos; int g16; int gshift; int gdrop; int be; };
/* where this harness puts the luma/green value when it synthesises pixels */
static int fmt_info(int code, struct fmtinfo *f)
{
	memset(f, 0, sizeof *f); f->code = code;
	switch (code) {
	case VBI_PIXFMT_YUV420: case VBI_PIXFMT_YUYV: case VBI_PIXFMT_YVYU: f->gpos = 0; return 1;
	case VBI_PIXFMT_UYVY: case VBI_PIXFMT_VYUY: f->gpos = 1; return 1;
	case VBI_PIXFMT_RGBA32_LE: case VBI_PIXFMT_BGRA32_LE: f->gpos = 1; return 1;
	case VBI_PIXFMT_RGBA32_BE: case VBI_PIXFMT_BGRA32_BE: f->gpos = 2; return 1;
	case VBI_PIXFMT_RGB24: case VBI_PIXFMT_BGR24: f->gpos = 1; return 1;
	case VBI_PIXFMT_RGB16_BE: case VBI_PIXFMT_BGR16_BE: f->be = 1; /* fall through */
	case VBI_PIXFMT_RGB16_LE: case VBI_PIXFMT_BGR16_LE: f->g16 = 1; f->gshift = 5; f->gdrop = 2; return 1;
	case VBI_PIXFMT_RGBA15_BE: case VBI_PIXFMT_BGRA15_BE: f->be = 1; /* fall through */
	case VBI_PIXFMT_RGBA15_LE: case VBI_PIXFMT_BGRA15_LE: f->g16 = 1; f->gshift = 5; f->gdrop = 3; return 1;
	case VBI_PIXFMT_ARGB15_BE: case VBI_PIXFMT_ABGR15_BE: f->be = 1; /* fall through */
	case VBI_PIXFMT_ARGB15_LE: case VBI_PIXFMT_ABGR15_LE: f->g16 = 1; f->gshift = 6; f->gdrop = 3; return 1;
	default: return 0;
	}
}

static const _vbi_service_par *table_row(long long i)
{
	const _vbi_service_par *p; long long n = 0;
	for (p = _vbi_service_table; p->id; ++p, ++n)
		if (n == i) return p;
	return NULL;
}

/* ---------------------------------------------------------------- signals */
#define WIDE 16384
static uint8_t g_wide[WIDE];
static uint8_t g_blank;

/* nominal signal of table row `par` at `rate` into g_wide[0 .. g_wlen): sample 0 is the nominal start of
   the signal (par->offset after 0H), the buffer ends 54 us later (io-sim.c evaluates shifts by the bit
   number outside that span).  Returns 0 if the simulator does not know the service (blank line). */
static unsigned g_wlen;
static int make_wide(const _vbi_service_par *par, unsigned rate, uint32_t seed)
{
	vbi_sampling_par sp; vbi_sliced s; unsigned i; int f = par->first[0] ? 0 : 1; vbi_bool ok;
	unsigned long long w = (unsigned long long) rate * 54ull / 1000000ull;
	g_wlen = (unsigned)(w > WIDE ? WIDE : w < 1 ? 1 : w);
	memset(&sp, 0, sizeof sp); memset(&s, 0, sizeof s);
	sp.scanning = (par->videostd_set & VBI_VIDEOSTD_SET_525_60) ? 525 : 625;
	sp.sampling_format = VBI_PIXFMT_YUV420;
	sp.sampling_rate = (int) rate;
	sp.bytes_per_line = (int) g_wlen;
	sp.offset = (int)((unsigned long long) par->offset * rate / 1000000000ull) + 1;   /* never before the nominal start: io-sim.c shifts by a negative bit number there */
	sp.start[f] = (int) par->first[f]; sp.count[f] = 1;
	sp.start[1 - f] = 0; sp.count[1 - f] = 0;
	sp.interlaced = 0; sp.synchronous = 1;
	s.id = par->id; s.line = par->first[f];
	for (i = 0; i < sizeof s.data; ++i) s.data[i] = (uint8_t) rng_next(&seed);
	memset(g_wide, 0, sizeof g_wide);
	ok = vbi_raw_vbi_image(g_wide, g_wlen, &sp, 0, 0, FALSE, &s, 1);
	/* blanking level of the simulator for this system */
	g_blank = (uint8_t)((sp.scanning == 525) ? (int)(40.0 * 200 / 140) : (int)(43.0 * 200 / 140));
	if (!ok) memset(g_wide, g_blank, g_wlen);
	return ok ? 1 : 0;
}

/* all-digit suffix (1..6 digits) */
static int sig_num(const char *s, long long *v)
{
	size_t n = strlen(s), i;
	if (n < 1 || n > 6) return 0;
	for (i = 0; i < n; ++i) if (!isdigit((unsigned char) s[i])) return 0;
	*v = atoll(s);
	return 1;
}

/* luma samples of one line: sig = r<row> | noise | sat<level> | sq<period> | blank */
static int make_luma(uint8_t *y, unsigned spl, unsigned rate, const char *sig, long long shift,
		     long long trunc, uint32_t seed)
{
	unsigned j; uint32_t s = seed * 2654435761u + 12345u;
	long long v;
	if (sig[0] == 'r' && sig_num(sig + 1, &v)) {
		const _vbi_service_par *par = table_row(v);
		if (!par) return 0;
		make_wide(par, rate, seed);
		for (j = 0; j < spl; ++j) {
			long long w = shift + (long long) j;
			y[j] = (w >= 0 && w < (long long) g_wlen && (trunc <= 0 || (long long) j < trunc)) ? g_wide[w] : g_blank;
		}
		return 1;
	}
	if (0 == strcmp(sig, "noise")) { for (j = 0; j < spl; ++j) y[j] = (uint8_t)(rng_next(&s) >> 11); return 1; }
	if (0 == strcmp(sig, "blank")) { memset(y, 61, spl); return 1; }
	if (0 == strncmp(sig, "sat", 3) && sig_num(sig + 3, &v)) { memset(y, (int)(v & 255), spl); return 1; }
	if (0 == strncmp(sig, "sq", 2) && sig_num(sig + 2, &v)) {
		unsigned p = (unsigned) v; if (p < 1) p = 1;
		for (j = 0; j < spl; ++j) y[j] = ((((long long) j + shift) / p) & 1) ? 200 : 40;
		return 1;
	}
	return 0;
}

static int sig_ok(const char *sig)
{
	long long v;
	if (0 == strcmp(sig, "noise") || 0 == strcmp(sig, "blank")) return 1;
	if (0 == strncmp(sig, "sat", 3)) return sig_num(sig + 3, &v);
	if (0 == strncmp(sig, "sq", 2)) return sig_num(sig + 2, &v);
	if (sig[0] == 'r') return sig_num(sig + 1, &v) && NULL != table_row(v);
	return 0;
}

static void put_pixels(uint8_t *dst, const uint8_t *y, unsigned spl, const struct fmtinfo *f, unsigned bpp, uint32_t seed)
{
	unsigned j, b; uint32_t s = seed ^ 0xA5A5A5A5u;
	for (j = 0; j < spl; ++j) {
		uint8_t *px = dst + (size_t) j * bpp;
		if (f->g16) {
			unsigned gmask = ((0xFFu >> f->gdrop) << f->gshift);
			unsigned v = ((rng_next(&s) >> 9) & 0xFFFF & ~gmask) | (((unsigned) y[j] >> f->gdrop) << f->gshift);
			px[f->be ? 1 : 0] = (uint8_t) v; px[f->be ? 0 : 1] = (uint8_t)(v >> 8);
		} else {
			for (b = 0; b < bpp; ++b) px[b] = (uint8_t)(rng_next(&s) >> 13);
			px[f->gpos] = y[j];
		}
	}
}

/* ---------------------------------------------------------------- vbi3 slicer */
static char g_logmsg[512];
static void log_fn(vbi_log_mask level, const char *context, const char *message, void *user_data)
{
	(void) level; (void) context; (void) user_data;
	snprintf(g_logmsg, sizeof g_logmsg, "%s", message);
}

struct sp3 { long long fmt, rate, offset, spl, cri, cri_mask, cri_bits, cri_rate, cri_end, frc, frc_bits, payload_bits, payload_rate, modulation; };

/* returns NULL and prints the reject line, or a configured slicer */
static vbi3_bit_slicer *configure3(const struct sp3 *q)
{
	vbi3_bit_slicer *bs; struct fmtinfo fi; unsigned mx;
	if (q->rate < 0 || q->rate > 0xFFFFFFFFLL || q->offset < 0 || q->offset > 0xFFFFFFFFLL || q->spl < 0
	    || q->cri_bits < 0 || q->frc_bits < 0 || q->payload_bits < 0 || q->cri_rate < 0 || q->cri_rate > 0xFFFFFFFFLL
	    || q->payload_rate < 0 || q->payload_rate > 0xFFFFFFFFLL || q->cri_end < 0 || q->cri_end > 0xFFFFFFFFLL
	    || q->modulation < 0 || q->modulation > 3 || q->fmt < 0 || q->fmt > 1000
	    || q->cri < 0 || q->cri > 0xFFFFFFFFLL || q->cri_mask < 0 || q->cri_mask > 0xFFFFFFFFLL || q->frc < 0 || q->frc > 0xFFFFFFFFLL
	    || q->spl > 0xFFFFFFFFLL || q->cri_bits > 0xFFFFFFFFLL || q->frc_bits > 0xFFFFFFFFLL || q->payload_bits > 0xFFFFFFFFLL) {
		printf("rej parse\n"); return NULL;
	}
	/* the four assert()s would abort the process */
	if (q->cri_bits > 32 || q->frc_bits > 32 || q->payload_bits > 32767 || q->spl > 32767) { printf("rej assert\n"); return NULL; }
	/* integer division by zero (SIGFPE) - predicted instead of executed */
	mx = (unsigned)(q->cri_rate > q->payload_rate ? q->cri_rate : q->payload_rate);
	if (q->cri_rate <= q->rate && q->payload_rate <= q->rate) {
		if (mx == 0) { printf("rej div0\n"); return NULL; }
		if (fmt_info((int) q->fmt, &fi) && (q->cri_rate == 0 || q->payload_rate == 0)) { printf("rej div0\n"); return NULL; }
	}
	/* (int) of a double >= 2^31 (phase_shift) is undefined: refuse what does not fit */
	if (q->cri_rate > 0 && q->payload_rate > 0
	    && (128 * q->rate) / q->cri_rate + (128 * q->rate) / q->payload_rate + 130 >= 0x7FFFFFFFLL) { printf("rej range\n"); return NULL; }
	bs = vbi3_bit_slicer_new();
	vbi3_bit_slicer_set_log_fn(bs, (vbi_log_mask) -1, log_fn, NULL);
	g_logmsg[0] = 0;
	if (!vbi3_bit_slicer_set_params(bs, (vbi_pixfmt) q->fmt, (unsigned) q->rate, (unsigned) q->offset, (unsigned) q->spl,
					(unsigned) q->cri, (unsigned) q->cri_mask, (unsigned) q->cri_bits, (unsigned) q->cri_rate,
					(unsigned) q->cri_end, (unsigned) q->frc, (unsigned) q->frc_bits,
					(unsigned) q->payload_bits, (unsigned) q->payload_rate, (vbi3_modulation) q->modulation)) {
		const char *why = "unknown";
		if (strstr(g_logmsg, "> sampling_rate")) why = "rate";
		else if (strstr(g_logmsg, "Unknown sample_format")) why = "fmt";
		else if (strstr(g_logmsg, "look-ahead")) why = "lookahead";
		else if (strstr(g_logmsg, "too small")) why = "small";
		printf("rej %s\n", why);
		vbi3_bit_slicer_delete(bs);
		return NULL;
	}
	vbi3_bit_slicer_set_log_fn(bs, 0, NULL, NULL);
	return bs;
}

static int parse_sp3(int i0, struct sp3 *q, int with_codes)
{
	int i = i0;
	if (!NUMU(i, q->fmt) || !NUMU(i + 1, q->rate) || !NUMU(i + 2, q->offset) || !NUMU(i + 3, q->spl)) return 0;
	i += 4;
	q->cri = q->cri_mask = q->frc = 0;
	if (with_codes) { if (!NUMU(i, q->cri) || !NUMU(i + 1, q->cri_mask)) return 0; i += 2; }
	if (!NUMU(i, q->cri_bits) || !NUMU(i + 1, q->cri_rate) || !NUMU(i + 2, q->cri_end)) return 0;
	i += 3;
	if (with_codes) { if (!NUMU(i, q->frc)) return 0; i += 1; }
	if (!NUMU(i, q->frc_bits) || !NUMU(i + 1, q->payload_bits) || !NUMU(i + 2, q->payload_rate) || !NUMU(i + 3, q->modulation)) return 0;
	return i + 4;
}

typedef int run_fn(void *ctx, const uint8_t *raw, uint8_t *out);
static vbi3_raw_decoder *g_cur_rd;   /* decoder of a trial in flight (freed if the trial is cut short) */

/* does the call complete when only n bytes are supplied? */
static int fits(run_fn *fn, void *ctx, const uint8_t *img, size_t imglen, size_t n, uint8_t *out)
{
	uint8_t *p = guard_buf(img, imglen, n);
	if (sigsetjmp(g_jb, 1)) {
		if (g_cur_rd) { vbi3_raw_decoder_delete(g_cur_rd); g_cur_rd = NULL; }
		return 0;
	}
	g_armed = 1;
	fn(ctx, p, out);
	g_armed = 0;
	return 1;
}

/* smallest n (a multiple of gran) such that the call completes; (size_t) -1 if not even imglen + PAD_BYTES
   suffices.  gran = 2 for the 15/16 bit formats: their samples are loaded as aligned uint16_t, so the
   line must start at an even address and bytes are needed in pairs. */
static size_t measure_need(run_fn *fn, void *ctx, const uint8_t *img, size_t imglen, uint8_t *out, size_t gran)
{
	size_t lo = 0, hi = (imglen + PAD_BYTES) / gran;
	if (!fits(fn, ctx, img, imglen, hi * gran, out)) return (size_t) -1;
	if (fits(fn, ctx, img, imglen, 0, out)) return 0;
	/* invariant: !fits(lo), fits(hi) */
	while (hi - lo > 1) {
		size_t mid = lo + (hi - lo) / 2;
		if (fits(fn, ctx, img, imglen, mid * gran, out)) hi = mid; else lo = mid;
	}
	return hi * gran;
}

#define OUTBUF 8192
static int run3(void *ctx, const uint8_t *raw, uint8_t *out)
{
	vbi3_bit_slicer bs = *(const vbi3_bit_slicer *) ctx;   /* fresh copy: thresh adapts */
	return bs.func(&bs, out, NULL, NULL, raw);
}

struct outcome { char kind; long long k; };   /* 'n' noCri, 'f' frcFail k, 'o' found k */

/* outcome of the search on a zero-padded copy: found iff the call returns TRUE; position by
   bisection over bs->cri_samples (the loop bound); FRC mismatch recognised by clearing the FRC */
static struct outcome probe3(const vbi3_bit_slicer *bs0, const uint8_t *padded)
{
	struct outcome r = { 'n', -1 }; uint8_t out[OUTBUF]; vbi3_bit_slicer t = *bs0; int found;
	found = run3(&t, padded, out);
	if (!found) { t.frc_bits = 0; t.frc = 0; if (!run3(&t, padded, out)) return r; r.kind = 'f'; }
	else r.kind = 'o';
	{
		unsigned lo = 0, hi = t.cri_samples;    /* !ok(lo) (0 iterations), ok(hi) */
		if (bs0->func == low_pass_bit_slicer_Y8) lo = 0;
		while (hi - lo > 1) {
			unsigned mid = lo + (hi - lo) / 2; vbi3_bit_slicer u = t; u.cri_samples = mid;
			if (run3(&u, padded, out)) hi = mid; else lo = mid;
		}
		r.k = (long long) hi - 1;
	}
	return r;
}

static void print_outcome(struct outcome o)
{
	if (o.kind == 'n') printf("n"); else printf("%c%lld", o.kind, o.k);
}

static size_t measure_writes(run_fn *fn, void *ctx, const uint8_t *padded)
{
	static uint8_t a[OUTBUF], b[OUTBUF]; size_t i, w = 0;
	memset(a, 0xA5, sizeof a); memset(b, 0x5A, sizeof b);
	fn(ctx, padded, a); fn(ctx, padded, b);
	for (i = 0; i < OUTBUF; ++i) if (a[i] != 0xA5 || b[i] != 0x5A) w = i + 1;
	return w;
}

static void print_need(size_t need) { if (need == (size_t) -1) printf("inf"); else printf("%zu", need); }

static void op_slice(void)
{
	struct sp3 q; int i; long long shift, trunc, seed; struct fmtinfo fi; vbi3_bit_slicer *bs;
	unsigned bpp; size_t linelen, need, wr; uint8_t *y, *line, *padded; struct outcome oc; int force_asan;
	static uint8_t out[OUTBUF];
	i = parse_sp3(1, &q, 1);
	if (!i || (h_ntok != i + 5 && h_ntok != i + 6) || !NUM(i + 1, shift) || !NUM(i + 2, trunc) || !NUM(i + 3, seed)) { printf("rej parse\n"); return; }
	force_asan = H_IS(i + 5, "asan");
	if (!(bs = configure3(&q))) return;
	if (!fmt_info((int) q.fmt, &fi)) { printf("rej fmt\n"); vbi3_bit_slicer_delete(bs); return; }
	bpp = bs->bytes_per_sample;
	linelen = (size_t) q.spl * bpp;
	y = (uint8_t *) malloc(q.spl ? q.spl : 1);
	line = (uint8_t *) malloc(linelen ? linelen : 1);
	if (!make_luma(y, (unsigned) q.spl, (unsigned) q.rate, h_tok[i], shift, trunc, (uint32_t) seed)) {
		printf("rej parse\n"); free(y); free(line); vbi3_bit_slicer_delete(bs); return;
	}
	put_pixels(line, y, (unsigned) q.spl, &fi, bpp, (uint32_t) seed);
	if (bs->cri_samples > 200000u
	    || (bs->func == low_pass_bit_slicer_Y8 && (0 == bs->cri_samples || (0 == bs->payload && bs->endian <= 1)))) {
		/* wrapped search limit: do not execute; the line cannot contain the reads */
		printf("ok wrapped need=inf line=%zu wr=0 ret=0\n", linelen);
		free(y); free(line); vbi3_bit_slicer_delete(bs); return;
	}
	padded = (uint8_t *) calloc(1, linelen + PAD_BYTES + 4096);
	memcpy(padded, line, linelen);
	oc = probe3(bs, padded);
	need = measure_need(run3, bs, line, linelen, out, fi.g16 ? 2 : 1);
	wr = measure_writes(run3, bs, padded);
	if ((need != (size_t) -1 && need <= linelen) || force_asan) {
		/* the property-level run: exact-size heap line, exact-size output buffer, under ASan */
		uint8_t *exact = (uint8_t *) malloc(linelen ? linelen : 1);
		uint8_t *obuf = (uint8_t *) malloc(wr ? wr : 1);
		memcpy(exact, line, linelen);
		run3(bs, exact, obuf);
		free(exact); free(obuf);
	}
	printf("ok "); print_outcome(oc); printf(" need="); print_need(need);
	printf(" line=%zu wr=%zu ret=%d\n", linelen, wr, oc.kind == 'o');
	free(padded); free(y); free(line); vbi3_bit_slicer_delete(bs);
}

/* ---------------------------------------------------------------- public slicer API with caller-sized buffers
   bslice <14 set_params fields> <sig> <shift> <trunc> <seed> <which: s|p> <buffer_size> <max_points> <claim> <ticks> [asan]
   Calls vbi3_bit_slicer_slice() (s) or vbi3_bit_slicer_slice_with_points() (p) the way a direct API user does:
   the output buffer has exactly buffer_size bytes, the points array exactly max_points elements.
   First the call is made on oversized, canary filled arrays while *telling* the function the small sizes: that
   measures how many bytes / points it really stores (wr, pw) without crashing.  If everything stays inside what the
   caller supplied (or with the `asan` flag, unconditionally: the replay form of an overflow) the call is repeated
   on exact-size heap allocations under ASan. */
static char g_ref;   /* which size test refused: 'b' buffer_size, 'p' max_points, 0 none */
static void log_ref(vbi_log_mask level, const char *context, const char *message, void *user_data)
{
	(void) level; (void) context; (void) user_data;
	if (strstr(message, "buffer_size")) g_ref = 'b';
	else if (strstr(message, "max_points")) g_ref = 'p';
}

struct pubctx { const vbi3_bit_slicer *bs; int with_points; unsigned bufsize, maxpoints; vbi3_bit_slicer_point *pts; unsigned np; };

static int run_pub(struct pubctx *c, const uint8_t *raw, uint8_t *out)
{
	vbi3_bit_slicer bs = *c->bs;     /* fresh copy: thresh adapts */
	bs.log.fn = log_ref; bs.log.mask = (vbi_log_mask) -1; bs.log.user_data = NULL;
	g_ref = 0; c->np = 0;
	if (c->with_points)
		return vbi3_bit_slicer_slice_with_points(&bs, out, c->bufsize, c->pts, &c->np, c->maxpoints, raw);
	return vbi3_bit_slicer_slice(&bs, out, c->bufsize, raw);
}

static void op_bslice(void)
{
	struct sp3 q; int i; long long shift, trunc, seed, bufsize, maxpoints; struct fmtinfo fi; vbi3_bit_slicer *bs;
	unsigned bpp; size_t linelen, wr = 0, pw = 0, npts, k, ticks = 0; uint8_t *y, *line, *padded, *a, *b;
	struct outcome oc; int force_asan, with_points, ret, ret2; char ref; unsigned np;
	vbi3_bit_slicer_point *pa, *pb; struct pubctx c;
	i = parse_sp3(1, &q, 1);
	if (!i || (h_ntok != i + 9 && h_ntok != i + 10) || !NUM(i + 1, shift) || !NUM(i + 2, trunc) || !NUM(i + 3, seed)
	    || !(H_IS(i + 4, "s") || H_IS(i + 4, "p")) || !NUMU(i + 5, bufsize) || !NUMU(i + 6, maxpoints)
	    || bufsize > 100000 || maxpoints > 1000000) { printf("rej parse\n"); return; }
	with_points = H_IS(i + 4, "p");
	force_asan = H_IS(i + 9, "asan");
	if (h_ntok == i + 10 && !force_asan) { printf("rej parse\n"); return; }
	if (!(bs = configure3(&q))) return;
	if (!fmt_info((int) q.fmt, &fi)) { printf("rej fmt\n"); vbi3_bit_slicer_delete(bs); return; }
	bpp = bs->bytes_per_sample;
	linelen = (size_t) q.spl * bpp;
	y = (uint8_t *) malloc(q.spl ? q.spl : 1);
	line = (uint8_t *) malloc(linelen ? linelen : 1);
	if (!make_luma(y, (unsigned) q.spl, (unsigned) q.rate, h_tok[i], shift, trunc, (uint32_t) seed)) {
		printf("rej parse\n"); free(y); free(line); vbi3_bit_slicer_delete(bs); return;
	}
	put_pixels(line, y, (unsigned) q.spl, &fi, bpp, (uint32_t) seed);
	if (bs->cri_samples > 200000u
	    || (bs->func == low_pass_bit_slicer_Y8 && (0 == bs->cri_samples || (0 == bs->payload && bs->endian <= 1)))) {
		printf("ok wrapped\n");
		free(y); free(line); vbi3_bit_slicer_delete(bs); return;
	}
	padded = (uint8_t *) calloc(1, linelen + PAD_BYTES + 4096);
	memcpy(padded, line, linelen);
	oc = probe3(bs, padded);
	/* every CRI() invocation stores at most one point, every FRC / payload bit exactly one */
	npts = (size_t) bs->cri_samples * 4 + bs->total_bits + 64;
	a = (uint8_t *) malloc(OUTBUF); b = (uint8_t *) malloc(OUTBUF);
	pa = (vbi3_bit_slicer_point *) malloc(npts * sizeof *pa); pb = (vbi3_bit_slicer_point *) malloc(npts * sizeof *pb);
	memset(a, 0xA5, OUTBUF); memset(b, 0x5A, OUTBUF);
	memset(pa, 0xA5, npts * sizeof *pa); memset(pb, 0x5A, npts * sizeof *pb);
	c.bs = bs; c.with_points = with_points; c.bufsize = (unsigned) bufsize; c.maxpoints = (unsigned) maxpoints;
	c.pts = pa; ret = run_pub(&c, padded, a); ref = g_ref; np = c.np;
	c.pts = pb; ret2 = run_pub(&c, padded, b);
	for (k = 0; k < OUTBUF; ++k) if (a[k] != 0xA5 || b[k] != 0x5A) wr = k + 1;
	for (k = 0; k < npts; ++k) {
		const uint8_t *u = (const uint8_t *) &pa[k], *v = (const uint8_t *) &pb[k]; size_t m; int touched = 0;
		for (m = 0; m < sizeof *pa; ++m) if (u[m] != 0xA5 || v[m] != 0x5A) touched = 1;
		if (touched) { pw = k + 1; if (pa[k].kind == VBI3_CRI_BIT) ++ticks; }
	}
	if (ret != ret2 || np != c.np) { printf("ok nondeterministic\n"); goto done; }
	if ((wr <= (size_t) bufsize && pw <= (size_t) maxpoints) || force_asan) {
		uint8_t *exact = (uint8_t *) malloc(linelen ? linelen : 1);
		uint8_t *obuf = (uint8_t *) malloc(bufsize ? (size_t) bufsize : 1);
		vbi3_bit_slicer_point *pts = (vbi3_bit_slicer_point *) malloc(maxpoints ? (size_t) maxpoints * sizeof *pts : 1);
		memcpy(exact, line, linelen);
		c.pts = pts;
		/* the line itself is exact-size only if the slicer stays inside it (F7 is judged by the slice op) */
		run_pub(&c, exact, obuf);
		free(exact); free(obuf); free(pts);
	}
	printf("ok "); print_outcome(oc);
	printf(" ref=%c ret=%d wr=%zu buf=%lld ticks=%zu np=%u pw=%zu mp=%lld\n", ref ? ref : '0', ret ? 1 : 0, wr, bufsize, ticks, np, pw, maxpoints);
done:
	free(a); free(b); free(pa); free(pb); free(padded); free(y); free(line); vbi3_bit_slicer_delete(bs);
}

static void op_params(void)
{
	struct sp3 q; vbi3_bit_slicer *bs; int i = parse_sp3(1, &q, 0);
	if (!i || h_ntok != i) { printf("rej parse\n"); return; }
	if (!(bs = configure3(&q))) return;
	printf("ok %s %u %u %u %u %u %u %u %u\n", bs->func == low_pass_bit_slicer_Y8 ? "lp" : "core",
	       bs->bytes_per_sample, bs->skip, bs->cri_samples, bs->phase_shift, bs->step, bs->frc_bits, bs->payload, bs->endian);
	vbi3_bit_slicer_delete(bs);
}

/* ---------------------------------------------------------------- legacy slicer */
struct lp { long long fmt, raw_samples, rate, cri_rate, bit_rate, cri_frc, cri_mask, cri_bits, frc_bits, payload, modulation; };

static int parse_lp(int i, struct lp *q)
{
	return NUMU(i, q->fmt) && NUMU(i + 1, q->raw_samples) && NUMU(i + 2, q->rate) && NUMU(i + 3, q->cri_rate) && NUMU(i + 4, q->bit_rate)
		&& NUMU(i + 5, q->cri_frc) && NUMU(i + 6, q->cri_mask) && NUMU(i + 7, q->cri_bits) && NUMU(i + 8, q->frc_bits)
		&& NUMU(i + 9, q->payload) && NUMU(i + 10, q->modulation);
}

static int configureL(const struct lp *q, vbi_bit_slicer *d)
{
	struct fmtinfo fi;
	if (q->raw_samples < 0 || q->raw_samples > 0x7FFFFFFF || q->rate < 0 || q->rate > 0x7FFFFFFF || q->cri_rate < 0 || q->cri_rate > 0x7FFFFFFF
	    || q->bit_rate < 0 || q->bit_rate > 0x7FFFFFFF || q->cri_frc < 0 || q->cri_frc > 0xFFFFFFFFLL || q->cri_mask < 0 || q->cri_mask > 0xFFFFFFFFLL
	    || q->cri_bits < 0 || q->frc_bits < 0 || q->payload < 0 || q->payload > 0x7FFFFFFF || q->modulation < 0 || q->modulation > 3
	    || q->fmt < 0 || q->fmt > 1000 || q->cri_bits > 0x7FFFFFFF || q->frc_bits > 0x7FFFFFFF) { printf("rej parse\n"); return 0; }
	/* vbi_bit_slicer_init has no failure path.  Shift counts: the masks are built with `~0U >> (32 - bits)` only for
	   bits > 0 (commit 592a23c), so cri_bits 0..32 and frc_bits 0 are defined behaviour; `cri_frc >> frc_bits` with
	   frc_bits = 32 (permitted by the documentation when cri_bits = 0) is still a shift by the type width: refused here */
	if (q->cri_bits > 32 || q->frc_bits > 31 || q->payload > 32767) { printf("rej assert\n"); return 0; }
	if (q->cri_rate == 0 || q->bit_rate == 0) { printf("rej div0\n"); return 0; }
	/* (int) of a double >= 2^31 is undefined: refuse what does not fit (never the case for real rates) */
	if ((128 * q->rate) / q->cri_rate + (128 * q->rate) / q->bit_rate + 130 >= 0x7FFFFFFFLL
	    || (256 * q->rate) / q->bit_rate >= 0x7FFFFFFFLL
	    || (q->rate * (q->payload + q->frc_bits)) / q->bit_rate >= 0x7FFFFFFFLL) { printf("rej range\n"); return 0; }
	if (!fmt_info((int) q->fmt, &fi)) { printf("rej fmt\n"); return 0; }     /* C: exit (EXIT_FAILURE) */
	memset(d, 0, sizeof *d);
	vbi_bit_slicer_init(d, (int) q->raw_samples, (int) q->rate, (int) q->cri_rate, (int) q->bit_rate,
			    (unsigned) q->cri_frc, (unsigned) q->cri_mask, (int) q->cri_bits, (int) q->frc_bits, (int) q->payload,
			    (vbi_modulation) q->modulation, (vbi_pixfmt) q->fmt);
	return 1;
}

static int runL(void *ctx, const uint8_t *raw, uint8_t *out)
{
	vbi_bit_slicer d = *(const vbi_bit_slicer *) ctx;
	return vbi_bit_slice(&d, (uint8_t *) raw, out);
}

static struct outcome probeL(const vbi_bit_slicer *d0, const uint8_t *padded)
{
	struct outcome r = { 'n', -1 }; uint8_t out[OUTBUF]; vbi_bit_slicer t = *d0; int found;
	found = runL(&t, padded, out);
	if (!found) { t.frc_bits = 0; t.frc = 0; if (!runL(&t, padded, out)) return r; r.kind = 'f'; }
	else r.kind = 'o';
	{
		int lo = 0, hi = t.cri_bytes;
		while (hi - lo > 1) {
			int mid = lo + (hi - lo) / 2; vbi_bit_slicer u = t; u.cri_bytes = mid;
			if (runL(&u, padded, out)) hi = mid; else lo = mid;
		}
		r.k = (long long) hi - 1;
	}
	return r;
}

static unsigned legacy_bpp(int fmt)
{
	return VBI_PIXFMT_BPP(fmt);
}

static void op_lparams(void)
{
	struct lp q; vbi_bit_slicer d;
	if (h_ntok != 12 || !parse_lp(1, &q)) { printf("rej parse\n"); return; }
	if (!configureL(&q, &d)) return;
	printf("ok %d %d %d %d %d %d %d\n", d.cri_bytes, d.phase_shift, d.step, d.frc_bits, d.payload, d.endian, d.skip);
}

static void op_lslice(void)
{
	struct lp q; vbi_bit_slicer d; long long shift, trunc, seed; struct fmtinfo fi; unsigned bpp; size_t linelen, need, wr;
	uint8_t *y, *line, *padded; struct outcome oc; int force_asan; static uint8_t out[OUTBUF];
	if ((h_ntok != 17 && h_ntok != 18) || !parse_lp(1, &q) || !NUM(13, shift) || !NUM(14, trunc) || !NUM(15, seed)) { printf("rej parse\n"); return; }
	force_asan = H_IS(17, "asan");
	if (!configureL(&q, &d)) return;
	fmt_info((int) q.fmt, &fi);
	bpp = legacy_bpp((int) q.fmt);
	if (q.raw_samples > 32767) { printf("rej assert\n"); return; }
	linelen = (size_t) q.raw_samples * bpp;
	y = (uint8_t *) malloc(q.raw_samples ? q.raw_samples : 1);
	line = (uint8_t *) malloc(linelen ? linelen : 1);
	if (!make_luma(y, (unsigned) q.raw_samples, (unsigned) q.rate, h_tok[12], shift, trunc, (uint32_t) seed)) {
		printf("rej parse\n"); free(y); free(line); return;
	}
	put_pixels(line, y, (unsigned) q.raw_samples, &fi, bpp, (uint32_t) seed);
	if (d.cri_bytes < 0 || d.cri_bytes > 200000) {
		/* wrapped search limit (the loop counter is unsigned: ~2^32 iterations).  Executed, not predicted: on the
		   guard mapping the first read beyond the bytes supplied faults and is counted (measure_need), so `need`
		   is what the real code needs for this very line - `inf` unless the CRI happens to be found.  With the
		   `asan` flag the call is repeated on the exact-size heap line (replay form of the over-read). */
		need = measure_need(runL, &d, line, linelen, out, fi.g16 ? 2 : 1);
		if (force_asan) {
			uint8_t *exact = (uint8_t *) malloc(linelen ? linelen : 1);
			memcpy(exact, line, linelen);
			runL(&d, exact, out);
			free(exact);
		}
		printf("ok wrapped need="); print_need(need);
		printf(" line=%zu wr=0 ret=0\n", linelen);
		free(y); free(line); return;
	}
	padded = (uint8_t *) calloc(1, linelen + PAD_BYTES + 4096);
	memcpy(padded, line, linelen);
	oc = probeL(&d, padded);
	need = measure_need(runL, &d, line, linelen, out, fi.g16 ? 2 : 1);
	wr = measure_writes(runL, &d, padded);
	if ((need != (size_t) -1 && need <= linelen) || force_asan) {
		uint8_t *exact = (uint8_t *) malloc(linelen ? linelen : 1);
		uint8_t *obuf = (uint8_t *) malloc(wr ? wr : 1);
		memcpy(exact, line, linelen);
		runL(&d, exact, obuf);
		free(exact); free(obuf);
	}
	printf("ok "); print_outcome(oc); printf(" need="); print_need(need);
	printf(" line=%zu wr=%zu ret=%d\n", linelen, wr, oc.kind == 'o');
	free(padded); free(y); free(line);
}

/* ---------------------------------------------------------------- raw decoder */
struct dec { long long scanning, fmt, rate, bpl, start0, count0, start1, count1, interlaced, services, strict, max_lines; };
struct decctx { vbi_sampling_par sp; unsigned services; int strict; unsigned max_lines; unsigned n; vbi_sliced *out; unsigned accepted; };

static int run_dec(void *ctx, const uint8_t *raw, uint8_t *unused)
{
	struct decctx *c = (struct decctx *) ctx; vbi3_raw_decoder *rd;
	(void) unused;
	/* a fresh decoder per call: a trial that is cut short by the guard must not leave state behind */
	rd = vbi3_raw_decoder_new(&c->sp);
	if (!rd) { c->accepted = 0; c->n = 0; return 0; }
	g_cur_rd = rd;
	c->accepted = vbi3_raw_decoder_add_services(rd, c->services, c->strict);
	c->n = vbi3_raw_decoder_decode(rd, c->out, c->max_lines, raw);
	g_cur_rd = NULL;
	vbi3_raw_decoder_delete(rd);
	return 1;
}

static void op_decode(void)
{
	struct dec q; long long mask, shift, seed; struct fmtinfo fi; unsigned bpp, spl, rows, r, i; size_t imglen, need;
	uint8_t *y, *img; struct decctx c; vbi_sliced *big; int noise;
	if (h_ntok != 19 || !NUMU(1, q.scanning) || !NUMU(2, q.fmt) || !NUMU(3, q.rate) || !NUMU(4, q.bpl) || !NUMU(5, q.start0) || !NUMU(6, q.count0)
	    || !NUMU(7, q.start1) || !NUMU(8, q.count1) || !NUMU(9, q.interlaced) || !NUMU(10, q.services) || !NUM(11, q.strict)
	    || !NUMU(12, q.max_lines) || !NUMU(13, mask) || mask < 0 || q.scanning < 0 || q.services < 0 || q.interlaced < 0 || !NUM(15, shift) || !NUM(16, seed)) { printf("rej parse\n"); return; }
	if (q.bpl < 1 || q.bpl > 16384 || q.count0 < 0 || q.count1 < 0 || q.count0 + q.count1 < 1 || q.count0 + q.count1 > 60
	    || q.max_lines < 0 || q.max_lines > 100 || q.rate < 1 || q.rate > 0x7FFFFFFF || !fmt_info((int) q.fmt, &fi)
	    || q.start0 < 0 || q.start1 < 0 || q.start0 > 1000 || q.start1 > 1000) { printf("rej parse\n"); return; }
	memset(&c, 0, sizeof c);
	c.sp.scanning = (int) q.scanning; c.sp.sampling_format = (vbi_pixfmt) q.fmt; c.sp.sampling_rate = (int) q.rate;
	c.sp.bytes_per_line = (int) q.bpl; c.sp.offset = 0; c.sp.start[0] = (int) q.start0; c.sp.count[0] = (int) q.count0;
	c.sp.start[1] = (int) q.start1; c.sp.count[1] = (int) q.count1; c.sp.interlaced = q.interlaced ? 1 : 0; c.sp.synchronous = 1;
	c.services = (unsigned) q.services; c.strict = (int) q.strict; c.max_lines = (unsigned) q.max_lines;
	{
		vbi3_raw_decoder *t = vbi3_raw_decoder_new(&c.sp);
		if (!t) { printf("rej sampling\n"); return; }
		vbi3_raw_decoder_delete(t);
	}
	if (!sig_ok(h_tok[14])) { printf("rej parse\n"); return; }
	bpp = VBI_PIXFMT_BPP((int) q.fmt);
	spl = (unsigned) q.bpl / bpp;
	rows = (unsigned)(q.count0 + q.count1);
	imglen = (size_t) rows * (size_t) q.bpl;
	img = (uint8_t *) malloc(imglen);
	y = (uint8_t *) malloc(spl ? spl : 1);
	noise = (0 == strcmp(h_tok[14], "noise"));
	for (r = 0; r < rows; ++r) {
		const char *sig = noise ? "noise" : (((unsigned long long) mask >> r) & 1) ? h_tok[14] : "blank";
		if (!make_luma(y, spl, (unsigned) q.rate, sig, shift, 0, (uint32_t) seed + (noise ? r : 0))) {
			printf("rej parse\n"); free(img); free(y); return;
		}
		if (0 == strcmp(sig, "blank")) memset(y, g_blank ? g_blank : 61, spl);
		put_pixels(img + (size_t) r * (size_t) q.bpl, y, spl, &fi, bpp, (uint32_t) seed + r);
	}
	big = (vbi_sliced *) calloc(c.max_lines + 64, sizeof (vbi_sliced));
	c.out = big;
	need = measure_need(run_dec, &c, img, imglen, NULL, fi.g16 ? 2 : 1);
	if (need != (size_t) -1 && need <= imglen) {
		/* property-level run: exact-size heap image and exact-size output array under ASan */
		uint8_t *exact = (uint8_t *) malloc(imglen);
		vbi_sliced *o = (vbi_sliced *) malloc(c.max_lines ? c.max_lines * sizeof (vbi_sliced) : 1);
		memcpy(exact, img, imglen);
		c.out = o; run_dec(&c, exact, NULL);
		memcpy(big, o, c.n <= c.max_lines ? c.n * sizeof (vbi_sliced) : 0);
		free(exact); free(o);
	} else {
		uint8_t *p = (uint8_t *) calloc(1, imglen + PAD_BYTES + 4096);
		memcpy(p, img, imglen); c.out = big; run_dec(&c, p, NULL); free(p);
	}
	if (getenv("SLICER_DEBUG")) fprintf(stderr, "accepted=%x n=%u need=%zu imglen=%zu\n", c.accepted, c.n, need, imglen);
	if (noise) {
		printf("ok le=%d over=%lld\n", c.n <= c.max_lines, need == (size_t) -1 ? -1LL : need > imglen ? (long long)(need - imglen) : 0LL);
	} else {
		printf("ok n=%u lines=", c.n);
		if (c.n == 0 || c.n > c.max_lines) printf("-");
		else for (i = 0; i < c.n; ++i) printf("%s%u", i ? "," : "", big[i].line);
		printf(" over=%lld\n", need == (size_t) -1 ? -1LL : need > imglen ? (long long)(need - imglen) : 0LL);
	}
	free(big); free(img); free(y);
}

/* ---------------------------------------------------------------- layout / table */
static void op_layout(void)
{
	static const int codes[] = { VBI_PIXFMT_YUV420, VBI_PIXFMT_YUYV, VBI_PIXFMT_YVYU, VBI_PIXFMT_UYVY, VBI_PIXFMT_VYUY, VBI_PIXFMT_PAL8,
		VBI_PIXFMT_RGBA32_LE, VBI_PIXFMT_RGBA32_BE, VBI_PIXFMT_BGRA32_LE, VBI_PIXFMT_BGRA32_BE, VBI_PIXFMT_RGB24, VBI_PIXFMT_BGR24,
		VBI_PIXFMT_RGB16_LE, VBI_PIXFMT_RGB16_BE, VBI_PIXFMT_BGR16_LE, VBI_PIXFMT_BGR16_BE, VBI_PIXFMT_RGBA15_LE, VBI_PIXFMT_RGBA15_BE,
		VBI_PIXFMT_BGRA15_LE, VBI_PIXFMT_BGRA15_BE, VBI_PIXFMT_ARGB15_LE, VBI_PIXFMT_ARGB15_BE, VBI_PIXFMT_ABGR15_LE, VBI_PIXFMT_ABGR15_BE };
	unsigned i, n = 0; const _vbi_service_par *p;
	for (p = _vbi_service_table; p->id; ++p) ++n;
	printf("ok %u %u %u %u %u", (unsigned) sizeof (((vbi_sliced *) 0)->data), (unsigned) sizeof (vbi_sliced),
	       (unsigned) _VBI3_RAW_DECODER_MAX_WAYS, (unsigned) _VBI3_RAW_DECODER_MAX_JOBS, n);
	for (i = 0; i < sizeof codes / sizeof codes[0]; ++i) printf(" %d:%d", codes[i], (int) VBI_PIXFMT_BPP(codes[i]));
	printf("\n");
}

static void op_table(void)
{
	long long i; const _vbi_service_par *p;
	if (h_ntok != 2 || !NUMU(1, i) || i < 0) { printf("rej parse\n"); return; }
	p = table_row(i);
	if (!p) { printf("ok end\n"); return; }
	printf("ok %u %u %u %u %u %u %u %u %u %u %u %u %u %u %u %u\n", (unsigned) p->id, (unsigned) p->videostd_set, p->first[0], p->first[1],
	       p->last[0], p->last[1], p->offset, p->cri_rate, p->bit_rate, p->cri_frc, p->cri_frc_mask, p->cri_bits, p->frc_bits,
	       p->payload, (unsigned) p->modulation, (unsigned) p->flags);
}

int main(void)
{
	int r;
	guard_init();
	while ((r = h_next())) {
		if (r == 2) continue;
		if (H_IS(0, "params")) op_params();
		else if (H_IS(0, "slice")) op_slice();
		else if (H_IS(0, "bslice")) op_bslice();
		else if (H_IS(0, "lparams")) op_lparams();
		else if (H_IS(0, "lslice")) op_lslice();
		else if (H_IS(0, "decode")) op_decode();
		else if (H_IS(0, "layout") && h_ntok == 1) op_layout();
		else if (H_IS(0, "table")) op_table();
		else printf("rej op\n");
		fflush(stdout);
	}
	return 0;
}
