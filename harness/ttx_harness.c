/* Harness for component `ttx`: the Teletext packet decoder of src/packet.c driven through
   vbi_decode() with sliced Teletext lines (C03; shared with C02/C01).
   Speaks the line protocol of lean/Driver/Ttx.lean.  The op `fetch` exists only here (oracle). */
#ifdef HAVE_CONFIG_H
#  include "config.h"
#endif
#include "hutil.h"
#include <stddef.h>
#include <stdarg.h>
#include "src/vbi.h"
#include "src/hamm.h"
#include "src/cache-priv.h"
#include "src/vt.h"
#include "src/lang.h"

static vbi_decoder *dec;
static long frame_no;
static int handler_on;
static char evbuf[1 << 16];
static size_t evlen;

static void ev_printf(const char *fmt, ...)
{
	va_list ap;
	va_start(ap, fmt);
	if (evlen < sizeof evbuf - 512)
		evlen += (size_t) vsnprintf(evbuf + evlen, sizeof evbuf - evlen, fmt, ap);
	va_end(ap);
}

static void on_event(vbi_event *ev, void *user)
{
	(void) user;
	if (ev->type == VBI_EVENT_TTX_PAGE) {
		int roll = ev->ev.ttx_page.roll_header;
		int i;
		ev_printf(" ev:page:%x.%x:%d%d", ev->ev.ttx_page.pgno, ev->ev.ttx_page.subno, roll,
			  (int) ev->ev.ttx_page.header_update);
		/* clock_update is uninitialised in store_lop() unless roll_header was computed */
		if (roll) ev_printf("%d", (int) ev->ev.ttx_page.clock_update); else ev_printf("-");
		ev_printf(":%d:", ev->ev.ttx_page.pn_offset);
		if (ev->ev.ttx_page.raw_header)
			for (i = 8; i < 40; ++i) ev_printf("%02x", ev->ev.ttx_page.raw_header[i]);
		else
			ev_printf("-");
	} else {
		ev_printf(" ev:other:%d", ev->type);
	}
}

/* number of cached pages that are still referenced although no client holds a reference
   (the harness never keeps one): references leaked by the decoder */
static int leaked_refs(int release)
{
	int n = 0;
	cache_page *cp, *cp1;
	if (!dec) return 0;
	FOR_ALL_NODES (cp, cp1, &dec->ca->referenced, pri_node) {
		++n;
		if (release)
			while (cp->ref_count > 1) cache_page_unref(cp);
	}
	if (release) {
		/* the last unref may free the page (zombie), so restart the walk each time */
		for (;;) {
			cache_page *victim = NULL;
			FOR_ALL_NODES (cp, cp1, &dec->ca->referenced, pri_node) { victim = cp; break; }
			if (!victim) break;
			cache_page_unref(victim);
		}
	}
	return n;
}

static void fresh(void)
{
	/* known defect (packet.c:2277, DRCS pages are stored without unref): drop leaked references so
	   that LeakSanitizer only reports other leaks; the op `refs` reports them */
	leaked_refs(1);
	if (dec) vbi_decoder_delete(dec);
	dec = vbi_decoder_new();
	if (!dec) { fprintf(stderr, "vbi_decoder_new failed\n"); exit(3); }
	frame_no = 0;
	handler_on = 0;
}

static void put_link(const struct ttx_page_link *l)
{
	printf("%d,%d,%d", (int) l->function, (int) l->pgno, (int) l->subno);
}

static void put_ext(const struct ttx_extension *e)
{
	int i;
	printf("%u,%u,%u,%u,%u,%u,%u,%u,%u,%u,", e->designations, (unsigned) e->charset_code[0],
	       (unsigned) e->charset_code[1], e->def_screen_color, e->def_row_color, e->foreground_clut,
	       e->background_clut, (unsigned) e->fallback.black_bg_substitution,
	       (unsigned) e->fallback.left_panel_columns, (unsigned) e->fallback.right_panel_columns);
	h_puthex(e->drcs_clut, sizeof e->drcs_clut);
	for (i = 0; i < 40; ++i) printf(",%x", (unsigned) e->color_map[i]);
}

static int lop_like(int fn) { return fn == PAGE_FUNCTION_UNKNOWN || fn == PAGE_FUNCTION_LOP; }

static void put_page(const cache_page *p)
{
	int fn = (int) p->function, i;
	printf("fn=%d pgno=%x subno=%x nat=%d flags=%x lp=%x x26=%x x27=%x x28=%x", fn, p->pgno, p->subno,
	       p->national, p->flags, p->lop_packets, p->x26_designations, p->x27_designations,
	       p->x28_designations);
	if (lop_like(fn) || fn == PAGE_FUNCTION_EACEM_TRIGGER) {
		printf(" h8="); h_puthex(p->data.lop.raw[0], 8);
		printf(" raw="); h_puthex(p->data.lop.raw[0] + 8, 32);
		for (i = 1; i < 26; ++i) { printf("."); h_puthex(p->data.lop.raw[i], 40); }
	}
	if (lop_like(fn)) {
		printf(" link=");
		for (i = 0; i < 36; ++i) { if (i) printf(";"); put_link(&p->data.lop.link[i]); }
		printf(" flof=%d", (int) p->data.lop.have_flof);
	}
	if (lop_like(fn) && (p->x26_designations != 0 || (p->x28_designations & 0x13))) {
		printf(" enh=");
		h_puthex((const uint8_t *) p->data.enh_lop.enh, sizeof p->data.enh_lop.enh);
	}
	if (lop_like(fn) && (p->x28_designations & 0x13)) {
		printf(" ext="); put_ext(&p->data.ext_lop.ext);
	}
}

static void asm_info(const uint8_t *pkt)
{
	int pmag = vbi_unham16p(pkt);
	if (dec->vt.current) printf(" cur=%d", (int)(dec->vt.current - dec->vt.raw_page));
	else printf(" cur=-");
	if (pmag < 0) { printf(" mag=-"); return; }
	{
		struct raw_page *rp = dec->vt.raw_page + (pmag & 7);
		printf(" mag=%d fn=%d lp=%x rlp=%x nt=%d cd=%d", pmag & 7, (int) rp->page->function,
		       rp->page->lop_packets, rp->lop_packets, rp->num_triplets, dec->chswcd);
	}
}

static int cmp_collect(cache_page **v, int n, cache_page *cp)
{
	/* stable insertion by pgno */
	int i = n;
	while (i > 0 && v[i - 1]->pgno > cp->pgno) { v[i] = v[i - 1]; --i; }
	v[i] = cp;
	return n + 1;
}

static void op_cached(void)
{
	static cache_page *v[0x4000];
	int n = 0, h, i;
	vbi_cache *ca = dec->ca;
	for (h = 0; h < HASH_SIZE; ++h) {
		cache_page *cp, *cp1;
		FOR_ALL_NODES (cp, cp1, ca->hash + h, hash_node)
			if (cp->network == dec->cn && n < 0x4000)
				n = cmp_collect(v, n, cp);
	}
	printf("ok");
	for (i = 0; i < n; ++i) printf(" %x.%x:%d", v[i]->pgno, v[i]->subno, (int) v[i]->function);
	printf("\n");
}

static cache_page *find_page(int pgno, int subno)
{
	vbi_cache *ca = dec->ca;
	cache_page *cp, *cp1;
	if (pgno < 0) return NULL;
	FOR_ALL_NODES (cp, cp1, ca->hash + (pgno % HASH_SIZE), hash_node)
		if (cp->network == dec->cn && cp->pgno == pgno && cp->subno == subno)
			return cp;
	return NULL;
}

static void tick(int gap)
{
	if (gap) frame_no += 25; else frame_no += 1;
	/* lines = 0: only the frame bookkeeping of vbi_decode */
	vbi_decode(dec, NULL, 0, (double) frame_no * 0.04);
}

int main(void)
{
	int r;
	fresh();
	while ((r = h_next())) {
		long long a, b; uint8_t *buf = NULL; int len;
		if (r == 2) { fresh(); continue; }
		if (H_IS(0, "note")) printf("ok\n");
		else if (H_IS(0, "reset") && h_ntok == 1) { fresh(); printf("ok\n"); }
		else if (H_IS(0, "handler") && h_ntok == 2) {
			if (!h_int(h_tok[1], &a) || a < 0) printf("rej parse\n");
			else {
				if (a && !handler_on) { vbi_event_handler_register(dec, VBI_EVENT_TTX_PAGE, on_event, NULL); handler_on = 1; }
				else if (!a && handler_on) { vbi_event_handler_unregister(dec, on_event, NULL); handler_on = 0; }
				printf("ok\n");
			}
		}
		else if ((H_IS(0, "pkt") || H_IS(0, "pktd")) && h_ntok == 2) {
			buf = h_hex(h_tok[1], &len);
			if (!buf || len != 42) printf("rej parse\n");
			else {
				evlen = 0; evbuf[0] = 0;
				if (H_IS(0, "pkt")) {
					/* one sliced line; the allocation ends right after the 42 payload bytes */
					size_t sz = offsetof(vbi_sliced, data) + 42;
					vbi_sliced *sl = (vbi_sliced *) malloc(sz);
					sl->id = VBI_SLICED_TELETEXT_B; sl->line = 7;
					memcpy(sl->data, buf, 42);
					frame_no += 1;
					vbi_decode(dec, sl, 1, (double) frame_no * 0.04);
					free(sl);
					printf("ok");
				} else {
					int ret;
					tick(0);
					ret = vbi_decode_teletext(dec, buf);
					printf("ok r=%d", ret ? 1 : 0);
				}
				asm_info(buf);
				printf("%s\n", evbuf);
			}
		}
		else if (H_IS(0, "gap") && h_ntok == 1) { evlen = 0; evbuf[0] = 0; tick(1); printf("ok\n"); }
		else if (H_IS(0, "cached") && h_ntok == 1) op_cached();
		else if (H_IS(0, "page") && h_ntok == 3) {
			if (!h_int(h_tok[1], &a) || !h_int(h_tok[2], &b) || a < 0 || b < 0) printf("rej parse\n");
			else {
				cache_page *cp = find_page((int) a, (int) b);
				if (!cp) printf("ok none\n"); else { printf("ok "); put_page(cp); printf("\n"); }
			}
		}
		else if (H_IS(0, "asm") && h_ntok == 2) {
			if (!h_int(h_tok[1], &a) || a < 0 || a >= 8) printf("rej parse\n");
			else {
				struct raw_page *rp = dec->vt.raw_page + a; int i;
				printf("ok "); put_page(rp->page);
				printf(" rlp=%x nt=%d lopraw=", rp->lop_packets, rp->num_triplets);
				for (i = 0; i < 26; ++i) { if (i) printf("."); h_puthex(rp->lop_raw[i], 40); }
				printf("\n");
			}
		}
		else if (H_IS(0, "mag") && h_ntok == 2) {
			if (!h_int(h_tok[1], &a) || a < 1 || a > 8) printf("rej parse\n");
			else {
				struct ttx_magazine *m = cache_network_magazine(dec->cn, (int) a * 0x100); int i;
				printf("ok ext="); put_ext(&m->extension);
				printf(" poplut="); h_puthex((uint8_t *) m->pop_lut, 256);
				printf(" drcslut="); h_puthex((uint8_t *) m->drcs_lut, 256);
				printf(" poplink=");
				for (i = 0; i < 16; ++i) {
					struct ttx_pop_link *l = &m->pop_link[0][0] + i;
					printf("%s%d,%d,%d,%d,%d,%d,%d,%d", i ? ";" : "", l->pgno, (int) l->fallback.black_bg_substitution,
					       l->fallback.left_panel_columns, l->fallback.right_panel_columns,
					       (int) l->default_obj[0].type, (int) l->default_obj[0].address,
					       (int) l->default_obj[1].type, (int) l->default_obj[1].address);
				}
				printf(" drcslink=");
				for (i = 0; i < 16; ++i) printf("%s%d", i ? "," : "", (&m->drcs_link[0][0])[i]);
				printf("\n");
			}
		}
		else if (H_IS(0, "stat") && h_ntok == 1) {
			int i;
			printf("ok");
			for (i = 0; i < 0x800; ++i) {
				struct ttx_page_stat *ps = dec->cn->_pages + i;
				if (ps->page_type != VBI_UNKNOWN_PAGE || ps->charset_code != 0xFF || ps->subcode != 0xFFFF)
					printf(" %x:%x:%x:%x", i + 0x100, ps->page_type, ps->charset_code, ps->subcode);
			}
			printf("\n");
		}
		else if (H_IS(0, "net") && h_ntok == 1) {
			int i;
			printf("ok mask=%d cd=%d hdrpgno=%x header=", (dec->event_mask & VBI_EVENT_TTX_PAGE) ? 1 : 0,
			       dec->chswcd, dec->vt.header_page.pgno);
			h_puthex(dec->vt.header, 40);
			if (dec->vt.current) printf(" cur=%d", (int)(dec->vt.current - dec->vt.raw_page)); else printf(" cur=-");
			printf(" initial="); put_link(&dec->cn->initial_page);
			printf(" top=%d btt=", dec->cn->have_top ? 1 : 0);
			for (i = 0; i < (int) N_ELEMENTS(dec->cn->btt_link); ++i) { if (i) printf(";"); put_link(&dec->cn->btt_link[i]); }
			printf("\n");
		}
		else if (H_IS(0, "charsets") && h_ntok == 1) {
			int i; printf("ok ");
			for (i = 0; i < 88; ++i) putchar(VALID_CHARACTER_SET(i) ? '1' : '0');
			printf("\n");
		}
		else if (H_IS(0, "sizes") && h_ntok == 1) {
			cache_page *cp = NULL; cache_network *cn = NULL; struct teletext *vt = NULL;
			printf("ok enh=%d poppointer=%d poptriplet=%d ait=%d btt=%d link=%d pages=%d mags=%d rawpages=%d\n",
			       (int) N_ELEMENTS(cp->data.enh_lop.enh), (int) N_ELEMENTS(cp->data.pop.pointer),
			       (int) N_ELEMENTS(cp->data.pop.triplet), (int) N_ELEMENTS(cp->data.ait.title),
			       (int) N_ELEMENTS(cn->btt_link), (int) N_ELEMENTS(cp->data.lop.link),
			       (int) N_ELEMENTS(cn->_pages), (int) N_ELEMENTS(cn->_magazines), (int) N_ELEMENTS(vt->raw_page));
		}
		else if (H_IS(0, "drcs") && h_ntok == 4) {
			/* oracle only: converted DRCS character `ptu` of a cached (G)DRCS page and the invalid mask */
			long long c;
			if (!h_int(h_tok[1], &a) || !h_int(h_tok[2], &b) || !h_int(h_tok[3], &c) || c < 0 || c >= 48) printf("rej parse\n");
			else {
				cache_page *cp = find_page((int) a, (int) b);
				if (!cp || (cp->function != PAGE_FUNCTION_DRCS && cp->function != PAGE_FUNCTION_GDRCS)) printf("ok none\n");
				else { printf("ok invalid=%llx chars=", (unsigned long long) cp->data.drcs.invalid); h_puthex(cp->data.drcs.chars[c], 60); printf("\n"); }
			}
		}
		else if (H_IS(0, "refs") && h_ntok == 1) printf("ok %d\n", leaked_refs(0));
		else if (H_IS(0, "fetch") && h_ntok == 3) {
			/* oracle only: Level 1.5 formatted text, one unicode per cell */
			if (!h_int(h_tok[1], &a) || !h_int(h_tok[2], &b)) printf("rej parse\n");
			else {
				vbi_page *pg = (vbi_page *) malloc(sizeof *pg);
				if (!vbi_fetch_vt_page(dec, pg, (int) a, (int) b, VBI_WST_LEVEL_1p5, 25, 0)) printf("ok none\n");
				else {
					int row, col;
					printf("ok");
					for (row = 0; row < pg->rows; ++row) {
						printf(row ? "." : " ");
						for (col = 0; col < 40; ++col)
							printf("%s%x", col ? "," : "", (unsigned) pg->text[row * pg->columns + col].unicode);
					}
					printf("\n");
					vbi_unref_page(pg);
				}
				free(pg);
			}
		}
		else if (h_ntok >= 1 && strstr(" reset handler pkt pktd gap cached page asm mag stat net charsets sizes fetch ", h_tok[0])
			 && 0) printf("rej parse\n");
		else printf("rej op\n");
		free(buf);
	}
	leaked_refs(1);
	if (dec) vbi_decoder_delete(dec);
	return 0;
}
