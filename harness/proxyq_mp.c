/* C18 runtime stage, daemon side: the REAL proxy daemon (daemon/proxyd.c, unmodified) as a process of its own,
 * with its real main loop, real select(), real unix-domain socket /tmp/vbiproxy-<device name>, real clients
 * (harness/proxyq_mpclient.c uses the real src/proxy-client.c) and, in the `thread` variant, its real
 * acquisition thread.  Only the capture device is fake.  Driven by lib/proxyq_mp.py.
 *
 *   proxyq_mp <select|thread> <device name> <m-1> <m0> <m1> <m2>
 *
 *   select   the fake device reports VBI_FD_HAS_SELECT, its descriptor is an eventfd which is readable iff a
 *            scripted frame is waiting: vbi_proxyd_forward_data() runs in the daemon's main thread
 *   thread   the device reports no select support: vbi_proxyd_start_acq_thread() / vbi_proxyd_acq_thread() /
 *            vbi_proxyd_stop_acq_thread() run; the fake read() blocks (in read(2) on a pipe, a cancellation
 *            point) until a frame is released
 *   m<s>     services the fake decoder supports at strictness s (update_services grants services & m<s>)
 *
 * proxyd.c is #included (main renamed, this file does what main() does).  Differences to the installed daemon:
 *   - vbi_capture_v4l2_new()/vbi_capture_v4l_new() are defined here (the sanitizer library has no io-v4l*.c)
 *   - accept() is defined here: it sets SO_SNDBUF of every accepted socket to the kernel's minimum, so that a
 *     client which stops reading blocks the daemon (EAGAIN) after three or four SLICED_IND messages
 *   - pthread_mutex_unlock() / pthread_mutex_lock() inside proxyd.c are verif_mutex_unlock() / verif_mutex_lock(): the
 *     real ones, plus optional delay injections (environment PROXYQ_MP_RACE_US, PROXYQ_MP_MAINLOCK_US, see below);
 *     without those variables they are the real calls and nothing else
 *   - pthread_cond_timedwait() inside proxyd.c is verif_cond_timedwait(): vbi_proxyd_stop_acq_thread() gives the
 *     thread 50 ms to die and otherwise close()s the capture descriptor and carries on WITHOUT joining; under
 *     machine load that timeout would make the test flaky, here the wait lasts up to 20 s.  If the daemon does
 *     take that path, get_fd() hands it a fresh /dev/null descriptor to close (`dev hackfd` is printed).
 *
 * A control thread reads commands from stdin and answers every one on stdout.  It touches nothing of the daemon:
 * only the fake device's frame queue (own mutex) and signals.
 *   cap <ts_us> [<id>:<line>:<seed>]...   the device has captured one more frame
 *                                         -> ok cap <seq> queued | ok cap <seq> dropped   (device closed)
 *   stat                                  -> ok stat open=.. active=.. opens=.. closes=.. queued=.. reads=..
 *   quit                                  SIGTERM to the main thread: vbi_proxyd_signal_handler, should_exit, the
 *                                         main loop ends, vbi_proxyd_destroy(); -> ok quit, exit 0
 *   (end of file on stdin acts like quit)
 * Device calls are logged on the same stdout, serialised with the answers:
 *   dev open | dev upd reset=.. commit=.. req=.. strict=.. granted=.. active=.. | dev close discarded=<n> [seqs]
 * The fake device behaves like a decoder: a frame released while the device is closed is lost; a frame read
 * returns the scripted lines whose id intersects the ACTIVE service set, at most count[0]+count[1] = 32 of them.
 */
#define _GNU_SOURCE
#include <sys/types.h>
#include <sys/socket.h>
#include <sys/select.h>
#include <sys/un.h>
#include <sys/eventfd.h>
#include <stddef.h>
#include <stdarg.h>
#include <pthread.h>
#include <signal.h>
#include <time.h>

static int verif_cond_timedwait(pthread_cond_t *c, pthread_mutex_t *m, const struct timespec *ts);
static int verif_mutex_unlock(pthread_mutex_t *m);
static int verif_mutex_lock(pthread_mutex_t *m);
static void *verif_malloc(size_t n);
static pthread_t main_tid;

#define main zvbid_main
#define pthread_cond_timedwait verif_cond_timedwait
#define pthread_mutex_unlock verif_mutex_unlock
#define pthread_mutex_lock verif_mutex_lock
#define malloc verif_malloc
#include "daemon/proxyd.c"
#undef malloc
#undef pthread_mutex_lock
#undef pthread_mutex_unlock
#undef pthread_cond_timedwait
#undef main

/* Delay injection, off unless the environment has PROXYQ_MP_RACE_US=<n>: the acquisition thread sleeps n us
 * after every unlock of proxy.clnt_mutex, i.e. right after the first critical section of
 * vbi_proxyd_forward_data() (reference counts and client cursors set) and before the second one (buffer linked
 * to the queue).  Nothing but timing changes: it makes the window of defect D5 `acq-thread-link` wide enough to
 * be hit on demand.  Cancellation is held off during the sleep (the daemon has no cancellation point there). */
static long race_window_us;
/* Second delay injection, off unless the environment has PROXYQ_MP_MAINLOCK_US=<n>: the MAIN thread sleeps n us
 * before it locks the device's queue_mutex, e.g. between vbi_proxyd_send_sliced() (which reads req->p_sliced and the
 * buffer without the mutex) and vbi_proxy_queue_release_sliced() in vbi_proxyd_handle_client_sockets(): the
 * acquisition thread gets time to overflow the queue (vbi_proxy_queue_force_free) in between. */
static long mainlock_us;
static int verif_mutex_lock(pthread_mutex_t *m)
{
	if (mainlock_us > 0 && m == &proxy.dev[0].queue_mutex && pthread_equal(pthread_self(), main_tid))
		usleep((useconds_t) mainlock_us);
	return pthread_mutex_lock(m);
}
/* Third one, PROXYQ_MP_MAINMALLOC_US=<n>: the MAIN thread sleeps n us in every malloc() of proxyd.c - the one in
 * vbi_proxyd_send_sliced() lies between its reads of req->p_sliced->line_count (message size) and of
 * req->p_sliced->timestamp / lines (message content), all without the queue mutex. */
static long mainmalloc_us;
static void *verif_malloc(size_t n)
{
	if (mainmalloc_us > 0 && pthread_equal(pthread_self(), main_tid)) usleep((useconds_t) mainmalloc_us);
	return malloc(n);
}
static int verif_mutex_unlock(pthread_mutex_t *m)
{
	int r = pthread_mutex_unlock(m);
	if (race_window_us > 0 && m == &proxy.clnt_mutex && !pthread_equal(pthread_self(), main_tid)) {
		int old;
		pthread_setcancelstate(PTHREAD_CANCEL_DISABLE, &old);
		usleep((useconds_t) race_window_us);
		pthread_setcancelstate(old, NULL);
	}
	return r;
}

/* vbi_proxy_msg_listen_socket() never frees the address it gets from vbi_proxy_msg_get_local_socket_addr()
 * (about 110 bytes per daemon start; noted in NOTES/C18.md, not part of C18): keep LeakSanitizer on for the rest */
const char *__lsan_default_suppressions(void) { return "leak:vbi_proxy_msg_get_local_socket_addr\n"; }

/* ------------------------------------------------------------------ output: one write(2) per line */
static pthread_mutex_t out_mx = PTHREAD_MUTEX_INITIALIZER;
static void out(const char *fmt, ...)
{
	char b[2048]; int n; va_list ap; size_t off = 0;
	va_start(ap, fmt);
	n = vsnprintf(b, sizeof b - 1, fmt, ap);
	va_end(ap);
	if (n < 0) return;
	if (n > (int) sizeof b - 2) n = (int) sizeof b - 2;
	b[n++] = '\n';
	pthread_mutex_lock(&out_mx);
	while (off < (size_t) n) {
		ssize_t r = write(1, b + off, (size_t) n - off);
		if (r < 0) { if (errno == EINTR) continue; break; }
		off += (size_t) r;
	}
	pthread_mutex_unlock(&out_mx);
}

/* ------------------------------------------------------------------ timing neutralised */
static int n_condto;
static int verif_cond_timedwait(pthread_cond_t *c, pthread_mutex_t *m, const struct timespec *ts)
{
	struct timespec t; int r;
	(void) ts;
	clock_gettime(CLOCK_REALTIME, &t);
	t.tv_sec += 20;
	r = pthread_cond_timedwait(c, m, &t);
	if (r != 0) { n_condto++; out("dev condtimeout %d", r); }
	return r;
}

int accept(int fd, struct sockaddr *addr, socklen_t *len)
{
	int r = accept4(fd, addr, len, 0);
	if (r >= 0) { int v = 1; setsockopt(r, SOL_SOCKET, SO_SNDBUF, &v, sizeof v); }
	return r;
}

/* ------------------------------------------------------------------ fake capture device */
typedef struct { unsigned id; unsigned line; unsigned seed; } FLINE;
#define MAXL 16
typedef struct { long long ts; int n; FLINE l[MAXL]; int seq; } FFRAME;
#define QCAP 512
static pthread_mutex_t fmx = PTHREAD_MUTEX_INITIALIZER;     /* everything below */
static FFRAME fq[QCAP]; static unsigned fq_head, fq_tail;    /* ring, fq_tail - fq_head frames waiting */
static int next_seq;
static int variant_thread;
static unsigned supp[4];
typedef struct { vbi_capture cap; vbi_raw_decoder dec; unsigned active; int efd; int wake_rd, wake_wr; } FAKE;
static FAKE *fake;                 /* the open device or NULL */
static int n_open, n_close, n_queued, n_reads, n_dropped, n_discarded, n_hackfd;

static void fake_counts(FAKE *f)
{
	f->dec.scanning = 625;
	f->dec.count[0] = f->active ? 16 : 0;
	f->dec.count[1] = f->active ? 16 : 0;
	f->dec.start[0] = 6; f->dec.start[1] = 318;
}

/* pthread_cancel() unwinds the acquisition thread out of fake_read / vbi_capture_read_sliced /
 * vbi_proxyd_forward_data without running their epilogues, so ASan's red zones of those frames stay poisoned; the
 * next __asan_handle_no_return (gcc 12 runtime: PlatformUnpoisonStacks calls the intercepted sigaltstack with a
 * variable in that stale area) then aborts with a CHECK failure.  This innermost cleanup handler clears the
 * thread's stack shadow first - what __asan_handle_no_return is about to do anyway. */
#ifdef __SANITIZE_ADDRESS__
void __asan_unpoison_memory_region(void const volatile *addr, size_t size);
#endif
static void fake_cancelled(void *arg)
{
	(void) arg;
#ifdef __SANITIZE_ADDRESS__
	{
		pthread_attr_t a; void *lo = NULL; size_t sz = 0;
		if (pthread_getattr_np(pthread_self(), &a) == 0) {
			if (pthread_attr_getstack(&a, &lo, &sz) == 0 && lo && sz) __asan_unpoison_memory_region(lo, sz);
			pthread_attr_destroy(&a);
		}
	}
#endif
}

static int fake_read(vbi_capture *cap, vbi_capture_buffer **raw, vbi_capture_buffer **sliced, const struct timeval *to)
{
	FAKE *f = (FAKE *) cap; FFRAME fr; unsigned active; int n = 0, i, max;
	(void) raw; (void) to;
	for (;;) {
		int have = 0;
		pthread_mutex_lock(&fmx);
		if (fq_head != fq_tail) {
			fr = fq[fq_head % QCAP]; fq_head++; have = 1; n_reads++;
			if (!variant_thread && fq_head == fq_tail) { uint64_t v; if (read(f->efd, &v, 8) < 0) {} }
		}
		active = f->active;
		max = f->dec.count[0] + f->dec.count[1];
		pthread_mutex_unlock(&fmx);
		if (have) break;
		if (!variant_thread) return 0;
		/* the acquisition thread blocks here, holding nothing; this read is the only cancellation point of
		   fake_read: a frame taken from the queue is always handed to the daemon.  The frame queue is the truth,
		   the bytes in the pipe are only wake-ups (a lost or a spare one is harmless). */
		{
			char b[64]; ssize_t r;
			pthread_cleanup_push(fake_cancelled, NULL);
			r = read(f->wake_rd, b, sizeof b);
			pthread_cleanup_pop(0);
			if (r < 0 && errno != EINTR) return -1;
		}
	}
	if (sliced && *sliced && (*sliced)->data) {
		vbi_sliced *s = (vbi_sliced *) (*sliced)->data;
		for (i = 0; i < fr.n && n < max; ++i) {
			int j;
			if ((fr.l[i].id & active) == 0) continue;
			s[n].id = fr.l[i].id; s[n].line = fr.l[i].line;
			for (j = 0; j < (int) sizeof s[n].data; ++j) s[n].data[j] = (uint8_t)(fr.l[i].seed + j);
			n++;
		}
		(*sliced)->size = n * (int) sizeof(vbi_sliced);
		(*sliced)->timestamp = (double) fr.ts / 1e6;
	}
	return 1;
}
static vbi_raw_decoder *fake_parameters(vbi_capture *cap) { return &((FAKE *) cap)->dec; }
static unsigned int fake_update(vbi_capture *cap, vbi_bool reset, vbi_bool commit, unsigned int services, int strict, char **err)
{
	FAKE *f = (FAKE *) cap; unsigned g, a;
	(void) err;
	if (strict < -1) strict = -1;
	if (strict > 2) strict = 2;
	pthread_mutex_lock(&fmx);
	if (reset) f->active = 0;
	g = services & supp[strict + 1];
	f->active |= g;
	a = f->active;
	fake_counts(f);
	out("dev upd reset=%d commit=%d req=%x strict=%d granted=%x active=%x", reset ? 1 : 0, commit ? 1 : 0, services, strict, g, a);
	pthread_mutex_unlock(&fmx);
	return g;
}
static int fake_scanning(vbi_capture *cap) { (void) cap; return 625; }
static void fake_flush(vbi_capture *cap) { (void) cap; out("dev flush"); }
static int fake_fd(vbi_capture *cap)
{
	if (variant_thread) {
		/* only vbi_proxyd_stop_acq_thread()'s "dirty hack" asks for the descriptor in this variant, to close it */
		int fd = open("/dev/null", O_RDONLY);
		n_hackfd++;
		out("dev hackfd %d", fd);
		return fd;
	}
	return ((FAKE *) cap)->efd;
}
static VBI_CAPTURE_FD_FLAGS fake_fd_flags(vbi_capture *cap) { (void) cap; return variant_thread ? 0 : VBI_FD_HAS_SELECT; }
static vbi_bool fake_path(vbi_capture *cap, const char *p) { (void) cap; (void) p; return FALSE; }
static void fake_delete(vbi_capture *cap)
{
	FAKE *f = (FAKE *) cap; char b[1024]; size_t o = 0; int n = 0;
	pthread_mutex_lock(&fmx);
	b[0] = 0;
	while (fq_head != fq_tail) {       /* what the device captured and nobody read is gone */
		if (o < sizeof b - 16) o += (size_t) snprintf(b + o, sizeof b - o, "%s%d", n ? "," : " ", fq[fq_head % QCAP].seq);
		fq_head++; n++; n_discarded++;
	}
	if (fake == f) fake = NULL;
	n_close++;
	out("dev close discarded=%d%s", n, b);
	pthread_mutex_unlock(&fmx);
	if (f->efd >= 0) close(f->efd);
	if (f->wake_rd >= 0) close(f->wake_rd);
	if (f->wake_wr >= 0) close(f->wake_wr);
	free(f);
}

vbi_capture *vbi_capture_v4l2_new(const char *dev_name, int buffers, unsigned int *services, int strict, char **errorstr, vbi_bool trace)
{
	FAKE *f = (FAKE *) calloc(1, sizeof *f);
	(void) dev_name; (void) buffers; (void) services; (void) strict; (void) errorstr; (void) trace;
	f->cap.read = fake_read; f->cap.parameters = fake_parameters; f->cap.update_services = fake_update;
	f->cap.get_scanning = fake_scanning; f->cap.flush = fake_flush; f->cap.get_fd = fake_fd;
	f->cap.get_fd_flags = fake_fd_flags; f->cap.set_video_path = fake_path; f->cap._delete = fake_delete;
	f->efd = f->wake_rd = f->wake_wr = -1;
	if (variant_thread) {
		int p[2];
		if (pipe2(p, O_CLOEXEC) != 0) { free(f); return NULL; }
		f->wake_rd = p[0]; f->wake_wr = p[1];
		fcntl(f->wake_wr, F_SETFL, O_NONBLOCK);
	} else
		f->efd = eventfd(0, EFD_NONBLOCK | EFD_CLOEXEC);
	fake_counts(f);
	pthread_mutex_lock(&fmx);
	fq_head = fq_tail = 0;
	fake = f;
	n_open++;
	out("dev open");
	pthread_mutex_unlock(&fmx);
	return &f->cap;
}
vbi_capture *vbi_capture_v4l_new(const char *dev_name, int scanning, unsigned int *services, int strict, char **errorstr, vbi_bool trace)
{
	(void) dev_name; (void) scanning; (void) services; (void) strict; (void) errorstr; (void) trace;
	return NULL;
}

/* ------------------------------------------------------------------ control thread */
static pthread_mutex_t done_mx = PTHREAD_MUTEX_INITIALIZER;
static pthread_cond_t done_cv = PTHREAD_COND_INITIALIZER;
static int loop_done;

static int p_u(const char *s, unsigned long long max, unsigned long long *out_)
{
	char *e; unsigned long long v;
	if (!*s || *s == '-') return 0;
	errno = 0;
	v = strtoull(s, &e, 0);
	if (errno || *e || v > max) return 0;
	*out_ = v;
	return 1;
}

static void do_cap(char **tok, int ntok)
{
	FFRAME fr; unsigned long long v; int i, n = ntok - 2, dropped;
	if (ntok < 2 || n > MAXL || !p_u(tok[1], 1000000000000ULL, &v)) { out("rej parse"); return; }
	memset(&fr, 0, sizeof fr);
	fr.ts = (long long) v; fr.n = n;
	for (i = 0; i < n; ++i) {
		char *a = tok[2 + i], *b = strchr(a, ':'), *c = b ? strchr(b + 1, ':') : NULL;
		unsigned long long id, line, seed;
		if (!b || !c) break;
		*b = 0; *c = 0;
		if (!p_u(a, 0xFFFFFFFFULL, &id) || !p_u(b + 1, 1000, &line) || !p_u(c + 1, 255, &seed)) break;
		if (id & (VBI_SLICED_VBI_625 | VBI_SLICED_VBI_525)) break;
		fr.l[i].id = (unsigned) id; fr.l[i].line = (unsigned) line; fr.l[i].seed = (unsigned) seed;
	}
	if (i < n) { out("rej parse"); return; }
	pthread_mutex_lock(&fmx);
	if (fake && fq_tail - fq_head >= QCAP) { pthread_mutex_unlock(&fmx); out("rej full"); return; }
	fr.seq = next_seq++;
	dropped = (fake == NULL);
	if (dropped) n_dropped++;
	else {
		fq[fq_tail % QCAP] = fr; fq_tail++; n_queued++;
		if (variant_thread) { if (write(fake->wake_wr, "x", 1) < 0) {} }
		else { uint64_t one = 1; if (write(fake->efd, &one, 8) < 0) {} }
	}
	/* printed under the lock: the order of `ok cap` and `dev open/close` lines on stdout is the order of the events */
	out("ok cap %d %s", fr.seq, dropped ? "dropped" : "queued");
	pthread_mutex_unlock(&fmx);
}

static void do_quit(void)
{
	int tries = 0;
	pthread_kill(main_tid, SIGTERM);
	pthread_mutex_lock(&done_mx);
	while (!loop_done) {
		struct timespec t;
		clock_gettime(CLOCK_REALTIME, &t);
		t.tv_nsec += 100 * 1000000L;
		if (t.tv_nsec >= 1000000000L) { t.tv_sec++; t.tv_nsec -= 1000000000L; }
		if (pthread_cond_timedwait(&done_cv, &done_mx, &t) != 0 && !loop_done && ++tries < 600) {
			/* the signal came between the daemon's test of should_exit and its select(): SIGTERM's handler is
			   one-shot, SIGALRM's only sets a flag, and interrupts select() */
			pthread_kill(main_tid, SIGALRM);
		}
	}
	pthread_mutex_unlock(&done_mx);
}

static void *control_thread(void *arg)
{
	static char line[8192];
	(void) arg;
	while (fgets(line, sizeof line, stdin)) {
		char *tok[MAXL + 8], *save, *s; int ntok = 0;
		for (s = strtok_r(line, " \t\r\n", &save); s && ntok < MAXL + 8; s = strtok_r(NULL, " \t\r\n", &save)) tok[ntok++] = s;
		if (ntok == 0) continue;
		if (!strcmp(tok[0], "cap")) do_cap(tok, ntok);
		else if (!strcmp(tok[0], "stat")) {
			pthread_mutex_lock(&fmx);
			out("ok stat open=%d active=%x opens=%d closes=%d queued=%d reads=%d dropped=%d discarded=%d waiting=%u hackfd=%d condto=%d",
			    fake ? 1 : 0, fake ? fake->active : 0, n_open, n_close, n_queued, n_reads, n_dropped, n_discarded,
			    fq_tail - fq_head, n_hackfd, n_condto);
			pthread_mutex_unlock(&fmx);
		}
		else if (!strcmp(tok[0], "quit")) break;
		else out("rej op");
	}
	do_quit();
	return NULL;
}

int main(int argc, char **argv)
{
	sigset_t all, old; pthread_t ctl; int i; const char *dbg = getenv("PROXYQ_MP_DEBUG");
	if (argc != 7 || (strcmp(argv[1], "select") && strcmp(argv[1], "thread"))) {
		fprintf(stderr, "usage: proxyq_mp <select|thread> <device name> <m-1> <m0> <m1> <m2>\n");
		return 2;
	}
	variant_thread = !strcmp(argv[1], "thread");
	for (i = 0; i < 4; ++i) {
		unsigned long long v;
		if (!p_u(argv[3 + i], 0xFFFFFFFFULL, &v) || (v & (VBI_SLICED_VBI_625 | VBI_SLICED_VBI_525))) return 2;
		supp[i] = (unsigned) v;
	}
	main_tid = pthread_self();
	if (getenv("PROXYQ_MP_RACE_US")) race_window_us = atol(getenv("PROXYQ_MP_RACE_US"));
	if (getenv("PROXYQ_MP_MAINLOCK_US")) mainlock_us = atol(getenv("PROXYQ_MP_MAINLOCK_US"));
	if (getenv("PROXYQ_MP_MAINMALLOC_US")) mainmalloc_us = atol(getenv("PROXYQ_MP_MAINMALLOC_US"));

	/* what zvbid's main() does */
	memset(&proxy, 0, sizeof proxy);
	proxy.tcp_ip_fd = -1;
	pthread_mutex_init(&proxy.clnt_mutex, NULL);
	opt_no_detach = TRUE;
	opt_buffer_count = DEFAULT_BUFFER_COUNT;
	opt_debug_level = dbg ? (unsigned) atoi(dbg) : 0;
	vbi_proxyd_add_device(argv[2]);
	vbi_proxy_msg_set_debug_level((opt_debug_level == 0) ? 0 : ((opt_debug_level & DBG_CLNT) ? 2 : 1));
	vbi_proxyd_init();
	vbi_proxyd_set_max_conn(opt_max_clients);
	vbi_proxyd_set_address(FALSE, NULL, NULL);
	vbi_proxy_msg_set_logging(opt_debug_level > 0, -1, -1, NULL);
	if (!vbi_proxyd_listen()) {
		out("failed listen");
		vbi_proxyd_destroy();
		return 3;
	}
	/* the control thread takes no signals: SIGTERM and SIGALRM go to the daemon's main thread */
	sigfillset(&all);
	pthread_sigmask(SIG_BLOCK, &all, &old);
	if (pthread_create(&ctl, NULL, control_thread, NULL) != 0) { out("failed thread"); return 3; }
	pthread_sigmask(SIG_SETMASK, &old, NULL);
	out("ready %s", proxy.dev[0].p_sock_path);

	vbi_proxyd_main_loop();

	pthread_mutex_lock(&done_mx);
	loop_done = 1;
	pthread_cond_broadcast(&done_cv);
	pthread_mutex_unlock(&done_mx);
	vbi_proxyd_destroy();
	pthread_mutex_destroy(&proxy.clnt_mutex);
	pthread_join(ctl, NULL);
	out("ok quit opens=%d closes=%d reads=%d hackfd=%d condto=%d", n_open, n_close, n_reads, n_hackfd, n_condto);
	exit(0);
}
