/* Harness of the navigation stage of C01: the real vbi_format_vt_page() at Level 1 with `display_rows` and
   `navigation` (zap_links, keyword, flof_links, flof_navigation_bar) on a fabricated cache_page.
   Speaks the line protocol of lean/Driver/Nav.lean:

   nav rows navflag region pgno subno flags national haveflof has24 l0 .. l5 hex1000
     -> ok <25 rows x 40 cells `uuuusl`> | <nav_index[0..39]> | <nav_link[0..5] ppp:ssss>

   cache_page and vbi_page are exact-size heap blocks (ASan sees any access outside them); the vbi_page is zeroed first.
   src/teletext.c is #included to have the static functions in this translation unit. */
#include "hutil.h"
#include "src/teletext.c"

static vbi_decoder *dec;

static void reset(void)
{
	if (dec) vbi_decoder_delete(dec);
	dec = vbi_decoder_new();
	if (!dec) { fprintf(stderr, "vbi_decoder_new failed\n"); exit(3); }
}

#define NUM(i, v) (h_ntok > (i) && h_int(h_tok[i], &(v)))

static int parse_link(const char *s, long long *pg, long long *sn)
{
	char tmp[64];
	char *c;
	if (strlen(s) >= sizeof tmp) return 0;
	strcpy(tmp, s);
	c = strchr(tmp, ':');
	if (!c || strchr(c + 1, ':')) return 0;
	*c = 0;
	if (!h_int(tmp, pg) || !h_int(c + 1, sn)) return 0;
	if (tmp[0] == '-' || c[1] == '-') return 0;
	return *pg >= 0 && *pg <= 0xFFF && *sn >= 0 && *sn <= 0xFFFF;
}

static void __attribute__((noinline)) dirty_stack(int v)
{
	volatile unsigned char pad[32768];
	unsigned int i;
	for (i = 0; i < sizeof pad; ++i) pad[i] = (unsigned char) v;
}

int main(void)
{
	int r;
	reset();
	while ((r = h_next())) {
		uint8_t *b = NULL;
		if (r == 2) { reset(); continue; }
		if (H_IS(0, "nav")) {
			long long rows, nf, rg, pgno, sn, fl, na, hf, h24, lp[6], ls[6];
			int len = 0, ok, i;
			ok = h_ntok == 17
				&& NUM(1, rows) && NUM(2, nf) && NUM(3, rg) && NUM(4, pgno) && NUM(5, sn) && NUM(6, fl)
				&& NUM(7, na) && NUM(8, hf) && NUM(9, h24);
			for (i = 0; ok && i < 9; ++i) if (h_tok[1 + i][0] == '-') ok = 0;
			for (i = 0; ok && i < 6; ++i) ok = parse_link(h_tok[10 + i], &lp[i], &ls[i]);
			ok = ok && rows >= 1 && rows <= 25 && (nf == 0 || nf == 1) && rg >= 0 && rg < 88
				&& pgno >= 0x100 && pgno <= 0x8FF && sn >= 0 && sn <= 0x3F7F && fl >= 0 && fl < 0x1000000
				&& na >= 0 && na < 8 && (hf == 0 || hf == 1) && (h24 == 0 || h24 == 1);
			if (ok) { b = h_hex(h_tok[16], &len); ok = b != NULL && len == 1000; }
			if (!ok) printf("rej parse\n");
			else {
				cache_page *cp = calloc(1, sizeof *cp);      /* exact size: ASan sees overruns */
				vbi_page *pg = calloc(1, sizeof *pg);
				int row, c;
				memset(pg, 0, sizeof *pg);
				cp->function = PAGE_FUNCTION_LOP;
				cp->pgno = (int) pgno; cp->subno = (int) sn; cp->flags = (int) fl; cp->national = (int) na;
				cp->lop_packets = h24 ? 0x1FFFFFF : (0x1FFFFFF & ~(1 << 24));
				memcpy(cp->data.lop.raw, b, 1000);
				memset(cp->data.lop.raw[25], 0x20, 40);
				cp->data.lop.have_flof = (int) hf;
				for (i = 0; i < 6; ++i) {
					cp->data.lop.link[i].pgno = (int) lp[i];
					cp->data.lop.link[i].subno = (int) ls[i];
				}
				vbi_teletext_set_default_region(dec, (int) rg);
				if (vbi_format_vt_page(dec, pg, cp, VBI_WST_LEVEL_1, (int) rows, nf ? TRUE : FALSE)) {
					printf("ok ");
					for (row = 0; row < 25; ++row) {
						if (row) putchar(',');
						for (c = 0; c < 40; ++c) {
							const vbi_char *a = &pg->text[row * 41 + c];
							printf("%04x%x%x", a->unicode, a->size, a->link ? 1 : 0);
						}
					}
					printf(" | ");
					for (c = 0; c < 40; ++c) printf("%x", pg->nav_index[c] & 15);
					printf(" |");
					for (i = 0; i < 6; ++i)
						printf(" %03x:%04x", pg->nav_link[i].pgno & 0xFFF, pg->nav_link[i].subno & 0xFFFF);
					printf("\n");
				} else printf("ok false\n");
				free(pg); free(cp);
			}
		} else if (H_IS(0, "dirty") && h_ntok == 2) {
			/* fill the part of the stack the next call will use with a byte value: automatic variables a function
			   reads before writing them then have this content (zap_links' link[]) */
			long long v;
			if (!h_int(h_tok[1], &v) || v < 0 || v > 255) printf("rej parse\n");
			else { dirty_stack((int) v); printf("ok\n"); }
		} else printf("rej op\n");
		free(b);
		fflush(stdout);
	}
	if (dec) vbi_decoder_delete(dec);
	return 0;
}
