/* Harness for the regular expression engine src/ure.c (C17, component `ure`), built with ASan+UBSan.
   ure.c is #included (nothing of libzvbi is linked) so that the private DFA can be dumped.

   ops (one output line each; pattern / text = UCS-2 as 4 hex digits per character, `-` = empty):
     compile <casefold> <hex>   ure_compile (pattern, len, casefold, buffer) with the buffer of this case (created at
                                `case`, reused by every compile of the case like a caller may do) ->
                                `ok null <buf->error>` | `ok dfa <flags> <nsyms> <nstates> <ntrans> S <sym>... T <state>...`
                                  sym   = any | bol | eol | c<hex> | C<props hex>[lo-hi,...] | N<props hex>[lo-hi,...] | ?<type>
                                          (symbol table order = the order ure_exec tries them)
                                  state = <accepting 0|1>:<symbol index>><next state>,... (transition order of the DFA) | <acc>:-
     lit <casefold> <hex>       the pattern escaped as vbi_search_new (regexp = FALSE) does, then as `compile`
     exec <flags> <hex>         ure_exec (dfa of the last successful compile, flags, text, len, &ms, &me) ->
                                `ok none` | `ok <ms> <me>` | `ok hang` (no return within 0.3 s of CPU time: SIGVTALRM + siglongjmp) |
                                `rej nodfa`
   Pattern and text are handed over in heap blocks of exactly len * 2 bytes. */
#include "hutil.h"
#include <signal.h>
#include <setjmp.h>
#include <unistd.h>
#include <sys/time.h>
#include "src/ure.c"

static ure_buffer_t buf;
static ure_dfa_t    dfa;

static void fresh(void)
{
	if (dfa) { ure_dfa_free(dfa); dfa = NULL; }
	if (buf) { ure_buffer_free(buf); buf = NULL; }
	buf = ure_buffer_create();
	if (!buf) { fprintf(stderr, "no buffer\n"); exit(3); }
}

/* 4 hex digits per character -> exact-size block; NULL on a parse error */
static ucs2_t *ucs2_arg(const char *s, unsigned long *n)
{
	size_t l = strlen(s), i;
	ucs2_t *b;
	if (0 == strcmp(s, "-")) { *n = 0; return (ucs2_t *) malloc(1); }
	if (l % 4) return NULL;
	b = (ucs2_t *) malloc(l / 2 ? l / 2 : 1);
	for (i = 0; i < l / 4; ++i) {
		int a = h_hexval(s[4*i]), c = h_hexval(s[4*i+1]), d = h_hexval(s[4*i+2]), e = h_hexval(s[4*i+3]);
		if (a < 0 || c < 0 || d < 0 || e < 0) { free(b); return NULL; }
		b[i] = (ucs2_t)(((a * 16 + c) * 16 + d) * 16 + e);
	}
	*n = l / 4;
	return b;
}

static void dump(void)
{
	unsigned i, j;
	printf("ok dfa %lu %u %u %u S", dfa->flags, (unsigned) dfa->nsyms, (unsigned) dfa->nstates, (unsigned) dfa->ntrans);
	for (i = 0; i < dfa->nsyms; ++i) {
		_ure_symtab_t *s = dfa->syms + i;
		switch (s->type) {
		case _URE_ANY_CHAR:   printf(" any"); break;
		case _URE_BOL_ANCHOR: printf(" bol"); break;
		case _URE_EOL_ANCHOR: printf(" eol"); break;
		case _URE_CHAR:       printf(" c%lx", (unsigned long) s->sym.chr); break;
		case _URE_CCLASS:
		case _URE_NCCLASS:
			printf(" %c%lx[", s->type == _URE_CCLASS ? 'C' : 'N', s->props);
			for (j = 0; j < s->sym.ccl.ranges_used; ++j)
				printf("%s%lx-%lx", j ? "," : "", (unsigned long) s->sym.ccl.ranges[j].min_code,
				       (unsigned long) s->sym.ccl.ranges[j].max_code);
			printf("]");
			break;
		default: printf(" ?%u", (unsigned) s->type);
		}
	}
	printf(" T");
	for (i = 0; i < dfa->nstates; ++i) {
		_ure_dstate_t *d = dfa->states + i;
		printf(" %u:", d->accepting ? 1u : 0u);
		if (!d->ntrans) printf("-");
		for (j = 0; j < d->ntrans; ++j)
			printf("%s%u>%u", j ? "," : "", (unsigned) d->trans[j].symbol, (unsigned) d->trans[j].next_state);
	}
	printf("\n");
}

static sigjmp_buf hang_env;
static void on_alarm(int sig) { (void) sig; siglongjmp(hang_env, 1); }
static void on_alarm_compile(int sig)
{
	static const char msg[] = "WATCHDOG: ure_compile did not return within 20 s\n";
	(void) sig;
	if (write(2, msg, sizeof msg - 1) < 0) {}
	_exit(95);
}

/* CPU time of this process, so that a loaded machine does not produce a false `hang` */
static void timer(int ms)
{
	struct itimerval it;
	memset(&it, 0, sizeof it);
	it.it_value.tv_sec = ms / 1000; it.it_value.tv_usec = (ms % 1000) * 1000;
	setitimer(ITIMER_VIRTUAL, &it, NULL);
}

static void do_compile(ucs2_t *pat, unsigned long n, int cf)
{
	ure_dfa_t d;
	signal(SIGVTALRM, on_alarm_compile);
	timer(20000);
	d = ure_compile(pat, n, cf, buf);
	timer(0);
	if (!d) { printf("ok null %d\n", buf->error); return; }
	if (dfa) ure_dfa_free(dfa);
	dfa = d;
	dump();
}

int main(void)
{
	int r;
	fresh();
	while ((r = h_next())) {
		long long a;
		if (r == 2) { fresh(); continue; }
		if ((H_IS(0, "compile") || H_IS(0, "lit")) && h_ntok == 3) {
			unsigned long n; ucs2_t *pat;
			if (!h_int(h_tok[1], &a) || a < 0 || a > 1) { printf("rej parse\n"); continue; }
			pat = ucs2_arg(h_tok[2], &n);
			if (!pat) { printf("rej parse\n"); continue; }
			if (n == 0) { free(pat); printf("rej empty\n"); continue; }
			if (H_IS(0, "lit")) {
				/* vbi_search_new (regexp = FALSE), src/search.c */
				ucs2_t *esc = (ucs2_t *) malloc(sizeof(ucs2_t) * n * 2), *exact;
				unsigned long i, j;
				for (i = j = 0; i < n; i++) {
					if (strchr("!\"#$%&()*+,-./:;=?@[\\]^_{|}~", pat[i]))
						esc[j++] = '\\';
					esc[j++] = pat[i];
				}
				exact = (ucs2_t *) malloc(sizeof(ucs2_t) * j);
				memcpy(exact, esc, sizeof(ucs2_t) * j);
				free(esc); free(pat);
				pat = exact; n = j;
			}
			do_compile(pat, n, (int) a);
			free(pat);
		} else if (H_IS(0, "exec") && h_ntok == 3) {
			unsigned long n, ms = 0, me = 0; ucs2_t *text; volatile int rc = 0;
			if (!h_int(h_tok[1], &a) || a < 0 || a > 15) { printf("rej parse\n"); continue; }
			text = ucs2_arg(h_tok[2], &n);
			if (!text) { printf("rej parse\n"); continue; }
			if (!dfa) { free(text); printf("rej nodfa\n"); continue; }
			signal(SIGVTALRM, on_alarm);
			if (sigsetjmp(hang_env, 1)) {
				printf("ok hang\n");
			} else {
				timer(300);
				rc = ure_exec(dfa, (int) a, text, n, &ms, &me);
				timer(0);
				if (!rc) printf("ok none\n");
				else printf("ok %lu %lu\n", ms, me);
			}
			free(text);
		} else {
			printf("rej op\n");
		}
		fflush(stdout);
	}
	if (dfa) ure_dfa_free(dfa);
	if (buf) ure_buffer_free(buf);
	return 0;
}
