/* libFuzzer target over the whole service decoder (support tool for C01: it SEARCHES for failing inputs, it is not a
   check and proves nothing).  The byte string is interpreted as a sequence of ops equivalent to the line protocol of
   dec_harness.c; with DEC_FUZZ_DUMP=1 a standalone run (`dec_fuzz <file>`) prints those op lines so that a crash file
   becomes a corpus/C01/*.ops replay for the registered check.
   build: tools/fuzz_dec.sh   (clang-14 -fsanitize=fuzzer,address,undefined) */
#include <stdio.h>
#include <stdlib.h>
#include <string.h>
#include <stdint.h>
#include "src/libzvbi.h"

static int dump;
static volatile unsigned sink;
static void touch(const void *p, size_t n) { const uint8_t *b = p; size_t i; for (i = 0; i < n; ++i) sink += b[i]; }
static void handler(vbi_event *ev, void *u) { (void) u; sink += ev->type; }

static void hexdump(const uint8_t *p, size_t n) { size_t i; for (i = 0; i < n; ++i) printf("%02x", p[i]); }

int LLVMFuzzerTestOneInput(const uint8_t *d, size_t n)
{
	vbi_decoder *dec = vbi_decoder_new();
	vbi_page *pg = calloc(1, sizeof *pg);
	int pg_valid = 0;
	vbi_search *srch = NULL;
	long long t = 0;
	size_t i = 0;
	if (!dec) abort();
	vbi_event_handler_register(dec, -1, handler, NULL);
	while (i < n) {
		unsigned op = d[i++] & 15;
		vbi_sliced s;
		memset(&s, 0, sizeof s);
		if (op <= 7) {				/* Teletext line (most of the weight) */
			if (i + 42 > n) break;
			s.id = VBI_SLICED_TELETEXT_B; s.line = 7; memcpy(s.data, d + i, 42); i += 42;
			if (dump) { printf("l 3 7 "); hexdump(s.data, 42); printf("\ndec %lld\n", t); }
			vbi_decode(dec, &s, 1, t / 1e6); t += 40000;
		} else if (op == 8 || op == 9) {	/* caption field 1 / 2 */
			if (i + 2 > n) break;
			s.id = VBI_SLICED_CAPTION_525; s.line = op == 8 ? 21 : 284; memcpy(s.data, d + i, 2); i += 2;
			if (dump) { printf("l 60 %d ", s.line); hexdump(s.data, 2); printf("\ndec %lld\n", t); }
			vbi_decode(dec, &s, 1, t / 1e6); t += 33367;
		} else if (op == 10) {			/* VPS */
			if (i + 13 > n) break;
			s.id = VBI_SLICED_VPS; s.line = 16; memcpy(s.data, d + i, 13); i += 13;
			if (dump) { printf("l 4 16 "); hexdump(s.data, 13); printf("\ndec %lld\n", t); }
			vbi_decode(dec, &s, 1, t / 1e6); t += 40000;
		} else if (op == 11) {			/* WSS */
			if (i + 2 > n) break;
			s.id = VBI_SLICED_WSS_625; s.line = 23; memcpy(s.data, d + i, 2); i += 2;
			if (dump) { printf("l 400 23 "); hexdump(s.data, 2); printf("\ndec %lld\n", t); }
			vbi_decode(dec, &s, 1, t / 1e6); t += 40000;
		} else if (op == 12) {			/* fetch + use the page */
			unsigned pgno, sub, lv, what;
			static const vbi_wst_level lvs[4] = { VBI_WST_LEVEL_1, VBI_WST_LEVEL_1p5, VBI_WST_LEVEL_2p5, VBI_WST_LEVEL_3p5 };
			if (i + 5 > n) break;
			pgno = 0x100 + ((d[i] << 8 | d[i + 1]) & 0x7FF); sub = (d[i + 2] << 8 | d[i + 3]) & 0x3FFF;
			if (d[i + 2] & 0x80) sub = VBI_ANY_SUBNO;
			lv = d[i + 4] & 3; what = d[i + 4] >> 2; i += 5;
			if (pg_valid) { vbi_unref_page(pg); pg_valid = 0; }
			if (dump) printf("fetch %x %x %u 25 %u\n", pgno, sub, lv, what & 1);
			if (what & 32) { pg_valid = vbi_fetch_cc_page(dec, pg, 1 + (pgno & 7), TRUE); if (dump) printf("fetchcc %u\n", 1 + (pgno & 7)); }
			else pg_valid = vbi_fetch_vt_page(dec, pg, (vbi_pgno) pgno, (vbi_subno) sub, lvs[lv], 25, what & 1);
			if (pg_valid) {
				int teletext = pg->pgno >= 0x100;
				if (what & 2) {
					size_t sz = (size_t) pg->columns * (teletext ? 12 : 16) * pg->rows * (teletext ? 10 : 26) * 4;
					uint8_t *cv = malloc(sz);
					if (dump) printf("render 32 1 1\n");
					if (teletext) vbi_draw_vt_page(pg, VBI_PIXFMT_RGBA32_LE, cv, 1, 1); else vbi_draw_cc_page(pg, VBI_PIXFMT_RGBA32_LE, cv);
					touch(cv, sz); free(cv);
				}
				if (what & 4) {
					char *buf = malloc(4000); int r;
					if (dump) printf("print 1 4000\n");
					r = vbi_print_page(pg, buf, 4000, "UTF-8", 1, 1); if (r > 0) touch(buf, (size_t) r); free(buf);
				}
				if (what & 8) {
					static const char *mods[4] = { "html", "text", "vtx", "xpm" };
					char *es = NULL; vbi_export *ex = vbi_export_new(mods[(what >> 4) & 1 ? 0 : 1], &es); free(es);
					if (dump) printf("export %s -1\n", mods[(what >> 4) & 1 ? 0 : 1]);
					if (ex) { void *b = NULL; size_t sz = 0; if (vbi_export_alloc(ex, &b, &sz, pg)) { touch(b, sz); free(b); } vbi_export_delete(ex); }
				}
				if (what & 16) {
					int row, col; vbi_link ld;
					if (dump) printf("resolve\n");
					for (row = 0; row < pg->rows; ++row) for (col = 0; col < pg->columns; ++col)
						if (pg->text[row * pg->columns + col].link) { vbi_resolve_link(pg, col, row, &ld); touch(&ld, sizeof ld); }
					vbi_resolve_home(pg, &ld);
				}
			}
		} else if (op == 13) {			/* classify / title */
			unsigned pgno; vbi_subno sn; char *lang; char title[41];
			if (i + 2 > n) break;
			pgno = 0x100 + ((d[i] << 8 | d[i + 1]) & 0x7FF); i += 2;
			if (dump) printf("classify %x\ntitle %x 3f7f\n", pgno, pgno);
			sink += vbi_classify_page(dec, (vbi_pgno) pgno, &sn, &lang);
			if (vbi_page_title(dec, (int) pgno, VBI_ANY_SUBNO, title)) touch(title, strlen(title));
		} else if (op == 14) {			/* search */
			uint16_t pat[9]; unsigned k, len, pgno; vbi_page *res;
			if (i + 4 > n) break;
			pgno = 0x100 + ((d[i] << 8 | d[i + 1]) & 0x7FF); len = 1 + (d[i + 2] & 7);
			if (i + 4 + len > n) break;
			for (k = 0; k < len; ++k) pat[k] = d[i + 4 + k] ? d[i + 4 + k] : 'a';
			/* the empty-match loop of search_page_rev is a known finding being repaired: avoid anchors / starred patterns */
			for (k = 0; k < len; ++k) if (pat[k] == '^' || pat[k] == '$' || pat[k] == '*' || pat[k] == '?') pat[k] = 'b';
			pat[len] = 0;
			if (srch) vbi_search_delete(srch);
			if (dump) { printf("search %x 3f7f %u %u ", pgno, d[i + 3] & 1, (d[i + 3] >> 1) & 1); for (k = 0; k < len; ++k) printf("%04x", pat[k]); printf("\nnext %d\nnext %d\n", d[i + 3] & 4 ? -1 : 1, d[i + 3] & 8 ? -1 : 1); }
			srch = vbi_search_new(dec, (vbi_pgno) pgno, VBI_ANY_SUBNO, pat, d[i + 3] & 1, (d[i + 3] >> 1) & 1, NULL);
			if (srch) { vbi_search_next(srch, &res, d[i + 3] & 4 ? -1 : 1); vbi_search_next(srch, &res, d[i + 3] & 8 ? -1 : 1); }
			i += 4 + len;
		} else {				/* time jump / channel switch */
			if (i + 1 > n) break;
			if (d[i] & 1) { if (dump) printf("chsw 0\n"); vbi_channel_switched(dec, 0); } else t += 5000000;
			i += 1;
		}
	}
	if (dump) printf("delete\n");
	if (srch) vbi_search_delete(srch);
	if (pg_valid) vbi_unref_page(pg);
	free(pg);
	vbi_decoder_delete(dec);
	return 0;
}

#ifdef DEC_FUZZ_STANDALONE
int main(int argc, char **argv)
{
	static uint8_t buf[1 << 20]; size_t n; FILE *f;
	dump = !!getenv("DEC_FUZZ_DUMP");
	if (argc < 2 || !(f = fopen(argv[1], "rb"))) return 2;
	n = fread(buf, 1, sizeof buf, f); fclose(f);
	return LLVMFuzzerTestOneInput(buf, n);
}
#endif
