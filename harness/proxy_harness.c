/* C19 harness: the REAL proxy daemon main loop (daemon/proxyd.c, unmodified) driven by an op script.
 *
 * One translation unit: `#define main zvbid_main`, `#define select verif_select`, then #include "daemon/proxyd.c".
 * vbi_proxyd_main_loop() runs unmodified; every select() it makes lands in verif_select(), which reads op lines from
 * stdin and plays the clients on the daemon's real unix-domain listening sockets, until an `iter` op makes it perform a
 * real zero-timeout select() on the daemon's fd sets and return: the daemon then runs exactly one loop iteration.
 * time() and alarm() are interposed at link level (fake clock), the capture device is harness/proxy_fakecap.h.
 * Output is a function of the op lines: no pointers, pids, paths, wall-clock times.
 */
#include <unistd.h>
#include <stdio.h>
#include <stdlib.h>
#include <string.h>
#include <time.h>
#include <sys/time.h>
#include <sys/types.h>
#include <sys/stat.h>
#include <sys/ioctl.h>
#include <sys/select.h>
#include <sys/socket.h>
#include <sys/un.h>
#include <fcntl.h>
#include <errno.h>
#include <signal.h>
#include <assert.h>
#include <pthread.h>
#include <stddef.h>
#include <arpa/inet.h>
#include "hutil.h"

static int verif_select(int n, fd_set *rd, fd_set *wr, fd_set *ex, struct timeval *tmo);
#define main zvbid_main
#define select verif_select
#include "daemon/proxyd.c"
#undef select
#undef main
#undef dprintf

/* src/proxy-msg.c is compiled into this translation unit too (the archive member of the library is then not linked),
   unmodified except for ONE pinned libc behaviour: vbi_proxy_msg_handle_read() looks at a STALE errno after a recv() that
   returned 0 (`else if (errno == EAGAIN) *pBlocked = TRUE`); POSIX leaves errno unspecified after a successful call and
   under ASan its value depends on allocator internals.  verif_recv() sets it to EAGAIN whenever recv() returns 0, which
   makes the output a function of the op lines. */
static ssize_t verif_recv(int fd, void *buf, size_t len, int flags)
{
	ssize_t r = recv(fd, buf, len, flags);
	if (r == 0) errno = EAGAIN;
	return r;
}
#define recv verif_recv
#include "src/proxy-msg.c"
#undef recv

#include "proxy_fakecap.h"

/* ---- fake clock / alarm (link-level interposition; also used by src/proxy-msg.c inside the library) ---- */
static long long fake_now = 1000000;
static long long alarm_at = -1;		/* absolute fake time of the pending alarm, -1 = none */
static long long last_alarm_arg = -1;
time_t time(time_t *t) { if (t) *t = (time_t) fake_now; return (time_t) fake_now; }
unsigned int alarm(unsigned int s)
{
	last_alarm_arg = (long long) s;
	alarm_at = s ? fake_now + (long long) s : -1;
	return 0;
}

/* src/proxy-msg.c vbi_proxy_msg_listen_socket: the sockaddr_un malloc'ed by vbi_proxy_msg_get_local_socket_addr is not
   released by libc's freeaddrinfo (one block per listening socket and daemon start; not part of C19) */
const char *__lsan_default_suppressions(void) { return "leak:vbi_proxy_msg_get_local_socket_addr\n"; }

/* ---- clients ---- */
#define MAXC 16
#define LOGCAP (1 << 20)
typedef struct {
	int used, fd, dev;		/* fd = -1 after `shut` */
	PROXY_CLNT *srv;		/* daemon side record while it is in proxy.p_clnts */
	int accepted;
	uint8_t *log; size_t logn;	/* bytes received from the daemon, not yet printed */
	int eof;			/* daemon closed the connection */
	int rdshut;			/* `shutrd`: the client did shutdown(SHUT_RD); it reads nothing any more */
} hclient;
static hclient hc[MAXC];
static int nhc;
static int pend[FK_NDEV][MAXC], npend[FK_NDEV];	/* connects not yet accepted, FIFO per device */
static char tmpdir[64];
static int case_active, pending_case, at_eof, iter_pending;
static unsigned frame_seq;

static void drain(hclient *c)
{
	for (;;) {
		uint8_t buf[65536]; ssize_t n;
		if (c->fd < 0 || c->eof || c->rdshut) return;
		n = recv(c->fd, buf, sizeof buf, MSG_DONTWAIT);
		if (n > 0) {
			if (c->logn + (size_t) n > LOGCAP) { fprintf(stderr, "harness: client log overflow\n"); exit(3); }
			c->log = (uint8_t *) realloc(c->log, c->logn + (size_t) n);
			memcpy(c->log + c->logn, buf, (size_t) n); c->logn += (size_t) n;
		} else if (n == 0) { c->eof = 1; return; }
		else { if (errno == ECONNRESET) c->eof = 1; return; }
	}
}

static const char *tok_name(int t)
{
	static char b[24];
	switch (t) { case REQ_TOKEN_NONE: return "N"; case REQ_TOKEN_RECLAIM: return "RC"; case REQ_TOKEN_RELEASE: return "RL";
	case REQ_TOKEN_GRANT: return "GT"; case REQ_TOKEN_GRANTED: return "GD"; case REQ_TOKEN_RETURNED: return "RT"; }
	snprintf(b, sizeof b, "?%d", t); return b;
}
static const char *st_name(int s)
{
	switch (s) { case REQ_STATE_WAIT_CON_REQ: return "W"; case REQ_STATE_WAIT_CLOSE: return "X";
	case REQ_STATE_FORWARD: return "F"; case REQ_STATE_CLOSED: return "C"; }
	return "?";
}

/* after an iteration: map the daemon's client records to handles (new records pop the connect FIFO of their device) */
static void sync_clients(void)
{
	PROXY_CLNT *p; int i;
	for (i = 0; i < nhc; ++i) if (hc[i].srv) {
		int found = 0;
		for (p = proxy.p_clnts; p; p = p->p_next) if (p == hc[i].srv) found = 1;
		if (!found) hc[i].srv = NULL;
	}
	for (p = proxy.p_clnts; p; p = p->p_next) {
		int known = 0;
		for (i = 0; i < nhc; ++i) if (hc[i].srv == p) known = 1;
		if (!known) {
			int d = p->dev_idx, k;
			if (d < 0 || d >= FK_NDEV || npend[d] == 0) { fprintf(stderr, "harness: unexpected client record\n"); exit(3); }
			k = pend[d][0]; memmove(pend[d], pend[d] + 1, sizeof(int) * (size_t)(npend[d] - 1)); npend[d]--;
			hc[k].srv = p; hc[k].accepted = 1;
		}
	}
	for (i = 0; i < nhc; ++i) drain(&hc[i]);
}

static void print_state(void)
{
	PROXY_CLNT *p; int d, i;
	printf("ok n=%d |", proxy.clnt_count);
	for (p = proxy.p_clnts; p; p = p->p_next) {
		int k = -1, np = 0; PROXY_QUEUE *q;
		for (i = 0; i < nhc; ++i) if (hc[i].srv == p) k = i;
		for (q = p->p_sliced; q; q = q->p_next) np++;
		printf(" c%d:d%d:%s:%s:p%d:i%u:r%u/%uw%u:as%x:sv%x/%x/%x/%x:f%u:b%d:e%d:pf%u/%u/%lld:sc%d/%d/%lld/%lld:q%d",
		       k, p->dev_idx, st_name(p->state), tok_name(p->chn_state.token_state), (int) p->chn_prio,
		       (unsigned) p->chn_status_ind, p->io.readOff, p->io.readLen, p->io.writeLen, p->all_services,
		       p->services[0], p->services[1], p->services[2], p->services[3], (unsigned) p->client_flags,
		       p->buffer_count, p->endianSwap ? 1 : 0, p->chn_profile.is_valid, p->chn_profile.sub_prio,
		       (long long) p->chn_profile.min_duration, p->chn_state.is_completed ? 1 : 0, p->chn_state.cycle_count,
		       (long long) p->chn_state.last_start, (long long) p->chn_state.last_duration, np);
	}
	printf(" |");
	for (d = 0; d < FK_NDEV; ++d)
		printf(" d%d:cap%d:api%d:svc%x:scan%u:prio%d:ml%d:o%u:u%u:fl%u:fq%d", d, proxy.dev[d].p_capture ? 1 : 0,
		       (int) proxy.dev[d].vbi_api, proxy.dev[d].all_services, proxy.dev[d].scanning, (int) proxy.dev[d].chn_prio,
		       proxy.dev[d].max_lines, fk_dev[d].n_open, fk_dev[d].n_upd, fk_dev[d].n_flush, fk_dev[d].qn);
	if (last_alarm_arg < 0) printf(" | al- sa%d\n", proxy.chn_sched_alarm ? 1 : 0);
	else printf(" | al%lld sa%d\n", last_alarm_arg, proxy.chn_sched_alarm ? 1 : 0);
	fflush(stdout);
}

static const char *first_word(const uint8_t *s, size_t n)
{
	static char b[40]; size_t i;
	for (i = 0; i < n && i < sizeof b - 1 && s[i] && s[i] != ' '; ++i) b[i] = (s[i] >= 33 && s[i] < 127) ? (char) s[i] : '?';
	b[i] = 0; return i ? b : "-";
}

/* print and consume the complete messages in the client's log */
static void print_recv(hclient *c)
{
	size_t off = 0; int any = 0;
	printf("ok");
	while (c->logn - off >= sizeof(VBIPROXY_MSG_HEADER)) {
		VBIPROXY_MSG_HEADER h; uint32_t len, type; const uint8_t *b;
		union { VBIPROXY_MSG_BODY body; uint8_t raw[sizeof(VBIPROXY_MSG_BODY)]; } u;
		memcpy(&h, c->log + off, sizeof h); len = ntohl(h.len); type = ntohl(h.type);
		if (len < sizeof h || len > LOGCAP) { printf(" BADLEN:%u", len); off = c->logn; any = 1; break; }
		if (c->logn - off < len) break;
		b = c->log + off + sizeof h;
		memset(&u, 0, sizeof u);
		memcpy(u.raw, b, (len - sizeof h) < sizeof u ? (len - sizeof h) : sizeof u);
		any = 1;
		switch (type) {
		case MSG_TYPE_CONNECT_CNF:
			printf(" CONNECT_CNF:%u:svc%x:api%u:df%u:scan%d:magic%d", len, u.body.connect_cnf.services,
			       u.body.connect_cnf.vbi_api_revision, u.body.connect_cnf.daemon_flags, u.body.connect_cnf.dec.scanning,
			       0 == memcmp(u.body.connect_cnf.magics.protocol_magic, VBIPROXY_MAGIC_STR, VBIPROXY_MAGIC_LEN)
			       && u.body.connect_cnf.magics.endian_magic == VBIPROXY_ENDIAN_MAGIC);
			break;
		case MSG_TYPE_CONNECT_REJ:
			printf(" CONNECT_REJ:%u:%s", len, first_word(u.body.connect_rej.errorstr, sizeof u.body.connect_rej.errorstr)); break;
		case MSG_TYPE_SERVICE_CNF: printf(" SERVICE_CNF:%u:svc%x", len, u.body.service_cnf.services); break;
		case MSG_TYPE_SERVICE_REJ:
			printf(" SERVICE_REJ:%u:%s", len, first_word(u.body.service_rej.errorstr, sizeof u.body.service_rej.errorstr)); break;
		case MSG_TYPE_CHN_TOKEN_CNF:
			printf(" TOKEN_CNF:%u:ind%d:%d:%d", len, u.body.chn_token_cnf.token_ind, u.body.chn_token_cnf.permitted,
			       u.body.chn_token_cnf.non_excl); break;
		case MSG_TYPE_CHN_TOKEN_IND: printf(" TOKEN_IND:%u", len); break;
		case MSG_TYPE_CHN_RECLAIM_REQ: printf(" RECLAIM_REQ:%u", len); break;
		case MSG_TYPE_CHN_NOTIFY_CNF: printf(" NOTIFY_CNF:%u:scan%u", len, u.body.chn_notify_cnf.scanning); break;
		case MSG_TYPE_CHN_CHANGE_IND:
			printf(" CHANGE_IND:%u:fl%u:scan%u", len, (unsigned) u.body.chn_change_ind.notify_flags, u.body.chn_change_ind.scanning); break;
		case MSG_TYPE_CHN_SUSPEND_REJ: printf(" SUSPEND_REJ:%u", len); break;
		case MSG_TYPE_CHN_IOCTL_CNF:
			printf(" IOCTL_CNF:%u:res%d:err%d:as%u", len, u.body.chn_ioctl_cnf.result, u.body.chn_ioctl_cnf.errcode,
			       u.body.chn_ioctl_cnf.arg_size); break;
		case MSG_TYPE_CHN_IOCTL_REJ: printf(" IOCTL_REJ:%u", len); break;
		case MSG_TYPE_DAEMON_PID_CNF:
			printf(" PID_CNF:%u:magic%d", len, 0 == memcmp(u.body.daemon_pid_cnf.magics.protocol_magic, VBIPROXY_MAGIC_STR, VBIPROXY_MAGIC_LEN)); break;
		case MSG_TYPE_SLICED_IND: {
			/* body may be larger than the union: decode from the byte stream */
			VBIPROXY_SLICED_IND si; uint32_t i, good = 1; size_t base = offsetof(VBIPROXY_SLICED_IND, u);
			memcpy(&si, b, base < len - sizeof h ? base : len - sizeof h);
			printf(" SLICED:%u:ts%u:n%u:raw%u:ids", len, (unsigned) si.timestamp, si.sliced_lines, si.raw_lines);
			if (len - sizeof h != VBIPROXY_SLICED_IND_SIZE(si.sliced_lines, si.raw_lines)) good = 0;
			else for (i = 0; i < si.sliced_lines; ++i) {
				vbi_sliced s; unsigned j, li;
				memcpy(&s, b + base + i * sizeof s, sizeof s);
				printf("%s%x@%u", i ? "," : "", s.id, s.line);
				li = s.line - 7u;
				for (j = 0; j < sizeof s.data; ++j) if (s.data[j] != fk_byte((unsigned) si.timestamp, (int) li, (int) j)) good = 0;
			}
			if (si.sliced_lines == 0) printf("-");
			printf(":ok%u", good);
			break; }
		default: printf(" MSG%u:%u", type, len); break;
		}
		off += len;
	}
	if (off) { memmove(c->log, c->log + off, c->logn - off); c->logn -= off; }
	if (c->logn) { printf(" PARTIAL:%zu", c->logn); any = 1; }
	if (c->eof) { printf(" EOF"); any = 1; }
	if (!any) printf(" -");
	printf("\n");
}

static void print_sizes(void)
{
	VBIPROXY_MSG_BODY *b = 0;
	printf("ok hdr=%zu msg=%zu connect_req=%zu service_req=%zu token_req=%zu notify_req=%zu suspend_req=%zu ioctl_req=%zu "
	       "reclaim_cnf=%zu pid_req=%zu pid_cnf=%zu connect_cnf=%zu connect_rej=%zu service_cnf=%zu service_rej=%zu token_cnf=%zu "
	       "token_ind=%zu notify_cnf=%zu reclaim_req=%zu change_ind=%zu suspend_rej=%zu ioctl_cnf=%zu ioctl_rej=%zu "
	       "min_strict=%d max_strict=%d nservices=%zu clnt=%zu off_services=%zu off_msgbuf=%zu msgtypes=%d "
	       "io_timeout=60 con_timeout=%d\n",
	       sizeof(VBIPROXY_MSG_HEADER), sizeof(VBIPROXY_MSG), sizeof b->connect_req, sizeof b->service_req,
	       sizeof b->chn_token_req, sizeof b->chn_notify_req, sizeof b->chn_suspend_req, sizeof b->chn_ioctl_req,
	       sizeof b->chn_reclaim_cnf, sizeof b->daemon_pid_req, sizeof b->daemon_pid_cnf, sizeof b->connect_cnf,
	       sizeof b->connect_rej, sizeof b->service_cnf, sizeof b->service_rej, sizeof b->chn_token_cnf,
	       sizeof b->chn_token_ind, sizeof b->chn_notify_cnf, sizeof b->chn_reclaim_req, sizeof b->chn_change_ind,
	       sizeof b->chn_suspend_rej, sizeof b->chn_ioctl_cnf, sizeof b->chn_ioctl_rej,
	       VBI_MIN_STRICT, VBI_MAX_STRICT, sizeof(((PROXY_CLNT *) 0)->services) / sizeof(unsigned int),
	       sizeof(PROXY_CLNT), offsetof(PROXY_CLNT, services), offsetof(PROXY_CLNT, msg_buf), (int) MSG_TYPE_COUNT,
	       SRV_CONNECT_TIMEOUT);
}

/* ---- ops; returns 1 when the daemon shall run one iteration ---- */
static int get_handle(int tok, hclient **out)
{
	long long v;
	if (h_ntok <= tok || !h_int(h_tok[tok], &v) || h_tok[tok][0] == '-') return 0;
	if (v >= nhc || !hc[v].used) { *out = NULL; return 1; }
	*out = &hc[v]; return 1;
}

static int do_op(void)
{
	long long a, b, c2, d2, e2; hclient *c;
	if (H_IS(0, "iter") && h_ntok == 1) return 1;
	if (H_IS(0, "sizes") && h_ntok == 1) { print_sizes(); return 0; }
	if (H_IS(0, "alarm") && h_ntok == 1) { proxy.chn_sched_alarm = TRUE; printf("ok\n"); return 0; }
	if (H_IS(0, "tick")) {
		if (h_ntok != 2 || !h_int(h_tok[1], &a) || a < 0 || a > 1000000) { printf("rej parse\n"); return 0; }
		fake_now += a;
		if (alarm_at >= 0 && fake_now >= alarm_at) { alarm_at = -1; proxy.chn_sched_alarm = TRUE; }
		printf("ok %lld\n", fake_now - 1000000); return 0;
	}
	if (H_IS(0, "maxconn")) {
		if (h_ntok != 2 || !h_int(h_tok[1], &a) || a < 0 || a > 64) { printf("rej parse\n"); return 0; }
		proxy.max_conn = (int) a; printf("ok\n"); return 0;
	}
	if (H_IS(0, "dev")) {
		if (h_ntok != 6 || !h_int(h_tok[1], &a) || !h_int(h_tok[2], &b) || !h_int(h_tok[3], &c2) || !h_int(h_tok[4], &d2)
		    || !h_int(h_tok[5], &e2) || a < 0 || a >= FK_NDEV || b < 0 || b > 0xffffffffLL || c2 < 0 || c2 > 2
		    || d2 < 0 || d2 > 100000 || e2 < -1 || e2 > 100000) { printf("rej parse\n"); return 0; }
		if (nhc > 0) { printf("rej late\n"); return 0; }	/* the device does not change under connected clients */
		fk_dev[a].sup = (unsigned) b; fk_dev[a].api = (int) c2; fk_dev[a].scan = (int) d2; fk_dev[a].getscan = (int) e2;
		printf("ok\n"); return 0;
	}
	if (H_IS(0, "connect")) {
		struct sockaddr_un sa; int fd;
		if (h_ntok != 2 || !h_int(h_tok[1], &a) || a < 0 || a >= FK_NDEV) { printf("rej parse\n"); return 0; }
		if (nhc >= MAXC) { printf("rej full\n"); return 0; }
		if (npend[a] >= 8) { printf("rej backlog\n"); return 0; }
		fd = socket(AF_UNIX, SOCK_STREAM, 0);
		memset(&sa, 0, sizeof sa); sa.sun_family = AF_UNIX;
		snprintf(sa.sun_path, sizeof sa.sun_path, "%s", proxy.dev[a].p_sock_path);
		if (fd < 0 || connect(fd, (struct sockaddr *) &sa, sizeof sa) != 0) { fprintf(stderr, "harness: connect: %s\n", strerror(errno)); exit(3); }
		fcntl(fd, F_SETFL, O_NONBLOCK);
		memset(&hc[nhc], 0, sizeof hc[0]); hc[nhc].used = 1; hc[nhc].fd = fd; hc[nhc].dev = (int) a;
		pend[a][npend[a]++] = nhc;
		printf("ok c%d\n", nhc); nhc++; return 0;
	}
	if (H_IS(0, "send")) {
		int n; uint8_t *buf; ssize_t w;
		if (h_ntok != 3 || !get_handle(1, &c)) { printf("rej parse\n"); return 0; }
		buf = h_hex(h_tok[2], &n);
		if (!buf || n > 8192) { free(buf); printf("rej parse\n"); return 0; }
		if (!c || c->fd < 0) { free(buf); printf("rej noclient\n"); return 0; }
		w = n ? send(c->fd, buf, (size_t) n, MSG_NOSIGNAL | MSG_DONTWAIT) : 0;
		free(buf);
		if (w < 0) printf("ok lost\n");		/* daemon already closed: bytes go nowhere */
		else if (w != n) { fprintf(stderr, "harness: short send\n"); exit(3); }
		else printf("ok %d\n", n);
		return 0;
	}
	if (H_IS(0, "shut")) {
		if (h_ntok != 2 || !get_handle(1, &c)) { printf("rej parse\n"); return 0; }
		if (!c || c->fd < 0) { printf("rej noclient\n"); return 0; }
		drain(c); close(c->fd); c->fd = -1; printf("ok\n"); return 0;
	}
	if (H_IS(0, "shutrd")) {
		/* the client stops reading: every later send() of the daemon on this connection fails with EPIPE, but the daemon
		   sees no end-of-file (the client's sending direction stays open) */
		if (h_ntok != 2 || !get_handle(1, &c)) { printf("rej parse\n"); return 0; }
		if (!c || c->fd < 0 || c->rdshut) { printf("rej noclient\n"); return 0; }
		drain(c); shutdown(c->fd, SHUT_RD); c->rdshut = 1; printf("ok\n"); return 0;
	}
	if (H_IS(0, "recv")) {
		if (h_ntok != 2 || !get_handle(1, &c)) { printf("rej parse\n"); return 0; }
		if (!c) { printf("rej noclient\n"); return 0; }
		drain(c); print_recv(c); return 0;
	}
	if (H_IS(0, "frame")) {
		fk_device *dv; fk_frame f; char *s, *save;
		if (h_ntok != 3 || !h_int(h_tok[1], &a) || a < 0 || a >= FK_NDEV) { printf("rej parse\n"); return 0; }
		dv = &fk_dev[a]; memset(&f, 0, sizeof f);
		if (0 != strcmp(h_tok[2], "-"))
			for (s = strtok_r(h_tok[2], ",", &save); s; s = strtok_r(NULL, ",", &save)) {
				if (f.n >= FK_MAXLINES || !h_int(s, &b) || b < 0 || b > 0xffffffffLL) { printf("rej parse\n"); return 0; }
				f.id[f.n++] = (unsigned) b;
			}
		if (dv->qn >= FK_MAXFRAMES) { printf("rej full\n"); return 0; }
		f.seq = ++frame_seq; dv->q[dv->qn++] = f; fk_fd_sync(dv);
		printf("ok %u\n", f.seq); return 0;
	}
	printf("rej op\n"); return 0;
}

/* like h_next() of hutil.h, but the `case n` line is echoed by main() AFTER the previous case has been torn down, so that a
   crash inside vbi_proxyd_destroy() is attributed to the case that ends, not to the one that begins */
static char case_echo[256];
static int next_line(void)
{
	for (;;) {
		char *s, *save;
		if (!fgets(h_line, sizeof h_line, stdin)) { fflush(stdout); return 0; }
		h_ntok = 0;
		for (s = strtok_r(h_line, " \t\r\n", &save); s && h_ntok < H_MAXTOK; s = strtok_r(NULL, " \t\r\n", &save))
			h_tok[h_ntok++] = s;
		if (h_ntok == 0 || h_tok[0][0] == '#') continue;
		if (0 == strcmp(h_tok[0], "case")) {
			int i; size_t n = 0;
			case_echo[0] = 0;
			for (i = 0; i < h_ntok && n + strlen(h_tok[i]) + 2 < sizeof case_echo; ++i)
				n += (size_t) snprintf(case_echo + n, sizeof case_echo - n, "%s%s", i ? " " : "", h_tok[i]);
			return 2;
		}
		return 1;
	}
}

static int verif_select(int n, fd_set *rd, fd_set *wr, fd_set *ex, struct timeval *tmo)
{
	struct timeval zero = { 0, 0 };
	(void) tmo;
	if (iter_pending) { iter_pending = 0; sync_clients(); print_state(); }
	for (;;) {
		int r = next_line();
		if (r == 0) { at_eof = 1; break; }
		if (r == 2) { pending_case = 1; break; }
		if (do_op()) { iter_pending = 1; return select(n, rd, wr, ex, &zero); }
	}
	proxy.should_exit = TRUE; errno = EINTR; return -1;
}

static void start_case(void)
{
	int d;
	memset(&proxy, 0, sizeof proxy); proxy.tcp_ip_fd = -1; pthread_mutex_init(&proxy.clnt_mutex, NULL);
	fake_now = 1000000; alarm_at = -1; last_alarm_arg = -1; frame_seq = 0;
	memset(hc, 0, sizeof hc); nhc = 0; memset(npend, 0, sizeof npend); iter_pending = 0;
	snprintf(tmpdir, sizeof tmpdir, "/tmp/zvbi_c19_XXXXXX");
	if (!mkdtemp(tmpdir)) { perror("mkdtemp"); exit(3); }
	for (d = 0; d < FK_NDEV; ++d) {
		static const char *names[FK_NDEV] = { "/nonexistent/vbi-verif0", "/nonexistent/vbi-verif1" };
		char path[128];
		memset(&fk_dev[d], 0, sizeof fk_dev[d]);
		fk_dev[d].name = names[d]; fk_dev[d].sup = 0xffffffffu; fk_dev[d].api = 2; fk_dev[d].scan = 625; fk_dev[d].getscan = 625;
		fk_dev[d].efd = eventfd(0, EFD_NONBLOCK);
		vbi_proxyd_add_device(names[d]);
		free(proxy.dev[d].p_sock_path);
		snprintf(path, sizeof path, "%s/s%d", tmpdir, d);
		proxy.dev[d].p_sock_path = strdup(path);
	}
	vbi_proxyd_set_max_conn(opt_max_clients);
	if (!vbi_proxyd_listen()) { fprintf(stderr, "harness: listen failed\n"); exit(3); }
	case_active = 1;
}

static void end_case(void)
{
	int i, d;
	vbi_proxyd_destroy();
	pthread_mutex_destroy(&proxy.clnt_mutex);
	for (i = 0; i < nhc; ++i) { if (hc[i].fd >= 0) close(hc[i].fd); free(hc[i].log); }
	for (d = 0; d < FK_NDEV; ++d) close(fk_dev[d].efd);
	rmdir(tmpdir);
	case_active = 0;
}

int main(void)
{
	signal(SIGPIPE, SIG_IGN);
	if (getenv("PROXY_HARNESS_DEBUG")) opt_debug_level = (unsigned) atoi(getenv("PROXY_HARNESS_DEBUG"));	/* stderr only */
	setvbuf(stdout, NULL, _IOFBF, 1 << 16);
	for (;;) {
		pending_case = 0;
		start_case();
		vbi_proxyd_main_loop();
		if (iter_pending) { iter_pending = 0; sync_clients(); print_state(); }
		end_case();
		if (pending_case) printf("%s\n", case_echo);
		fflush(stdout);
		if (at_eof || !pending_case) break;
	}
	return 0;
}
