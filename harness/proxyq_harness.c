/* C18 harness (component `proxyq`): the REAL proxy daemon (daemon/proxyd.c, unmodified, its own main loop)
 * run single-threaded and deterministically without hardware.
 *
 *  - proxyd.c is #included, so its static functions and `proxy` are visible; its `main` is renamed and not
 *    used (it parses argv and exit()s); the harness does what main does and calls the daemon's real
 *    vbi_proxyd_main_loop().
 *  - every select() of that loop lands in verif_select(): there the harness reads op lines from stdin and
 *    plays the clients over the daemon's real unix-domain listening socket (in a mkdtemp directory),
 *    until an `iter` op lets the daemon run exactly one iteration of its loop.
 *  - the capture device is a fake `vbi_capture` (vbi_capture_v4l2_new/vbi_capture_v4l_new are defined here;
 *    the sanitizer library is built without io-v4l*.c): scripted frames, scripted supported-service masks
 *    per strictness level, every open/close/update_services/read call logged.
 *  - flow control of the client sockets is virtual: send() and accept() are defined here (a definition in
 *    the executable takes precedence over libc's and over the sanitizer's interceptor). A client socket
 *    accepts `credit` more bytes (op `credit`); beyond that send() fails with EAGAIN and select() does not
 *    report the socket writable. The bytes are really written to the socket and read back at once from the
 *    client's end, so kernel buffer sizes never matter.
 *  - time(), alarm() are defined here: no wall clock, no signals.
 *
 * ops (one output line each):
 *   consts                                   constants of the compiled daemon (cross-check of gen_proxyq.py)
 *   dev <scanning> <L> <m-1> <m0> <m1> <m2>  fake device: norm, lines per granted service, supported masks
 *   conn <services> <strict> <bufcnt>        new client: connect + CONNECT_REQ            -> ok c<k>
 *   svc <k> <services> <strict> <reset>      SERVICE_REQ
 *   bye <k>                                  CLOSE_REQ
 *   close <k>                                client closes its socket
 *   credit <k> <bytes>                       client k's socket accepts that many more bytes
 *   cap <ts_us> [<id>:<line>:<seed>]...      the device has captured one more frame (it returns at most
 *                                            count[0]+count[1]-1 of the lines: what the daemon asserts)
 *   capfull <ts_us> [<id>:<line>:<seed>]...  same, the device returns up to count[0]+count[1] lines (its contract)
 *   relall                                   vbi_proxy_queue_release_all(0) (what a channel flush does)
 *   iter                                     one iteration of the daemon's main loop; prints the audit line
 *   term                                     SIGTERM: should_exit, main loop ends, vbi_proxyd_destroy()
 */
#define _GNU_SOURCE
#include <sys/types.h>
#include <sys/socket.h>
#include <sys/select.h>
#include <sys/un.h>
#include <sys/eventfd.h>
#include <stddef.h>
#include <stdarg.h>

static int verif_select(int n, fd_set *rd, fd_set *wr, fd_set *ex, struct timeval *to);

#define main zvbid_main
#define select verif_select
#include "daemon/proxyd.c"
#undef select
#undef main

#include "hutil.h"

/* ------------------------------------------------------------------ deterministic libc replacements */
time_t time(time_t *t) { if (t) *t = 1000000; return 1000000; }
unsigned int alarm(unsigned int s) { (void) s; return 0; }

/* vbi_proxy_msg_listen_socket() never frees the address it gets from vbi_proxy_msg_get_local_socket_addr()
 * (about 110 bytes per daemon start; noted in NOTES/C18.md, not part of C18): keep LeakSanitizer on for the rest */
const char *__lsan_default_suppressions(void) { return "leak:vbi_proxy_msg_get_local_socket_addr\n"; }

/* ------------------------------------------------------------------ clients */
#define MAXC 64
#define MAXPENDING 4
typedef struct {
	int used;
	int fd;            /* client's end, -1 when the client closed it */
	int dfd;           /* daemon's end (as returned by accept), -1 unknown */
	int self_closed;
	int eof_seen;
	long long credit;
	uint8_t *rx; size_t rxlen, rxcap;
} HCLNT;
static HCLNT hc[MAXC];
static int n_clients;          /* connect ops so far */
static int n_accepted;         /* accept() calls so far */
static char msgs[1 << 20];     /* messages completed during the current iteration */
static size_t msgs_len;

static void msgs_add(const char *fmt, ...)
{
	va_list ap;
	va_start(ap, fmt);
	if (msgs_len < sizeof msgs - 4096)
		msgs_len += vsnprintf(msgs + msgs_len, sizeof msgs - msgs_len, fmt, ap);
	va_end(ap);
}

static HCLNT *by_dfd(int dfd)
{
	int i;
	for (i = n_clients - 1; i >= 0; --i)
		if (hc[i].used && hc[i].dfd == dfd) return &hc[i];
	return NULL;
}

int accept(int fd, struct sockaddr *addr, socklen_t *len)
{
	int r = accept4(fd, addr, len, 0);
	if (r >= 0) {
		int i;
		for (i = 0; i < n_clients; ++i)          /* a recycled descriptor number belongs to the new client */
			if (hc[i].dfd == r) hc[i].dfd = -1;
		if (n_accepted < n_clients) hc[n_accepted].dfd = r;
		n_accepted++;
	}
	return r;
}

static void parse_rx(int k);

static void drain(int k)
{
	HCLNT *c = &hc[k];
	if (c->fd < 0) return;
	for (;;) {
		ssize_t r;
		if (c->rxcap - c->rxlen < 65536) {
			c->rxcap = c->rxcap ? c->rxcap * 2 : 131072;
			c->rx = (uint8_t *) realloc(c->rx, c->rxcap);
		}
		r = recv(c->fd, c->rx + c->rxlen, c->rxcap - c->rxlen, MSG_DONTWAIT);
		if (r > 0) { c->rxlen += (size_t) r; continue; }
		/* the daemon closed its end (ECONNRESET if it had not read everything the client wrote) */
		if ((r == 0 || (r < 0 && errno != EAGAIN && errno != EWOULDBLOCK && errno != EINTR)) && !c->eof_seen) {
			c->eof_seen = 1; parse_rx(k); msgs_add(" c%d:eof", k);
		}
		break;
	}
	parse_rx(k);
}

ssize_t send(int fd, const void *buf, size_t n, int flags)
{
	HCLNT *c = by_dfd(fd);
	ssize_t r;
	if (!c) return sendto(fd, buf, n, flags | MSG_NOSIGNAL, NULL, 0);
	if (c->self_closed) { errno = EPIPE; return -1; }
	if (c->credit <= 0) { errno = EAGAIN; return -1; }
	if ((long long) n > c->credit) n = (size_t) c->credit;
	r = sendto(fd, buf, n, flags | MSG_NOSIGNAL, NULL, 0);
	if (r > 0) { c->credit -= r; drain((int)(c - hc)); }
	return r;
}

/* ------------------------------------------------------------------ fake capture device */
typedef struct { unsigned id; unsigned line; unsigned seed; } FLINE;
typedef struct { long long ts; int n; FLINE *l; int seq; int full; } FFRAME;
#define MAXF 4096
static FFRAME fq[MAXF]; static int fq_head, fq_tail;
static int next_seq;
static struct { unsigned scanning, L, supp[4]; } cfg;
typedef struct { vbi_capture cap; vbi_raw_decoder dec; unsigned active; int efd; } FAKE;
static FAKE *fake;                 /* the open device or NULL */
static char devlog[1 << 16]; static size_t devlog_len;
static struct { void *p; int seq; } bufseq[1024]; static int n_bufseq;

static void devlog_add(const char *fmt, ...)
{
	va_list ap;
	va_start(ap, fmt);
	if (devlog_len < sizeof devlog - 256)
		devlog_len += vsnprintf(devlog + devlog_len, sizeof devlog - devlog_len, fmt, ap);
	va_end(ap);
}

static int hpop(unsigned v) { int n = 0; for (; v; v &= v - 1) n++; return n; }

static void fake_counts(FAKE *f)
{
	f->dec.scanning = (int) cfg.scanning;
	f->dec.count[0] = (int) cfg.L * hpop(f->active);
	f->dec.count[1] = hpop(f->active);
	f->dec.start[0] = 6; f->dec.start[1] = 318;
}

static void fake_signal(FAKE *f)
{
	uint64_t v;
	if (fq_head != fq_tail) { v = 1; if (write(f->efd, &v, 8) < 0) {} }
	else { if (read(f->efd, &v, 8) < 0) {} }
}

static int fake_read(vbi_capture *cap, vbi_capture_buffer **raw, vbi_capture_buffer **sliced, const struct timeval *to)
{
	FAKE *f = (FAKE *) cap; FFRAME *fr; int n, i, max;
	(void) raw; (void) to;
	if (fq_head == fq_tail) return 0;
	fr = &fq[fq_head++];
	max = f->dec.count[0] + f->dec.count[1];
	/* a device never returns more than count[0]+count[1] lines (`capfull`); the daemon asserts that it returns
	   fewer: frames scripted with `cap` keep to that */
	if (!fr->full && max > 0) max--;
	n = fr->n < max ? fr->n : max;
	if (sliced && *sliced && (*sliced)->data) {
		vbi_sliced *s = (vbi_sliced *) (*sliced)->data;
		void *qb = (char *) s - offsetof(PROXY_QUEUE, lines);
		for (i = 0; i < n; ++i) {
			int j;
			s[i].id = fr->l[i].id; s[i].line = fr->l[i].line;
			for (j = 0; j < (int) sizeof s[i].data; ++j) s[i].data[j] = (uint8_t)(fr->l[i].seed + j);
		}
		(*sliced)->size = n * (int) sizeof(vbi_sliced);
		(*sliced)->timestamp = (double) fr->ts / 1e6;
		for (i = 0; i < n_bufseq; ++i) if (bufseq[i].p == qb) break;
		if (i == n_bufseq && n_bufseq < 1024) n_bufseq++;
		if (i < 1024) { bufseq[i].p = qb; bufseq[i].seq = fr->seq; }
	}
	devlog_add(" read:%d", fr->seq);
	free(fr->l); fr->l = NULL;
	{ uint64_t v; if (read(f->efd, &v, 8) < 0) {} }
	fake_signal(f);
	return 1;
}
static vbi_raw_decoder *fake_parameters(vbi_capture *cap) { return &((FAKE *) cap)->dec; }
static unsigned int fake_update(vbi_capture *cap, vbi_bool reset, vbi_bool commit, unsigned int services, int strict, char **err)
{
	FAKE *f = (FAKE *) cap; unsigned g;
	(void) err;
	if (strict < -1) strict = -1;
	if (strict > 2) strict = 2;
	if (reset) f->active = 0;
	g = services & cfg.supp[strict + 1];
	f->active |= g;
	fake_counts(f);
	devlog_add(" upd:%d%d:%x:%d:%x", reset ? 1 : 0, commit ? 1 : 0, services, strict, g);
	return g;
}
static int fake_scanning(vbi_capture *cap) { (void) cap; return (int) cfg.scanning; }
static void fake_flush(vbi_capture *cap) { (void) cap; devlog_add(" flush"); }
static int fake_fd(vbi_capture *cap) { return ((FAKE *) cap)->efd; }
static VBI_CAPTURE_FD_FLAGS fake_fd_flags(vbi_capture *cap) { (void) cap; return VBI_FD_HAS_SELECT; }
static vbi_bool fake_path(vbi_capture *cap, const char *p) { (void) cap; (void) p; return FALSE; }
static void fake_delete(vbi_capture *cap)
{
	FAKE *f = (FAKE *) cap;
	devlog_add(" close");
	close(f->efd);
	if (fake == f) fake = NULL;
	free(f);
}

vbi_capture *vbi_capture_v4l2_new(const char *dev_name, int buffers, unsigned int *services, int strict, char **errorstr, vbi_bool trace)
{
	FAKE *f = (FAKE *) calloc(1, sizeof *f);
	(void) dev_name; (void) buffers; (void) services; (void) strict; (void) errorstr; (void) trace;
	f->cap.read = fake_read; f->cap.parameters = fake_parameters; f->cap.update_services = fake_update;
	f->cap.get_scanning = fake_scanning; f->cap.flush = fake_flush; f->cap.get_fd = fake_fd;
	f->cap.get_fd_flags = fake_fd_flags; f->cap.set_video_path = fake_path; f->cap._delete = fake_delete;
	f->efd = eventfd(0, EFD_NONBLOCK);
	fake_counts(f);
	fake = f;
	fake_signal(f);
	devlog_add(" open");
	return &f->cap;
}
vbi_capture *vbi_capture_v4l_new(const char *dev_name, int scanning, unsigned int *services, int strict, char **errorstr, vbi_bool trace)
{
	(void) dev_name; (void) scanning; (void) services; (void) strict; (void) errorstr; (void) trace;
	return NULL;
}

/* ------------------------------------------------------------------ client side of the protocol */
static void put_msg(int k, int type, const void *body, size_t blen)
{
	VBIPROXY_MSG_HEADER h;
	uint8_t *b = (uint8_t *) malloc(sizeof h + blen);
	h.len = htonl((uint32_t)(sizeof h + blen)); h.type = htonl((uint32_t) type);
	memcpy(b, &h, sizeof h);
	if (blen) memcpy(b + sizeof h, body, blen);
	if (sendto(hc[k].fd, b, sizeof h + blen, MSG_NOSIGNAL, NULL, 0) < 0) {}
	free(b);
}

static void parse_rx(int k)
{
	HCLNT *c = &hc[k];
	size_t off = 0;
	while (c->rxlen - off >= sizeof(VBIPROXY_MSG_HEADER)) {
		VBIPROXY_MSG_HEADER h; uint32_t len, type; const uint8_t *body;
		memcpy(&h, c->rx + off, sizeof h);
		len = ntohl(h.len); type = ntohl(h.type);
		if (len < sizeof h) { msgs_add(" c%d:badlen", k); off = c->rxlen; break; }
		if (c->rxlen - off < len) break;
		body = c->rx + off + sizeof h;
		switch (type) {
		case MSG_TYPE_CONNECT_CNF: {
			VBIPROXY_CONNECT_CNF m;
			if (len != sizeof h + sizeof m) { msgs_add(" c%d:badsize%u", k, type); break; }
			memcpy(&m, body, sizeof m);
			msgs_add(" c%d:cnf:%x:%d", k, m.services, m.dec.count[0] + m.dec.count[1]);
			break; }
		case MSG_TYPE_CONNECT_REJ: msgs_add(" c%d:rej", k); break;
		case MSG_TYPE_SERVICE_CNF: {
			VBIPROXY_SERVICE_CNF m;
			if (len != sizeof h + sizeof m) { msgs_add(" c%d:badsize%u", k, type); break; }
			memcpy(&m, body, sizeof m);
			/* with the device closed SERVICE_CNF.dec is not initialised by the daemon (it clears connect_cnf.dec,
			   which lies elsewhere in the union): the line counts are only meaningful when services are granted */
			if (m.services == 0) msgs_add(" c%d:scnf:0:-", k);
			else msgs_add(" c%d:scnf:%x:%d", k, m.services, m.dec.count[0] + m.dec.count[1]);
			break; }
		case MSG_TYPE_SERVICE_REJ: msgs_add(" c%d:srej", k); break;
		case MSG_TYPE_CHN_CHANGE_IND: {
			VBIPROXY_CHN_CHANGE_IND m;
			if (len != sizeof h + sizeof m) { msgs_add(" c%d:badsize%u", k, type); break; }
			memcpy(&m, body, sizeof m);
			msgs_add(" c%d:chg:%d:%u", k, (int) m.notify_flags, m.scanning);
			break; }
		case MSG_TYPE_SLICED_IND: {
			double ts; uint32_t nl, nr, i;
			if (len < sizeof h + VBIPROXY_SLICED_IND_SIZE(0, 0)) { msgs_add(" c%d:badsize%u", k, type); break; }
			memcpy(&ts, body, 8); memcpy(&nl, body + 8, 4); memcpy(&nr, body + 12, 4);
			if (nr != 0 || len != sizeof h + VBIPROXY_SLICED_IND_SIZE(nl, 0)) { msgs_add(" c%d:badsl", k); break; }
			msgs_add(" c%d:sl:%lld:%u:", k, (long long)(ts * 1e6 + 0.5), nl);
			if (nl == 0) msgs_add("-");
			for (i = 0; i < nl; ++i) {
				vbi_sliced s; int j, ok = 1;
				memcpy(&s, body + 16 + i * sizeof s, sizeof s);
				for (j = 0; j < (int) sizeof s.data; ++j) if (s.data[j] != (uint8_t)(s.data[0] + j)) ok = 0;
				if (ok) msgs_add("%s%x.%u.%u", i ? "," : "", s.id, s.line, (unsigned) s.data[0]);
				else msgs_add("%s%x.%u.bad", i ? "," : "", s.id, s.line);
			}
			break; }
		default: msgs_add(" c%d:msg%u", k, type); break;
		}
		off += len;
	}
	if (off) { memmove(c->rx, c->rx + off, c->rxlen - off); c->rxlen -= off; }
}

/* ------------------------------------------------------------------ audit line */
static int seq_of(PROXY_QUEUE *q)
{
	int i;
	for (i = 0; i < n_bufseq; ++i) if (bufseq[i].p == (void *) q) return bufseq[i].seq;
	return -1;
}

static void print_audit(void)
{
	PROXY_DEV *d = &proxy.dev[0];
	PROXY_QUEUE *q; PROXY_CLNT *r; int nfree = 0, guard, s;
	int k;
	for (k = 0; k < n_clients; ++k) drain(k);
	printf("ok D[%s ] Q[", devlog);
	for (q = d->p_sliced, guard = 0; q && guard < 2000; q = q->p_next, guard++) printf(" %d:%u", seq_of(q), q->ref_count);
	for (q = d->p_free, guard = 0; q && guard < 2000; q = q->p_next, guard++) nfree++;
	printf(" ] F%d dev=%d:%x:%d", nfree, d->p_capture ? 1 : 0, d->all_services, d->max_lines);
	for (r = proxy.p_clnts; r; r = r->p_next) {
		HCLNT *c = by_dfd(r->io.sock_fd);
		printf(" | c%d st=%d cur=", c ? (int)(c - hc) : -1, (int) r->state);
		if (r->p_sliced) {
			/* a cursor that is not in the queue (dangling: its buffer was recycled or freed) prints as `?`, like the model */
			PROXY_QUEUE *w; int in_q = 0, g2;
			for (w = d->p_sliced, g2 = 0; w && g2 < 2000; w = w->p_next, g2++) if (w == r->p_sliced) in_q = 1;
			if (in_q) printf("%d", seq_of(r->p_sliced)); else printf("?");
		} else printf("-");
		printf(" as=%x sv=", r->all_services);
		for (s = 0; s < VBI_MAX_STRICT - VBI_MIN_STRICT + 1; ++s) printf("%s%x", s ? "," : "", r->services[s]);
		printf(" ov=%d ml=%d wl=%u", r->buffer_overflow ? 1 : 0, r->vbi_count[0] + r->vbi_count[1],
		       (unsigned)(r->io.writeLen ? r->io.writeLen - r->io.writeOff : 0));
	}
	printf(" ||%s\n", msgs_len ? msgs : " -");
	fflush(stdout);
	devlog_len = 0; devlog[0] = 0; msgs_len = 0; msgs[0] = 0;
}

/* ------------------------------------------------------------------ the op interpreter inside select() */
static int iter_pending, cleanup, cleanup_iters, case_over, at_eof, next_case, dead;
static char sockdir[64];

static int p_u32(const char *s, unsigned *out)
{
	long long v;
	if (s[0] == '-' || !h_int(s, &v) || v < 0 || v > 0xFFFFFFFFLL) return 0;
	*out = (unsigned) v;
	return 1;
}
static int p_svc(const char *s, unsigned *out)
{
	if (!p_u32(s, out)) return 0;
	return (*out & (VBI_SLICED_VBI_625 | VBI_SLICED_VBI_525)) == 0;
}
static int p_strict(const char *s, int *out)
{
	long long v;
	if (!h_int(s, &v) || v < VBI_MIN_STRICT || v > VBI_MAX_STRICT) return 0;
	*out = (int) v;
	return 1;
}
static int p_client(const char *s, int *out)
{
	unsigned v;
	if (!p_u32(s, &v) || v >= (unsigned) n_clients) return 0;
	*out = (int) v;
	return 1;
}

static void say(const char *s) { printf("%s\n", s); fflush(stdout); }

static void client_close(int k)
{
	if (hc[k].fd >= 0) { drain(k); close(hc[k].fd); hc[k].fd = -1; }
	hc[k].self_closed = 1;
}

static void do_consts(void)
{
	printf("ok srvQueueBufferCount=%d vbiMaxBufferCount=%d defaultBufferCount=%d defaultMaxClients=%d nStrict=%d "
	       "minStrictNeg=%d maxStrict=%d bufferCountMod=%d rawServices=%u slicedSize=%d hdrSize=%d slicedIndBase=%d "
	       "connectCnfSize=%d connectRejSize=%d serviceCnfSize=%d serviceRejSize=%d chnChangeIndSize=%d chnNorm=%d "
	       "chnFlush=%d st=%d,%d,%d,%d\n",
	       SRV_QUEUE_BUFFER_COUNT, VBI_MAX_BUFFER_COUNT, DEFAULT_BUFFER_COUNT, DEFAULT_MAX_CLIENTS,
	       (int)(sizeof(((PROXY_CLNT *)0)->services) / sizeof(unsigned int)), -(VBI_MIN_STRICT), VBI_MAX_STRICT,
	       1 << (8 * (int) sizeof(((VBIPROXY_CONNECT_REQ *)0)->buffer_count)),
	       (unsigned)(VBI_SLICED_VBI_625 | VBI_SLICED_VBI_525), (int) sizeof(vbi_sliced),
	       (int) sizeof(VBIPROXY_MSG_HEADER), (int) VBIPROXY_SLICED_IND_SIZE(0, 0), (int) sizeof(VBIPROXY_CONNECT_CNF),
	       (int) sizeof(VBIPROXY_CONNECT_REJ), (int) sizeof(VBIPROXY_SERVICE_CNF), (int) sizeof(VBIPROXY_SERVICE_REJ),
	       (int) sizeof(VBIPROXY_CHN_CHANGE_IND), (int) VBI_PROXY_CHN_NORM, (int) VBI_PROXY_CHN_FLUSH,
	       (int) REQ_STATE_WAIT_CON_REQ, (int) REQ_STATE_WAIT_CLOSE, (int) REQ_STATE_FORWARD, (int) REQ_STATE_CLOSED);
	fflush(stdout);
}

/* returns 1 when the daemon shall run one iteration */
static int do_op(void)
{
	if (dead) { say(H_IS(0, "consts") || H_IS(0, "dev") || H_IS(0, "conn") || H_IS(0, "svc") || H_IS(0, "bye") ||
	                H_IS(0, "close") || H_IS(0, "credit") || H_IS(0, "cap") || H_IS(0, "capfull") || H_IS(0, "relall") || H_IS(0, "iter") ||
	                H_IS(0, "term") ? "rej dead" : "rej op"); return 0; }
	if (H_IS(0, "consts")) { if (h_ntok != 1) say("rej parse"); else do_consts(); return 0; }
	if (H_IS(0, "dev")) {
		unsigned v[6]; int i, ok = (h_ntok == 7);
		for (i = 0; ok && i < 6; ++i) ok = (i < 2) ? p_u32(h_tok[1 + i], &v[i]) : p_svc(h_tok[1 + i], &v[i]);
		if (ok && (v[1] < 1 || v[1] > 8 || v[0] > 1000)) ok = 0;
		if (!ok) { say("rej parse"); return 0; }
		cfg.scanning = v[0]; cfg.L = v[1];
		for (i = 0; i < 4; ++i) cfg.supp[i] = v[2 + i];
		say("ok"); return 0;
	}
	if (H_IS(0, "conn")) {
		unsigned sv, bc; int st; struct sockaddr_un sa; VBIPROXY_CONNECT_REQ m; int k;
		if (h_ntok != 4 || !p_svc(h_tok[1], &sv) || !p_strict(h_tok[2], &st) || !p_u32(h_tok[3], &bc) || bc > 255) { say("rej parse"); return 0; }
		if (n_clients >= MAXC) { say("rej full"); return 0; }
		/* connect() blocks once the listen backlog is full: keep well below it, independent of the kernel */
		if (n_clients - n_accepted >= MAXPENDING) { say("rej backlog"); return 0; }
		k = n_clients;
		memset(&hc[k], 0, sizeof hc[k]);
		hc[k].fd = socket(AF_UNIX, SOCK_STREAM, 0);
		memset(&sa, 0, sizeof sa); sa.sun_family = AF_UNIX;
		memcpy(sa.sun_path, proxy.dev[0].p_sock_path, strlen(proxy.dev[0].p_sock_path) + 1);
		if (hc[k].fd < 0 || connect(hc[k].fd, (struct sockaddr *) &sa, sizeof sa) != 0) { say("rej connect"); if (hc[k].fd >= 0) close(hc[k].fd); return 0; }
		hc[k].used = 1; hc[k].dfd = -1;
		n_clients++;
		memset(&m, 0, sizeof m);
		vbi_proxy_msg_fill_magics(&m.magics);
		memcpy(m.client_name, "verif", 6);
		m.buffer_count = (uint8_t) bc; m.services = sv; m.strict = (int8_t) st;
		put_msg(k, MSG_TYPE_CONNECT_REQ, &m, sizeof m);
		printf("ok c%d\n", k); fflush(stdout); return 0;
	}
	if (H_IS(0, "svc")) {
		unsigned sv, rs; int st, k; VBIPROXY_SERVICE_REQ m;
		if (h_ntok != 5 || !p_client(h_tok[1], &k) || !p_svc(h_tok[2], &sv) || !p_strict(h_tok[3], &st) || !p_u32(h_tok[4], &rs) || rs > 1) { say("rej parse"); return 0; }
		if (hc[k].self_closed) { say("rej closed"); return 0; }
		memset(&m, 0, sizeof m);
		m.reset = (uint8_t) rs; m.commit = 1; m.strict = (int8_t) st; m.services = sv;
		put_msg(k, MSG_TYPE_SERVICE_REQ, &m, sizeof m);
		say("ok"); return 0;
	}
	if (H_IS(0, "bye") || H_IS(0, "close")) {
		int k;
		if (h_ntok != 2 || !p_client(h_tok[1], &k)) { say("rej parse"); return 0; }
		if (hc[k].self_closed) { say("rej closed"); return 0; }
		if (H_IS(0, "bye")) put_msg(k, MSG_TYPE_CLOSE_REQ, NULL, 0); else client_close(k);
		say("ok"); return 0;
	}
	if (H_IS(0, "credit")) {
		unsigned n; int k;
		if (h_ntok != 3 || !p_client(h_tok[1], &k) || !p_u32(h_tok[2], &n) || n > 100000000u) { say("rej parse"); return 0; }
		hc[k].credit += n;
		if (hc[k].credit > 1000000000LL) hc[k].credit = 1000000000LL;
		say("ok"); return 0;
	}
	if (H_IS(0, "cap") || H_IS(0, "capfull")) {
		long long ts; int i, n = h_ntok - 2; FLINE *l;
		if (h_ntok < 2 || !h_int(h_tok[1], &ts) || ts < 0 || ts > 1000000000000LL || n > 64) { say("rej parse"); return 0; }
		l = (FLINE *) malloc(sizeof(FLINE) * (n ? n : 1));
		for (i = 0; i < n; ++i) {
			char *a = h_tok[2 + i], *b = strchr(a, ':'), *c2 = b ? strchr(b + 1, ':') : NULL;
			unsigned line, seed;
			if (!b || !c2) break;
			*b = 0; *c2 = 0;
			if (!p_svc(a, &l[i].id) || !p_u32(b + 1, &line) || !p_u32(c2 + 1, &seed) || line > 1000 || seed > 255) break;
			l[i].line = line; l[i].seed = seed;
		}
		if (i < n) { free(l); say("rej parse"); return 0; }
		if (fq_tail >= MAXF) { free(l); say("rej full"); return 0; }
		fq[fq_tail].ts = ts; fq[fq_tail].n = n; fq[fq_tail].l = l; fq[fq_tail].seq = next_seq++;
		fq[fq_tail].full = H_IS(0, "capfull");
		fq_tail++;
		if (fake) fake_signal(fake);
		say("ok"); return 0;
	}
	if (H_IS(0, "relall")) {
		if (h_ntok != 1) { say("rej parse"); return 0; }
		vbi_proxy_queue_release_all(0);
		say("ok"); return 0;
	}
	if (H_IS(0, "iter")) {
		if (h_ntok != 1) { say("rej parse"); return 0; }
		return 1;
	}
	if (H_IS(0, "term")) {
		if (h_ntok != 1) { say("rej parse"); return 0; }
		return 2;
	}
	say("rej op");
	return 0;
}

static int real_select(int n, fd_set *rd, fd_set *wr)
{
	struct timeval z; PROXY_CLNT *r; int cnt, fd;
	z.tv_sec = 0; z.tv_usec = 0;
	cnt = select(n, rd, wr, NULL, &z);
	if (cnt < 0) return cnt;
	/* virtual flow control: a client socket is writable iff it has credit (or its peer is gone) */
	for (r = proxy.p_clnts; r; r = r->p_next) {
		HCLNT *c = by_dfd(r->io.sock_fd);
		if (c && r->io.sock_fd >= 0 && FD_ISSET(r->io.sock_fd, wr) && !(c->self_closed || c->credit > 0))
			FD_CLR(r->io.sock_fd, wr);
	}
	cnt = 0;
	for (fd = 0; fd < n; ++fd) cnt += (FD_ISSET(fd, rd) ? 1 : 0) + (FD_ISSET(fd, wr) ? 1 : 0);
	return cnt;
}

static int verif_select(int n, fd_set *rd, fd_set *wr, fd_set *ex, struct timeval *to)
{
	(void) ex; (void) to;
	if (iter_pending) { iter_pending = 0; print_audit(); }
	if (cleanup) {
		if (proxy.p_clnts == NULL || ++cleanup_iters > 200) { proxy.should_exit = TRUE; errno = EINTR; return -1; }
		return real_select(n, rd, wr);
	}
	for (;;) {
		int r = h_next(), k;
		if (r == 1) {
			int o = do_op();
			if (o == 1) { iter_pending = 1; return real_select(n, rd, wr); }
			if (o == 2) { proxy.should_exit = TRUE; dead = 1; case_over = 2; errno = EINTR; return -1; }
			continue;
		}
		/* end of the case: the clients leave, the daemon runs until its client list is empty, then stops */
		if (r == 0) at_eof = 1; else next_case = 1;
		for (k = 0; k < n_clients; ++k) client_close(k);
		cleanup = 1; cleanup_iters = 0;
		return real_select(n, rd, wr);
	}
}

static void run_case(void)
{
	int k;
	memset(&proxy, 0, sizeof proxy);
	proxy.tcp_ip_fd = -1;
	pthread_mutex_init(&proxy.clnt_mutex, NULL);
	opt_no_detach = TRUE;
	opt_buffer_count = DEFAULT_BUFFER_COUNT;
	n_clients = n_accepted = 0; fq_head = fq_tail = 0; next_seq = 0; n_bufseq = 0;
	devlog_len = 0; devlog[0] = 0; msgs_len = 0; msgs[0] = 0;
	iter_pending = cleanup = cleanup_iters = case_over = next_case = dead = 0;
	cfg.scanning = 625; cfg.L = 2;
	cfg.supp[0] = cfg.supp[1] = cfg.supp[2] = cfg.supp[3] = 0xFFFFFFFFu & ~(VBI_SLICED_VBI_625 | VBI_SLICED_VBI_525);
	fake = NULL;

	vbi_proxyd_add_device("/dev/vbi-verif");
	memcpy(sockdir, "/tmp/proxyq.XXXXXX", 19);
	if (!mkdtemp(sockdir)) { perror("mkdtemp"); exit(3); }
	free(proxy.dev[0].p_sock_path);
	proxy.dev[0].p_sock_path = (char *) malloc(strlen(sockdir) + 8);
	snprintf(proxy.dev[0].p_sock_path, strlen(sockdir) + 8, "%s/s", sockdir);
	vbi_proxy_msg_set_debug_level(0);
	vbi_proxyd_init();
	vbi_proxyd_set_max_conn(opt_max_clients);
	vbi_proxyd_set_address(FALSE, NULL, NULL);
	vbi_proxy_msg_set_logging(FALSE, -1, -1, NULL);
	if (vbi_proxyd_listen())
		vbi_proxyd_main_loop();
	else { fprintf(stderr, "proxyq_harness: listen failed\n"); exit(3); }
	if (case_over == 2) {
		/* `term`: the daemon shuts down with whatever state it has */
		vbi_proxyd_destroy();
		say("ok term");
	} else
		vbi_proxyd_destroy();
	pthread_mutex_destroy(&proxy.clnt_mutex);
	rmdir(sockdir);
	for (k = 0; k < n_clients; ++k) { client_close(k); free(hc[k].rx); hc[k].rx = NULL; hc[k].rxlen = hc[k].rxcap = 0; }
	while (fq_head < fq_tail) { free(fq[fq_head].l); fq_head++; }
	/* after `term` the rest of the case is answered without a daemon */
	while (dead && !next_case && !at_eof) {
		int r = h_next();
		if (r == 0) at_eof = 1; else if (r == 2) next_case = 1; else do_op();
	}
}

int main(void)
{
	/* ops before the first `case` line are ignored */
	for (;;) {
		int r = h_next();
		if (r == 0) return 0;
		if (r == 2) break;
		say("rej nocase");
	}
	while (!at_eof) run_case();
	return 0;
}
