/* Harness for component `search` (C17): vbi_search_new / vbi_search_next over a decoder whose page cache is
   populated through vbi_decode (Teletext packets), built with ASan+UBSan.  search.c is #included so that the
   private search context (start/stop page, row/col cursors, direction) can be printed after every call; cache.c
   and ure.c come from the library.  Every vbi_search_next runs under a 5 s watchdog (SIGALRM -> diagnostic + exit).

   ops (numbers: decimal, 0x-hex, optional '-'):
     put <pgno> <subcode> <func> <rowspec> <pk,pk,...>   feed the 42-byte packets (one vbi_decode call, frame clock kept
                                  here); then compare the page now at the head of <pgno>'s hash chain with <func> and
                                  <rowspec> as vbi_format_vt_page(max_level, 25 rows, navigation) shows it -> `ok` |
                                  `ok FMTDIFF ...`.   <pgno> <subcode> are what the packets' header carries.
     fmt <pgno>                   print `ok <subno> <func> <rowspec>` of the page at the head of <pgno>'s chain | `ok none`
     feed <pk,pk,...>             packets only -> ok
     dump                         n_cached_pages and, for every page number with any trace, n_subpages:subno_min:subno_max
                                  and the cached subno/function/FNV-1a-32 of the rowspec, in hash-chain order
     chsw                         vbi_chsw_reset (new empty network)
     search <pgno> <subno> <casefold> <regexp> <ucs2-hex|-> <mode>   vbi_search_new; <mode> is a historical token, ignored
     next <dir>                   vbi_search_next + the whole search context.  After a search with <regexp> != 0 the
                                  answer is `ok unsupported` (ure.c is not modelled: same answer as the model driver)
                                  unless the harness was started with --regex (real code + oracle runs of the check)
                                  or the search was created with <mode> = `ure` (round 5: the model driver then compiles
                                  the pattern with the Lean model of ure.c and runs vbi_search_next's model on it, so the
                                  flags search.c hands to ure_exec are part of the correspondence)
     endsearch
   rowspec: `-` (rows 1..23 all blank = U+0020 normal size) or `<row>:<41 cells>;...`, cell = 4 hex unicode + 1 hex size */
#include "hutil.h"
#include <signal.h>
#include <unistd.h>
#include "src/search.c"
#include "src/cache-priv.h"

static vbi_decoder *dec;
static vbi_search  *srch;
static int          srch_regex;     /* the current search was created with regexp != 0 */
static int          regex_mode;     /* --regex: execute vbi_search_next for such searches too */
static double       clock_s;
static vbi_page    *fpg;

static void on_alarm(int sig)
{
	static const char msg[] = "WATCHDOG: vbi_search_next did not return within 5 s\n";
	(void) sig;
	if (write(2, msg, sizeof msg - 1) < 0) {}
	_exit(95);
}

static unsigned ev_count;
static void handler(vbi_event *ev, void *user) { (void) ev; (void) user; ++ev_count; }

static void kill_all(void)
{
	if (srch) { vbi_search_delete(srch); srch = NULL; }
	if (dec) { vbi_decoder_delete(dec); dec = NULL; }
}

static void fresh(void)
{
	kill_all();
	dec = vbi_decoder_new();
	if (!dec) { fprintf(stderr, "no decoder\n"); exit(3); }
	/* Teletext packets are only decoded while someone listens for page events */
	vbi_event_handler_register(dec, VBI_EVENT_TTX_PAGE, handler, NULL);
	clock_s = 1000.0;
}

#define NUM(i, v) (h_ntok > (i) && h_int(h_tok[i], &(v)))

/* progress callback of every search: returns FALSE at every prog_k-th invocation (op `progress <k>`, 0 = never; with 0 the
   search behaves as with a NULL callback) */
static long long prog_k, prog_n;
static int on_progress(vbi_page *pg)
{
	(void) pg;
	++prog_n;
	return !(prog_k > 0 && prog_n % prog_k == 0);
}

/* "pk,pk,..." -> one vbi_decode call. returns 0 on parse error */
static int feed(const char *spec)
{
	vbi_sliced *sl;
	int n = 0, cap = 128, ok = 1;
	char *copy, *s, *save;
	if (0 == strcmp(spec, "-")) { clock_s += 0.04; vbi_decode(dec, NULL, 0, clock_s); return 1; }
	copy = strdup(spec);
	sl = calloc((size_t) cap, sizeof *sl);
	for (s = strtok_r(copy, ",", &save); s; s = strtok_r(NULL, ",", &save)) {
		int len; uint8_t *p = h_hex(s, &len);
		if (!p || len != 42 || n >= cap) { free(p); ok = 0; break; }
		sl[n].id = VBI_SLICED_TELETEXT_B; sl[n].line = 7 + (n % 16);
		memcpy(sl[n].data, p, 42); free(p); ++n;
	}
	if (ok) {
		vbi_sliced *exact = malloc(n ? (size_t) n * sizeof *exact : 1);
		memcpy(exact, sl, (size_t) n * sizeof *exact);
		clock_s += 0.04;
		vbi_decode(dec, exact, n, clock_s);
		free(exact);
	}
	free(sl); free(copy);
	return ok;
}

/* first page of pgno in hash-chain order (all pages of one pgno share a bucket) */
static cache_page *chain_head(int pgno)
{
	vbi_cache *ca = dec->ca; unsigned i;
	for (i = 0; i < N_ELEMENTS(ca->hash); ++i) {
		cache_page *cp, *cp1;
		FOR_ALL_NODES (cp, cp1, &ca->hash[i], hash_node)
			if (cp->pgno == pgno && cp->network == dec->cn) return cp;
	}
	return NULL;
}

/* rows 1..23 of the page as search.c sees it -> rowspec in buf */
static void rowspec_of(cache_page *cp, char *buf, size_t size)
{
	int i, j; size_t o = 0;
	buf[0] = 0;
	if (cp->function != PAGE_FUNCTION_LOP) { snprintf(buf, size, "-"); return; }
	memset(fpg, 0, sizeof *fpg);
	if (!vbi_format_vt_page(dec, fpg, cp, dec->vt.max_level, 25, 1)) { snprintf(buf, size, "!fmt"); return; }
	for (i = 1; i < 24; ++i) {
		vbi_char *acp = &fpg->text[i * fpg->columns];
		int blank = 1;
		for (j = 0; j < 41; ++j) if (acp[j].unicode != 0x20 || acp[j].size != 0) blank = 0;
		if (blank) continue;
		o += (size_t) snprintf(buf + o, size - o, "%s%d:", o ? ";" : "", i);
		for (j = 0; j < 41; ++j) o += (size_t) snprintf(buf + o, size - o, "%04x%x", acp[j].unicode & 0xFFFF, acp[j].size & 15);
	}
	if (!o) snprintf(buf, size, "-");
}

static unsigned fnv(const char *s)
{
	unsigned h = 2166136261u;
	for (; *s; ++s) { h ^= (unsigned char) *s; h *= 16777619u; }
	return h;
}

static void dump(void)
{
	static char rs[1 << 16];
	cache_network *cn = dec->cn; vbi_cache *ca = dec->ca; int pgno;
	printf("ok n=%u", cn->n_cached_pages);
	for (pgno = 0x100; pgno <= 0x8FF; ++pgno) {
		struct ttx_page_stat *ps = cache_network_page_stat(cn, pgno);
		cache_page *cp, *cp1; int first = 1;
		struct node *hl = &ca->hash[pgno % N_ELEMENTS(ca->hash)];
		int any = ps->n_subpages || ps->subno_min || ps->subno_max;
		if (!any) {
			FOR_ALL_NODES (cp, cp1, hl, hash_node) if (cp->pgno == pgno && cp->network == cn) any = 1;
			if (!any) continue;
		}
		printf(" %x:%u:%x:%x:", pgno, ps->n_subpages, ps->subno_min, ps->subno_max);
		FOR_ALL_NODES (cp, cp1, hl, hash_node)
			if (cp->pgno == pgno && cp->network == cn) {
				rowspec_of(cp, rs, sizeof rs);
				printf("%s%x/%d/%08x", first ? "" : ",", cp->subno, (int) cp->function, fnv(rs)); first = 0;
			}
		if (first) printf("-");
	}
	printf("\n");
}

static void print_ctx(void)
{
	printf(" st=%d.%d rc=%d,%d,%d,%d dir=%d stop=%d.%d,%d.%d", srch->start_pgno, srch->start_subno,
	       srch->row[0], srch->col[0], srch->row[1], srch->col[1], srch->dir,
	       srch->stop_pgno[0], srch->stop_subno[0], srch->stop_pgno[1], srch->stop_subno[1]);
}

int main(int argc, char **argv)
{
	int r;
	regex_mode = (argc > 1 && 0 == strcmp(argv[1], "--regex"));
	static char buf[1 << 16];
	signal(SIGALRM, on_alarm);
	fpg = calloc(1, sizeof *fpg);
	fresh();
	while ((r = h_next())) {
		long long a, b, c, d;
		if (r == 2) { fresh(); prog_k = prog_n = 0; continue; }
		if (H_IS(0, "put") && h_ntok == 6) {
			if (!NUM(1, a) || !NUM(2, b) || !NUM(3, c)) { printf("rej parse\n"); }
			else if (!feed(h_tok[5])) printf("rej parse\n");
			else {
				cache_page *cp = chain_head((int) a);
				if (!cp) printf("ok FMTDIFF notcached\n");
				else if ((int) cp->function != (int) c) printf("ok FMTDIFF func %d\n", (int) cp->function);
				else {
					rowspec_of(cp, buf, sizeof buf);
					if (0 == strcmp(buf, h_tok[4])) printf("ok\n");
					else printf("ok FMTDIFF rows %s\n", buf);
				}
			}
		} else if (H_IS(0, "fmt") && h_ntok == 2 && NUM(1, a)) {
			cache_page *cp = chain_head((int) a);
			if (!cp) printf("ok none\n");
			else { rowspec_of(cp, buf, sizeof buf); printf("ok %x %d %s\n", cp->subno, (int) cp->function, buf); }
		} else if (H_IS(0, "feed") && h_ntok == 2) {
			printf(feed(h_tok[1]) ? "ok\n" : "rej parse\n");
		} else if (H_IS(0, "dump") && h_ntok == 1) {
			dump();
		} else if (H_IS(0, "chsw") && h_ntok == 1) {
			vbi_chsw_reset(dec, 0);
			printf("ok\n");
		} else if (H_IS(0, "search") && h_ntok == 7) {
			int len = 0, i; uint8_t *p;
			if (!NUM(1, a) || !NUM(2, b) || !NUM(3, c) || !NUM(4, d)) { printf("rej parse\n"); fflush(stdout); continue; }
			p = h_hex(h_tok[5], &len);
			if (!p || (len & 1) || a < -0x7000 || a > 0x7000 || b < -0x8000 || b > 0xFFFF) { free(p); printf("rej parse\n"); fflush(stdout); continue; }
			{
				uint16_t *pat = malloc((size_t) len + 2);
				for (i = 0; i < len / 2; ++i) pat[i] = (uint16_t)(p[2 * i] * 256 + p[2 * i + 1]);
				pat[len / 2] = 0;
				if (srch) vbi_search_delete(srch);
				srch = vbi_search_new(dec, (vbi_pgno) a, (vbi_subno) b, pat, c != 0, d != 0, on_progress);
				srch_regex = (d != 0) && 0 != strcmp(h_tok[6], "ure");   /* mode `ure`: the model driver runs its ure.c model */
				free(pat); free(p);
			}
			if (!srch) printf("ok null\n");
			else printf("ok new stop=%d.%d,%d.%d\n", srch->stop_pgno[0], srch->stop_subno[0],
				    srch->stop_pgno[1], srch->stop_subno[1]);
		} else if (H_IS(0, "next") && h_ntok == 2 && NUM(1, a)) {
			if (!srch) printf("rej nosearch\n");
			else if (srch_regex && !regex_mode) printf("ok unsupported\n");
			else {
				/* mirror of what the first/changed-direction call will pass to _vbi_cache_foreach_page:
				   a start page number outside 0x100..0x8FF trips assert() in cache_network_page_stat
				   (API precondition: documented page number range) - reported, not executed */
				int dir = (a > 0) ? +1 : -1;
				int sp = !srch->dir ? srch->stop_pgno[dir > 0 ? 0 : 1] : srch->start_pgno;
				if (dec->cn->n_cached_pages != 0 && (sp < 0x100 || sp > 0x8FF)) {
					printf("ok assert page_stat\n");
				} else {
					vbi_page *res = NULL; int st, i, j, first = 1;
					alarm(5);
					st = vbi_search_next(srch, &res, (int) a);
					alarm(0);
					printf("ok %d", st);
					if (st == VBI_SEARCH_SUCCESS && res) {
						printf(" pg=%x.%x hl=", res->pgno, res->subno);
						for (i = 0; i < res->rows; ++i) for (j = 0; j < res->columns; ++j) {
							vbi_char *ac = &res->text[i * res->columns + j];
							if (ac->foreground == 32 + VBI_BLACK && ac->background == 32 + VBI_YELLOW) {
								printf("%s%d.%d", first ? "" : ",", i, j); first = 0;
							}
						}
						if (first) printf("-");
					}
					print_ctx();
					printf("\n");
				}
			}
		} else if (H_IS(0, "progress") && h_ntok == 2) {
			if (!NUM(1, a) || a < 0 || a > 1000) printf("rej parse\n");
			else { prog_k = a; prog_n = 0; printf("ok\n"); }
		} else if (H_IS(0, "endsearch") && h_ntok == 1) {
			if (srch) { vbi_search_delete(srch); srch = NULL; }
			printf("ok\n");
		} else printf("rej op\n");
		fflush(stdout);
	}
	kill_all();
	free(fpg);
	return 0;
}
