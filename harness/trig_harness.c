/* Harness for component `trig` (C01, trigger.c): the EACEM / ATVEF trigger parsers, the deferred trigger list and the
   caption ITV separator that feeds them, on the line protocol of lean/Driver/Trig.lean.

     eacem <hex>      vbi_eacem_trigger (vbi, s)   s = the bytes up to the first 00, in an EXACT-size heap buffer
     atvef <hex>      vbi_atvef_trigger (vbi, s)   (strlen + 1 bytes, so ASan reports any read behind the terminator)
     itv <hex>        every byte through caption.c itv_separator() (the T2 text channel path); the call
                      vbi_atvef_trigger (vbi, cc->itv_buf) is redirected through a hook which copies the string into an
                      exact-size heap buffer first
     time <sec>       vbi->time = sec                (whole seconds: fire time arithmetic is then exact in 1/25 s)
     tick <sec>       vbi->time = sec; vbi_deferred_trigger (vbi)
     nuid <hex>       vbi->network.ev.network.nuid
     flush            vbi_trigger_flush (vbi)
     delete           vbi_decoder_delete (vbi)       prints the number of live trigger allocations
     extents          sizeof of the buffers / vbi_link members (cross-check of Generated/TrigLayout.lean)

   output of an op:  ok [E:<event>]* | [N:<node>]* | live=<n> [cnt=<itv_count>]
     event = type:eacem:name:url:script:page:expires:itv_type:priority:autoload   (strings in hex, `!` appended when the
             array holds no NUL; page = nuid.pgno.subno for page links, pgno for message links; expires in 1/25 s)
     node  = url:fire  (list order; fire in 1/25 s)
   trigger.c is #included with malloc / free redirected to a counting allocator that fills new blocks with 0xAA
   (so that a node linked without being initialised is recognisable and deterministic).                              */
#include "hutil.h"
#include <math.h>
#include <stdarg.h>

static long t_live;
static void *trig_malloc(size_t n)
{
	void *p = malloc(n);
	if (p) { memset(p, 0xAA, n); ++t_live; }
	return p;
}
static void trig_free(void *p)
{
	if (p) --t_live;
	free(p);
}
#define malloc(n) trig_malloc(n)
#define free(p) trig_free(p)
#include "src/trigger.c"
#undef malloc
#undef free

struct vbi_decoder;
static void h_atvef_hook(struct vbi_decoder *vbi, unsigned char *s);
#define vbi_atvef_trigger(v, s) h_atvef_hook(v, s)
#include "src/caption.c"
#undef vbi_atvef_trigger

static char o_buf[1 << 18];
static size_t o_len;
static void o_printf(const char *fmt, ...)
{
	va_list ap;
	va_start(ap, fmt);
	if (o_len < sizeof o_buf)
		o_len += (size_t) vsnprintf(o_buf + o_len, sizeof o_buf - o_len, fmt, ap);
	va_end(ap);
}
/* bounded string: hex up to the NUL, `!` when there is none inside the array */
static void o_bstr(const signed char *s, size_t size)
{
	size_t i, n;
	const void *z = memchr(s, 0, size);
	n = z ? (size_t)((const signed char *) z - s) : size;
	if (n == 0) o_printf("-");
	for (i = 0; i < n; ++i) o_printf("%02x", s[i] & 255);
	if (!z) o_printf("!");
}
static long long frames(double t)
{
	if (!(fabs(t) < 1e15)) return 0;
	return llround(t * 25.0);
}

static vbi_decoder *dec;
static int deleted;

static void handler(vbi_event *ev, void *user)
{
	const vbi_link *l;
	(void) user;
	if (ev->type != VBI_EVENT_TRIGGER || !(l = ev->ev.trigger)) return;
	o_printf(" E:%x:%x:", (unsigned) l->type, (unsigned) l->eacem);
	o_bstr(l->name, sizeof l->name); o_printf(":");
	o_bstr(l->url, sizeof l->url); o_printf(":");
	o_bstr(l->script, sizeof l->script); o_printf(":");
	if (l->type == VBI_LINK_PAGE) o_printf("%x.%x.%x", (unsigned) l->nuid, (unsigned) l->pgno, (unsigned) l->subno);
	else if (l->type == VBI_LINK_MESSAGE) o_printf("%x", (unsigned) l->pgno);
	else o_printf("-");
	o_printf(":%lld:%x:%x:%x", frames(l->expires), (unsigned) l->itv_type, (unsigned) l->priority, (unsigned) l->autoload);
}

static void dump(int with_cnt)
{
	vbi_trigger *t;
	o_printf(" |");
	for (t = dec->triggers; t; t = t->next) {
		o_printf(" N:");
		o_bstr(t->link.url, sizeof t->link.url);
		o_printf(":%lld", frames(t->fire));
	}
	o_printf(" | live=%ld", t_live);
	if (with_cnt) o_printf(" cnt=%d", dec->cc.itv_count);
}

static void fresh(void)
{
	if (dec && !deleted) vbi_decoder_delete(dec);
	dec = vbi_decoder_new();
	deleted = 0;
	if (!dec || !vbi_event_handler_add(dec, VBI_EVENT_TRIGGER, handler, NULL)) { fprintf(stderr, "no decoder\n"); exit(3); }
	dec->time = 0.0;
}

/* the bytes up to the first 00 as a C string in an exact-size heap block */
static unsigned char *exact(const uint8_t *b, int n)
{
	int l = 0;
	unsigned char *s;
	while (l < n && b[l]) ++l;
	s = (unsigned char *) malloc((size_t) l + 1);
	memcpy(s, b, (size_t) l);
	s[l] = 0;
	return s;
}

static void h_atvef_hook(struct vbi_decoder *vbi, unsigned char *s)
{
	unsigned char *e = exact(s, (int) strlen((char *) s));
	vbi_atvef_trigger(vbi, e);
	free(e);
}

int main(void)
{
	int r;
	setenv("TZ", "UTC", 1);
	tzset();
	fresh();
	while ((r = h_next())) {
		long long v;
		if (r == 2) { fresh(); continue; }
		o_len = 0; o_buf[0] = 0;
		if (H_IS(0, "extents") && h_ntok == 1) {
			vbi_link *l = NULL;
			printf("ok url=%zu name=%zu script=%zu itv_buf=%zu pgtext=%zu\n", sizeof l->url, sizeof l->name,
			       sizeof l->script, sizeof dec->cc.itv_buf, sizeof ((vbi_page *) 0)->text);
			continue;
		}
		if (deleted) { printf("rej deleted\n"); continue; }
		if ((H_IS(0, "eacem") || H_IS(0, "atvef") || H_IS(0, "itv")) && h_ntok == 2) {
			int n, i;
			uint8_t *b = h_hex(h_tok[1], &n);
			if (!b) { printf("rej parse\n"); continue; }
			if (H_IS(0, "itv")) {
				pthread_mutex_lock(&dec->cc.mutex);
				for (i = 0; i < n; ++i) itv_separator(dec, &dec->cc, (char) b[i]);
				pthread_mutex_unlock(&dec->cc.mutex);
				free(b);
				dump(1);
			} else {
				unsigned char *s = exact(b, n);
				free(b);
				if (H_IS(0, "eacem")) vbi_eacem_trigger(dec, s);
				else vbi_atvef_trigger(dec, s);
				free(s);
				dump(0);
			}
			printf("ok%s\n", o_buf);
		} else if ((H_IS(0, "time") || H_IS(0, "tick")) && h_ntok == 2) {
			if (!h_int(h_tok[1], &v) || v < 0 || v > 4000000000LL) { printf("rej parse\n"); continue; }
			dec->time = (double) v;
			if (H_IS(0, "tick")) vbi_deferred_trigger(dec);
			dump(0);
			printf("ok%s\n", o_buf);
		} else if (H_IS(0, "nuid") && h_ntok == 2) {
			int n; uint8_t *b = h_hex(h_tok[1], &n);
			if (!b || n != 4) { free(b); printf("rej parse\n"); continue; }
			dec->network.ev.network.nuid = ((unsigned) b[0] << 24) | (b[1] << 16) | (b[2] << 8) | b[3];
			free(b);
			printf("ok\n");
		} else if (H_IS(0, "flush") && h_ntok == 1) {
			vbi_trigger_flush(dec);
			dump(0);
			printf("ok%s\n", o_buf);
		} else if (H_IS(0, "delete") && h_ntok == 1) {
			vbi_decoder_delete(dec);
			deleted = 1;
			printf("ok live=%ld\n", t_live);
		} else
			printf("rej op\n");
		fflush(stdout);
	}
	if (dec && !deleted) vbi_decoder_delete(dec);
	return 0;
}
