/* libFuzzer target over the stand-alone demultiplexers / decoders (support tool: SEARCHES for failing inputs for
   C05 C06 C07 C09 C15, proves nothing).  First byte selects the component.
   build: tools/fuzz_dec.sh <workdir> <seconds> <jobs> misc_fuzz */
#include <stdio.h>
#include <stdlib.h>
#include <string.h>
#include <stdint.h>
#include "src/libzvbi.h"

static volatile unsigned sink;
static vbi_bool dvb_cb(vbi_dvb_demux *dx, void *u, const vbi_sliced *s, unsigned int n, int64_t pts)
{ unsigned i; (void) dx; (void) u; for (i = 0; i < n; ++i) sink += s[i].id + s[i].line + s[i].data[0]; sink += (unsigned) pts; return 1; }
static vbi_bool idl_cb(vbi_idl_demux *dx, const uint8_t *b, unsigned int n, unsigned int flags, void *u)
{ unsigned i; (void) dx; (void) u; for (i = 0; i < n; ++i) sink += b[i]; sink += flags; return 1; }
static vbi_bool pfc_cb(vbi_pfc_demux *dx, void *u, const vbi_pfc_block *blk)
{ unsigned i; (void) dx; (void) u; for (i = 0; i < blk->block_size; ++i) sink += blk->block[i]; return 1; }
static vbi_bool xds_cb(vbi_xds_demux *xd, const vbi_xds_packet *p, void *u)
{ unsigned i; (void) xd; (void) u; for (i = 0; i < p->buffer_size; ++i) sink += p->buffer[i]; return 1; }
static vbi_bool mux_cb(vbi_dvb_mux *mx, void *u, const uint8_t *p, unsigned int n)
{ (void) mx; vbi_dvb_demux *dx = u; uint8_t *c = malloc(n ? n : 1); memcpy(c, p, n); vbi_dvb_demux_feed(dx, c, n); free(c); return 1; }

extern vbi_dvb_demux *_vbi_dvb_ts_demux_new(vbi_dvb_demux_cb *cb, void *user_data, unsigned int pid);

int LLVMFuzzerTestOneInput(const uint8_t *d, size_t n)
{
	unsigned sel;
	if (n < 2) return 0;
	sel = d[0] & 7; ++d; --n;
	if (sel <= 1) {			/* DVB demux: PES (callback / coroutine) and TS, chunked */
		int ts = d[0] & 1, cor = d[0] & 2; size_t i = 1;
		vbi_dvb_demux *dx = ts ? _vbi_dvb_ts_demux_new(cor ? NULL : dvb_cb, NULL, 0x123) : vbi_dvb_pes_demux_new(cor ? NULL : dvb_cb, NULL);
		if (!dx) return 0;
		while (i < n) {
			size_t len = 1 + (d[i] % 97), k; uint8_t *c; ++i;
			if (len > n - i) len = n - i;
			if (!len) break;
			c = malloc(len); memcpy(c, d + i, len);
			if (cor) {
				const uint8_t *p = c; unsigned int left = (unsigned) len, guard = 0; vbi_sliced sl[64]; int64_t pts;
				while (left > 0 && ++guard < 100000) { unsigned r = vbi_dvb_demux_cor(dx, sl, 64, &pts, &p, &left); for (k = 0; k < r; ++k) sink += sl[k].line; }
				if (guard >= 100000) abort();	/* no progress */
			} else vbi_dvb_demux_feed(dx, c, (unsigned) len);
			free(c); i += len;
		}
		vbi_dvb_demux_delete(dx);
	} else if (sel == 2) {		/* XDS demux */
		size_t i; vbi_xds_demux *xd = vbi_xds_demux_new(xds_cb, NULL);
		for (i = 0; i + 2 <= n; i += 2) { uint8_t b[2] = { d[i], d[i + 1] }; vbi_xds_demux_feed(xd, b); }
		vbi_xds_demux_delete(xd);
	} else if (sel == 3) {		/* IDL format A */
		size_t i; vbi_idl_demux *dx = vbi_idl_a_demux_new(d[0] & 15, d[0] >> 4, idl_cb, NULL);
		for (i = 1; dx && i + 42 <= n; i += 42) { uint8_t *c = malloc(42); memcpy(c, d + i, 42); vbi_idl_demux_feed(dx, c); free(c); }
		vbi_idl_demux_delete(dx);
	} else if (sel == 4) {		/* PFC */
		size_t i; vbi_pfc_demux *dx = vbi_pfc_demux_new(0x100 + ((d[0] << 3) & 0x7FF), d[0] & 15, pfc_cb, NULL);
		for (i = 1; dx && i + 42 <= n; i += 42) { uint8_t *c = malloc(42); memcpy(c, d + i, 42); vbi_pfc_demux_feed(dx, c); free(c); }
		vbi_pfc_demux_delete(dx);
	} else if (sel == 5) {		/* raw decoder: image = input bytes, exact size */
		static const vbi_pixfmt fmts[6] = { VBI_PIXFMT_YUV420, VBI_PIXFMT_YUYV, VBI_PIXFMT_RGBA32_LE, VBI_PIXFMT_RGB24, VBI_PIXFMT_RGB16_LE, VBI_PIXFMT_BGRA15_BE };
		vbi_raw_decoder rd; vbi_sliced *out; uint8_t *img; size_t sz, k; int nl, max;
		if (n < 6) return 0;
		vbi_raw_decoder_init(&rd);
		rd.scanning = (d[0] & 1) ? 525 : 625; rd.sampling_format = fmts[d[1] % 6];
		rd.sampling_rate = (d[0] & 2) ? 27000000 : 13500000;
		rd.bytes_per_line = ((d[0] & 2) ? 1440 : 720) * ((rd.sampling_format == VBI_PIXFMT_YUV420) ? 1 : (rd.sampling_format == VBI_PIXFMT_RGBA32_LE) ? 4 : (rd.sampling_format == VBI_PIXFMT_RGB24) ? 3 : 2);
		rd.offset = (d[2] & 3) * 40; rd.interlaced = (d[0] >> 2) & 1; rd.synchronous = 1;
		rd.start[0] = (rd.scanning == 625) ? 7 : 10; rd.count[0] = 1 + (d[3] & 3);
		rd.start[1] = (rd.scanning == 625) ? 320 : 273; rd.count[1] = rd.interlaced ? rd.count[0] : (d[3] >> 2) & 3;
		vbi_raw_decoder_add_services(&rd, (d[0] & 8) ? (VBI_SLICED_TELETEXT_B | VBI_SLICED_VPS | VBI_SLICED_CAPTION_625 | VBI_SLICED_WSS_625) : (VBI_SLICED_CAPTION_525 | VBI_SLICED_TELETEXT_B), 0);
		sz = (size_t) rd.bytes_per_line * (rd.count[0] + rd.count[1]);
		img = malloc(sz ? sz : 1);
		for (k = 0; k < sz; ++k) img[k] = d[4 + k % (n - 4 ? n - 4 : 1)];
		max = rd.count[0] + rd.count[1];
		out = malloc(sizeof *out * (max ? max : 1));
		nl = vbi_raw_decode(&rd, img, out);
		if (nl > max) abort();
		for (k = 0; k < (size_t) nl; ++k) sink += out[k].id;
		free(out); free(img); vbi_raw_decoder_destroy(&rd);
	} else {			/* mux -> demux round trip with arbitrary sliced input */
		vbi_dvb_demux *dx = vbi_dvb_pes_demux_new(dvb_cb, NULL);
		vbi_dvb_mux *mx = (d[0] & 1) ? vbi_dvb_ts_mux_new(0x123, mux_cb, NULL) : vbi_dvb_pes_mux_new(mux_cb, dx);
		size_t i = 1;
		if (mx && dx && !(d[0] & 1)) {
			while (i + 2 <= n) {
				vbi_sliced sl[32]; unsigned cnt = 1 + (d[i] & 15), k; ++i;
				memset(sl, 0, sizeof sl);
				for (k = 0; k < cnt && i + 3 <= n; ++k) {
					static const unsigned ids[6] = { VBI_SLICED_TELETEXT_B, VBI_SLICED_VPS, VBI_SLICED_WSS_625, VBI_SLICED_CAPTION_625, VBI_SLICED_TELETEXT_B_L10_625, 0x80000000u };
					sl[k].id = ids[d[i] % 6]; sl[k].line = d[i + 1] | ((d[i + 2] & 1) << 8); i += 3;
					memset(sl[k].data, d[i - 1], sizeof sl[k].data);
				}
				vbi_dvb_mux_feed(mx, sl, k, VBI_SLICED_TELETEXT_B | VBI_SLICED_VPS | VBI_SLICED_WSS_625 | VBI_SLICED_CAPTION_625, NULL, NULL, (int64_t) i * 3600);
			}
		}
		vbi_dvb_mux_delete(mx); vbi_dvb_demux_delete(dx);
	}
	return 0;
}
