/* Harness for component `codec`: hamm.h/hamm.c, vps.c, packet-830.c (C12).
   Speaks the line protocol of lean/Driver/Codec.lean. */
#include "hutil.h"
#include "src/hamm.h"
#include "src/vps.h"
#include "src/packet-830.h"
#include "src/pdc.h"

static void show_pid(const vbi_program_id *p)
{
	printf("pid %u %u %u %u %u %u %u %u %u\n", (unsigned) p->channel, (unsigned) p->cni_type,
	       p->cni, (unsigned) p->pil, (unsigned) p->luf, (unsigned) p->mi, (unsigned) p->prf,
	       (unsigned) p->pcs_audio, p->pty);
}

static int known_op(const char *w)
{
	static const char *ops[] = { "rev8", "rev16", "ham8", "unham8", "par8", "unpar8", "unham16p", "unham24p", "ham24p", "unpar",
		"vps_dec_cni", "vps_dec_pdc", "dvb_dec", "vps_enc_cni", "vps_enc_pdc", "dvb_enc", "vps_rt_cni", "vps_rt_pdc",
		"dvb_rt", "vps_reenc", "p8301_cni", "p8301_time", "p8302_cni", "p8302_pdc", NULL };
	int i;
	for (i = 0; ops[i]; ++i) if (0 == strcmp(ops[i], w)) return 1;
	return 0;
}

static uint8_t *hexn(int i, int n)
{
	int len; uint8_t *b;
	if (i >= h_ntok) return NULL;
	b = h_hex(h_tok[i], &len);
	if (b && len != n) { free(b); return NULL; }
	return b;
}

#define NUM(i, v) (h_ntok > (i) && h_int(h_tok[i], &(v)))
#define OUT_BOOL_BUF(ok, b, n) do { if (ok) { printf("ok "); h_puthex(b, n); printf("\n"); } else { \
	if (memcmp(b, orig, n)) printf("ok false-but-modified\n"); else printf("ok false\n"); } } while (0)

int main(void)
{
	int r;
	while ((r = h_next())) {
		long long v, v2, v3, v4; uint8_t *b = NULL; uint8_t orig[64]; int len;
		if (r == 2) continue;
		if (H_IS(0, "rev8") && NUM(1, v)) printf("ok %u\n", vbi_rev8((unsigned) v));
		else if (H_IS(0, "rev16") && NUM(1, v)) printf("ok %u\n", vbi_rev16((unsigned) v & 0xFFFF));
		else if (H_IS(0, "ham8") && NUM(1, v)) printf("ok %u\n", vbi_ham8((unsigned) v));
		else if (H_IS(0, "unham8") && NUM(1, v)) { int x = vbi_unham8((unsigned) v); if (x < 0) printf("ok neg\n"); else printf("ok %d\n", x); }
		else if (H_IS(0, "par8") && NUM(1, v)) printf("ok %u\n", vbi_par8((unsigned) v));
		else if (H_IS(0, "unpar8") && NUM(1, v)) { int x = vbi_unpar8((unsigned) v & 255); if (x < 0) printf("ok neg\n"); else printf("ok %d\n", x); }
		else if (H_IS(0, "unham16p") && (b = hexn(1, 2))) { int x = vbi_unham16p(b); if (x < 0) printf("ok neg\n"); else printf("ok %d\n", x); }
		else if (H_IS(0, "unham24p") && (b = hexn(1, 3))) { int x = vbi_unham24p(b); if (x < 0) printf("ok neg\n"); else printf("ok %d\n", x); }
		else if (H_IS(0, "ham24p") && NUM(1, v)) { uint8_t t[3]; vbi_ham24p(t, (unsigned) v); printf("ok "); h_puthex(t, 3); printf("\n"); }
		else if (H_IS(0, "unpar") && h_ntok > 1 && (b = h_hex(h_tok[1], &len))) {
			int x = vbi_unpar(b, (unsigned) len); printf("ok %s ", x < 0 ? "neg" : "good"); h_puthex(b, len); printf("\n"); }
		else if (H_IS(0, "vps_dec_cni") && (b = hexn(1, 13))) { unsigned c = 0; vbi_bool ok = vbi_decode_vps_cni(&c, b); if (ok) printf("ok %u\n", c); else printf("ok false\n"); }
		else if (H_IS(0, "vps_dec_pdc") && (b = hexn(1, 13))) { vbi_program_id p; memset(&p, 0xAA, sizeof p); if (vbi_decode_vps_pdc(&p, b)) { printf("ok "); show_pid(&p); } else printf("ok false\n"); }
		else if (H_IS(0, "dvb_dec") && (b = hexn(1, 5))) { vbi_program_id p; memset(&p, 0xAA, sizeof p); if (vbi_decode_dvb_pdc_descriptor(&p, b)) { printf("ok "); show_pid(&p); } else printf("ok false\n"); }
		else if (H_IS(0, "vps_enc_cni") && NUM(2, v) && (b = hexn(1, 13))) { vbi_bool ok; memcpy(orig, b, 13); ok = vbi_encode_vps_cni(b, (unsigned) v); OUT_BOOL_BUF(ok, b, 13); }
		else if (H_IS(0, "vps_enc_pdc") && NUM(2, v) && NUM(3, v2) && NUM(4, v3) && NUM(5, v4) && (b = hexn(1, 13))) {
			vbi_program_id p; vbi_bool ok; memset(&p, 0, sizeof p); memcpy(orig, b, 13);
			p.cni = (unsigned) v; p.pil = (unsigned) v2; p.pcs_audio = (vbi_pcs_audio)(unsigned) v3; p.pty = (unsigned) v4;
			ok = vbi_encode_vps_pdc(b, &p); OUT_BOOL_BUF(ok, b, 13); }
		else if (H_IS(0, "dvb_enc") && NUM(2, v) && (b = hexn(1, 5))) {
			vbi_program_id p; vbi_bool ok; memset(&p, 0, sizeof p); memcpy(orig, b, 5); p.pil = (unsigned) v;
			ok = vbi_encode_dvb_pdc_descriptor(b, &p); OUT_BOOL_BUF(ok, b, 5); }
		else if (H_IS(0, "vps_rt_cni") && NUM(2, v) && (b = hexn(1, 13))) { vbi_bool ok; unsigned c = 0; memcpy(orig, b, 13);
			ok = vbi_encode_vps_cni(b, (unsigned) v);
			if (ok && vbi_decode_vps_cni(&c, b)) { printf("ok "); h_puthex(b, 13); printf(" %u\n", c); } else OUT_BOOL_BUF(0, b, 13); }
		else if (H_IS(0, "vps_rt_pdc") && NUM(2, v) && NUM(3, v2) && NUM(4, v3) && NUM(5, v4) && (b = hexn(1, 13))) {
			vbi_program_id p, q; vbi_bool ok; memset(&p, 0, sizeof p); memcpy(orig, b, 13);
			p.cni = (unsigned) v; p.pil = (unsigned) v2; p.pcs_audio = (vbi_pcs_audio)(unsigned) v3; p.pty = (unsigned) v4;
			ok = vbi_encode_vps_pdc(b, &p); memset(&q, 0xAA, sizeof q);
			if (ok && vbi_decode_vps_pdc(&q, b)) { printf("ok "); h_puthex(b, 13); printf(" "); show_pid(&q); } else OUT_BOOL_BUF(0, b, 13); }
		else if (H_IS(0, "dvb_rt") && NUM(2, v) && (b = hexn(1, 5))) {
			vbi_program_id p, q; vbi_bool ok; memset(&p, 0, sizeof p); memcpy(orig, b, 5); p.pil = (unsigned) v;
			ok = vbi_encode_dvb_pdc_descriptor(b, &p); memset(&q, 0xAA, sizeof q);
			if (ok && vbi_decode_dvb_pdc_descriptor(&q, b)) { printf("ok "); h_puthex(b, 5); printf(" "); show_pid(&q); } else OUT_BOOL_BUF(0, b, 5); }
		else if (H_IS(0, "vps_reenc") && (b = hexn(1, 13))) { uint8_t *t = hexn(2, 13);
			if (!t) printf("rej parse\n"); else { vbi_program_id p; vbi_bool ok; memset(&p, 0xAA, sizeof p); memcpy(orig, t, 13);
				ok = vbi_decode_vps_pdc(&p, b) && vbi_encode_vps_pdc(t, &p); OUT_BOOL_BUF(ok, t, 13); free(t); } }
		else if (H_IS(0, "p8301_cni") && (b = hexn(1, 42))) { unsigned c = 0; if (vbi_decode_teletext_8301_cni(&c, b)) printf("ok %u\n", c); else printf("ok false\n"); }
		else if (H_IS(0, "p8301_time") && (b = hexn(1, 42))) { time_t t = 12345; int se = 777;
			if (vbi_decode_teletext_8301_local_time(&t, &se, b)) printf("ok %lld %d\n", (long long) t, se);
			else if (t != 12345 || se != 777) printf("ok false-but-modified\n"); else printf("ok false\n"); }
		else if (H_IS(0, "p8302_cni") && (b = hexn(1, 42))) { unsigned c = 4242; if (vbi_decode_teletext_8302_cni(&c, b)) printf("ok %u\n", c);
			else if (c != 4242) printf("ok false-but-modified\n"); else printf("ok false\n"); }
		else if (H_IS(0, "p8302_pdc") && (b = hexn(1, 42))) { vbi_program_id p, q; memset(&p, 0xAA, sizeof p); q = p;
			if (vbi_decode_teletext_8302_pdc(&p, b)) { printf("ok "); show_pid(&p); }
			else if (memcmp(&p, &q, sizeof p)) printf("ok false-but-modified\n"); else printf("ok false\n"); }
		else if (h_ntok >= 1 && known_op(h_tok[0])) printf("rej parse\n");
		else printf("rej op\n");
		free(b);
	}
	return 0;
}
