/* Harness for component `xds` (C09): the two XDS demultiplexers of libzvbi on the line protocol
   of lean/Driver/Xds.lean.

     d <4 hex>   one byte pair into vbi_xds_demux_feed()            (src/xds_demux.c)
     s <4 hex>   one byte pair into vbi_decode_caption(vbi, 284, .) (src/caption.c: field-2 routing,
                 xds_separator, xds_decoder)
     p <4 hex>   like `s`, additionally prints the events / programme info the service decoder
                 announces (format of the round-2 model `Svc`)
     q <4 hex>   like `s`; when a packet is delivered, additionally prints every event xds_decoder sends
                 (E:...) and afterwards every field it can write: both vbi_program_info, the network,
                 info_cycle[], aspect_source, the caption channel languages (model `Dec`)
     extents2    sizeof of the character arrays xds_decoder writes, values of the caption ids
     frame <n> [<id> <line> <4 hex>]*
                 n sliced lines (exact-size heap array) into vbi_xds_demux_feed_frame(); prints the
                 return value, the state digest and every packet delivered meanwhile

   `case n` destroys and re-creates both contexts.

   xds_decoder() is `static inline` in caption.c.  To observe its arguments (the packet the
   separator delivers) without touching /repo, caption.c is #included with a function-like macro
   that renames the *definition* to xds_decoder_real and turns the *call* in xds_separator into
   h_xds_hook(), which prints the arguments and then calls the real function.  If the parameter
   spelling in caption.c changes this file no longer compiles, which the check reports. */
#include "hutil.h"

struct vbi_decoder;
static void h_xds_hook(struct vbi_decoder *vbi, int _class, int type, uint8_t *buffer, int length);

#define xds_decoder(a, b, c, d, e) XDX_##a , b, c, d, e)
#define XDX_vbi_decoder xds_decoder_real(vbi_decoder
#define XDX_vbi h_xds_hook(vbi
#include "src/caption.c"
#undef xds_decoder
#include "src/xds_demux.h"

/* ---- output accumulation for the current op ---- */
static char o_buf[1 << 16];
static size_t o_len;
static void o_printf(const char *fmt, ...)
{
	va_list ap;
	va_start(ap, fmt);
	if (o_len < sizeof o_buf)
		o_len += (size_t) vsnprintf(o_buf + o_len, sizeof o_buf - o_len, fmt, ap);
	va_end(ap);
}
static void o_hex(const uint8_t *b, int n)
{
	int i;
	if (n <= 0) { o_printf("-"); return; }
	for (i = 0; i < n; ++i) o_printf("%02x", b[i]);
}
static void o_str(const signed char *s)
{
	o_hex((const uint8_t *) s, (int) strlen((const char *) s));
}

static int p_mode;		/* 0 = s, 1 = p, 2 = q */
static int h_delivered;

/* pointer into language[8] -> index, NULL -> 0 */
static char q_lang(const unsigned char *s)
{
	int l;
	if (!s) return '0';
	for (l = 0; l < 8; ++l)
		if ((const char *) s == language[l]) return (char)('0' + l);
	return 'x';
}

static void q_pi(const vbi_program_info *pi)
{
	int i;
	o_printf(" pin=%d.%d.%d.%d td=%d len=%d:%d el=%d:%d:%d title=", pi->month, pi->day, pi->hour, pi->min,
		 pi->tape_delayed, pi->length_hour, pi->length_min, pi->elapsed_hour, pi->elapsed_min, pi->elapsed_sec);
	o_str(pi->title);
	o_printf(" type=");
	if (pi->type_classf == VBI_PROG_CLASSF_EIA_608) {
		for (i = 0; i < 33 && pi->type_id[i]; ++i) o_printf("%02x", pi->type_id[i] & 255);
		if (0 == i) o_printf("-");
	} else o_printf("none");
	o_printf(" rating=%d/%d/%d audio=%d.%c.%d.%c capsvc=%d caplang=", (int) pi->rating_auth, pi->rating_id,
		 pi->rating_dlsv, (int) pi->audio[0].mode, q_lang(pi->audio[0].language), (int) pi->audio[1].mode,
		 q_lang(pi->audio[1].language), pi->caption_services);
	for (i = 0; i < 8; ++i) o_printf("%c", q_lang(pi->caption_language[i]));
	o_printf(" cgms=%d asp=%d.%d.%d", pi->cgms_a, pi->aspect.first_line, pi->aspect.last_line,
		 pi->aspect.ratio > 1.5 ? 2 : (pi->aspect.ratio > 0.5 ? 1 : 0));
	for (i = 0; i < 8; ++i) { o_printf(" d%d=", i); o_str(pi->description[i]); }
}

static void q_cycle(int c)
{
	int i, any = 0;
	for (i = 0; i < 32; ++i)
		if (c & (1 << i)) { o_printf("%s%d", any ? "," : "", i); any = 1; }
	if (!any) o_printf("-");
}

static void q_state(struct vbi_decoder *vbi)
{
	vbi_network *n = &vbi->network.ev.network;
	int i;
	o_printf(" S0"); q_pi(&vbi->prog_info[0]);
	o_printf(" S1"); q_pi(&vbi->prog_info[1]);
	o_printf(" SN name="); o_str(n->name);
	o_printf(" call="); o_str(n->call);
	o_printf(" cyc=%d nuid=%u td=%d SC cyc0=", n->cycle, n->nuid, n->tape_delay);
	q_cycle(vbi->cc.info_cycle[0]);
	o_printf(" cyc1=");
	q_cycle(vbi->cc.info_cycle[1]);
	o_printf(" asrc=%d lang=", vbi->aspect_source);
	for (i = 0; i < 8; ++i) o_printf("%c", q_lang(vbi->cc.channel[i].language));
}

static void h_xds_hook(struct vbi_decoder *vbi, int _class, int type, uint8_t *buffer, int length)
{
	o_printf(" dec %d %d %d ", _class, type, length);
	o_hex(buffer, length < 0 ? 0 : (length > 64 ? 64 : length));
	h_delivered = 1;
	xds_decoder_real(vbi, _class, type, buffer, length);
}

/* ---- standalone demultiplexer ---- */
static vbi_xds_demux *xd;

static vbi_bool d_cb(vbi_xds_demux *x, const vbi_xds_packet *xp, void *ud)
{
	(void) x; (void) ud;
	o_printf(" pkt %d %d %u ", (int) xp->xds_class, (int) xp->xds_subclass, xp->buffer_size);
	o_hex(xp->buffer, xp->buffer_size > 36 ? 36 : (int) xp->buffer_size);
	o_printf(" z=%d", xp->buffer_size < sizeof xp->buffer ? (0 == xp->buffer[xp->buffer_size]) : -1);
	return TRUE;
}

/* ---- service decoder ---- */
static vbi_decoder *vbi;

static void ev_cb(vbi_event *ev, void *ud)
{
	(void) ud;
	if (!p_mode) return;
	if (2 == p_mode) {
		switch (ev->type) {
		case VBI_EVENT_PROG_INFO:
			o_printf(" E:pi f=%d", (int) ev->ev.prog_info->future);
			q_pi(ev->ev.prog_info);
			break;
		case VBI_EVENT_NETWORK:
			o_printf(" E:net name="); o_str(ev->ev.network.name);
			o_printf(" call="); o_str(ev->ev.network.call);
			o_printf(" nuid=%u td=%d", ev->ev.network.nuid, ev->ev.network.tape_delay);
			break;
		case VBI_EVENT_NETWORK_ID:
			o_printf(" E:netid");
			break;
		case VBI_EVENT_ASPECT:
			o_printf(" E:asp %d.%d.%d", ev->ev.aspect.first_line, ev->ev.aspect.last_line,
				 ev->ev.aspect.ratio > 1.5 ? 2 : (ev->ev.aspect.ratio > 0.5 ? 1 : 0));
			break;
		default:
			o_printf(" E:other");
			break;
		}
		return;
	}
	switch (ev->type) {
	case VBI_EVENT_PROG_INFO: {
		vbi_program_info *pi = ev->ev.prog_info;
		int i;
		o_printf(" ev:pi f=%d pin=%d.%d.%d.%d td=%d len=%d:%d el=%d:%d:%d title=", (int) pi->future,
			 pi->month, pi->day, pi->hour, pi->min, pi->tape_delayed, pi->length_hour, pi->length_min,
			 pi->elapsed_hour, pi->elapsed_min, pi->elapsed_sec);
		o_str(pi->title);
		o_printf(" rating=%d/%d/%d cgms=%d capsvc=%d type=", (int) pi->rating_auth, pi->rating_id,
			 pi->rating_dlsv, pi->cgms_a, pi->caption_services);
		if (pi->type_classf == VBI_PROG_CLASSF_EIA_608) {
			for (i = 0; i < 33 && pi->type_id[i]; ++i) o_printf("%02x", pi->type_id[i] & 255);
			if (0 == i) o_printf("-");
		} else o_printf("none");
		for (i = 0; i < 8; ++i) { o_printf(" d%d=", i); o_str(pi->description[i]); }
		break;
	}
	case VBI_EVENT_NETWORK:
		o_printf(" ev:net name=");
		o_str(ev->ev.network.name);
		o_printf(" call=");
		o_str(ev->ev.network.call);
		o_printf(" nuid=%u td=%d", ev->ev.network.nuid, ev->ev.network.tape_delay);
		break;
	case VBI_EVENT_NETWORK_ID:
		o_printf(" ev:netid");
		break;
	case VBI_EVENT_ASPECT:
		o_printf(" ev:asp %d %d %s", ev->ev.aspect.first_line, ev->ev.aspect.last_line,
			 ev->ev.aspect.ratio > 1.5 ? "16:9" : "1:1");
		break;
	default:
		o_printf(" ev:other");
		break;
	}
}

static void reset_all(void)
{
	if (xd) vbi_xds_demux_delete(xd);
	xd = vbi_xds_demux_new(d_cb, NULL);
	if (vbi) vbi_decoder_delete(vbi);
	vbi = vbi_decoder_new();
	if (!xd || !vbi) { fprintf(stderr, "out of memory\n"); exit(3); }
	vbi_event_handler_register(vbi, VBI_EVENT_PROG_INFO | VBI_EVENT_NETWORK | VBI_EVENT_NETWORK_ID
				   | VBI_EVENT_ASPECT, ev_cb, NULL);
}

static void op_d(const uint8_t *pair)
{
	_vbi_xds_subpacket *sp0 = xd->curr_sp, *base = &xd->subpacket[0][0];
	unsigned cnt0 = sp0 ? sp0->count : 2;
	unsigned long long tc = 0, tk = 0;
	unsigned i, n = VBI_XDS_MAX_CLASSES * VBI_XDS_MAX_SUBCLASSES;
	int oob;
	vbi_bool r;
	o_len = 0; o_buf[0] = 0;
	r = vbi_xds_demux_feed(xd, pair);
	oob = sp0 && cnt0 < 2 && (pair[0] & 0x7F) >= 0x20 && sp0->count > cnt0; /* a store happened at index count - 2 < 0 */
	for (i = 0; i < n; ++i) { tc += base[i].count; if (base[i].count) tk += base[i].checksum; }
	printf("ok r=%d cur=", r ? 1 : 0);
	if (xd->curr_sp) printf("%d", (int)(xd->curr_sp - base)); else printf("-");
	printf(" tc=%llu tk=%llu%s%s\n", tc, tk, oob ? " oob" : "", o_buf);
}

static void op_frame(void)
{
	_vbi_xds_subpacket *base = &xd->subpacket[0][0];
	unsigned long long tc = 0, tk = 0;
	unsigned i, n = VBI_XDS_MAX_CLASSES * VBI_XDS_MAX_SUBCLASSES;
	long long cnt;
	vbi_sliced *sl;
	vbi_bool r;
	if (h_ntok < 2 || !h_int(h_tok[1], &cnt) || cnt < 0 || cnt > 1000 || h_ntok != 2 + 3 * (int) cnt) {
		printf("rej parse\n");
		return;
	}
	sl = calloc(cnt ? (size_t) cnt : 1, sizeof *sl);	/* exact size: ASan sees a read past the frame */
	if (!sl) exit(3);
	for (i = 0; i < (unsigned) cnt; ++i) {
		long long id, line; int len = 0; uint8_t *b;
		if (!h_int(h_tok[2 + 3 * i], &id) || !h_int(h_tok[3 + 3 * i], &line) || id < 0 || line < 0 || id > 0xFFFFFFFFLL || line > 0xFFFFFFFFLL
		    || !(b = h_hex(h_tok[4 + 3 * i], &len))) { printf("rej parse\n"); free(sl); return; }
		if (len != 2) { printf("rej parse\n"); free(b); free(sl); return; }
		sl[i].id = (uint32_t) id; sl[i].line = (uint32_t) line;
		sl[i].data[0] = b[0]; sl[i].data[1] = b[1];
		free(b);
	}
	o_len = 0; o_buf[0] = 0;
	r = vbi_xds_demux_feed_frame(xd, sl, (unsigned) cnt);
	free(sl);
	for (i = 0; i < n; ++i) { tc += base[i].count; if (base[i].count) tk += base[i].checksum; }
	printf("ok r=%d cur=", r ? 1 : 0);
	if (xd->curr_sp) printf("%d", (int)(xd->curr_sp - base)); else printf("-");
	printf(" tc=%llu tk=%llu%s\n", tc, tk, o_buf);
}

static void op_s(const uint8_t *pair)
{
	struct caption *cc = &vbi->cc;
	xds_sub_packet *sp0 = cc->curr_sp, *base = &cc->sub_packet[0][0];
	int cnt0 = sp0 ? sp0->count : 2;
	long long tc = 0, tk = 0;
	unsigned i, n = sizeof cc->sub_packet / sizeof cc->sub_packet[0][0];
	int oob;
	o_len = 0; o_buf[0] = 0;
	h_delivered = 0;
	vbi_decode_caption(vbi, 284, (uint8_t *) pair);
	if (2 == p_mode && h_delivered) q_state(vbi);
	oob = sp0 && cnt0 < 2 && (pair[0] & 0x7F) >= 0x20 && sp0->count > cnt0; /* a store happened at index count - 2 < 0 */
	for (i = 0; i < n; ++i) { tc += base[i].count; if (base[i].count) tk += base[i].chksum; }
	printf("ok cur=");
	if (cc->curr_sp) printf("%d", (int)(cc->curr_sp - base)); else printf("-");
	printf(" xds=%d tc=%lld tk=%lld%s%s\n", cc->xds ? 1 : 0, tc, tk, oob ? " oob" : "", o_buf);
}

int main(void)
{
	int r;
	reset_all();
	while ((r = h_next())) {
		uint8_t *b = NULL; int len = 0;
		if (r == 2) { reset_all(); continue; }
		if (H_IS(0, "extents") && h_ntok == 1) {
			/* cross-check of translate/gen_xds.py against the compiled code */
			printf("ok dbuf=%u dcls=%u dsub=%u dmaxsub=%u dpkt=%u sbuf=%u scls=%u ssub=%u misc=%d\n",
			       (unsigned) sizeof xd->subpacket[0][0].buffer,
			       (unsigned) (sizeof xd->subpacket / sizeof xd->subpacket[0]),
			       (unsigned) (sizeof xd->subpacket[0] / sizeof xd->subpacket[0][0]),
			       (unsigned) VBI_XDS_MAX_SUBCLASSES, (unsigned) sizeof xd->curr.buffer,
			       (unsigned) sizeof vbi->cc.sub_packet[0][0].buffer,
			       (unsigned) (sizeof vbi->cc.sub_packet / sizeof vbi->cc.sub_packet[0]),
			       (unsigned) (sizeof vbi->cc.sub_packet[0] / sizeof vbi->cc.sub_packet[0][0]),
			       (int) VBI_XDS_CLASS_MISC);
		} else if (H_IS(0, "extents2") && h_ntok == 1) {
			printf("ok title=%u desc=%u type=%u name=%u call=%u f1=%u f2=%u c525=%u\n",
			       (unsigned) sizeof vbi->prog_info[0].title, (unsigned) sizeof vbi->prog_info[0].description[0],
			       (unsigned) (sizeof vbi->prog_info[0].type_id / sizeof vbi->prog_info[0].type_id[0]),
			       (unsigned) sizeof vbi->network.ev.network.name, (unsigned) sizeof vbi->network.ev.network.call,
			       (unsigned) VBI_SLICED_CAPTION_525_F1, (unsigned) VBI_SLICED_CAPTION_525_F2,
			       (unsigned) VBI_SLICED_CAPTION_525);
		} else if (H_IS(0, "frame")) {
			op_frame();
		} else if ((H_IS(0, "d") || H_IS(0, "s") || H_IS(0, "p") || H_IS(0, "q")) && h_ntok == 2) {
			b = h_hex(h_tok[1], &len);
			if (!b || len != 2) printf("rej parse\n");
			else if (h_tok[0][0] == 'd') op_d(b);
			else { p_mode = (h_tok[0][0] == 'p') ? 1 : ((h_tok[0][0] == 'q') ? 2 : 0); op_s(b); }
		} else if (H_IS(0, "d") || H_IS(0, "s") || H_IS(0, "p") || H_IS(0, "q") || H_IS(0, "extents")
			   || H_IS(0, "extents2")) printf("rej parse\n");
		else printf("rej op\n");
		free(b);
	}
	if (xd) vbi_xds_demux_delete(xd);
	if (vbi) vbi_decoder_delete(vbi);
	return 0;
}
