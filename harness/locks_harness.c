/* C20 harness: the documented cross-thread roles of the service decoder and the raw decoder
 * on the real code, built with ThreadSanitizer.
 *
 * Link with  -Wl,--wrap=pthread_mutex_lock,--wrap=pthread_mutex_unlock,--wrap=pthread_mutex_trylock
 * so that every mutex operation of libzvbi passes through the recorders below.
 *
 * Sequential ops (one thread; the lock/unlock/callback trace of each API call is printed and later
 * matched against the extracted control-flow graph by `zvbi_model locks`):
 *   handler <mask> <mode>      register the event handler; mode bit0: handler calls vbi_fetch_cc_page,
 *                              bit1: handler calls vbi_channel_switched every 17th event
 *   decode <dt_ms> <item>...   one vbi_decode call; item = c<line>:<4 hex> | t:<84 hex> | v:<26 hex>
 *   fetch <pgno>               vbi_fetch_cc_page
 *   chsw                       vbi_channel_switched
 *   rawinit <scanning> <services> <strict>
 *   raw <seed> | add <services> <strict> | remove <services> | check <services> <strict>
 *   resize <start0> <count0> <start1> <count1> | rawreset | rawparams <scanning> <services>
 *   sched <dt_ms> <k> <item>...  deterministic schedule point: one vbi_decode call like `decode`, and right after the k-th
 *                              release of chswcd_mutex inside that call (k = 1, 2, ..; the mutex is free there, so another
 *                              thread may run) vbi_channel_switched() is executed, as a thread scheduled exactly there would;
 *                              then one more frame without data is decoded (the "next frame" at which the documented reset is due).
 *                              prints ok sched n=<releases in the call> at=<k> inj=<0|1> pre=<countdown before>
 *                              v=<countdown after each release,..> r=<resets so far at each release,..> rinj=<resets at the injection>
 *                              end1=<countdown after the call> r1=<resets in the call> end2=<.. after the next frame> r2=<resets in it>
 *                              (a reset = vbi_chsw_reset reached vbi_caption_channel_switched, counted through the linker wrap)
 * Trace tokens: L<m> U<m> lock/unlock, T<m> trylock ok, F<m> trylock failed, C handler entered,
 *   W<field> the bytes of that shared field changed since the previous token,
 *   !cc:<event type> the handler found cc.mutex held by its own thread (vbi_fetch_cc_page would self-deadlock),
 *   !wiped vbi_raw_decoder_parameters cleared the whole vbi_raw_decoder (mutex, rd->pattern) on failure.
 *
 * Concurrent op:
 *   par <seed> <frames> <handler mode> <gap> <threads>   threads: string over D T F C R A X; the decode
 *     stream drops frames (time gap, starts the 40 frame channel-switch countdown) about every <gap> frames, 0 = never
 *     D decode thread (seeded caption stream with time gaps), T the same with a Teletext service whose page headers
 *     carry the page number and whose station name changes every 24 headers (a channel switch nobody announced:
 *     store_lop() detects the header mismatch in the same magazine and resets the decoder), F fetch loop, C channel-switch loop,
 *     R raw decode loop, A add/remove/check services loop, X resize loop (NOT a documented role)
 *   prints  ok par fetches=.. torn=.. selfdl=.. raw=.. svc=.. ; ThreadSanitizer reports go to stderr.
 *   A fetched page is `torn` when its text is not one of the page states the same stream produces
 *   sequentially at a point where the decode thread does not hold cc.mutex.
 */
#ifdef HAVE_CONFIG_H
#  include "config.h"
#endif
#include "hutil.h"
#include <pthread.h>
#include <unistd.h>
#include <sched.h>
#include <time.h>
#include "src/vbi.h"
#include "src/raw_decoder.h"
#include "src/decoder.h"

int __real_pthread_mutex_lock(pthread_mutex_t *m);
int __real_pthread_mutex_unlock(pthread_mutex_t *m);
int __real_pthread_mutex_trylock(pthread_mutex_t *m);

static vbi_decoder *g_vbi;
static vbi_raw_decoder g_rd;
static int g_rd_ok;
static double g_time;

/* ---------------- recorder ---------------- */
static __thread int rec_on;           /* this thread records */
static char rec_buf[1 << 16];
static int rec_len;
static uintptr_t cc_owner;            /* thread holding cc.mutex (atomic) */

static void rec_tok(const char *k, const char *name)
{
	if (rec_len + 64 < (int) sizeof rec_buf)
		rec_len += snprintf(rec_buf + rec_len, 64, " %s%s", k, name);
}

static const char *mutex_name(pthread_mutex_t *m)
{
	if (g_vbi) {
		if (m == &g_vbi->cc.mutex) return "cc";
		if (m == &g_vbi->chswcd_mutex) return "chswcd";
		if (m == &g_vbi->event_mutex) return "event";
		if (m == &g_vbi->prog_info_mutex) return "prog_info";
	}
	if (m == &g_rd.mutex) return "rd";
	return NULL;
}

#define NOTSAN __attribute__((no_sanitize("thread"), noinline))
/* word-wise mixing hash; only used to notice that a region changed */
NOTSAN static uint64_t fnv(uint64_t h, const void *p, size_t n)
{
	const uint8_t *b = (const uint8_t *) p;
	size_t i = 0;
	for (; i + 8 <= n; i += 8) {
		uint64_t w;
		memcpy(&w, b + i, 8);
		h = (h ^ w) * 1099511628211ull;
		h ^= h >> 29;
	}
	for (; i < n; ++i) { h ^= b[i]; h *= 1099511628211ull; }
	return h;
}
#define H0 1469598103934665603ull

enum { V_CHANNEL, V_XDS, V_SUBP, V_ITV, V_INFO, V_LAST, V_CURR, V_TRANSP, V_CHSWCD, V_HANDLERS, V_EVMASK,
       V_TIME, V_NETWORK, V_RDCOUNT, V_RDSTART, V_RDPATTERN, V_RDPAR, V_RD3, V_N };
static const char *vname[V_N] = { "cc.channel", "cc.xds", "cc.sub_packet", "cc.itv", "cc.info_cycle", "cc.last",
	"cc.curr_chan", "cc.transp_space", "vbi.chswcd", "vbi.handlers", "vbi.event_mask", "vbi.time", "vbi.network",
	"rd.count", "rd.start", "rd.pattern", "rd.par", "rd3" };
static uint64_t vhash[V_N];

NOTSAN static void snapshot(uint64_t *h)
{
	int i;
	for (i = 0; i < V_N; ++i) h[i] = 0;
	if (g_vbi) {
		struct caption *cc = &g_vbi->cc;
		struct event_handler *eh;
		h[V_CHANNEL] = fnv(H0, cc->channel, sizeof cc->channel);
		h[V_XDS] = fnv(H0, &cc->xds, sizeof cc->xds);
		h[V_SUBP] = fnv(fnv(H0, cc->sub_packet, sizeof cc->sub_packet), &cc->curr_sp, sizeof cc->curr_sp);
		h[V_ITV] = fnv(fnv(H0, cc->itv_buf, sizeof cc->itv_buf), &cc->itv_count, sizeof cc->itv_count);
		h[V_INFO] = fnv(H0, cc->info_cycle, sizeof cc->info_cycle);
		h[V_LAST] = fnv(H0, cc->last, sizeof cc->last);
		h[V_CURR] = fnv(H0, &cc->curr_chan, sizeof cc->curr_chan);
		h[V_TRANSP] = fnv(H0, cc->transp_space, sizeof cc->transp_space);
		h[V_CHSWCD] = fnv(H0, &g_vbi->chswcd, sizeof g_vbi->chswcd);
		h[V_HANDLERS] = fnv(H0, &g_vbi->next_handler, sizeof g_vbi->next_handler);
		for (eh = g_vbi->handlers; eh; eh = eh->next) {
			h[V_HANDLERS] = fnv(h[V_HANDLERS], &eh, sizeof eh);
			h[V_HANDLERS] = fnv(h[V_HANDLERS], &eh->event_mask, sizeof eh->event_mask);
		}
		h[V_EVMASK] = fnv(H0, &g_vbi->event_mask, sizeof g_vbi->event_mask);
		h[V_TIME] = fnv(H0, &g_vbi->time, sizeof g_vbi->time);
		h[V_NETWORK] = fnv(H0, &g_vbi->network, sizeof g_vbi->network);
	}
	if (g_rd_ok) {
		vbi3_raw_decoder *rd3 = (vbi3_raw_decoder *) g_rd.pattern;
		h[V_RDCOUNT] = fnv(H0, g_rd.count, sizeof g_rd.count);
		h[V_RDSTART] = fnv(H0, g_rd.start, sizeof g_rd.start);
		h[V_RDPATTERN] = fnv(H0, &g_rd.pattern, sizeof g_rd.pattern);
		h[V_RDPAR] = fnv(fnv(fnv(fnv(fnv(fnv(fnv(H0, &g_rd.scanning, sizeof g_rd.scanning),
			&g_rd.sampling_format, sizeof g_rd.sampling_format), &g_rd.sampling_rate, sizeof g_rd.sampling_rate),
			&g_rd.bytes_per_line, sizeof g_rd.bytes_per_line), &g_rd.offset, sizeof g_rd.offset),
			&g_rd.interlaced, sizeof g_rd.interlaced), &g_rd.synchronous, sizeof g_rd.synchronous);
		if (rd3) {
			uint64_t x = fnv(H0, &rd3->sampling, sizeof rd3->sampling);
			x = fnv(x, &rd3->services, sizeof rd3->services);
			x = fnv(x, &rd3->n_jobs, sizeof rd3->n_jobs);
			x = fnv(x, &rd3->n_sp_lines, sizeof rd3->n_sp_lines);
			x = fnv(x, &rd3->readjust, sizeof rd3->readjust);
			x = fnv(x, &rd3->pattern, sizeof rd3->pattern);
			x = fnv(x, rd3->jobs, sizeof rd3->jobs);
			if (rd3->pattern)
				x = fnv(x, rd3->pattern, (size_t)(rd3->sampling.count[0] + rd3->sampling.count[1])
					* _VBI3_RAW_DECODER_MAX_WAYS);
			h[V_RD3] = x;
		} else
			h[V_RD3] = vhash[V_RD3];     /* unreachable (rd->pattern wiped), not written */
	}
}

static void rec_changes(void)
{
	uint64_t h[V_N];
	int i;
	snapshot(h);
	for (i = 0; i < V_N; ++i)
		if (h[i] != vhash[i]) { rec_tok("W", vname[i]); vhash[i] = h[i]; }
}

/* page-state sets for the snapshot oracle */
#define HSET (1 << 18)
static uint64_t hset[9][HSET];
static int collecting;                /* the (sequential) decode thread records legal page states */
static void hset_add(int pgno, uint64_t h)
{
	uint64_t i = h & (HSET - 1);
	if (h == 0) h = 1;
	while (hset[pgno][i] && hset[pgno][i] != h) i = (i + 1) & (HSET - 1);
	hset[pgno][i] = h;
}
static int hset_has(int pgno, uint64_t h)
{
	uint64_t i = h & (HSET - 1);
	if (h == 0) h = 1;
	while (hset[pgno][i]) { if (hset[pgno][i] == h) return 1; i = (i + 1) & (HSET - 1); }
	return 0;
}
static uint64_t page_hash(const vbi_page *pg)
{
	uint64_t h = fnv(H0, pg->text, sizeof(vbi_char) * (size_t) pg->rows * (size_t) pg->columns);
	h = fnv(h, &pg->pgno, sizeof pg->pgno);
	return fnv(h, &pg->screen_opacity, sizeof pg->screen_opacity);
}
static void collect_states(void)
{
	int i;
	for (i = 0; i < 8; ++i) {
		cc_channel *ch = &g_vbi->cc.channel[i];
		hset_add(i + 1, page_hash(ch->pg + (ch->hidden ^ 1)));
	}
}

int __wrap_pthread_mutex_lock(pthread_mutex_t *m)
{
	int r;
	const char *n = rec_on ? mutex_name(m) : NULL;
	if (n) rec_changes();
	r = __real_pthread_mutex_lock(m);
	if (g_vbi && m == &g_vbi->cc.mutex)
		__atomic_store_n(&cc_owner, (uintptr_t) pthread_self(), __ATOMIC_RELAXED);
	if (n) rec_tok("L", n);
	return r;
}

/* deterministic schedule points (op `sched`): every release of chswcd_mutex by the decoding call is a point
   where another thread may run; at the chosen one vbi_channel_switched() is executed */
#define SCHED_MAX 64
static int sched_on, sched_at, sched_n, sched_inj, sched_busy, sched_rinj;
static int sched_v[SCHED_MAX], sched_r[SCHED_MAX];
static int n_reset;
void __real_vbi_caption_channel_switched(vbi_decoder *vbi);
void __wrap_vbi_caption_channel_switched(vbi_decoder *vbi)
{
	if (sched_on) ++n_reset;
	__real_vbi_caption_channel_switched(vbi);
}

int __wrap_pthread_mutex_unlock(pthread_mutex_t *m)
{
	const char *n = rec_on ? mutex_name(m) : NULL;
	int r;
	if (n) { rec_changes(); rec_tok("U", n); }
	if (g_vbi && m == &g_vbi->cc.mutex) {
		if (collecting) collect_states();
		__atomic_store_n(&cc_owner, (uintptr_t) 0, __ATOMIC_RELAXED);
	}
	r = __real_pthread_mutex_unlock(m);
	if (sched_on && !sched_busy && g_vbi && m == &g_vbi->chswcd_mutex) {
		if (sched_n < SCHED_MAX) { sched_v[sched_n] = g_vbi->chswcd; sched_r[sched_n] = n_reset; }
		++sched_n;
		if (sched_n == sched_at) {
			sched_busy = 1;
			vbi_channel_switched(g_vbi, 0);
			sched_busy = 0;
			sched_inj = 1;
			sched_rinj = n_reset;
		}
	}
	return r;
}

int __wrap_pthread_mutex_trylock(pthread_mutex_t *m)
{
	const char *n = rec_on ? mutex_name(m) : NULL;
	int r;
	if (n) rec_changes();
	r = __real_pthread_mutex_trylock(m);
	if (r == 0 && g_vbi && m == &g_vbi->cc.mutex)
		__atomic_store_n(&cc_owner, (uintptr_t) pthread_self(), __ATOMIC_RELAXED);
	if (n) rec_tok(r == 0 ? "T" : "F", n);
	return r;
}

/* ---------------- event handler ---------------- */
static int h_mode, h_count;
static long n_selfdl, n_fetch, n_torn;
static int par_check;                 /* fetched pages are checked against the state sets */

static void do_fetch(int pgno)
{
	vbi_page pg;
	if (vbi_fetch_cc_page(g_vbi, &pg, pgno, 1)) {
		__atomic_add_fetch(&n_fetch, 1, __ATOMIC_RELAXED);
		if (par_check && !hset_has(pgno, page_hash(&pg)))
			__atomic_add_fetch(&n_torn, 1, __ATOMIC_RELAXED);
	}
}

static void handler(vbi_event *ev, void *ud)
{
	(void) ud;
	if (rec_on) { rec_changes(); rec_tok("C", ""); }
	++h_count;
	if (h_mode & 1) {
		if (__atomic_load_n(&cc_owner, __ATOMIC_RELAXED) == (uintptr_t) pthread_self()) {
			/* callback delivered while this thread holds cc.mutex: vbi_fetch_cc_page would deadlock */
			++n_selfdl;
			if (rec_on) {
				char nm[24];
				snprintf(nm, sizeof nm, "cc:0x%x", (unsigned) ev->type);
				rec_tok("!", nm);
			}
		} else
			do_fetch(1 + h_count % 8);
	}
	if ((h_mode & 2) && h_count % 17 == 0)
		vbi_channel_switched(g_vbi, 0);
}

/* ---------------- state ---------------- */
static void reset_all(void)
{
	if (g_vbi) { vbi_decoder_delete(g_vbi); g_vbi = NULL; }
	if (g_rd_ok) { vbi_raw_decoder_destroy(&g_rd); g_rd_ok = 0; }
	g_vbi = vbi_decoder_new();
	g_time = 1000.0;
	h_mode = 0; h_count = 0;
	snapshot(vhash);
}

static void begin_rec(void) { rec_len = 0; rec_buf[0] = 0; snapshot(vhash); rec_on = 1; }
static void end_rec(const char *fn)
{
	rec_changes();
	rec_on = 0;
	printf("ok %s%s\n", fn, rec_buf);
}

static uint8_t odd(uint8_t c)
{
	int i, p = 0;
	c &= 0x7F;
	for (i = 0; i < 7; ++i) p ^= (c >> i) & 1;
	return (uint8_t)(c | (p ? 0 : 0x80));
}

static long progress_ctr;          /* bumped by every decoding iteration and every client call */
static int done_main;

/* ---------------- seeded caption stream of the decode thread ---------------- */
static uint32_t rnd(uint32_t *s) { *s = *s * 1664525u + 1013904223u; return *s >> 8; }

typedef struct { uint32_t seed; int frames; double time; int text_left; char txt; int gap_every; int station_every; } stream;

static int stream_frame(stream *st, vbi_sliced *sl, double *dt)
{
	uint32_t r = rnd(&st->seed);
	int n = 0;
	uint8_t a, b;
	*dt = 1 / 30.0;
	if (st->gap_every && (r % (unsigned) st->gap_every) == 0) *dt = 0.2;   /* dropped frames -> chswcd = 40 */
	r = rnd(&st->seed);
	if (st->text_left > 0) {
		a = (uint8_t) st->txt; b = (uint8_t) st->txt; st->text_left--;
	} else {
		switch (r % 8) {
		case 0: a = 0x14; b = 0x25; break;                       /* roll-up 2 rows */
		case 1: a = 0x14; b = 0x29; break;                       /* resume direct captioning */
		case 2: a = 0x14; b = 0x2C; break;                       /* erase displayed memory */
		case 3: a = 0x14; b = 0x2D; break;                       /* carriage return */
		case 4: a = 0x14; b = 0x20; break;                       /* resume caption loading */
		case 5: a = 0x14; b = 0x2F; break;                       /* end of caption (flip) */
		case 6: a = 0x14; b = 0x2B; break;                       /* resume text display */
		default: a = 0x11; b = (uint8_t)(0x40 + (r >> 4) % 32); break;   /* PAC */
		}
		st->text_left = 2 + (int)((r >> 10) % 14);
		st->txt = (char)('A' + (r >> 16) % 26);
	}
	sl[n].id = VBI_SLICED_CAPTION_525; sl[n].line = 21;
	sl[n].data[0] = odd(a); sl[n].data[1] = odd(b); n++;
	if ((r >> 20) % 4 == 0) {                                     /* something on field 2 as well */
		sl[n].id = VBI_SLICED_CAPTION_525; sl[n].line = 284;
		sl[n].data[0] = odd((uint8_t)('a' + r % 26)); sl[n].data[1] = odd((uint8_t)('a' + (r >> 5) % 26)); n++;
	}
	if ((r >> 24) % 5 == 0) {                                     /* a Teletext page header, always the same text */
		static const uint8_t ham8[16] = { 0x15, 0x02, 0x49, 0x5E, 0x64, 0x73, 0x38, 0x2F,
						  0xD0, 0xC7, 0x8C, 0x9B, 0xA1, 0xB6, 0xFD, 0xEA };
		static const char txt0[] = "ZVBI TEST               12:34:56";
		static const char *const stations[3] = { "ZVBI ONE", "OTHER TV", "THIRD PROGRAMME" };
		char txt[40];
		int i;
		if (st->station_every > 0)         /* rolling header with page number; the station changes unannounced */
			snprintf(txt, sizeof txt, "10%d %-20.20s12:34:56", st->frames & 1,
				 stations[(st->frames / st->station_every) % 3]);
		else
			memcpy(txt, txt0, sizeof txt0);
		sl[n].id = VBI_SLICED_TELETEXT_B; sl[n].line = 7;
		sl[n].data[0] = ham8[1]; sl[n].data[1] = ham8[0];
		for (i = 2; i < 10; ++i) sl[n].data[i] = ham8[0];
		sl[n].data[2] = ham8[st->frames++ & 1];                   /* pages 100 and 101 in turn: each header stores the other page */
		for (i = 0; i < 32; ++i) sl[n].data[10 + i] = odd((uint8_t) txt[i]);
		n++;
	}
	return n;
}

static int par_station;             /* > 0: the Teletext station of the decode stream changes every .. headers */

static void run_stream(uint32_t seed, int frames, int gap_every)
{
	stream st;
	vbi_sliced sl[4];
	int f;
	memset(&st, 0, sizeof st);
	st.seed = seed; st.gap_every = gap_every; st.station_every = par_station;
	for (f = 0; f < frames; ++f) {
		double dt;
		int n = stream_frame(&st, sl, &dt);
		g_time += dt;
		vbi_decode(g_vbi, sl, n, g_time);
		__atomic_add_fetch(&progress_ctr, 1, __ATOMIC_RELAXED);
		if (collecting) collect_states();
	}
}

/* ---------------- threads of the concurrent op ---------------- */
static volatile int stop_flag;
static uint32_t par_seed;
static int par_frames, par_gap;
static long n_raw, n_svc;

/* watchdog: while an op is being executed some thread must make progress */
static int busy;
static void *th_monitor(void *a)
{
	long last = -1;
	int idle = 0;
	(void) a;
	for (;;) {
		long now = __atomic_load_n(&progress_ctr, __ATOMIC_RELAXED);
		usleep(100000);
		if (!__atomic_load_n(&busy, __ATOMIC_RELAXED) || now != last) idle = 0; else idle++;
		last = now;
		if (idle > 100) {
			fprintf(stderr, "WATCHDOG: no thread made progress for 10 s (deadlock)\n");
			fflush(stdout);
			_exit(70);
		}
	}
	return NULL;
}

static void *th_decode(void *a)
{
	(void) a;
	run_stream(par_seed, par_frames, par_gap);
	__atomic_add_fetch(&done_main, 1, __ATOMIC_RELAXED);
	return NULL;
}

static void *th_fetch(void *a)
{
	uint32_t s = (uint32_t)(uintptr_t) a * 7919u + 1;
	unsigned k = 0;
	while (!__atomic_load_n(&stop_flag, __ATOMIC_RELAXED)) {
		do_fetch(1 + (int)(rnd(&s) % 8));
		__atomic_add_fetch(&progress_ctr, 1, __ATOMIC_RELAXED);
		if (++k % 16 == 0) usleep(80);   /* pthread mutexes are not fair: do not starve the decoder */
	}
	return NULL;
}

static void *th_chsw(void *a)
{
	(void) a;
	while (!__atomic_load_n(&stop_flag, __ATOMIC_RELAXED)) {
		vbi_channel_switched(g_vbi, 0);
		usleep(4000);
	}
	return NULL;
}

static unsigned raw_lines(void) { return (unsigned)(g_rd.count[0] + g_rd.count[1]); }

static void *th_raw(void *a)
{
	uint32_t s = par_seed ^ 0x5bd1e995u;
	unsigned lines = raw_lines();
	size_t sz = (size_t) lines * (size_t) g_rd.bytes_per_line;
	uint8_t *raw = (uint8_t *) malloc(sz ? sz : 1);
	vbi_sliced *out = (vbi_sliced *) malloc(sizeof(vbi_sliced) * (lines ? lines : 1));
	int f;
	size_t i;
	(void) a;
	for (f = 0; f < par_frames; ++f) {
		for (i = 0; i < sz; i += 97) raw[i] = (uint8_t) rnd(&s);
		vbi_raw_decode(&g_rd, raw, out);
		__atomic_add_fetch(&n_raw, 1, __ATOMIC_RELAXED);
		__atomic_add_fetch(&progress_ctr, 1, __ATOMIC_RELAXED);
	}
	free(raw); free(out);
	__atomic_add_fetch(&done_main, 1, __ATOMIC_RELAXED);
	return NULL;
}

static const unsigned svc_sets[] = { VBI_SLICED_TELETEXT_B, VBI_SLICED_VPS, VBI_SLICED_CAPTION_625,
	VBI_SLICED_WSS_625, VBI_SLICED_TELETEXT_B | VBI_SLICED_VPS, VBI_SLICED_CAPTION_525, 0xFFFFFFFFu };

static void *th_services(void *a)
{
	uint32_t s = (uint32_t)(uintptr_t) a * 104729u + 3;
	while (!__atomic_load_n(&stop_flag, __ATOMIC_RELAXED)) {
		uint32_t r = rnd(&s);
		unsigned set = svc_sets[r % (sizeof svc_sets / sizeof svc_sets[0])];
		switch ((r >> 8) % 3) {
		case 0: vbi_raw_decoder_add_services(&g_rd, set, (int)((r >> 12) % 3)); break;
		case 1: vbi_raw_decoder_remove_services(&g_rd, set); break;
		default: vbi_raw_decoder_check_services(&g_rd, set, (int)((r >> 12) % 3)); break;
		}
		__atomic_add_fetch(&n_svc, 1, __ATOMIC_RELAXED);
		__atomic_add_fetch(&progress_ctr, 1, __ATOMIC_RELAXED);
		sched_yield();
	}
	return NULL;
}

static void *th_resize(void *a)          /* NOT a documented concurrent role; used to show the detector works */
{
	int start[2];
	unsigned count[2];
	int k = 0;
	(void) a;
	while (!__atomic_load_n(&stop_flag, __ATOMIC_RELAXED)) {
		start[0] = g_rd.start[0]; start[1] = g_rd.start[1];
		count[0] = 16 - (unsigned)(k & 1); count[1] = 16 - (unsigned)(k & 1);   /* never larger than the buffers */
		vbi_raw_decoder_resize(&g_rd, start, count);
		++k;
		usleep(200);
	}
	return NULL;
}

static int join_all(pthread_t *t, int n, int secs)
{
	struct timespec ts;
	int i;
	clock_gettime(CLOCK_REALTIME, &ts);
	ts.tv_sec += secs;
	for (i = 0; i < n; ++i)
		if (pthread_timedjoin_np(t[i], NULL, &ts) != 0) return -1;
	return 0;
}

static int rd_setup(int scanning, unsigned services, int strict)
{
	if (g_rd_ok) vbi_raw_decoder_destroy(&g_rd);
	vbi_raw_decoder_init(&g_rd);
	g_rd_ok = 1;
	if (0 == vbi_raw_decoder_parameters(&g_rd, services, scanning, NULL)) {
		/* no requested service fits: zvbi has cleared the whole structure (see NOTES/C20.md, K3);
		   start again with an empty decoder */
		vbi_raw_decoder_init(&g_rd);
		vbi_raw_decoder_parameters(&g_rd, VBI_SLICED_TELETEXT_B | VBI_SLICED_VPS, 625, NULL);
		return 0;
	}
	vbi_raw_decoder_add_services(&g_rd, services, strict);
	return 1;
}

static void op_par(void)
{
	long long seed, frames, mode, gap;
	const char *th;
	pthread_t main_t[8], aux_t[16];
	int nm = 0, na = 0, i, hasD, hasR;
	if (h_ntok != 6 || !h_int(h_tok[1], &seed) || !h_int(h_tok[2], &frames) || !h_int(h_tok[3], &mode)
	    || !h_int(h_tok[4], &gap) || gap < 0 || gap > 100000 || mode < 0 || mode > 3) { puts("rej parse"); return; }
	th = h_tok[5];
	if (strlen(th) > 8 || strspn(th, "DTFCRAX") != strlen(th) || frames < 1 || frames > 2000000) { puts("rej parse"); return; }
	hasD = strchr(th, 'D') != NULL || strchr(th, 'T') != NULL; hasR = strchr(th, 'R') != NULL;
	if (!hasD && !hasR) { puts("rej parse"); return; }
	if (strchr(th, 'D') && strchr(th, 'T')) { puts("rej parse"); return; }        /* one decode thread */
	par_station = strchr(th, 'T') ? 24 : 0;
	par_seed = (uint32_t) seed; par_frames = (int) frames; par_gap = (int) gap;
	n_fetch = n_torn = n_selfdl = n_raw = n_svc = 0;
	stop_flag = 0; done_main = 0;
	if (hasD) {
		/* 1. the same stream sequentially: the set of legal page states */
		memset(hset, 0, sizeof hset);
		reset_all();
		h_mode = (int) mode;
		vbi_event_handler_register(g_vbi, VBI_EVENT_CAPTION | VBI_EVENT_TRIGGER | VBI_EVENT_NETWORK | VBI_EVENT_ASPECT | VBI_EVENT_TTX_PAGE, handler, NULL);
		collecting = 1; par_check = 0;
		collect_states();
		run_stream(par_seed, par_frames, par_gap);
		collecting = 0;
		/* 2. fresh decoder, same stream, now with the other roles running */
		reset_all();
		h_mode = (int) mode;
		vbi_event_handler_register(g_vbi, VBI_EVENT_CAPTION | VBI_EVENT_TRIGGER | VBI_EVENT_NETWORK | VBI_EVENT_ASPECT | VBI_EVENT_TTX_PAGE, handler, NULL);
		n_fetch = n_torn = n_selfdl = 0;
		par_check = strchr(th, 'C') == NULL && !(mode & 2);   /* channel switches at random times: states not replayable */
	}
	if (hasR)
		rd_setup(625, VBI_SLICED_TELETEXT_B | VBI_SLICED_VPS | VBI_SLICED_CAPTION_625 | VBI_SLICED_WSS_625, 0);
	for (i = 0; th[i]; ++i) {
		switch (th[i]) {
		case 'D': case 'T': pthread_create(&main_t[nm++], NULL, th_decode, NULL); break;
		case 'R': pthread_create(&main_t[nm++], NULL, th_raw, NULL); break;
		case 'F': pthread_create(&aux_t[na], NULL, th_fetch, (void *)(uintptr_t)(na + 1)); na++; break;
		case 'C': pthread_create(&aux_t[na++], NULL, th_chsw, NULL); break;
		case 'A': pthread_create(&aux_t[na], NULL, th_services, (void *)(uintptr_t)(na + 1)); na++; break;
		case 'X': pthread_create(&aux_t[na++], NULL, th_resize, NULL); break;
		}
	}
	join_all(main_t, nm, 100000);
	__atomic_store_n(&stop_flag, 1, __ATOMIC_RELAXED);
	if (join_all(aux_t, na, 20) != 0) {
		fprintf(stderr, "WATCHDOG: a client thread made no progress for 20 s (deadlock)\n");
		fflush(stdout);
		_exit(70);
	}
	par_check = 0;
	printf("ok par fetches=%s torn=%ld selfdl=%ld raw=%s svc=%s\n", n_fetch ? "some" : "0", n_torn, n_selfdl,
	       n_raw ? "some" : "0", n_svc ? "some" : "0");
}

/* ---------------- sequential ops ---------------- */
static void op_decode(int sched)
{
	vbi_sliced sl[16];
	long long dt, at = 0;
	int n = 0, i, first = sched ? 3 : 2;
	if (h_ntok < first || h_ntok > first + 16 || !h_int(h_tok[1], &dt) || dt < 0 || dt > 100000) { puts("rej parse"); return; }
	if (sched && (!h_int(h_tok[2], &at) || at < 0 || at > SCHED_MAX)) { puts("rej parse"); return; }
	memset(sl, 0, sizeof sl);
	for (i = first; i < h_ntok; ++i) {
		const char *s = h_tok[i];
		uint8_t *b;
		int len;
		if (s[0] == 'c') {
			char *colon = strchr(s, ':');
			long long line;
			char num[16];
			if (!colon || colon - s - 1 > 8 || colon == s + 1) { puts("rej parse"); return; }
			memcpy(num, s + 1, (size_t)(colon - s - 1)); num[colon - s - 1] = 0;
			if (!h_int(num, &line) || !(b = h_hex(colon + 1, &len))) { puts("rej parse"); return; }
			if (len != 2) { free(b); puts("rej parse"); return; }
			sl[n].id = (line == 22 || line == 335) ? VBI_SLICED_CAPTION_625 : VBI_SLICED_CAPTION_525;
			sl[n].line = (uint32_t) line;
			memcpy(sl[n].data, b, 2);
			free(b);
		} else if ((s[0] == 't' || s[0] == 'v') && s[1] == ':') {
			int want = s[0] == 't' ? 42 : 13;
			if (!(b = h_hex(s + 2, &len))) { puts("rej parse"); return; }
			if (len != want) { free(b); puts("rej parse"); return; }
			sl[n].id = s[0] == 't' ? VBI_SLICED_TELETEXT_B : VBI_SLICED_VPS;
			sl[n].line = s[0] == 't' ? 7 : 16;
			memcpy(sl[n].data, b, (size_t) want);
			free(b);
		} else { puts("rej parse"); return; }
		n++;
	}
	g_time += dt / 1000.0;
	if (sched) {
		int pre = g_vbi->chswcd, end1, r1, k;
		sched_n = 0; sched_inj = 0; sched_rinj = 0; n_reset = 0; sched_at = (int) at; sched_on = 1;
		vbi_decode(g_vbi, sl, n, g_time);
		end1 = g_vbi->chswcd; r1 = n_reset;
		sched_at = 0; k = sched_n;
		g_time += 0.033;
		vbi_decode(g_vbi, sl, 0, g_time);
		sched_on = 0;
		printf("ok sched n=%d at=%d inj=%d pre=%d v=", k, (int) at, sched_inj, pre);
		for (i = 0; i < k && i < SCHED_MAX; ++i) printf("%s%d", i ? "," : "", sched_v[i]);
		if (!k) printf("-");
		printf(" r=");
		for (i = 0; i < k && i < SCHED_MAX; ++i) printf("%s%d", i ? "," : "", sched_r[i]);
		if (!k) printf("-");
		printf(" rinj=%d end1=%d r1=%d end2=%d r2=%d\n", sched_rinj, end1, r1, g_vbi->chswcd, n_reset - r1);
		return;
	}
	begin_rec();
	vbi_decode(g_vbi, sl, n, g_time);
	end_rec("vbi_decode");
}

int main(void)
{
	int r;
	long long a, b, c, d;
	setvbuf(stdout, NULL, _IOLBF, 0);
	{
		pthread_t mon;
		pthread_create(&mon, NULL, th_monitor, NULL);
		pthread_detach(mon);
	}
	reset_all();
	for (;;) {
		const char *op;
		__atomic_store_n(&busy, 0, __ATOMIC_RELAXED);      /* waiting for input is not a hang */
		if (!(r = h_next())) break;
		if (r == 2) {
			reset_all();
			fprintf(stderr, "@@case %s\n", h_ntok > 1 ? h_tok[1] : "?");
			continue;
		}
		op = h_tok[0];
		__atomic_add_fetch(&progress_ctr, 1, __ATOMIC_RELAXED);
		__atomic_store_n(&busy, 1, __ATOMIC_RELAXED);
		if (!strcmp(op, "handler")) {
			if (h_ntok != 3 || !h_int(h_tok[1], &a) || !h_int(h_tok[2], &b) || b < 0 || b > 3) { puts("rej parse"); continue; }
			h_mode = (int) b;
			begin_rec();
			vbi_event_handler_register(g_vbi, (int) a, handler, NULL);
			rec_on = 0;
			puts("ok");
		} else if (!strcmp(op, "decode")) {
			op_decode(0);
		} else if (!strcmp(op, "sched")) {
			op_decode(1);
		} else if (!strcmp(op, "fetch")) {
			vbi_page pg;
			if (h_ntok != 2 || !h_int(h_tok[1], &a) || a < -100 || a > 100) { puts("rej parse"); continue; }
			begin_rec();
			vbi_fetch_cc_page(g_vbi, &pg, (vbi_pgno) a, 1);
			end_rec("vbi_fetch_cc_page");
		} else if (!strcmp(op, "chsw")) {
			if (h_ntok != 1) { puts("rej parse"); continue; }
			begin_rec();
			vbi_channel_switched(g_vbi, 0);
			end_rec("vbi_channel_switched");
		} else if (!strcmp(op, "rawinit")) {
			if (h_ntok != 4 || !h_int(h_tok[1], &a) || !h_int(h_tok[2], &b) || !h_int(h_tok[3], &c)
			    || (a != 525 && a != 625 && a != 0) || c < 0 || c > 2) { puts("rej parse"); continue; }
			puts(rd_setup((int) a, (unsigned) b, (int) c) ? "ok" : "ok noservices");
		} else if (!strcmp(op, "raw")) {
			if (h_ntok != 2 || !h_int(h_tok[1], &a)) { puts("rej parse"); continue; }
			if (!g_rd_ok) { puts("rej norawdecoder"); continue; }
			{
				uint32_t s = (uint32_t) a;
				unsigned lines = raw_lines();
				size_t sz = (size_t) lines * (size_t) g_rd.bytes_per_line, i;
				uint8_t *raw = (uint8_t *) malloc(sz ? sz : 1);
				vbi_sliced *out = (vbi_sliced *) malloc(sizeof(vbi_sliced) * (lines ? lines : 1));
				for (i = 0; i < sz; ++i) raw[i] = (uint8_t) rnd(&s);
				begin_rec();
				vbi_raw_decode(&g_rd, raw, out);
				end_rec("vbi_raw_decode");
				free(raw); free(out);
			}
		} else if (!strcmp(op, "add") || !strcmp(op, "check")) {
			if (h_ntok != 3 || !h_int(h_tok[1], &a) || !h_int(h_tok[2], &b) || b < 0 || b > 2) { puts("rej parse"); continue; }
			if (!g_rd_ok) { puts("rej norawdecoder"); continue; }
			begin_rec();
			if (op[0] == 'a') vbi_raw_decoder_add_services(&g_rd, (unsigned) a, (int) b);
			else vbi_raw_decoder_check_services(&g_rd, (unsigned) a, (int) b);
			end_rec(op[0] == 'a' ? "vbi_raw_decoder_add_services" : "vbi_raw_decoder_check_services");
		} else if (!strcmp(op, "remove")) {
			if (h_ntok != 2 || !h_int(h_tok[1], &a)) { puts("rej parse"); continue; }
			if (!g_rd_ok) { puts("rej norawdecoder"); continue; }
			begin_rec();
			vbi_raw_decoder_remove_services(&g_rd, (unsigned) a);
			end_rec("vbi_raw_decoder_remove_services");
		} else if (!strcmp(op, "resize")) {
			int start[2];
			unsigned count[2];
			if (h_ntok != 5 || !h_int(h_tok[1], &a) || !h_int(h_tok[2], &b) || !h_int(h_tok[3], &c) || !h_int(h_tok[4], &d)
			    || b < 0 || b > 64 || d < 0 || d > 64 || a < 0 || a > 700 || c < 0 || c > 700) { puts("rej parse"); continue; }
			if (!g_rd_ok) { puts("rej norawdecoder"); continue; }
			start[0] = (int) a; count[0] = (unsigned) b; start[1] = (int) c; count[1] = (unsigned) d;
			begin_rec();
			vbi_raw_decoder_resize(&g_rd, start, count);
			end_rec("vbi_raw_decoder_resize");
		} else if (!strcmp(op, "rawparams")) {
			/* vbi_raw_decoder_parameters on the live decoder (documented for use before adding services) */
			if (h_ntok != 3 || !h_int(h_tok[1], &a) || !h_int(h_tok[2], &b) || (a != 525 && a != 625 && a != 0)) { puts("rej parse"); continue; }
			if (!g_rd_ok) { puts("rej norawdecoder"); continue; }
			begin_rec();
			vbi_raw_decoder_parameters(&g_rd, (unsigned) b, (int) a, NULL);
			if (NULL == g_rd.pattern) rec_tok("!", "wiped");
			end_rec("vbi_raw_decoder_parameters");
			if (NULL == g_rd.pattern) {      /* unusable now: every later call would assert */
				vbi_raw_decoder_init(&g_rd);
				vbi_raw_decoder_parameters(&g_rd, VBI_SLICED_TELETEXT_B | VBI_SLICED_VPS, 625, NULL);
			}
		} else if (!strcmp(op, "rawreset")) {
			if (h_ntok != 1) { puts("rej parse"); continue; }
			if (!g_rd_ok) { puts("rej norawdecoder"); continue; }
			begin_rec();
			vbi_raw_decoder_reset(&g_rd);
			end_rec("vbi_raw_decoder_reset");
		} else if (!strcmp(op, "par")) {
			op_par();
		} else
			puts("rej op");
	}
	if (g_vbi) vbi_decoder_delete(g_vbi);
	if (g_rd_ok) vbi_raw_decoder_destroy(&g_rd);
	fflush(stdout);
	fprintf(stderr, "@@done\n");      /* TSAN_OPTIONS exitcode=0 also hides fatal signals: the runner wants to see this */
	return 0;
}
