/* Harness for component `fmt` (C02): the real Teletext decoder, cache and Level 1/1.5 formatter.
   Speaks the line protocol of lean/Driver/Fmt.lean.

   `fmt`/`spec`  call vbi_format_vt_page() on a fabricated cache_page (any 25x40 bytes, also bad parity)
   `pkt`         feeds one Teletext packet through vbi_decode() (one frame of 40 ms per packet)
   `evcount`/`events`  report the VBI_EVENT_TTX_PAGE callbacks seen so far
   `fetch`       vbi_fetch_vt_page() from the cache the decoder filled, at Level 1 or 1.5
   src/teletext.c is #included to reach the static character_set_designation(). */
#include "hutil.h"
#include "src/teletext.c"

static vbi_decoder *dec;
static double now;
#define MAXEV 4096
static struct { int pgno, subno, count; } evtab[MAXEV];
static int nev;

static void on_event(vbi_event *ev, void *user)
{
	int i;
	(void) user;
	if (ev->type != VBI_EVENT_TTX_PAGE) return;
	for (i = 0; i < nev; ++i)
		if (evtab[i].pgno == ev->ev.ttx_page.pgno && evtab[i].subno == ev->ev.ttx_page.subno) {
			evtab[i].count++; return;
		}
	if (nev < MAXEV) {
		evtab[nev].pgno = ev->ev.ttx_page.pgno; evtab[nev].subno = ev->ev.ttx_page.subno;
		evtab[nev].count = 1; nev++;
	}
}

static int evcmp(const void *a, const void *b)
{
	const int *x = a, *y = b;
	if (x[0] != y[0]) return x[0] < y[0] ? -1 : 1;
	if (x[1] != y[1]) return x[1] < y[1] ? -1 : 1;
	return 0;
}

static void reset(void)
{
	if (dec) vbi_decoder_delete(dec);
	dec = vbi_decoder_new();
	if (!dec) { fprintf(stderr, "vbi_decoder_new failed\n"); exit(3); }
	vbi_event_handler_register(dec, VBI_EVENT_TTX_PAGE, on_event, NULL);
	now = 1000.0;
	nev = 0;
}

#define NUM(i, v) (h_ntok > (i) && h_int(h_tok[i], &(v)))

static void put_cells(const vbi_page *pg)
{
	int r, c;
	for (r = 0; r < 25; ++r) {
		if (r) putchar(',');
		for (c = 0; c < 40; ++c) {
			const vbi_char *a = &pg->text[r * pg->columns + c];
			printf("%04x%02x%02x%x%x%x", a->unicode, a->foreground, a->background,
			       (a->flash ? 1 : 0) + (a->conceal ? 2 : 0), a->size, a->opacity);
		}
	}
}

/* fmt|spec lvl region pgno subno flags national hex1000 */
static int parse_page_args(int base, long long *lvl, long long *rg, long long *pg, long long *sn,
			   long long *fl, long long *na, uint8_t **bytes)
{
	int len;
	if (h_ntok != base + 7) return 0;
	if (!(NUM(base, *lvl) && NUM(base + 1, *rg) && NUM(base + 2, *pg) && NUM(base + 3, *sn)
	      && NUM(base + 4, *fl) && NUM(base + 5, *na))) return 0;
	if (!((*lvl == 1 || *lvl == 2) && *rg >= 0 && *rg < 88 && *pg >= 0x100 && *pg <= 0x8FF
	      && *sn >= 0 && *sn <= 0x3F7F && *fl >= 0 && *fl < 0x1000000 && *na >= 0 && *na < 8)) return 0;
	*bytes = h_hex(h_tok[base + 6], &len);
	if (!*bytes) return 0;
	if (len != 1000) { free(*bytes); *bytes = NULL; return 0; }
	return 1;
}

static vbi_wst_level level_of(long long l) { return l == 1 ? VBI_WST_LEVEL_1 : VBI_WST_LEVEL_1p5; }

int main(void)
{
	int r;
	reset();
	while ((r = h_next())) {
		long long v, v2, v3, lvl, rg, pgno, sn, fl, na;
		uint8_t *b = NULL; int len;
		if (r == 2) { reset(); continue; }
		if (H_IS(0, "tu") && h_ntok == 4) {
			if (!(NUM(1, v) && NUM(2, v2) && NUM(3, v3))) printf("rej parse\n");
			else if ((v == LATIN_G0 || v == CYRILLIC_1_G0 || v == CYRILLIC_2_G0 || v == CYRILLIC_3_G0
				  || v == GREEK_G0 || v == ARABIC_G0 || v == HEBREW_G0)
				 && v2 >= 0 && v2 < 14 && v3 >= 0x20 && v3 <= 0x7F)
				printf("ok %u\n", vbi_teletext_unicode((vbi_character_set) v, (vbi_national_subset) v2, (unsigned) v3));
			else printf("rej range\n");
		} else if (H_IS(0, "csd") && h_ntok == 4) {
			if (!(NUM(1, v) && NUM(2, v2) && NUM(3, v3))) printf("rej parse\n");
			else if (v >= 0 && v < 256 && v2 >= 0 && v2 < 256 && v3 >= 0 && v3 < 8) {
				struct vbi_font_descr *font[2];
				struct ttx_extension *ext = calloc(1, sizeof *ext);
				cache_page *cp = calloc(1, sizeof *cp);
				ext->charset_code[0] = (int) v; ext->charset_code[1] = (int) v2;
				cp->national = (int) v3;
				character_set_designation(font, ext, cp);
				printf("ok %d %d\n", (int)(font[0] - vbi_font_descriptors), (int)(font[1] - vbi_font_descriptors));
				free(ext); free(cp);
			} else printf("rej range\n");
		} else if ((H_IS(0, "fmt") || H_IS(0, "spec")) && h_ntok == 8) {
			if (!parse_page_args(1, &lvl, &rg, &pgno, &sn, &fl, &na, &b)) printf("rej parse\n");
			else {
				cache_page *cp = calloc(1, sizeof *cp);      /* exact size: ASan sees overruns */
				vbi_page *pg = malloc(sizeof *pg);
				memset(pg, 0x5A, sizeof *pg);
				cp->function = PAGE_FUNCTION_LOP;
				cp->pgno = (int) pgno; cp->subno = (int) sn; cp->flags = (int) fl; cp->national = (int) na;
				cp->lop_packets = 0x3FFFFFF;
				memcpy(cp->data.lop.raw, b, 1000);
				memset(cp->data.lop.raw[25], 0x20, 40);
				vbi_teletext_set_default_region(dec, (int) rg);
				if (vbi_format_vt_page(dec, pg, cp, level_of(lvl), 25, FALSE)) {
					printf("ok "); put_cells(pg); printf("\n");
				} else printf("ok false\n");
				free(pg); free(cp);
			}
		} else if ((H_IS(0, "fmtx") || H_IS(0, "specx")) && h_ntok == 13) {
			/* fmtx lvl region pgno subno flags national x28 cs0 cs1 fgclut bgclut hex1000: a page with
			   x28_designations and its own extension record (what X/28/0, X/28/4 leave in the cache) */
			long long x28, cs0, cs1, fgc, bgc;
			char *hex = h_tok[12];
			int ok = NUM(7, x28) && NUM(8, cs0) && NUM(9, cs1) && NUM(10, fgc) && NUM(11, bgc)
				&& x28 >= 0 && x28 < 0x1000000 && cs0 >= 0 && cs0 < 256 && cs1 >= 0 && cs1 < 256
				&& fgc >= 0 && fgc <= 32 && bgc >= 0 && bgc <= 48;
			h_tok[7] = hex; h_ntok = 8;
			if (!ok || !parse_page_args(1, &lvl, &rg, &pgno, &sn, &fl, &na, &b)) printf("rej parse\n");
			else {
				cache_page *cp = calloc(1, sizeof *cp);
				vbi_page *pg = malloc(sizeof *pg);
				struct ttx_extension *ext = &cp->data.ext_lop.ext;
				memset(pg, 0x5A, sizeof *pg);
				cp->function = PAGE_FUNCTION_LOP;
				cp->pgno = (int) pgno; cp->subno = (int) sn; cp->flags = (int) fl; cp->national = (int) na;
				cp->lop_packets = 0x3FFFFFF;
				memcpy(cp->data.lop.raw, b, 1000);
				memset(cp->data.lop.raw[25], 0x20, 40);
				cp->x28_designations = (unsigned int) x28;
				ext->charset_code[0] = (int) cs0; ext->charset_code[1] = (int) cs1;
				ext->foreground_clut = (unsigned int) fgc; ext->background_clut = (unsigned int) bgc;
				vbi_teletext_set_default_region(dec, (int) rg);
				if (vbi_format_vt_page(dec, pg, cp, level_of(lvl), 25, FALSE)) {
					printf("ok "); put_cells(pg); printf("\n");
				} else printf("ok false\n");
				free(pg); free(cp);
			}
		} else if (H_IS(0, "evcount") && h_ntok == 4) {
			if (!(NUM(1, v) && NUM(2, v2) && NUM(3, v3))) printf("rej parse\n");
			else {
				int i, n = 0;
				for (i = 0; i < nev; ++i)
					if (evtab[i].pgno == v && evtab[i].subno == v2) n = evtab[i].count;
				printf("ok %d\n", n);
			}
		} else if (H_IS(0, "events") && h_ntok == 2) {
			int i;
			qsort(evtab, nev, sizeof evtab[0], evcmp);
			printf("ok ");
			for (i = 0; i < nev; ++i)
				printf("%s%03x.%04x=%d", i ? "," : "", evtab[i].pgno, evtab[i].subno, evtab[i].count);
			if (!nev) printf("-");
			printf("\n");
		} else if (H_IS(0, "pkt") && h_ntok == 2) {
			b = h_hex(h_tok[1], &len);
			if (!b || len != 42) printf("rej parse\n");
			else {
				vbi_sliced sl;
				memset(&sl, 0, sizeof sl);
				sl.id = VBI_SLICED_TELETEXT_B; sl.line = 7;
				memcpy(sl.data, b, 42);
				now += 0.04;
				vbi_decode(dec, &sl, 1, now);
				printf("ok\n");
			}
		} else if ((H_IS(0, "fetch") || H_IS(0, "fetchx")) && h_ntok >= 6) {
			/* fetchx = fetch whose expectation (driver side) carries the page's X/28 record: 5 more tokens */
			long long any = 0;
			if (!(NUM(1, lvl) && NUM(2, rg) && NUM(3, pgno))) printf("rej parse\n");
			else if (0 == strcmp(h_tok[4], "any") ? (any = 1, 0) : !NUM(4, sn)) printf("rej parse\n");
			else if (!(h_ntok == 6 && H_IS(5, "none") && H_IS(0, "fetch")) && h_ntok != (H_IS(0, "fetchx") ? 23 : 18)) printf("rej parse\n");
			else if (!((lvl == 1 || lvl == 2) && rg >= 0 && rg < 88)) printf("rej parse\n");
			else {
				vbi_page *pg = malloc(sizeof *pg), *pn = malloc(sizeof *pn);
				int i;
				memset(pg, 0, sizeof *pg); memset(pn, 0, sizeof *pn);
				vbi_teletext_set_default_region(dec, (int) rg);
				if (!vbi_fetch_vt_page(dec, pg, (vbi_pgno) pgno, any ? VBI_ANY_SUBNO : (vbi_subno) sn,
						       level_of(lvl), 25, FALSE)) printf("ok none\n");
				else if (!vbi_fetch_vt_page(dec, pn, (vbi_pgno) pgno, any ? VBI_ANY_SUBNO : (vbi_subno) sn,
							    level_of(lvl), 25, TRUE)) printf("ok nav-fetch-failed\n");
				else {
					printf("ok %03x %04x ", pg->pgno, pg->subno);
					put_cells(pg);
					for (i = 0; i < 6; ++i) printf(" %03x:%04x", pn->nav_link[i].pgno, pn->nav_link[i].subno);
					printf("\n");
				}
				vbi_unref_page(pg); vbi_unref_page(pn);
				free(pg); free(pn);
			}
		} else printf("rej op\n");
		free(b);
		fflush(stdout);
	}
	if (dec) vbi_decoder_delete(dec);
	return 0;
}
