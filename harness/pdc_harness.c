/* Harness for component `pdc` (C14): the public PIL -> time functions of src/pdc.c.
   Speaks the line protocol of lean/Driver/Pdc.lean.

   libc calls made by pdc.c are interposed at link time (-Wl,--wrap=...), for three purposes:
     * failure injection  (strdup, setenv, time, localtime_r, gmtime_r, mktime),
     * a deterministic clock (time() returns the `now` given on the op line),
     * recording libc's time zone answers (localtime_r / mktime) so that the check can hand
       them to the Lean model as its `Zone` parameter (op prefix `rec`).
   Around every call the harness compares getenv("TZ") and libc's zone state (see snap()).

   ops (all numbers decimal, strings hex, `-` = none):
     limits
     settz <hex|unset>
     valid <pil>
     lto    <pil> <start> <east> <now> <inj>
     ltowin <pil> <start> <east> <now> <inj>
     totime <pil> <start> <tzhex|NULL> <zone> <now> <inj>
     win    <pil> <start> <tzhex|NULL> <zone> <now> <inj>
   <inj> = `-` or comma list of <site><k>: the k-th call of that site during the op fails.
   <zone> is for the model only.  A leading `rec` token appends the libc answers.

   Every call prints its return value AND errno: ` errno=<n>` after the value(s).  errno is set to the
   sentinel E0 (4242) before the call, so "left untouched" is visible.  libc is normalised by the
   interposers so that errno is a deterministic function of the control flow: a libc call that
   succeeds leaves errno as it was (POSIX allows either), a failing call sets the value glibc
   documents (strdup/setenv ENOMEM, localtime_r/gmtime_r/mktime EOVERFLOW; mktime returning -1 counts
   as failing, the C code cannot tell either), time() fails without setting errno.
   Ops on the file-local functions (the harness includes src/pdc.c), where errno carries the error
   kind (VBI_ERR_INVALID_PIL, VBI_ERR_NO_TIME, EOVERFLOW, ENOMEM):
     errnos                                              the four constants
     vlto    <pil> <start> <east> <now> <inj>            valid_pil_lto_to_time
     vltowin <pil> <start> <east> <now> <inj>            valid_pil_lto_validity_window
     ltz     <start> <tzhex|NULL> <zone> <now> <inj>     localtime_tz, then restore_tz
     pty     <start> <tzhex|NULL> <zone> <now> <inj>     vbi_pty_validity_window (public)

   Supervisor: main() never calls zvbi.  It forks a worker, hands it one line at a time and waits for
   the one output line under a watchdog (PDC_WD_MS, default 5000 ms).  A worker that hangs or dies
   (sanitizer abort, assertion, signal) is attributed to the op it was given:
     crash <hang|exit<rc>|sig<n>> <first line of the sanitizer report, blanks as _>
   the remaining ops of that case answer `skip`, a fresh worker serves the next case.  After
   CRASH_CAP crashes the remaining ops answer `skip` (bounded run time whatever the code does).
   `wdtest hang` / `wdtest abort` exercise the machinery itself (-> `ok watchdog hang|abort`).

   Harness-only probe (not part of the correspondence; validates the libc hypothesis
   `Zone.FollowsOffsets` of lean/ZvbiModel/Pdc/Spec.lean):
     mkrule <tzhex> <year> <mon 1..12> <mday> <hour> <min>
   -> ok <t> <hit|gap> <shift>      the rule holds; shift = (local view of t) - (requested local time)
      ok <t> BAD <which>            the rule is violated by this libc
      ok fail                       mktime returned -1 */
#include "hutil.h"
#include <time.h>
#include <stdarg.h>
#include <unistd.h>
#include <signal.h>
#include <poll.h>
#include <sys/wait.h>
#include "src/pdc.c"
#undef mktime
#undef timegm

/* pdc.c's only reference into the rest of libzvbi (used by vbi_pil_from_string / _vbi_pil_from_string, which are
   not in scope): with this stub the harness does not need the library and rebuilds in seconds */
vbi_bool _vbi_keyword_lookup(int *value, const char **inout_s, const _vbi_key_value_pair *table, unsigned int n_pairs)
{ (void) value; (void) inout_s; (void) table; (void) n_pairs; abort(); }

#define E0 4242

enum { S_STRDUP, S_SETENV, S_TIME, S_LOCALTIME, S_GMTIME, S_MKTIME, NSITES };
static const char *site_name[NSITES] = { "strdup", "setenv", "time", "localtime", "gmtime", "mktime" };
static int inj_k[NSITES], cnt[NSITES];
static int active, recording;
static long long now_value;
static char reclog[1 << 16]; static size_t reclen;

#define NLIVE 16
static void *live[NLIVE];
static int n_live(void) { int i, n = 0; for (i = 0; i < NLIVE; ++i) n += live[i] != NULL; return n; }

static int hit(int site)
{
	if (!active) return 0;
	++cnt[site];
	return inj_k[site] && cnt[site] == inj_k[site];
}

static void rec(const char *fmt, ...)
{
	va_list ap;
	if (!recording || !active) return;
	va_start(ap, fmt);
	if (reclen < sizeof reclog - 256) reclen += vsnprintf(reclog + reclen, 256, fmt, ap);
	va_end(ap);
}

char *__real_strdup(const char *);
char *__wrap_strdup(const char *s)
{
	char *p; int i;
	int e = errno;
	if (hit(S_STRDUP)) { errno = ENOMEM; return NULL; }
	p = __real_strdup(s);
	if (p) errno = e;
	if (active && p) for (i = 0; i < NLIVE; ++i) if (!live[i]) { live[i] = p; break; }
	return p;
}
void __real_free(void *);
void __wrap_free(void *p)
{
	int i, e = errno;
	if (p) for (i = 0; i < NLIVE; ++i) if (live[i] == p) live[i] = NULL;
	__real_free(p);
	errno = e;
}
void __real_tzset(void);
void __wrap_tzset(void) { int e = errno; __real_tzset(); errno = e; }
int __real_unsetenv(const char *);
int __wrap_unsetenv(const char *n) { int e = errno, r = __real_unsetenv(n); if (0 == r) errno = e; return r; }
int __real_setenv(const char *, const char *, int);
int __wrap_setenv(const char *n, const char *v, int o)
{
	int e = errno, r;
	if (hit(S_SETENV)) { errno = ENOMEM; return -1; }
	r = __real_setenv(n, v, o);
	if (0 == r) errno = e;
	return r;
}
time_t __real_time(time_t *);
time_t __wrap_time(time_t *t)
{
	if (!active) return __real_time(t);
	if (hit(S_TIME)) { errno = 0; if (t) *t = (time_t) -1; return (time_t) -1; }
	if (t) *t = (time_t) now_value;
	return (time_t) now_value;
}
struct tm *__real_localtime_r(const time_t *, struct tm *);
struct tm *__wrap_localtime_r(const time_t *t, struct tm *tm)
{
	struct tm *r; int e = errno;
	if (hit(S_LOCALTIME)) { errno = EOVERFLOW; return NULL; }
	r = __real_localtime_r(t, tm);
	if (r) rec("L%lld_%d_%d_%d_%d_%d_%d_%d;", (long long) *t, tm->tm_year, tm->tm_mon, tm->tm_mday,
		   tm->tm_hour, tm->tm_min, tm->tm_sec, tm->tm_isdst);
	else rec("L%lld_fail;", (long long) *t);
	errno = r ? e : EOVERFLOW;
	return r;
}
struct tm *__real_gmtime_r(const time_t *, struct tm *);
struct tm *__wrap_gmtime_r(const time_t *t, struct tm *tm)
{
	struct tm *r; int e = errno;
	if (hit(S_GMTIME)) { errno = EOVERFLOW; return NULL; }
	r = __real_gmtime_r(t, tm);
	errno = r ? e : EOVERFLOW;
	return r;
}
time_t __real_mktime(struct tm *);
time_t __wrap_mktime(struct tm *tm)
{
	struct tm in = *tm; time_t r; int e = errno;
	if (hit(S_MKTIME)) { errno = EOVERFLOW; return (time_t) -1; }
	r = __real_mktime(tm);
	rec("M%d_%d_%d_%d_%d_%d_%d_%lld;", in.tm_year, in.tm_mon, in.tm_mday, in.tm_hour, in.tm_min, in.tm_sec,
	    in.tm_isdst, (long long) r);
	errno = ((time_t) -1 == r) ? EOVERFLOW : e;
	return r;
}

/* ---- TZ state snapshot ----
   libc's zone state is observed through localtime_r, which (glibc) converts with the rules loaded by
   the last tzset() and does not re-read TZ.  tzname[]/timezone/daylight are not used: glibc rewrites
   them as a side effect of every conversion (e.g. "LMT" after converting a 16th century date). */
#define NPROBE 4
static const time_t probe_t[NPROBE] = { 0, 1000000000, 1700000000, 1720000000 };
struct tzsnap { char env[512]; int has_env; long off[NPROBE]; int dst[NPROBE]; char zn[NPROBE][32]; };
static void snap(struct tzsnap *s)
{
	const char *e = getenv("TZ"); int i;
	memset(s, 0, sizeof *s);
	s->has_env = e != NULL;
	if (e) snprintf(s->env, sizeof s->env, "%s", e);
	for (i = 0; i < NPROBE; ++i) {
		struct tm tm; memset(&tm, 0, sizeof tm);
		if (__real_localtime_r(&probe_t[i], &tm)) {
			s->off[i] = tm.tm_gmtoff; s->dst[i] = tm.tm_isdst;
			snprintf(s->zn[i], sizeof s->zn[i], "%s", tm.tm_zone ? tm.tm_zone : "");
		}
	}
}
static int same_state(const struct tzsnap *a, const struct tzsnap *b)
{
	int i;
	for (i = 0; i < NPROBE; ++i)
		if (a->off[i] != b->off[i] || a->dst[i] != b->dst[i] || strcmp(a->zn[i], b->zn[i])) return 0;
	return 1;
}
static void put_tail(const struct tzsnap *a, const struct tzsnap *b)
{
	printf(" tz=");
	if (!b->has_env) printf("unset"); else h_puthex((const uint8_t *) b->env, (int) strlen(b->env));
	printf(" env=%s", (a->has_env == b->has_env && 0 == strcmp(a->env, b->env)) ? "same" : "diff");
	printf(" st=%s", same_state(a, b) ? "same" : "diff");
	printf(" heap=%d", n_live());
	if (recording) { reclog[reclen] = 0; printf(" rec=%s", reclen ? reclog : "-"); }
	printf("\n");
}

static int parse_inj(const char *s)
{
	char buf[256]; char *p, *save;
	memset(inj_k, 0, sizeof inj_k);
	if (0 == strcmp(s, "-")) return 1;
	if (strlen(s) >= sizeof buf) return 0;
	strcpy(buf, s);
	for (p = strtok_r(buf, ",", &save); p; p = strtok_r(NULL, ",", &save)) {
		int i, ok = 0;
		for (i = 0; i < NSITES; ++i) {
			size_t l = strlen(site_name[i]);
			long long k;
			if (0 == strncmp(p, site_name[i], l) && isdigit((unsigned char) p[l]) && h_int(p + l, &k) && k >= 1 && k < 1000) {
				inj_k[i] = (int) k; ok = 1; break;
			}
		}
		if (!ok) return 0;
	}
	return 1;
}

/* tz argument: "NULL" or hex string (may be "-" = empty string). returns 0 on parse error */
static int parse_tz(const char *s, char **out)
{
	int len; uint8_t *b;
	*out = NULL;
	if (0 == strcmp(s, "NULL")) return 1;
	b = h_hex(s, &len);
	if (!b) return 0;
	*out = (char *) malloc((size_t) len + 1);
	memcpy(*out, b, (size_t) len); (*out)[len] = 0;
	if (strlen(*out) != (size_t) len) { free(*out); free(b); *out = NULL; return 0; }   /* embedded NUL */
	free(b);
	return 1;
}

/* ---- mktime rule probe ---- */
static int off_at(time_t x, long *off, struct tm *out)
{
	struct tm tm; memset(&tm, 0, sizeof tm);
	if (!__real_localtime_r(&x, &tm)) return 0;
	*off = tm.tm_gmtoff; if (out) *out = tm;
	return 1;
}
static void mkrule(const char *tz, int y, int mon, int mday, int hour, int min)
{
	static const long dd[] = { 0, -3600, 3600, -7200, 7200, -10800, 10800, -86400, 86400, -172800, 172800 };
	struct tm tm, lt, g; time_t t, L; long o, ot; size_t i; int hit = 0, gap_ok = 0;
	__real_setenv("TZ", tz, 1); tzset();
	memset(&tm, 0, sizeof tm);
	tm.tm_year = y - 1900; tm.tm_mon = mon - 1; tm.tm_mday = mday; tm.tm_hour = hour; tm.tm_min = min; tm.tm_isdst = -1;
	g = tm; g.tm_isdst = 0; L = timegm(&g);                      /* the requested local time as seconds */
	t = __real_mktime(&tm);
	if ((time_t) -1 == t) { printf("ok fail\n"); return; }
	if (!off_at(t, &ot, &lt)) { printf("ok %lld BAD converts\n", (long long) t); return; }
	/* localtime law: localtime_r (t) shows the civil time of t + off t */
	{ time_t u = t + ot; struct tm gm; memset(&gm, 0, sizeof gm); __real_gmtime_r(&u, &gm);
	  if (gm.tm_year != lt.tm_year || gm.tm_mon != lt.tm_mon || gm.tm_mday != lt.tm_mday || gm.tm_hour != lt.tm_hour
	      || gm.tm_min != lt.tm_min || gm.tm_sec != lt.tm_sec) { printf("ok %lld BAD localtime\n", (long long) t); return; } }
	for (i = 0; i < sizeof dd / sizeof *dd; ++i) {
		long o2;
		if (!off_at(t + dd[i], &o, NULL)) continue;
		if (t + o == L) gap_ok = 1;                                /* gap rule witness t' = t + dd[i] */
		if (off_at(L - o, &o2, NULL) && o2 == o) hit = 1;          /* the instant L - o shows local time L */
	}
	if (hit && t + ot != L) { printf("ok %lld BAD hit\n", (long long) t); return; }
	if (!gap_ok) { printf("ok %lld BAD gap\n", (long long) t); return; }
	printf("ok %lld %s %lld\n", (long long) t, hit ? "hit" : "gap", (long long)(t + ot - L));
}

static int in_int(long long v) { return v >= INT_MIN && v <= INT_MAX; }

/* strict signed 64-bit parse (decimal or 0x hex, optional '-'); out-of-range -> 0 */
static int p_i64(const char *s, long long *out)
{
	int neg = 0; unsigned long long v = 0, lim; const char *p = s;
	if (*p == '-') { neg = 1; ++p; }
	lim = neg ? 9223372036854775808ULL : 9223372036854775807ULL;
	if (!*p) return 0;
	if (p[0] == '0' && p[1] == 'x') {
		p += 2; if (!*p) return 0;
		for (; *p; ++p) { int d = h_hexval(*p); if (d < 0) return 0; if (v > (lim >> 4)) return 0; v = v * 16 + (unsigned) d; }
	} else {
		for (; *p; ++p) { unsigned d; if (!isdigit((unsigned char) *p)) return 0; d = (unsigned)(*p - '0');
			if (v > (lim - d) / 10) return 0; v = v * 10 + d; }
	}
	if (v > lim) return 0;
	*out = neg ? (long long)(0ULL - v) : (long long) v;
	return 1;
}

static int zone_ok(const char *s)
{
	long long v;
	if (0 == strcmp(s, "utc")) return 1;
	if (0 == strncmp(s, "fix:", 4)) return p_i64(s + 4, &v);
	if (0 == strncmp(s, "tab:", 4)) return 1;
	return 0;
}

static int worker(void)
{
	int r;
	unsetenv("TZ"); tzset();
	while ((r = h_next())) {
		long long pil, start, east, now; char *tz = NULL; int o = 0, e; struct tzsnap a, b;
		if (r == 2) { unsetenv("TZ"); tzset(); memset(live, 0, sizeof live); continue; }
		recording = 0;
		if (H_IS(0, "rec")) { recording = 1; o = 1; }
		reclen = 0; memset(cnt, 0, sizeof cnt); memset(inj_k, 0, sizeof inj_k);
#define T(i) (h_ntok > o + (i) ? h_tok[o + (i)] : "")
#define NUMO(i, v) (h_ntok > o + (i) && p_i64(h_tok[o + (i)], &(v)))
		if (H_IS(o, "limits") && h_ntok == o + 1) {
			time_t tmin = (time_t)(((uint64_t) 1) << (sizeof(time_t) * 8 - 1));
			time_t tmax = (time_t)((((uint64_t) 1) << (sizeof(time_t) * 8 - 1)) - 1);
			printf("ok %d %lld %lld %d %d %u %u %u %u %u\n", (int) sizeof(time_t), (long long) tmin, (long long) tmax, INT_MIN, INT_MAX,
			       (unsigned) VBI_PIL_TIMER_CONTROL, (unsigned) VBI_PIL_INHIBIT_TERMINATE, (unsigned) VBI_PIL_INTERRUPTION,
			       (unsigned) VBI_PIL_CONTINUE, (unsigned) VBI_PIL_NSPV);
		} else if (H_IS(o, "errnos") && h_ntok == o + 1) {
			printf("ok %d %d %d %d %d\n", (int) VBI_ERR_INVALID_PIL, (int) VBI_ERR_NO_TIME, EOVERFLOW, ENOMEM, VBI_VERSION_MINOR);
		} else if (H_IS(o, "wdtest") && h_ntok == o + 2) {
			if (0 == strcmp(T(1), "hang")) for (;;) pause();
			else if (0 == strcmp(T(1), "abort")) abort();
			else printf("rej parse\n");
		} else if (H_IS(o, "settz") && h_ntok == o + 2) {
			if (0 == strcmp(T(1), "unset")) { unsetenv("TZ"); tzset(); printf("ok\n"); }
			else if (parse_tz(T(1), &tz) && tz) { __real_setenv("TZ", tz, 1); tzset(); printf("ok\n"); }
			else printf("rej parse\n");
		} else if (H_IS(o, "mkrule") && h_ntok == o + 7) {
			long long y, mo, d, hh, mi;
			if (parse_tz(T(1), &tz) && tz && NUMO(2, y) && NUMO(3, mo) && NUMO(4, d) && NUMO(5, hh) && NUMO(6, mi)
			    && y > 1800 && y < 3000 && mo >= 1 && mo <= 12 && d >= 1 && d <= 31 && hh >= 0 && hh < 24 && mi >= 0 && mi < 60) {
				mkrule(tz, (int) y, (int) mo, (int) d, (int) hh, (int) mi);   /* leaves TZ set; `case` resets it */
			} else printf("rej parse\n");
		} else if (H_IS(o, "valid") && h_ntok == o + 2) {
			if (NUMO(1, pil) && pil >= 0 && pil <= 0xFFFFFFFFLL) printf("ok %d\n", vbi_pil_is_valid_date((vbi_pil) pil) ? 1 : 0);
			else printf("rej parse\n");
		} else if ((H_IS(o, "lto") || H_IS(o, "ltowin") || H_IS(o, "vlto") || H_IS(o, "vltowin")) && h_ntok == o + 6) {
			if (NUMO(1, pil) && pil >= 0 && pil <= 0xFFFFFFFFLL && NUMO(2, start) && NUMO(3, east) && in_int(east)
			    && NUMO(4, now) && parse_inj(T(5))) {
				now_value = now;
				tzset(); snap(&a);
				if (H_IS(o, "lto") || H_IS(o, "vlto")) {
					time_t t;
					errno = E0; active = 1;
					t = H_IS(o, "lto") ? vbi_pil_lto_to_time((vbi_pil) pil, (time_t) start, (int) east)
							   : valid_pil_lto_to_time((vbi_pil) pil, (time_t) start, (int) east);
					e = errno; active = 0;
					printf("ok %lld errno=%d", (long long) t, e);
				} else {
					time_t bg = 11111, en = 22222; vbi_bool ok;
					errno = E0; active = 1;
					ok = H_IS(o, "ltowin") ? vbi_pil_lto_validity_window(&bg, &en, (vbi_pil) pil, (time_t) start, (int) east)
							       : valid_pil_lto_validity_window(&bg, &en, (vbi_pil) pil, (time_t) start, (int) east);
					e = errno; active = 0;
					if (ok) printf("ok %lld %lld errno=%d", (long long) bg, (long long) en, e);
					else printf("ok false%s errno=%d", (bg != 11111 || en != 22222) ? "-but-modified" : "", e);
				}
				snap(&b); put_tail(&a, &b);
			} else printf("rej parse\n");
		} else if ((H_IS(o, "totime") || H_IS(o, "win")) && h_ntok == o + 7) {
			if (NUMO(1, pil) && pil >= 0 && pil <= 0xFFFFFFFFLL && NUMO(2, start) && parse_tz(T(3), &tz) && zone_ok(T(4))
			    && NUMO(5, now) && parse_inj(T(6))) {
				now_value = now;
				tzset(); snap(&a);
				if (H_IS(o, "totime")) {
					time_t t;
					errno = E0; active = 1; t = vbi_pil_to_time((vbi_pil) pil, (time_t) start, tz); e = errno; active = 0;
					printf("ok %lld errno=%d", (long long) t, e);
				} else {
					time_t bg = 11111, en = 22222; vbi_bool ok;
					errno = E0; active = 1; ok = vbi_pil_validity_window(&bg, &en, (vbi_pil) pil, (time_t) start, tz); e = errno; active = 0;
					if (ok) printf("ok %lld %lld errno=%d", (long long) bg, (long long) en, e);
					else printf("ok false%s errno=%d", (bg != 11111 || en != 22222) ? "-but-modified" : "", e);
				}
				snap(&b); put_tail(&a, &b);
			} else printf("rej parse\n");
		} else if ((H_IS(o, "ltz") || H_IS(o, "pty")) && h_ntok == o + 6) {
			if (NUMO(1, start) && parse_tz(T(2), &tz) && zone_ok(T(3)) && NUMO(4, now) && parse_inj(T(5))) {
				now_value = now;
				tzset(); snap(&a);
				if (H_IS(o, "ltz")) {
					struct tm tm; char *old = NULL; vbi_bool ok;
					errno = E0; active = 1; ok = localtime_tz(&tm, &old, (time_t) start, tz); e = errno;
					if (ok) {
						vbi_bool rok = restore_tz(&old, tz);
						active = 0;
						printf("ok 1 %d %d %d %d %d %d %d errno=%d r=%d", tm.tm_year, tm.tm_mon, tm.tm_mday, tm.tm_hour, tm.tm_min,
						       tm.tm_sec, tm.tm_isdst, e, rok ? 1 : 0);
					} else { active = 0; printf("ok 0 errno=%d", e); }
				} else {
					time_t bg = 11111, en = 22222; vbi_bool ok;
					errno = E0; active = 1; ok = vbi_pty_validity_window(&bg, &en, (time_t) start, tz); e = errno; active = 0;
					if (ok) printf("ok %lld %lld errno=%d", (long long) bg, (long long) en, e);
					else printf("ok false%s errno=%d", (bg != 11111 || en != 22222) ? "-but-modified" : "", e);
				}
				snap(&b); put_tail(&a, &b);
			} else printf("rej parse\n");
		} else if (H_IS(o, "limits") || H_IS(o, "settz") || H_IS(o, "valid") || H_IS(o, "lto") || H_IS(o, "ltowin")
			   || H_IS(o, "totime") || H_IS(o, "win") || H_IS(o, "vlto") || H_IS(o, "vltowin") || H_IS(o, "ltz")
			   || H_IS(o, "pty") || H_IS(o, "errnos") || H_IS(o, "wdtest")) printf("rej parse\n");
		else printf("rej op\n");
		free(tz);
		fflush(stdout);
	}
	return 0;
}

/* ---------------- supervisor ---------------- */
#define CRASH_CAP 40
static pid_t w_pid; static int w_in = -1, w_out = -1, w_err = -1;
static char errbuf[1 << 16]; static size_t errlen;

static void spawn(void)
{
	int pi[2], po[2], pe[2];
	if (pipe(pi) || pipe(po) || pipe(pe)) { perror("pipe"); exit(3); }
	fflush(stdout);
	w_pid = fork();
	if (w_pid < 0) { perror("fork"); exit(3); }
	if (0 == w_pid) {
		dup2(pi[0], 0); dup2(po[1], 1); dup2(pe[1], 2);
		close(pi[0]); close(pi[1]); close(po[0]); close(po[1]); close(pe[0]); close(pe[1]);
		exit(worker());                                       /* exit() so that LeakSanitizer runs */
	}
	close(pi[0]); close(po[1]); close(pe[1]);
	w_in = pi[1]; w_out = po[0]; w_err = pe[0]; errlen = 0;
}
static void drain_err(void)
{
	ssize_t n; char tmp[4096];
	while ((n = read(w_err, tmp, sizeof tmp)) > 0)
		if (errlen + (size_t) n < sizeof errbuf) { memcpy(errbuf + errlen, tmp, (size_t) n); errlen += (size_t) n; }
}
/* stop the worker; returns its wait status (or -1), stderr collected in errbuf */
static int reap(int kill_it)
{
	int st = -1;
	if (w_pid <= 0) return -1;
	if (kill_it) kill(w_pid, SIGKILL);
	if (w_in >= 0) { close(w_in); w_in = -1; }
	drain_err();
	waitpid(w_pid, &st, 0);
	drain_err();
	close(w_out); close(w_err); w_out = w_err = -1; w_pid = 0;
	return st;
}
/* first informative line of a sanitizer / assert report */
static void summary(char *dst, size_t n)
{
	char *p, *q; size_t i = 0;
	errbuf[errlen < sizeof errbuf ? errlen : sizeof errbuf - 1] = 0;
	p = strstr(errbuf, "runtime error:"); if (!p) p = strstr(errbuf, "ERROR: "); if (!p) p = strstr(errbuf, "Assertion");
	if (p) { while (p > errbuf && p[-1] != '\n') --p; } else p = errbuf;
	q = strchr(p, '\n'); if (!q) q = p + strlen(p);
	for (; p < q && i + 1 < n; ++p) dst[i++] = (*p == ' ' || *p == '\t') ? '_' : *p;
	if (0 == i) dst[i++] = '-';
	dst[i] = 0;
}
/* one request, one answer line; 1 = ok (line in *out), 0 = worker lost (kind filled) */
static int ask(const char *line, int wd_ms, char **out, size_t *cap, char *kind, size_t nk)
{
	size_t len = strlen(line), got = 0; int st;
	signal(SIGPIPE, SIG_IGN);
	if (write(w_in, line, len) != (ssize_t) len) goto dead;
	for (;;) {
		struct pollfd f[2]; int r;
		f[0].fd = w_out; f[0].events = POLLIN; f[1].fd = w_err; f[1].events = POLLIN;
		r = poll(f, 2, wd_ms);
		if (0 == r) { reap(1); snprintf(kind, nk, "hang"); return 0; }
		if (r < 0) { if (EINTR == errno) continue; goto dead; }
		if (f[1].revents & POLLIN) {
			char tmp[4096]; ssize_t n = read(w_err, tmp, sizeof tmp);
			if (n > 0 && errlen + (size_t) n < sizeof errbuf) { memcpy(errbuf + errlen, tmp, (size_t) n); errlen += (size_t) n; }
		}
		if (f[0].revents & POLLIN) {
			ssize_t n;
			if (got + 4096 + 1 > *cap) { *cap = (*cap + 4096) * 2; *out = (char *) realloc(*out, *cap); }
			n = read(w_out, *out + got, 4096);
			if (n <= 0) goto dead;
			got += (size_t) n; (*out)[got] = 0;
			if ((*out)[got - 1] == '\n') return 1;
		} else if (f[0].revents & (POLLHUP | POLLERR)) goto dead;
	}
dead:
	st = reap(0);
	if (st >= 0 && WIFEXITED(st)) snprintf(kind, nk, "exit%d", WEXITSTATUS(st));
	else if (st >= 0 && WIFSIGNALED(st)) snprintf(kind, nk, "sig%d", WTERMSIG(st));
	else snprintf(kind, nk, "lost");
	return 0;
}

/* the supervisor reads fd 0 itself: a stdio read-ahead buffer would be inherited by the forked worker */
static char *sup_gets(char *dst, size_t n)
{
	static char buf[1 << 16]; static size_t lo, hi; size_t i = 0;
	for (;;) {
		if (lo == hi) {
			ssize_t r = read(0, buf, sizeof buf);
			if (r < 0 && EINTR == errno) continue;
			if (r <= 0) { if (0 == i) return NULL; break; }
			lo = 0; hi = (size_t) r;
		}
		if (i + 2 < n) dst[i++] = buf[lo];
		if (buf[lo++] == '\n') break;
	}
	dst[i] = 0;
	return dst;
}

int main(void)
{
	static char line[1 << 20];
	char *out = NULL; size_t cap = 0; int skip = 0, crashes = 0, rc = 0, wd = 5000;
	const char *e = getenv("PDC_WD_MS");
	if (e && atoi(e) > 0) wd = atoi(e);
	setvbuf(stdout, NULL, _IOFBF, 1 << 16);
	while (sup_gets(line, sizeof line)) {
		const char *p = line; char kind[32], sum[400]; int is_case, is_wd;
		while (*p == ' ' || *p == '\t') ++p;
		if (*p == '\n' || *p == '\r' || *p == 0 || *p == '#') continue;
		if (!strchr(line, '\n')) strcat(line, "\n");
		is_case = 0 == strncmp(p, "case", 4) && (p[4] == ' ' || p[4] == '\n' || p[4] == '\t' || p[4] == '\r');
		is_wd = 0 == strncmp(p, "wdtest ", 7);
		if (is_case) skip = 0;
		if (skip || crashes >= CRASH_CAP) {
			if (is_case) { fputs(p, stdout); continue; }           /* echo, as h_next() does */
			printf("skip\n"); continue;
		}
		if (w_pid <= 0) spawn();
		if (ask(line, is_wd ? 300 : wd, &out, &cap, kind, sizeof kind)) { fputs(out, stdout); continue; }
		if (is_wd) { printf("ok watchdog %s\n", 0 == strcmp(kind, "hang") ? "hang" : "abort"); continue; }
		summary(sum, sizeof sum);
		++crashes; skip = 1;
		fprintf(stderr, "pdc_harness: worker %s on: %s%.*s\n", kind, line, (int) errlen, errbuf);
		if (is_case) { fputs(p, stdout); continue; }
		printf("crash %s %s\n", kind, sum);
	}
	if (w_pid > 0) {                                                   /* normal end: let LeakSanitizer speak */
		int st = reap(0);
		if (st >= 0 && WIFEXITED(st) && WEXITSTATUS(st)) { fwrite(errbuf, 1, errlen, stderr); rc = WEXITSTATUS(st); }
		else if (st >= 0 && WIFSIGNALED(st)) rc = 128 + WTERMSIG(st);
	}
	fflush(stdout);
	free(out);
	return rc;
}
