/* Harness for component `cc` (C08): the Closed Caption half of src/caption.c on the real code.
   Speaks the line protocol of lean/Driver/Cc.lean.

   ops
     cc <f> <hex2>     one byte pair through vbi_decode(): f=0 -> VBI_SLICED_CAPTION_525 line 21 (field 1),
                       f=1 -> line 284 (field 2).  -> ok ev=<sorted pgnos of VBI_EVENT_CAPTION | ->
     fetch <n>         vbi_fetch_cc_page(pgno n) into an exact-size heap vbi_page
                       -> ok false | ok d=<y0>,<y1>,<roll> <run-length coded 15x34 cells>
     st <i>            scalars of cc.channel[i] (i in 0..8)
     raw <i> <p>       cc.channel[i].pg[p] without side effect (same format as fetch)
     tail <i> <p>      text[510..543] of cc.channel[i].pg[p]
     glob              last[], curr_chan (one value, or two when the tree has one per field), xds
     chsw              vbi_channel_switched() + an empty vbi_decode() that executes the reset
     layout            constants of the compiled code (cross-check of translate/gen_cc.py)
     cu <hex8> <0|1>   vbi_caption_unicode (c, to_upper), c = four bytes big-endian -> ok <hex>
*/
#include "hutil.h"
#include "src/vbi.h"
#include "src/cc.h"
#include "src/lang.h"
#include "src/format.h"
#include "src/event.h"

#define CC_ROWS 15
#define CC_COLS 34

static vbi_decoder *vbi;
static double now;
static int ev_log[64];
static int ev_n;

static void handler(vbi_event *ev, void *ud)
{
	(void) ud;
	if (ev->type == VBI_EVENT_CAPTION && ev_n < 64)
		ev_log[ev_n++] = ev->ev.caption.pgno;
}

static void reset(void)
{
	if (vbi) vbi_decoder_delete(vbi);
	vbi = vbi_decoder_new();
	if (!vbi) { printf("rej nomem\n"); exit(3); }
	vbi_event_handler_register(vbi, VBI_EVENT_CAPTION, handler, NULL);
	now = 1000.0;
	ev_n = 0;
}

static int cmp_int(const void *a, const void *b) { return *(const int *) a - *(const int *) b; }

static void put_events(void)
{
	int i;
	qsort(ev_log, ev_n, sizeof ev_log[0], cmp_int);
	printf("ev=");
	if (!ev_n) printf("-");
	for (i = 0; i < ev_n; ++i) printf("%s%d", i ? "," : "", ev_log[i]);
	ev_n = 0;
}

static void cell_tok(char *out, const vbi_char *c)
{
	unsigned other = c->bold | c->conceal << 1 | c->proportional << 2 | c->link << 3 | c->reserved << 4
		| c->size << 5 | c->drcs_clut_offs << 13;
	unsigned attr = c->underline | c->italic << 1 | c->flash << 2 | (unsigned) c->opacity << 3
		| (unsigned) c->foreground << 5 | (unsigned) c->background << 13;
	if (other) snprintf(out, 64, "%x.%x.%x", c->unicode, attr, other);
	else snprintf(out, 64, "%x.%x", c->unicode, attr);
}

static void put_cells(const vbi_page *pg, int from, int to)
{
	char cur[64], nxt[64];
	int i, run = 0, first = 1;
	cur[0] = 0;
	for (i = from; i < to; ++i) {
		cell_tok(nxt, &pg->text[i]);
		if (run && 0 == strcmp(cur, nxt)) { ++run; continue; }
		if (run) { printf("%s%d*%s", first ? "" : ",", run, cur); first = 0; }
		strcpy(cur, nxt); run = 1;
	}
	if (run) printf("%s%d*%s", first ? "" : ",", run, cur);
}

static void put_page(const vbi_page *pg)
{
	printf("d=%d,%d,%d ", pg->dirty.y0, pg->dirty.y1, pg->dirty.roll);
	put_cells(pg, 0, CC_ROWS * CC_COLS);
}

int main(void)
{
	int r;
	reset();
	while ((r = h_next())) {
		long long v, w;
		if (r == 2) { reset(); continue; }
		if (H_IS(0, "cc")) {
			int len = 0; uint8_t *b = NULL;
			if (h_ntok == 3 && h_int(h_tok[1], &v) && (v == 0 || v == 1) && (b = h_hex(h_tok[2], &len)) && len == 2) {
				vbi_sliced *s = (vbi_sliced *) malloc(sizeof *s);   /* exact size */
				memset(s, 0, sizeof *s);
				s->id = VBI_SLICED_CAPTION_525;
				s->line = v ? 284 : 21;
				s->data[0] = b[0]; s->data[1] = b[1];
				now += 1 / 30.0;
				vbi_decode(vbi, s, 1, now);
				free(s);
				printf("ok "); put_events(); printf("\n");
			} else printf("rej parse\n");
			free(b);
		} else if (H_IS(0, "fetch")) {
			if (h_ntok == 2 && h_int(h_tok[1], &v) && v >= -1000 && v <= 1000) {
				vbi_page *pg = (vbi_page *) malloc(sizeof *pg);
				memset(pg, 0x55, sizeof *pg);
				if (!vbi_fetch_cc_page(vbi, pg, (vbi_pgno) v, 1)) printf("ok false\n");
				else { printf("ok "); put_page(pg); printf("\n"); }
				free(pg);
			} else printf("rej parse\n");
		} else if (H_IS(0, "st")) {
			if (h_ntok == 2 && h_int(h_tok[1], &v) && v >= 0 && v <= 8) {
				cc_channel *ch = &vbi->cc.channel[v];
				char a[64]; long off; int lp;
				vbi_char at = ch->attr; at.unicode = 0;
				cell_tok(a, &at);
				if (ch->line >= ch->pg[0].text && ch->line < ch->pg[0].text + 1056) { lp = 0; off = ch->line - ch->pg[0].text; }
				else if (ch->line >= ch->pg[1].text && ch->line < ch->pg[1].text + 1056) { lp = 1; off = ch->line - ch->pg[1].text; }
				else { lp = 9; off = 0; }
				printf("ok mode=%d col=%d col1=%d row=%d row1=%d roll=%d nul=%d hidden=%d line=%d:%ld attr=%s\n",
				       (int) ch->mode, ch->col, ch->col1, ch->row, ch->row1, ch->roll, ch->nul_ct, ch->hidden, lp, off, a);
			} else printf("rej parse\n");
		} else if (H_IS(0, "raw")) {
			if (h_ntok == 3 && h_int(h_tok[1], &v) && v >= 0 && v <= 8 && h_int(h_tok[2], &w) && (w == 0 || w == 1)) {
				printf("ok "); put_page(&vbi->cc.channel[v].pg[w]); printf("\n");
			} else printf("rej parse\n");
		} else if (H_IS(0, "tail")) {
			/* the 34 cells of text[] behind the 15x34 display area (candidate F10) */
			if (h_ntok == 3 && h_int(h_tok[1], &v) && v >= 0 && v <= 8 && h_int(h_tok[2], &w) && (w == 0 || w == 1)) {
				printf("ok "); put_cells(&vbi->cc.channel[v].pg[w], CC_ROWS * CC_COLS, CC_ROWS * CC_COLS + CC_COLS); printf("\n");
			} else printf("rej parse\n");
		} else if (H_IS(0, "glob")) {
			if (h_ntok == 1) {
				/* `int curr_chan` (shared) or `int curr_chan[2]` (per field, repair of finding F44): either compiles */
				const int *cur = (const int *) &vbi->cc.curr_chan;
				printf("ok last=%02x%02x curr=%d", vbi->cc.last[0], vbi->cc.last[1], cur[0]);
				if (sizeof vbi->cc.curr_chan == 2 * sizeof (int)) printf(",%d", cur[1]);
				printf(" xds=%d\n", vbi->cc.xds ? 1 : 0);
			} else printf("rej parse\n");
		} else if (H_IS(0, "chsw")) {
			if (h_ntok == 1) {
				vbi_sliced s; memset(&s, 0, sizeof s);
				vbi_channel_switched(vbi, 0);
				now += 1 / 30.0;
				vbi_decode(vbi, &s, 0, now);
				printf("ok "); put_events(); printf("\n");
			} else printf("rej parse\n");
		} else if (H_IS(0, "layout")) {
			if (h_ntok == 1) {
				unsigned i;
				printf("ok rows=%d cols=%d text=%d nchan=%d ts0=", vbi->cc.channel[0].pg[0].rows, vbi->cc.channel[0].pg[0].columns,
				       (int) (sizeof vbi->cc.channel[0].pg[0].text / sizeof (vbi_char)),
				       (int) (sizeof vbi->cc.channel / sizeof vbi->cc.channel[0]));
				{ char a[64]; cell_tok(a, &vbi->cc.transp_space[0]); printf("%s ts1=", a); cell_tok(a, &vbi->cc.transp_space[1]); printf("%s", a); }
				printf(" uni=");
				for (i = 0x20; i < 0x80; ++i) printf("%x,", vbi_caption_unicode(i, 0));
				for (i = 0x1130; i < 0x1140; ++i) printf("%x%s", vbi_caption_unicode(i, 0), i == 0x113f ? "" : ",");
				printf("\n");
			} else printf("rej parse\n");
		} else if (H_IS(0, "cu")) {
			int len = 0; uint8_t *b = NULL;
			if (h_ntok == 3 && (b = h_hex(h_tok[1], &len)) && len == 4 && h_int(h_tok[2], &v) && (v == 0 || v == 1)) {
				unsigned int c = ((unsigned int) b[0] << 24) | ((unsigned int) b[1] << 16) | ((unsigned int) b[2] << 8) | b[3];
				printf("ok %x\n", vbi_caption_unicode(c, (vbi_bool) v));
			} else printf("rej parse\n");
			free(b);
		} else printf("rej op\n");
	}
	if (vbi) vbi_decoder_delete(vbi);
	return 0;
}
