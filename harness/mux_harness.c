/* Harness for component `mux`: src/dvb_mux.c (C06).
   Speaks the line protocol of lean/Driver/Mux.lean.  The .c file is included so
   the static encode_stuffing() can be driven directly.

   With argv[1] == "--demux" every byte the multiplexer emits is also fed to the
   library's demultiplexer (vbi_dvb_demux_feed) and the frames it delivers are
   appended to the output line (` | frame <pts> <n> [<id> <line> <hex>]*`).  That
   mode is used by the property oracle only (the model does not answer it).
   `--raw` is accepted and ignored (the `feedraw` ops are always enabled since round 3). */
#include "hutil.h"
#include <stdarg.h>
#include "src/dvb_mux.c"
#include "src/dvb_demux.h"

#define MAXOUT (1 << 22)
static uint8_t  out_buf[MAXOUT];
static size_t   out_len;
static unsigned out_sizes[4096];
static unsigned out_calls;
static long long cb_fail_at;           /* 1-based call number at which the callback returns FALSE; 0 = never */
static vbi_dvb_mux *mx;
static vbi_dvb_demux *dx;
static int demux_mode, raw_mode;

/* frames delivered by the demultiplexer since the last print */
static char  *fr_text;
static size_t fr_len, fr_cap;

static void fr_printf(const char *fmt, ...)
{
	va_list ap; int n;
	if (fr_cap - fr_len < 512) { fr_cap = fr_cap ? fr_cap * 2 : 65536; fr_text = realloc(fr_text, fr_cap); }
	va_start(ap, fmt); n = vsnprintf(fr_text + fr_len, fr_cap - fr_len, fmt, ap); va_end(ap);
	fr_len += (size_t) n;
}

static vbi_bool demux_cb(vbi_dvb_demux *d, void *ud, const vbi_sliced *s, unsigned int n, int64_t pts)
{
	unsigned i, k, nb;
	fr_printf(" | frame %lld %u", (long long) pts, n);
	for (i = 0; i < n; ++i) {
		switch (s[i].id) {
		case VBI_SLICED_TELETEXT_B: nb = 42; break;
		case VBI_SLICED_VPS: case VBI_SLICED_VPS_F2: nb = 13; break;
		default: nb = 2; break;
		}
		fr_printf(" %u %u ", (unsigned) s[i].id, (unsigned) s[i].line);
		for (k = 0; k < nb; ++k) fr_printf("%02x", s[i].data[k]);
	}
	return TRUE;
}

static vbi_bool mux_cb(vbi_dvb_mux *m, void *ud, const uint8_t *packet, unsigned int size)
{
	++out_calls;
	if (cb_fail_at && (long long) out_calls == cb_fail_at) return FALSE;
	if (out_len + size <= MAXOUT) { memcpy(out_buf + out_len, packet, size); out_len += size; }
	if (out_calls <= 4096) out_sizes[out_calls - 1] = size;
	return TRUE;
}

static void drop(void)
{
	if (mx) vbi_dvb_mux_delete(mx);
	if (dx) vbi_dvb_demux_delete(dx);
	mx = NULL; dx = NULL; fr_len = 0;
}

#define NUM(i, v) (h_ntok > (i) && h_int(h_tok[i], &(v)))
#define NAT(i, v) (NUM(i, v) && (v) >= 0)

/* tokens [at, at + 3n) -> exact-size heap array of n vbi_sliced (NULL on parse error; n == 0 -> 1 byte) */
static vbi_sliced *parse_lines(int at, long long n)
{
	vbi_sliced *s; long long i;
	if (n < 0 || n > 1000 || h_ntok != at + 3 * n) return NULL;
	s = malloc(n ? (size_t) n * sizeof *s : 1);
	for (i = 0; i < n; ++i) {
		long long id, line; int len; uint8_t *b;
		if (!NAT(at + 3 * i, id) || !NAT(at + 3 * i + 1, line)) { free(s); return NULL; }
		b = h_hex(h_tok[at + 3 * i + 2], &len);
		if (!b || len > 56) { free(b); free(s); return NULL; }
		memset(&s[i], 0, sizeof s[i]);
		s[i].id = (uint32_t) id; s[i].line = (uint32_t) line;
		memcpy(s[i].data, b, (size_t) len);
		free(b);
	}
	return s;
}

static void emit_demux(const uint8_t *b, size_t n)
{
	if (demux_mode && dx && n > 0) {
		uint8_t *copy = malloc(n);           /* exact-size copy: ASan sees over-reads of the consumer */
		memcpy(copy, b, n);
		vbi_dvb_demux_feed(dx, copy, (unsigned) n);
		free(copy);
	}
}

static void end_line(void)
{
	if (demux_mode && fr_len) { fwrite(fr_text, 1, fr_len, stdout); fr_len = 0; }
	printf("\n");
}

int main(int argc, char **argv)
{
	int r;
	demux_mode = argc > 1 && 0 == strcmp(argv[1], "--demux");
	raw_mode = argc > 1 && 0 == strcmp(argv[1], "--raw");
	if (argc > 2 && 0 == strcmp(argv[2], "--demux")) demux_mode = 1;
	while ((r = h_next())) {
		long long a, b, c, d, n;
		if (r == 2) { drop(); continue; }
		if (H_IS(0, "consts") && h_ntok == 1) {
			printf("ok ttx10=%u ttx25=%u ttx=%u vps=%u vpsf2=%u cc1=%u cc=%u wss=%u vbi625=%u maxpes=%u sliced=%u data=%u du_ttx=%u du_vps=%u du_wss=%u du_cc=%u du_stuff=%u stream=%u\n",
			       VBI_SLICED_TELETEXT_B_L10_625, VBI_SLICED_TELETEXT_B_L25_625, VBI_SLICED_TELETEXT_B_625,
			       VBI_SLICED_VPS, VBI_SLICED_VPS_F2, VBI_SLICED_CAPTION_625_F1, VBI_SLICED_CAPTION_625,
			       VBI_SLICED_WSS_625, VBI_SLICED_VBI_625, MAX_PES_PACKET_SIZE,
			       (unsigned) sizeof(vbi_sliced), (unsigned) sizeof(((vbi_sliced *) 0)->data),
			       DATA_UNIT_EBU_TELETEXT_NON_SUBTITLE, DATA_UNIT_VPS, DATA_UNIT_WSS, DATA_UNIT_CLOSED_CAPTION,
			       DATA_UNIT_STUFFING, PRIVATE_STREAM_1);
		} else if (H_IS(0, "new") && H_IS(1, "pes") && h_ntok == 2) {
			drop();
			mx = vbi_dvb_pes_mux_new(mux_cb, NULL);
			if (demux_mode) dx = vbi_dvb_pes_demux_new(demux_cb, NULL);
			printf(mx ? "ok\n" : "ok null\n");
		} else if (H_IS(0, "new") && H_IS(1, "ts") && h_ntok == 3 && NAT(2, a)) {
			drop();
			mx = vbi_dvb_ts_mux_new((unsigned) a, mux_cb, NULL);
			if (demux_mode && mx) dx = _vbi_dvb_ts_demux_new(demux_cb, NULL, (unsigned) a);
			printf(mx ? "ok\n" : "ok null\n");
		} else if (H_IS(0, "new")) {
			printf("rej parse\n");
		} else if (H_IS(0, "stuff")) {
			/* stuff <p_left> <last_du_size> <fixed> <prefix hex> : encode_stuffing on prefix ++ p_left bytes */
			int plen; uint8_t *pre = NULL, *buf;
			if (h_ntok != 5 || !NAT(1, a) || !NAT(2, b) || !NAT(3, c) || a > 70000 || b > 100000 || c > 1
			    || !(pre = h_hex(h_tok[4], &plen))) { free(pre); printf("rej parse\n"); continue; }
			/* documented preconditions (violations are assertion failures / out-of-buffer pokes) */
			if ((c && a % 46) || (!c && a % 257 == 1 && (a < 257 ? (b < 2 || b > 257 || (long long) plen < b - 1) : 0))) {
				free(pre); printf("rej pre\n"); continue;
			}
			buf = malloc((size_t) plen + (size_t) a + 1);
			memcpy(buf, pre, (size_t) plen);
			memset(buf + plen, 0xAA, (size_t) a);
			encode_stuffing(buf + plen, (unsigned) a, (unsigned) b, (vbi_bool) c);
			printf("ok "); h_puthex(buf, plen + (int) a); printf("\n");
			free(buf); free(pre);
		} else if (H_IS(0, "msliced")) {
			/* msliced <packet_left> <mask> <dataid> <stuffing> <n> lines : vbi_dvb_multiplex_sliced */
			vbi_sliced *s; const vbi_sliced *sp; uint8_t *buf, *p; unsigned p_left, s_left; vbi_bool ok; long long st;
			if (h_ntok < 6 || !NAT(1, a) || !NAT(2, b) || !NAT(3, c) || !NAT(4, st) || !NAT(5, n) || a > 70000 || st > 1
			    || !(s = parse_lines(6, n))) { printf("rej parse\n"); continue; }
			buf = malloc(a ? (size_t) a : 1); memset(buf, 0xAA, (size_t) a);
			p = buf; p_left = (unsigned) a; sp = s; s_left = (unsigned) n;
			ok = vbi_dvb_multiplex_sliced(&p, &p_left, &sp, &s_left, (vbi_service_set)(uint32_t) b, (unsigned) c, (vbi_bool) st);
			printf("ok %s %u %u %ld ", ok ? "true" : "false", p_left, s_left, (long)(p - buf));
			h_puthex(buf, (int) a); printf("\n");
			free(buf); free(s);
		} else if (H_IS(0, "mraw")) {
			/* mraw <packet_left> <dataid> <videostd 0|1=625|2=525|3=both> <line> <first_pixel_position> <n_pixels_total>
			        <stuffing> <raw_left> <seed> : vbi_dvb_multiplex_raw on raw_left samples (seed + 7 k) & 255 */
			long long did, vs, line, fpp, ntot, st, rl, seed, k; uint8_t *buf, *p, *raw; const uint8_t *rp; unsigned p_left, r_left; vbi_bool ok;
			if (h_ntok != 10 || !NAT(1, a) || !NAT(2, did) || !NAT(3, vs) || !NAT(4, line) || !NAT(5, fpp) || !NAT(6, ntot)
			    || !NAT(7, st) || !NAT(8, rl) || !NAT(9, seed) || a > 70000 || vs > 3 || st > 1 || rl > 2000 || did > 0xFFFFFFFFLL
			    || line > 0xFFFFFFFFLL || fpp > 0xFFFFFFFFLL || ntot > 0xFFFFFFFFLL) { printf("rej parse\n"); continue; }
			buf = malloc(a ? (size_t) a : 1); memset(buf, 0xAA, (size_t) a);
			raw = malloc(rl ? (size_t) rl : 1);
			for (k = 0; k < rl; ++k) raw[k] = (uint8_t)(seed + k * 7);
			p = buf; p_left = (unsigned) a; rp = raw; r_left = (unsigned) rl;
			ok = vbi_dvb_multiplex_raw(&p, &p_left, &rp, &r_left, (unsigned) did,
						   ((vs & 1) ? VBI_VIDEOSTD_SET_625_50 : 0) | ((vs & 2) ? VBI_VIDEOSTD_SET_525_60 : 0),
						   (unsigned) line, (unsigned) fpp, (unsigned) ntot, (vbi_bool) st);
			printf("ok %s %u %u %ld %ld ", ok ? "true" : "false", p_left, r_left, (long)(p - buf), (long)(rp - raw));
			h_puthex(buf, (int) a); printf("\n");
			free(buf); free(raw);
		} else if (!mx && (H_IS(0, "dataid") || H_IS(0, "size") || H_IS(0, "feed") || H_IS(0, "cor")
				   || H_IS(0, "corall") || H_IS(0, "reset") || H_IS(0, "state") || H_IS(0, "feedraw") || H_IS(0, "feedraw2") || H_IS(0, "corraw"))) {
			printf("rej nomux\n");
		} else if (H_IS(0, "dataid")) {
			if (h_ntok != 2 || !NAT(1, a)) { printf("rej parse\n"); continue; }
			printf("ok %s\n", vbi_dvb_mux_set_data_identifier(mx, (unsigned) a) ? "true" : "false");
		} else if (H_IS(0, "size")) {
			if (h_ntok != 3 || !NAT(1, a) || !NAT(2, b)) { printf("rej parse\n"); continue; }
			vbi_dvb_mux_set_pes_packet_size(mx, (unsigned) a, (unsigned) b);
			printf("ok %u %u\n", vbi_dvb_mux_get_min_pes_packet_size(mx), vbi_dvb_mux_get_max_pes_packet_size(mx));
		} else if (H_IS(0, "state")) {
			if (h_ntok != 1) { printf("rej parse\n"); continue; }
			printf("ok dataid=%u min=%u max=%u pid=%u cc=%u pending=%u rawleft=%u\n", vbi_dvb_mux_get_data_identifier(mx),
			       mx->min_packet_size, mx->max_packet_size, mx->pid, mx->continuity_counter & 15,
			       mx->cor_offset < mx->cor_end ? mx->cor_end - mx->cor_offset : 0, mx->raw_samples_left);
		} else if (H_IS(0, "reset")) {
			if (h_ntok != 1) { printf("rej parse\n"); continue; }
			vbi_dvb_mux_reset(mx);
			printf("ok\n");
		} else if (H_IS(0, "feed")) {
			/* feed <pts> <mask> <failat> <n> lines */
			vbi_sliced *s; vbi_bool ok; unsigned i;
			if (h_ntok < 5 || !NUM(1, a) || !NAT(2, b) || !NAT(3, c) || !NAT(4, n) || !(s = parse_lines(5, n))) { printf("rej parse\n"); continue; }
			out_len = 0; out_calls = 0; cb_fail_at = c;
			ok = vbi_dvb_mux_feed(mx, s, (unsigned) n, (vbi_service_set)(uint32_t) b, NULL, NULL, (int64_t) a);
			printf("ok %s %u ", ok ? "true" : "false", out_calls);
			if (!out_calls) printf("-");
			for (i = 0; i < out_calls && i < 4096; ++i) printf("%s%u", i ? "," : "", (cb_fail_at && i + 1 == cb_fail_at) ? 0 : out_sizes[i]);
			printf(" "); h_puthex(out_buf, (int) out_len);
			emit_demux(out_buf, out_len);
			end_line();
			free(s);
		} else if (H_IS(0, "cor") || H_IS(0, "corall")) {
			/* cor <pts> <mask> <bufsize> <n> lines       : one vbi_dvb_mux_cor call
			   corall <pts> <mask> <s1,s2,..> <n> lines   : calls until *sliced_left == 0 or failure, buffer sizes cycling */
			vbi_sliced *s; const vbi_sliced *sp; unsigned s_left; vbi_bool ok = TRUE; unsigned calls = 0;
			long long sizes[64]; int nsizes = 0, all = H_IS(0, "corall"); char *t, *save;
			if (h_ntok < 5 || !NUM(1, a) || !NAT(2, b) || !NAT(4, n)) { printf("rej parse\n"); continue; }
			for (t = strtok_r(h_tok[3], ",", &save); t && nsizes < 64; t = strtok_r(NULL, ",", &save)) {
				if (!h_int(t, &sizes[nsizes]) || sizes[nsizes] < 0 || sizes[nsizes] > (1 << 20)) { nsizes = -1; break; }
				++nsizes;
			}
			if (nsizes < 1 || (!all && nsizes != 1) || !(s = parse_lines(5, n))) { printf("rej parse\n"); continue; }
			out_len = 0; sp = s; s_left = (unsigned) n;
			do {
				unsigned bl = (unsigned) sizes[calls % nsizes], left = bl;
				uint8_t *buf = malloc(bl ? bl : 1), *p = buf;
				ok = vbi_dvb_mux_cor(mx, &p, &left, &sp, &s_left, (vbi_service_set)(uint32_t) b, NULL, NULL, (int64_t) a);
				++calls;
				if ((size_t)(p - buf) != bl - left) { printf("ok INCONSISTENT-buffer-accounting\n"); }
				if (out_len + (size_t)(p - buf) <= MAXOUT) { memcpy(out_buf + out_len, buf, (size_t)(p - buf)); out_len += (size_t)(p - buf); }
				free(buf);
			} while (all && ok && s_left > 0 && calls < 200000);
			printf("ok %s %u %u %ld ", ok ? "true" : "false", calls, s_left, (long)(sp - s));
			h_puthex(out_buf, (int) out_len);
			emit_demux(out_buf, out_len);
			end_line();
			free(s);
		} else if (H_IS(0, "feedraw") || H_IS(0, "feedraw2")) {
			/* feedraw  <pts> <mask> <offset> <samples_per_line> <start0> <count0> <start1> <count1> <seed> <n> lines
			   feedraw2 <pts> <mask> <offset> <samples_per_line> <start0> <count0> <start1> <count1> <seed> <interlaced> <rawnull> <n> lines
			   raw frame = (count0 + count1) lines of samples_per_line bytes, byte k of the frame = (seed + k * 7) & 255,
			   exact-size heap allocation; rawnull = 1: raw == NULL (sp still passed) */
			vbi_sliced *s; vbi_bool ok; unsigned i; long long off, spl, s0, c0, s1, c1, seed, il = 0, rnull = 0; vbi_sampling_par sp; uint8_t *raw; size_t rn, k;
			int two = H_IS(0, "feedraw2"), at = two ? 12 : 10;
			if (h_ntok < at + 1 || !NUM(1, a) || !NAT(2, b) || !NAT(3, off) || !NAT(4, spl) || !NAT(5, s0) || !NAT(6, c0)
			    || !NAT(7, s1) || !NAT(8, c1) || !NAT(9, seed) || (two && (!NAT(10, il) || !NAT(11, rnull) || il > 1 || rnull > 1))
			    || !NAT(at, n) || spl > 4096 || c0 > 64 || c1 > 64 || off > 1000000 || s0 > 1000000 || s1 > 1000000
			    || !(s = parse_lines(at + 1, n))) { printf("rej parse\n"); continue; }
			memset(&sp, 0, sizeof sp);
			sp.scanning = 625; sp.sampling_format = VBI_PIXFMT_YUV420; sp.sampling_rate = 13500000;
			sp.bytes_per_line = (int) spl; sp.offset = (int) off; sp.start[0] = (int) s0; sp.count[0] = (int) c0;
			sp.start[1] = (int) s1; sp.count[1] = (int) c1; sp.interlaced = (vbi_bool) il; sp.synchronous = TRUE;
			rn = (size_t)(c0 + c1) * (size_t) spl;
			raw = malloc(rn ? rn : 1);
			for (k = 0; k < rn; ++k) raw[k] = (uint8_t)(seed + (long long) k * 7);
			out_len = 0; out_calls = 0; cb_fail_at = 0;
			ok = vbi_dvb_mux_feed(mx, s, (unsigned) n, (vbi_service_set)(uint32_t) b, rnull ? NULL : raw, &sp, (int64_t) a);
			printf("ok %s %u ", ok ? "true" : "false", out_calls);
			if (!out_calls) printf("-");
			for (i = 0; i < out_calls && i < 4096; ++i) printf("%s%u", i ? "," : "", out_sizes[i]);
			printf(" "); h_puthex(out_buf, (int) out_len);
			emit_demux(out_buf, out_len);
			end_line();
			free(raw); free(s);
		} else if (H_IS(0, "corraw")) {
			/* corraw <pts> <mask> <s1,s2,..> <offset> <samples_per_line> <start0> <count0> <start1> <count1> <seed> <interlaced> <rawnull> <n> lines
			   vbi_dvb_mux_cor with raw / sp, called until *sliced_left == 0 or failure, buffer sizes cycling (round 5);
			   raw frame as for feedraw */
			vbi_sliced *s; const vbi_sliced *spt; unsigned s_left; vbi_bool ok = TRUE; unsigned calls = 0;
			long long sizes[64]; int nsizes = 0; char *t, *save;
			long long off, spl, s0, c0, s1, c1, seed, il, rnull; vbi_sampling_par sp; uint8_t *raw; size_t rn, k;
			if (h_ntok < 14 || !NUM(1, a) || !NAT(2, b) || !NAT(4, off) || !NAT(5, spl) || !NAT(6, s0) || !NAT(7, c0)
			    || !NAT(8, s1) || !NAT(9, c1) || !NAT(10, seed) || !NAT(11, il) || !NAT(12, rnull) || il > 1 || rnull > 1
			    || !NAT(13, n) || spl > 4096 || c0 > 64 || c1 > 64 || off > 1000000 || s0 > 1000000 || s1 > 1000000) { printf("rej parse\n"); continue; }
			for (t = strtok_r(h_tok[3], ",", &save); t && nsizes < 64; t = strtok_r(NULL, ",", &save)) {
				if (!h_int(t, &sizes[nsizes]) || sizes[nsizes] < 0 || sizes[nsizes] > (1 << 20)) { nsizes = -1; break; }
				++nsizes;
			}
			if (nsizes < 1 || !(s = parse_lines(14, n))) { printf("rej parse\n"); continue; }
			memset(&sp, 0, sizeof sp);
			sp.scanning = 625; sp.sampling_format = VBI_PIXFMT_YUV420; sp.sampling_rate = 13500000;
			sp.bytes_per_line = (int) spl; sp.offset = (int) off; sp.start[0] = (int) s0; sp.count[0] = (int) c0;
			sp.start[1] = (int) s1; sp.count[1] = (int) c1; sp.interlaced = (vbi_bool) il; sp.synchronous = TRUE;
			rn = (size_t)(c0 + c1) * (size_t) spl;
			raw = malloc(rn ? rn : 1);
			for (k = 0; k < rn; ++k) raw[k] = (uint8_t)(seed + (long long) k * 7);
			out_len = 0; spt = s; s_left = (unsigned) n;
			do {
				unsigned bl = (unsigned) sizes[calls % nsizes], left = bl;
				uint8_t *buf = malloc(bl ? bl : 1), *p = buf;
				ok = vbi_dvb_mux_cor(mx, &p, &left, &spt, &s_left, (vbi_service_set)(uint32_t) b, rnull ? NULL : raw, &sp, (int64_t) a);
				++calls;
				if ((size_t)(p - buf) != bl - left) { printf("ok INCONSISTENT-buffer-accounting\n"); }
				if (out_len + (size_t)(p - buf) <= MAXOUT) { memcpy(out_buf + out_len, buf, (size_t)(p - buf)); out_len += (size_t)(p - buf); }
				free(buf);
			} while (ok && s_left > 0 && calls < 200000);
			printf("ok %s %u %u %ld ", ok ? "true" : "false", calls, s_left, (long)(spt - s));
			h_puthex(out_buf, (int) out_len);
			emit_demux(out_buf, out_len);
			end_line();
			free(raw); free(s);
		} else printf("rej op\n");
	}
	drop();
	free(fr_text);
	return 0;
}
