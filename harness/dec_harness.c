/* Harness for component `dec` (C01): the whole service decoder behind the public API, built with
   ASan+UBSan.  Every op that returns prints `ok` (details go to stderr when DEC_VERBOSE is set);
   a crash, assertion, sanitizer report or hang is attributed to the running case by the check driver.
   `delete` prints `ok freed` iff the heap is back to the level it had before the decoder was created.

   ops:  l <service-id> <line> <hex payload>      queue one sliced line for the next `dec`
         dec <t_us>                               vbi_decode (queued lines, t)
         fetch <pgno-hex> <subno-hex> <level 0..3> <rows> <nav 0|1>
         fetchcc <pgno>
         classify <pgno-hex> | title <pgno-hex> <subno-hex> | cached <pgno-hex> <subno-hex> | hisub <pgno-hex>
         resolve                                  all links + home link of the current page
         print <table 0|1> <size>                 vbi_print_page into an exact-size heap buffer
         export <module> <bufsize|-1>             vbi_export_mem (exact-size heap buffer) or _alloc
         render <fmt> <reveal> <flash>            full page into an exact-size canvas
         region <fmt> <col> <row> <w> <h>         region into an exact-size canvas
         search <pgno-hex> <subno-hex> <casefold> <regexp> <hex ucs2 pattern> | next <dir> | endsearch
         chsw <nuid> | handler <mask-hex> | unhandler
         delete                                   vbi_decoder_delete + allocation audit

   Built with -DDEC_STATS and -Wl,--wrap=vbi_convert_page,--wrap=_vbi_cache_get_page (the second, `bounds`, build of
   checks/C01.py) the harness also counts which Level 2.5 / TOP code paths the cases reached and prints one
   `DECSTATS k=v ...` line to stderr at exit; the op outputs are the same.                                      */
#include "hutil.h"
#ifndef DEC_STATS
#include "src/libzvbi.h"
#else
/* the private headers (they cannot be combined with the generated public libzvbi.h) */
#include "src/vbi.h"
#include "src/cache-priv.h"
#include "src/export.h"
#include "src/exp-gfx.h"
#include "src/exp-txt.h"
#include "src/search.h"
#include "src/hamm.h"
static unsigned long st_lookup, st_lookup_miss, st_lookup_pop, st_lookup_drcs, st_lookup_unknown, st_lookup_other,
	st_conv_pop, st_conv_pop_plain, st_conv_drcs, st_conv_drcs_plain, st_conv_fail, st_ait_lookup, st_ait_hit,
	st_nav_top, st_nav_top_wrap, st_top_index, st_fetch_l25, st_fetch_ok;
cache_page *__real__vbi_cache_get_page(vbi_cache *, cache_network *, vbi_pgno, vbi_subno, vbi_subno);
cache_page *__real_vbi_convert_page(vbi_decoder *, cache_page *, vbi_bool, enum ttx_page_function);
/* calls from other translation units only (teletext.c: object / DRCS look-up with mask 0xF, AIT look-up with 0x3f7f) */
static int st_pause;	/* set during the reference fetch of the intra-object audit: not counted */
cache_page *__wrap__vbi_cache_get_page(vbi_cache *ca, cache_network *cn, vbi_pgno pgno, vbi_subno subno, vbi_subno mask)
{
	cache_page *cp = __real__vbi_cache_get_page(ca, cn, pgno, subno, mask);
	if (st_pause) return cp;
	if (mask == 0x000F) {
		++st_lookup;
		if (!cp) ++st_lookup_miss;
		else switch (cp->function) {
		case PAGE_FUNCTION_UNKNOWN: ++st_lookup_unknown; break;
		case PAGE_FUNCTION_POP: case PAGE_FUNCTION_GPOP: ++st_lookup_pop; break;
		case PAGE_FUNCTION_DRCS: case PAGE_FUNCTION_GDRCS: ++st_lookup_drcs; break;
		default: ++st_lookup_other; break;
		}
	} else if (mask == 0x3f7f) {
		++st_ait_lookup;
		if (cp && cp->function == PAGE_FUNCTION_AIT) ++st_ait_hit;
	}
	return cp;
}
/* teletext.c only: conversion of a cached page of unknown function when a formatted page names it as POP / DRCS */
cache_page *__wrap_vbi_convert_page(vbi_decoder *vbi, cache_page *vtp, vbi_bool cached, enum ttx_page_function fn)
{
	int plain = cached && vtp->function == PAGE_FUNCTION_UNKNOWN && !vtp->x26_designations && !(vtp->x28_designations & 0x13);
	cache_page *r = __real_vbi_convert_page(vbi, vtp, cached, fn);
	if (cached && !st_pause) {
		if (!r) ++st_conv_fail;
		else if (fn == PAGE_FUNCTION_POP || fn == PAGE_FUNCTION_GPOP) { ++st_conv_pop; st_conv_pop_plain += plain; }
		else if (fn == PAGE_FUNCTION_DRCS || fn == PAGE_FUNCTION_GDRCS) { ++st_conv_drcs; st_conv_drcs_plain += plain; }
	}
	return r;
}
static void stats_print(void)
{
	fprintf(stderr, "DECSTATS fetch_ok=%lu fetch_l25=%lu objdrcs_lookup=%lu lookup_miss=%lu lookup_pop=%lu lookup_drcs=%lu "
		"lookup_unknown=%lu lookup_other=%lu conv_pop=%lu conv_pop_plain=%lu conv_drcs=%lu conv_drcs_plain=%lu conv_fail=%lu "
		"ait_lookup=%lu ait_hit=%lu nav_top=%lu nav_top_no_block_below=%lu top_index=%lu\n",
		st_fetch_ok, st_fetch_l25, st_lookup, st_lookup_miss, st_lookup_pop, st_lookup_drcs, st_lookup_unknown, st_lookup_other,
		st_conv_pop, st_conv_pop_plain, st_conv_drcs, st_conv_drcs_plain, st_conv_fail, st_ait_lookup, st_ait_hit,
		st_nav_top, st_nav_top_wrap, st_top_index);
}
#endif
extern size_t __sanitizer_get_current_allocated_bytes(void) __attribute__((weak));
extern void __sanitizer_print_memory_profile(size_t, size_t) __attribute__((weak));
static size_t heap_now(void) { return __sanitizer_get_current_allocated_bytes ? __sanitizer_get_current_allocated_bytes() : 0; }

static vbi_decoder *dec;
static vbi_sliced   sl[64];
static int          nsl;
static vbi_page    *pg;          /* heap allocated so that ASan guards it */
static int          pg_valid;
static vbi_search  *srch;
static size_t       heap0;
static int          verbose;
static unsigned     ev_count;
static volatile unsigned sink;

static void touch(const void *p, size_t n) { const uint8_t *b = p; size_t i; for (i = 0; i < n; ++i) sink += b[i]; }
static void touchs(const char *s) { if (s) touch(s, strlen(s)); }

static void handler(vbi_event *ev, void *user)
{
	(void) user; ++ev_count;
	switch (ev->type) {
	case VBI_EVENT_TTX_PAGE: touch(&ev->ev.ttx_page, sizeof ev->ev.ttx_page);
		if (ev->ev.ttx_page.raw_header) touch(ev->ev.ttx_page.raw_header, 40); break;
	case VBI_EVENT_CAPTION: sink += ev->ev.caption.pgno; break;
	case VBI_EVENT_NETWORK: case VBI_EVENT_NETWORK_ID: touch(&ev->ev.network, sizeof ev->ev.network); break;
	case VBI_EVENT_TRIGGER: if (ev->ev.trigger) { touch(ev->ev.trigger, sizeof *ev->ev.trigger); } break;
	case VBI_EVENT_ASPECT: touch(&ev->ev.aspect, sizeof ev->ev.aspect); break;
	case VBI_EVENT_PROG_INFO: if (ev->ev.prog_info) touch(ev->ev.prog_info, sizeof *ev->ev.prog_info); break;
	default: break;
	}
}

static void drop_page(void)
{
	if (pg_valid) { vbi_unref_page(pg); pg_valid = 0; }
}

static void kill_all(void)
{
	if (srch) { vbi_search_delete(srch); srch = NULL; }
	drop_page();
	if (dec) { vbi_decoder_delete(dec); dec = NULL; }
	free(pg); pg = NULL;
	nsl = 0;
}

static void fresh(void)
{
	kill_all();
	heap0 = heap_now();
	dec = vbi_decoder_new();
	pg = calloc(1, sizeof *pg);
	if (!dec || !pg) { fprintf(stderr, "no decoder\n"); exit(3); }
	vbi_event_handler_register(dec, -1, handler, NULL);
}

#define NUM(i, v) (h_ntok > (i) && h_int(h_tok[i], &(v)))
static int hexnum(int i, long long *v)
{
	char buf[40];
	if (i >= h_ntok || strlen(h_tok[i]) > 16) return 0;
	snprintf(buf, sizeof buf, "0x%s", h_tok[i]);
	return h_int(buf, v);
}

static int canvas_bytes_per_pixel(int fmt)
{
	if (fmt == VBI_PIXFMT_RGBA32_LE) return 4;
	if (fmt == VBI_PIXFMT_PAL8) return 1;
	return 0; /* unsupported formats must draw nothing: exact 1-byte canvas */
}

/* one-time global allocations of the library (export module list, iconv, gettext, ...) must not count as leaks */
#include <iconv.h>
static void warmup_iconv(void)
{
	/* glibc loads a gconv module per character set on first use and unloads it lazily some time after the last
	   descriptor was closed: the heap level would move up and down between cases.  One descriptor per character set
	   the exporters can ask for (exp-html.c picks it from the page's language) stays open for the process lifetime. */
	static const char *cs[] = { "iso-8859-1", "iso-8859-2", "iso-8859-4", "iso-8859-5", "koi8-r", "koi8-u", "iso-8859-6",
		"iso-8859-7", "iso-8859-8", "iso-8859-9", "iso-10646", "UTF-8", "UCS-2", "ISO-8859-15", "ASCII" };
	static iconv_t keep[2 * sizeof cs / sizeof *cs];
	unsigned i;
	for (i = 0; i < sizeof cs / sizeof *cs; ++i) { keep[2 * i] = iconv_open(cs[i], "UCS-2"); keep[2 * i + 1] = iconv_open("UCS-2", cs[i]); }
	(void) keep;
}
static void warmup(void)
{
	static const char *mods[] = { "text", "html", "ppm", "png", "xpm", "vtx", "ansi", "string", "mpsub", "qttext", "realtext", "sami", "subrip", "subviewer" };
	unsigned i; uint16_t pat[2] = { 'a', 0 }; vbi_sliced s; vbi_page *p = calloc(1, sizeof *p);
	vbi_decoder *d = vbi_decoder_new();
	vbi_search *sr;
	warmup_iconv();
	for (i = 0; i < sizeof mods / sizeof *mods; ++i) {
		char *es = NULL; vbi_export *ex = vbi_export_new(mods[i], &es); free(es);
		if (ex) { void *buf = NULL; size_t sz = 0;
			if (vbi_fetch_cc_page(d, p, 1, TRUE)) { if (vbi_export_alloc(ex, &buf, &sz, p)) free(buf); vbi_unref_page(p); }
			vbi_export_delete(ex); }
	}
	memset(&s, 0, sizeof s); s.id = VBI_SLICED_TELETEXT_B; s.line = 7;
	vbi_decode(d, &s, 1, 0.0);
	/* a Teletext page through every exporter, print and render too (the exporters of Teletext pages make further
	   one-time allocations; the harness process is restarted after every crash, so this cannot be left to the corpus) */
	vbi_event_handler_register(d, -1, handler, NULL);
	for (i = 0; i < 3; ++i) {
		int k, page = i < 2 ? 0x00 : 0x01;
		s.data[0] = vbi_ham8(1); s.data[1] = vbi_ham8(0);
		s.data[2] = vbi_ham8(page & 15); s.data[3] = vbi_ham8(page >> 4);
		for (k = 4; k < 10; ++k) s.data[k] = vbi_ham8(0);
		for (k = 10; k < 42; ++k) s.data[k] = vbi_par8(i == 0 ? ' ' : 'a' + k % 20);
		vbi_decode(d, &s, 1, 1.0 + i * 0.04);
	}
	if (vbi_fetch_vt_page(d, p, 0x100, VBI_ANY_SUBNO, VBI_WST_LEVEL_3p5, 25, TRUE)) {
		for (i = 0; i < sizeof mods / sizeof *mods; ++i) {
			char *es = NULL; vbi_export *ex = vbi_export_new(mods[i], &es); free(es);
			if (ex) { void *buf = NULL; size_t sz = 0;
				if (vbi_export_alloc(ex, &buf, &sz, p)) free(buf);
				vbi_export_delete(ex); }
		}
		{ char buf[64]; vbi_link ld; uint8_t *cv = malloc(41 * 12 * 25 * 10 * 4);
		  vbi_print_page(p, buf, sizeof buf, "UTF-8", 1, 1);
		  vbi_draw_vt_page(p, VBI_PIXFMT_RGBA32_LE, cv, 1, 1); free(cv);
		  vbi_resolve_home(p, &ld); }
		vbi_unref_page(p);
	}
	{ char t[41]; vbi_subno sn; char *lang; vbi_page_title(d, 0x100, 0, t); vbi_classify_page(d, 0x100, &sn, &lang); }
	sr = vbi_search_new(d, 0x100, VBI_ANY_SUBNO, pat, 0, 1, NULL);
	if (sr) { vbi_page *res; vbi_search_next(sr, &res, 1); vbi_search_delete(sr); }
	{ char buf[64]; if (vbi_fetch_cc_page(d, p, 1, TRUE)) { vbi_print_page(p, buf, sizeof buf, "UTF-8", 1, 1); vbi_unref_page(p); } }
	vbi_decoder_delete(d); free(p);
}

int main(void)
{
	int r;
	verbose = !!getenv("DEC_VERBOSE");
#ifdef DEC_STATS
	atexit(stats_print);
#endif
	warmup();
	fresh();
	while ((r = h_next())) {
		long long a, b, c, d, e;
		if (r == 2) {
#ifdef DEC_STATS
			/* lets checks/C01.py attribute the (recoverable) bounds reports on stderr to a case */
			fprintf(stderr, "DECCASE %s\n", h_ntok > 1 ? h_tok[1] : "?");
#endif
			fresh(); continue; }
		if (!dec && !H_IS(0, "delete")) { printf("rej deleted\n"); continue; }
		if (H_IS(0, "l") && h_ntok == 4 && hexnum(1, &a) && NUM(2, b)) {
			int len; uint8_t *p = h_hex(h_tok[3], &len);
			if (!p || len > 56 || nsl >= 64) { free(p); printf("rej parse\n"); continue; }
			memset(&sl[nsl], 0, sizeof sl[nsl]);
			sl[nsl].id = (uint32_t) a; sl[nsl].line = (uint32_t) b;
			memcpy(sl[nsl].data, p, (size_t) len); free(p); ++nsl;
			printf("ok\n");
		} else if (H_IS(0, "dec") && NUM(1, a)) {
			/* exact-size heap copy so that ASan sees reads past the given lines */
			vbi_sliced *copy = malloc(nsl ? nsl * sizeof *copy : 1);
			memcpy(copy, sl, nsl * sizeof *copy);
			vbi_decode(dec, copy, nsl, (double) a / 1e6);
			free(copy); nsl = 0;
			printf("ok\n");
		} else if (H_IS(0, "fetch") && hexnum(1, &a) && hexnum(2, &b) && NUM(3, c) && NUM(4, d) && NUM(5, e)) {
			static const vbi_wst_level lv[4] = { VBI_WST_LEVEL_1, VBI_WST_LEVEL_1p5, VBI_WST_LEVEL_2p5, VBI_WST_LEVEL_3p5 };
			drop_page();
			memset(pg, 0, sizeof *pg);
			pg_valid = vbi_fetch_vt_page(dec, pg, (vbi_pgno) a, (vbi_subno) b, lv[c & 3], (int) d, (vbi_bool) e);
			if (verbose) fprintf(stderr, "fetch %llx.%llx -> %d\n", a, b, pg_valid);
#ifdef DEC_STATS
			/* intra-object audit: a store behind vbi_page.text[] lands in dirty / screen_color / color_map[], invisible to
			   ASan and to the bounds instrumentation (it goes through a vbi_char pointer).  color_map[] is computed before
			   anything that depends on display_rows, and with one row the formatter touches the header row only: the same
			   page formatted with display_rows 1 must show the same color_map[]. */
			if (pg_valid && a != 0x900 && d > 1) {
				vbi_page *ref = calloc(1, sizeof *ref);
				int i, ok;
				st_pause = 1;
				/* the reference must be the SAME subpage: with VBI_ANY_SUBNO a second look-up can return another subpage of the
				   page (the object look-ups of the first fetch reorder the hash chain) whose X/28 colour map legitimately
				   differs - ask for the subno the first fetch returned and compare only when it is the one delivered */
				ok = vbi_fetch_vt_page(dec, ref, (vbi_pgno) a, (vbi_subno) pg->subno, lv[c & 3], 1, 0);
				st_pause = 0;
				if (ok && !(ref->pgno == pg->pgno && ref->subno == pg->subno)) {
					vbi_unref_page(ref);
					ok = 0;
				}
				if (ok) {
					for (i = 0; i < 40; ++i)
						if (ref->color_map[i] != pg->color_map[i]) {
							fprintf(stderr, "DECINTRA vbi_page.color_map[%d] is %08x after a fetch with %d rows, %08x with 1 row: "
								"store behind text[%d] (text[%d])\n", i, pg->color_map[i], (int) d, ref->color_map[i],
								(int) (sizeof pg->text / sizeof pg->text[0]),
								(int) (((char *) &pg->color_map[i] - (char *) pg->text) / sizeof pg->text[0]));
							break;
						}
					vbi_unref_page(ref);
				}
				free(ref);
			}
			if (pg_valid) {
				++st_fetch_ok; if ((c & 3) >= 2) ++st_fetch_l25;
				if (a == 0x900) ++st_top_index;
				else if (e && d >= 25 && dec->cn->have_top && pg->pgno >= 0x100 && pg->pgno <= 0x8FF) {
					int i, blk = 0;
					for (i = pg->pgno; i >= 0x100; --i) {
						int t = cache_network_page_stat(dec->cn, i)->page_type;
						if (t == VBI_TOP_BLOCK || t == VBI_TOP_GROUP) { blk = 1; break; }
					}
					++st_nav_top; if (!blk) ++st_nav_top_wrap;
				}
			}
#endif
			printf("ok\n");
		} else if (H_IS(0, "fetchcc") && NUM(1, a)) {
			drop_page();
			memset(pg, 0, sizeof *pg);
			pg_valid = vbi_fetch_cc_page(dec, pg, (vbi_pgno) a, TRUE);
			printf("ok\n");
		} else if (H_IS(0, "classify") && hexnum(1, &a)) {
			vbi_subno sn = 0; char *lang = NULL;
			sink += vbi_classify_page(dec, (vbi_pgno) a, &sn, &lang); touchs(lang);
			printf("ok\n");
		} else if (H_IS(0, "title") && hexnum(1, &a) && hexnum(2, &b)) {
			char *buf = malloc(41);
			if (vbi_page_title(dec, (int) a, (int) b, buf)) touchs(buf);
			free(buf); printf("ok\n");
		} else if (H_IS(0, "cached") && hexnum(1, &a) && hexnum(2, &b)) {
			sink += vbi_is_cached(dec, (int) a, (int) b); printf("ok\n");
		} else if (H_IS(0, "hisub") && hexnum(1, &a)) {
			if (a >= 0x100 && a <= 0x8FF) sink += vbi_cache_hi_subno(dec, (int) a); printf("ok\n");
		} else if (H_IS(0, "resolve")) {
			if (pg_valid) {
				int row, col; vbi_link ld;
				for (row = 0; row < pg->rows; ++row)
					for (col = 0; col < pg->columns; ++col)
						if (pg->text[row * pg->columns + col].link) {
							memset(&ld, 0, sizeof ld);
							vbi_resolve_link(pg, col, row, &ld); touch(&ld, sizeof ld);
						}
				memset(&ld, 0, sizeof ld);
				vbi_resolve_home(pg, &ld); touch(&ld, sizeof ld);
			}
			printf("ok\n");
		} else if (H_IS(0, "print") && NUM(1, a) && NUM(2, b) && b >= 0 && b < (1 << 20)) {
			if (pg_valid) {
				char *buf = malloc(b ? (size_t) b : 1);
				int n = vbi_print_page(pg, buf, (int) b, "UTF-8", (vbi_bool) a, TRUE);
				if (n > 0) touch(buf, (size_t) n);
				if (n > b) { fprintf(stderr, "print returned %d > size %lld\n", n, b); abort(); }
				free(buf);
			}
			printf("ok\n");
		} else if (H_IS(0, "export") && h_ntok == 3 && NUM(2, a) && a < (1 << 24)) {
			if (pg_valid) {
				char *es = NULL; vbi_export *ex = vbi_export_new(h_tok[1], &es); free(es);
				if (ex) {
					if (a < 0) {
						void *buf = NULL; size_t sz = 0;
						if (vbi_export_alloc(ex, &buf, &sz, pg)) { touch(buf, sz); free(buf); }
					} else {
						char *buf = malloc(a ? (size_t) a : 1);
						ssize_t n = vbi_export_mem(ex, buf, (size_t) a, pg);
						if (n >= 0 && n <= a) touch(buf, (size_t) n);
						free(buf);
					}
					vbi_export_delete(ex);
				}
			}
			printf("ok\n");
		} else if (H_IS(0, "render") && NUM(1, a) && NUM(2, b) && NUM(3, c)) {
			if (pg_valid) {
				int bpp = canvas_bytes_per_pixel((int) a);
				int teletext = pg->pgno >= 0x100;
				size_t n = bpp ? (size_t) pg->columns * (teletext ? 12 : 16) * pg->rows * (teletext ? 10 : 26) * bpp : 1;
				uint8_t *cv = malloc(n);
				memset(cv, 0, n);
				if (teletext) vbi_draw_vt_page(pg, (vbi_pixfmt) a, cv, (int) b, (int) c);
				else vbi_draw_cc_page(pg, (vbi_pixfmt) a, cv);
				touch(cv, n); free(cv);
			}
			printf("ok\n");
		} else if (H_IS(0, "region") && NUM(1, a) && NUM(2, b) && NUM(3, c) && NUM(4, d) && NUM(5, e)) {
			/* only regions inside the page are documented use */
			if (pg_valid && b >= 0 && c >= 0 && d > 0 && e > 0 && b + d <= pg->columns && c + e <= pg->rows) {
				int bpp = canvas_bytes_per_pixel((int) a);
				int teletext = pg->pgno >= 0x100;
				size_t n = bpp ? (size_t) d * (teletext ? 12 : 16) * e * (teletext ? 10 : 26) * bpp : 1;
				uint8_t *cv = malloc(n);
				memset(cv, 0, n);
				if (teletext) vbi_draw_vt_page_region(pg, (vbi_pixfmt) a, cv, (int) d * 12 * (bpp ? bpp : 1), (int) b, (int) c, (int) d, (int) e, 1, 1);
				else vbi_draw_cc_page_region(pg, (vbi_pixfmt) a, cv, (int) d * 16 * (bpp ? bpp : 1), (int) b, (int) c, (int) d, (int) e);
				touch(cv, n); free(cv);
			}
			printf("ok\n");
		} else if (H_IS(0, "search") && h_ntok == 6 && hexnum(1, &a) && hexnum(2, &b) && NUM(3, c) && NUM(4, d)) {
			int len, i; uint8_t *p = h_hex(h_tok[5], &len);
			if (!p || (len & 1)) { free(p); printf("rej parse\n"); continue; }
			{
				uint16_t *pat = malloc((size_t) len + 2);
				for (i = 0; i < len / 2; ++i) pat[i] = (uint16_t)(p[2 * i] * 256 + p[2 * i + 1]);
				pat[len / 2] = 0;
				if (srch) vbi_search_delete(srch);
				srch = (a >= 0x100 && a <= 0x8FF) /* documented page number range */
					? vbi_search_new(dec, (vbi_pgno) a, (vbi_subno) b, pat, (vbi_bool) c, (vbi_bool) d, NULL) : NULL;
				free(pat); free(p);
			}
			printf("ok\n");
		} else if (H_IS(0, "next") && NUM(1, a)) {
			if (srch) {
				vbi_page *res = NULL;
				int st = vbi_search_next(srch, &res, a < 0 ? -1 : 1);
				if (st == VBI_SEARCH_SUCCESS && res) touch(res->text, sizeof res->text);
				if (verbose) fprintf(stderr, "search -> %d\n", st);
			}
			printf("ok\n");
		} else if (H_IS(0, "endsearch")) {
			if (srch) { vbi_search_delete(srch); srch = NULL; }
			printf("ok\n");
		} else if (H_IS(0, "chsw") && NUM(1, a)) {
			vbi_channel_switched(dec, (vbi_nuid) a); printf("ok\n");
		} else if (H_IS(0, "handler") && hexnum(1, &a)) {
			vbi_event_handler_register(dec, (int) a, handler, (void *) &sink); printf("ok\n");
		} else if (H_IS(0, "unhandler")) {
			vbi_event_handler_unregister(dec, handler, (void *) &sink); printf("ok\n");
		} else if (H_IS(0, "delete")) {
			size_t now;
			kill_all();
			now = heap_now();
			if (now <= heap0) printf("ok freed\n");
			else { printf("ok leak %zu\n", now - heap0);
				if (verbose && __sanitizer_print_memory_profile) __sanitizer_print_memory_profile(100, 30); }
		} else printf("rej op\n");
		fflush(stdout);
	}
	kill_all();
	return 0;
}
