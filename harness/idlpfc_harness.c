/* C15 harness: the real src/idl_demux.c and src/pfc_demux.c behind the line protocol.
 *
 *   idl new <chan> <addr> <fill>   -> ok | ok null        (vbi_idl_a_demux_new; the allocator returns
 *                                                          memory filled with byte <fill>)
 *   idl newfmt <format> <chan> <addr> -> ok | ok null | rej format   (vbi_malloc + _vbi_idl_demux_init with any of
 *                                                          the five _VBI_IDL_FORMAT_* values, on zeroed memory;
 *                                                          another format value would run into assert (0), it
 *                                                          is answered `rej format` without calling zvbi)
 *   idl feed <42B>                 -> ok <ret> [cb <flags> <bytes>]
 *   idl reset                      -> ok
 *   idl state                      -> ok <format> <channel> <address> <ci> <ri> <flags>   (the struct fields)
 *   idl crctab                     -> ok <256 x uint16 big endian>   (idl_a_crc_table as compiled)
 *   pfc new <pgno> <stream>        -> ok
 *   pfc feed <42B>                 -> ok <ret> [blk <app> <size> <bytes>]*
 *   pfc reset                      -> ok
 *   idl|pfc expect <tag> <tokens>  -> ok   (annotation for the oracle: what the property demands of the
 *                                          preceding feed; ignored here)
 *
 * Packets handed to zvbi are exact 42-byte heap allocations (h_hex), so ASan sees any access
 * beyond them.  Both .c files are #included to reach the static CRC table.
 */
#include "hutil.h"

static int h_fill = 0;
static void *h_fill_malloc(size_t n)
{
	void *p = (malloc)(n);
	if (p) memset(p, h_fill, n);
	return p;
}
#define malloc(n) h_fill_malloc(n)

#include "src/idl_demux.c"
#include "src/pfc_demux.c"

static vbi_idl_demux *idl;
static vbi_pfc_demux *pfc;

static vbi_bool idl_cb(vbi_idl_demux *dx, const uint8_t *buffer, unsigned int n_bytes,
		       unsigned int flags, void *user_data)
{
	(void) dx; (void) user_data;
	printf(" cb %u ", flags);
	h_puthex(buffer, (int) n_bytes);
	return TRUE;
}

static vbi_bool pfc_cb(vbi_pfc_demux *dx, void *user_data, const vbi_pfc_block *block)
{
	(void) dx; (void) user_data;
	printf(" blk %u %u ", block->application_id, block->block_size);
	h_puthex(block->block, (int) block->block_size);
	return TRUE;
}

static void drop_all(void)
{
	vbi_idl_demux_delete(idl); idl = NULL;
	vbi_pfc_demux_delete(pfc); pfc = NULL;
}

static void do_idl(void)
{
	long long a, b, c;
	if (H_IS(1, "new") && h_ntok == 5) {
		if (!h_int(h_tok[2], &a) || !h_int(h_tok[3], &b) || !h_int(h_tok[4], &c)
		    || a < 0 || a > 0xFFFFFFFFLL || b < 0 || b > 0xFFFFFFFFLL || c < 0 || c > 255) {
			printf("rej parse\n"); return;
		}
		vbi_idl_demux_delete(idl);
		h_fill = (int) c;
		idl = vbi_idl_a_demux_new((unsigned int) a, (unsigned int) b, idl_cb, NULL);
		h_fill = 0;
		printf(idl ? "ok\n" : "ok null\n");
	} else if (H_IS(1, "newfmt") && h_ntok == 5) {
		vbi_idl_demux *dx;
		if (!h_int(h_tok[2], &a) || !h_int(h_tok[3], &b) || !h_int(h_tok[4], &c)
		    || a < 0 || a > 0xFFFFFFFFLL || b < 0 || b > 0xFFFFFFFFLL || c < 0 || c > 0xFFFFFFFFLL) {
			printf("rej parse\n"); return;
		}
		if (a != _VBI_IDL_FORMAT_A && a != _VBI_IDL_FORMAT_B && a != _VBI_IDL_FORMAT_DATAVIDEO
		    && a != _VBI_IDL_FORMAT_AUDETEL && a != _VBI_IDL_FORMAT_LBRA) {
			printf("rej format\n"); return;	/* default: assert (0) in _vbi_idl_demux_init */
		}
		vbi_idl_demux_delete(idl); idl = NULL;
		h_fill = 0;
		dx = vbi_malloc(sizeof(*dx));		/* as vbi_idl_a_demux_new() does */
		if (!dx) { printf("rej alloc\n"); return; }
		if (!_vbi_idl_demux_init(dx, (_vbi_idl_format) a, (unsigned int) b, (unsigned int) c, idl_cb, NULL)) {
			vbi_free(dx);
			dx = NULL;
		}
		idl = dx;
		printf(idl ? "ok\n" : "ok null\n");
	} else if (H_IS(1, "feed") && h_ntok == 3) {
		int n; uint8_t *buf = h_hex(h_tok[2], &n);
		if (!buf || n != 42) { free(buf); printf("rej parse\n"); return; }
		if (!idl) { free(buf); printf("rej state\n"); return; }
		{
			/* the callback prints inside the call; the return value must come first */
			char *out = NULL; size_t len = 0; FILE *mem = open_memstream(&out, &len), *save = stdout;
			vbi_bool r;
			stdout = mem;
			r = vbi_idl_demux_feed(idl, buf);
			fflush(mem); stdout = save; fclose(mem);
			printf("ok %d%s\n", r ? 1 : 0, out ? out : "");
			free(out);
		}
		free(buf);
	} else if (H_IS(1, "reset") && h_ntok == 2) {
		if (!idl) { printf("rej state\n"); return; }
		vbi_idl_demux_reset(idl);
		printf("ok\n");
	} else if (H_IS(1, "state") && h_ntok == 2) {
		if (!idl) { printf("rej state\n"); return; }
		printf("ok %u %u %u %d %d %u\n", (unsigned int) idl->format, (unsigned int) idl->channel,
		       (unsigned int) idl->address, idl->ci, idl->ri, idl->flags);
	} else if (H_IS(1, "crctab") && h_ntok == 2) {
		int i;
		if (0 == idl_a_crc_table[1]) {
			/* the table is filled by the first vbi_idl_a_demux_new() */
			vbi_idl_demux *t = vbi_idl_a_demux_new(0, 0, idl_cb, NULL);
			vbi_idl_demux_delete(t);
		}
		printf("ok ");
		for (i = 0; i < 256; ++i) printf("%04x", idl_a_crc_table[i]);
		printf("\n");
	} else if (H_IS(1, "expect")) {
		printf("ok\n");	/* carries the sender side's expectation for the oracle */
	} else
		printf("rej op\n");
}

static void do_pfc(void)
{
	long long a, b;
	if (H_IS(1, "new") && h_ntok == 4) {
		if (!h_int(h_tok[2], &a) || !h_int(h_tok[3], &b)
		    || a < 0 || a > 0x7FFFFFFFLL || b < 0 || b > 0xFFFFFFFFLL) {
			printf("rej parse\n"); return;
		}
		vbi_pfc_demux_delete(pfc);
		pfc = vbi_pfc_demux_new((vbi_pgno) a, (unsigned int) b, pfc_cb, NULL);
		printf(pfc ? "ok\n" : "ok null\n");
	} else if (H_IS(1, "feed") && h_ntok == 3) {
		int n; uint8_t *buf = h_hex(h_tok[2], &n);
		if (!buf || n != 42) { free(buf); printf("rej parse\n"); return; }
		if (!pfc) { free(buf); printf("rej state\n"); return; }
		{
			char *out = NULL; size_t len = 0; FILE *mem = open_memstream(&out, &len), *save = stdout;
			vbi_bool r;
			stdout = mem;
			r = vbi_pfc_demux_feed(pfc, buf);
			fflush(mem); stdout = save; fclose(mem);
			printf("ok %d%s\n", r ? 1 : 0, out ? out : "");
			free(out);
		}
		free(buf);
	} else if (H_IS(1, "reset") && h_ntok == 2) {
		if (!pfc) { printf("rej state\n"); return; }
		vbi_pfc_demux_reset(pfc);
		printf("ok\n");
	} else if (H_IS(1, "expect")) {
		printf("ok\n");	/* carries the sender side's expectation for the oracle */
	} else
		printf("rej op\n");
}

int main(void)
{
	int k;
	while ((k = h_next())) {
		if (k == 2) { drop_all(); continue; }
		if (H_IS(0, "idl")) do_idl();
		else if (H_IS(0, "pfc")) do_pfc();
		else printf("rej op\n");
	}
	drop_all();
	return 0;
}
