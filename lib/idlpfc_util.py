"""Python side of the C15 sender specs (IDL format A, Page Format Clear).

Written from the packet layouts, independent of libzvbi and of the Lean model (the Lean
`IdlSender`/`PfcSender` are compared with these encoders on every run by the check script).
"""

# ---------------------------------------------------------------- Hamming 8/4 (EN 300 706 8.2)
def ham8(n):
    d1, d2, d3, d4 = n & 1, (n >> 1) & 1, (n >> 2) & 1, (n >> 3) & 1
    p1 = 1 ^ d1 ^ d3 ^ d4
    p2 = 1 ^ d1 ^ d2 ^ d4
    p3 = 1 ^ d1 ^ d2 ^ d3
    p4 = 1 ^ p1 ^ d1 ^ p2 ^ d2 ^ p3 ^ d3 ^ d4
    return p1 | d1 << 1 | p2 << 2 | d2 << 3 | p3 << 4 | d3 << 5 | p4 << 6 | d4 << 7

HAM8 = [ham8(n) for n in range(16)]

def unham8(c):
    """value if c is within one bit of a codeword, else None"""
    for n in range(16):
        d = HAM8[n] ^ c
        if d == 0 or (d & (d - 1)) == 0:
            return n
    return None

def hx(bs):
    return "".join("%02x" % b for b in bs) or "-"

# ---------------------------------------------------------------- IDL format A
def crc_bitwise(data, c=0):
    """x^16+x^9+x^7+x^4+1, LSB first"""
    for b in data:
        c ^= b
        for _ in range(8):
            c = (c >> 1) ^ (0x8940 if c & 1 else 0)
    return c

def unshift16(o):
    for _ in range(16):
        o = (((o ^ 0x8940) << 1) | 1) if o & 0x8000 else (o << 1)
    return o

def stuff(data, ci, dummy):
    out, hist, cnt = [], ci, 0
    for b in data:
        out.append(b)
        if b in (0, 0xFF) and b == hist:
            cnt += 1
            if cnt == 7:
                out.append(dummy)
                hist, cnt = dummy, 0
        else:
            hist, cnt = b, 0
    return out

def idl_capacity(ft, spa_len):
    """bytes available for the (stuffed) payload"""
    return 36 - spa_len - (1 if ft & 2 else 0) - (1 if ft & 4 else 0) - (1 if ft & 8 else 0)

def idl_packet(channel, ft, ial, spa, ri, ci, data, dummy=0xAA, pad=None, designation=15):
    """-> 42 bytes, or None when the stuffed data does not fit"""
    payload = stuff(data, ci, dummy)
    cap = idl_capacity(ft, len(spa))
    if ft & 8:
        if len(payload) > cap:
            return None
        pad = list(pad if pad is not None else [0x55] * (cap - len(payload)))
        if len(pad) != cap - len(payload):
            return None
    else:
        if len(payload) != cap:
            return None
        pad = []
    head = [HAM8[channel], HAM8[designation], HAM8[ft], HAM8[ial]] + [HAM8[n] for n in spa]
    if ft & 2:
        head.append(ri)
    region = ([ci] if ft & 4 else []) + ([len(payload)] if ft & 8 else []) + payload + pad
    c = crc_bitwise(region)
    target = 0 if ft & 4 else ci * 257
    w = c ^ unshift16(target)
    pkt = head + region + [w & 0xFF, w >> 8]
    assert len(pkt) == 42, len(pkt)
    return pkt

def spa_value(spa):
    v = 0
    for i, n in enumerate(spa):
        v |= n << (4 * i)
    return v

def fit_data(rng, cap, ci, dummy, exact, style):
    """user data whose stuffed form has length == cap (exact) or <= cap"""
    def gen(n):
        if style == "runs":
            out = []
            while len(out) < n:
                out += [rng.choice([0, 0xFF, 0, 0xFF, rng.randrange(256)])] * rng.choice([1, 2, 7, 8, 9, 15, 16, 17])
            return out[:n]
        if style == "zeros":
            return [0] * n
        if style == "ff":
            return [0xFF] * n
        return [rng.randrange(256) for _ in range(n)]
    n = cap if exact else rng.randrange(cap + 1)
    data = gen(n)
    while len(stuff(data, ci, dummy)) > cap:
        data.pop()
    if exact:
        # pad with bytes that never start a run
        while len(stuff(data, ci, dummy)) < cap:
            data.append(rng.choice([0x11, 0x5A, 0xC3]))
            if len(stuff(data, ci, dummy)) > cap:
                data.pop(); data.pop() if data else None
    return data

# ---------------------------------------------------------------- Page Format Clear
SEP, FILL = 0x0C, 0x03

def pfc_header_packet(pgno, stream, ci, n_packets, mag_serial=True):
    """page header (packet 0) of page `pgno` (0x100..0x8FF); sub-code carries stream, ci, n_packets"""
    mag = (pgno >> 8) & 7
    pmag = mag | (0 << 3)
    subno = (ci & 15) | ((n_packets & 7) << 4) | ((stream & 15) << 8) | (((n_packets >> 3) & 3) << 12)
    b = [HAM8[pmag & 15], HAM8[pmag >> 4], HAM8[pgno & 15], HAM8[(pgno >> 4) & 15],
         HAM8[subno & 15], HAM8[(subno >> 4) & 15], HAM8[(subno >> 8) & 15], HAM8[(subno >> 12) & 15]]
    return b + [HAM8[0]] * 2 + [0x20] * 32

def pfc_data_packet(pgno, y, bp_nibble, payload39):
    mag = (pgno >> 8) & 7
    pmag = mag | (y << 3)
    assert len(payload39) == 39
    return [HAM8[pmag & 15], HAM8[pmag >> 4], HAM8[bp_nibble]] + list(payload39)

def pfc_block_bytes(app, data):
    sh = (app & 0x1F) | (len(data) << 5)
    return [HAM8[SEP]] + [HAM8[(sh >> (4 * k)) & 15] for k in range(4)] + list(data)

def pfc_layout(blocks, gaps, lead=0):
    """blocks: [(app, data)], gaps[i] = filler bytes after block i (before alignment padding).
    -> (stream bytes, roles, spans) where roles[i] in 'S','H','D','F', spans[i] = (first, last) stream
    index of block i.  Alignment padding: whenever a separator would be the first one of a 39 byte
    packet that starts between blocks, fillers are added until its offset in the packet is a
    multiple of 3 and <= 36 (so that the block pointer can announce it)."""
    s, roles, spans = [HAM8[FILL]] * lead, ["F"] * lead, []
    for (app, data), gap in zip(blocks, gaps):
        # position of the separator
        while True:
            pos = len(s)
            off = pos % 39
            pkt_start = pos - off
            first_in_pkt = all(r != "S" for r in roles[pkt_start:pos])
            # a packet "starts idle" when no block is in progress at its first byte
            starts_idle = pkt_start == pos or roles[pkt_start] == "F"
            if first_in_pkt and starts_idle and (off % 3 != 0 or off > 36):
                s.append(HAM8[FILL]); roles.append("F")
                continue
            break
        bb = pfc_block_bytes(app, data)
        first = len(s)
        s += bb
        roles += ["S"] + ["H"] * 4 + ["D"] * len(data)
        spans.append((first, len(s) - 1))
        s += [HAM8[FILL]] * gap
        roles += ["F"] * gap
    while len(s) % 39:
        s.append(HAM8[FILL]); roles.append("F")
    return s, roles, spans

def pfc_bp(roles, k):
    """block pointer nibble of the k-th 39 byte packet: offset/3 of its first separator when that
    offset is a multiple of 3 (<= 36), else 13 (no block start announced)"""
    for off in range(39):
        if roles[39 * k + off] == "S":
            return off // 3 if off % 3 == 0 and off <= 36 else 13
    return 13
