"""C03, round 6: "double-bit error in protected unit k" twins for EVERY unit k of a packet.

A *unit* is what one Hamming decode call protects: one Hamming 8/4 byte, or the three bytes of a Hamming 24/18
triplet.  Two bit errors inside one unit are uncorrectable (both codes are SEC-DED).  For a packet of every kind
the decoder validates (header, X/26, X/27/0, X/27/4, X/28/0/1/3/4, M/29/0/1/4, 8/30, MOT / MIP / BTT / MPT / AIT /
POP rows) `unit_shapes` builds a small transmission around ONE target packet; checks/C03.py then emits one case per
unit of the target packet (not sampled).  Written from EN 300 706 (which bytes of which packet are protected how),
independent of the decoder model.

Two rules (judged on the output of the real code only):

  strict    `packet removed ; reset ; packet with the damaged unit`: the observables (events, dumps of the cache,
            cached pages incl. extension = character sets / CLUT / screen and row colour / DRCS CLUT, page statistics,
            network, magazine tables) must be IDENTICAL.  Used where the property demands "changes nothing": address,
            designation bytes, every triplet of X/28 and M/29 (one bit stream over all triplets), X/27/0 link control,
            the initial page link of 8/30.
  contained `removed ; reset ; error free ; reset ; damaged`: the unit protects one item of a list (a link, a page
            type, an enhancement triplet), the decoder may apply the other items.  Every observable ATOM (one link,
            one CLUT entry, one row, one flag bit, one page statistics field ...) of the damaged run must have the
            value of the error-free run or of the run without the packet (or, where the property allows abandoning -
            headers, page statistics - be absent).  A value neither run has is data made from an uncorrectable unit.
"""
import re
import ttx_util as T


def damage(rng, b, positions):
    """two bit errors inside the unit that occupies byte `positions` of packet b"""
    bits = [(p, k) for p in positions for k in range(8)]
    (p1, k1), (p2, k2) = rng.sample(bits, 2)
    return T.flip(T.flip(b, p1, k1), p2, k2)


def h8_units(first, last, rule, name="byte"):
    return [("%s%d" % (name, p), [p], rule) for p in range(first, last + 1)]


def trip_units(n, rule, first=3):
    return [("triplet%d" % j, [first + 3 * j, first + 3 * j + 1, first + 3 * j + 2], rule) for j in range(n)]


ADDR = [("addr0", [0], "strict"), ("addr1", [1], "strict")]

# tag of the target packet -> units (name, byte positions in the 42-byte packet, rule)
UNITS = {
    "x28": ADDR + [("designation", [2], "strict")] + trip_units(13, "strict"),
    "m29": ADDR + [("designation", [2], "strict")] + trip_units(13, "strict"),
    "x26": ADDR + [("designation", [2], "strict")] + trip_units(13, "contained"),
    "hdr": ADDR + h8_units(2, 9, "contained"),
    "x27": ADDR + [("designation", [2], "strict")] + h8_units(3, 38, "contained", "link") + [("control", [39], "strict")],
    "x27b": ADDR + [("designation", [2], "strict")] + trip_units(12, "contained"),
    "830": ADDR + [("designation", [2], "strict")] + h8_units(3, 8, "strict", "link"),
    "mot": ADDR + h8_units(2, 41, "contained"),
    "mip": ADDR + h8_units(2, 41, "mip"),
    "btt": ADDR + h8_units(2, 41, "contained"),
    "mpt": ADDR + h8_units(2, 41, "contained"),
    "ait": ADDR + h8_units(2, 9, "contained") + h8_units(22, 29, "contained"),
    "pop": ADDR + [("designation", [2], "strict")] + trip_units(13, "contained"),
}

# what the unit class is called in a verdict (signature for known findings: shape, not bytes)
CLASS = {"x28": "X/28 packet", "m29": "M/29 packet", "x26": "X/26 packet", "hdr": "page header", "x27": "X/27/0 packet",
         "x27b": "X/27/4 packet", "830": "8/30 packet", "mot": "MOT row", "mip": "MIP row", "btt": "BTT row",
         "mpt": "MPT row", "ait": "AIT row", "pop": "POP row"}


def rnd_text_row(rng):
    return [rng.choice([0x20, 0x41 + rng.randrange(26), 0x61 + rng.randrange(26), 0x30 + rng.randrange(10)])
            for _ in range(40)]


def x28_fields(rng, function=0):
    return dict(function=function, coding=rng.randrange(8), cs0=1 + rng.randrange(127), cs1=1 + rng.randrange(127),
                lp=rng.randrange(2), rp=rng.randrange(2), status=rng.randrange(2), lcols=rng.randrange(16),
                colors=[1 + rng.randrange(4095) for _ in range(16)], screen=1 + rng.randrange(31),
                rowc=1 + rng.randrange(31), bbg=1, remap=1 + rng.randrange(7))


def clut_triplets(rng):
    """X/28/1, M/29/1: first triplet not for Level 2.5 / 3.5 decoders, then 8 + 32 five-bit DRCS CLUT entries"""
    f = [(rng.randrange(1 << 18), 18)] + [(1 + rng.randrange(31), 5) for _ in range(40)] + [(rng.randrange(1 << 16), 16)]
    return T.pack_bits(f)


def pairs(codes):
    return sum([[c & 15, c >> 4] for c in codes], [])


def unit_shapes(rng, Tx, hdr_text, f22_fixed=True):
    """-> list of (label, tag of the target, tx, index of the target packet in tx.pk, extra dump ops)"""
    out = []

    def lop_page(tx, m, page, rows=2, subno=0):
        tx.page(rng, m, page, subno, {n: rnd_text_row(rng) for n in rng.sample(range(1, 25), rows)})

    # ---- X/28/0, X/28/4 (alone and behind an X/28/0), X/28/1 on a Level one page; X/28/3 on a page of unknown function
    for label in ("x28/0", "x28/4", "x28/4after0", "x28/1", "x28/3"):
        tx = Tx()
        m = rng.choice([1, 2, 3, 4, 8])
        if label == "x28/3":
            page = rng.choice([0x1A, 0x2B, 0xAC])          # hexadecimal page number: function unknown until X/28/3
            tx.mags.add(m); tx.sec += 1
            tx.add(T.header(m, page, 0, text=hdr_text(m * 256 + page, tx.sec)), "hdr")
            tx.sent_pages.add((m * 256 + page, 0))
            modes = list(range(16)) if f22_fixed else [0, 1, 2, 4, 14, 15]
            f = [(rng.choice([4, 5]), 4), (rng.randrange(8), 3), (rng.randrange(1 << 11), 11)] + \
                [(rng.choice(modes), 4) for _ in range(48)] + [(rng.randrange(1 << 18), 18)]
            i = len(tx.pk)
            tx.add(T.x28_0(m, 28, 3, T.pack_bits(f)), "x28")
            tx.add(T.row(m, 1, [0x40 + rng.randrange(0x40) for _ in range(40)]), "drcsrow", m * 256 + page, 1)
        else:
            page = rng.choice([0x00, 0x12, 0x45, 0x99])
            lop_page(tx, m, page)
            if label == "x28/4after0":
                tx.add(T.x28_format1(m, 28, 0, **x28_fields(rng)), "x28")
            i = len(tx.pk)
            if label == "x28/1":
                tx.add(T.x28_0(m, 28, 1, clut_triplets(rng)), "x28")
            else:
                tx.add(T.x28_format1(m, 28, 0 if label == "x28/0" else 4, **x28_fields(rng)), "x28")
        tx.flush()
        out.append((label, "x28", tx, i, []))
    # ---- M/29/0, M/29/4 (alone and behind M/29/0), M/29/1: magazine defaults, then a page of that magazine
    for label in ("m29/0", "m29/4", "m29/4after0", "m29/1"):
        tx = Tx()
        m = rng.choice([1, 2, 3, 4, 8])
        lop_page(tx, m, 0x00)
        if label == "m29/4after0":
            tx.add(T.x28_format1(m, 29, 0, **x28_fields(rng)), "m29")
        i = len(tx.pk)
        if label == "m29/1":
            tx.add(T.x28_0(m, 29, 1, clut_triplets(rng)), "m29")
        else:
            tx.add(T.x28_format1(m, 29, 0 if label == "m29/0" else 4, **x28_fields(rng)), "m29")
        lop_page(tx, m, 0x01)
        tx.flush()
        out.append((label, "m29", tx, i, []))
    # ---- X/26/0 with 13 live triplets on a Level one page
    tx = Tx()
    m = rng.choice([1, 2, 3, 4, 8])
    trips = [(rng.randrange(40), rng.choice([1, 2, 9, 0xF, 0x10]), 0x21 + rng.randrange(0x5E)) for _ in range(13)]
    trips[0] = (40 + rng.randrange(1, 24), 4, 0)
    tx.page(rng, m, rng.choice([0x00, 0x37]), 0, {n: rnd_text_row(rng) for n in rng.sample(range(1, 25), 3)}, x26=[trips],
            x26_first=rng.random() < 0.5)
    i = [k for k, (_, t) in enumerate(tx.pk) if t == "x26"][0]
    tx.flush()
    out.append(("x26/0", "x26", tx, i, []))
    # ---- the header of the second of three pages of one magazine (each page transmitted once)
    tx = Tx()
    m = rng.choice([1, 2, 3, 4, 8])
    pages = rng.sample([0x00, 0x11, 0x23, 0x45, 0x67, 0x89], 3)
    hdrs = []
    for pg in pages:
        hdrs.append(len(tx.pk))
        lop_page(tx, m, pg, rows=3, subno=rng.choice([0, 1, 0x12]))
    tx.flush()
    out.append(("hdr", "hdr", tx, hdrs[1], []))
    # ---- X/27/0 (six links + link control), X/27/4 (six links in triplet pairs)
    for label in ("x27/0", "x27/4"):
        tx = Tx()
        m = rng.choice([1, 2, 3, 4, 8])
        lop_page(tx, m, 0x00)
        i = len(tx.pk)
        if label == "x27/0":
            links = [(rng.choice([0x101, 0x1FE, 0x234, 0x8FE, 0x345]), rng.choice([0x3F7E, 2, 1])) for _ in range(6)]
            tx.add(T.x27_0(m if m != 8 else 0, links, rng.choice([0xF, 0x7, 0x8])), "x27")
        else:
            b = T.addr(m, 27) + [T.ham8(4)]
            for _ in range(6):
                t1 = rng.randrange(1, 4) | (rng.randrange(1, 16) << 7) | (rng.randrange(1, 10) << 15) | (rng.randrange(1, 8) << 12)
                t2 = (1 + rng.randrange(0xFFFE)) << 3
                b += T.ham24(t1 & 0x3FFFF) + T.ham24(t2 & 0x3FFFF)
            b += [0, 0, 0]
            tx.add(b[:42], "x27b")
        tx.flush()
        out.append((label, "x27" if label == "x27/0" else "x27b", tx, i, []))
    # ---- 8/30 format 1: initial page
    tx = Tx()
    lop_page(tx, 1, 0x00)
    i = len(tx.pk)
    tx.add(T.p830(rng.choice([0, 1]), rng.choice([0x123, 0x345, 0x8FE]), rng.choice([0x3F7E, 1])), "830")
    tx.flush()
    out.append(("8/30", "830", tx, i, []))

    # ---- system pages sent as rows of 40 Hamming 8/4 bytes
    def h8_page(tx, m, page, rows, tag):
        tx.mags.add(m); tx.sec += 1
        tx.add(T.header(m, page, 0, text=hdr_text(m * 256 + page, tx.sec)), "hdr")
        tx.sent_pages.add((m * 256 + page, 0))
        idx = {}
        for n, nib in rows.items():
            idx[n] = len(tx.pk)
            tx.add(T.h8row(m, n, nib), tag, m * 256 + page, n)
        return idx

    # MOT: object page / DRCS page associations (rows 1..8, 9..14), POP links (19, 22), DRCS links (21)
    tx = Tx()
    m = rng.choice([1, 2, 8])
    rows = {3: [1 + rng.randrange(7) for _ in range(40)], 10: [1 + rng.randrange(7) for _ in range(40)],
            rng.choice([19, 22]): sum([[m & 7, 1 + rng.randrange(9), rng.randrange(10), 1, rng.choice([2, 4, 6, 10]),
                                        1 + rng.randrange(15), 1 + rng.randrange(15), 1 + rng.randrange(15),
                                        1 + rng.randrange(15), 1 + rng.randrange(15)] for _ in range(4)], []),
            21: sum([[m & 7, 1 + rng.randrange(9), rng.randrange(10), 1] for _ in range(8)], []) + [0] * 8}
    idx = h8_page(tx, m, 0xFE, rows, "h8row")
    tx.flush()
    for n in sorted(rows):
        out.append(("mot/%d" % n, "mot", tx, idx[n], []))
    # MIP: page types (rows 1..8 decimal pages, 9..14 hexadecimal pages); decoded when the page ends
    tx = Tx()
    m = rng.choice([1, 2, 3, 8])
    simple = [0x01, 0x02, 0x05, 0x10, 0x4F, 0x52, 0x70, 0x77, 0x79, 0x7B, 0x81, 0x82, 0xE3, 0xE7, 0xF8, 0xFC, 0xFE]
    rows = {2: pairs([rng.choice(simple) for _ in range(20)]), 5: pairs([rng.choice(simple) for _ in range(20)]),
            9: pairs([rng.choice(simple) for _ in range(18)]) + [rng.randrange(16) for _ in range(4)]}
    idx = h8_page(tx, m, 0xFD, rows, "h8row")
    tx.flush()
    for n in (2, 9):
        out.append(("mip/%d" % n, "mip", tx, idx[n], []))
    # BTT (magazine 1, page 1F0): page types (rows 1..20), links to the other TOP pages (rows 21, 22);
    # then the MPT and the AIT page the links announce
    tx = Tx()
    rows = {2: [rng.choice([1, 2, 3, 4, 5, 6, 7, 8, 9, 10, 11]) for _ in range(40)],
            13: [rng.choice([1, 2, 4, 6, 8, 9]) for _ in range(40)]}
    links = []
    for pg, fn in ((0x1F1, 2), (0x1F2, 1), (0x1F3, 3), (0x2F1, 1), (0x2F2, 2)):      # function: 1 MPT, 2 AIT, 3 MPT-EX
        links += [pg >> 8, (pg >> 4) & 15, pg & 15, 0, 0, 0, rng.randrange(3), fn]
    rows[21] = links
    bidx = h8_page(tx, 1, 0xF0, rows, "h8row")
    midx = h8_page(tx, 1, 0xF2, {2: [1 + rng.randrange(9) for _ in range(40)],
                                 13: [1 + rng.randrange(9) for _ in range(40)]}, "h8maybe")
    title = [T.par8(0x41 + rng.randrange(26)) for _ in range(12)]
    ait_row = T.addr(1, 3) + [T.ham8(v) for v in (1, rng.randrange(10), rng.randrange(10), 0, 0, 0, 0, 2)] + title + \
        [T.ham8(v) for v in (2, rng.randrange(10), rng.randrange(10), 0, 0, 0, 0, 2)] + title
    tx.mags.add(1); tx.sec += 1
    tx.add(T.header(1, 0xF1, 0, text=hdr_text(0x1F1, tx.sec)), "hdr")
    tx.sent_pages.add((0x1F1, 0))
    aidx = len(tx.pk)
    tx.add(ait_row, "h8maybe", 0x1F1, 3)
    tx.flush()
    for n in (2, 21):
        out.append(("btt/%d" % n, "btt", tx, bidx[n], []))
    out.append(("mpt/2", "mpt", tx, midx[2], []))
    out.append(("ait/3", "ait", tx, aidx, []))
    # POP page (page type from a MIP): rows are designation + 13 triplets
    tx = Tx()
    tx.x26t = None
    m = rng.choice([1, 2, 8])
    r1 = pairs([0x01] * 5 + [0xE6, 0xE5] + [0x01] * 3 + [0x01] * 5 + [0xE6, 0xE5] + [0x01] * 3)
    h8_page(tx, m, 0xFD, {1: r1}, "h8row")
    tx.mags.add(m); tx.sec += 1
    tx.add(T.header(m, 0x05, 0, text=hdr_text(m * 256 + 5, tx.sec)), "hdr")
    tx.sent_pages.add((m * 256 + 5, 0))
    i = len(tx.pk)
    tx.add(T.x28_0(m, 7, rng.choice([0, 1, 2]), [rng.randrange(1 << 18) for _ in range(13)]), "poprow", m * 256 + 5, 7)
    tx.flush()
    out.append(("pop/7", "pop", tx, i, []))
    return out


# ------------------------------------------------------------------------------------------------ comparison

FLAG_KEYS = ("flags", "lp", "x26", "x27", "x28", "rlp")


def fields(line):
    """`ok k=v k=v ...` -> dict (keys in order of appearance are irrelevant)"""
    d = {}
    for w in line.split()[1:]:
        k, sep, v = w.partition("=")
        if sep:
            d[k] = v
    return d


def atoms(key, v):
    """observable atoms of one dump field: the finest items the decoder writes independently"""
    if key == "raw" or key == "lopraw":
        return v.split(".")                                    # one text row
    if key in ("link", "poplink", "btt"):
        return v.split(";")                                    # one link record
    if key == "enh":
        return [v[i:i + 6] for i in range(0, len(v), 6)]       # one enhancement triplet
    if key in ("poplut", "drcslut"):
        return [v[i:i + 2] for i in range(0, len(v), 2)]       # one association
    if key in ("ext", "drcslink"):
        return v.split(",")                                    # one scalar / one CLUT entry (the DRCS CLUT blob is one atom)
    return [v]


def among(f, c, r):
    return f == c or f == r


def contained_line(op, f, c, r, abandon_ok):
    """-> None or a description of the first atom of dump line `f` (damaged run) that neither `c` (error free) nor
    `r` (packet removed) shows"""
    if f == c or f == r:
        return None
    name = op.split()[0]
    if name == "asm":
        return None                 # page under assembly: fill levels differ by design, nothing a user can fetch
    if name == "cached":
        extra = set(f.split()[1:]) - set(c.split()[1:]) - set(r.split()[1:])
        return ("cached: %s" % sorted(extra)[0]) if extra else None
    if name == "stat":
        fc = {w.split(":")[0]: w.split(":")[1:] for w in c.split()[1:]}
        fr = {w.split(":")[0]: w.split(":")[1:] for w in r.split()[1:]}
        untouched = ["ff", "ff", "ffff"]
        for w in f.split()[1:]:
            pg, vals = w.split(":")[0], w.split(":")[1:]
            for k, (x, nm) in enumerate(zip(vals, ("page type", "character set", "subpages"))):
                if x not in (fc.get(pg, untouched)[k], fr.get(pg, untouched)[k], untouched[k]):
                    return "stat %s of page %s = %s [error free %s, packet removed %s]" % (
                        nm, pg, x, fc.get(pg, untouched)[k], fr.get(pg, untouched)[k])
        return None
    if f.startswith("ok none"):
        if abandon_ok or c.startswith("ok none") or r.startswith("ok none"):
            return None
        return "%s: page missing" % op
    ff, fc, fr = fields(f), fields(c), fields(r)
    for k, v in ff.items():
        if k == "h8":
            continue            # verbatim copy of the header's Hamming bytes, never read (Props/C03Hdr8)
        refs = [d[k] for d in (fc, fr) if k in d]
        if not refs:
            if c.startswith("ok none") and r.startswith("ok none"):
                return "%s: page exists only in the damaged run" % op
            if abandon_ok and (c.startswith("ok none") or r.startswith("ok none")):
                continue
            return "%s %s appears" % (op, k)
        if v in refs:
            continue
        if k in FLAG_KEYS:
            x = int(v, 16)
            ones = 0
            zeros = ~0
            for y in refs:
                ones |= int(y, 16)
                zeros &= int(y, 16)
            if x & ~ones or zeros & ~x:
                return "%s %s = %s [error free / removed: %s]" % (op, k, v, " / ".join(refs))
            continue
        av = atoms(k, v)
        ar = [atoms(k, y) for y in refs]
        if any(len(a) != len(av) for a in ar):
            return "%s %s has another length" % (op, k)
        for i, x in enumerate(av):
            if k == "enh" and x == "ffffff":
                continue        # an unused entry addresses nothing (what the array holds where nothing was stored)
            if all(a[i] != x for a in ar):
                return "%s %s[%d] = %s [error free / removed: %s]" % (op, k, i, x[:24], " / ".join(a[i][:24] for a in ar))
    return None


def events(ops, outs):
    ev = []
    for o, r in zip(ops, outs):
        if o.startswith("pkt"):
            ev += [w for w in r.split() if w.startswith("ev:")]
    return ev


def dump_lines(ops, outs):
    return [(o, r) for o, r in zip(ops, outs) if o.split()[0] in ("cached", "page", "stat", "net", "mag", "asm")]


def judge_contained(removed, clean, faulted, abandon_ok):
    """halves are (ops, outs).  -> None or what the damaged run shows that no other run does"""
    # an event names a page (`ev:page:<pgno>.<subno>:...`); the flags behind it (roll header, clock update) depend on
    # the reference header the decoder keeps, which an abandoned header legitimately does not refresh
    def key(e):
        return ":".join(e.split(":")[:3])
    er, ec, ef = [key(e) for e in events(*removed)], [key(e) for e in events(*clean)], [key(e) for e in events(*faulted)]
    for e in ef:
        if e not in er and e not in ec:
            return "event %s" % e
    dr, dc, df = dump_lines(*removed), dump_lines(*clean), dump_lines(*faulted)
    if not (len(dr) == len(dc) == len(df)):
        return None
    for (o, f), (_, c), (_, r) in zip(df, dc, dr):
        w = contained_line(o, f, c, r, abandon_ok)
        if w:
            return w
    return None
