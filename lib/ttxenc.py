"""Sender-side encoders written from the standards (EN 300 706 Teletext, EIA-608 caption bytes, EN 300 231 VPS,
EN 300 294 WSS), independent of libzvbi's tables.  Used by the generators of several checks (C01, C17, ...).
All functions return lists of ints (bytes).  Sliced payload of a Teletext B line = 42 bytes (address + 40)."""

SL_TTX = 0x00000003      # VBI_SLICED_TELETEXT_B (L10 | L25)
SL_TTX_L25 = 0x00000002
SL_VPS = 0x00000004
SL_CC625 = 0x00000018
SL_WSS625 = 0x00000400
SL_CC525_F1 = 0x00000020
SL_CC525_F2 = 0x00000040
SL_CC525 = 0x00000060

HAM8 = [0x15, 0x02, 0x49, 0x5e, 0x64, 0x73, 0x38, 0x2f, 0xd0, 0xc7, 0x8c, 0x9b, 0xa1, 0xb6, 0xfd, 0xea]


def ham8(n):
    """EN 300 706 8.2: bits P1 D1 P2 D2 P3 D3 P4 D4 (lsb first)"""
    return HAM8[n & 15]


def ham16(v):
    return [ham8(v & 15), ham8((v >> 4) & 15)]


def par(b):
    """odd parity in bit 7"""
    b &= 0x7F
    return b | (0x80 if bin(b).count("1") % 2 == 0 else 0)


def ham24(v):
    """EN 300 706 8.3: 18 data bits -> 24 bit word, positions 1..24 =
    P1 P2 D1 P3 D2 D3 D4 P4 D5..D11 P5 D12..D18 P6; Pn (n=1..5) makes parity over the positions whose
    1-based index has bit n-1 set odd; P6 makes overall parity odd.  Returned lsb = position 1."""
    pos = [0] * 25
    data_pos = [3, 5, 6, 7] + list(range(9, 16)) + list(range(17, 24))
    for i, p in enumerate(data_pos):
        pos[p] = (v >> i) & 1
    for n in range(5):
        pp = 1 << n
        s = 0
        for p in range(1, 24):
            if p != pp and (p & pp):
                s ^= pos[p]
        pos[pp] = s ^ 1
    pos[24] = (sum(pos[1:24]) & 1) ^ 1
    w = 0
    for p in range(1, 25):
        w |= pos[p] << (p - 1)
    return [w & 255, (w >> 8) & 255, (w >> 16) & 255]


def addr(mag, packet):
    """mag 1..8 (8 sent as 0), packet 0..31"""
    return [ham8((mag & 7) | ((packet & 1) << 3)), ham8(packet >> 1)]


def text(s, n=40):
    b = [ord(c) & 0x7F if isinstance(c, str) else c & 0x7F for c in s][:n]
    b += [0x20] * (n - len(b))
    return [par(x) for x in b]


# control bits of the page header
C4_ERASE, C5_NEWSFLASH, C6_SUBTITLE, C7_SUPPRESS, C8_UPDATE, C9_INTERRUPTED, C10_INHIBIT, C11_SERIAL = \
    0x80, 0x4000, 0x8000, 0x10000, 0x20000, 0x40000, 0x80000, 0x100000


def header(mag, page, subcode=0, flags=0, national=0, txt=""):
    """page = two hex digits (units, tens), subcode 13 bits S1..S4 (0x3F7F mask), flags as above."""
    s = subcode & 0x3F7F
    c4 = 1 if flags & C4_ERASE else 0
    c5 = 1 if flags & C5_NEWSFLASH else 0
    c6 = 1 if flags & C6_SUBTITLE else 0
    cbits = [(flags >> 16) & 1, (flags >> 17) & 1, (flags >> 18) & 1, (flags >> 19) & 1]  # C7..C10
    c11 = 1 if flags & C11_SERIAL else 0
    b = addr(mag, 0)
    b += [ham8(page & 15), ham8((page >> 4) & 15)]
    b += [ham8(s & 15), ham8(((s >> 4) & 7) | (c4 << 3)), ham8((s >> 8) & 15),
          ham8(((s >> 12) & 3) | (c5 << 2) | (c6 << 3))]
    b += [ham8(cbits[0] | (cbits[1] << 1) | (cbits[2] << 2) | (cbits[3] << 3)),
          ham8(c11 | ((national & 7) << 1))]
    # libzvbi reads the national option bits reversed (C12 C13 C14); callers pass the raw 3-bit field
    b += text(txt, 32)
    return b


def row(mag, y, txt):
    return addr(mag, y) + (text(txt) if not (isinstance(txt, list) and len(txt) == 40) else list(txt))


def raw_packet(mag, y, payload40):
    p = list(payload40)[:40]
    return addr(mag, y) + p + [0] * (40 - len(p))


def triplet(address, mode, data):
    return ham24((address & 0x3F) | ((mode & 0x1F) << 6) | ((data & 0x7F) << 11))


def x26(mag, designation, triplets):
    """up to 13 (address, mode, data) triplets; padded with termination markers (address 63, mode 31)"""
    b = addr(mag, 26) + [ham8(designation)]
    t = list(triplets)[:13]
    while len(t) < 13:
        t.append((0x3F, 0x1F, 0x7F))
    for a, m, d in t:
        b += triplet(a, m, d)
    return b


def link(cur_mag, pgno, subcode=0x3F7F):
    """6 Hamming 8/4 bytes of an X/27 link (EN 300 706 9.6.1): relative magazine in the subcode bytes"""
    m = ((pgno >> 8) & 7) ^ (cur_mag & 7)
    s = subcode
    return [ham8(pgno & 15), ham8((pgno >> 4) & 15), ham8(s & 15), ham8(((s >> 4) & 7) | ((m & 1) << 3)),
            ham8((s >> 8) & 15), ham8(((s >> 12) & 3) | ((m >> 1) << 2))]


def x27_flof(mag, links, link_control=0xF):
    """X/27/0: six links + link control byte + 2 crc bytes"""
    b = addr(mag, 27) + [ham8(0)]
    ls = list(links)[:6]
    while len(ls) < 6:
        ls.append((0x8FF, 0x3F7F))
    for pg, sc in ls:
        b += link(mag, pg, sc)
    b += [ham8(link_control), 0, 0]
    return b


def x27_enh(mag, designation, links):
    """X/27/4..7: six links, each one 24/18 triplet pair in libzvbi's reading: we send triplets
    (function/validity + page) loosely - used for robustness streams, not for exact round trips"""
    b = addr(mag, 27) + [ham8(designation)]
    for i in range(6):
        pg, fn = links[i] if i < len(links) else (0x8FF, 0)
        t1 = (fn & 3) | (3 << 2) | ((pg & 0xF) << 6) | (((pg >> 4) & 0xF) << 10) | (((pg >> 8) & 7) << 14)
        b += ham24(t1) + ham24(0x3FFFF)
    b += [0, 0, 0]
    return b[:42]


def x28(mag, packet, designation, bits18x13):
    """X/28 or M/29 with 13 triplets of raw 18-bit values"""
    b = addr(mag, packet) + [ham8(designation)]
    t = list(bits18x13)[:13]
    while len(t) < 13:
        t.append(0)
    for v in t:
        b += ham24(v & 0x3FFFF)
    return b


def p830(designation, initial_page=0x100, body20=None, status=""):
    b = addr(8, 30) + [ham8(designation)]
    b += link(0, initial_page)
    body = list(body20 or [])[:13]
    b += body + [0] * (13 - len(body))
    b += text(status, 20)
    return b[:42]


def ham_bytes(vals):
    return [ham8(v) for v in vals]


def cc_pair(a, b):
    return [par(a), par(b)]


def vps(cni=0, pil=0, pcs=0, pty=0):
    """13 payload bytes as libzvbi slices them (bytes 3..15 of the VPS line), EN 300 231"""
    b = [0] * 13
    b[2] = ((pcs & 3) << 6) | (b[2] & 0x3F)
    b[8] = (((cni >> 6) & 3) << 6) | ((pil >> 14) & 0x3F)
    b[9] = (pil >> 6) & 0xFF
    b[10] = ((pil & 0x3F) << 2) | ((cni >> 8) & 3)
    b[11] = ((cni >> 4) & 0xC0) | (cni & 0x3F)
    b[12] = pty & 0xFF
    b[2] |= (cni >> 10) & 0
    return b


def wss625(aspect_bits4, rest=0):
    """14 bit word, group 1 = 3 bits + odd parity, lsb first in byte 0"""
    g1 = aspect_bits4 & 7
    p = 1 ^ (bin(g1).count("1") & 1)
    w = g1 | (p << 3) | ((rest & 0x3FF) << 4)
    return [w & 255, (w >> 8) & 0x3F]


def hx(bs):
    return "".join("%02x" % (b & 255) for b in bs) or "-"
