"""Sender-side knowledge about X/26 enhancement data and transmission schedules for the C03 generator and
oracle (written from EN 300 706 section 12.3, independent of libzvbi and of the Lean model).

Nothing here looks at decoder output.  `x26_cells` answers the question the property's exception clause asks:
which character cells of a page does the X/26 data *of that page* override?  Only in those cells may a
cached Level 1 character differ from what was transmitted as Level 1 text (EN 300 706 Table 25 note: the
fallback character under an enhancement character may be sent with any parity)."""
import hashlib, json
import ttx_util as T

# column-address triplets (address 0..39) that put / alter a character at the active row (EN 300 706 12.3.2/12.3.4):
# 0x01 G1 block mosaic, 0x02 / 0x0B G3 line drawing, 0x08 modified G0/G2 designation (libzvbi counts it, so the
# exception is granted), 0x09 G0 character, 0x0D DRCS character, 0x0F G2 character, 0x10..0x1F G0 + diacritical mark
CHAR_MODES = frozenset([0x01, 0x02, 0x08, 0x09, 0x0B, 0x0D, 0x0F] + list(range(0x10, 0x20)))
# column-address triplets that do not place a character (colours, flash, display attributes, PDC, reserved)
ATTR_MODES = (0x00, 0x03, 0x04, 0x05, 0x06, 0x07, 0x0A, 0x0C, 0x0E)
# row-address triplets (address 40..63) that move the active position
ROW_SET_MODES = (0x01, 0x04)          # full row colour, set active position: row = address - 40, 0 means row 24
ROW0_MODE = 0x07                      # address display row 0 (address field 63)
# row-address triplets that leave the active position alone (full screen colour, origin modifier, object
# invocation / definition, DRCS mode, PDC, reserved; 0x1F = termination marker)
ROW_KEEP_MODES = (0x00, 0x10, 0x11, 0x12, 0x13, 0x15, 0x16, 0x17, 0x18, 0x08, 0x09)
TERMINATION = (0x3F, 0x1F, 0x7F)


def addressed_row(address):
    """row addressed by a row-address triplet with modes 0x01 / 0x04 (EN 300 706 12.3.1: address 40 = row 24)"""
    return 24 if address == 40 else address - 40


def x26_cells(triplets):
    """triplets: the (address, mode, data) triplets of all X/26 packets of one page transmission in designation
    order -> set of (row, column) whose Level 1 character is overridden by enhancement data.
    The active row starts at 0 (page header).  Triplets behind a termination marker are still counted: a
    decoder that keeps reading there only grants a wider exception, never a narrower one."""
    row, out = 0, set()
    for a, m, _ in triplets:
        if a < 40:
            if m in CHAR_MODES:
                out.add((row, a))
        elif a <= 63:
            if m in ROW_SET_MODES:
                row = addressed_row(a)
            elif m == ROW0_MODE:
                row = 0
    return out


def active_row(triplets):
    """the active row after `triplets` (row 0 = header at the start): named by the last row-address triplet of
    mode 0x01 / 0x04 / 0x07"""
    row = 0
    for a, m, _ in triplets:
        if 40 <= a <= 63:
            if m in ROW_SET_MODES:
                row = addressed_row(a)
            elif m == ROW0_MODE:
                row = 0
    return row


def x26_rows_cols(triplets):
    """-> (rows addressed by any row-address triplet, columns addressed by any character triplet)"""
    rows, cols = set(), set()
    for a, m, _ in triplets:
        if a < 40 and m in CHAR_MODES:
            cols.add(a)
        elif 40 <= a <= 63 and m in ROW_SET_MODES:
            rows.add(addressed_row(a))
        elif 40 <= a <= 63 and m == ROW0_MODE:
            rows.add(0)
    return rows, cols


def chunk13(triplets):
    """a triplet program -> list of per-packet triplet lists (designation = index), 13 each, last one padded by
    the encoder with termination markers"""
    t = list(triplets)
    return [t[i:i + 13] for i in range(0, max(len(t), 1), 13)]


def rnd_program(rng, npackets, rows_pool=None, cols_pool=None, row0=0.25, start_with_row=0.8):
    """a random X/26 triplet program filling `npackets` packets: runs of
    [row-address triplet (0x04 / 0x01 / 0x07 / a mode that keeps the row)] [1..4 column triplets] ...
    Every packet begins with a row-address triplet with probability `start_with_row` (encoders usually do that,
    and it makes a packet meaningful on its own)."""
    rows_pool = rows_pool or list(range(1, 25))
    cols_pool = cols_pool or list(range(40))
    n = 13 * npackets - rng.choice([0, 0, 1, 3, 6]) if npackets else 0
    n = max(n, 13 * (npackets - 1) + 2)
    out = []

    def row_triplet():
        k = rng.random()
        if k < row0:
            return (63 if rng.random() < 0.8 else 40 + rng.randrange(24), ROW0_MODE, rng.randrange(128))
        if k < 0.9:
            r = rng.choice(rows_pool)
            a = 40 if r == 24 else 40 + r
            return (a, rng.choice(ROW_SET_MODES), rng.randrange(40) if rng.random() < 0.7 else rng.randrange(128))
        return (40 + rng.randrange(24), rng.choice(ROW_KEEP_MODES), rng.randrange(128))

    def col_triplet():
        k = rng.random()
        if k < 0.8:
            return (rng.choice(cols_pool), rng.choice(sorted(CHAR_MODES)), 0x20 + rng.randrange(0x60))
        return (rng.choice(cols_pool), rng.choice(ATTR_MODES), rng.randrange(128))

    while len(out) < n:
        if len(out) % 13 == 0 and rng.random() >= start_with_row:
            out.append(col_triplet())
            continue
        out.append(row_triplet())
        for _ in range(rng.choice([1, 1, 2, 3, 4])):
            if len(out) >= n or (len(out) % 13 == 0 and rng.random() < start_with_row):
                break
            out.append(col_triplet())
    return out[:n]


def pack_knowledge(k):
    """sender knowledge -> one token (no blanks) for a `note tx` op"""
    return json.dumps(k, separators=(",", ":"), sort_keys=True)


def stream_digest(lines):
    """digest of the op lines a piece of sender knowledge was written for (everything but the `note tx` line)"""
    h = hashlib.sha1()
    for l in lines:
        if l.startswith("note tx "):
            continue
        h.update(l.encode() + b"\n")
    return h.hexdigest()[:16]


def bad_byte(rng, b, pos):
    """two bit errors in byte `pos` of packet b (uncorrectable for Hamming 8/4, invisible to a parity bit)"""
    b1, b2 = rng.sample(range(8), 2)
    return T.flip(T.flip(b, pos, b1), pos, b2)
