"""C01, round "C01lang": generator for the subtitle-language path of the decoder (packet.c page_language and the readers of
ttx_page_stat.charset_code, vbi.c vbi_classify_page / cache.c cache_network_get_ttx_page_stat).

A case = a small network in which
  * M/29/0, M/29/4 of a magazine and / or X/28/0, X/28/4 of a page designate a character set code: undefined ones
    (88 .. 127, the 7-bit field admits them; 120 and 127 more often), the holes of vbi_font_descriptors[] (39 .. 53, 56 ..),
    87 / 88 (the last element and the first behind), defined ones, with every national option in the page header,
  * TOP (BTT packet of page 1F0, code 1) and / or MIP (page mFD, codes 0x70 .. 0x77) mark the page as subtitle page -
    before the page arrives (store_lop records the language), after it (the cached page is looked at) or both,
  * the page is transmitted (closed by the next header of its magazine), retransmitted, also with another designation,
  * then `classify` (the reader that indexes the font table), `fetch`, `title`, export of the page, `chsw` + classify again.
Everything is drawn from the rng handed in (checks/C01.py gives it a generator of its own: the main stream of the earlier
rounds stays what it was)."""
import ttxenc as T
from ttxenh import pack_bits, lut_packets

UNDEFINED = list(range(88, 128))
HOLES = list(range(39, 54)) + [56, 57, 60, 63, 65, 66, 67, 69, 70, 72, 80, 86]
DEFINED = [0, 1, 6, 8, 16, 21, 22, 32, 33, 36, 38, 54, 55, 64, 68, 71, 85, 87]


def designation(r):
    k = r.random()
    if k < 0.45: return r.choice(UNDEFINED)
    if k < 0.60: return r.choice([120, 127, 88, 96, 104, 112])
    if k < 0.75: return r.choice(HOLES)
    if k < 0.80: return r.choice([87, 88])
    return r.choice(DEFINED)


def ext_triplets(r, cs0, cs1=None, function=0):
    """13 triplets of X/28/0, /4, M/29/0, /4: function (4), coding (3), G0/G2 designation (7), second G0 (7), the rest random"""
    fields = [(function, 4), (r.choice([0, 0, r.randrange(8)]), 3), (cs0, 7), (r.randrange(128) if cs1 is None else cs1, 7)]
    fields += [(r.getrandbits(16), 16) for _ in range(14)]
    return pack_bits(fields)


def hdr(mag, page, national=0, flags=0, sub=0):
    return T.header(mag, page, sub, flags, national, "%d%02X SUBT" % (mag, page))


def bcd_pages(r, n):
    out = []
    while len(out) < n:
        p = (r.randrange(10) << 4) | r.randrange(10)
        if p not in out: out.append(p)
    return out


def btt_packets(r, marks):
    """BTT 1F0 rows for the marked pages: {pgno (BCD, 0x100 .. 0x899): code}"""
    pk = [hdr(1, 0xF0)]
    rows = {}
    for pgno, code in marks.items():
        d = ((pgno >> 8) & 15) * 100 + ((pgno >> 4) & 15) * 10 + (pgno & 15)
        if not (100 <= d <= 899): continue
        rows.setdefault((d - 100) // 40 + 1, {})[(d - 100) % 40] = code
    for packet, ent in sorted(rows.items()):
        pk.append(T.addr(1, packet) + [T.ham8(ent.get(k, 0)) for k in range(40)])
    return pk + [hdr(1, 0xFF, 0, 0, 0x3F7F)]


def mip_packets(r, mag, marks):
    """MIP page mFD: {page (two hex digits): code}"""
    vals = {p: (c & 15, c >> 4) for p, c in marks.items()}
    return [hdr(mag, 0xFD)] + lut_packets(mag, vals, r, 1.0) + [hdr(mag, 0xFF, 0, 0, 0x3F7F)]


def page_packets(r, mag, page, national, x28=None):
    fl = 0
    if r.random() < 0.5: fl |= T.C6_SUBTITLE | T.C7_SUPPRESS
    pk = [hdr(mag, page, national, fl)]
    for y in r.sample(range(1, 25), r.randrange(1, 4)):
        pk.append(T.row(mag, y, "subtitle %d" % y))
    for desig, cs in (x28 or []):
        pk.append(T.x28(mag, 28, desig, ext_triplets(r, cs)))
    return pk + [hdr(mag, 0xFF, 0, 0, 0x3F7F)]


def ops_of(r, packets, t):
    ops = []
    i = 0
    while i < len(packets):
        n = r.randrange(1, 9)
        for p in packets[i:i + n]:
            ops.append("l %x %d %s" % (T.SL_TTX, r.choice([7, 8, 20, 320]), T.hx(p)))
        ops.append("dec %d" % t)
        t += 40000
        i += n
    return ops, t


def gen_case(r, fixed=None):
    """op lines of one case (without the final `delete`).  fixed = (cs, via, how) for the deterministic replay"""
    mag = r.randrange(1, 9) if fixed is None else 1
    pages = bcd_pages(r, r.randrange(1, 4)) if fixed is None else [0x00]
    nat = {p: (r.randrange(8) if r.random() < 0.6 else 0) for p in pages}
    if fixed: nat = {0: 0}
    ops, t = [], 0
    queries = []

    def q(p):
        pg = mag * 256 + p
        out = ["classify %x" % pg]
        k = r.random()
        if k < 0.3: out += ["fetch %x 3f7f %d %d %d" % (pg, r.choice([0, 1, 2, 3]), r.choice([25, 24, 1]), r.randrange(2)), "export text -1"]
        elif k < 0.4: out += ["title %x 0" % pg]
        elif k < 0.5: out += ["hisub %x" % pg]
        return out

    for phase in range(r.randrange(1, 4) if fixed is None else 1):
        pk = []
        via = r.choice(["m29", "m29", "x28", "both", "m29-4", "x28-4"]) if fixed is None else fixed[1]
        mark = r.choice(["btt", "mip", "both"]) if fixed is None else fixed[2]
        if mag != 1 and mark == "btt" and r.random() < 0.5: mark = "mip"
        order = r.choice(["mark-first", "page-first", "mark-both"]) if fixed is None else "mark-first"
        cs = {p: (designation(r) if fixed is None else fixed[0]) for p in pages}
        mcs = designation(r) if fixed is None else fixed[0]

        def marks():
            out = []
            if mark in ("btt", "both"):
                out += btt_packets(r, {mag * 256 + p: 1 for p in pages})
            if mark in ("mip", "both"):
                out += mip_packets(r, mag, {p: 0x70 + (r.randrange(8) if fixed is None else 0) for p in pages})
            return out

        if via in ("m29", "both", "m29-4"):
            m29 = [T.x28(mag, 29, 4 if via == "m29-4" else 0, ext_triplets(r, mcs))]
            if via == "m29-4" and r.random() < 0.5:
                m29.insert(0, T.x28(mag, 29, 0, ext_triplets(r, designation(r))))
            # M/29 belongs to the magazine: sent behind some header of it
            pk += [hdr(mag, 0xFF, 0, 0, 0x3F7F)] + m29
        if order in ("mark-first", "mark-both"): pk += marks()
        for p in pages:
            x28 = None
            if via in ("x28", "both"): x28 = [(0, cs[p])]
            elif via == "x28-4": x28 = [(4, cs[p])] if r.random() < 0.5 else [(0, designation(r)), (4, cs[p])]
            pk += page_packets(r, mag, p, nat[p], x28)
        if order in ("page-first", "mark-both"): pk += marks()
        if fixed is None and r.random() < 0.1:
            pk = [[b ^ (1 << r.randrange(8)) if r.random() < 0.004 else b for b in p] for p in pk]
        o, t = ops_of(r, pk, t)
        ops += o
        for p in pages:
            ops += q(p)
        if fixed is None and r.random() < 0.15:
            ops.append("chsw %d" % r.randrange(3))
            ops += q(pages[0])
    return ops


def replay_120():
    """deterministic: BTT marks 100 as subtitle page, M/29/0 of magazine 1 designates 120, page 100, classify"""
    import random
    return gen_case(random.Random(120), fixed=(120, "m29", "btt"))
