"""C15: cases for the IDL formats other than A (`idl newfmt`).

`vbi_idl_demux_feed` dispatches on dx->format; format B, Datavideo, Audetel and LBRA end in TODO stubs.
The property (Props/C15Formats.lean `idl_unsupported_format_refused`, `..._silent_history`): such a
demultiplexer never delivers, never changes, and its return value depends on the first three bytes only.
The expectation after each feed is computed here from the packet bytes alone (independent of libzvbi and
of the Lean model); the oracle of checks/C15.py compares it with the real code's `ok <ret>` - a `cb ...`
in the output is a mismatch as well.
"""
from idlpfc_util import HAM8, unham8, hx, idl_packet, idl_capacity, spa_value, fit_data

FMT_NAMES = {1: "a", 2: "b", 4: "datavideo", 8: "audetel", 16: "lbra"}

# bytes at distance >= 2 from every Hamming 8/4 codeword
BAD_HAM = [c for c in range(256) if unham8(c) is None]


def fmt_expect_ret(fmt, channel, pkt):
    """what vbi_idl_demux_feed must return for a demultiplexer of format 2/4/8/16 on `channel`"""
    c, d = unham8(pkt[0]), unham8(pkt[1])
    if c is None or d is None:
        return 0                        # (channel | designation) < 0
    if d != 15 or c != channel:
        return 1                        # not packet 30/31 of our channel
    if fmt == 2:
        ft = unham8(pkt[2])
        if ft is None:
            return 0
        return 0 if (ft & 3) == 1 else 1   # ft & 3 == 1 goes to the stub idl_b_demux_feed -> FALSE
    return 0                            # datavideo / audetel / lbra stubs -> FALSE


def _valid_a(rng, channel, spa, ci, ft=None, designation=15):
    """a valid format A packet (CRC and all) for channel / address nibbles `spa`"""
    ft = rng.choice([0, 2, 4, 6, 8, 10, 12, 14]) if ft is None else ft
    dummy = rng.choice([0xAA, 0x55, 0x01, 0xFE])
    cap = idl_capacity(ft, len(spa))
    data = fit_data(rng, cap, ci, dummy, not (ft & 8), rng.choice(["runs", "rand", "zeros", "ff"]))
    ri = rng.choice([0, 0x80, 0x10]) if ft & 2 else 0
    p = idl_packet(channel, ft, len(spa) | rng.choice([0, 8]), spa, ri, ci, data, dummy, designation=designation)
    assert p is not None
    return p


def gen_idl_fmt_case(rng):
    """op lines of ONE case"""
    ops = []
    # malformed constructor lines first (state stays empty: nothing to compare afterwards)
    r = rng.random()
    if r < 0.10:
        ops.append("idl newfmt %d 1 1" % rng.choice([0, 3, 5, 6, 7, 9, 12, 17, 31, 32, 255, 4294967295]))   # rej format
    elif r < 0.18:
        ops.append(rng.choice(["idl newfmt x 1 1", "idl newfmt 2 -1 1", "idl newfmt 2 1", "idl newfmt 2 1 4294967296",
                               "idl newfmt 4294967296 1 1", "idl newfmt 2 1 1 1", "idl newfmt 2 1 0x"]))
        # `idl newfmt 2 1` / `2 1 1 1` have the wrong token count -> rej op, the others rej parse

    r = rng.random()
    fmt = 1 if r < 0.12 else rng.choice([2, 2, 4, 8, 16])
    channel = rng.randrange(16)
    null = False
    spa_len = rng.choice([0, 1, 2, 3, 4, 5, 6])
    spa = [rng.randrange(16) for _ in range(spa_len)]
    addr = spa_value(spa)
    r = rng.random()
    if r < 0.10:
        channel = rng.choice([16, 17, 255, 4294967295])
        null = True
    elif r < 0.30:
        # an address format A refuses; the other formats have no such test.  Packets still carry `spa`.
        addr = rng.choice([1 << 24, (1 << 24) + addr, 0xFFFFFFFF, 0x80000000])
        if fmt == 1:
            null = True
    ops.append("idl newfmt %d %d %d" % (fmt, channel, addr))
    name = FMT_NAMES[fmt]
    pchan = channel % 16
    ci = rng.randrange(256)
    # an `idl newfmt <bad format>` after a good one leaves the demultiplexer in place
    if rng.random() < 0.1:
        ops.append("idl newfmt 3 1 1")

    for _ in range(rng.randrange(10, 41)):
        k = rng.randrange(12)
        if k <= 2:        # valid format A packet of our channel / address
            p = _valid_a(rng, pchan, spa, ci)
            ci = (ci + 1) & 0xFF
        elif k == 3:      # FT nibble odd: ft & 3 == 1 (handed to idl_b_demux_feed) or == 3
            p = _valid_a(rng, pchan, spa, ci, ft=0)
            p[2] = HAM8[rng.choice([1, 5, 9, 13, 3, 7, 11, 15])]
        elif k == 4:      # any FT nibble, single bit error in the header bytes (still decodable)
            p = _valid_a(rng, pchan, spa, ci, ft=0)
            p[2] = HAM8[rng.randrange(16)]
            p[rng.randrange(3)] ^= 1 << rng.randrange(8)
        elif k == 5:      # other channel
            p = _valid_a(rng, (pchan + 1 + rng.randrange(15)) % 16, spa, ci)
        elif k == 6:      # not packet 30/31
            p = _valid_a(rng, pchan, spa, ci, designation=rng.randrange(15))
        elif k == 7:      # undecodable byte 0, 1 or 2
            p = _valid_a(rng, pchan, spa, ci)
            p[rng.randrange(3)] = rng.choice(BAD_HAM)
        elif k == 8:      # several undecodable header bytes
            p = _valid_a(rng, pchan, spa, ci)
            for j in rng.sample([0, 1, 2], 2):
                p[j] = rng.choice(BAD_HAM)
        elif k == 9:      # header of our channel, random rest
            p = [HAM8[pchan], HAM8[15], HAM8[rng.randrange(16)]] + [rng.randrange(256) for _ in range(39)]
        elif k == 10:     # random bytes
            p = [rng.randrange(256) for _ in range(42)]
        else:
            ops.append(rng.choice(["idl reset", "idl state"]))
            continue
        ops.append("idl feed " + hx(p))
        if fmt != 1 and not null:
            ops.append("idl expect fmt-%s %d" % (name, fmt_expect_ret(fmt, channel, p)))
    ops.append("idl state")     # -> ok <format> <channel> <address> <ci> <ri> <flags>: still as initialised (fmt != 1)
    return ops


def oracle_idl_fmt(case, out):
    """Extra oracle clause for cases of gen_idl_fmt_case (the return values are judged through the `expect` lines):
    after `idl newfmt <2|4|8|16> c a` answered `ok`, every `idl state` must print the struct exactly as initialised,
    `ok <fmt> <c> <a> -1 -1 0`, and no feed may deliver (`cb`), whatever was fed or reset in between.
    Returns None or a short description."""
    cur = None
    for op, o in zip(case, out):
        w = op.split()
        if w[:2] == ["idl", "new"]:
            cur = None
        elif w[:2] == ["idl", "newfmt"] and len(w) == 5:
            if o == "ok":
                try:
                    f, c, a = int(w[2], 0), int(w[3], 0), int(w[4], 0)
                except ValueError:
                    return "idl: fmt: constructor accepted an unparsable line"
                if f not in FMT_NAMES or c >= 16 or (f == 1 and a >= 1 << 24):
                    return "idl: fmt-%s: constructor accepted channel %d address %d" % (FMT_NAMES.get(f, "?"), c, a)
                cur = (f, c, a) if f != 1 else None
            elif o == "ok null":
                try:
                    f, c, a = int(w[2], 0), int(w[3], 0), int(w[4], 0)
                except ValueError:
                    return "idl: fmt: constructor ran on an unparsable line"
                if c < 16 and not (f == 1 and a >= 1 << 24):
                    return "idl: fmt-%s: constructor refused channel %d address %d" % (FMT_NAMES.get(f, "?"), c, a)
                cur = None
        elif cur and w[:2] == ["idl", "feed"] and " cb " in o:
            return "idl: fmt-%s: delivery from an unimplemented format" % FMT_NAMES[cur[0]]
        elif cur and w[:2] == ["idl", "state"]:
            if o != "ok %d %d %d -1 -1 0" % cur:
                return "idl: fmt-%s: state changed" % FMT_NAMES[cur[0]]
    return None
