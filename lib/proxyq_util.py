"""Helpers of checks/C18.py: parsing of the proxyq harness output and the C18 property oracle.

The oracle judges the property on the output of the REAL daemon (harness/proxyq_harness.c) only; it never
looks at the Lean model.  It uses (a) the op script (what the clients asked for, what the device captured and
which services it can deliver), (b) the audit line the harness prints after every iteration of the daemon's
main loop (the daemon's own queue, cursors, service masks) and (c) the messages the clients received.
"""
import re

SL_BASE = 8 + 16          # header + VBIPROXY_SLICED_IND_SIZE(0,0); cross-checked by the `consts` op
SCNF, SREJ = 8 + 688, 8 + 128


def pnum(s):
    return int(s, 16) if s.startswith("0x") else int(s)


def parse_audit(line):
    """'ok D[ ev.. ] Q[ seq:ref.. ] F<n> dev=o:as:ml | c<k> st= cur= as= sv= ov= ml= wl= | ... || msgs' -> dict"""
    m = re.match(r"ok D\[(.*?) \] Q\[(.*?) \] F(\d+) dev=(\d):([0-9a-f]+):(\d+)(.*?) \|\|(.*)$", line)
    if not m:
        return None
    dev = m.group(1).split()
    q = []
    for e in m.group(2).split():
        a, b = e.split(":")
        q.append((int(a), int(b)))
    clients = []
    for part in m.group(7).split(" | ")[1:]:
        kv = {}
        w = part.split()
        kv["id"] = int(w[0][1:])
        for x in w[1:]:
            k, v = x.split("=")
            kv[k] = v
        clients.append(dict(id=kv["id"], st=int(kv["st"]), cur=(None if kv["cur"] == "-" else (-1 if kv["cur"] == "?" else int(kv["cur"]))),
                            all=int(kv["as"], 16), sv=[int(x, 16) for x in kv["sv"].split(",")], ml=int(kv["ml"]),
                            wl=int(kv["wl"]), ov=int(kv["ov"])))
    msgs = []
    for w in m.group(8).split():
        if w == "-":
            continue
        f = w.split(":")
        k = int(f[0][1:])
        kind = f[1]
        if kind == "sl":
            lines = [] if f[4] == "-" else [tuple(x.split(".")) for x in f[4].split(",")]
            msgs.append((k, "sl", int(f[2]), int(f[3]), [(int(a, 16), int(b), c) for a, b, c in lines]))
        elif kind in ("cnf", "scnf"):
            msgs.append((k, kind, int(f[2], 16), None if f[3] == "-" else int(f[3])))
        elif kind == "chg":
            msgs.append((k, kind, int(f[2]), int(f[3])))
        else:
            msgs.append((k, kind))
    return dict(dev=dev, q=q, free=int(m.group(3)), open=int(m.group(4)), all=int(m.group(5), 16),
                ml=int(m.group(6)), clients=clients, msgs=msgs)


def popcount(x):
    return bin(x).count("1")


class Oracle:
    """state of the reference while walking through one case"""

    def __init__(self, filter_bounds_input=True):
        self.supp = [0xFFFFFFFF & ~0x60000000] * 4
        self.L = 2
        self.frames = []          # seq -> (ts, [(id, line, seed)])
        self.by_ts = {}
        self.cl = {}              # id -> dict
        self.nclients = 0
        self.prev = None          # previous audit
        self.iter_no = 0
        self.relall_since = False
        self.known = None
        self.dev_open = False
        self.active = 0           # services the device decodes (from the upd calls)
        self.reads = 0
        self.active_before = 0
        self.reconfigured = False

    def note_known(self, what):
        if self.known is None:
            self.known = what

    # ---------------------------------------------------------------- ops
    def op(self, ws):
        k = ws[0]
        if k == "dev":
            if self.nclients:
                self.reconfigured = True      # the device changes under connected clients (norm change)
            self.L = pnum(ws[2])
            self.supp = [pnum(x) for x in ws[3:7]]
        elif k == "conn":
            c = dict(id=self.nclients, levels=[0, 0, 0, 0], reqs=[("conn", pnum(ws[1]), int(ws[2]) + 1, 0)], replies=0,
                     closed_at=None, expect=[], got=[], last_ts=-1, svc_ops=0, snap_ml=0, gone=False)
            self.cl[self.nclients] = c
            self.nclients += 1
        elif k == "svc":
            c = self.cl[int(ws[1])]
            c["reqs"].append(("svc", pnum(ws[2]), int(ws[3]) + 1, int(ws[4])))
            c["svc_ops"] += 1
        elif k in ("bye", "close"):
            c = self.cl[int(ws[1])]
            if c["closed_at"] is None:
                c["closed_at"] = self.iter_no
        elif k in ("cap", "capfull"):
            lines = []
            for w in ws[2:]:
                a, b, s = w.split(":")
                lines.append((pnum(a), pnum(b), str(pnum(s))))
            self.by_ts[pnum(ws[1])] = len(self.frames)
            self.frames.append((pnum(ws[1]), lines, k == "capfull"))
        elif k == "relall":
            self.relall_since = True

    def apply_req(self, c):
        """reference grant after the next unanswered request of client c"""
        kind, sv, st, reset = c["reqs"][c["replies"]]
        if kind == "svc" and reset:
            c["levels"] = [0, 0, 0, 0]
        c["levels"] = [l & ~sv for l in c["levels"]]
        c["levels"][st] |= sv
        c["replies"] += 1
        g = 0
        for l in range(4):
            g |= c["levels"][l] & self.supp[l]
        return g, sv

    # ---------------------------------------------------------------- one audit line
    def audit(self, a):
        """-> violation text or None"""
        self.iter_no += 1
        it = self.iter_no
        prev = self.prev
        self.active_before = self.active
        # ---- structure of the queue (refcount_exact on the real daemon)
        pos = {s: i for i, (s, _) in enumerate(a["q"])}
        if len(pos) != len(a["q"]):
            return "iter %d: a buffer is queued twice" % it
        for c in a["clients"]:
            if c["cur"] is not None and c["cur"] not in pos and c["st"] == 2 and c["all"] == 0 and self.reconfigured:
                return "grant-lost: client %d keeps its queue cursor although the device grants it nothing any more " \
                       "(the queue was freed meanwhile)" % c["id"]
            if c["cur"] is not None and c["cur"] not in pos:
                return "iter %d: cursor of client %d points outside the queue" % (it, c["id"])
            if c["cur"] is not None and c["st"] == 2 and c["all"] == 0 and self.reconfigured:
                # known (D7): the device was re-programmed (norm change) and no longer grants this client anything;
                # vbi_proxyd_update_services set all_services = 0 but left the cursor in the queue
                return "grant-lost: client %d keeps its queue cursor although the device grants it nothing any more" % c["id"]
            if c["cur"] is not None and not (c["st"] == 2 and c["all"] != 0):
                return "iter %d: client %d has queued frames but is not subscribed" % (it, c["id"])
        for i, (s, r) in enumerate(a["q"]):
            n = sum(1 for c in a["clients"] if c["cur"] is not None and pos[c["cur"]] <= i)
            if r != n:
                return "iter %d: ref_count %d of buffer %d, %d cursors at or before it" % (it, r, s, n)
            if r == 0:
                return "iter %d: buffer %d queued with ref_count 0" % (it, s)
        seqs = [s for s, _ in a["q"]]
        if seqs != sorted(seqs):
            return "iter %d: queue not in capture order" % it
        # ---- device calls: opened for the union, closed when the last subscriber leaves
        for e in a["dev"]:
            if e == "open":
                if self.dev_open:
                    return "iter %d: device opened twice" % it
                self.dev_open = True
                self.active = 0
            elif e == "close":
                if not self.dev_open:
                    return "iter %d: device closed twice" % it
                self.dev_open = False
            elif e.startswith("upd:"):
                _, fl, sv, st, g = e.split(":")
                if not self.dev_open:
                    return "iter %d: update_services on a closed device" % it
                if fl[0] == "1":
                    self.active = 0
                if int(g, 16) != int(sv, 16) & self.supp[int(st) + 1]:
                    return "iter %d: harness grant mismatch" % it
                self.active |= int(g, 16)
        if self.dev_open != bool(a["open"]):
            return "iter %d: device open flag %d, open/close calls say %d" % (it, a["open"], self.dev_open)
        subs = [c for c in a["clients"] if c["st"] == 2 and c["all"] != 0]
        if a["open"] != (1 if subs else 0):
            return "iter %d: device %s although %d clients have services" % (it, "open" if a["open"] else "closed", len(subs))
        if a["open"]:
            union = 0
            for c in subs:
                union |= c["all"]
            if a["all"] != union:
                return "iter %d: device services %#x, union of the clients' grants %#x" % (it, a["all"], union)
            if self.active != union:
                return "iter %d: device decodes %#x, union of the clients' grants %#x" % (it, self.active, union)
        for c in a["clients"]:
            if c["st"] == 2:
                g = 0
                for l in range(4):
                    g |= c["sv"][l] & self.supp[l]
                if g != c["all"] and not self.reconfigured:
                    return "iter %d: client %d all_services %#x, its levels grant %#x" % (it, c["id"], c["all"], g)
        # ---- frames read in this iteration: who is subscribed (state before the iteration)
        for e in a["dev"]:
            if e.startswith("read:"):
                s = int(e[5:])
                if s != self.reads:
                    return "iter %d: device frame %d read out of order" % (it, s)
                self.reads += 1
                for pc in (prev["clients"] if prev else []):
                    if pc["st"] == 2 and pc["all"] != 0:
                        self.cl[pc["id"]]["expect"].append(dict(seq=s, mask=pc["all"], ml=pc["ml"], left=None, how=None,
                                                               count=prev_count(self, prev)))
        # ---- messages
        for m in a["msgs"]:
            c = self.cl.get(m[0])
            if c is None:
                return "iter %d: message for unknown client %d" % (it, m[0])
            if m[1] in ("cnf", "rej", "scnf", "srej"):
                if c["replies"] >= len(c["reqs"]):
                    return "iter %d: client %d got a reply without a request" % (it, m[0])
                kind = c["reqs"][c["replies"]][0]
                g, sv = self.apply_req(c)
                want_rej = (g & sv) == 0 and sv != 0
                if kind == "conn" and m[1] not in ("cnf", "rej") or kind == "svc" and m[1] not in ("scnf", "srej"):
                    return "iter %d: client %d: reply %s to a %s request" % (it, m[0], m[1], kind)
                if self.reconfigured:
                    continue
                if m[1] in ("rej", "srej"):
                    if not want_rej:
                        return "iter %d: client %d: request for %#x rejected, reference grants %#x" % (it, m[0], sv, g)
                else:
                    if want_rej:
                        return "iter %d: client %d: request for %#x confirmed, reference grants nothing of it" % (it, m[0], sv)
                    if m[2] != g:
                        return "iter %d: client %d: confirmed services %#x, reference grant %#x" % (it, m[0], m[2], g)
            elif m[1] == "sl":
                ts, n, lines = m[2], m[3], m[4]
                if ts not in self.by_ts:
                    return "iter %d: client %d got a frame with unknown timestamp %d" % (it, m[0], ts)
                if ts <= c["last_ts"]:
                    return "iter %d: client %d got frame ts=%d after ts=%d (duplicate or reordered)" % (it, m[0], ts, c["last_ts"])
                c["last_ts"] = ts
                s = self.by_ts[ts]
                ex = [e for e in c["expect"] if e["seq"] == s]
                if not ex:
                    return "iter %d: client %d got frame %d which was captured while it was not subscribed" % (it, m[0], s)
                e = ex[0]
                e["how"] = "delivered"
                src = self.frames[s][1][:(e["count"] if self.frames[s][2] else max(e["count"] - 1, 0))]
                want = [l for l in src if l[0] & e["mask"]]
                if n != len(lines):
                    return "iter %d: client %d frame %d: line count field %d, %d lines" % (it, m[0], s, n, len(lines))
                # the client's buffers hold vbi_count lines (the count it was told in its CNF): more cannot be sent
                alts = [want, want[:e["ml"]]]
                if self.reconfigured:
                    # the device was re-programmed after the frame was captured: the daemon filters with the grant the
                    # client has when the frame is sent (a subset of what it had: services the device dropped)
                    for src_a in ([x for x in a["clients"] if x["id"] == m[0]], [x for x in (prev["clients"] if prev else []) if x["id"] == m[0]]):
                        for x in src_a:
                            w2 = [l for l in src if l[0] & x["all"] & e["mask"]]
                            alts += [w2, w2[:e["ml"]]]
                if lines not in alts:
                    trunc = [l for l in src[:e["ml"]] if l[0] & e["mask"]]
                    if lines == trunc:
                        self.note_known("filter-truncation: lines of a client's services beyond index vbi_count (its line count "
                                        "at the time of its own request) are not delivered")
                    else:
                        return "iter %d: client %d frame %d: delivered lines %s, captured lines of its services %s" % (
                            it, m[0], s, lines, want)
            elif m[1] == "eof":
                c["gone"] = True
        # ---- which expected frames left the client's pending set in this iteration, and why
        cur = {c["id"]: c for c in a["clients"]}
        for k, c in self.cl.items():
            ac = cur.get(k)
            pend = set()
            if ac is not None and ac["cur"] is not None:
                pend = set(seqs[pos[ac["cur"]]:])
            for e in c["expect"]:
                if e["left"] is None and e["seq"] not in pend:
                    e["left"] = it
                    e["why"] = self.why_left(k, e, a, prev, ac)
        self.prev = a
        self.relall_since = False
        return None

    def why_left(self, k, e, a, prev, ac):
        """a justification for dropping, evaluated at the moment the frame left the pending set (used only if the
        frame is never delivered)"""
        c = self.cl[k]
        if ac is None or ac["st"] != 2:
            return "closed"
        if c["closed_at"] is not None:
            return "closed"
        if self.relall_since:
            return "flush"
        if self.reconfigured and ac["all"] == 0 and ac["cur"] is None:
            return "grant-lost"      # repaired update_services: the device grants the client nothing any more
        if ac["wl"] in (SCNF, SREJ) and c["svc_ops"] > 0 and ac["cur"] is None:
            return "own-service-change"
        if prev is not None and prev["free"] == 0 and prev["q"] and any(x.startswith("read:") for x in a["dev"]):
            pc = [x for x in prev["clients"] if x["id"] == k]
            if pc and pc[0]["cur"] == prev["q"][0][0] and e["seq"] == prev["q"][0][0]:
                return "overflow"        # the client lagged by the whole queue
        return None

    def finish(self):
        last = self.prev
        for k, c in self.cl.items():
            ac = None
            if last:
                for x in last["clients"]:
                    if x["id"] == k:
                        ac = x
            undeliv = [e for e in c["expect"] if e["how"] != "delivered" and e["left"] is not None]
            if c["closed_at"] is not None or c["gone"]:
                continue
            bad = []
            for e in undeliv:
                if e["why"] in ("closed", "flush", "own-service-change", "overflow", "grant-lost"):
                    continue
                bad.append(e)
            # one message may still sit in the daemon's write buffer: the frame sent last
            if ac is not None and ac["wl"] > 0 and len(bad) == 1:
                later = [e for e in c["expect"] if e["how"] == "delivered" and e["seq"] > bad[0]["seq"]]
                if not later and ac["wl"] <= SL_BASE + 64 * len(self.frames[bad[0]["seq"]][1]):
                    bad = []
            for e in bad:
                return "client %d never got frame %d (captured while it was subscribed; it left the queue in iteration %d " \
                       "without a service change, disconnect or overflow of that client)" % (k, e["seq"], e["left"])
        return None


def prev_count(o, prev):
    """count[0]+count[1] of the fake device for the services it decodes = (L+1) * popcount(active)"""
    return (o.L + 1) * popcount(o.active_before)
