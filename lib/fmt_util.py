"""Sender side of property C02: Teletext packet encoder, page/row generators, and the *sender spec*
(what a receiver must hold in its page store after each terminated transmission), written from
EN 300 706 chapters 7-9 and the wording of the property - independent of packet.c."""

HAM8 = [0x15, 0x02, 0x49, 0x5E, 0x64, 0x73, 0x38, 0x2F, 0xD0, 0xC7, 0x8C, 0x9B, 0xA1, 0xB6, 0xFD, 0xEA]

def par(c):
    c &= 0x7F
    return c | (0x80 if bin(c).count("1") % 2 == 0 else 0)

def hx(bs):
    return "".join("%02x" % b for b in bs) or "-"

def addr(mag, packet):
    """mag 1..8, packet 0..31 -> the two address bytes"""
    m = mag & 7
    return [HAM8[m | ((packet & 1) << 3)], HAM8[packet >> 1]]

def header_packet(mag, page, subno, c4, c5, c6, ctl, text32):
    """ctl = C7..C14 as bits 0..7 (C11 = bit 4 serial, C12-C14 = bits 5-7 national option)"""
    s1, s2, s3, s4 = subno & 15, (subno >> 4) & 7, (subno >> 8) & 15, (subno >> 12) & 3
    b = addr(mag, 0)
    b += [HAM8[page & 15], HAM8[page >> 4]]
    b += [HAM8[s1], HAM8[s2 | (c4 << 3)], HAM8[s3], HAM8[s4 | (c5 << 2) | (c6 << 3)]]
    b += [HAM8[ctl & 15], HAM8[ctl >> 4]]
    assert len(text32) == 32
    return b + list(text32)

def row_packet(mag, row, bytes40):
    assert len(bytes40) == 40
    return addr(mag, row) + list(bytes40)

def enc_link(mag, pgno, subno):
    """six Hamming 8/4 bytes of one X/27 link (9.6.1): page units, tens, S1, S2+M1, S3, S4+M2+M3;
    the magazine is sent relative (XOR) to the packet's magazine"""
    m = ((pgno >> 8) & 7) ^ (mag & 7)
    s1, s2, s3, s4 = subno & 15, (subno >> 4) & 7, (subno >> 8) & 15, (subno >> 12) & 3
    return [HAM8[pgno & 15], HAM8[(pgno >> 4) & 15], HAM8[s1], HAM8[s2 | ((m & 1) << 3)],
            HAM8[s3], HAM8[s4 | (((m >> 1) & 1) << 2) | (((m >> 2) & 1) << 3)]]

def x27_packet(mag, links, control):
    b = addr(mag, 27) + [HAM8[0]]
    for (pg, sn) in links:
        b += enc_link(mag, pg, sn)
    b += [HAM8[control & 15], 0x00, 0x00]
    assert len(b) == 42
    return b

NATIONAL_CTL = lambda nat: ((nat >> 2) & 1) << 5 | ((nat >> 1) & 1) << 6 | (nat & 1) << 7   # C12 C13 C14

# ---------------------------------------------------------------------------- row content
ATTR_GROUPS = {
    "alpha": list(range(0x00, 0x08)), "mosaic": list(range(0x10, 0x18)),
    "flash": [0x08, 0x09], "box": [0x0A, 0x0B], "size": [0x0C, 0x0D, 0x0E, 0x0F],
    "conceal": [0x18], "sep": [0x19, 0x1A], "esc": [0x1B], "bg": [0x1C, 0x1D], "hold": [0x1E, 0x1F],
}
NATIONAL_CODES = [0x23, 0x24, 0x40, 0x5B, 0x5C, 0x5D, 0x5E, 0x5F, 0x60, 0x7B, 0x7C, 0x7D, 0x7E, 0x7F]

def gen_row(rng, style=None):
    """40 seven-bit codes"""
    style = style or rng.choice(["text", "text", "attr", "mosaic", "hold", "size", "box", "random", "blank", "national"])
    if style == "blank":
        return [0x20] * 40
    if style == "random":
        return [rng.randrange(128) for _ in range(40)]
    out = []
    for col in range(40):
        k = rng.random()
        if style == "text":
            c = rng.randrange(0x20, 0x80) if k > 0.08 else rng.randrange(0x20)
        elif style == "national":
            c = rng.choice(NATIONAL_CODES) if k > 0.15 else rng.choice([0x1B, rng.randrange(0x20, 0x80)])
        elif style == "attr":
            c = rng.randrange(0x20) if k < 0.5 else rng.randrange(0x20, 0x80)
        elif style == "mosaic":
            if k < 0.12: c = rng.choice(ATTR_GROUPS["mosaic"])
            elif k < 0.17: c = rng.choice(ATTR_GROUPS["alpha"])
            elif k < 0.25: c = rng.choice(ATTR_GROUPS["sep"] + ATTR_GROUPS["hold"] + ATTR_GROUPS["bg"])
            else: c = rng.randrange(0x20, 0x80)
        elif style == "hold":
            if k < 0.15: c = rng.choice(ATTR_GROUPS["mosaic"])
            elif k < 0.3: c = rng.choice(ATTR_GROUPS["hold"])
            elif k < 0.38: c = rng.choice(ATTR_GROUPS["alpha"] + ATTR_GROUPS["size"] + ATTR_GROUPS["sep"])
            elif k < 0.5: c = rng.randrange(0x20)
            else: c = rng.choice([0x7F, 0x35, 0x6A, rng.randrange(0x20, 0x80)])
        elif style == "size":
            if k < 0.25: c = rng.choice(ATTR_GROUPS["size"])
            elif k < 0.3: c = rng.randrange(0x20)
            else: c = rng.randrange(0x20, 0x80)
        elif style == "box":
            if k < 0.2 and col < 39 and out and out[-1] in (0x0A, 0x0B): c = out[-1]
            elif k < 0.3: c = rng.choice(ATTR_GROUPS["box"])
            elif k < 0.35: c = rng.randrange(0x20)
            else: c = rng.randrange(0x20, 0x80)
        out.append(c)
    # attributes in the last columns are where the off-by-one cases live
    if rng.random() < 0.3:
        out[rng.choice([37, 38, 39])] = rng.choice(ATTR_GROUPS["size"] + ATTR_GROUPS["box"])
    return out

def gen_page_rows(rng):
    """rows 0..24 as 7-bit codes (row 0: 40 codes, the first 8 are replaced by the address bytes)"""
    kind = rng.choice(["mixed", "mixed", "text", "graphics", "dh", "random"])
    rows = []
    for r in range(25):
        if kind == "text": st = rng.choice(["text", "national", "attr", "blank"])
        elif kind == "graphics": st = rng.choice(["mosaic", "hold", "hold"])
        elif kind == "dh": st = rng.choice(["size", "size", "text", "hold"])
        elif kind == "random": st = "random"
        else: st = None
        rows.append(gen_row(rng, st))
    return rows

# ---------------------------------------------------------------------------- sender spec
class Stored:
    """what the page store must hold for one (pgno, subno)"""
    def __init__(self):
        self.rows = [[0x20] * 40 for _ in range(25)]       # bytes as transmitted (with parity)
        self.flags = 0
        self.national = 0
        self.have_flof = 0
        self.has24 = 0
        self.links = [(0xFFF, 0xFFFF)] * 6                  # unset links (only their low bits are observable)
        self.pgno = 0
        self.subno = 0
        self.x28 = None                                     # None or (x28_designations, cs0, cs1, fgclut, bgclut)
    def copy(self):
        s = Stored()
        s.rows = [list(r) for r in self.rows]
        s.flags, s.national, s.have_flof, s.has24 = self.flags, self.national, self.have_flof, self.has24
        s.links = list(self.links); s.pgno, s.subno = self.pgno, self.subno
        s.x28 = self.x28
        return s
    def raw1000(self):
        out = []
        for r in self.rows:
            out += r
        return out

class Transmission:
    def __init__(self, mag, page, subno, c4, c5, c6, ctl, text32, rows, row_order, x27):
        self.mag, self.page, self.subno = mag, page, subno
        self.c4, self.c5, self.c6, self.ctl = c4, c5, c6, ctl
        self.text32 = text32          # 32 bytes with parity
        self.rows = rows              # dict row -> 40 bytes with parity
        self.row_order = row_order
        self.x27 = x27                # None or (links, control)
        self.x28 = None               # None or (cs0, cs1, remap): an X/28/0 format 1 packet of this transmission
        self.pgno = (mag if mag else 8) * 256 + page
    def packets(self):
        out = [header_packet(self.mag, self.page, self.subno, self.c4, self.c5, self.c6, self.ctl, self.text32)]
        body = [("row", r) for r in self.row_order]
        return out, body
    def apply(self, store):
        """sender spec: the stored page after this transmission has been terminated"""
        key = (self.pgno, self.subno)
        old = store.get(key)
        s = old.copy() if (old is not None and not self.c4) else Stored()
        s.pgno, s.subno = key
        hdr = header_packet(self.mag, self.page, self.subno, self.c4, self.c5, self.c6, self.ctl, self.text32)[2:]
        s.rows[0] = hdr
        for r, b in self.rows.items():
            if r <= 24:
                s.rows[r] = list(b)
            if r == 24:
                s.has24 = 1
        sub = self.subno | (self.c4 << 7) | (self.c5 << 14) | (self.c6 << 15)
        s.flags = (self.ctl << 16) | sub
        s.national = ((self.ctl >> 7) & 1) | (((self.ctl >> 6) & 1) << 1) | (((self.ctl >> 5) & 1) << 2)
        if self.x27 is not None:
            links, control = self.x27
            s.links = list(links)
            s.have_flof = control >> 3
        if self.x28 is not None:
            # packet.c parse_28_29, designation 0: character set codes and colour table re-mapping (EN 300 706 9.4.2)
            cs0, cs1, remap = self.x28
            des = (s.x28[0] if s.x28 else 0) | 1
            s.x28 = (des, cs0, cs1, [0, 0, 0, 8, 8, 16, 16, 16][remap], [0, 8, 16, 8, 16, 8, 16, 24][remap])
        store[key] = s
        return s
