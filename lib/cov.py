#!/usr/bin/env python3
"""Line coverage of the real C code reached by a check's correspondence stream (DESIGN.md 4b: "generator quality bounds
what the correspondence sees").  The same harness and the same cases are run once more in a gcov-instrumented build
(-O0 --coverage, no sanitizer); the report lists, for the files and functions the property is anchored in
(properties.jsonl `anchors`), how many executable lines the stream reached.  It is support for the tie between model and
code, never a proof obligation: a function the stream never enters is a function on which the model was not compared."""
import gzip, json, os, re, shutil, subprocess, tempfile
import verif

COV_FLAGS = ["-O0", "-g", "--coverage", "-fno-omit-frame-pointer"]


def anchors_of(prop):
    files, funcs = [], []
    for l in open(os.path.join(verif.VERIF, "properties.jsonl")):
        if not l.strip():
            continue
        p = json.loads(l)
        if p["id"] != prop:
            continue
        files = list(p["anchors"].get("files", []))
        for m in p["anchors"].get("mechanism", []) + p["anchors"].get("state", []):
            funcs += re.findall(r"\b([A-Za-z_]\w+)\s*\(\)", m.get("where", ""))
    return files, sorted(set(funcs))


def _depth(path):
    return len([c for c in os.path.dirname(path).split(os.sep) if c])


def measure(spec, cases, hargs=(), budget_cases=4000):
    """-> dict for the evidence file (or {"error": ...})"""
    files, funcs = anchors_of(spec.prop)
    files = list(getattr(spec, "scope_files", files))
    funcs = sorted(set(funcs) | set(getattr(spec, "scope_functions", [])))
    try:
        exe, err = verif.build_harness(spec.harness, link_lib=spec.harness_link_lib, flags=COV_FLAGS,
                                       extra=getattr(spec, "harness_extra", None), tag="cov")
    except Exception as ex:  # a check that replaces build_harness (C20) is not measured
        return {"error": "coverage build not available: %r" % ex}
    if exe is None:
        return {"error": "coverage build failed: " + err[-400:]}
    hdir = os.path.dirname(exe)
    ldir = None
    if spec.harness_link_lib:
        lib, _ = verif.build_lib(COV_FLAGS, "cov")
        ldir = os.path.dirname(lib) if lib else None
    run = tempfile.mkdtemp(prefix="cov-%s-" % spec.prop, dir=verif.CACHE)
    try:
        # the objects were compiled in "<dir>.tmp<pid>/": strip that directory from the .gcda paths
        env = {"GCOV_PREFIX": run, "GCOV_PREFIX_STRIP": str(_depth(os.path.join(hdir, "x")))}
        cs = cases[:budget_cases]
        verif.run_side([exe] + list(hargs), cs, spec.timeout_per_case, env=env)
        for d in (hdir, ldir):
            if d:
                for f in os.listdir(d):
                    if f.endswith(".gcno"):
                        shutil.copy(os.path.join(d, f), run)
        lines = {}   # (file, line) -> max count ; fn[(file, line)] = function
        fnof = {}
        for f in sorted(os.listdir(run)):
            if not f.endswith(".gcda"):
                continue
            p = subprocess.run(["gcov", "-j", "-t", f], cwd=run, stdout=subprocess.PIPE, stderr=subprocess.DEVNULL)
            try:
                doc = json.loads(p.stdout.decode("utf-8", "replace"))
            except ValueError:
                continue
            for fe in doc.get("files", []):
                path = os.path.normpath(os.path.join(run, fe["file"])) if not os.path.isabs(fe["file"]) else os.path.normpath(fe["file"])
                if not path.startswith(os.path.normpath(verif.REPO) + os.sep):
                    continue
                rel = os.path.relpath(path, verif.REPO)
                for le in fe.get("lines", []):
                    k = (rel, le["line_number"])
                    lines[k] = max(lines.get(k, 0), le.get("count", 0))
                    if le.get("function_name"):
                        fnof[k] = le["function_name"]
        if not lines:
            return {"error": "no coverage data produced"}
        rep = {"cases_run": len(cs), "files": {}, "anchor_functions": {}, "build": "gcc -O0 --coverage, same harness, same cases"}
        for f in files:
            ls = [c for (ff, _), c in lines.items() if ff == f]
            if ls:
                rep["files"][f] = "%d/%d lines" % (sum(1 for c in ls if c > 0), len(ls))
            else:
                rep["files"][f] = "not compiled into this harness"
        byfn = {}
        for k, c in lines.items():
            fn = fnof.get(k)
            if fn:
                t = byfn.setdefault((k[0], fn), [0, 0])
                t[1] += 1
                t[0] += 1 if c > 0 else 0
        never = []
        for fn in funcs:
            hits = [(f, t) for (f, n), t in byfn.items() if n == fn]
            if not hits:
                rep["anchor_functions"][fn] = "not found (macro / inlined / other build)"
                continue
            f, t = max(hits, key=lambda x: x[1][0])
            rep["anchor_functions"][fn] = "%d/%d lines (%s)" % (t[0], t[1], f)
            if t[0] == 0:
                never.append(fn)
        rep["anchor_functions_never_entered"] = never
        # every function of the anchored files, entered or not (names only, compact)
        ent, notent = [], []
        for (f, fn), t in sorted(byfn.items()):
            if f in files:
                (ent if t[0] > 0 else notent).append("%s:%s" % (os.path.basename(f), fn))
        rep["functions_entered_in_anchor_files"] = len(ent)
        rep["functions_not_entered_in_anchor_files"] = notent[:80]
        return rep
    finally:
        shutil.rmtree(run, ignore_errors=True)
