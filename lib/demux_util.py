"""Sender spec for DVB VBI PES / TS streams (EN 300 472, EN 301 775, ISO 13818-1), used by checks/C07.py.

Written from the standards, independent of libzvbi's multiplexer and of the Lean model.
A *frame* is a list of lines (service, field, line_offset, payload) in transmission order; the
expected demux output is given by `expect_frame`."""

def rev8(b):
    return int("{:08b}".format(b)[::-1], 2)

SL_TTX, SL_VPS, SL_CC625_F1, SL_WSS, SL_CC525_F1, SL_CC525_F2, SL_CPR = 0x3, 0x4, 0x8, 0x400, 0x20, 0x40, 0x800

# service -> (data_unit_id, payload bytes, system625, bit-reversed on the wire)
SERVICES = {
    "ttx": (0x02, 42, True, True),
    "ttxs": (0x03, 42, True, True),
    "vps": (0xC3, 13, True, False),
    "wss": (0xC4, 2, True, True),
    "cc": (0xC5, 2, True, True),
    "cc525": (0xB5, 2, False, True),
    "cpr": (0xB4, 3, False, False),
}


def frame_line(svc, field, lo):
    """field 0 = first field; returns the frame line number the demux must report"""
    if lo == 0:
        return 0
    if field == 0:
        return lo
    return (313 if SERVICES[svc][2] else 263) + lo


def data_unit(svc, field, lo, payload, fixed=True):
    du_id, n, _, rev = SERVICES[svc]
    assert len(payload) == n
    lofp = 0xC0 | ((0 if field else 1) << 5) | (lo & 31)   # field_parity 1 = first field
    body = [lofp]
    if svc in ("ttx", "ttxs"):
        body.append(0xE4)                                   # framing code, bit reversed 0x27
    body += [rev8(b) for b in payload] if rev else list(payload)
    if fixed:
        body += [0xFF] * (0x2C - len(body))
    return [du_id, len(body)] + body


def stuffing_unit(n_body=0x2C):
    return [0xFF, n_body] + [0xFF] * n_body


def expect_line(svc, field, lo, payload):
    line = frame_line(svc, field, lo)
    if svc in ("ttx", "ttxs"):
        sid = SL_TTX
    elif svc == "vps":
        sid = SL_VPS
    elif svc == "wss":
        sid = SL_WSS
    elif svc == "cc":
        sid = SL_CC625_F1
    elif svc == "cc525":
        sid = SL_CC525_F1 if field == 0 else SL_CC525_F2
    else:
        sid = SL_CPR
    return "%d:%d:%s" % (sid, line, "".join("%02x" % b for b in payload))


def expect_frame(pts, lines):
    return "pts=%d n=%d" % (pts, len(lines)) + "".join(" " + expect_line(*l) for l in lines)


def pts_bytes(pts, mark=0x21):
    return [mark | ((pts >> 29) & 0x0E), (pts >> 22) & 0xFF, ((pts >> 14) & 0xFE) | 1,
            (pts >> 7) & 0xFF, ((pts << 1) & 0xFE) | 1]


def pes_packet(pts, units, data_identifier=0x10, min_size=184, fixed=True, stream_id=0xBD, with_pts=True):
    """one VBI PES packet of N x 184 bytes: 45 byte header, data_identifier, data units, stuffing"""
    body = []
    for u in units:
        body += u
    size = 46 + len(body)
    n = max((size + 183) // 184 * 184, min_size)
    fill = n - size
    if fixed:
        while fill >= 46:
            body += stuffing_unit(); fill -= 46
        assert fill == 0 or not fixed or True
    # variable-length stuffing for what is left (1 byte cannot be expressed: grow by one TS payload)
    while fill > 0:
        if fill == 1:
            n += 184; fill += 184
        k = min(fill - 2, 255)
        body += [0xFF, k] + [0xFF] * k
        fill -= 2 + k
    length = n - 6
    hdr = [0x00, 0x00, 0x01, stream_id, length >> 8, length & 0xFF,
           0x84, 0x80 if with_pts else 0x00, 0x24]
    hdr += pts_bytes(pts) if with_pts else [0xFF] * 5
    hdr += [0xFF] * (45 - len(hdr))
    out = hdr + [data_identifier] + body
    assert len(out) == n, (len(out), n)
    return out


def ts_packets(pes, pid, cc):
    """split one PES packet (N x 184 bytes) into TS packets; returns (list of 188-byte packets, next cc)"""
    out = []
    assert len(pes) % 184 == 0
    for i in range(0, len(pes), 184):
        pusi = 0x40 if i == 0 else 0
        out.append([0x47, pusi | (pid >> 8), pid & 0xFF, 0x10 | (cc & 15)] + pes[i:i + 184])
        cc = (cc + 1) & 15
    return out, cc


def ts_other(rng, pid, kind):
    """a TS packet the demux must ignore: other PID, null packet, adaptation-field-only packet of our PID"""
    if kind == "null":
        p = 0x1FFF
        return [0x47, p >> 8, p & 0xFF, 0x10] + [0xFF] * 184
    if kind == "af":
        return [0x47, pid >> 8, pid & 0xFF, 0x20 | rng.randrange(16), 183, 0x00] + [0xFF] * 182
    while True:
        p = rng.randrange(0x10, 0x1FFF)
        if p != pid:
            break
    pay = [rng.choice([0x00, 0x01, 0xBD, 0xFF, rng.randrange(256)]) for _ in range(184)]
    pay = [0x46 if b == 0x47 else b for b in pay]
    return [0x47, rng.choice([0, 0x40]) | (p >> 8), p & 0xFF, 0x10 | rng.randrange(16)] + pay


def has_start_code(b):
    for i in range(len(b) - 2):
        if b[i] == 0 and b[i + 1] == 0 and b[i + 2] == 1:
            return True
    return False


def gen_frame_lines(rng, system625=True, prev_last=None):
    """a legal frame: ascending frame lines, no duplicates; first line <= prev_last (so the frame
    boundary is recognisable, EN 301 775 4.1)"""
    for _ in range(200):
        cand = []
        if system625:
            for field in (0, 1):
                for lo in range(7, 23):
                    r = rng.random()
                    if lo == 16 and field == 0 and r < 0.15:
                        cand.append(("vps", field, lo))
                    elif lo == 21 and field == 0 and r < 0.15:
                        cand.append(("cc", field, lo))
                    elif r < 0.3:
                        cand.append((rng.choice(["ttx", "ttx", "ttxs"]), field, lo))
                if field == 0 and rng.random() < 0.2:
                    cand.append(("wss", 0, 23))
        else:
            for field in (0, 1):
                for lo in range(7, 24):
                    r = rng.random()
                    if r < 0.15:
                        cand.append(("cc525", field, lo))
                    elif r < 0.25:
                        cand.append(("cpr", field, lo))
        if rng.random() < 0.3:
            cand = cand[:rng.randrange(1, 4)]
        if not cand:
            continue
        first = frame_line(*cand[0])
        if prev_last is not None and first > prev_last:
            continue
        lines = []
        for svc, field, lo in cand:
            n = SERVICES[svc][1]
            k = rng.random()
            if k < 0.1:
                pay = [0] * n
            elif k < 0.15:
                pay = [0x80, 0x00, 0x00][:n] + [rng.randrange(256) for _ in range(max(0, n - 3))]
            else:
                pay = [rng.randrange(256) for _ in range(n)]
            wire = [rev8(b) for b in pay] if SERVICES[svc][3] else pay
            if has_start_code([0xE4] + wire + [0xFF]):
                pay = [b | 0x10 for b in pay]
            lines.append((svc, field, lo, pay))
        return lines
    return [("ttx", 0, 7, [0x55] * 42)]
